import TenpyModel.C11.P2_Add5
/-!
# `MPO.__add__` on integer indices, part 6: the per-site step for the key `IdL`, and the assembled step
-/
namespace TenpyModel.Ops

variable {κ α : Type} [DecidableEq κ] [Semiring α]
variable {m m' : BM κ} {A B : List (Edge κ α)} {sA sB : κ → α} {sS : SK κ → α}

/-- value of a summand at an optional marker -/
def atO (s : κ → α) : Option κ → α
  | some k => s k
  | none => 0

omit [DecidableEq κ] in
theorem expectO_l (m : BM κ) (sA sB : κ → α) : expectO m sA sB SK.l = atO sA m.la + atO sB m.lb := by
  unfold expectO atO
  cases m.la <;> cases m.lb <;> rfl

theorem step_l_A_none (op : String) (ha : m.la = none) :
    (A.map (fun e => if keepAo m m' e then (if injAo m e.kL = SK.l ∧ e.op = op
        then e.c * sS (injAo m' e.kR) else 0) else 0)).sum = 0 := by
  apply sum_map_eq_zero
  intro e _
  have : ¬ (injAo m e.kL = SK.l ∧ e.op = op) := by
    intro h
    have := (injAo_eq_l m e.kL).1 h.1
    rw [ha] at this
    cases this
  rw [if_neg this]
  simp

theorem step_l_B_none (op : String) (hb : m.lb = none) :
    (B.map (fun e => if keepBo m m' e then (if injBo m e.kL = SK.l ∧ e.op = op
        then e.c * sS (injBo m' e.kR) else 0) else 0)).sum = 0 := by
  apply sum_map_eq_zero
  intro e _
  have : ¬ (injBo m e.kL = SK.l ∧ e.op = op) := by
    intro h
    have := (injBo_eq_l m e.kL).1 h.1
    rw [hb] at this
    cases this
  rw [if_neg this]
  simp

/-- `A`-part of the step from `IdL`, the right bond of the first summand has no `IdL` -/
theorem step_l_A_some_none (hs : SiteHyp m m' A B) (hn : NextOK m' sA sB sS) (op : String) (x : κ)
    (ha : m.la = some x) (ha' : m'.la = none) :
    (A.map (fun e => if keepAo m m' e then (if injAo m e.kL = SK.l ∧ e.op = op
        then e.c * sS (injAo m' e.kR) else 0) else 0)).sum = stepSum sA A op x := by
  rw [stepSum]
  apply sum_congr_map
  intro e he
  obtain ⟨h1, h2⟩ := hs.stdA e he
  rw [keepAo_of_std m m' e h1 h2, if_pos rfl, hn.val _ (validO_injAo m' e.kR)]
  have hne : some e.kR ≠ m'.la := by rw [ha']; intro h; cases h
  rw [expectO_injAo_ne m' sA sB e.kR hne]
  by_cases hc : e.kL = x ∧ e.op = op
  · rw [if_pos hc, if_pos ⟨(injAo_eq_l m e.kL).2 (by rw [hc.1, ha]), hc.2⟩]
  · rw [if_neg hc, if_neg]
    intro h
    have := (injAo_eq_l m e.kL).1 h.1
    rw [ha] at this
    exact hc ⟨Option.some.inj this, h.2⟩

/-- `A`-part of the step from `IdL`, the right bond of the first summand has `IdL`: the `IdL → IdL` entry
also carries the `IdL` suffix of the second summand -/
theorem step_l_A_some_some (hs : SiteHyp m m' A B) (hn : NextOK m' sA sB sS) (op : String) (x x' : κ)
    (ha : m.la = some x) (ha' : m'.la = some x') :
    (A.map (fun e => if keepAo m m' e then (if injAo m e.kL = SK.l ∧ e.op = op
        then e.c * sS (injAo m' e.kR) else 0) else 0)).sum
      = stepSum sA A op x + entryCoeff A x x' op * atO sB m'.lb := by
  rw [stepSum, entryCoeff, ← sum_map_mul_right'', ← sum_map_add]
  apply sum_congr_map
  intro e he
  obtain ⟨h1, h2⟩ := hs.stdA e he
  rw [keepAo_of_std m m' e h1 h2, if_pos rfl, hn.val _ (validO_injAo m' e.kR)]
  by_cases hc : e.kL = x ∧ e.op = op
  · rw [if_pos hc, if_pos ⟨(injAo_eq_l m e.kL).2 (by rw [hc.1, ha]), hc.2⟩]
    by_cases hr : e.kR = x'
    · have h3 : e.kL = x ∧ e.kR = x' ∧ e.op = op := ⟨hc.1, hr, hc.2⟩
      have : injAo m' e.kR = SK.l := (injAo_eq_l m' e.kR).2 (by rw [hr, ha'])
      rw [if_pos h3, this, expectO_l, ha', hr, mul_add]
      rfl
    · have h3 : ¬ (e.kL = x ∧ e.kR = x' ∧ e.op = op) := fun h => hr h.2.1
      have hne : some e.kR ≠ m'.la := by
        rw [ha']; intro h; exact hr (Option.some.inj h)
      rw [if_neg h3, zero_mul, add_zero, expectO_injAo_ne m' sA sB e.kR hne]
  · have h3 : ¬ (e.kL = x ∧ e.kR = x' ∧ e.op = op) := fun h => hc ⟨h.1, h.2.2⟩
    rw [if_neg hc, if_neg h3, zero_mul, add_zero, if_neg]
    intro h
    have := (injAo_eq_l m e.kL).1 h.1
    rw [ha] at this
    exact hc ⟨Option.some.inj this, h.2⟩

/-- `B`-part of the step from `IdL` when the `[0,0]` block of the first summand does not exist -/
theorem step_l_B_keep (hs : SiteHyp m m' A B) (hn : NextOK m' sA sB sS) (op : String) (y : κ)
    (hb : m.lb = some y) (ha' : m'.la = none) :
    (B.map (fun e => if keepBo m m' e then (if injBo m e.kL = SK.l ∧ e.op = op
        then e.c * sS (injBo m' e.kR) else 0) else 0)).sum = stepSum sB B op y := by
  rw [stepSum]
  apply sum_congr_map
  intro e he
  obtain ⟨h1, h2⟩ := hs.stdB e he
  rw [hn.val _ (validO_injBo m' e.kR)]
  by_cases hc : e.kL = y ∧ e.op = op
  · have hkl : some e.kL = m.lb := by rw [hc.1, hb]
    have hkr : ¬ some e.kL = m.rb := fun h => hs.distB e.kL hkl.symm h.symm
    have hkeep : keepBo m m' e = true := by
      rw [keepBo_of_std m m' e hs.distB h1 h2]
      simp [hkr, ha']
    rw [hkeep, if_pos rfl, if_pos hc, if_pos ⟨(injBo_eq_l m e.kL).2 hkl, hc.2⟩]
    by_cases hr : some e.kR = m'.lb
    · have : injBo m' e.kR = SK.l := (injBo_eq_l m' e.kR).2 hr
      rw [this, expectO_l, ha', ← hr]
      simp [atO]
    · rw [expectO_injBo_ne m' sA sB e.kR hr hn.req]
  · rw [if_neg hc]
    have : ¬ (injBo m e.kL = SK.l ∧ e.op = op) := by
      intro h
      have := (injBo_eq_l m e.kL).1 h.1
      rw [hb] at this
      exact hc ⟨Option.some.inj this, h.2⟩
    rw [if_neg this]
    simp

/-- `B`-part of the step from `IdL` when the `[0,0]` block of the first summand exists: the `IdL → IdL`
entry of the second summand is dropped -/
theorem step_l_B_drop (hs : SiteHyp m m' A B) (hn : NextOK m' sA sB sS) (op : String) (x x' y : κ)
    (ha : m.la = some x) (ha' : m'.la = some x') (hb : m.lb = some y) :
    stepSum sB B op y
      = (B.map (fun e => if keepBo m m' e then (if injBo m e.kL = SK.l ∧ e.op = op
          then e.c * sS (injBo m' e.kR) else 0) else 0)).sum
        + (match m'.lb with | some y' => entryCoeff B y y' op * sB y' | none => 0) := by
  cases hb' : m'.lb with
  | none =>
    rw [add_zero, stepSum]
    apply sum_congr_map
    intro e he
    obtain ⟨h1, h2⟩ := hs.stdB e he
    rw [hn.val _ (validO_injBo m' e.kR)]
    have hr : some e.kR ≠ m'.lb := by rw [hb']; intro h; cases h
    rw [expectO_injBo_ne m' sA sB e.kR hr hn.req]
    by_cases hc : e.kL = y ∧ e.op = op
    · have hkl : some e.kL = m.lb := by rw [hc.1, hb]
      have hkr : ¬ some e.kL = m.rb := fun h => hs.distB e.kL hkl.symm h.symm
      have hkeep : keepBo m m' e = true := by
        rw [keepBo_of_std m m' e hs.distB h1 h2]
        simp [hkr, hb']
      rw [hkeep, if_pos rfl, if_pos hc, if_pos ⟨(injBo_eq_l m e.kL).2 hkl, hc.2⟩]
    · rw [if_neg hc]
      have : ¬ (injBo m e.kL = SK.l ∧ e.op = op) := by
        intro h
        have := (injBo_eq_l m e.kL).1 h.1
        rw [hb] at this
        exact hc ⟨Option.some.inj this, h.2⟩
      rw [if_neg this]
      simp
  | some y' =>
    show _ = _ + entryCoeff B y y' op * sB y'
    rw [stepSum, entryCoeff, ← sum_map_mul_right'', ← sum_map_add]
    apply sum_congr_map
    intro e he
    obtain ⟨h1, h2⟩ := hs.stdB e he
    rw [hn.val _ (validO_injBo m' e.kR)]
    by_cases hc : e.kL = y ∧ e.op = op
    · have hkl : some e.kL = m.lb := by rw [hc.1, hb]
      have hkr : ¬ some e.kL = m.rb := fun h => hs.distB e.kL hkl.symm h.symm
      have hinj : injBo m e.kL = SK.l ∧ e.op = op := ⟨(injBo_eq_l m e.kL).2 hkl, hc.2⟩
      rw [if_pos hc]
      by_cases hr : e.kR = y'
      · have h3 : e.kL = y ∧ e.kR = y' ∧ e.op = op := ⟨hc.1, hr, hc.2⟩
        have hkeep : keepBo m m' e = false := by
          rw [keepBo_of_std m m' e hs.distB h1 h2]
          simp [hkl, hr, hb', ha, ha']
        rw [hkeep, if_pos h3, hr]
        simp
      · have h3 : ¬ (e.kL = y ∧ e.kR = y' ∧ e.op = op) := fun h => hr h.2.1
        have hne : some e.kR ≠ m'.lb := by
          rw [hb']; intro h; exact hr (Option.some.inj h)
        have hkeep : keepBo m m' e = true := by
          rw [keepBo_of_std m m' e hs.distB h1 h2]
          simp [hkr, hne]
        rw [hkeep, if_pos rfl, if_pos hinj, if_neg h3, zero_mul, add_zero,
          expectO_injBo_ne m' sA sB e.kR hne hn.req]
    · have h3 : ¬ (e.kL = y ∧ e.kR = y' ∧ e.op = op) := fun h => hc ⟨h.1, h.2.2⟩
      have : ¬ (injBo m e.kL = SK.l ∧ e.op = op) := by
        intro h
        have := (injBo_eq_l m e.kL).1 h.1
        rw [hb] at this
        exact hc ⟨Option.some.inj this, h.2⟩
      rw [if_neg hc, if_neg h3, if_neg this, zero_mul, add_zero]
      simp

theorem step_l (hs : SiteHyp m m' A B) (hn : NextOK m' sA sB sS) (op : String) :
    stepSum sS (symLayer m m' A B) op SK.l
      = expectO m (stepSum sA A op) (stepSum sB B op) SK.l := by
  rw [stepSum_symLayer, expectO_l]
  cases ha : m.la with
  | none =>
    have ha' := hs.prefA ha
    rw [step_l_A_none op ha, zero_add]
    cases hb : m.lb with
    | none => rw [step_l_B_none op hb]; simp [atO]
    | some y => rw [step_l_B_keep hs hn op y hb ha']; simp [atO]
  | some x =>
    cases ha' : m'.la with
    | none =>
      rw [step_l_A_some_none hs hn op x ha ha']
      cases hb : m.lb with
      | none => rw [step_l_B_none op hb]; simp [atO]
      | some y => rw [step_l_B_keep hs hn op y hb ha']; simp [atO]
    | some x' =>
      rw [step_l_A_some_some hs hn op x x' ha ha']
      cases hb : m.lb with
      | none =>
        rw [step_l_B_none op hb, hs.prefB hb]
        simp [atO]
      | some y =>
        show _ = stepSum sA A op x + stepSum sB B op y
        rw [step_l_B_drop hs hn op x x' y ha ha' hb]
        cases hb' : m'.lb with
        | none => simp [atO]
        | some y' =>
          simp only [atO]
          rw [hs.agreeL x x' y y' ha ha' hb hb' op, add_assoc, add_comm (entryCoeff B y y' op * sB y')]

/-- the assembled step: the values of the sum in front of the site are the expected ones -/
theorem step_all (hs : SiteHyp m m' A B) (hn : NextOK m' sA sB sS) (op : String) :
    NextOK m (stepSum sA A op) (stepSum sB B op) (stepSum sS (symLayer m m' A B) op) := by
  constructor
  · intro K hK
    cases K with
    | l => exact step_l hs hn op
    | r => exact step_r hs hn op
    | a k => exact step_a hs hn op k hK
    | b k => exact step_b hs hn op k hK
  · intro ka kb ha hb
    exact step_req hs hn op ka kb ha hb

end TenpyModel.Ops
