import TenpyModel.C11.P2_Add1
/-!
# `MPO.__add__` on integer indices, part 2: per-bond injective relabelling of an automaton

`relabel_paths`: if the keys of a layered automaton are renamed bond by bond by maps `φ i` that are
defined and injective on the keys that occur on bond `i`, the path sums do not change.
-/
namespace TenpyModel.Ops

variable {κ κ' α : Type} [DecidableEq κ] [DecidableEq κ'] [Semiring α]

theorem sum_filterMap_map {β γ : Type} (l : List β) (f : β → Option γ) (g : γ → α) :
    ((l.filterMap f).map g).sum = (l.map (fun x => match f x with | some y => g y | none => 0)).sum := by
  induction l with
  | nil => rfl
  | cons x l ih =>
    rw [List.filterMap_cons]
    cases h : f x with
    | none => simp [h, ih]
    | some y => simp [h, ih]

/-- rename both ends of an edge; dropped when one end has no new name -/
def relabOpt (f g : κ → Option κ') (e : Edge κ α) : Option (Edge κ' α) :=
  match f e.kL, g e.kR with
  | some l, some r => some (⟨l, r, e.op, e.c⟩ : Edge κ' α)
  | _, _ => none

theorem drop_eq_getD_cons {β : Type} (l : List (List β)) (j : Nat) (h : j < l.length) :
    l.drop j = l.getD j [] :: l.drop (j + 1) := by
  rw [List.drop_eq_getElem_cons h]
  simp [List.getD_eq_getElem?_getD, h]

/-- per-bond injective renaming of the keys preserves path sums -/
theorem relabel_paths (φ : Nat → κ → Option κ') (V : Nat → κ → Prop)
    (S : List (List (Edge κ α))) (S' : List (List (Edge κ' α))) (L : Nat)
    (hS : S.length = L) (hS' : S'.length = L)
    (hlayer : ∀ i, i < L → S'.getD i [] = (S.getD i []).filterMap (relabOpt (φ i) (φ (i + 1))))
    (hV : ∀ i, i < L → ∀ e ∈ S.getD i [], V i e.kL ∧ V (i + 1) e.kR)
    (htot : ∀ i k, V i k → ∃ k', φ i k = some k')
    (hinj : ∀ i k k', V i k → V i k' → φ i k = φ i k' → k = k')
    (fin : κ) (fin' : κ') (hfin : V L fin) (hfin' : φ L fin = some fin') :
    ∀ n j, j + n = L → ∀ k k', V j k → φ j k = some k' → ∀ t,
      coeff (pathsFrom fin' (S'.drop j) k') t = coeff (pathsFrom fin (S.drop j) k) t := by
  intro n
  induction n with
  | zero =>
    intro j hj k k' hk hkk t
    have hjL : j = L := by omega
    subst hjL
    rw [List.drop_of_length_le (by omega), List.drop_of_length_le (by omega), pathsFrom_nil, pathsFrom_nil]
    by_cases h : k = fin
    · subst h
      have : k' = fin' := by rw [hfin'] at hkk; exact (Option.some.inj hkk).symm
      simp [this]
    · have : k' ≠ fin' := by
        intro h2
        apply h
        apply hinj j k fin hk hfin
        rw [hkk, hfin', h2]
      simp [h, this]
  | succ n ih =>
    intro j hj k k' hk hkk t
    have hjL : j < L := by omega
    rw [drop_eq_getD_cons S j (by omega), drop_eq_getD_cons S' j (by omega)]
    cases t with
    | nil => rw [coeff_pathsFrom_cons_nil, coeff_pathsFrom_cons_nil]
    | cons op t =>
      rw [coeff_pathsFrom_cons, coeff_pathsFrom_cons, hlayer j hjL, sum_filterMap_map]
      apply sum_congr_map
      intro e he
      obtain ⟨hvl, hvr⟩ := hV j hjL e he
      obtain ⟨l, hl⟩ := htot j _ hvl
      obtain ⟨r, hr⟩ := htot (j + 1) _ hvr
      simp only [relabOpt, hl, hr]
      rw [ih (j + 1) (by omega) e.kR r hvr hr t]
      have hiff : l = k' ↔ e.kL = k := by
        constructor
        · intro h
          apply hinj j _ _ hvl hk
          rw [hl, hkk, h]
        · intro h
          rw [h, hkk] at hl
          exact (Option.some.inj hl).symm
      by_cases h : e.kL = k
      · simp [h, hiff.2 h]
      · have : ¬ l = k' := fun h2 => h (hiff.1 h2)
        simp [h, this]

end TenpyModel.Ops
