import Mathlib.Algebra.BigOperators.Group.List.Basic
import Mathlib.Tactic.Ring
import TenpyModel.C11.ExtEnvProofs1
import TenpyModel.C11.ExtTerms
/-!
# C11 extension / `to_TermList`, helper lemmas 1: one site step (`MPOX.termStep`)

`tl_tsum l g` = `Σ_{(term, pref) ∈ l} pref · g term` values a list of (partial) terms with a weight `g` on
terms; `tl_psum n P G` = `Σ_{x < n} tl_tsum P[x] (G x)` values `partial_L` / `partial_R`.
`tl_termStep_meas`: the value of the two outputs of `termStep` (finished terms valued with `gF`, `partial_R`
with `gR`) as a sum over `op`, `x`, `y` of `op_W[x, y]` times the value of the extended terms.
`tl_termStep_edges`: the same as a sum over the edges of the layer (operator basis without repetition that
contains every name of the layer, edges inside the right bond dimension).
-/
namespace TenpyModel.Ops

section generic
variable {α : Type} [CommSemiring α]

/-- a sum with a single non-zero summand -/
theorem tl_lsum_single {β : Type} [DecidableEq β] (l : List β) (hl : l.Nodup) (y : β) (hy : y ∈ l) (f : β → α) :
    lsum l (fun x => if x = y then f x else 0) = f y := by
  induction l with
  | nil => simp at hy
  | cons a l ih =>
    rw [lsum_cons]
    have hnd := List.nodup_cons.1 hl
    by_cases h : a = y
    · subst h
      have : lsum l (fun x => if x = a then f x else 0) = lsum l (fun _ => (0 : α)) := by
        apply lsum_congr
        intro x hx
        have : x ≠ a := fun hh => hnd.1 (hh ▸ hx)
        simp [this]
      rw [this, lsum_zero]; simp
    · have hy' : y ∈ l := by
        rcases List.mem_cons.1 hy with h1 | h1
        · exact absurd h1.symm h
        · exact h1
      rw [ih hnd.2 hy']; simp [h]

theorem tl_lsum_range_single (n y : Nat) (hy : y < n) (f : Nat → α) :
    lsum (List.range n) (fun x => if x = y then f x else 0) = f y :=
  tl_lsum_single _ List.nodup_range y (List.mem_range.2 hy) f

/-- a loop that changes a measure `M` of its state by `δ i` in iteration `i`, under an invariant -/
theorem tl_foldl_meas {S ι : Type} (Inv : S → Prop) (M : S → α) (f : S → ι → S) (δ : ι → α) (l : List ι)
    (h : ∀ s i, i ∈ l → Inv s → Inv (f s i) ∧ M (f s i) = M s + δ i) (s : S) (hs : Inv s) :
    Inv (l.foldl f s) ∧ M (l.foldl f s) = M s + lsum l δ := by
  induction l generalizing s with
  | nil => simp [hs]
  | cons a l ih =>
    have h1 := h s a List.mem_cons_self hs
    have h2 := ih (fun s i hi => h s i (List.mem_cons_of_mem _ hi)) (f s a) h1.1
    refine ⟨h2.1, ?_⟩
    rw [List.foldl_cons, h2.2, h1.2, lsum_cons, add_assoc]

theorem tl_foldl_inv {S ι : Type} (Inv : S → Prop) (f : S → ι → S) (l : List ι)
    (h : ∀ s i, i ∈ l → Inv s → Inv (f s i)) (s : S) (hs : Inv s) : Inv (l.foldl f s) := by
  induction l generalizing s with
  | nil => exact hs
  | cons a l ih =>
    exact ih (fun s i hi => h s i (List.mem_cons_of_mem _ hi)) (f s a) (h s a List.mem_cons_self hs)

theorem tl_foldr_add {β : Type} (l : List β) (f : β → α) :
    l.foldr (fun e acc => f e + acc) 0 = lsum l f := by
  induction l with
  | nil => rfl
  | cons a l ih => rw [List.foldr_cons, ih, lsum_cons]

theorem tl_getD_modify {β : Type} (P : List β) (y : Nat) (f : β → β) (x : Nat) (d : β) :
    (P.modify y f).getD x d = if x = y ∧ x < P.length then f (P.getD x d) else P.getD x d := by
  simp only [List.getD_eq_getElem?_getD, List.getElem?_modify]
  by_cases h : x < P.length
  · rw [List.getElem?_eq_getElem h]
    by_cases h2 : y = x
    · subst h2; simp [h]
    · have : ¬ (x = y) := fun hh => h2 hh.symm
      simp [h2, this]
  · rw [List.getElem?_eq_none (by omega)]
    simp [h]

theorem tl_getD_set_self {β : Type} (P : List β) (l : Nat) (d : β) : (P.set l d).getD l d = d := by
  by_cases h : l < P.length <;> simp [List.getD_eq_getElem?_getD, h]

theorem tl_getD_set_ne {β : Type} (P : List β) (l x : Nat) (v d : β) (h : x ≠ l) :
    (P.set l v).getD x d = P.getD x d := by
  simp only [List.getD_eq_getElem?_getD, List.getElem?_set]
  have : ¬ (l = x) := fun hh => h hh.symm
  simp [this]

end generic

/-! ## values of term lists -/
section tsum
variable {α : Type} [CommSemiring α]

/-- `Σ_{(term, pref) ∈ l} pref · g term` -/
def tl_tsum (l : List (TTerm α)) (g : List (String × Nat) → α) : α := lsum l (fun t => t.2 * g t.1)

/-- `Σ_{x < n} Σ_{(term, pref) ∈ P[x]} pref · G x term` -/
def tl_psum (n : Nat) (P : List (List (TTerm α))) (G : Nat → List (String × Nat) → α) : α :=
  lsum (List.range n) (fun x => tl_tsum (P.getD x []) (G x))

@[simp] theorem tl_tsum_nil (g : List (String × Nat) → α) : tl_tsum ([] : List (TTerm α)) g = 0 := rfl

theorem tl_tsum_append (l l' : List (TTerm α)) (g : List (String × Nat) → α) :
    tl_tsum (l ++ l') g = tl_tsum l g + tl_tsum l' g := lsum_append _ _ _

theorem tl_tsum_singleton (term : List (String × Nat)) (c : α) (g : List (String × Nat) → α) :
    tl_tsum [(term, c)] g = c * g term := by
  simp [tl_tsum, lsum_singleton]

theorem tl_tsum_congr {l : List (TTerm α)} {g g' : List (String × Nat) → α}
    (h : ∀ tm ∈ l, g tm.1 = g' tm.1) : tl_tsum l g = tl_tsum l g' := by
  apply lsum_congr
  intro tm htm
  rw [h tm htm]

theorem tl_tsum_zero (l : List (TTerm α)) : tl_tsum l (fun _ => 0) = 0 := by
  unfold tl_tsum
  simp [lsum_zero]

/-- the terms of `l`, extended by `f` and multiplied by `c` -/
theorem tl_tsum_map_mul (l : List (TTerm α)) (f : List (String × Nat) → List (String × Nat)) (c : α)
    (g : List (String × Nat) → α) :
    tl_tsum (l.map (fun t => (f t.1, t.2 * c))) g = tl_tsum l (fun term => c * g (f term)) := by
  unfold tl_tsum
  rw [lsum_map]
  apply lsum_congr
  intro t _
  simp only [mul_assoc]

/-- dropping the summands with `pref · c = 0` does not change the value -/
theorem tl_tsum_filter_map_mul (small : α → Bool) (hsmall : ∀ x, small x = true → x = 0)
    (l : List (TTerm α)) (f : List (String × Nat) → List (String × Nat)) (c : α)
    (g : List (String × Nat) → α) :
    tl_tsum ((l.filter (fun t => !small (t.2 * c))).map (fun t => (f t.1, t.2 * c))) g
      = tl_tsum l (fun term => c * g (f term)) := by
  unfold tl_tsum
  rw [lsum_map, lsum_filter]
  apply lsum_congr
  intro t _
  by_cases h : small (t.2 * c) = true
  · simp only [h, Bool.not_true, Bool.false_eq_true, if_false]
    rw [← mul_assoc, hsmall _ h, zero_mul]
  · simp only [h, Bool.not_false, if_true, mul_assoc]

theorem tl_tsum_lsum {β : Type} (l : List (TTerm α)) (m : List β) (h : β → List (String × Nat) → α) :
    tl_tsum l (fun term => lsum m (fun i => h i term)) = lsum m (fun i => tl_tsum l (h i)) := by
  unfold tl_tsum
  rw [lsum_comm]
  apply lsum_congr
  intro t _
  rw [lsum_mul_left]

theorem tl_psum_congr (n : Nat) (P P' : List (List (TTerm α))) (G G' : Nat → List (String × Nat) → α)
    (h : ∀ x, x < n → tl_tsum (P.getD x []) (G x) = tl_tsum (P'.getD x []) (G' x)) :
    tl_psum n P G = tl_psum n P' G' := by
  apply lsum_congr
  intro x hx
  exact h x (List.mem_range.1 hx)

/-- appending `add` to `partial_R[y]` -/
theorem tl_psum_modify (n : Nat) (P : List (List (TTerm α))) (y : Nat) (add : List (TTerm α))
    (G : Nat → List (String × Nat) → α) (hy : y < n) (hP : y < P.length) :
    tl_psum n (P.modify y (fun l => l ++ add)) G = tl_psum n P G + tl_tsum add (G y) := by
  unfold tl_psum
  rw [← tl_lsum_range_single n y hy (fun x => tl_tsum add (G x)), ← lsum_add]
  apply lsum_congr
  intro x _
  rw [tl_getD_modify]
  by_cases h : x = y
  · subst h
    simp [hP, tl_tsum_append]
  · simp [h]

/-- only the entry `l` of `P` is non-empty -/
theorem tl_psum_single (n : Nat) (l : Nat) (hl : l < n) (v : List (TTerm α))
    (G : Nat → List (String × Nat) → α) :
    tl_psum n ((List.replicate n []).set l v) G = tl_tsum v (G l) := by
  unfold tl_psum
  rw [← tl_lsum_range_single n l hl (fun x => tl_tsum v (G x))]
  apply lsum_congr
  intro x hx
  have hx' := List.mem_range.1 hx
  by_cases h : x = l
  · subst h
    simp [List.getD_eq_getElem?_getD, hx']
  · rw [tl_getD_set_ne _ _ _ _ _ h]
    simp [List.getD_eq_getElem?_getD, hx', h]

end tsum

/-! ## the loop body of `termStep` -/
section step
variable {α : Type} [CommSemiring α]

/-- `partial_L` after `if k > 0 and IdL is not None: partial_L[IdL] = None` -/
def tl_pL (k : Nat) (idL : Option Nat) (partialL : List (List (TTerm α))) : List (List (TTerm α)) :=
  if k > 0 then (match idL with | some l => partialL.set l [] | none => partialL) else partialL

/-- the body of the innermost loop (over `y`) of `termStep` -/
def tl_body (small : α → Bool) (ignore : List String) (lay : List (Edge Nat α)) (idR : Option Nat) (k j : Nat)
    (pL : List (List (TTerm α))) (op : String) (x : Nat)
    (acc : List (TTerm α) × List (List (TTerm α))) (y : Nat) : List (TTerm α) × List (List (TTerm α)) :=
  let c := MPOX.opW lay op x y
  if small c then acc else
  let src := pL.getD x []
  if some y = idR then
    (acc.1 ++ (src.filter (fun t => !small (t.2 * c))).map (fun t => (t.1 ++ [(op, j)], t.2 * c)), acc.2)
  else if k > 0 && ignore.contains op then
    (acc.1, acc.2.modify y (fun l => l ++ src.map (fun t => (t.1, t.2 * c))))
  else
    (acc.1, acc.2.modify y (fun l => l ++ src.map (fun t => (t.1 ++ [(op, j)], t.2 * c))))

/-- `termStep` is the triple loop over `tl_body` (definitional) -/
theorem tl_termStep_eq (small : α → Bool) (ignore : List String) (lay : List (Edge Nat α))
    (basis : List String) (chiL chiR : Nat) (idL idR : Option Nat) (k j : Nat)
    (partialL : List (List (TTerm α))) :
    MPOX.termStep small ignore lay basis chiL chiR idL idR k j partialL =
      basis.foldl (fun acc op => (List.range chiL).foldl (fun acc x =>
        (List.range chiR).foldl (tl_body small ignore lay idR k j (tl_pL k idL partialL) op x) acc) acc)
        ([], List.replicate chiR []) := rfl

/-- how a non-finished term is extended on site `j` by the operator `op` -/
def tl_ext (ignore : List String) (k j : Nat) (op : String) (term : List (String × Nat)) :
    List (String × Nat) :=
  if k > 0 && ignore.contains op then term else term ++ [(op, j)]

/-- value of the extension of `term` by an entry `op` of `W[x, y]`: finished (`y = IdR`) or not -/
def tl_K (ignore : List String) (idR : Option Nat) (k j : Nat) (gF : List (String × Nat) → α)
    (gR : Nat → List (String × Nat) → α) (op : String) (y : Nat) (term : List (String × Nat)) : α :=
  if some y = idR then gF (term ++ [(op, j)]) else gR y (tl_ext ignore k j op term)

/-- value of the loop state: finished terms with `gF`, `partial_R` with `gR` -/
def tl_M (chiR : Nat) (gF : List (String × Nat) → α) (gR : Nat → List (String × Nat) → α)
    (acc : List (TTerm α) × List (List (TTerm α))) : α :=
  tl_tsum acc.1 gF + tl_psum chiR acc.2 gR

theorem tl_body_meas (small : α → Bool) (hsmall : ∀ x, small x = true → x = 0) (ignore : List String)
    (lay : List (Edge Nat α)) (idR : Option Nat) (k j : Nat) (pL : List (List (TTerm α))) (op : String)
    (x chiR : Nat) (gF : List (String × Nat) → α) (gR : Nat → List (String × Nat) → α)
    (acc : List (TTerm α) × List (List (TTerm α))) (y : Nat) (hy : y < chiR) (hacc : acc.2.length = chiR) :
    (tl_body small ignore lay idR k j pL op x acc y).2.length = chiR ∧
    tl_M chiR gF gR (tl_body small ignore lay idR k j pL op x acc y) =
      tl_M chiR gF gR acc +
        tl_tsum (pL.getD x []) (fun term => MPOX.opW lay op x y * tl_K ignore idR k j gF gR op y term) := by
  unfold tl_body
  simp only
  by_cases hs : small (MPOX.opW lay op x y) = true
  · rw [if_pos hs, hsmall _ hs]
    refine ⟨hacc, ?_⟩
    simp [tl_tsum_zero]
  · rw [if_neg hs]
    by_cases hr : some y = idR
    · rw [if_pos hr]
      refine ⟨hacc, ?_⟩
      simp only [tl_M, tl_K, if_pos hr]
      rw [tl_tsum_append, tl_tsum_filter_map_mul small hsmall (pL.getD x []) (fun t => t ++ [(op, j)])
        (MPOX.opW lay op x y) gF]
      ring
    · rw [if_neg hr]
      by_cases hi : (decide (k > 0) && ignore.contains op) = true
      · rw [if_pos hi]
        refine ⟨by rw [List.length_modify]; exact hacc, ?_⟩
        simp only [tl_M, tl_K, if_neg hr, tl_ext, if_pos hi]
        rw [tl_psum_modify _ _ _ _ _ hy (by omega),
          tl_tsum_map_mul (pL.getD x []) (fun t => t) (MPOX.opW lay op x y)]
        ring
      · rw [if_neg hi]
        refine ⟨by rw [List.length_modify]; exact hacc, ?_⟩
        simp only [tl_M, tl_K, if_neg hr, tl_ext, if_neg hi]
        rw [tl_psum_modify _ _ _ _ _ hy (by omega),
          tl_tsum_map_mul (pL.getD x []) (fun t => t ++ [(op, j)]) (MPOX.opW lay op x y)]
        ring

/-- **one site step, value form.**  Finished terms valued with `gF`, `partial_R` with `gR`: the sum over the
operator names, the rows `x` and the columns `y` of `op_W[x, y]` times the value of the terms of
`partial_L[x]` extended by `(op, j)` (not extended for an ignored name at `k > 0`), finished iff `y = IdR`. -/
theorem tl_termStep_meas (small : α → Bool) (hsmall : ∀ x, small x = true → x = 0) (ignore : List String)
    (lay : List (Edge Nat α)) (basis : List String) (chiL chiR : Nat) (idL idR : Option Nat) (k j : Nat)
    (partialL : List (List (TTerm α))) (gF : List (String × Nat) → α) (gR : Nat → List (String × Nat) → α) :
    (MPOX.termStep small ignore lay basis chiL chiR idL idR k j partialL).2.length = chiR ∧
    tl_M chiR gF gR (MPOX.termStep small ignore lay basis chiL chiR idL idR k j partialL) =
      lsum basis (fun op => lsum (List.range chiL) (fun x => lsum (List.range chiR) (fun y =>
        tl_tsum ((tl_pL k idL partialL).getD x [])
          (fun term => MPOX.opW lay op x y * tl_K ignore idR k j gF gR op y term)))) := by
  rw [tl_termStep_eq]
  have h := tl_foldl_meas (fun (s : List (TTerm α) × List (List (TTerm α))) => s.2.length = chiR)
    (tl_M chiR gF gR)
    (fun acc op => (List.range chiL).foldl (fun acc x =>
        (List.range chiR).foldl (tl_body small ignore lay idR k j (tl_pL k idL partialL) op x) acc) acc)
    (fun op => lsum (List.range chiL) (fun x => lsum (List.range chiR) (fun y =>
        tl_tsum ((tl_pL k idL partialL).getD x [])
          (fun term => MPOX.opW lay op x y * tl_K ignore idR k j gF gR op y term))))
    basis ?_ ([], List.replicate chiR []) (by simp)
  · refine ⟨h.1, ?_⟩
    rw [h.2]
    have : tl_M chiR gF gR (([], List.replicate chiR []) : List (TTerm α) × List (List (TTerm α))) = 0 := by
      simp only [tl_M, tl_tsum_nil, zero_add, tl_psum]
      rw [← lsum_zero (List.range chiR)]
      apply lsum_congr
      intro x _
      simp [List.getD_eq_getElem?_getD, List.getElem?_replicate]
      split <;> rfl
    rw [this, zero_add]
  · intro s op _ hs
    exact tl_foldl_meas (fun (s : List (TTerm α) × List (List (TTerm α))) => s.2.length = chiR)
      (tl_M chiR gF gR)
      (fun acc x => (List.range chiR).foldl (tl_body small ignore lay idR k j (tl_pL k idL partialL) op x) acc)
      _ (List.range chiL)
      (fun s x _ hs =>
        tl_foldl_meas (fun (s : List (TTerm α) × List (List (TTerm α))) => s.2.length = chiR)
          (tl_M chiR gF gR) (tl_body small ignore lay idR k j (tl_pL k idL partialL) op x) _ (List.range chiR)
          (fun s y hy hs => tl_body_meas small hsmall ignore lay idR k j _ op x chiR gF gR s y
            (List.mem_range.1 hy) hs) s hs) s hs

end step
end TenpyModel.Ops
