import TenpyModel.Ops.MPO
/-!
# C11 extension, part 1: `MPOEnvironment`, `MPO.expectation_value_finite`, `MPO.variance`
(tenpy/networks/mpo.py, `BaseEnvironment` in tenpy/networks/mps.py)

An MPS is stored like an MPO: per site a list of edges `(vL, vR, name of the physical index, amplitude)`;
the path sum `pathsFrom` of these layers is the state as a formal sum of basis strings.

An environment `LP` / `RP` is a sparse vector over triples `(a, w, b)` = (index of `vR*` / `vL*` of the bra,
index of `wR` / `wL` of the MPO, index of `vR` / `vL` of the ket).  One site of the network
`bra* – W – ket` is a list of weighted edges between such triples (`prod3`); `_contract_LP` /
`_contract_RP` are vector–matrix products with it.

* `Env.initLP`, `Env.initRP`         `MPOEnvironment.init_LP(0)`, `init_RP(L-1)` (`start_env_sites = 0`)
* `Env.contractLP`, `Env.contractRP` `MPOEnvironment._contract_LP`, `_contract_RP`
* `Env.getLP`, `Env.getRP`           `BaseEnvironment.get_LP(i)`, `get_RP(i)` from the stored first / last one
* `Env.fullContraction`              `MPOEnvironment.full_contraction(i0)` with `_full_contraction_LP_RP`
* `expectationValueFinite`           `MPO.expectation_value_finite(psi)`
* `varianceContr`, `variance`        `MPO.variance(psi, exp_val)` (two MPO layers)
-/
namespace TenpyModel.Ops

/-! ## sparse vectors and weighted layered graphs -/

structure WEdge (κ α : Type) where
  kL : κ
  kR : κ
  c : α
deriving Repr

abbrev KVec (κ α : Type) := List (κ × α)

namespace KVec
variable {κ α : Type}

/-- entry `k` of a sparse vector (repeated keys add up) -/
def get [DecidableEq κ] [Add α] [Zero α] (v : KVec κ α) (k : κ) : α :=
  v.foldr (fun p acc => if p.1 = k then p.2 + acc else acc) 0

/-- add `x` to entry `k` -/
def addAt [DecidableEq κ] [Add α] (k : κ) (x : α) : KVec κ α → KVec κ α
  | [] => [(k, x)]
  | p :: rest => if p.1 = k then (p.1, p.2 + x) :: rest else p :: addAt k x rest

/-- one entry per key -/
def compress [DecidableEq κ] [Add α] (v : KVec κ α) : KVec κ α :=
  v.foldl (fun acc p => addAt p.1 p.2 acc) []

/-- `Σ_k lp[k] · rp[k]` (`npc.inner(LP, RP, do_conj=False)`) -/
def dot [DecidableEq κ] [Add α] [Mul α] [Zero α] (lp rp : KVec κ α) : α :=
  (lp.map (fun p => p.2 * rp.get p.1)).foldr (· + ·) 0

/-- row vector times one layer -/
def stepL [DecidableEq κ] [Add α] [Mul α] (es : List (WEdge κ α)) (v : KVec κ α) : KVec κ α :=
  compress (v.flatMap (fun p => (es.filter (fun e => e.kL = p.1)).map (fun e => (e.kR, p.2 * e.c))))

/-- one layer times column vector -/
def stepR [DecidableEq κ] [Add α] [Mul α] (es : List (WEdge κ α)) (v : KVec κ α) : KVec κ α :=
  compress (v.flatMap (fun p => (es.filter (fun e => e.kR = p.1)).map (fun e => (e.kL, e.c * p.2))))

end KVec

/-! ## the MPS -/

/-- tensors of a finite MPS as the environment classes read them: `A[i] = get_B(i, 'A')`,
`B[i] = get_B(i, 'B')` (edges `(vL, vR, physical index as a name, amplitude)`), `S[b]` = singular values on
bond `b` (`L + 1` lists), `chi[b]` the bond dimensions -/
structure MPSM (α : Type) where
  A : List (List (Edge Nat α))
  B : List (List (Edge Nat α))
  S : List (List α)
  chi : List Nat

abbrev EnvKey := Nat × Nat × Nat

/-- one site of the network `bra* – W – ket`: the contraction order of `_contract_LP` (ket, then `W`, then
the conjugated bra); `mel op p q` = matrix element `<p| op |q>` of the local operator named `op` -/
def prod3 {α : Type} [Mul α] (mel : String → String → String → α) (cj : α → α)
    (bra W ket : List (Edge Nat α)) : List (WEdge EnvKey α) :=
  ket.flatMap (fun ek => W.flatMap (fun ew => bra.map (fun eb =>
    (⟨(eb.kL, ew.kL, ek.kL), (eb.kR, ew.kR, ek.kR), cj eb.c * ew.c * mel ew.op eb.op ek.op * ek.c⟩ :
      WEdge EnvKey α))))

/-- an `MPOEnvironment(bra, H, ket)` for finite boundary conditions -/
structure Env (α : Type) where
  bra : MPSM α
  H : MPOM α
  ket : MPSM α
  /-- `H.explicit_plus_hc` -/
  plusHc : Bool

namespace Env
variable {α : Type}

/-- `init_LP(0)`: `IdL[0]` must be set (`RuntimeError` otherwise), the legs of bra and ket must agree
(`test_equal`); `diag(1.)` on the MPS legs at the `IdL` index of the MPO leg -/
def initLP [One α] (e : Env α) : Option (KVec EnvKey α) :=
  match e.H.idL.getD 0 none with
  | none => none
  | some l =>
    if e.bra.chi.getD 0 1 ≠ e.ket.chi.getD 0 1 then none
    else some ((List.range (e.ket.chi.getD 0 1)).map (fun a => ((a, l, a), 1)))

/-- `init_RP(L - 1)`: `IdR[L]` must be set -/
def initRP [One α] (e : Env α) : Option (KVec EnvKey α) :=
  match e.H.idR.getD e.H.L none with
  | none => none
  | some r =>
    if e.bra.chi.getD e.H.L 1 ≠ e.ket.chi.getD e.H.L 1 then none
    else some ((List.range (e.ket.chi.getD e.H.L 1)).map (fun a => ((a, r, a), 1)))

/-- the network of site `i` with the `A` tensors (left part) -/
def siteA [Mul α] (mel : String → String → String → α) (cj : α → α) (e : Env α) (i : Nat) :
    List (WEdge EnvKey α) :=
  prod3 mel cj (e.bra.A.getD i []) (e.H.layers.getD i []) (e.ket.A.getD i [])

/-- the network of site `i` with the `B` tensors (right part) -/
def siteB [Mul α] (mel : String → String → String → α) (cj : α → α) (e : Env α) (i : Nat) :
    List (WEdge EnvKey α) :=
  prod3 mel cj (e.bra.B.getD i []) (e.H.layers.getD i []) (e.ket.B.getD i [])

/-- `_contract_LP(i, LP)` -/
def contractLP [DecidableEq α] [Add α] [Mul α] (mel : String → String → String → α) (cj : α → α)
    (e : Env α) (i : Nat) (lp : KVec EnvKey α) : KVec EnvKey α :=
  KVec.stepL (e.siteA mel cj i) lp

/-- `_contract_RP(i, RP)` -/
def contractRP [DecidableEq α] [Add α] [Mul α] (mel : String → String → String → α) (cj : α → α)
    (e : Env α) (i : Nat) (rp : KVec EnvKey α) : KVec EnvKey α :=
  KVec.stepR (e.siteB mel cj i) rp

/-- `get_LP(i)` from the stored `LP[0]`: sites `0 … i-1` -/
def getLP [DecidableEq α] [Add α] [Mul α] (mel : String → String → String → α) (cj : α → α)
    (e : Env α) (lp0 : KVec EnvKey α) (i : Nat) : KVec EnvKey α :=
  (List.range i).foldl (fun lp j => e.contractLP mel cj j lp) lp0

/-- `get_RP(i)` from the stored `RP[L-1]`: sites `L-1, …, i+1` -/
def getRP [DecidableEq α] [Add α] [Mul α] (mel : String → String → String → α) (cj : α → α)
    (e : Env α) (rpL : KVec EnvKey α) (i : Nat) : KVec EnvKey α :=
  ((List.range (e.H.L - 1 - i)).map (fun d => e.H.L - 1 - d)).foldl (fun rp j => e.contractRP mel cj j rp) rpL

/-- `LP.scale_axis(conj(S_bra), 'vR*').scale_axis(S_ket, 'vR')` with the singular values right of site `i0` -/
def scaleS [Mul α] [Zero α] (cj : α → α) (e : Env α) (i0 : Nat) (lp : KVec EnvKey α) : KVec EnvKey α :=
  lp.map (fun p => (p.1, cj ((e.bra.S.getD (i0 + 1) []).getD p.1.1 0) * p.2
    * (e.ket.S.getD (i0 + 1) []).getD p.1.2.2 0))

/-- `full_contraction(i0)`: `inner(S · get_LP(i0 + 1) · S, get_RP(i0))`, plus its conjugate when the MPO is
flagged `explicit_plus_hc`; `none` where the implementation raises (missing `IdL[0]` / `IdR[L]`, site index
outside the chain) -/
def fullContraction [DecidableEq α] [Add α] [Mul α] [Zero α] [One α] (mel : String → String → String → α)
    (cj : α → α) (e : Env α) (i0 : Nat) : Option α :=
  if e.H.L ≤ i0 then none else
  match e.initLP, e.initRP with
  | some lp0, some rpL =>
    let lp := e.scaleS cj i0 (e.getLP mel cj lp0 (i0 + 1))
    let rp := e.getRP mel cj rpL i0
    let res := KVec.dot lp rp
    some (if e.plusHc then res + cj res else res)
  | _, _ => none

end Env

/-- `MPO.expectation_value_finite(psi)`: `MPOEnvironment(psi, self, psi).full_contraction(0)` -/
def MPOM.expectationValueFinite {α : Type} [DecidableEq α] [Add α] [Mul α] [Zero α] [One α]
    (mel : String → String → String → α) (cj : α → α) (m : MPOM α) (plusHc : Bool) (psi : MPSM α) : Option α :=
  Env.fullContraction mel cj ⟨psi, m, psi, plusHc⟩ 0

/-! ## variance: two MPO layers -/

abbrev VarKey := Nat × (Nat × Nat) × Nat

/-- one site of the network `bra* – W – W – ket` of `MPO.variance`: the first copy of `W` acts on the ket
(`p*` with the ket's `p`), the second on the result; `names` = the physical index names of the site -/
def prod4 {α : Type} [Add α] [Mul α] [Zero α] (mel : String → String → String → α) (cj : α → α)
    (names : List String) (bra W ket : List (Edge Nat α)) : List (WEdge VarKey α) :=
  ket.flatMap (fun ek => W.flatMap (fun e1 => W.flatMap (fun e2 => bra.map (fun eb =>
    (⟨(eb.kL, (e1.kL, e2.kL), ek.kL), (eb.kR, (e1.kR, e2.kR), ek.kR),
      cj eb.c * (e2.c * e1.c
        * (names.map (fun r => mel e2.op eb.op r * mel e1.op r ek.op)).foldr (· + ·) 0) * ek.c⟩ :
      WEdge VarKey α)))))

/-- `<psi| H H |psi>` as `MPO.variance` contracts it: theta of site 0 (`get_theta(0, 1)` = `S[0]·B[0]`, the row `IdL[0]` of both
copies of `W[0]`), `B` tensors on the other sites, the slice `IdR[L]` of both `wR` legs, trace over the last
bond.  `none`: `L = 0`, missing `IdL[0]` / `IdR[L]` (`take_slice(None)` raises) -/
def MPOM.varianceContr {α : Type} [DecidableEq α] [Add α] [Mul α] [Zero α] [One α]
    (mel : String → String → String → α) (cj : α → α) (names : Nat → List String) (m : MPOM α)
    (psi : MPSM α) : Option α :=
  if m.L = 0 then none else
  match m.idL.getD 0 none, m.idR.getD m.L none with
  | some l, some r =>
    let theta0 : List (Edge Nat α) := (psi.B.getD 0 []).map (fun e =>
      { e with c := (psi.S.getD 0 []).getD e.kL 0 * e.c })
    let v0 : KVec VarKey α := (List.range (psi.chi.getD 0 1)).map (fun a => ((a, (l, l), a), 1))
    let v1 := KVec.stepL (prod4 mel cj (names 0) theta0 (m.layers.getD 0 []) theta0) v0
    let v := ((List.range (m.L - 1)).map (· + 1)).foldl (fun v i =>
      KVec.stepL (prod4 mel cj (names i) (psi.B.getD i []) (m.layers.getD i []) (psi.B.getD i [])) v) v1
    some (((List.range (psi.chi.getD m.L 1)).map (fun a => KVec.get v (a, (r, r), a))).foldr (· + ·) 0)
  | _, _ => none

/-- `MPO.variance(psi, exp_val=None)`: finite boundary conditions only, same `L`, no `explicit_plus_hc`
(`ValueError` / `NotImplementedError` otherwise); `<psi|H H|psi> - <psi|H|psi>²` -/
def MPOM.variance {α : Type} [DecidableEq α] [Add α] [Mul α] [Sub α] [Zero α] [One α]
    (mel : String → String → String → α) (cj : α → α) (names : Nat → List String) (m : MPOM α)
    (finite plusHc : Bool) (psi : MPSM α) : Option α :=
  if !finite || m.L ≠ psi.B.length || plusHc then none else
  match m.expectationValueFinite mel cj false psi, m.varianceContr mel cj names psi with
  | some ev, some c => some (c - ev * ev)
  | _, _ => none

/-! ## specification: matrix elements of the denoted operator between the denoted states -/

/-- `Π_k <x_k| o_k |y_k>` for a basis string `x` of the bra, an operator string `o`, a basis string `y` of the ket -/
def triW {α : Type} [Mul α] [One α] (mel : String → String → String → α) : OpStr → OpStr → OpStr → α
  | x :: xs, o :: os, y :: ys => mel o x y * triW mel xs os ys
  | _, _, _ => 1

/-- `<s| t |u> = Σ conj(s_x) · t_o · u_y · Π_k <x_k| o_k |y_k>`: the matrix element of the operator `t` (a formal
sum of operator strings) between the states `s`, `u` (formal sums of basis strings) -/
def tri {α : Type} [Add α] [Mul α] [Zero α] [One α] (mel : String → String → String → α) (cj : α → α)
    (s t u : Sym α) : α :=
  (s.flatMap (fun p => t.flatMap (fun q => u.map (fun r =>
    cj p.2 * q.2 * r.2 * triW mel p.1 q.1 r.1)))).foldr (· + ·) 0

/-- `Π_k Σ_r <x_k| o2_k |r><r| o1_k |y_k>` (`names k` = the basis names of site `i0 + k`) -/
def quadW {α : Type} [Add α] [Mul α] [Zero α] [One α] (mel : String → String → String → α)
    (names : Nat → List String) : Nat → OpStr → OpStr → OpStr → OpStr → α
  | i, x :: xs, o2 :: os2, o1 :: os1, y :: ys =>
    ((names i).map (fun r => mel o2 x r * mel o1 r y)).foldr (· + ·) 0 * quadW mel names (i + 1) xs os2 os1 ys
  | _, _, _, _, _ => 1

/-- `<s| t2 · t1 |u>` -/
def quad {α : Type} [Add α] [Mul α] [Zero α] [One α] (mel : String → String → String → α) (cj : α → α)
    (names : Nat → List String) (s t2 t1 u : Sym α) : α :=
  (s.flatMap (fun p => t2.flatMap (fun q2 => t1.flatMap (fun q1 => u.map (fun r =>
    cj p.2 * (q2.2 * q1.2) * r.2 * quadW mel names 0 p.1 q2.1 q1.1 r.1))))).foldr (· + ·) 0

namespace MPSM
variable {α : Type}

/-- the tensors of the mixed canonical form with the orthogonality centre right of site `i0`:
`A[0] … A[i0]·S[i0+1]  B[i0+1] … B[L-1]` -/
def mixedLayers [Mul α] [Zero α] (psi : MPSM α) (i0 : Nat) : List (List (Edge Nat α)) :=
  (List.range psi.B.length).map (fun i =>
    if i < i0 then psi.A.getD i []
    else if i = i0 then (psi.A.getD i []).map (fun e => { e with c := e.c * (psi.S.getD (i0 + 1) []).getD e.kR 0 })
    else psi.B.getD i [])

/-- the state of a finite MPS (one state on the outer bonds) read off the mixed form at `i0` -/
def state [Mul α] [Zero α] [One α] (psi : MPSM α) (i0 : Nat) : Sym α := pathsFrom 0 (psi.mixedLayers i0) 0

/-- `get_theta(0, 1)`, then `B` tensors: the form `MPO.variance` reads -/
def thetaLayers [Mul α] [Zero α] (psi : MPSM α) : List (List (Edge Nat α)) :=
  (List.range psi.B.length).map (fun i =>
    if i = 0 then (psi.B.getD 0 []).map (fun e => { e with c := (psi.S.getD 0 []).getD e.kL 0 * e.c })
    else psi.B.getD i [])

def thetaState [Mul α] [Zero α] [One α] (psi : MPSM α) : Sym α := pathsFrom 0 psi.thetaLayers 0

end MPSM

/-- shape conditions of a finite environment: every list has the length of the chain, the MPS have one state on
their outer bonds, the MPO has its markers on the outer bonds -/
structure EnvHyp {α : Type} (e : Env α) : Prop where
  layers : e.H.layers.length = e.H.L
  idL : e.H.idL.length = e.H.L + 1
  idR : e.H.idR.length = e.H.L + 1
  braA : e.bra.A.length = e.H.L
  braB : e.bra.B.length = e.H.L
  ketA : e.ket.A.length = e.H.L
  ketB : e.ket.B.length = e.H.L
  braChi0 : e.bra.chi.getD 0 1 = 1
  braChiL : e.bra.chi.getD e.H.L 1 = 1
  ketChi0 : e.ket.chi.getD 0 1 = 1
  ketChiL : e.ket.chi.getD e.H.L 1 = 1
  mL : (e.H.idL.getD 0 none).isSome
  mR : (e.H.idR.getD e.H.L none).isSome

end TenpyModel.Ops
