import TenpyModel.C11.ExtGQ
import TenpyModel.C11.PropsExtEnv
import TenpyModel.C11.PropsExtStruct
import TenpyModel.C11.PropsExtDecide
/-!
# C11 — extension round, property theorems 4: the theorems at the coefficient type of the driver

The driver `lean/drivers/C11.lean` computes over the Gaussian rationals `GQ` with the `Add`/`Mul`/`Sub`/… instances
of `Ops/Sym.lean` and the plain function `GQ.conj`.  `C11/ExtGQ.lean` shows that these operations form a commutative
ring and that `GQ.conj` is a ring involution, so the general theorems specialise to the expressions the driver
evaluates — stated here with the driver's own instances (no ring structure in the statements).
-/
open TenpyModel.Ops

/-- what the driver evaluates for `full_contraction` is the matrix element of the denoted operator -/
theorem C11_driver_full_contraction (mel : String → String → String → GQ) (e : Env GQ) (h : EnvHyp e)
    (hp : e.plusHc = false) (i0 : Nat) (hi : i0 < e.H.L) :
    Env.fullContraction mel GQ.conj e i0
      = some (tri mel GQ.conj (e.bra.state i0) e.H.denote (e.ket.state i0)) :=
  C11_full_contraction mel GQ.conjHom e h hp i0 hi

/-- … for `variance` -/
theorem C11_driver_variance (mel : String → String → String → GQ) (names : Nat → List String) (m : MPOM GQ)
    (psi : MPSM GQ) (h : EnvHyp ⟨psi, m, psi, false⟩) (hL : 0 < m.L) :
    m.varianceContr mel GQ.conj names psi
      = some (quad mel GQ.conj names psi.thetaState m.denote m.denote psi.thetaState) :=
  (C11_variance mel GQ.conjHom names m psi h hL).1

/-- … for `sort_legcharges` -/
theorem C11_driver_sort_legcharges (m : MPOM GQ) (q : List (List (List Int))) (h : SortHyp m q) (t : OpStr) :
    coeff (m.sortLegcharges q).denote t = coeff m.denote t :=
  C11_sort_legcharges m q h t

/-- … for the window overlap -/
theorem C11_driver_overlap_window (gram : String → String → GQ) (hc : String → String) (a b : MPOX GQ) (n : Nat)
    (v : GQ) (h : MPOX.overlapNoHc gram GQ.conj hc a b n false = some v) :
    v = MPOM.frob gram GQ.conj (a.m.denoteSites n) (b.m.denoteSites n) :=
  C11_overlap_window gram GQ.conjHom hc a b n v h

/-- … for `is_equal` (squared moduli `GQ.normSq`, rational `eps²`) -/
theorem C11_driver_is_equal (gram : String → String → GQ) (hc : String → String) (hhc : ∀ x, hc (hc x) = x)
    (hgram : ∀ x y, gram (hc x) (hc y) = GQ.conj (gram x y)) (epsSq : Rat) (a b : MPOX GQ) (mr : MaxRange)
    (ans : Bool) (h : MPOX.isEqual gram GQ.conj hc GQ.normSq epsSq a b mr = some ans) :
    let n := MPOX.isEqualNumSites a b mr
    let A := a.window hc GQ.conj n
    let B := b.window hc GQ.conj n
    ans = decide (GQ.normSq (MPOM.frob gram GQ.conj A A - (MPOM.frob gram GQ.conj A B + GQ.conj (MPOM.frob gram GQ.conj A B))
                    + MPOM.frob gram GQ.conj B B)
                  < epsSq * GQ.normSq (MPOM.frob gram GQ.conj A A + MPOM.frob gram GQ.conj B B)) :=
  C11_is_equal_decides gram GQ.conjHom hc GQ.conj_conj hhc hgram GQ.normSq epsSq a b mr ans h

/-- the local data of the driver meet the hypotheses: matrix units `"a,b"` with `hc "a,b" = "b,a"`-type maps and
the orthonormal trace form (`gram x y = 1` iff `x = y`) satisfy `gram (hc x) (hc y) = conj (gram x y)` whenever `hc`
is injective -/
theorem C11_driver_gram (hc : String → String) (hinj : Function.Injective hc) (x y : String) :
    (if hc x = hc y then (1 : GQ) else 0) = GQ.conj (if x = y then (1 : GQ) else 0) := by
  by_cases h : x = y
  · subst h; simp; rfl
  · have : hc x ≠ hc y := fun h2 => h (hinj h2)
    simp [h, this]; rfl

/-! ## non-vacuity: a run over `GQ` with complex entries -/
namespace C11ExtGQEx
open TenpyModel.Ops

def melU (o p q : String) : GQ := if o = p ++ "," ++ q then 1 else 0
def i1 : GQ := ⟨0, 1⟩
/-- one site: `(2 + i)·|0><1| + 3·|1><1|` -/
def Hq : MPOM GQ := ⟨1, [[⟨0, 1, "0,1", ⟨2, 1⟩⟩, ⟨0, 1, "1,1", ⟨3, 0⟩⟩]], [2, 2], [some 0, some 0], [some 1, some 1]⟩
/-- `|psi> = i|0> + (1/2)|1>` -/
def psiq : MPSM GQ := ⟨[[⟨0, 0, "0", i1⟩, ⟨0, 0, "1", ⟨1/2, 0⟩⟩]], [[⟨0, 0, "0", i1⟩, ⟨0, 0, "1", ⟨1/2, 0⟩⟩]], [[1], [1]], [1, 1]⟩

theorem hypq : EnvHyp (⟨psiq, Hq, psiq, false⟩ : Env GQ) := by constructor <;> decide

/-- `<psi|H|psi> = conj(i)·(2+i)·(1/2) + (1/2)·3·(1/2) = 5/4 - i` -/
example : Env.fullContraction melU GQ.conj ⟨psiq, Hq, psiq, false⟩ 0 = some ⟨5/4, -1⟩ := by decide +kernel
example : Env.fullContraction melU GQ.conj ⟨psiq, Hq, psiq, false⟩ 0
    = some (tri melU GQ.conj (psiq.state 0) Hq.denote (psiq.state 0)) :=
  C11_driver_full_contraction melU _ hypq rfl 0 (by decide)
example : tri melU GQ.conj (psiq.state 0) Hq.denote (psiq.state 0) = ⟨5/4, -1⟩ := by decide +kernel
example : GQ.conj (GQ.conj i1) = i1 ∧ GQ.conjHom i1 = ⟨0, -1⟩ ∧ i1 * i1 = -1 := by decide +kernel

end C11ExtGQEx
