import TenpyModel.C11.ExtStructProofs1
import TenpyModel.C11.P2_Add2
/-!
# C11 extension, proofs 2: `sort_legcharges` does not change the denoted operator
-/
namespace TenpyModel.Ops

variable {α : Type}

theorem getD_map_zipIdx {β γ : Type} (l : List β) (f : β × Nat → γ) (i : Nat) (d : β) (d' : γ)
    (h : i < l.length) : ((l.zipIdx).map f).getD i d' = f (l.getD i d, i) := by
  simp [List.getD_eq_getElem?_getD, h]

theorem head?_map_zipIdx {β γ : Type} (l : List β) (f : β × Nat → γ) :
    ((l.zipIdx).map f).head? = l.head?.map (fun x => f (x, 0)) := by
  cases l <;> simp [List.zipIdx_cons]

theorem getLast?_map_zipIdx {β γ : Type} (l : List β) (f : β × Nat → γ) :
    ((l.zipIdx).map f).getLast? = l.getLast?.map (fun x => f (x, l.length - 1)) := by
  rw [List.getLast?_eq_getElem?, List.getLast?_eq_getElem?]
  simp [List.getElem?_map, List.getElem?_zipIdx]
  rfl

theorem head?_eq_some_getD {β : Type} (l : List β) (d : β) (h : 0 < l.length) :
    l.head? = some (l.getD 0 d) := by
  cases l with
  | nil => simp at h
  | cons a l => simp

theorem getLast?_eq_some_getD {β : Type} (l : List β) (d : β) (n : Nat) (h : l.length = n + 1) :
    l.getLast? = some (l.getD n d) := by
  rw [List.getLast?_eq_getElem?, h]
  simp [List.getD_eq_getElem?_getD, h]

/-- the relabelling of `sort_legcharges` on bond `b` -/
def sortPhi (q : List (List (List Int))) (b k : Nat) : Option Nat :=
  some (newIdx (sortPerm (q.getD b [])) k)

theorem sortLayer_eq (q : List (List (List Int))) (i : Nat) (lay : List (Edge Nat α)) :
    lay.map (fun e => ({ e with kL := newIdx (sortPerm (q.getD i [])) e.kL,
                                kR := newIdx (sortPerm (q.getD (i + 1) [])) e.kR } : Edge Nat α)) =
    lay.filterMap (relabOpt (sortPhi q i) (sortPhi q (i + 1))) := by
  induction lay with
  | nil => rfl
  | cons e lay ih =>
    rw [List.map_cons, List.filterMap_cons, ih]
    rfl

theorem sort_paths [Semiring α] (m : MPOM α) (q : List (List (List Int))) (h : SortHyp m q)
    (l r : Nat) (hl : m.idL.getD 0 none = some l) (hr : m.idR.getD m.L none = some r) (t : OpStr) :
    coeff (pathsFrom (newIdx (sortPerm (q.getD m.L [])) r) (m.sortLegcharges q).layers
      (newIdx (sortPerm (q.getD 0 [])) l)) t = coeff (pathsFrom r m.layers l) t := by
  have hlen' : (m.sortLegcharges q).layers.length = m.L := by
    simp [MPOM.sortLegcharges, h.layers]
  have key := relabel_paths (α := α) (sortPhi q) (fun b k => b ≤ m.L ∧ k < m.chi.getD b 0)
    m.layers (m.sortLegcharges q).layers m.L h.layers hlen'
    (by
      intro i hi
      rw [← sortLayer_eq]
      show ((m.layers.zipIdx).map _).getD i [] = _
      rw [getD_map_zipIdx m.layers _ i [] [] (by rw [h.layers]; exact hi)])
    (by
      intro i hi e he
      obtain ⟨h1, h2⟩ := h.edges i hi e he
      exact ⟨⟨by omega, h1⟩, ⟨by omega, h2⟩⟩)
    (by intro i k _; exact ⟨_, rfl⟩)
    (by
      intro i k k' hk _ he
      apply newIdx_sortPerm_inj (q.getD i []) k k'
      · rw [h.q i hk.1]; exact hk.2
      · exact Option.some.inj he)
    r (newIdx (sortPerm (q.getD m.L [])) r) ⟨Nat.le_refl _, h.mR r hr⟩ rfl
    m.L 0 (by omega) l (newIdx (sortPerm (q.getD 0 [])) l) ⟨by omega, h.mL l hl⟩ rfl t
  simpa using key

theorem sort_legcharges_denote [Semiring α] (m : MPOM α) (q : List (List (List Int)))
    (h : SortHyp m q) (t : OpStr) :
    coeff (m.sortLegcharges q).denote t = coeff m.denote t := by
  have hL : m.idL.head? = some (m.idL.getD 0 none) := head?_eq_some_getD _ _ (by rw [h.idL]; omega)
  have hR : m.idR.getLast? = some (m.idR.getD m.L none) := getLast?_eq_some_getD _ _ _ h.idR
  have hL' : (m.sortLegcharges q).idL.head? =
      some ((m.idL.getD 0 none).map (newIdx (sortPerm (q.getD 0 [])))) := by
    show ((m.idL.zipIdx).map _).head? = _
    rw [head?_map_zipIdx, hL]; rfl
  have hR' : (m.sortLegcharges q).idR.getLast? =
      some ((m.idR.getD m.L none).map
        (fun r => newIdx (sortPerm (q.getD m.L [])) (r % m.chi.getD m.L 1))) := by
    show ((m.idR.zipIdx).map _).getLast? = _
    rw [getLast?_map_zipIdx, hR, h.idR]; rfl
  unfold MPOM.denote
  rw [hL', hR', hL, hR]
  cases hl : m.idL.getD 0 none with
  | none => rfl
  | some l =>
    cases hr : m.idR.getD m.L none with
    | none => rfl
    | some r =>
      have hrlt : r < m.chi.getD m.L 0 := h.mR r hr
      have hchi : m.chi.getD m.L 1 = m.chi.getD m.L 0 := by
        simp [List.getD_eq_getElem?_getD, show m.L < m.chi.length by rw [h.chi]; omega]
      have hmod : r % m.chi.getD m.L 1 = r := by rw [hchi]; exact Nat.mod_eq_of_lt hrlt
      simp only [Option.map_some, hmod]
      exact sort_paths m q h l r hl hr t

end TenpyModel.Ops
