import TenpyModel.C11.ExtEnvProofs2
import TenpyModel.C11.P2_AddMain
/-!
# C11 extension, helper lemmas 3: matrix elements and `Sym.Equiv`, `explicit_plus_hc`, sums, rejections
-/
namespace TenpyModel.Ops

section congr
variable {α : Type} [CommSemiring α]

theorem lsum_split_key (G : OpStr → α) (t : Sym α) (o : OpStr) :
    lsum t (fun q => q.2 * G q.1)
      = coeff t o * G o + lsum (t.filter (fun q => q.1 ≠ o)) (fun q => q.2 * G q.1) := by
  induction t with
  | nil => simp
  | cons p t ih =>
    obtain ⟨u, c⟩ := p
    by_cases h : u = o
    · subst h
      simp only [lsum_cons, coeff_cons, if_true, ih, List.filter_cons, ne_eq, not_true_eq_false,
        decide_false]
      simp only [Bool.false_eq_true, if_false]
      ring
    · simp only [lsum_cons, coeff_cons, ih, List.filter_cons, ne_eq, h, not_false_eq_true,
        decide_true, if_true, if_false]
      ring

theorem coeff_filter_ne (t : Sym α) (o x : OpStr) :
    coeff (t.filter (fun q => q.1 ≠ o)) x = if x = o then 0 else coeff t x := by
  induction t with
  | nil => simp
  | cons p t ih =>
    obtain ⟨u, c⟩ := p
    by_cases h : u = o
    · subst h
      simp only [List.filter_cons, ne_eq, not_true_eq_false, decide_false, Bool.false_eq_true, if_false,
        ih, coeff_cons]
      by_cases hx : x = u
      · simp [hx]
      · have hx' : ¬ u = x := fun e => hx e.symm
        simp [hx, hx']
    · simp only [List.filter_cons, ne_eq, h, not_false_eq_true, decide_true, if_true, coeff_cons, ih]
      by_cases hx : x = o
      · subst hx
        simp [h]
      · simp [hx]

/-- a sum `Σ_{q ∈ t} q.2 · G q.1` depends on `t` only through its coefficients -/
theorem lsum_congr_equiv (G : OpStr → α) : ∀ (n : Nat) (t t' : Sym α), t.length + t'.length ≤ n →
    Sym.Equiv t t' → lsum t (fun q => q.2 * G q.1) = lsum t' (fun q => q.2 * G q.1) := by
  intro n
  induction n with
  | zero =>
    intro t t' hn _
    have h1 : t = [] := List.eq_nil_of_length_eq_zero (by omega)
    have h2 : t' = [] := List.eq_nil_of_length_eq_zero (by omega)
    rw [h1, h2]
  | succ n ih =>
    intro t t' hn h
    have key : ∀ o : OpStr, (t.filter (fun q => q.1 ≠ o)).length + (t'.filter (fun q => q.1 ≠ o)).length ≤ n →
        lsum t (fun q => q.2 * G q.1) = lsum t' (fun q => q.2 * G q.1) := by
      intro o hlen
      rw [lsum_split_key G t o, lsum_split_key G t' o, h o,
        ih _ _ hlen (fun x => by rw [coeff_filter_ne, coeff_filter_ne, h x])]
    cases t with
    | nil =>
      cases t' with
      | nil => rfl
      | cons p t1 =>
        apply key p.1
        have := List.length_filter_le (fun q : OpStr × α => decide (q.1 ≠ p.1)) t1
        simp only [List.filter_cons, ne_eq, not_true_eq_false, decide_false, Bool.false_eq_true,
          if_false, List.filter_nil, List.length_nil, List.length_cons] at hn ⊢
        simp only [ne_eq] at this
        omega
    | cons p t1 =>
      apply key p.1
      have h1 := List.length_filter_le (fun q : OpStr × α => decide (q.1 ≠ p.1)) t1
      have h2 := List.length_filter_le (fun q : OpStr × α => decide (q.1 ≠ p.1)) t'
      simp only [List.filter_cons, ne_eq, not_true_eq_false, decide_false, Bool.false_eq_true,
        if_false, List.length_cons] at hn ⊢
      simp only [ne_eq] at h1 h2
      omega

theorem tri_eq_mid (mel : String → String → String → α) (cj : α → α) (s t u : Sym α) :
    tri mel cj s t u = lsum t (fun q => q.2 * lsum s (fun p => lsum u (fun r =>
      cj p.2 * r.2 * triW mel p.1 q.1 r.1))) := by
  rw [tri_eq_lsum, lsum_comm]
  apply lsum_congr
  intro q _
  rw [← lsum_mul_left]
  apply lsum_congr
  intro p _
  rw [← lsum_mul_left]
  apply lsum_congr
  intro r _
  ring

theorem tri_congr_mid (mel : String → String → String → α) (cj : α →+* α) (s u t t' : Sym α)
    (h : Sym.Equiv t t') : tri mel cj s t u = tri mel cj s t' u := by
  rw [tri_eq_mid, tri_eq_mid]
  exact lsum_congr_equiv (fun o => lsum s (fun p => lsum u (fun r => cj p.2 * r.2 * triW mel p.1 o r.1)))
    _ t t' (Nat.le_refl _) h

end congr

section hc
variable {α : Type} [CommSemiring α]

theorem triW_hc (mel : String → String → String → α) (cj : α →+* α) (hc : String → String)
    (hmel : ∀ o p q, mel (hc o) p q = cj (mel o q p)) :
    ∀ (o x y : OpStr), triW mel x (o.map hc) y = cj (triW mel y o x) := by
  intro o
  induction o with
  | nil => intro x y; cases x <;> cases y <;> simp [triW]
  | cons a o ih =>
    intro x y
    cases x with
    | nil => cases y <;> simp [triW]
    | cons b x =>
      cases y with
      | nil => simp [triW]
      | cons c y => simp only [List.map_cons, triW, map_mul, hmel, ih]

theorem tri_dagger (mel : String → String → String → α) (cj : α →+* α) (hc : String → String)
    (hmel : ∀ o p q, mel (hc o) p q = cj (mel o q p)) (hcj : ∀ x, cj (cj x) = x) (s t u : Sym α) :
    tri mel cj s (Sym.dagger hc cj t) u = cj (tri mel cj u t s) := by
  rw [tri_eq_lsum, tri_eq_lsum, lsum_comm3]
  simp only [Sym.dagger, lsum_map, map_lsum, map_mul, hcj, ← triW_hc mel cj hc hmel]
  apply lsum_congr
  intro r _
  rw [lsum_comm]
  apply lsum_congr
  intro q _
  apply lsum_congr
  intro p _
  ring

end hc

section specs
variable {α : Type} [CommSemiring α] [DecidableEq α]

theorem expectation_value_plus_hc_spec (mel : String → String → String → α) (cj : α →+* α)
    (hc : String → String) (hmel : ∀ o p q, mel (hc o) p q = cj (mel o q p)) (hcj : ∀ x, cj (cj x) = x)
    (m : MPOM α) (psi : MPSM α) (h : EnvHyp ⟨psi, m, psi, true⟩) (hL : 0 < m.L) :
    m.expectationValueFinite mel cj true psi
      = some (tri mel cj (psi.state 0) (m.denote ++ Sym.dagger hc cj m.denote) (psi.state 0)) := by
  unfold MPOM.expectationValueFinite
  rw [full_contraction_val mel cj ⟨psi, m, psi, true⟩ h 0 hL]
  simp only [if_true]
  rw [tri_append_mid, tri_dagger mel cj hc hmel hcj]

theorem expectation_value_add_spec (mel : String → String → String → α) (cj : α →+* α) (a b : MPOM α)
    (hab : AddHyp a b) (psi : MPSM α)
    (ha : EnvHyp ⟨psi, a, psi, false⟩) (hb : EnvHyp ⟨psi, b, psi, false⟩)
    (hs : EnvHyp ⟨psi, MPOM.add a b, psi, false⟩) (hL : 0 < a.L) (x y z : α)
    (hx : a.expectationValueFinite mel cj false psi = some x)
    (hy : b.expectationValueFinite mel cj false psi = some y)
    (hz : (MPOM.add a b).expectationValueFinite mel cj false psi = some z) : z = x + y := by
  have hLb : 0 < b.L := by rw [← hab.sameL]; exact hL
  have hLs : 0 < (MPOM.add a b).L := hL
  unfold MPOM.expectationValueFinite at hx hy hz
  rw [full_contraction_spec mel cj _ ha rfl 0 hL] at hx
  rw [full_contraction_spec mel cj _ hb rfl 0 hLb] at hy
  rw [full_contraction_spec mel cj _ hs rfl 0 hLs] at hz
  injection hx with hx
  injection hy with hy
  injection hz with hz
  rw [← hx, ← hy, ← hz]
  show tri mel cj (psi.state 0) (MPOM.add a b).denote (psi.state 0) = _
  rw [tri_congr_mid mel cj _ _ (MPOM.add a b).denote (a.denote ++ b.denote)
    (fun t => by rw [add_indices a b hab t, coeff_append]), tri_append_mid]

end specs

theorem env_rejects {α : Type} [CommRing α] [DecidableEq α] (mel : String → String → String → α)
    (cj : α → α) (names : Nat → List String) (e : Env α) (m : MPOM α) (psi : MPSM α) (i0 : Nat) :
    (e.H.idL.getD 0 none = none → Env.fullContraction mel cj e i0 = none) ∧
    (e.H.idR.getD e.H.L none = none → Env.fullContraction mel cj e i0 = none) ∧
    (e.H.L ≤ i0 → Env.fullContraction mel cj e i0 = none) ∧
    m.variance mel cj names false false psi = none ∧ m.variance mel cj names true true psi = none := by
  refine ⟨?_, ?_, ?_, ?_, ?_⟩
  · intro h
    unfold Env.fullContraction
    have : e.initLP = none := by unfold Env.initLP; rw [h]
    rw [this]
    split <;> rfl
  · intro h
    unfold Env.fullContraction
    have : e.initRP = none := by unfold Env.initRP; rw [h]
    rw [this]
    split
    · rfl
    · cases e.initLP <;> rfl
  · intro h
    unfold Env.fullContraction
    rw [if_pos h]
  · simp [MPOM.variance]
  · simp [MPOM.variance]

end TenpyModel.Ops
