import TenpyModel.C11.P2_Add3
/-!
# `MPO.__add__` on integer indices, part 4: the per-site step for the keys `a k`, `b k`, `IdR`
-/
namespace TenpyModel.Ops

variable {κ α : Type} [DecidableEq κ] [Semiring α]

omit [Semiring α] in
theorem injO_eq_l (l r : Option κ) (mk : κ → SK κ) (hmk : ∀ k, mk k ≠ SK.l) (x : κ) :
    injO l r mk x = SK.l ↔ some x = l := by
  unfold injO
  constructor
  · intro h
    split at h
    · assumption
    · split at h
      · cases h
      · exact absurd h (hmk x)
  · intro h; rw [if_pos h]

omit [Semiring α] in
theorem injO_eq_r (l r : Option κ) (mk : κ → SK κ) (hmk : ∀ k, mk k ≠ SK.r) (x : κ) :
    injO l r mk x = SK.r ↔ some x ≠ l ∧ some x = r := by
  unfold injO
  constructor
  · intro h
    split at h
    · cases h
    · split at h
      · exact ⟨by assumption, by assumption⟩
      · exact absurd h (hmk x)
  · intro h; rw [if_neg h.1, if_pos h.2]

omit [Semiring α] in
theorem injAo_eq_a (m : BM κ) (x k : κ) :
    injAo m x = SK.a k ↔ x = k ∧ some k ≠ m.la ∧ some k ≠ m.ra := by
  unfold injAo injO
  constructor
  · intro h
    split at h
    · cases h
    · split at h
      · cases h
      · injection h with h; subst h; exact ⟨rfl, by assumption, by assumption⟩
  · rintro ⟨rfl, h1, h2⟩
    rw [if_neg h1, if_neg h2]

omit [Semiring α] in
theorem injBo_eq_b (m : BM κ) (x k : κ) :
    injBo m x = SK.b k ↔ x = k ∧ some k ≠ m.lb ∧ some k ≠ m.rb := by
  unfold injBo injO
  constructor
  · intro h
    split at h
    · cases h
    · split at h
      · cases h
      · injection h with h; subst h; exact ⟨rfl, by assumption, by assumption⟩
  · rintro ⟨rfl, h1, h2⟩
    rw [if_neg h1, if_neg h2]

omit [Semiring α] in
theorem injAo_ne_b (m : BM κ) (x k : κ) : injAo m x ≠ SK.b k := by
  unfold injAo injO; split <;> [skip; split] <;> intro h <;> cases h

omit [Semiring α] in
theorem injBo_ne_a (m : BM κ) (x k : κ) : injBo m x ≠ SK.a k := by
  unfold injBo injO; split <;> [skip; split] <;> intro h <;> cases h

omit [Semiring α] in
theorem injAo_eq_l (m : BM κ) (x : κ) : injAo m x = SK.l ↔ some x = m.la :=
  injO_eq_l _ _ _ (fun _ h => by cases h) x

omit [Semiring α] in
theorem injBo_eq_l (m : BM κ) (x : κ) : injBo m x = SK.l ↔ some x = m.lb :=
  injO_eq_l _ _ _ (fun _ h => by cases h) x

omit [Semiring α] in
theorem injAo_eq_r (m : BM κ) (x : κ) : injAo m x = SK.r ↔ some x ≠ m.la ∧ some x = m.ra :=
  injO_eq_r _ _ _ (fun _ h => by cases h) x

omit [Semiring α] in
theorem injBo_eq_r (m : BM κ) (x : κ) : injBo m x = SK.r ↔ some x ≠ m.lb ∧ some x = m.rb :=
  injO_eq_r _ _ _ (fun _ h => by cases h) x

/-- value of the sum at the target of an edge of the first summand that does not enter `IdL` -/
theorem expectO_injAo_ne (m : BM κ) (sA sB : κ → α) (x : κ) (hx : some x ≠ m.la) :
    expectO m sA sB (injAo m x) = sA x := by
  unfold injAo injO
  rw [if_neg hx]
  split
  · next h => simp only [expectO, ← h]
  · rfl

theorem expectO_injBo_ne (m : BM κ) (sA sB : κ → α) (x : κ) (hx : some x ≠ m.lb)
    (hR : ∀ ka kb, m.ra = some ka → m.rb = some kb → sA ka = sB kb) :
    expectO m sA sB (injBo m x) = sB x := by
  unfold injBo injO
  rw [if_neg hx]
  split
  · next h =>
    simp only [expectO, ← h]
    cases h2 : m.ra with
    | none => rfl
    | some ka => exact hR ka x h2 h.symm
  · rfl

/-- what the induction uses on one site -/
structure SiteHyp (m m' : BM κ) (A B : List (Edge κ α)) : Prop where
  stdA : StdO m.la m.ra m'.la m'.ra A
  stdB : StdO m.lb m.rb m'.lb m'.rb B
  distA : DistO m.la m.ra
  distB : DistO m.lb m.rb
  distA' : DistO m'.la m'.ra
  distB' : DistO m'.lb m'.rb
  prefA : m.la = none → m'.la = none
  prefB : m.lb = none → m'.lb = none
  sufA : m'.ra = none → m.ra = none
  sufB : m'.rb = none → m.rb = none
  agreeL : ∀ x x' y y', m.la = some x → m'.la = some x' → m.lb = some y → m'.lb = some y' →
    ∀ op, entryCoeff A x x' op = entryCoeff B y y' op
  agreeR : ∀ x x' y y', m.ra = some x → m'.ra = some x' → m.rb = some y → m'.rb = some y' →
    ∀ op, entryCoeff A x x' op = entryCoeff B y y' op

/-- the values of the sum behind the site are the expected ones -/
structure NextOK (m' : BM κ) (sA sB : κ → α) (sS : SK κ → α) : Prop where
  val : ∀ K, ValidO m' K → sS K = expectO m' sA sB K
  req : ∀ ka kb, m'.ra = some ka → m'.rb = some kb → sA ka = sB kb

/-- a step from a state all of whose edges lead to `k'` -/
theorem stepSum_single (s : κ → α) (A : List (Edge κ α)) (op : String) (k k' : κ)
    (h : ∀ e ∈ A, e.kL = k → e.kR = k') :
    stepSum s A op k = entryCoeff A k k' op * s k' := by
  rw [stepSum, entryCoeff, ← sum_map_mul_right'']
  apply sum_congr_map
  intro e he
  by_cases h1 : e.kL = k
  · have h2 := h e he h1
    by_cases h3 : e.op = op
    · simp [h1, h2, h3]
    · simp [h3]
  · simp [h1]

/-- a step from a state without edges -/
theorem stepSum_none (s : κ → α) (A : List (Edge κ α)) (op : String) (k : κ)
    (h : ∀ e ∈ A, e.kL ≠ k) : stepSum s A op k = 0 := by
  rw [stepSum, ← sum_map_zero' (α := α) A]
  apply sum_congr_map
  intro e he
  simp [h e he]

variable {m m' : BM κ} {A B : List (Edge κ α)} {sA sB : κ → α} {sS : SK κ → α}

/-- the `IdR` suffixes of the two summands agree -/
theorem step_req (hs : SiteHyp m m' A B) (hn : NextOK m' sA sB sS) (op : String) (ka kb : κ)
    (ha : m.ra = some ka) (hb : m.rb = some kb) : stepSum sA A op ka = stepSum sB B op kb := by
  cases ha' : m'.ra with
  | none => rw [hs.sufA ha'] at ha; cases ha
  | some ka' =>
    cases hb' : m'.rb with
    | none => rw [hs.sufB hb'] at hb; cases hb
    | some kb' =>
      rw [stepSum_single sA A op ka ka', stepSum_single sB B op kb kb',
        hs.agreeR ka ka' kb kb' ha ha' hb hb' op, hn.req ka' kb' ha' hb']
      · intro e he h1
        have := (hs.stdB e he).2 (by rw [h1, hb])
        rw [hb'] at this; exact Option.some.inj this
      · intro e he h1
        have := (hs.stdA e he).2 (by rw [h1, ha])
        rw [ha'] at this; exact Option.some.inj this

theorem step_a (hs : SiteHyp m m' A B) (hn : NextOK m' sA sB sS) (op : String) (k : κ)
    (hk : some k ≠ m.la ∧ some k ≠ m.ra) :
    stepSum sS (symLayer m m' A B) op (SK.a k) = stepSum sA A op k := by
  rw [stepSum_symLayer]
  have hb0 : (B.map (fun e => if keepBo m m' e then (if injBo m e.kL = SK.a k ∧ e.op = op
      then e.c * sS (injBo m' e.kR) else 0) else 0)).sum = 0 := by
    rw [← sum_map_zero' (α := α) B]
    apply sum_congr_map
    intro e _
    simp [injBo_ne_a]
  rw [hb0, add_zero, stepSum]
  apply sum_congr_map
  intro e he
  obtain ⟨h1, h2⟩ := hs.stdA e he
  rw [keepAo_of_std m m' e h1 h2, if_pos rfl, hn.val _ (validO_injAo m' e.kR)]
  by_cases hc : e.kL = k ∧ e.op = op
  · have hne : some e.kR ≠ m'.la := fun h => hk.1 (hc.1 ▸ h1 h)
    rw [if_pos hc, if_pos ⟨(injAo_eq_a m e.kL k).2 ⟨hc.1, hk⟩, hc.2⟩, expectO_injAo_ne m' sA sB e.kR hne]
  · rw [if_neg hc, if_neg]
    intro h
    exact hc ⟨((injAo_eq_a m e.kL k).1 h.1).1, h.2⟩

theorem step_b (hs : SiteHyp m m' A B) (hn : NextOK m' sA sB sS) (op : String) (k : κ)
    (hk : some k ≠ m.lb ∧ some k ≠ m.rb) :
    stepSum sS (symLayer m m' A B) op (SK.b k) = stepSum sB B op k := by
  rw [stepSum_symLayer]
  have ha0 : (A.map (fun e => if keepAo m m' e then (if injAo m e.kL = SK.b k ∧ e.op = op
      then e.c * sS (injAo m' e.kR) else 0) else 0)).sum = 0 := by
    rw [← sum_map_zero' (α := α) A]
    apply sum_congr_map
    intro e _
    simp [injAo_ne_b]
  rw [ha0, zero_add, stepSum]
  apply sum_congr_map
  intro e he
  obtain ⟨h1, h2⟩ := hs.stdB e he
  rw [hn.val _ (validO_injBo m' e.kR)]
  by_cases hc : e.kL = k ∧ e.op = op
  · have hne : some e.kR ≠ m'.lb := fun h => hk.1 (hc.1 ▸ h1 h)
    have hkeep : keepBo m m' e = true := by
      rw [keepBo_of_std m m' e hs.distB h1 h2]
      have c1 : ¬ some e.kL = m.lb := hc.1 ▸ hk.1
      have c2 : ¬ some e.kL = m.rb := hc.1 ▸ hk.2
      simp [c1, c2]
    rw [hkeep, if_pos rfl, if_pos hc, if_pos ⟨(injBo_eq_b m e.kL k).2 ⟨hc.1, hk⟩, hc.2⟩,
      expectO_injBo_ne m' sA sB e.kR hne hn.req]
  · rw [if_neg hc]
    have : ¬ (injBo m e.kL = SK.b k ∧ e.op = op) := fun h => hc ⟨((injBo_eq_b m e.kL k).1 h.1).1, h.2⟩
    rw [if_neg this]
    simp

end TenpyModel.Ops
