import TenpyModel.C11.P2_Add6
/-!
# `MPO.__add__` on integer indices, part 7: the glued automaton with per-bond, partial markers denotes the sum

`sym_glued`: suffix-sum induction from the right end over the sites, with `step_all` as the step.
-/
namespace TenpyModel.Ops

variable {κ α : Type} [DecidableEq κ] [Semiring α]

/-- all layers of the sum with symbolic keys; `M j` = markers of bond `j` -/
def symLayers (M : Nat → BM κ) (As Bs : List (List (Edge κ α))) (L : Nat) : List (List (Edge (SK κ) α)) :=
  (List.range L).map (fun i => symLayer (M i) (M (i + 1)) (As.getD i []) (Bs.getD i []))

/-- hypotheses of the symbolic theorem -/
structure SymHyp (M : Nat → BM κ) (As Bs : List (List (Edge κ α))) (L : Nat) (rA rB : κ) : Prop where
  lenA : As.length = L
  lenB : Bs.length = L
  finA : (M L).ra = some rA
  finB : (M L).rb = some rB
  distAL : DistO (M L).la (M L).ra
  distBL : DistO (M L).lb (M L).rb
  site : ∀ j, j < L → SiteHyp (M j) (M (j + 1)) (As.getD j []) (Bs.getD j [])

omit [Semiring α] in
theorem symLayers_length (M : Nat → BM κ) (As Bs : List (List (Edge κ α))) (L : Nat) :
    (symLayers M As Bs L).length = L := by simp [symLayers]

omit [Semiring α] in
theorem symLayers_getD (M : Nat → BM κ) (As Bs : List (List (Edge κ α))) (L j : Nat) (h : j < L) :
    (symLayers M As Bs L).getD j [] = symLayer (M j) (M (j + 1)) (As.getD j []) (Bs.getD j []) := by
  simp [symLayers, List.getD_eq_getElem?_getD, h]

theorem coeff_pathsFrom_cons_fun {κ : Type} [DecidableEq κ] (fin : κ) (layer : List (Edge κ α))
    (rest : List (List (Edge κ α))) (op : String) (t : OpStr) :
    (fun k => coeff (pathsFrom fin (layer :: rest) k) (op :: t))
      = stepSum (fun k' => coeff (pathsFrom fin rest k') t) layer op := by
  funext k
  rw [coeff_pathsFrom_cons]
  rfl

omit [DecidableEq κ] in
theorem expectO_zero (m : BM κ) (K : SK κ) : expectO m (fun _ => (0 : α)) (fun _ => 0) K = 0 := by
  cases K with
  | l => rw [expectO_l]; cases m.la <;> cases m.lb <;> simp [atO]
  | r => simp only [expectO]; cases m.ra <;> cases m.rb <;> rfl
  | a k => rfl
  | b k => rfl

theorem sym_glued (M : Nat → BM κ) (As Bs : List (List (Edge κ α))) (L : Nat) (rA rB : κ)
    (h : SymHyp M As Bs L rA rB) :
    ∀ n j, j + n = L → ∀ t, NextOK (M j)
      (fun k => coeff (pathsFrom rA (As.drop j) k) t)
      (fun k => coeff (pathsFrom rB (Bs.drop j) k) t)
      (fun K => coeff (pathsFrom SK.r ((symLayers M As Bs L).drop j) K) t) := by
  intro n
  induction n with
  | zero =>
    intro j hj t
    have hjL : j = L := by omega
    subst hjL
    rw [List.drop_of_length_le (Nat.le_of_eq h.lenA), List.drop_of_length_le (Nat.le_of_eq h.lenB),
      List.drop_of_length_le (Nat.le_of_eq (symLayers_length M As Bs j))]
    constructor
    · intro K hK
      simp only [pathsFrom_nil]
      cases K with
      | l =>
        rw [expectO_l, if_neg (by intro h; cases h)]
        have e1 : atO (fun k => coeff (if k = rA then [([], (1 : α))] else []) t) (M j).la = 0 := by
          cases hl : (M j).la with
          | none => rfl
          | some k =>
            have : k ≠ rA := fun hk => h.distAL k hl (hk ▸ h.finA)
            simp [atO, this]
        have e2 : atO (fun k => coeff (if k = rB then [([], (1 : α))] else []) t) (M j).lb = 0 := by
          cases hl : (M j).lb with
          | none => rfl
          | some k =>
            have : k ≠ rB := fun hk => h.distBL k hl (hk ▸ h.finB)
            simp [atO, this]
        rw [e1, e2]; simp
      | r => simp [expectO, h.finA]
      | a k =>
        have : k ≠ rA := fun hk => hK.2 (by rw [hk, h.finA])
        simp [expectO, this]
      | b k =>
        have : k ≠ rB := fun hk => hK.2 (by rw [hk, h.finB])
        simp [expectO, this]
    · intro ka kb ha hb
      rw [h.finA] at ha; rw [h.finB] at hb
      cases ha; cases hb
      simp
  | succ n ih =>
    intro j hj t
    have hjL : j < L := by omega
    rw [drop_eq_getD_cons As j (by rw [h.lenA]; exact hjL), drop_eq_getD_cons Bs j (by rw [h.lenB]; exact hjL),
      drop_eq_getD_cons (symLayers M As Bs L) j (by rw [symLayers_length]; exact hjL),
      symLayers_getD M As Bs L j hjL]
    cases t with
    | nil =>
      simp only [coeff_pathsFrom_cons_nil]
      exact ⟨fun K _ => (expectO_zero (M j) K).symm, fun _ _ _ _ => rfl⟩
    | cons op t =>
      rw [coeff_pathsFrom_cons_fun, coeff_pathsFrom_cons_fun, coeff_pathsFrom_cons_fun]
      exact step_all (h.site j hjL) (ih (j + 1) (by omega) t) op

/-- **the glued automaton with partial, per-bond markers denotes the sum** -/
theorem sym_sum (M : Nat → BM κ) (As Bs : List (List (Edge κ α))) (L : Nat) (rA rB lA lB : κ)
    (h : SymHyp M As Bs L rA rB) (hlA : (M 0).la = some lA) (hlB : (M 0).lb = some lB) (t : OpStr) :
    coeff (pathsFrom SK.r (symLayers M As Bs L) SK.l) t
      = coeff (pathsFrom rA As lA) t + coeff (pathsFrom rB Bs lB) t := by
  have := (sym_glued M As Bs L rA rB h L 0 (by omega) t).val SK.l trivial
  simp only [List.drop_zero, expectO_l, hlA, hlB, atO] at this
  exact this

end TenpyModel.Ops
