import TenpyModel.C11.ExtDecideProofs1
import TenpyModel.C11.ExtDecideProofs2
/-!
# C11 extension, helper lemmas for `PropsExtDecide.lean`

* `ExtDecideProofs1`: the transfer-matrix fold over a window (`window_fold`, from `tmRun_spec`), the Frobenius
  product and `Sym.dagger` (`frob_hconj`, `frob_dagger_dagger`, `frob_right_dagger`), `frob_congr`
  (`frob` depends on its arguments only through `coeff`).
* `ExtDecideProofs2`: `overlapNoHc_spec`, `overlapNoHc_hconj_spec`, `overlap_flags_spec`,
  `isEqualNumSites_spec`, `isEqual_decides`, `isEqual_accepts`, `isHermitian_spec`.
-/
