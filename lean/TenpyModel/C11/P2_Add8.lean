import TenpyModel.C11.P2_Add7
/-!
# `MPO.__add__` on integer indices, part 8: the index maps of one bond

`phiB gL gR oa ob` places the symbolic keys of a bond on integer indices: `IdL ↦ 0` (if that group exists),
the other states of `a` in increasing order, then those of `b`, then `IdR`.  It is total and injective on the
keys that occur (`VB`), and `mapIdx` of `MPOM.add` is `phiB ∘ injO` when its groups are the natural ones.
-/
namespace TenpyModel.Ops
namespace MPOM

def phiB (gL gR : Bool) (oa ob : List Nat) : SK Nat → Option Nat
  | .l => if gL then some 0 else none
  | .r => if gR then some ((if gL then 1 else 0) + oa.length + ob.length) else none
  | .a k => (oa.idxOf? k).map (fun p => (if gL then 1 else 0) + p)
  | .b k => (ob.idxOf? k).map (fun p => (if gL then 1 else 0) + oa.length + p)

/-- the keys that occur on the bond -/
def VB (gL gR : Bool) (oa ob : List Nat) : SK Nat → Prop
  | .l => gL = true
  | .r => gR = true
  | .a k => k ∈ oa
  | .b k => k ∈ ob

theorem idxOf?_some_of_mem (l : List Nat) (k : Nat) (h : k ∈ l) : ∃ p, l.idxOf? k = some p := by
  cases hp : l.idxOf? k with
  | none => exact absurd h (List.idxOf?_eq_none_iff.1 hp)
  | some p => exact ⟨p, rfl⟩

theorem idxOf?_lt (l : List Nat) (k p : Nat) (h : l.idxOf? k = some p) : p < l.length := by
  obtain ⟨h1, _⟩ := List.idxOf?_eq_some_iff.1 h
  exact h1

theorem idxOf?_inj (l : List Nat) (k k' p : Nat) (h : l.idxOf? k = some p) (h' : l.idxOf? k' = some p) :
    k = k' := by
  obtain ⟨h1, h2, _⟩ := List.idxOf?_eq_some_iff.1 h
  obtain ⟨_, h2', _⟩ := List.idxOf?_eq_some_iff.1 h'
  rw [← h2, ← h2']

theorem phiB_tot (gL gR : Bool) (oa ob : List Nat) (K : SK Nat) (h : VB gL gR oa ob K) :
    ∃ x, phiB gL gR oa ob K = some x := by
  cases K with
  | l => simp only [VB] at h; exact ⟨0, by simp [phiB, h]⟩
  | r => simp only [VB] at h; exact ⟨_, by simp only [phiB, h, if_true]; rfl⟩
  | a k =>
    obtain ⟨p, hp⟩ := idxOf?_some_of_mem oa k h
    exact ⟨_, by simp only [phiB, hp, Option.map_some]; rfl⟩
  | b k =>
    obtain ⟨p, hp⟩ := idxOf?_some_of_mem ob k h
    exact ⟨_, by simp only [phiB, hp, Option.map_some]; rfl⟩

/-- where the image of a key lies -/
theorem phiB_l (gL gR : Bool) (oa ob : List Nat) (x : Nat) (h : phiB gL gR oa ob SK.l = some x) :
    x = 0 ∧ gL = true := by
  cases gL <;> simp [phiB] at h ⊢
  exact h.symm

theorem phiB_r (gL gR : Bool) (oa ob : List Nat) (x : Nat) (h : phiB gL gR oa ob SK.r = some x) :
    x = (if gL then 1 else 0) + oa.length + ob.length := by
  cases gR <;> simp [phiB] at h
  exact h.symm

theorem phiB_a (gL gR : Bool) (oa ob : List Nat) (k x : Nat) (h : phiB gL gR oa ob (SK.a k) = some x) :
    ∃ p, oa.idxOf? k = some p ∧ x = (if gL then 1 else 0) + p ∧ p < oa.length := by
  cases hp : oa.idxOf? k with
  | none => simp [phiB, hp] at h
  | some p =>
    simp only [phiB, hp, Option.map_some, Option.some.injEq] at h
    exact ⟨p, rfl, h.symm, idxOf?_lt oa k p hp⟩

theorem phiB_b (gL gR : Bool) (oa ob : List Nat) (k x : Nat) (h : phiB gL gR oa ob (SK.b k) = some x) :
    ∃ p, ob.idxOf? k = some p ∧ x = (if gL then 1 else 0) + oa.length + p ∧ p < ob.length := by
  cases hp : ob.idxOf? k with
  | none => simp [phiB, hp] at h
  | some p =>
    simp only [phiB, hp, Option.map_some, Option.some.injEq] at h
    exact ⟨p, rfl, h.symm, idxOf?_lt ob k p hp⟩

theorem phiB_inj (gL gR : Bool) (oa ob : List Nat) (K K' : SK Nat) (x : Nat)
    (h : phiB gL gR oa ob K = some x) (h' : phiB gL gR oa ob K' = some x) : K = K' := by
  cases K with
  | l =>
    obtain ⟨h1, h2⟩ := phiB_l _ _ _ _ _ h
    subst h2
    cases K' with
    | l => rfl
    | r => have := phiB_r _ _ _ _ _ h'; simp at this; omega
    | a k => obtain ⟨p, _, hx, _⟩ := phiB_a _ _ _ _ _ _ h'; simp at hx; omega
    | b k => obtain ⟨p, _, hx, _⟩ := phiB_b _ _ _ _ _ _ h'; simp at hx; omega
  | r =>
    have h1 := phiB_r _ _ _ _ _ h
    cases K' with
    | l => obtain ⟨h3, h2⟩ := phiB_l _ _ _ _ _ h'; subst h2; simp at h1; omega
    | r => rfl
    | a k => obtain ⟨p, _, hx, _⟩ := phiB_a _ _ _ _ _ _ h'; omega
    | b k => obtain ⟨p, _, hx, _⟩ := phiB_b _ _ _ _ _ _ h'; omega
  | a k =>
    obtain ⟨p, hp, hx, hlt⟩ := phiB_a _ _ _ _ _ _ h
    cases K' with
    | l => obtain ⟨h3, h2⟩ := phiB_l _ _ _ _ _ h'; subst h2; simp at hx; omega
    | r => have := phiB_r _ _ _ _ _ h'; omega
    | a k' =>
      obtain ⟨p', hp', hx', _⟩ := phiB_a _ _ _ _ _ _ h'
      have : p = p' := by omega
      subst this
      rw [idxOf?_inj oa k k' p hp hp']
    | b k' => obtain ⟨p', _, hx', _⟩ := phiB_b _ _ _ _ _ _ h'; omega
  | b k =>
    obtain ⟨p, hp, hx, hlt⟩ := phiB_b _ _ _ _ _ _ h
    cases K' with
    | l => obtain ⟨h3, h2⟩ := phiB_l _ _ _ _ _ h'; subst h2; simp at hx; omega
    | r => have := phiB_r _ _ _ _ _ h'; omega
    | a k' => obtain ⟨p', _, hx', _⟩ := phiB_a _ _ _ _ _ _ h'; omega
    | b k' =>
      obtain ⟨p', hp', hx', _⟩ := phiB_b _ _ _ _ _ _ h'
      have : p = p' := by omega
      subst this
      rw [idxOf?_inj ob k k' p hp hp']

/-- `mapIdx` with the natural groups of a bond: the map of the first summand -/
theorem mapIdx_fst (gL gR : Bool) (ba bb : Blocks) (k : Nat) :
    (mapIdx (gL, !ba.other.isEmpty, !bb.other.isEmpty, gR) ba bb).1 k
      = phiB gL gR ba.other bb.other (injO ba.idL ba.idR SK.a k) := by
  simp only [mapIdx, injO]
  have hA : (if (!ba.other.isEmpty) = true then ba.other.length else 0) = ba.other.length := by
    cases h : ba.other <;> simp
  have hB : (if (!bb.other.isEmpty) = true then bb.other.length else 0) = bb.other.length := by
    cases h : bb.other <;> simp
  rw [hA, hB]
  split
  · rfl
  · split
    · rfl
    · simp only [phiB]
      cases h : ba.other with
      | nil => simp
      | cons x l => simp

/-- `mapIdx` with the natural groups of a bond: the map of the second summand -/
theorem mapIdx_snd (gL gR : Bool) (ba bb : Blocks) (k : Nat) :
    (mapIdx (gL, !ba.other.isEmpty, !bb.other.isEmpty, gR) ba bb).2.1 k
      = phiB gL gR ba.other bb.other (injO bb.idL bb.idR SK.b k) := by
  simp only [mapIdx, injO]
  have hA : (if (!ba.other.isEmpty) = true then ba.other.length else 0) = ba.other.length := by
    cases h : ba.other <;> simp
  have hB : (if (!bb.other.isEmpty) = true then bb.other.length else 0) = bb.other.length := by
    cases h : bb.other <;> simp
  rw [hA, hB]
  split
  · rfl
  · split
    · rfl
    · simp only [phiB]
      cases h : bb.other with
      | nil => simp
      | cons x l => simp

/-- `mapIdx` with the natural groups of a bond: the dimension of the bond of the sum -/
theorem mapIdx_dim (gL gR : Bool) (ba bb : Blocks) :
    (mapIdx (gL, !ba.other.isEmpty, !bb.other.isEmpty, gR) ba bb).2.2
      = (if gL then 1 else 0) + ba.other.length + bb.other.length + (if gR then 1 else 0) := by
  simp only [mapIdx]
  have hA : (if (!ba.other.isEmpty) = true then ba.other.length else 0) = ba.other.length := by
    cases h : ba.other <;> simp
  have hB : (if (!bb.other.isEmpty) = true then bb.other.length else 0) = bb.other.length := by
    cases h : bb.other <;> simp
  rw [hA, hB]

end MPOM
end TenpyModel.Ops
