import TenpyModel.C10.AlgProofs
import TenpyModel.C11.ExtFlag
import TenpyModel.C11.P2_AddMain
import TenpyModel.C11.ExtEnvProofs
/-!
# C11 helper lemmas: the flag `explicit_plus_hc` through `__add__` and the other MPO-returning operations
-/
namespace TenpyModel.Ops

variable {α : Type} [CommSemiring α]

theorem map_hc_injective (hc : String → String) (hhc : ∀ x, hc (hc x) = x) :
    Function.Injective (List.map hc) := by
  intro a b h
  have := congrArg (List.map hc) h
  simpa [List.map_map, Function.comp_def, hhc] using this

/-- coefficients of the Hermitian conjugate: `coeff (s†) t = cj (coeff s (hc t))` -/
theorem coeff_dagger_flag (hc : String → String) (cj : α →+* α) (hhc : ∀ x, hc (hc x) = x) (s : Sym α)
    (t : OpStr) : coeff (Sym.dagger hc cj s) t = cj (coeff s (t.map hc)) := by
  have h := coeff_map_inj (List.map hc) (map_hc_injective hc hhc) cj.toAddMonoidHom s (t.map hc)
  have ht : (t.map hc).map hc = t := by simp [List.map_map, Function.comp_def, hhc]
  rw [ht] at h
  exact h

/-- the Hermitian conjugate respects equality of operators -/
theorem dagger_equiv (hc : String → String) (cj : α →+* α) (hhc : ∀ x, hc (hc x) = x) {s s' : Sym α}
    (h : Sym.Equiv s s') : Sym.Equiv (Sym.dagger hc cj s) (Sym.dagger hc cj s') := by
  intro t
  rw [coeff_dagger_flag hc cj hhc, coeff_dagger_flag hc cj hhc, h]

theorem mpox_full_coeff (hc : String → String) (cj : α →+* α) (hhc : ∀ x, hc (hc x) = x) (a : MPOX α) (t : OpStr) :
    coeff (a.full hc cj) t =
      if a.plusHc then coeff a.m.denote t + cj (coeff a.m.denote (t.map hc)) else coeff a.m.denote t := by
  unfold MPOX.full
  split
  · rw [coeff_append, coeff_dagger_flag hc cj hhc]
  · rfl

omit [CommSemiring α] in
theorem mpox_add_some [DecidableEq α] (a b s : MPOX α) (h : MPOX.add a b = some s) :
    a.plusHc = b.plusHc ∧ a.finite = b.finite ∧ a.m.L = b.m.L ∧
      s = ⟨MPOM.add a.m b.m, a.finite, a.maxRange.addRange b.maxRange, a.plusHc⟩ := by
  unfold MPOX.add at h
  split at h
  · cases h
  · split at h
    · cases h
    · rename_i h1 h2
      simp only [bne_iff_ne, ne_eq, Decidable.not_not, Bool.or_eq_true, not_or] at h1 h2
      exact ⟨h1, h2.1, h2.2, (Option.some.inj h).symm⟩

/-- the sum of two MPOs stands for the sum of the operators, the `+ h.c.` parts included -/
theorem mpox_add_full [DecidableEq α] (hc : String → String) (cj : α →+* α) (hhc : ∀ x, hc (hc x) = x)
    (a b s : MPOX α) (hab : AddHyp a.m b.m) (h : MPOX.add a b = some s) (t : OpStr) :
    coeff (s.full hc cj) t = coeff (a.full hc cj) t + coeff (b.full hc cj) t := by
  obtain ⟨hf, _, _, rfl⟩ := mpox_add_some a b s h
  rw [mpox_full_coeff hc cj hhc, mpox_full_coeff hc cj hhc, mpox_full_coeff hc cj hhc]
  simp only
  rw [← hf]
  by_cases hp : a.plusHc = true
  · simp only [hp, if_true]
    rw [add_indices a.m b.m hab t, add_indices a.m b.m hab (t.map hc), map_add]
    ring
  · simp only [hp]
    exact add_indices a.m b.m hab t

/-- a flagged MPO stands for a self-adjoint operator -/
theorem mpox_full_hermitian (hc : String → String) (cj : α →+* α) (hhc : ∀ x, hc (hc x) = x)
    (hcj : ∀ x, cj (cj x) = x) (a : MPOX α) (hp : a.plusHc = true) :
    Sym.Equiv (Sym.dagger hc cj (a.full hc cj)) (a.full hc cj) := by
  unfold MPOX.full
  rw [if_pos hp]
  exact hermitian_of_closed hc cj hhc hcj _

end TenpyModel.Ops
