import TenpyModel.Ops.MPO
/-!
# C11 extension, part 2: operations that re-arrange an MPO without changing the operator
(tenpy/networks/mpo.py)

* `MPOM.sortLegcharges`      `MPO.sort_legcharges()`: every virtual bond is permuted by the stable sort of its
                             charges (`np.lexsort(charges.T)`: last charge component = primary key); the
                             markers follow (`np.nonzero(p == IdL)[0][0]`)
* `MPOM.groupSites`          `MPO.group_sites(n)` / `group_sites(grouped_sites=…)`: the `W` of each group are
                             multiplied over the shared bond, the physical legs combined; `IdL`, `IdR`, `chi`
                             are read at the group boundaries; `groupedMaxRange` = `ceil(max_range / min_n)`
* `MPOM.enlargeUnitCell`     `MPO.enlarge_mps_unit_cell(factor)` (infinite only, `factor > 1`)
* `MPOM.extractSegment`      `MPO.extract_segment(first, last)`
-/
namespace TenpyModel.Ops

/-! ## sort_legcharges -/

/-- lexicographic `<` on integer lists -/
def intsLt : List Int → List Int → Bool
  | [], [] => false
  | [], _ :: _ => true
  | _ :: _, [] => false
  | a :: as, b :: bs => if a < b then true else if b < a then false else intsLt as bs

/-- the order of `np.lexsort(charges.T)`: the last charge is the primary key -/
def chargeLt (a b : List Int) : Bool := intsLt a.reverse b.reverse

/-- insert index `x` in front of the first index whose charge is not smaller (all indices in the list are
larger than `x`: stable) -/
def insertByCharge (q : List (List Int)) (x : Nat) : List Nat → List Nat
  | [] => [x]
  | y :: ys =>
    if chargeLt (q.getD y []) (q.getD x []) then y :: insertByCharge q x ys else x :: y :: ys

/-- stable argsort of the charges of one leg: position `j` of the sorted leg holds the old index `perm[j]` -/
def sortPerm (q : List (List Int)) : List Nat :=
  (List.range q.length).foldr (fun x acc => insertByCharge q x acc) []

/-- new position of the old index `k`: `np.nonzero(perm == k)[0][0]` -/
def newIdx (perm : List Nat) (k : Nat) : Nat := perm.idxOf k

/-- `MPO.sort_legcharges()`; `q[b]` = the charges of the indices of bond `b` (`L + 1` bonds) -/
def MPOM.sortLegcharges {α : Type} (m : MPOM α) (q : List (List (List Int))) : MPOM α :=
  let perm (b : Nat) : List Nat := sortPerm (q.getD b [])
  { m with
    layers := (m.layers.zipIdx).map (fun (lay, i) =>
      lay.map (fun e => { e with kL := newIdx (perm i) e.kL, kR := newIdx (perm (i + 1)) e.kR })),
    idL := (m.idL.zipIdx).map (fun (x, b) => x.map (newIdx (perm b))),
    idR := (m.idR.zipIdx).map (fun (x, b) => x.map (fun r => newIdx (perm b) (r % m.chi.getD b 1))) }

/-! ## group_sites -/

/-- `tensordot(W_1, W_2, axes=['wR', 'wL'])` with the physical legs combined: `join` names the product
operator on the grouped site -/
def composeLayer {α : Type} [Mul α] (join : String → String → String) (l1 l2 : List (Edge Nat α)) :
    List (Edge Nat α) :=
  l1.flatMap (fun e1 => (l2.filter (fun e2 => e2.kL = e1.kR)).map (fun e2 =>
    (⟨e1.kL, e2.kR, join e1.op e2.op, e1.c * e2.c⟩ : Edge Nat α)))

/-- the `W` of one group: `new_W = W_i`, then `new_W = new_W · W_{i+j}` for `j = 1 … n_sites - 1` -/
def composeGroup {α : Type} [Mul α] (join : String → String → String) : List (List (Edge Nat α)) → List (Edge Nat α)
  | [] => []
  | l :: ls => ls.foldl (composeLayer join) l

/-- split the chain into groups of the given sizes -/
def groupLayers {α : Type} [Mul α] (join : String → String → String) :
    List Nat → List (List (Edge Nat α)) → List (List (Edge Nat α))
  | [], _ => []
  | s :: ss, layers => composeGroup join (layers.take s) :: groupLayers join ss (layers.drop s)

/-- the group sizes of `site.group_sites(sites, n)`: `n, n, …, (L mod n if ≠ 0)` -/
def groupSizes (L n : Nat) : List Nat :=
  List.replicate (L / n) n ++ (if L % n = 0 then [] else [L % n])

/-- bond indices at the group boundaries: `0, s₀, s₀ + s₁, …` (the last one excluded) -/
def groupStarts : Nat → List Nat → List Nat
  | _, [] => []
  | i, s :: ss => i :: groupStarts (i + s) ss

/-- `MPO.group_sites(n, grouped_sites)`; `sizes` = `[gs.n_sites for gs in grouped_sites]`.
`none`: `n = 0` (`range(0, L, 0)` raises) or `grouped_sites[0].n_sites ≠ n` (assert) -/
def MPOM.groupSites {α : Type} [Mul α] (join : String → String → String) (m : MPOM α) (n : Nat)
    (sizes : Option (List Nat)) : Option (MPOM α) :=
  if n = 0 then none else
  let szs := sizes.getD (groupSizes m.L n)
  if sizes.isSome && szs.head? ≠ some n then none else
  let starts := groupStarts 0 szs
  some ⟨szs.length, groupLayers join szs m.layers,
    starts.map (fun i => m.chi.getD i 0) ++ [m.chi.getLastD 0],
    starts.map (fun i => m.idL.getD i none) ++ [m.idL.getLastD none],
    m.idR.headD none :: ((starts.zip szs).map (fun (i, s) => m.idR.getD (i + s) none))⟩

/-- `max_range` after grouping: `int(ceil(max_range / min_n))`, `min_n = max(min(sizes), 1)`; unknown and
infinite ranges are kept -/
def groupedMaxRange (mr : MaxRange) (sizes : List Nat) : MaxRange :=
  match mr with
  | .fin r =>
    let minN := max (sizes.foldl min (sizes.headD 1)) 1
    .fin (Int.ediv (r + (minN : Int) - 1) minN)
  | x => x

/-- the string of a product of local operators after grouping -/
def regroupStr (join : String → String → String) : List Nat → OpStr → OpStr
  | [], _ => []
  | s :: ss, t =>
    (match t.take s with
     | [] => ""
     | x :: xs => xs.foldl join x) :: regroupStr join ss (t.drop s)

/-! ## enlarge_mps_unit_cell, extract_segment -/

/-- `MPO.enlarge_mps_unit_cell(factor)`: `ValueError` for `factor ≤ 1` and for finite MPOs -/
def MPOM.enlargeUnitCell {α : Type} (m : MPOM α) (finite : Bool) (factor : Nat) : Option (MPOM α) :=
  if factor ≤ 1 || finite then none else
  some ⟨factor * m.L, (List.replicate factor m.layers).flatten,
    (List.replicate factor m.chi.dropLast).flatten ++ [m.chi.getLastD 0],
    (List.replicate factor m.idL.dropLast).flatten ++ [m.idL.getLastD none],
    (List.replicate factor m.idR.dropLast).flatten ++ [m.idR.getLastD none]⟩

/-- `MPO.extract_segment(first, last)` (sites `first … last` included, taken modulo `L`); `ucw` = the MPS
unit-cell width: the number of sites must be a multiple of `L // ucw` (`ValueError`), `L // ucw = 0` is a
`ZeroDivisionError`; an empty segment cannot be built -/
def MPOM.extractSegment {α : Type} (m : MPOM α) (ucw first last : Nat) : Option (MPOM α) :=
  let spr := m.L / ucw
  if spr = 0 || last < first then none else
  if (last + 1 - first) % spr ≠ 0 then none else
  let idx := (List.range (last + 1 - first)).map (· + first)
  some ⟨idx.length, idx.map (fun i => m.layers.getD (i % m.L) []),
    idx.map (fun i => m.chi.getD (i % m.L) 0) ++ [m.chi.getD (last % m.L + 1) 0],
    idx.map (fun i => m.idL.getD (i % m.L) none) ++ [m.idL.getD (last % m.L + 1) none],
    idx.map (fun i => m.idR.getD (i % m.L) none) ++ [m.idR.getD (last % m.L + 1) none]⟩

/-- operator denoted by the first `n` sites of an (infinite) MPO: `IdL[0]` on the left, `IdR` right of site
`n - 1` on the right (`mpo_window_dense`, the window of `overlap`) -/
def MPOM.denoteSites {α : Type} [Mul α] [One α] (m : MPOM α) (n : Nat) : Sym α :=
  if n = 0 then [] else
  match m.idL.getD 0 none, m.idR.getD ((n - 1) % m.L + 1) none with
  | some l, some r => pathsFrom r ((List.range n).map (fun i => m.layers.getD (i % m.L) [])) l
  | _, _ => []

/-- shape conditions for `sort_legcharges`: list lengths, one charge per virtual index, entries and outer
markers inside the bond dimensions -/
structure SortHyp {α : Type} (m : MPOM α) (q : List (List (List Int))) : Prop where
  layers : m.layers.length = m.L
  idL : m.idL.length = m.L + 1
  idR : m.idR.length = m.L + 1
  chi : m.chi.length = m.L + 1
  q : ∀ b, b ≤ m.L → (q.getD b []).length = m.chi.getD b 0
  edges : ∀ i, i < m.L → ∀ e ∈ m.layers.getD i [], e.kL < m.chi.getD i 0 ∧ e.kR < m.chi.getD (i + 1) 0
  mL : ∀ l, m.idL.getD 0 none = some l → l < m.chi.getD 0 0
  mR : ∀ r, m.idR.getD m.L none = some r → r < m.chi.getD m.L 0

/-- shape conditions for `group_sites`: list lengths; the group sizes are positive and partition the chain -/
structure GroupHyp {α : Type} (m : MPOM α) (n : Nat) (sizes : Option (List Nat)) : Prop where
  layers : m.layers.length = m.L
  idL : m.idL.length = m.L + 1
  idR : m.idR.length = m.L + 1
  Lpos : 0 < m.L
  npos : 0 < n
  pos : ∀ s ∈ sizes.getD (groupSizes m.L n), 0 < s
  sum : (sizes.getD (groupSizes m.L n)).sum = m.L

end TenpyModel.Ops
