import TenpyModel.C11.ExtTermsProofs
/-!
# C11 — extension round, property theorems 4: `MPO.to_TermList`

Model: `C11/ExtTerms.lean`; helper lemmas: `C11/ExtTermsProofs.lean`.

`C11_to_TermList`: for a finite MPO in standard form (`TermHyp`: `UIHyp` of `make_U_I` + markers present +
indices inside the bond dimensions) the terms returned by `to_TermList` (all start sites, nothing but `"Id"`
ignored, an operator basis without repetition that contains every name used, range not cut, `cutoff` only
removing exact zeros) add up to the operator the MPO denotes, coefficient by coefficient; a term is re-expanded
with `"Id"` on the sites it does not mention (`MPOX.termStr`).

Proof: `termStep` preserves the total value of (finished terms) + (partial terms weighted with the path sums
from their virtual index to `IdR[L]`) (`C11_termStep_value`, `tl_g_step`); dropping `partial_L[IdL]` at `k = 1`
removes exactly the part of the operator that is the identity on the sites `≤ i` (`C11_terms_from_site`); the
sum over the start sites telescopes.
-/
open TenpyModel.Ops

/-- **the default range**: an explicit `max_range` wins; otherwise `5·L`, cut to `self.max_range` when that is
a known finite number (`None` and `inf` do not cut). -/
theorem C11_termListRange {α : Type} (a : MPOX α) :
    (∀ r, a.termListRange (some r) = r) ∧
    (∀ r, a.maxRange = .fin r → a.termListRange none = min (5 * a.m.L) r.toNat) ∧
    (a.maxRange.known = false → a.termListRange none = 5 * a.m.L) := by
  refine ⟨fun r => rfl, fun r h => ?_, fun h => ?_⟩
  · unfold MPOX.termListRange; rw [h]
  · unfold MPOX.termListRange
    cases hm : a.maxRange with
    | fin r => rw [hm] at h; simp [MaxRange.known] at h
    | unknown => rfl
    | inf => rfl

/-- **a start site outside a finite chain** is the only way to fail (`IndexError` of `get_W`); the default
`start = range(L)` never fails. -/
theorem C11_to_TermList_rejects {α : Type} [Add α] [Mul α] [Zero α] [One α] (small : α → Bool)
    (ignore : List String) (a : MPOX α) (basis : Nat → List String) (start : Option (List Nat))
    (maxRange : Option Nat) :
    (a.toTermList small ignore basis start maxRange = none ↔
      a.finite = true ∧ ∃ i ∈ start.getD (List.range a.m.L), a.m.L ≤ i) ∧
    a.toTermList small ignore basis none maxRange ≠ none := by
  have key : ∀ st : Option (List Nat), a.toTermList small ignore basis st maxRange = none ↔
      a.finite = true ∧ ∃ i ∈ st.getD (List.range a.m.L), a.m.L ≤ i := by
    intro st
    unfold MPOX.toTermList
    simp only
    split
    · next hc =>
      simp only [Bool.and_eq_true, List.any_eq_true, decide_eq_true_eq] at hc
      simp [hc]
    · next hc =>
      simp only [Bool.and_eq_true, List.any_eq_true, decide_eq_true_eq] at hc
      simp only [reduceCtorEq, false_iff]
      exact hc
  refine ⟨key start, ?_⟩
  rw [Ne, key none]
  rintro ⟨_, i, hi, hL⟩
  simp only [Option.getD_none, List.mem_range] at hi
  omega

/-- **one site step** (`termStep`, site `j = i + k`), value form.  Let the finished terms be valued with any
weight `gF` and the terms of `partial_R[y]` with any weights `gR y` (value of a list = `Σ pref · weight term`).
Then `partial_R` has `chiR` entries and the total value of the two outputs is the sum over the operator names
`op` of the basis, the rows `x` and the columns `y` of `op_W[x, y]` times the value of the terms of
`partial_L[x]` (`partial_L[IdL]` emptied when `k > 0`), each extended by `(op, j)` — not extended if `op` is
ignored and `k > 0` — and counted as finished iff `y = IdR`.  (`cutoff` removes exact zeros only.) -/
theorem C11_termStep_value {α : Type} [CommSemiring α] (small : α → Bool) (hsmall : ∀ x, small x = true → x = 0)
    (ignore : List String) (lay : List (Edge Nat α)) (basis : List String) (chiL chiR : Nat)
    (idL idR : Option Nat) (k j : Nat) (partialL : List (List (TTerm α)))
    (gF : List (String × Nat) → α) (gR : Nat → List (String × Nat) → α) :
    let pL := if k > 0 then (match idL with | some l => partialL.set l [] | none => partialL) else partialL
    let r := MPOX.termStep small ignore lay basis chiL chiR idL idR k j partialL
    r.2.length = chiR ∧
    (r.1.map (fun tm => tm.2 * gF tm.1)).sum
      + ((List.range chiR).map (fun y => ((r.2.getD y []).map (fun tm => tm.2 * gR y tm.1)).sum)).sum
    = (basis.map (fun op => ((List.range chiL).map (fun x => ((List.range chiR).map (fun y =>
        ((pL.getD x []).map (fun tm => tm.2 * (MPOX.opW lay op x y *
          (if some y = idR then gF (tm.1 ++ [(op, j)])
           else gR y (if k > 0 && ignore.contains op then tm.1 else tm.1 ++ [(op, j)]))))).sum)).sum)).sum)).sum :=
  tl_termStep_meas small hsmall ignore lay basis chiL chiR idL idR k j partialL gF gR

/-- **one site step, edge form**: with a basis without repetition that contains every name of the layer, and
column indices inside `chiR`, the total value is the sum over the rows `x`, the terms of `partial_L[x]` and the
edges `e` leaving `x` of `pref · e.c ·` (weight of the term extended by `e.op`, finished iff `e` enters `IdR`):
`op_W` adds up the coefficients of parallel edges, nothing else. -/
theorem C11_termStep_edges {α : Type} [CommSemiring α] (small : α → Bool) (hsmall : ∀ x, small x = true → x = 0)
    (ignore : List String) (lay : List (Edge Nat α)) (basis : List String) (hnd : basis.Nodup) (chiL chiR : Nat)
    (hlay : ∀ e ∈ lay, e.op ∈ basis ∧ e.kR < chiR) (idL idR : Option Nat) (k j : Nat)
    (partialL : List (List (TTerm α))) (gF : List (String × Nat) → α) (gR : Nat → List (String × Nat) → α) :
    let pL := if k > 0 then (match idL with | some l => partialL.set l [] | none => partialL) else partialL
    let r := MPOX.termStep small ignore lay basis chiL chiR idL idR k j partialL
    (r.1.map (fun tm => tm.2 * gF tm.1)).sum
      + ((List.range chiR).map (fun y => ((r.2.getD y []).map (fun tm => tm.2 * gR y tm.1)).sum)).sum
    = ((List.range chiL).map (fun x => ((pL.getD x []).map (fun tm => tm.2 *
        (lay.map (fun e => if e.kL = x then e.c *
          (if some e.kR = idR then gF (tm.1 ++ [(e.op, j)])
           else gR e.kR (if k > 0 && ignore.contains e.op then tm.1 else tm.1 ++ [(e.op, j)])) else 0)).sum)).sum)).sum :=
  tl_termStep_edges small hsmall ignore lay basis hnd chiL chiR hlay idL idR k j partialL gF gR

/-- **one site step, structure**: a term that reaches `IdR` is finished, never continued (`partial_R[IdR]`
stays empty), and partial terms whose sites are `< j` are continued to terms whose sites are `≤ j`. -/
theorem C11_termStep_struct {α : Type} [CommSemiring α] (small : α → Bool) (ignore : List String)
    (lay : List (Edge Nat α)) (basis : List String) (chiL chiR : Nat) (idL : Option Nat) (r : Nat) (k j : Nat)
    (partialL : List (List (TTerm α))) (hs : ∀ x, ∀ tm ∈ partialL.getD x [], ∀ p ∈ tm.1, p.2 < j) :
    (MPOX.termStep small ignore lay basis chiL chiR idL (some r) k j partialL).2.getD r [] = [] ∧
    ∀ y, ∀ tm ∈ (MPOX.termStep small ignore lay basis chiL chiR idL (some r) k j partialL).2.getD y [],
      ∀ p ∈ tm.1, p.2 < j + 1 := by
  have h := tl_termStep_struct small ignore lay basis chiL chiR idL (some r) k j partialL
    (tl_pL_sites k idL partialL j hs)
  exact ⟨h.1 r rfl, h.2⟩

/-- `MPOM.tailSym m b` (the part of the operator that is the identity on the sites `< b`: `Id^b ⊗` the paths
from `IdL[b]` to `IdR[L]`) is the whole operator for `b = 0` and vanishes for `b = L`. -/
theorem C11_tailSym_ends {α : Type} [CommSemiring α] (m : MPOM α) (h : UIHyp m) (t : OpStr) :
    coeff (m.tailSym 0) t = coeff m.denote t ∧ coeff (m.tailSym m.L) t = 0 := by
  rw [tl_coeff_tailSym, tl_coeff_tailSym, tl_tail_zero m h, tl_tail_last m h]
  exact ⟨rfl, rfl⟩

/-- **the terms starting on site `i`** (`termsFrom`, the body of the loop over `start`): together with the part
of the operator that is the identity on the sites `≤ i` they make up the part that is the identity on the sites
`< i` — coefficient by coefficient, i.e. they are exactly the terms of the operator whose left-most
non-trivial entry (edge leaving `IdL`) is on site `i`.  (A semiring has no subtraction, hence the sum form.) -/
theorem C11_terms_from_site {α : Type} [CommSemiring α] (a : MPOX α) (h : TermHyp a)
    (small : α → Bool) (hsmall : ∀ x, small x = true → x = 0)
    (ignore : List String) (hign : ∀ o ∈ ignore, o = "Id")
    (basis : Nat → List String)
    (hbasis : ∀ j, j < a.m.L → (basis j).Nodup ∧ ∀ e ∈ a.m.layers.getD j [], e.op ∈ basis j)
    (R : Nat) (hR : a.m.L ≤ R + 1) (i : Nat) (hi : i < a.m.L) (t : OpStr) :
    coeff (MPOX.termsSym a.m.L (MPOX.termsFrom small ignore a basis R i)) t + coeff (a.m.tailSym (i + 1)) t
      = coeff (a.m.tailSym i) t := by
  rw [tl_coeff_tailSym, tl_coeff_tailSym]
  exact tl_terms_from_site' small hsmall ignore hign a h basis hbasis R hR t i hi

/-- **`to_TermList` is correct**: for a finite MPO in standard form the returned terms (start = all sites,
`ignore ⊆ ["Id"]`, basis without repetition containing every name used, range at least `L - 1`, `cutoff`
removing exact zeros only) sum up to the operator the MPO denotes, coefficient by coefficient. -/
theorem C11_to_TermList {α : Type} [CommSemiring α] (a : MPOX α) (h : TermHyp a)
    (small : α → Bool) (hsmall : ∀ x, small x = true → x = 0)
    (ignore : List String) (hign : ∀ o ∈ ignore, o = "Id")
    (basis : Nat → List String)
    (hbasis : ∀ j, j < a.m.L → (basis j).Nodup ∧ ∀ e ∈ a.m.layers.getD j [], e.op ∈ basis j)
    (maxRange : Option Nat) (hrange : a.m.L ≤ a.termListRange maxRange + 1)
    (ts : List (TTerm α)) (hts : a.toTermList small ignore basis none maxRange = some ts) (t : OpStr) :
    coeff (MPOX.termsSym a.m.L ts) t = coeff a.m.denote t :=
  tl_to_TermList small hsmall ignore hign a h basis hbasis maxRange hrange ts hts t

/-! ## non-vacuity -/
section examples

/-- 3 sites, bond dimensions `[2, 3, 2, 2]`, `IdL` = index 0, `IdR` = last index on every bond:
`3·X₀ + 14·A₀B₁ + 5·Y₁ + 11·Z₂` (the coefficient 14 = 2·7 is spread over two sites; `max_range = 2`) -/
def exTL1 : MPOX Int :=
  ⟨⟨3,
    [[⟨0, 0, "Id", 1⟩, ⟨0, 1, "A", 2⟩, ⟨0, 2, "X", 3⟩, ⟨1, 2, "Id", 1⟩],
     [⟨0, 0, "Id", 1⟩, ⟨0, 1, "Y", 5⟩, ⟨1, 1, "B", 7⟩, ⟨2, 1, "Id", 1⟩],
     [⟨0, 0, "Id", 1⟩, ⟨0, 1, "Z", 11⟩, ⟨1, 1, "Id", 1⟩]],
    [2, 3, 2, 2],
    [some 0, some 0, some 0, some 0],
    [some 1, some 2, some 1, some 1]⟩, true, .fin 2, false⟩

def exTLbasis : Nat → List String := fun _ => ["Id", "X", "Y", "Z", "A", "B"]

theorem exTL1_hyp : TermHyp exTL1 := TermHyp.of_check exTL1 (by decide)

theorem exTLbasis_ok (a : MPOX Int) (hL : a.m.L = 3)
    (h : ∀ j, j < 3 → ∀ e ∈ a.m.layers.getD j [], e.op ∈ ["Id", "X", "Y", "Z", "A", "B"]) :
    ∀ j, j < a.m.L → (exTLbasis j).Nodup ∧ ∀ e ∈ a.m.layers.getD j [], e.op ∈ exTLbasis j :=
  fun j hj => ⟨by show ["Id", "X", "Y", "Z", "A", "B"].Nodup; decide, h j (by omega)⟩

example : exTL1.termListRange none = 2 ∧ exTL1.termListRange (some 7) = 7 := by decide

/-- the evaluated term list: one term per path, `14 = 2·7` multiplied up along the path -/
theorem exTL1_terms : exTL1.toTermList (fun c => c == 0) ["Id"] exTLbasis none none
    = some [([("X", 0)], 3), ([("A", 0), ("B", 1)], 14), ([("Y", 1)], 5), ([("Z", 2)], 11)] := by
  decide +kernel

example : MPOX.termsSym 3 [([("X", 0)], (3 : Int)), ([("A", 0), ("B", 1)], 14), ([("Y", 1)], 5), ([("Z", 2)], 11)]
    = [(["X", "Id", "Id"], 3), (["A", "B", "Id"], 14), (["Id", "Y", "Id"], 5), (["Id", "Id", "Z"], 11)] := by
  decide

example : canon 0 (MPOX.termsSym 3
      [([("X", 0)], (3 : Int)), ([("A", 0), ("B", 1)], 14), ([("Y", 1)], 5), ([("Z", 2)], 11)])
    = canon 0 exTL1.m.denote := by decide +kernel

/-- the theorem applied to the example -/
example (t : OpStr) : coeff (MPOX.termsSym 3
      [([("X", 0)], (3 : Int)), ([("A", 0), ("B", 1)], 14), ([("Y", 1)], 5), ([("Z", 2)], 11)]) t
    = coeff exTL1.m.denote t :=
  C11_to_TermList exTL1 exTL1_hyp (fun c => c == 0) (fun x hx => by simpa using hx) ["Id"]
    (fun o ho => by simpa using ho) exTLbasis (exTLbasis_ok exTL1 rfl (by decide)) none (by decide) _ exTL1_terms t

/-- the terms starting on site 0 and on site 1; a start site outside the chain is rejected -/
example : exTL1.toTermList (fun c => c == 0) ["Id"] exTLbasis (some [1, 0]) none
    = some [([("Y", 1)], 5), ([("X", 0)], 3), ([("A", 0), ("B", 1)], 14)] ∧
    exTL1.toTermList (fun c => c == 0) ["Id"] exTLbasis (some [1, 3]) none = none := by
  decide +kernel

/-- a cut range loses the two-site term (the hypothesis `hrange`): `max_range = 0` -/
example : exTL1.toTermList (fun c => c == 0) ["Id"] exTLbasis none (some 0)
    = some [([("X", 0)], 3), ([("Y", 1)], 5), ([("Z", 2)], 11)] := by
  decide +kernel

/-- `7·A₀ Id₁ B₂` (+ nothing else): bond dimensions `[2, 3, 3, 2]`; the inner `"Id"` is an ordinary entry of
`W_1` between the two inner states -/
def exTL2 : MPOX Int :=
  ⟨⟨3,
    [[⟨0, 0, "Id", 1⟩, ⟨0, 1, "A", 7⟩, ⟨1, 2, "Id", 1⟩],
     [⟨0, 0, "Id", 1⟩, ⟨1, 1, "Id", 1⟩, ⟨2, 2, "Id", 1⟩],
     [⟨0, 0, "Id", 1⟩, ⟨1, 1, "B", 1⟩, ⟨2, 1, "Id", 1⟩]],
    [2, 3, 3, 2],
    [some 0, some 0, some 0, some 0],
    [some 1, some 2, some 2, some 1]⟩, true, .unknown, false⟩

theorem exTL2_hyp : TermHyp exTL2 := TermHyp.of_check exTL2 (by decide)

/-- `ignore = ["Id"]` drops the inner `("Id", 1)` from the term … -/
theorem exTL2_terms : exTL2.toTermList (fun c => c == 0) ["Id"] exTLbasis none none
    = some [([("A", 0), ("B", 2)], 7)] := by
  decide +kernel

/-- … without `ignore` it is kept … -/
example : exTL2.toTermList (fun c => c == 0) [] exTLbasis none none
    = some [([("A", 0), ("Id", 1), ("B", 2)], 7)] := by
  decide +kernel

/-- … and `termStr` restores it: both term lists are the same formal sum, the operator of the MPO -/
example : MPOX.termsSym 3 [([("A", 0), ("B", 2)], (7 : Int))] = [(["A", "Id", "B"], 7)] ∧
    MPOX.termsSym 3 [([("A", 0), ("Id", 1), ("B", 2)], (7 : Int))] = [(["A", "Id", "B"], 7)] ∧
    exTL2.m.denote = [(["A", "Id", "B"], 7)] := by decide +kernel

example (t : OpStr) : coeff (MPOX.termsSym 3 [([("A", 0), ("B", 2)], (7 : Int))]) t = coeff exTL2.m.denote t :=
  C11_to_TermList exTL2 exTL2_hyp (fun c => c == 0) (fun x hx => by simpa using hx) ["Id"]
    (fun o ho => by simpa using ho) exTLbasis (exTLbasis_ok exTL2 rfl (by decide)) none (by decide) _ exTL2_terms t

/-- `7·A₀ X₁ B₂`: the same MPO with `X` instead of the inner `"Id"` -/
def exTL3 : MPOX Int :=
  ⟨⟨3,
    [[⟨0, 0, "Id", 1⟩, ⟨0, 1, "A", 7⟩, ⟨1, 2, "Id", 1⟩],
     [⟨0, 0, "Id", 1⟩, ⟨1, 1, "X", 1⟩, ⟨2, 2, "Id", 1⟩],
     [⟨0, 0, "Id", 1⟩, ⟨1, 1, "B", 1⟩, ⟨2, 1, "Id", 1⟩]],
    [2, 3, 3, 2],
    [some 0, some 0, some 0, some 0],
    [some 1, some 2, some 2, some 1]⟩, true, .unknown, false⟩

theorem exTL3_hyp : TermHyp exTL3 := TermHyp.of_check exTL3 (by decide)

/-- the hypothesis `hign` is needed: with `ignore = ["X"]` the inner `X` is dropped from the term and the term
list stands for `7·A₀ B₂`, not for the operator `7·A₀ X₁ B₂` of the MPO; with `ignore = ["Id"]` it is right -/
example : exTL3.toTermList (fun c => c == 0) ["X"] exTLbasis none none = some [([("A", 0), ("B", 2)], 7)] := by
  decide +kernel
example : canon 0 (MPOX.termsSym 3 [([("A", 0), ("B", 2)], (7 : Int))]) = [([(0, "A"), (2, "B")], 7)] ∧
    canon 0 exTL3.m.denote = [([(0, "A"), (1, "X"), (2, "B")], 7)] := by
  decide +kernel
example : canon 0 (MPOX.termsSym 3 [([("A", 0), ("B", 2)], (7 : Int))]) ≠ canon 0 exTL3.m.denote := by
  decide +kernel
theorem exTL3_terms : exTL3.toTermList (fun c => c == 0) ["Id"] exTLbasis none none
    = some [([("A", 0), ("X", 1), ("B", 2)], 7)] := by
  decide +kernel
example (t : OpStr) : coeff (MPOX.termsSym 3 [([("A", 0), ("X", 1), ("B", 2)], (7 : Int))]) t
    = coeff exTL3.m.denote t :=
  C11_to_TermList exTL3 exTL3_hyp (fun c => c == 0) (fun x hx => by simpa using hx) ["Id"]
    (fun o ho => by simpa using ho) exTLbasis (exTLbasis_ok exTL3 rfl (by decide)) none (by decide) _ exTL3_terms t

/-- one site step of the first example (site 1, `k = 1`, coming from site 0): `partial_L[IdL]` is dropped,
the term `2·A₀` is finished by `7·B₁`, nothing is continued -/
example : MPOX.termStep (fun c => c == 0) ["Id"] (exTL1.m.layers.getD 1 []) (exTLbasis 1) 3 2 (some 0) (some 1) 1 1
    [[([("Id", 0)], 1)], [([("A", 0)], (2 : Int))], []]
    = ([([("A", 0), ("B", 1)], 14)], [[], []]) := by decide +kernel

end examples
