import TenpyModel.C11.P2_Add9
/-!
# `MPO.__add__` on integer indices, part 10: the layers of `MPOM.add` are the relabelled symbolic layers
-/
namespace TenpyModel.Ops
namespace MPOM
variable {α : Type}

theorem keepA_eq (a b : MPOM α) (i : Nat) : keepA a i = keepAo (marks a b i) (marks a b (i + 1)) := rfl

theorem keepB_eq (a b : MPOM α) (i : Nat) : keepB a b i = keepBo (marks a b i) (marks a b (i + 1)) := rfl

theorem mapEdge_eq (f g : Nat → Option Nat) (φ φ' : SK Nat → Option Nat) (ι ι' : Nat → SK Nat)
    (hf : ∀ k, f k = φ (ι k)) (hg : ∀ k, g k = φ' (ι' k)) (e : Edge Nat α) :
    mapEdge f g e = relabOpt φ φ' (relab2 ι ι' e) := by
  simp only [mapEdge, relabOpt, relab2, hf, hg]
  generalize φ (ι e.kL) = x
  generalize φ' (ι' e.kR) = y
  cases x <;> cases y <;> rfl

/-- layer `i` of the sum = the symbolic layer, keys placed on indices by `phi` -/
theorem addLayer_eq (a b : MPOM α) (i : Nat) (hrow : rowGroups a b i = natG a b i)
    (hcol : colGroups a b i = natG a b (i + 1)) :
    addLayer a b i = (symLayer (marks a b i) (marks a b (i + 1)) (a.layers.getD i []) (b.layers.getD i [])).filterMap
      (relabOpt (phi a b i) (phi a b (i + 1))) := by
  unfold addLayer symLayer
  simp only [hrow, hcol]
  rw [List.filterMap_append, List.filterMap_map, List.filterMap_map, keepA_eq a b, keepB_eq a b]
  congr 1
  · apply List.filterMap_congr
    intro e _
    exact mapEdge_eq _ _ _ _ _ _ (mapIdx_natG_fst a b i) (mapIdx_natG_fst a b (i + 1)) e
  · apply List.filterMap_congr
    intro e _
    exact mapEdge_eq _ _ _ _ _ _ (mapIdx_natG_snd a b i) (mapIdx_natG_snd a b (i + 1)) e

end MPOM
end TenpyModel.Ops
