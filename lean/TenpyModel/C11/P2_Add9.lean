import TenpyModel.C11.P2_Add8
/-!
# `MPO.__add__` on integer indices, part 9: row groups of site `i` and column groups of site `i - 1`
describe the same bond

`natG a b j` = the natural groups of bond `j`: `IdL` exists iff one summand has `IdL[j]`, the "other" group
of a summand exists iff its list of other states is non-empty, `IdR` likewise.  Under "prefix / suffix /
no dead ends" the groups that `MPOM.add` computes from the `None`-pattern of the grid of site `i`
(`rowGroups i` for bond `i`, `colGroups i` for bond `i + 1`) are the natural ones.
-/
namespace TenpyModel.Ops
namespace MPOM
variable {α : Type}

/-- `IdL[j]` is not `None` -/
def exL (a : MPOM α) (j : Nat) : Bool := (a.idL.getD j none).isSome
/-- `IdR[j]` is not `None` -/
def exR (a : MPOM α) (j : Nat) : Bool := (a.idR.getD j none).isSome
/-- bond `j` has states besides the markers (`proj_other` is not `None`) -/
def nzO (a : MPOM α) (j : Nat) : Bool := !(a.blocks j).other.isEmpty

/-- **no dead ends** on site `i`: every group of states on the left bond has a (possibly zero, but not
`None`) block to the right, every group on the right bond has a block to the left.  Implied by "a bond that
lacks a marker carries at least one other state" (see `noDeadEnd_of_markers`). -/
def noDeadEnd (a : MPOM α) (i : Nat) : Bool :=
  (!exL a i || (exL a (i + 1) || nzO a (i + 1) || exR a (i + 1))) &&
  (!nzO a i || (nzO a (i + 1) || exR a (i + 1))) &&
  (!nzO a (i + 1) || (exL a i || nzO a i)) &&
  (!exR a (i + 1) || (exL a i || nzO a i || exR a i))

/-- `IdL` only on a prefix of the bonds (site `i`) -/
def prefixL (a : MPOM α) (i : Nat) : Bool := !exL a (i + 1) || exL a i
/-- `IdR` only on a suffix of the bonds (site `i`) -/
def suffixR (a : MPOM α) (i : Nat) : Bool := !exR a i || exR a (i + 1)

/-- natural groups of bond `j` -/
def natG (a b : MPOM α) (j : Nat) : Bool × Bool × Bool × Bool :=
  (exL a j || exL b j, nzO a j, nzO b j, exR a j || exR b j)

theorem rowGroups_def (a b : MPOM α) (i : Nat) :
    rowGroups a b i =
      (exL a i && exL a (i+1) || exL b i && exL b (i+1) || exL a i && nzO a (i+1) || exL b i && nzO b (i+1)
        || exL a i && exR a (i+1) || exL b i && exR b (i+1),
       nzO a i && nzO a (i+1) || nzO a i && exR a (i+1),
       nzO b i && nzO b (i+1) || nzO b i && exR b (i+1),
       exR a i && exR a (i+1) || exR b i && exR b (i+1)) := rfl

theorem colGroups_def (a b : MPOM α) (i : Nat) :
    colGroups a b i =
      (exL a i && exL a (i+1) || exL b i && exL b (i+1),
       exL a i && nzO a (i+1) || nzO a i && nzO a (i+1),
       exL b i && nzO b (i+1) || nzO b i && nzO b (i+1),
       exL a i && exR a (i+1) || exL b i && exR b (i+1) || nzO a i && exR a (i+1) || nzO b i && exR b (i+1)
        || exR a i && exR a (i+1) || exR b i && exR b (i+1)) := rfl

theorem bool_rowL : ∀ (xa xb xa' xb' na' nb' ra' rb' : Bool),
    (!xa || (xa' || na' || ra')) = true → (!xb || (xb' || nb' || rb')) = true →
    (xa && xa' || xb && xb' || xa && na' || xb && nb' || xa && ra' || xb && rb') = (xa || xb) := by decide

theorem bool_rowA : ∀ (na na' ra' : Bool), (!na || (na' || ra')) = true →
    (na && na' || na && ra') = na := by decide

theorem bool_rowR : ∀ (ra rb ra' rb' : Bool), (!ra || ra') = true → (!rb || rb') = true →
    (ra && ra' || rb && rb') = (ra || rb) := by decide

theorem bool_colL : ∀ (xa xb xa' xb' : Bool), (!xa' || xa) = true → (!xb' || xb) = true →
    (xa && xa' || xb && xb') = (xa' || xb') := by decide

theorem bool_colA : ∀ (xa na na' : Bool), (!na' || (xa || na)) = true →
    (xa && na' || na && na') = na' := by decide

theorem bool_colR : ∀ (xa xb na nb ra rb ra' rb' : Bool),
    (!ra' || (xa || na || ra)) = true → (!rb' || (xb || nb || rb)) = true →
    (xa && ra' || xb && rb' || na && ra' || nb && rb' || ra && ra' || rb && rb') = (ra' || rb') := by decide

theorem noDeadEnd_parts (a : MPOM α) (i : Nat) (h : noDeadEnd a i = true) :
    (!exL a i || (exL a (i + 1) || nzO a (i + 1) || exR a (i + 1))) = true ∧
    (!nzO a i || (nzO a (i + 1) || exR a (i + 1))) = true ∧
    (!nzO a (i + 1) || (exL a i || nzO a i)) = true ∧
    (!exR a (i + 1) || (exL a i || nzO a i || exR a i)) = true := by
  unfold noDeadEnd at h
  simp only [Bool.and_eq_true] at h
  exact ⟨h.1.1.1, h.1.1.2, h.1.2, h.2⟩

/-- the row groups of site `i` are the natural groups of bond `i` -/
theorem rowGroups_eq (a b : MPOM α) (i : Nat) (ha : noDeadEnd a i = true) (hb : noDeadEnd b i = true)
    (sa : suffixR a i = true) (sb : suffixR b i = true) : rowGroups a b i = natG a b i := by
  obtain ⟨a1, a2, _, _⟩ := noDeadEnd_parts a i ha
  obtain ⟨b1, b2, _, _⟩ := noDeadEnd_parts b i hb
  rw [rowGroups_def, natG, bool_rowL _ _ _ _ _ _ _ _ a1 b1, bool_rowA _ _ _ a2, bool_rowA _ _ _ b2,
    bool_rowR _ _ _ _ sa sb]

/-- the column groups of site `i` are the natural groups of bond `i + 1` -/
theorem colGroups_eq (a b : MPOM α) (i : Nat) (ha : noDeadEnd a i = true) (hb : noDeadEnd b i = true)
    (pa : prefixL a i = true) (pb : prefixL b i = true) : colGroups a b i = natG a b (i + 1) := by
  obtain ⟨_, _, a3, a4⟩ := noDeadEnd_parts a i ha
  obtain ⟨_, _, b3, b4⟩ := noDeadEnd_parts b i hb
  rw [colGroups_def, natG, bool_colL _ _ _ _ pa pb, bool_colA _ _ _ a3, bool_colA _ _ _ b3,
    bool_colR _ _ _ _ _ _ _ _ a4 b4]

/-- the markers of the two summands on bond `j` -/
def marks (a b : MPOM α) (j : Nat) : BM Nat :=
  ⟨a.idL.getD j none, a.idR.getD j none, b.idL.getD j none, b.idR.getD j none⟩

/-- placement of the symbolic keys of bond `j` on the indices of the sum -/
def phi (a b : MPOM α) (j : Nat) : SK Nat → Option Nat :=
  phiB (exL a j || exL b j) (exR a j || exR b j) (a.blocks j).other (b.blocks j).other

/-- symbolic keys occurring on bond `j` -/
def Vb (a b : MPOM α) (j : Nat) : SK Nat → Prop :=
  VB (exL a j || exL b j) (exR a j || exR b j) (a.blocks j).other (b.blocks j).other

theorem mapIdx_natG_fst (a b : MPOM α) (j k : Nat) :
    (mapIdx (natG a b j) (a.blocks j) (b.blocks j)).1 k = phi a b j (injAo (marks a b j) k) :=
  mapIdx_fst _ _ (a.blocks j) (b.blocks j) k

theorem mapIdx_natG_snd (a b : MPOM α) (j k : Nat) :
    (mapIdx (natG a b j) (a.blocks j) (b.blocks j)).2.1 k = phi a b j (injBo (marks a b j) k) :=
  mapIdx_snd _ _ (a.blocks j) (b.blocks j) k

theorem mapIdx_natG_dim (a b : MPOM α) (j : Nat) :
    (mapIdx (natG a b j) (a.blocks j) (b.blocks j)).2.2
      = (if (exL a j || exL b j) then 1 else 0) + (a.blocks j).other.length + (b.blocks j).other.length
        + (if (exR a j || exR b j) then 1 else 0) :=
  mapIdx_dim _ _ (a.blocks j) (b.blocks j)

/-- an index below the bond dimension is a key that occurs -/
theorem Vb_injAo (a b : MPOM α) (j k : Nat) (h : k < a.chi.getD j 0) : Vb a b j (injAo (marks a b j) k) := by
  unfold injAo injO Vb
  split
  · next h1 =>
    have : exL a j = true := by
      unfold exL; rw [show a.idL.getD j none = some k from h1.symm]; rfl
    simp [VB, this]
  · split
    · next h1 h2 =>
      have : exR a j = true := by
        unfold exR; rw [show a.idR.getD j none = some k from h2.symm]; rfl
      simp [VB, this]
    · next h1 h2 =>
      show k ∈ (List.range (a.chi.getD j 0)).filter
        (fun k => decide (some k ≠ a.idL.getD j none) && decide (some k ≠ a.idR.getD j none))
      have e1 : some k ≠ a.idL.getD j none := h1
      have e2 : some k ≠ a.idR.getD j none := h2
      refine List.mem_filter.2 ⟨List.mem_range.2 h, ?_⟩
      rw [Bool.and_eq_true, decide_eq_true_eq, decide_eq_true_eq]
      exact ⟨e1, e2⟩

theorem Vb_injBo (a b : MPOM α) (j k : Nat) (h : k < b.chi.getD j 0) : Vb a b j (injBo (marks a b j) k) := by
  unfold injBo injO Vb
  split
  · next h1 =>
    have : exL b j = true := by
      unfold exL; rw [show b.idL.getD j none = some k from h1.symm]; rfl
    simp [VB, this]
  · split
    · next h1 h2 =>
      have : exR b j = true := by
        unfold exR; rw [show b.idR.getD j none = some k from h2.symm]; rfl
      simp [VB, this]
    · next h1 h2 =>
      show k ∈ (List.range (b.chi.getD j 0)).filter
        (fun k => decide (some k ≠ b.idL.getD j none) && decide (some k ≠ b.idR.getD j none))
      have e1 : some k ≠ b.idL.getD j none := h1
      have e2 : some k ≠ b.idR.getD j none := h2
      refine List.mem_filter.2 ⟨List.mem_range.2 h, ?_⟩
      rw [Bool.and_eq_true, decide_eq_true_eq, decide_eq_true_eq]
      exact ⟨e1, e2⟩

end MPOM
end TenpyModel.Ops
