import TenpyModel.C11.P2_Add10
/-!
# `MPO.__add__` on integer indices, part 11: the denotations of the operands and of `MPOM.add a b` as path sums
-/
namespace TenpyModel.Ops
namespace MPOM
variable {α : Type}

theorem denote_eq [Semiring α] (a : MPOM α) (lA rA : Nat) (hl : a.idL.getD 0 none = some lA)
    (hr : a.idR.getD a.L none = some rA) (lenR : a.idR.length = a.L + 1) :
    a.denote = pathsFrom rA a.layers lA := by
  have h1 : a.idL.head? = some (some lA) := by
    cases h : a.idL with
    | nil => rw [h] at hl; simp at hl
    | cons x l => rw [h] at hl; simp at hl; simp [hl]
  have h2 : a.idR.getLast? = some (some rA) := by
    rw [List.getLast?_eq_getElem?, lenR]
    rw [List.getD_eq_getElem?_getD] at hr
    have : a.L < a.idR.length := by omega
    simp [this] at hr ⊢
    exact hr
  unfold denote
  rw [h1, h2]

theorem add_denote [Semiring α] [DecidableEq α] (a b : MPOM α) :
    (MPOM.add a b).denote = pathsFrom (addChi a b a.L - 1) ((List.range a.L).map (addLayer a b)) 0 := by
  have h1 : (MPOM.add a b).idL.head? = some (some 0) := by
    rw [add_idL, List.range_succ_eq_map, List.map_cons, List.head?_cons, if_pos rfl]
  have h2 : (MPOM.add a b).idR.getLast? = some (some (addChi a b a.L - 1)) := by
    rw [add_idR, List.range_succ, List.map_append, List.map_singleton, List.getLast?_concat, if_pos rfl,
      ← List.range_succ, List.getD_eq_getElem?_getD, List.getElem?_map, List.getElem?_range (by omega)]
    rfl
  unfold denote
  rw [h1, h2, add_layers]
end MPOM
end TenpyModel.Ops
