import TenpyModel.C11.ExtTermsProofs2
/-!
# C11 extension / `to_TermList`, helper lemmas 3: the loop over `k` of `termsFrom` and the sum over the start sites

`TermHyp a`: the hypotheses of the correctness theorem.  `tl_tail m t b` = coefficient of `t` in the part of the
operator that acts as the identity on the sites `< b` (paths that are still in `IdL` on bond `b`).
`tl_terms_from_site`: (value of the terms starting on site `i`) + `tl_tail (i+1)` = `tl_tail i`.
-/
namespace TenpyModel.Ops

section main
variable {α : Type} [CommSemiring α]

/-- **Hypotheses of `C11_to_TermList`**: a finite MPO in standard form (`UIHyp`), whose markers `IdL[b]`
(`b < L`: the bonds where a term can start) and `IdR[b]` (`0 < b ≤ L`: the bonds where a term can end) are
present, with the start states and the column indices of all entries inside the bond dimensions (the loops of
`to_TermList` run over `range(chi)`). -/
structure TermHyp (a : MPOX α) : Prop where
  /-- `bc = 'finite'` -/
  fin : a.finite = true
  /-- standard form, `IdL[b] ≠ IdR[b]` -/
  ui : UIHyp a.m
  /-- `IdL[b]` is not `None` for `b < L` -/
  idLs : ∀ b, b < a.m.L → a.m.idL.getD b none = some (a.m.mL b)
  /-- `IdR[b]` is not `None` for `0 < b ≤ L` -/
  idRs : ∀ b, b < a.m.L → a.m.idR.getD (b + 1) none = some (a.m.mR (b + 1))
  /-- `IdL[b] < chi[b]` -/
  mLlt : ∀ b, b < a.m.L → a.m.mL b < a.m.chi.getD b 0
  /-- column indices inside the bond dimension -/
  kRlt : ∀ i, i < a.m.L → ∀ e ∈ a.m.layers.getD i [], e.kR < a.m.chi.getD (i + 1) 0

/-- one iteration of the loop over `k` of `termsFrom` -/
def tl_stepK (small : α → Bool) (ignore : List String) (a : MPOX α) (basis : Nat → List String) (i : Nat)
    (acc : List (TTerm α) × List (List (TTerm α))) (k : Nat) : List (TTerm α) × List (List (TTerm α)) :=
  let j := i + k
  let s := j % a.m.L
  let r := MPOX.termStep small ignore (a.m.layers.getD s []) (basis j) (a.m.chi.getD s 0) (a.m.chi.getD (s + 1) 0)
    (a.m.idL.getD s none) (a.m.idR.getD (s + 1) none) k j acc.2
  (acc.1 ++ r.1, r.2)

/-- `partial_L` at the start site -/
def tl_start (a : MPOX α) (i l0 : Nat) : List (List (TTerm α)) :=
  (List.replicate (a.m.chi.getD (i % a.m.L) 0) []).set l0 [([], 1)]

/-- `termsFrom` as a fold of `tl_stepK` (definitional) -/
theorem tl_termsFrom_eq (small : α → Bool) (ignore : List String) (a : MPOX α) (basis : Nat → List String)
    (maxRange i : Nat) :
    MPOX.termsFrom small ignore a basis maxRange i =
      match a.m.idL.getD (i % a.m.L) none with
      | none => []
      | some l0 =>
        ((List.range ((if a.finite then min maxRange (a.m.L - i - 1) else maxRange) + 1)).foldl
          (tl_stepK small ignore a basis i) ([], tl_start a i l0)).1 := rfl

/-- weight of a partial term outside `IdL` -/
def tl_g' (m : MPOM α) (t : OpStr) (b x : Nat) (term : List (String × Nat)) : α :=
  if x = m.mL b then 0 else tl_g m t b x term

/-- value of the extensions on site `j` of a term at the index `x` of bond `j` -/
def tl_H (m : MPOM α) (t : OpStr) (ignore : List String) (k j x : Nat) (term : List (String × Nat)) : α :=
  lsum (m.layers.getD j []) (fun e => if e.kL = x then
    e.c * tl_K ignore (some (m.mR (j + 1))) k j (tl_gF m.L t) (tl_g' m t (j + 1)) e.op e.kR term else 0)

/-- coefficient of `t` in the part of the operator that is the identity on the sites `< b` -/
def tl_tail (m : MPOM α) (t : OpStr) (b : Nat) : α := tl_g m t b (m.mL b) []

/-- away from `IdL[j]` the extensions never enter `IdL[j+1]` -/
theorem tl_H_eq (m : MPOM α) (h : UIHyp m) (t : OpStr) (ht : t.length = m.L) (ignore : List String)
    (hign : ∀ o ∈ ignore, o = "Id") (k j : Nat) (hj : j < m.L) (x : Nat) (hx : x ≠ m.mL j)
    (term : List (String × Nat)) (hs : ∀ p ∈ term, p.2 < j) :
    tl_H m t ignore k j x term = tl_g m t j x term := by
  rw [tl_g_step m h t ht ignore hign k j hj x term hs]
  unfold tl_H
  apply lsum_congr
  intro e he
  by_cases hx' : e.kL = x
  · rw [if_pos hx', if_pos hx']
    congr 1
    unfold tl_K
    split
    · rfl
    · unfold tl_g'
      have : e.kR ≠ m.mL (j + 1) := fun hh => hx (hx' ▸ (h.std j hj).intoL e he hh)
      rw [if_neg this]
  · rw [if_neg hx', if_neg hx']

/-- the start site: the `IdL[i] → IdL[i+1]` entry (dropped at `k = 1`) carries the terms starting later -/
theorem tl_H_first (m : MPOM α) (h : UIHyp m) (t : OpStr) (ht : t.length = m.L) (ignore : List String)
    (hign : ∀ o ∈ ignore, o = "Id") (i : Nat) (hi : i < m.L) :
    tl_H m t ignore 0 i (m.mL i) [] + tl_tail m t (i + 1) = tl_tail m t i := by
  obtain ⟨h1, _, _, h4⟩ := tl_split t i (by omega)
  have hne := h.ne (i + 1) (by omega)
  have hD : tl_tail m t (i + 1)
      = lsum (m.layers.getD i []) (fun e => if e.kL = m.mL i ∧ e.kR = m.mL (i + 1) then
          e.c * tl_g m t (i + 1) (m.mL (i + 1)) [(e.op, i)] else 0) := by
    have hg : ∀ op : String, tl_g m t (i + 1) (m.mL (i + 1)) [(op, i)]
        = (if op = t[i] then 1 else 0) *
          (if idStr i = t.take i then tl_W m (i + 1) (m.mL (i + 1)) (t.drop (i + 1)) else 0) := by
      intro op
      unfold tl_g
      have : MPOX.termStr (i + 1) [(op, i)] = idStr i ++ [op] := by
        have := tl_termStr_succ_snoc [] op i (by simp)
        rw [tl_termStr_nil] at this
        simpa using this
      rw [this, h1]
      have hlen : (idStr i).length = (t.take i).length := by rw [h4]; simp [idStr]
      by_cases hc : idStr i ++ [op] = t.take i ++ [t[i]]
      · have := List.append_inj hc hlen
        rw [if_pos hc, if_pos (List.cons.inj this.2).1, if_pos this.1, one_mul]
      · rw [if_neg hc]
        by_cases ho : op = t[i]
        · have : ¬ (idStr i = t.take i) := fun hh => hc (by rw [hh, ho])
          rw [if_neg this, mul_zero]
        · rw [if_neg ho, zero_mul]
    have hsum : lsum (m.layers.getD i []) (fun e => if e.kL = m.mL i ∧ e.kR = m.mL (i + 1) then
          e.c * tl_g m t (i + 1) (m.mL (i + 1)) [(e.op, i)] else 0)
        = entryCoeff (m.layers.getD i []) (m.mL i) (m.mL (i + 1)) t[i] *
          (if idStr i = t.take i then tl_W m (i + 1) (m.mL (i + 1)) (t.drop (i + 1)) else 0) := by
      unfold entryCoeff
      rw [← sum_map_mul_right'']
      apply lsum_congr
      intro e _
      rw [hg e.op]
      by_cases h5 : e.kL = m.mL i ∧ e.kR = m.mL (i + 1)
      · by_cases h6 : e.op = t[i]
        · have : e.kL = m.mL i ∧ e.kR = m.mL (i + 1) ∧ e.op = t[i] := ⟨h5.1, h5.2, h6⟩
          rw [if_pos h5, if_pos h6, if_pos this, ← mul_assoc, mul_one]
        · have : ¬ (e.kL = m.mL i ∧ e.kR = m.mL (i + 1) ∧ e.op = t[i]) := fun hh => h6 hh.2.2
          rw [if_pos h5, if_neg h6, if_neg this]
          simp
      · have : ¬ (e.kL = m.mL i ∧ e.kR = m.mL (i + 1) ∧ e.op = t[i]) := fun hh => h5 ⟨hh.1, hh.2.1⟩
        rw [if_neg h5, if_neg this, zero_mul]
    rw [hsum, (h.std i hi).idL t[i]]
    unfold tl_tail tl_g
    rw [tl_termStr_nil, h1]
    have hlen : (idStr i).length = (t.take i).length := by rw [h4]; simp [idStr]
    by_cases hc : idStr (i + 1) = t.take i ++ [t[i]]
    · rw [if_pos hc]
      have hc' : idStr i ++ ["Id"] = t.take i ++ [t[i]] := by
        rw [← hc]; simp [idStr, List.replicate_succ']
      have := List.append_inj hc' hlen
      rw [if_pos (List.cons.inj this.2).1.symm, if_pos this.1, one_mul]
    · rw [if_neg hc]
      by_cases ho : t[i] = "Id"
      · have : ¬ (idStr i = t.take i) := fun hh => hc (by
          rw [← hh, ho]; simp [idStr, List.replicate_succ'])
        rw [if_neg this, mul_zero]
      · rw [if_neg ho, zero_mul]
  rw [hD]
  unfold tl_tail
  rw [tl_g_step m h t ht ignore hign 0 i hi (m.mL i) [] (by simp)]
  unfold tl_H
  rw [← lsum_add]
  apply lsum_congr
  intro e _
  by_cases hx : e.kL = m.mL i
  · simp only [hx, true_and, if_true]
    unfold tl_K
    by_cases hr : e.kR = m.mR (i + 1)
    · have : ¬ (m.mR (i + 1) = m.mL (i + 1)) := fun hh => hne hh.symm
      simp [hr, this]
    · have : ¬ (some e.kR = some (m.mR (i + 1))) := fun hh => hr (Option.some.inj hh)
      rw [if_neg this, if_neg this]
      unfold tl_g' tl_ext
      by_cases hl : e.kR = m.mL (i + 1)
      · simp [hl]
      · simp [hl]
  · simp [hx]

omit [CommSemiring α] in
theorem tl_pL_sites (k : Nat) (idL : Option Nat) (P : List (List (TTerm α))) (j : Nat)
    (hs : ∀ x, ∀ tm ∈ P.getD x [], ∀ p ∈ tm.1, p.2 < j) :
    ∀ x, ∀ tm ∈ (tl_pL k idL P).getD x [], ∀ p ∈ tm.1, p.2 < j := by
  intro x tm htm
  unfold tl_pL at htm
  split at htm
  · cases idL with
    | none => exact hs x tm htm
    | some l =>
      simp only at htm
      by_cases hx : x = l
      · subst hx
        rw [tl_getD_set_self] at htm
        simp at htm
      · rw [tl_getD_set_ne _ _ _ _ _ hx] at htm
        exact hs x tm htm
  · exact hs x tm htm

theorem tl_start_mem (a : MPOX α) (i l0 x : Nat) (tm : TTerm α) (htm : tm ∈ (tl_start a i l0).getD x []) :
    tm.1 = [] := by
  unfold tl_start at htm
  by_cases hx : x = l0
  · subst hx
    rw [List.getD_eq_getElem?_getD, List.getElem?_set] at htm
    by_cases hlt : x < (List.replicate (a.m.chi.getD (i % a.m.L) 0) ([] : List (TTerm α))).length
    · rw [if_pos rfl, if_pos hlt] at htm
      have : tm = ([], 1) := by simpa using htm
      rw [this]
    · rw [if_pos rfl, if_neg hlt] at htm
      simp at htm
  · rw [tl_getD_set_ne _ _ _ _ _ hx, List.getD_eq_getElem?_getD, List.getElem?_replicate] at htm
    split at htm <;> simp at htm

/-- one iteration of the loop over `k`, on site `j = i + k < L` -/
theorem tl_stepK_spec (small : α → Bool) (hsmall : ∀ x, small x = true → x = 0) (ignore : List String)
    (a : MPOX α) (h : TermHyp a) (basis : Nat → List String)
    (hbasis : ∀ j, j < a.m.L → (basis j).Nodup ∧ ∀ e ∈ a.m.layers.getD j [], e.op ∈ basis j)
    (t : OpStr) (i k : Nat) (hj : i + k < a.m.L) (S : List (TTerm α) × List (List (TTerm α)))
    (hS : ∀ x, ∀ tm ∈ S.2.getD x [], ∀ p ∈ tm.1, p.2 < i + k) :
    (∀ x, ∀ tm ∈ (tl_stepK small ignore a basis i S k).2.getD x [], ∀ p ∈ tm.1, p.2 < i + (k + 1)) ∧
    (tl_stepK small ignore a basis i S k).2.getD (a.m.mR (i + (k + 1))) [] = [] ∧
    tl_tsum (tl_stepK small ignore a basis i S k).1 (tl_gF a.m.L t)
        + tl_psum (a.m.chi.getD (i + (k + 1)) 0) (tl_stepK small ignore a basis i S k).2
            (tl_g' a.m t (i + (k + 1)))
      = tl_tsum S.1 (tl_gF a.m.L t)
        + tl_psum (a.m.chi.getD (i + k) 0) (tl_pL k (some (a.m.mL (i + k))) S.2) (tl_H a.m t ignore k (i + k)) := by
  unfold tl_stepK
  simp only [Nat.mod_eq_of_lt hj, h.idLs (i + k) hj, h.idRs (i + k) hj]
  have hst := tl_termStep_struct small ignore (a.m.layers.getD (i + k) []) (basis (i + k))
    (a.m.chi.getD (i + k) 0) (a.m.chi.getD (i + k + 1) 0) (some (a.m.mL (i + k))) (some (a.m.mR (i + k + 1)))
    k (i + k) S.2 (tl_pL_sites k _ S.2 (i + k) hS)
  have hed := tl_termStep_edges small hsmall ignore (a.m.layers.getD (i + k) []) (basis (i + k))
    (hbasis (i + k) hj).1 (a.m.chi.getD (i + k) 0) (a.m.chi.getD (i + k + 1) 0)
    (fun e he => ⟨(hbasis (i + k) hj).2 e he, h.kRlt (i + k) hj e he⟩)
    (some (a.m.mL (i + k))) (some (a.m.mR (i + k + 1))) k (i + k) S.2 (tl_gF a.m.L t)
    (tl_g' a.m t (i + k + 1))
  refine ⟨hst.2, hst.1 _ rfl, ?_⟩
  rw [tl_tsum_append, add_assoc]
  congr 1

/-- the state of the loop over `k` after `n ≥ 1` iterations -/
theorem tl_state_inv (small : α → Bool) (hsmall : ∀ x, small x = true → x = 0) (ignore : List String)
    (hign : ∀ o ∈ ignore, o = "Id") (a : MPOX α) (h : TermHyp a) (basis : Nat → List String)
    (hbasis : ∀ j, j < a.m.L → (basis j).Nodup ∧ ∀ e ∈ a.m.layers.getD j [], e.op ∈ basis j)
    (t : OpStr) (ht : t.length = a.m.L) (i : Nat) (hi : i < a.m.L) (n : Nat) (hn : n + 1 ≤ a.m.L - i) :
    (∀ x, ∀ tm ∈ ((List.range (n + 1)).foldl (tl_stepK small ignore a basis i)
        ([], tl_start a i (a.m.mL i))).2.getD x [], ∀ p ∈ tm.1, p.2 < i + (n + 1)) ∧
    ((List.range (n + 1)).foldl (tl_stepK small ignore a basis i)
        ([], tl_start a i (a.m.mL i))).2.getD (a.m.mR (i + (n + 1))) [] = [] ∧
    tl_tsum ((List.range (n + 1)).foldl (tl_stepK small ignore a basis i)
        ([], tl_start a i (a.m.mL i))).1 (tl_gF a.m.L t)
      + tl_psum (a.m.chi.getD (i + (n + 1)) 0) ((List.range (n + 1)).foldl (tl_stepK small ignore a basis i)
        ([], tl_start a i (a.m.mL i))).2 (tl_g' a.m t (i + (n + 1)))
      + tl_tail a.m t (i + 1) = tl_tail a.m t i := by
  induction n with
  | zero =>
    have hstart : ∀ x, ∀ tm ∈ (([], tl_start a i (a.m.mL i)) :
        List (TTerm α) × List (List (TTerm α))).2.getD x [], ∀ p ∈ tm.1, p.2 < i + 0 := by
      intro x tm htm p hp
      rw [tl_start_mem a i _ x tm htm] at hp
      simp at hp
    have hsp := tl_stepK_spec small hsmall ignore a h basis hbasis t i 0 (by omega) _ hstart
    have hr1 : List.range (0 + 1) = [0] := rfl
    rw [hr1, List.foldl_cons, List.foldl_nil]
    refine ⟨hsp.1, hsp.2.1, ?_⟩
    rw [hsp.2.2]
    have hpl : tl_pL 0 (some (a.m.mL (i + 0)))
        (([], tl_start a i (a.m.mL i)) : List (TTerm α) × List (List (TTerm α))).2
        = (List.replicate (a.m.chi.getD i 0) []).set (a.m.mL i) [([], 1)] := by
      simp [tl_pL, tl_start, Nat.mod_eq_of_lt hi]
    rw [hpl]
    simp only [Nat.add_zero]
    rw [tl_psum_single _ _ (h.mLlt i hi), tl_tsum_singleton, tl_tsum_nil, zero_add, one_mul]
    exact tl_H_first a.m h.ui t ht ignore hign i hi
  | succ n ih =>
    obtain ⟨ih1, _, ih3⟩ := ih (by omega)
    have hj : i + (n + 1) < a.m.L := by omega
    have hsp := tl_stepK_spec small hsmall ignore a h basis hbasis t i (n + 1) hj _ ih1
    rw [List.range_succ, List.foldl_append, List.foldl_cons, List.foldl_nil]
    refine ⟨hsp.1, hsp.2.1, ?_⟩
    rw [hsp.2.2, ← ih3]
    congr 2
    apply tl_psum_congr
    intro x _
    by_cases hx : x = a.m.mL (i + (n + 1))
    · subst hx
      have h1 : (tl_pL (n + 1) (some (a.m.mL (i + (n + 1))))
          ((List.range (n + 1)).foldl (tl_stepK small ignore a basis i) ([], tl_start a i (a.m.mL i))).2).getD
          (a.m.mL (i + (n + 1))) [] = [] := by
        unfold tl_pL
        simp only [Nat.succ_pos, gt_iff_lt, if_true]
        exact tl_getD_set_self _ _ _
      rw [h1, tl_tsum_nil]
      have h2 : tl_g' a.m t (i + (n + 1)) (a.m.mL (i + (n + 1))) = fun _ => 0 := by
        funext term; simp [tl_g']
      rw [h2, tl_tsum_zero]
    · have h1 : (tl_pL (n + 1) (some (a.m.mL (i + (n + 1))))
          ((List.range (n + 1)).foldl (tl_stepK small ignore a basis i) ([], tl_start a i (a.m.mL i))).2).getD
          x [] = ((List.range (n + 1)).foldl (tl_stepK small ignore a basis i)
            ([], tl_start a i (a.m.mL i))).2.getD x [] := by
        unfold tl_pL
        simp only [Nat.succ_pos, gt_iff_lt, if_true]
        exact tl_getD_set_ne _ _ _ _ _ hx
      rw [h1]
      apply tl_tsum_congr
      intro tm htm
      rw [tl_H_eq a.m h.ui t ht ignore hign (n + 1) (i + (n + 1)) hj x hx tm.1 (ih1 x tm htm)]
      simp [tl_g', hx]

/-- value of a term list w.r.t. the string `t` = coefficient of `t` in its formal sum -/
theorem tl_coeff_termsSym (L : Nat) (ts : List (TTerm α)) (t : OpStr) :
    coeff (MPOX.termsSym L ts) t = tl_tsum ts (tl_gF L t) := by
  unfold MPOX.termsSym tl_tsum tl_gF
  induction ts with
  | nil => rfl
  | cons tm ts ih =>
    rw [List.map_cons, coeff_cons, ih, lsum_cons]
    by_cases hc : MPOX.termStr L tm.1 = t
    · rw [if_pos hc, if_pos hc, mul_one]
    · rw [if_neg hc, if_neg hc, mul_zero, zero_add]

/-- **the terms starting on site `i`**: their value and the part of the operator that is the identity on the
sites `≤ i` add up to the part that is the identity on the sites `< i` -/
theorem tl_terms_from_site (small : α → Bool) (hsmall : ∀ x, small x = true → x = 0) (ignore : List String)
    (hign : ∀ o ∈ ignore, o = "Id") (a : MPOX α) (h : TermHyp a) (basis : Nat → List String)
    (hbasis : ∀ j, j < a.m.L → (basis j).Nodup ∧ ∀ e ∈ a.m.layers.getD j [], e.op ∈ basis j)
    (R : Nat) (hR : a.m.L ≤ R + 1) (t : OpStr) (ht : t.length = a.m.L) (i : Nat) (hi : i < a.m.L) :
    coeff (MPOX.termsSym a.m.L (MPOX.termsFrom small ignore a basis R i)) t + tl_tail a.m t (i + 1)
      = tl_tail a.m t i := by
  rw [tl_coeff_termsSym, tl_termsFrom_eq]
  simp only [Nat.mod_eq_of_lt hi, h.idLs i hi, h.fin, if_true]
  have hmr : min R (a.m.L - i - 1) + 1 = (a.m.L - i - 1) + 1 := by
    rw [Nat.min_eq_right (by omega)]
  rw [hmr]
  obtain ⟨_, h2, h3⟩ := tl_state_inv small hsmall ignore hign a h basis hbasis t ht i hi (a.m.L - i - 1)
    (by omega)
  rw [← h3]
  congr 1
  have hL : i + (a.m.L - i - 1 + 1) = a.m.L := by omega
  rw [hL] at h2 ⊢
  have : tl_psum (a.m.chi.getD a.m.L 0) ((List.range (a.m.L - i - 1 + 1)).foldl
      (tl_stepK small ignore a basis i) ([], tl_start a i (a.m.mL i))).2 (tl_g' a.m t a.m.L) = 0 := by
    unfold tl_psum
    rw [lsum_congr (g := fun _ => (0 : α)) ?_, lsum_zero]
    intro x _
    by_cases hx : x = a.m.mR a.m.L
    · rw [hx, h2, tl_tsum_nil]
    · have : tl_g' a.m t a.m.L x = fun _ => 0 := by
        funext term
        unfold tl_g' tl_g
        rw [tl_W_last a.m x hx]
        simp
      rw [this, tl_tsum_zero]
  rw [this, add_zero]

theorem tl_tail_last (m : MPOM α) (h : UIHyp m) (t : OpStr) : tl_tail m t m.L = 0 := by
  unfold tl_tail tl_g
  rw [tl_W_last m (m.mL m.L) (h.ne m.L (Nat.le_refl _))]
  simp

theorem tl_tail_zero (m : MPOM α) (h : UIHyp m) (t : OpStr) : tl_tail m t 0 = coeff m.denote t := by
  unfold tl_tail tl_g
  rw [tl_W_denote m h]
  simp [MPOX.termStr]

/-- telescoping sum without subtraction -/
theorem tl_telescope (T A : Nat → α) (L : Nat) (h : ∀ i, i < L → T i + A (i + 1) = A i) :
    lsum (List.range L) T + A L = A 0 := by
  induction L with
  | zero => simp
  | succ L ih =>
    rw [List.range_succ, lsum_append, lsum_singleton, add_assoc, h L (Nat.lt_succ_self L)]
    exact ih (fun i hi => h i (by omega))

/-! ## strings of the wrong length, the part of the operator starting at site `≥ b` as a formal sum -/

theorem tl_gF_len (L : Nat) (t : OpStr) (ht : t.length ≠ L) (term : List (String × Nat)) :
    tl_gF (α := α) L t term = 0 := by
  unfold tl_gF
  have : ¬ (MPOX.termStr L term = t) := fun hh => ht (by rw [← hh, tl_termStr_length])
  rw [if_neg this]

theorem tl_coeff_termsSym_len (L : Nat) (ts : List (TTerm α)) (t : OpStr) (ht : t.length ≠ L) :
    coeff (MPOX.termsSym L ts) t = 0 := by
  rw [tl_coeff_termsSym]
  have : tl_gF (α := α) L t = fun _ => 0 := by
    funext term; exact tl_gF_len L t ht term
  rw [this, tl_tsum_zero]

theorem tl_tail_len (m : MPOM α) (t : OpStr) (ht : t.length ≠ m.L) (b : Nat) (hb : b ≤ m.L) :
    tl_tail m t b = 0 := by
  unfold tl_tail tl_g
  split
  · next hc =>
    have h1 : b ≤ t.length := by
      have := congrArg List.length hc
      rw [tl_termStr_length, List.length_take] at this
      omega
    unfold tl_W
    apply coeff_pathsFrom_length
    simp only [hFrom, List.length_drop, List.length_map, List.length_range']
    omega
  · rfl

/-- the part of the operator that is the identity on the sites `< b`: `Id^b ⊗` (paths from `IdL[b]` to
`IdR[L]` through the sites `b, …, L-1`) -/
def MPOM.tailSym (m : MPOM α) (b : Nat) : Sym α :=
  (pathsFrom (m.mR m.L) (hFrom (fun j => m.layers.getD j []) b (m.L - b)) (m.mL b)).map
    (fun p => (idStr b ++ p.1, p.2))

theorem tl_coeff_prefix (pre : OpStr) (S : Sym α) (t : OpStr) :
    coeff (S.map (fun p => (pre ++ p.1, p.2))) t
      = if pre = t.take pre.length then coeff S (t.drop pre.length) else 0 := by
  induction S with
  | nil => simp
  | cons q S ih =>
    rw [List.map_cons, coeff_cons, coeff_cons, ih]
    by_cases h1 : pre = t.take pre.length
    · have hiff : (pre ++ q.1 = t) ↔ q.1 = t.drop pre.length :=
        ⟨fun hc => by rw [← hc]; simp, fun hh => by
          rw [hh]
          exact (congrArg (· ++ t.drop pre.length) h1).trans (List.take_append_drop _ _)⟩
      simp only [if_pos h1, hiff]
    · have : ¬ (pre ++ q.1 = t) := fun hc => h1 (by rw [← hc]; simp)
      simp only [if_neg h1, if_neg this]

theorem tl_coeff_tailSym (m : MPOM α) (t : OpStr) (b : Nat) : coeff (m.tailSym b) t = tl_tail m t b := by
  unfold MPOM.tailSym tl_tail tl_g
  rw [tl_coeff_prefix, tl_termStr_nil]
  have : (idStr b).length = b := by simp [idStr]
  rw [this]
  rfl

/-- `tl_terms_from_site` for strings of any length -/
theorem tl_terms_from_site' (small : α → Bool) (hsmall : ∀ x, small x = true → x = 0) (ignore : List String)
    (hign : ∀ o ∈ ignore, o = "Id") (a : MPOX α) (h : TermHyp a) (basis : Nat → List String)
    (hbasis : ∀ j, j < a.m.L → (basis j).Nodup ∧ ∀ e ∈ a.m.layers.getD j [], e.op ∈ basis j)
    (R : Nat) (hR : a.m.L ≤ R + 1) (t : OpStr) (i : Nat) (hi : i < a.m.L) :
    coeff (MPOX.termsSym a.m.L (MPOX.termsFrom small ignore a basis R i)) t + tl_tail a.m t (i + 1)
      = tl_tail a.m t i := by
  by_cases ht : t.length = a.m.L
  · exact tl_terms_from_site small hsmall ignore hign a h basis hbasis R hR t ht i hi
  · rw [tl_coeff_termsSym_len _ _ _ ht, tl_tail_len _ _ ht _ (by omega), tl_tail_len _ _ ht _ (by omega),
      add_zero]

/-- **`to_TermList`, all start sites** -/
theorem tl_to_TermList (small : α → Bool) (hsmall : ∀ x, small x = true → x = 0) (ignore : List String)
    (hign : ∀ o ∈ ignore, o = "Id") (a : MPOX α) (h : TermHyp a) (basis : Nat → List String)
    (hbasis : ∀ j, j < a.m.L → (basis j).Nodup ∧ ∀ e ∈ a.m.layers.getD j [], e.op ∈ basis j)
    (maxRange : Option Nat) (hR : a.m.L ≤ a.termListRange maxRange + 1)
    (ts : List (TTerm α)) (hts : a.toTermList small ignore basis none maxRange = some ts) (t : OpStr) :
    coeff (MPOX.termsSym a.m.L ts) t = coeff a.m.denote t := by
  unfold MPOX.toTermList at hts
  have hany : (List.range a.m.L).any (fun i => decide (a.m.L ≤ i)) = false := by
    rw [List.any_eq_false]
    intro i hi
    have := List.mem_range.1 hi
    simp; omega
  simp only [Option.getD_none, hany, Bool.and_false, Bool.false_eq_true, if_false, Option.some.injEq] at hts
  subst hts
  have h1 : coeff (MPOX.termsSym a.m.L ((List.range a.m.L).flatMap
      (fun i => MPOX.termsFrom small ignore a basis (a.termListRange maxRange) i))) t
      = lsum (List.range a.m.L) (fun i => coeff (MPOX.termsSym a.m.L
          (MPOX.termsFrom small ignore a basis (a.termListRange maxRange) i)) t) := by
    rw [tl_coeff_termsSym]
    unfold tl_tsum
    rw [lsum_flatMap]
    apply lsum_congr
    intro i _
    rw [tl_coeff_termsSym]
    rfl
  rw [h1, ← tl_tail_zero a.m h.ui t]
  have := tl_telescope (fun i => coeff (MPOX.termsSym a.m.L
      (MPOX.termsFrom small ignore a basis (a.termListRange maxRange) i)) t) (tl_tail a.m t) a.m.L
    (fun i hi => tl_terms_from_site' small hsmall ignore hign a h basis hbasis _ hR t i hi)
  rw [tl_tail_last a.m h.ui t, add_zero] at this
  exact this

/-! ## a decidable sufficient check for `TermHyp` -/

/-- executable check implying `TermHyp` -/
def termCheck [DecidableEq α] (a : MPOX α) : Bool :=
  a.finite && uiCheck a.m && (List.range a.m.L).all (fun b =>
    decide (a.m.idL.getD b none = some (a.m.mL b)) && decide (a.m.idR.getD (b + 1) none = some (a.m.mR (b + 1)))
    && decide (a.m.mL b < a.m.chi.getD b 0)
    && (a.m.layers.getD b []).all (fun e => decide (e.kR < a.m.chi.getD (b + 1) 0)))

theorem TermHyp.of_check [DecidableEq α] (a : MPOX α) (h : termCheck a = true) : TermHyp a := by
  unfold termCheck at h
  simp only [Bool.and_eq_true, List.all_eq_true, List.mem_range, decide_eq_true_eq] at h
  obtain ⟨⟨h1, h2⟩, h3⟩ := h
  exact ⟨h1, UIHyp.of_check a.m h2, fun b hb => (h3 b hb).1.1.1, fun b hb => (h3 b hb).1.1.2,
    fun b hb => (h3 b hb).1.2, fun b hb => (h3 b hb).2⟩

/-- the shape conditions of a well-formed MPO (all markers present on all bonds) imply `TermHyp` -/
theorem TermHyp.of_shape (a : MPOX α) (fin : a.finite = true) (ui : UIHyp a.m)
    (hL : ∀ b, b ≤ a.m.L → a.m.idL.getD b none = some (a.m.mL b))
    (hR : ∀ b, b ≤ a.m.L → a.m.idR.getD b none = some (a.m.mR b))
    (hlt : ∀ b, b ≤ a.m.L → a.m.mL b < a.m.chi.getD b 0)
    (hk : ∀ i, i < a.m.L → ∀ e ∈ a.m.layers.getD i [], e.kR < a.m.chi.getD (i + 1) 0) : TermHyp a :=
  ⟨fin, ui, fun b hb => hL b (by omega), fun b hb => hR (b + 1) (by omega), fun b hb => hlt b (by omega), hk⟩

end main
end TenpyModel.Ops
