import TenpyModel.C11.ExtFlagProofs
import TenpyModel.C11.PropsExtEnv
/-!
# C11 — extension round, property theorems 5: `explicit_plus_hc` through the MPO-returning operations

Model: `C11/ExtFlag.lean` (`MPOX` = MPO + `finite`, `max_range`, `explicit_plus_hc`; `MPOX.full` = the operator it stands
for, `W + W†` when flagged).
-/
open TenpyModel.Ops

/-- **`MPO.__add__` hands the attributes on**: whenever the sum is defined, the operands have the same flag, boundary
conditions and length, and the result carries that flag, those boundary conditions, the glued tensors of
`MPOM.add` and `max(max_range)` (`None` if one range is unknown). -/
theorem C11_add_flag {α : Type} [DecidableEq α] (a b s : MPOX α) (h : MPOX.add a b = some s) :
    s.plusHc = a.plusHc ∧ s.plusHc = b.plusHc ∧ s.finite = a.finite ∧ s.finite = b.finite ∧
    s.m = MPOM.add a.m b.m ∧ s.maxRange = a.maxRange.addRange b.maxRange := by
  obtain ⟨h1, h2, _, rfl⟩ := mpox_add_some a b s h
  exact ⟨rfl, h1, rfl, h2, rfl, rfl⟩

/-- **the sum of two MPOs stands for the sum of the operators, `+ h.c.` included**: for operands in sum form
(`AddHyp`, as in `C11_add_indices`) with the same flag, `(A + B).full = A.full + B.full` coefficient by coefficient —
for two flagged operands `(W_A + W_B) + (W_A + W_B)† = (W_A + W_A†) + (W_B + W_B†)`. -/
theorem C11_add_full {α : Type} [CommSemiring α] [DecidableEq α] (hc : String → String) (cj : α →+* α)
    (hhc : ∀ x, hc (hc x) = x) (a b s : MPOX α) (hab : AddHyp a.m b.m) (h : MPOX.add a b = some s) (t : OpStr) :
    coeff (s.full hc cj) t = coeff (a.full hc cj) t + coeff (b.full hc cj) t :=
  mpox_add_full hc cj hhc a b s hab h t

/-- … hence the matrix elements add up: `<s| A + B |u> = <s| A |u> + <s| B |u>` with the `+ h.c.` parts -/
theorem C11_add_full_matrix_element {α : Type} [CommSemiring α] [DecidableEq α]
    (mel : String → String → String → α) (hc : String → String) (cj : α →+* α) (hhc : ∀ x, hc (hc x) = x)
    (a b s : MPOX α) (hab : AddHyp a.m b.m) (h : MPOX.add a b = some s) (x u : Sym α) :
    tri mel cj x (s.full hc cj) u = tri mel cj x (a.full hc cj) u + tri mel cj x (b.full hc cj) u := by
  rw [← tri_append_mid]
  apply C11_matrix_element_congr
  intro t
  rw [coeff_append]
  exact mpox_add_full hc cj hhc a b s hab h t

/-- operands with different flags (or boundary conditions, or lengths) cannot be added -/
theorem C11_add_flag_rejects {α : Type} [DecidableEq α] (a b : MPOX α) :
    (a.plusHc ≠ b.plusHc → MPOX.add a b = none) ∧ (a.finite ≠ b.finite → MPOX.add a b = none) ∧
    (a.m.L ≠ b.m.L → MPOX.add a b = none) := by
  refine ⟨fun h => ?_, fun h => ?_, fun h => ?_⟩ <;> unfold MPOX.add
  · simp [h]
  · by_cases h1 : a.plusHc = b.plusHc <;> simp [h1, h]
  · by_cases h1 : a.plusHc = b.plusHc <;> simp [h1, h]

/-- **a flagged MPO stands for a self-adjoint operator** (so `dagger()` may return a copy and `is_hermitian()`
`True`), and the other MPO-returning operations keep flag and boundary conditions: `copy`, `dagger`,
`sort_legcharges`, `group_sites`, `enlarge_mps_unit_cell`; `extract_segment` keeps flag and `max_range`. -/
theorem C11_flag_preserved {α : Type} [CommSemiring α] (hc : String → String) (cj : α →+* α)
    (hhc : ∀ x, hc (hc x) = x) (hcj : ∀ x, cj (cj x) = x) (join : String → String → String) (a : MPOX α)
    (q : List (List (List Int))) (n factor ucw first last : Nat) (sizes : Option (List Nat)) :
    (a.plusHc = true → Sym.Equiv (Sym.dagger hc cj (a.full hc cj)) (a.full hc cj)) ∧
    (a.plusHc = true → a.dagger hc cj = a) ∧
    a.copy = a ∧ (a.dagger hc cj).plusHc = a.plusHc ∧ (a.sortLegcharges q).plusHc = a.plusHc ∧
    (∀ g, a.groupSites join n sizes = some g → g.plusHc = a.plusHc ∧ g.finite = a.finite) ∧
    (∀ g, a.enlargeUnitCell factor = some g → g.plusHc = a.plusHc ∧ g.maxRange = a.maxRange) ∧
    (∀ g, a.extractSegment ucw first last = some g → g.plusHc = a.plusHc ∧ g.maxRange = a.maxRange) := by
  refine ⟨mpox_full_hermitian hc cj hhc hcj a, ?_, rfl, ?_, rfl, ?_, ?_, ?_⟩
  · intro hp; simp [MPOX.dagger, hp]
  · unfold MPOX.dagger; split <;> rfl
  · intro g hg
    unfold MPOX.groupSites at hg
    cases hm : a.m.groupSites join n sizes with
    | none => simp [hm] at hg
    | some x => simp only [hm, Option.map_some, Option.some.injEq] at hg; subst hg; exact ⟨rfl, rfl⟩
  · intro g hg
    unfold MPOX.enlargeUnitCell at hg
    cases hm : a.m.enlargeUnitCell a.finite factor with
    | none => simp [hm] at hg
    | some x => simp only [hm, Option.map_some, Option.some.injEq] at hg; subst hg; exact ⟨rfl, rfl⟩
  · intro g hg
    unfold MPOX.extractSegment at hg
    cases hm : a.m.extractSegment ucw first last with
    | none => simp [hm] at hg
    | some x => simp only [hm, Option.map_some, Option.some.injEq] at hg; subst hg; exact ⟨rfl, rfl⟩

/-! ## non-vacuity -/
namespace C11ExtFlagEx
open TenpyModel.Ops

def hcPM (n : String) : String := if n = "P" then "M" else if n = "M" then "P" else n
theorem hcPM_invol : ∀ x, hcPM (hcPM x) = x := by
  intro x; unfold hcPM; by_cases h1 : x = "P" <;> by_cases h2 : x = "M" <;> simp [h1, h2]

/-- stored halves `2·P₀M₁` and `3·P₁M₂ + Z₀` (non-Hermitian), both flagged: the sum stands for
`2·P₀M₁ + 2·M₀P₁ + 3·P₁M₂ + 3·M₁P₂ + 2·Z₀` -/
def xa : MPOX Int := ⟨⟨3, [[⟨0,0,"Id",1⟩, ⟨0,1,"P",2⟩], [⟨0,0,"Id",1⟩, ⟨1,2,"M",1⟩], [⟨2,2,"Id",1⟩]],
  [2, 3, 3, 3], [some 0, some 0, none, none], [none, none, some 2, some 2]⟩, true, .fin 1, true⟩
def xb : MPOX Int := ⟨⟨3, [[⟨0,0,"Id",1⟩, ⟨0,2,"Z",1⟩], [⟨0,1,"P",3⟩, ⟨2,2,"Id",1⟩], [⟨1,2,"M",1⟩, ⟨2,2,"Id",1⟩]],
  [3, 3, 3, 3], [some 0, some 0, none, none], [none, some 2, some 2, some 2]⟩, true, .unknown, true⟩

example : (MPOX.add xa xb).map (fun s => (s.plusHc, s.finite, s.maxRange)) = some (true, true, .unknown) := by
  decide +kernel
example : (MPOX.add xa xb).map (fun s => canon 0 (s.full hcPM id)) =
    some (canon 0 (xa.full hcPM id ++ xb.full hcPM id)) := by decide +kernel
example : canon 0 (xa.full hcPM id) = [([(0, "M"), (1, "P")], 2), ([(0, "P"), (1, "M")], 2)] := by decide +kernel
/-- without the flag the sum would lose the `h.c.` half -/
example : (MPOX.add xa xb).map (fun s => decide (canon 0 s.m.denote = canon 0 (s.full hcPM id))) = some false := by
  decide +kernel
example : MPOX.add xa { xb with plusHc := false } = none := by decide +kernel

/-- an instance of `C11_add_full` with every hypothesis discharged: the chains `exA3`, `exB3` of `P2_AddMain` (which meet
`AddHyp`), both flagged -/
example (s : MPOX Int) (h : MPOX.add ⟨exA3, true, .fin 2, true⟩ ⟨exB3, true, .fin 3, true⟩ = some s) (t : OpStr) :
    coeff (s.full hcPM (RingHom.id Int)) t
      = coeff (MPOX.full hcPM (RingHom.id Int) ⟨exA3, true, .fin 2, true⟩) t
        + coeff (MPOX.full hcPM (RingHom.id Int) ⟨exB3, true, .fin 3, true⟩) t :=
  C11_add_full hcPM (RingHom.id Int) hcPM_invol _ _ s exAB_hyp h t
example : (MPOX.add ⟨exA3, true, .fin 2, true⟩ ⟨exB3, true, .fin 3, true⟩).map
    (fun s => (s.plusHc, s.maxRange)) = some (true, .fin 3) := by decide +kernel

end C11ExtFlagEx
