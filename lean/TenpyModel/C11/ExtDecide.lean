import TenpyModel.C11.ExtStruct
import TenpyModel.C11.ExtEnv
/-!
# C11 extension, part 3: the glue of the decision procedures
`MPO.overlap`, `_overlap_no_hc`, `distance`, `is_equal`, `is_hermitian` (tenpy/networks/mpo.py)

`MPOM.overlapTM` (Ops/MPO.lean) is the transfer-matrix contraction for two finite MPOs of the same length.
Here: the window of an infinite MPO (`num_sites` sites, `get_W(i)` taken modulo each operand's own `L`), the
`hconj_self` variant, the four `explicit_plus_hc` branches of `overlap`, the choice of `num_sites` in `overlap`
and `is_equal`, the sign check of `distance`, the relative decision of `is_equal`, the shortcut of
`is_hermitian`.
-/
namespace TenpyModel.Ops

/-- an MPO with the attributes the decision procedures read -/
structure MPOX (α : Type) where
  m : MPOM α
  finite : Bool
  maxRange : MaxRange
  plusHc : Bool

/-- `max_range` with `None` / `inf` replaced by `L` (`overlap`) -/
def MaxRange.orL : MaxRange → Nat → Nat
  | .fin r, _ => r.toNat
  | _, L => L

def MaxRange.known : MaxRange → Bool
  | .fin _ => true
  | _ => false

namespace MPOX
variable {α : Type}

/-- default `num_sites` of `overlap(other, num_sites=None)`; `none`: one operand finite, the other infinite
(`ValueError`), two finite MPOs of different length (assert), `num_sites < self.L` (assert) -/
def overlapNumSites (a b : MPOX α) (numSites : Option Nat) : Option Nat :=
  if a.finite && b.finite then (if a.m.L = b.m.L then some a.m.L else none)
  else if !a.finite && !b.finite then
    let n := numSites.getD (max (a.m.L + 2 * a.maxRange.orL a.m.L) (b.m.L + 2 * b.maxRange.orL b.m.L))
    if n < a.m.L then none else some n
  else none

/-- `_overlap_no_hc(other, num_sites, hconj_self)`: project on `IdL` of site 0, contract `num_sites` sites
(`get_W(i)`: modulo `L` for infinite MPOs), project on `IdR` right of the last site.  `hconj_self`: the tensors
of `self` are not conjugated and their physical legs are contracted crosswise (`gram (hc x) y`).
After every site the entries with equal index pair are added up (the dense `res` tensor of the implementation).
`none`: a needed marker is missing or a site index is outside a finite chain (the implementation raises) -/
def overlapNoHc [Mul α] [Add α] [Zero α] [One α] (gram : String → String → α) (cj : α → α)
    (hc : String → String) (a b : MPOX α) (numSites : Nat) (hconjSelf : Bool) : Option α :=
  if numSites = 0 then none else
  if (a.finite && a.m.L < numSites) || (b.finite && b.m.L < numSites) then none else
  match a.m.idL.getD 0 none, b.m.idL.getD 0 none,
        a.m.idR.getD ((numSites - 1) % a.m.L + 1) none, b.m.idR.getD ((numSites - 1) % b.m.L + 1) none with
  | some la, some lb, some ra, some rb =>
    let g : String → String → α := if hconjSelf then (fun x y => gram (hc x) y) else gram
    let c : α → α := if hconjSelf then id else cj
    let v := (List.range numSites).foldl (fun v i =>
      KVec.compress (MPOM.tmStep g c (a.m.layers.getD (i % a.m.L) []) (b.m.layers.getD (i % b.m.L) []) v))
      [((la, lb), 1)]
    some (MPOM.vecAt v (ra, rb))
  | _, _, _, _ => none

/-- `overlap(other, understood_infinite, num_sites)`: the four `explicit_plus_hc` branches
(`2·Re z` = `z + conj z`) -/
def overlap [Mul α] [Add α] [Zero α] [One α] (gram : String → String → α) (cj : α → α)
    (hc : String → String) (a b : MPOX α) (numSites : Option Nat) : Option α :=
  match overlapNumSites a b numSites with
  | none => none
  | some n =>
    match overlapNoHc gram cj hc a b n false with
    | none => none
    | some ab =>
      if !a.plusHc && !b.plusHc then some ab else
      match overlapNoHc gram cj hc a b n true with
      | none => none
      | some hab =>
        if a.plusHc && b.plusHc then some ((ab + hab) + cj (ab + hab))
        else if a.plusHc then some (ab + hab)
        else some (ab + cj hab)

/-- `s_norm - 2·Re(ov) + o_norm` of `distance` / `is_equal` -/
def distRaw [Mul α] [Add α] [Sub α] [Zero α] [One α] (gram : String → String → α) (cj : α → α)
    (hc : String → String) (a b : MPOX α) (numSites : Option Nat) : Option (α × α) :=
  match overlap gram cj hc a b numSites, overlap gram cj hc a a numSites, overlap gram cj hc b b numSites with
  | some ov, some s, some o => some (s - (ov + cj ov) + o, s + o)
  | _, _, _ => none

/-- `num_sites` of `is_equal(other, eps, max_range)` -/
def isEqualNumSites (a b : MPOX α) (maxRange : MaxRange) : Nat :=
  if a.finite then a.m.L
  else match maxRange with
    | .fin r => a.m.L + 2 * r.toNat
    | _ =>
      if a.maxRange.known && b.maxRange.known then
        a.m.L + 2 * max (a.maxRange.orL 0) (b.maxRange.orL 0)
      else a.m.L + 2 * a.m.L

/-- `is_equal(other, eps, max_range)`: `|dist| < eps · |s_norm + o_norm|`, stated with squared moduli
(`absSq`), `epsSq = eps²` -/
def isEqual {ρ : Type} [Mul α] [Add α] [Sub α] [Zero α] [One α] [Mul ρ] [LT ρ] [DecidableLT ρ]
    (gram : String → String → α) (cj : α → α) (hc : String → String) (absSq : α → ρ) (epsSq : ρ)
    (a b : MPOX α) (maxRange : MaxRange) : Option Bool :=
  match distRaw gram cj hc a b (some (isEqualNumSites a b maxRange)) with
  | some (d, n) => some (decide (absSq d < epsSq * absSq n))
  | none => none

/-- `MPO.dagger()` with the attributes: a flagged MPO is returned unchanged -/
def dagger (hc : String → String) (cj : α → α) (a : MPOX α) : MPOX α :=
  if a.plusHc then a else { a with m := a.m.dagger hc cj }

/-- `is_hermitian(eps, max_range)`: `True` for a flagged MPO, else `is_equal(self.dagger())` -/
def isHermitian {ρ : Type} [Mul α] [Add α] [Sub α] [Zero α] [One α] [Mul ρ] [LT ρ] [DecidableLT ρ]
    (gram : String → String → α) (cj : α → α) (hc : String → String) (absSq : α → ρ) (epsSq : ρ)
    (a : MPOX α) (maxRange : MaxRange) : Option Bool :=
  if a.plusHc then some true else isEqual gram cj hc absSq epsSq a (a.dagger hc cj) maxRange

/-- `distance(other)`: `RuntimeError` when `dist < -1e-14·(s_norm + o_norm)`, else `|dist|` (= `dist` then);
over an ordered coefficient type (`re` = real part, `tol` = `1e-14`).  Models the repaired behaviour
(pending_fixes/C11-distance-infinite-same-window.diff): one window for `<A|A>`, `<A|B>`, `<B|B>` -/
def distance {ρ : Type} [Mul α] [Add α] [Sub α] [Zero α] [One α] [Mul ρ] [Neg ρ] [LT ρ] [DecidableLT ρ]
    (gram : String → String → α) (cj : α → α) (hc : String → String) (re : α → ρ) (tol : ρ)
    (a b : MPOX α) (numSites : Option Nat) : Option α :=
  -- the three overlaps are taken on the same window: the default window of `self.overlap(other)`
  match overlapNumSites a b numSites with
  | none => none
  | some k =>
    match distRaw gram cj hc a b (some k) with
    | some (d, n) => if re d < -(tol * re n) then none else some d
    | none => none

/-- the operator an MPO stands for on its first `n` sites: the window of the stored tensors, plus its
Hermitian conjugate when flagged `explicit_plus_hc` -/
def window [Mul α] [One α] (hc : String → String) (cj : α → α) (a : MPOX α) (n : Nat) : Sym α :=
  if a.plusHc then a.m.denoteSites n ++ Sym.dagger hc cj (a.m.denoteSites n) else a.m.denoteSites n

end MPOX
end TenpyModel.Ops
