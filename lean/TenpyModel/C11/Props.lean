import TenpyModel.C11.Proofs
import TenpyModel.C11.SumProofs
import TenpyModel.C11.UIProofs
import TenpyModel.C11.PlusIdProofs
/-!
# C11 — MPO algebra equals operator algebra: property theorems

`MPOM.denote` (Σ over `IdL → IdR` paths of the operator-valued matrices) is the operator an MPO stands
for; with the matrix units as local names it *is* the dense operator (this is how the harness
compares it with `ExactDiag.from_H_mpo`).  The theorems hold for every chain length, bond dimension,
marker position and every commutative (semi)ring of coefficients.
-/
open TenpyModel.Ops

/-- **`MPO.dagger`**: conjugating every entry (name-wise `hc`, coefficient-wise the ring involution
`cj`) denotes the Hermitian conjugate of the denoted operator — equality of the formal sums as lists. -/
theorem C11_dagger {α : Type} [Semiring α] (hc : String → String) (cj : α →+* α) (m : MPOM α) :
    (m.dagger hc cj).denote = Sym.dagger hc cj m.denote := by
  unfold MPOM.denote MPOM.dagger
  simp only
  cases m.idL.head? with
  | none => rfl
  | some l =>
    cases l with
    | none => rfl
    | some l =>
      cases m.idR.getLast? with
      | none => rfl
      | some r =>
        cases r with
        | none => rfl
        | some r => exact pathsFrom_dagger hc cj r m.layers l

/-- a self-adjoint MPO stays self-adjoint under `dagger`, and `dagger` is an involution on denotations -/
theorem C11_dagger_involutive {α : Type} [Semiring α] (hc : String → String) (cj : α →+* α)
    (hhc : ∀ x, hc (hc x) = x) (hcj : ∀ x, cj (cj x) = x) (m : MPOM α) :
    ((m.dagger hc cj).dagger hc cj).denote = m.denote := by
  rw [C11_dagger, C11_dagger]
  simp only [Sym.dagger, List.map_map]
  conv_rhs => rw [← List.map_id m.denote]
  apply List.map_congr_left
  intro p _
  obtain ⟨u, c⟩ := p
  simp only [Function.comp, id, hcj, Prod.mk.injEq, and_true]
  conv_rhs => rw [← List.map_id u]
  rw [List.map_map]
  apply List.map_congr_left
  intro x _
  simp [hhc]

/-- **`MPO.overlap`** (`_overlap_no_hc`): the transfer-matrix contraction of two finite MPOs of the
same length is the Frobenius inner product `tr(A† B)` of the denoted operators (`frob` = sesquilinear
extension of the local trace form `gram`), for every chain length — induction over the sites. -/
theorem C11_overlap {α : Type} [CommSemiring α] (gram : String → String → α) (cj : α →+* α)
    (a b : MPOM α) (hlen : a.layers.length = b.layers.length) (la lb ra rb : Nat)
    (hla : a.idL.head? = some (some la)) (hlb : b.idL.head? = some (some lb))
    (hra : a.idR.getLast? = some (some ra)) (hrb : b.idR.getLast? = some (some rb)) :
    MPOM.overlapTM gram cj a b = MPOM.frob gram cj a.denote b.denote := by
  unfold MPOM.overlapTM MPOM.denote
  rw [hla, hlb, hra, hrb]
  simp only
  have h := tmRun_spec gram cj ra rb (a.layers.zip b.layers) [((la, lb), 1)]
  simp only [tmRun] at h
  rw [h]
  have h1 : (a.layers.zip b.layers).map Prod.fst = a.layers := by
    rw [List.map_fst_zip]; omega
  have h2 : (a.layers.zip b.layers).map Prod.snd = b.layers := by
    rw [List.map_snd_zip]; omega
  simp [h1, h2]

/-- **`MPO.distance`** is the Frobenius distance: `<A|A> - (<A|B> + <B|A>) + <B|B>` of the
transfer-matrix overlaps equals the same combination of Frobenius products of the denotations,
so `is_equal` / `is_hermitian` decide `‖A − B‖_F² < eps (‖A‖² + ‖B‖²)`. -/
theorem C11_distance {α : Type} [CommRing α] (gram : String → String → α) (cj : α →+* α)
    (a b : MPOM α) (hlen : a.layers.length = b.layers.length) (la lb ra rb : Nat)
    (hla : a.idL.head? = some (some la)) (hlb : b.idL.head? = some (some lb))
    (hra : a.idR.getLast? = some (some ra)) (hrb : b.idR.getLast? = some (some rb)) :
    MPOM.overlapTM gram cj a a - (MPOM.overlapTM gram cj a b + MPOM.overlapTM gram cj b a)
        + MPOM.overlapTM gram cj b b
      = MPOM.frob gram cj a.denote a.denote
        - (MPOM.frob gram cj a.denote b.denote + MPOM.frob gram cj b.denote a.denote)
        + MPOM.frob gram cj b.denote b.denote := by
  rw [C11_overlap gram cj a a rfl la la ra ra hla hla hra hra,
    C11_overlap gram cj a b hlen la lb ra rb hla hlb hra hrb,
    C11_overlap gram cj b a hlen.symm lb la rb ra hlb hla hrb hra,
    C11_overlap gram cj b b rfl lb lb rb rb hlb hlb hrb hrb]

/-- **`MPO.__add__`**, block structure with symbolic virtual indices: gluing two automata in standard
form at `IdL` and `IdR` (first summand: all blocks; second summand: all blocks but `IdL→IdL`,
`IdR→IdR`) denotes the sum of the two operators — every chain length, any number of inner states.
Standard form = nothing enters `IdL` except from `IdL`, nothing leaves `IdR` except to `IdR`, and the
`IdL→IdL` / `IdR→IdR` entries of the two summands are the same local operator (the identity).
The placement of the blocks on integer indices by `MPOM.add` (rows/columns dropped, `IdL = 0`,
`IdR = -1`) is compared exactly with the implementation on every run. -/
theorem C11_add {κ α : Type} [DecidableEq κ] [Semiring α] (lk rk : κ) (hlr : lk ≠ rk)
    (as bs : List (List (Edge κ α))) (h : List.Forall₂ (GoodPair lk rk) as bs) (t : OpStr) :
    coeff (pathsFrom SK.r (sumLayers lk rk as bs) SK.l) t
      = coeff (pathsFrom rk as lk) t + coeff (pathsFrom rk bs lk) t :=
  (sum_glued lk rk hlr as bs h).2 SK.l trivial t

/-- **`make_U_I`, first order.**  `W_I` with symbolic virtual indices: on every site the column `IdL`
absorbs `dt ×` the column `IdR`, row and column `IdR` are removed, start and end state are `IdL`.  Over the
dual numbers (`dt = ε`, `ε² = 0`) the denoted operator is `1 + ε·H`: the coefficient of `dt⁰` is the
identity string, the coefficient of `dt¹` is the operator denoted by the Hamiltonian MPO — for every
chain length and every MPO in standard form with identity entries `IdL → IdL`, `IdR → IdR`.
(The index shifts of `MPOM.makeUI` are compared exactly with the implementation on every run, where
the same two coefficients are also evaluated on the integer-indexed model.) -/
theorem C11_UI_first_order {κ α : Type} [DecidableEq κ] [CommSemiring α] (lk rk : κ) (hlr : lk ≠ rk)
    (as : List (List (Edge κ α))) (h : ∀ la ∈ as, StdId lk rk la) (t : OpStr) :
    (coeff (pathsFrom lk (uiLayers lk rk as) lk) t).fst = coeff [(idStr as.length, (1 : α))] t ∧
    (coeff (pathsFrom lk (uiLayers lk rk as) lk) t).snd = coeff (pathsFrom rk as lk) t :=
  (ui_first_order lk rk hlr as h).2.1 t

/- **`MPO.plus_identity(alpha, beta, sites)`**, full statement: for a contiguous list `sites` of `N`
sites, `tb^N = beta`, `N·ta = alpha`: `denote (plusIdentity m beta tb ta sites) ≈ alpha·1 + beta·denote m`.
Proved below for `N = 1` (the default `sites=[0]`, or any single site) with symbolic virtual indices;
for `N ≥ 2` the exponents `b^counter`, `b^(N-counter+1)` of the code are compared exactly with the
implementation and the identity `denote = alpha + beta·denote` is evaluated by the driver on every
generated case (`plus_identity_ok`). -/

/-- **`plus_identity` on one site.**  Multiplying every entry of one site by `beta` and adding `alpha·Id`
to its `IdL → IdR` entry denotes `beta·H + alpha·1` — for every chain length and position of the site,
every MPO in standard form with identity entries `IdL → IdL`, `IdR → IdR` (via the edge-addition lemma
`coeff_pathsFrom_add_edge`: a new edge adds (paths to its source) ⊗ edge ⊗ (paths from its target)). -/
theorem C11_plus_identity_partial {κ α : Type} [DecidableEq κ] [CommSemiring α] (lk rk : κ) (hlr : lk ≠ rk)
    (alpha beta : α) (pre : List (List (Edge κ α))) (la : List (Edge κ α)) (post : List (List (Edge κ α)))
    (hpre : ∀ l ∈ pre, StdId lk rk l) (hpost : ∀ l ∈ post, StdId lk rk l) (t : OpStr) :
    coeff (pathsFrom rk (pre ++ plusIdLayer lk rk alpha beta la :: post) lk) t
      = beta * coeff (pathsFrom rk (pre ++ la :: post) lk) t
        + coeff [(idStr (pre.length + 1 + post.length), alpha)] t :=
  plus_identity_single lk rk hlr alpha beta pre la post hpre hpost t

/-! ## non-vacuity: concrete instances run through the executable model -/

section examples
open TenpyModel.Ops.MPOM

/-- a two-site MPO in standard form over the integers: `1 ⊗ Z + X ⊗ X` -/
def exA : MPOM Int :=
  ⟨2, [[⟨0, 0, "Id", 1⟩, ⟨0, 1, "X", 1⟩, ⟨1, 1, "Id", 1⟩],
       [⟨0, 0, "Id", 1⟩, ⟨0, 1, "Z", 1⟩, ⟨1, 1, "Id", 1⟩]], [2, 2, 2],
   [some 0, some 0, some 0], [some 1, some 1, some 1]⟩

example : exA.denote = [(["Id", "Z"], 1), (["X", "Id"], 1)] := by decide

example : (exA.dagger (fun n => if n = "X" then "Xd" else n) id).denote
    = [(["Id", "Z"], 1), (["Xd", "Id"], 1)] := by decide

/-- the glued automaton of two one-state summands has the two path sums of the summands -/
example : pathsFrom (α := Int) SK.r (sumLayers 0 9
      [[⟨0, 0, "Id", 1⟩, ⟨0, 9, "A", 2⟩, ⟨9, 9, "Id", 1⟩], [⟨0, 0, "Id", 1⟩, ⟨0, 9, "B", 3⟩, ⟨9, 9, "Id", 1⟩]]
      [[⟨0, 0, "Id", 1⟩, ⟨0, 5, "C", 1⟩, ⟨9, 9, "Id", 1⟩], [⟨0, 0, "Id", 1⟩, ⟨5, 9, "D", 5⟩, ⟨9, 9, "Id", 1⟩]]) SK.l
    = [(["Id", "B"], 3), (["A", "Id"], 2), (["C", "D"], 5)] := by decide

/-- `1·1 + 2·H` for `H = Id ⊗ Z + X ⊗ Id` (site 0 modified) -/
example : pathsFrom (α := Int) 9 ([] ++ plusIdLayer 0 9 1 2
      [⟨0, 0, "Id", 1⟩, ⟨0, 9, "X", 1⟩, ⟨9, 9, "Id", 1⟩] :: [[⟨0, 0, "Id", 1⟩, ⟨0, 9, "Z", 1⟩, ⟨9, 9, "Id", 1⟩]]) 0
    = [(["Id", "Z"], 2), (["X", "Id"], 2), (["Id", "Id"], 1)] := by decide

/-- first order of `W_I` for the same `H`, over the dual numbers: `(fst, snd)` of each coefficient -/
example : (pathsFrom 0 (uiLayers (α := Int) 0 9
      [[⟨0, 0, "Id", 1⟩, ⟨0, 9, "X", 1⟩, ⟨9, 9, "Id", 1⟩], [⟨0, 0, "Id", 1⟩, ⟨0, 9, "Z", 1⟩, ⟨9, 9, "Id", 1⟩]]) 0).map
      (fun p => (p.1, p.2.fst, p.2.snd))
    = [(["Id", "Id"], 1, 0), (["Id", "Z"], 0, 1), (["X", "Id"], 0, 1), (["X", "Z"], 0, 0)] := by
  decide +kernel

end examples
