import TenpyModel.Ops.MPO
open TenpyModel.Ops

/-- placeholder while the library grows -/
theorem C11_coeff_nil {α : Type} [Add α] [Zero α] (t : OpStr) : coeff ([] : Sym α) t = 0 := rfl
