import TenpyModel.C11.SumProofs
import TenpyModel.Ops.MPO
/-!
# C11 / Props2, `MPO.prefactor`, part 1: sparse row vectors `List (κ × α)`

The accumulator of `MPOM.prefactor` is a list of `(key, weight)` pairs.  Two views of such a list:

* `pfWt acc k`    the total weight stored at the key `k` (a "forward" vector),
* `pfPair acc g`  the pairing `Σ_{(k,x) ∈ acc} x * g k` with a function `g` on keys (a "backward" vector).

`pfStep0` is one multiplication with an operator-valued matrix restricted to the name `o`,
`pfFilt` the projection away from the markers (`proj` of the python code).
-/
namespace TenpyModel.Ops

section
variable {κ α : Type} [DecidableEq κ] [Semiring α]

/-- total weight stored at the key `k` -/
def pfWt (acc : List (κ × α)) (k : κ) : α := (acc.map (fun p => if p.1 = k then p.2 else 0)).sum

/-- pairing with a function on keys -/
def pfPair (acc : List (κ × α)) (g : κ → α) : α := (acc.map (fun p => p.2 * g p.1)).sum

/-- one site of `prefactor` without the projection: follow the edges named `o` -/
def pfStep0 (layer : List (Edge κ α)) (o : String) (acc : List (κ × α)) : List (κ × α) :=
  acc.flatMap (fun p => (layer.filter (fun e => e.kL = p.1 && e.op = o)).map (fun e => (e.kR, p.2 * e.c)))

/-- the projection of `prefactor` on an inner bond: drop the entries at the (optional) markers -/
def pfFilt (oa ob : Option κ) (acc : List (κ × α)) : List (κ × α) :=
  acc.filter (fun p => some p.1 ≠ oa && some p.1 ≠ ob)

@[simp] theorem pfWt_nil (k : κ) : pfWt ([] : List (κ × α)) k = 0 := rfl
@[simp] theorem pfPair_nil (g : κ → α) : pfPair ([] : List (κ × α)) g = 0 := rfl

theorem pfWt_cons (p : κ × α) (acc : List (κ × α)) (k : κ) :
    pfWt (p :: acc) k = (if p.1 = k then p.2 else 0) + pfWt acc k := by
  simp [pfWt]

theorem pfPair_cons (p : κ × α) (acc : List (κ × α)) (g : κ → α) :
    pfPair (p :: acc) g = p.2 * g p.1 + pfPair acc g := by
  simp [pfPair]

theorem pfWt_append (a b : List (κ × α)) (k : κ) : pfWt (a ++ b) k = pfWt a k + pfWt b k := by
  simp [pfWt]

theorem pfPair_append (a b : List (κ × α)) (g : κ → α) : pfPair (a ++ b) g = pfPair a g + pfPair b g := by
  simp [pfPair]

theorem pf_sum_mul_left {β : Type} (l : List β) (a : α) (f : β → α) :
    (l.map (fun x => a * f x)).sum = a * (l.map f).sum := by
  induction l with
  | nil => simp
  | cons x l ih => simp [ih, mul_add]

/-- pairing after one site = pairing before with the function pulled back through the layer -/
theorem pfPair_step0 (layer : List (Edge κ α)) (o : String) (acc : List (κ × α)) (g : κ → α) :
    pfPair (pfStep0 layer o acc) g
      = pfPair acc (fun k => (layer.map (fun e => if e.kL = k ∧ e.op = o then e.c * g e.kR else 0)).sum) := by
  induction acc with
  | nil => rfl
  | cons p acc ih =>
    have hs : pfStep0 layer o (p :: acc)
        = (layer.filter (fun e => e.kL = p.1 && e.op = o)).map (fun e => (e.kR, p.2 * e.c))
          ++ pfStep0 layer o acc := by
      simp [pfStep0]
    rw [hs, pfPair_append, ih, pfPair_cons]
    congr 1
    rw [pfPair, List.map_map, sum_filter_map', ← pf_sum_mul_left]
    apply sum_congr_map
    intro e _
    by_cases h : e.kL = p.1 ∧ e.op = o
    · simp [h, mul_assoc]
    · have h' : (decide (e.kL = p.1) && decide (e.op = o)) = false := by
        simpa using h
      simp [h, h']

/-- `pfPair_step0` for suffix path sums -/
theorem pfPair_step0_paths (fin : κ) (layer : List (Edge κ α)) (rest : List (List (Edge κ α))) (o : String)
    (w : OpStr) (acc : List (κ × α)) :
    pfPair (pfStep0 layer o acc) (fun k => coeff (pathsFrom fin rest k) w)
      = pfPair acc (fun k => coeff (pathsFrom fin (layer :: rest) k) (o :: w)) := by
  rw [pfPair_step0]
  congr 1
  funext k
  rw [coeff_pathsFrom_cons]

/-- weight after one site: sum over the edges named `o` that enter the key -/
theorem pfWt_step0 (layer : List (Edge κ α)) (o : String) (acc : List (κ × α)) (k' : κ) :
    pfWt (pfStep0 layer o acc) k'
      = (layer.map (fun e => if e.op = o ∧ e.kR = k' then pfWt acc e.kL * e.c else 0)).sum := by
  induction acc with
  | nil =>
    simp only [pfStep0, List.flatMap_nil, pfWt_nil, zero_mul, ite_self]
    exact (sum_map_zero' layer).symm
  | cons p acc ih =>
    have hs : pfStep0 layer o (p :: acc)
        = (layer.filter (fun e => e.kL = p.1 && e.op = o)).map (fun e => (e.kR, p.2 * e.c))
          ++ pfStep0 layer o acc := by
      simp [pfStep0]
    rw [hs, pfWt_append, ih, pfWt, List.map_map, sum_filter_map', ← sum_map_add]
    apply sum_congr_map
    intro e _
    rw [pfWt_cons]
    by_cases h1 : e.op = o
    · by_cases h2 : e.kR = k'
      · by_cases h3 : e.kL = p.1
        · have h3' : p.1 = e.kL := h3.symm
          simp [h1, h2, h3, add_mul]
        · have h3' : ¬ p.1 = e.kL := fun h => h3 h.symm
          simp [h1, h2, h3, h3']
      · simp [h1, h2]
    · simp [h1]

/-- splitting off the entries at one key -/
theorem pfPair_filter_ne (acc : List (κ × α)) (a : κ) (g : κ → α) :
    pfPair acc g = pfPair (acc.filter (fun p => some p.1 ≠ some a)) g + pfWt acc a * g a := by
  induction acc with
  | nil => simp
  | cons p acc ih =>
    rw [pfPair_cons, pfWt_cons, ih]
    by_cases h : p.1 = a
    · have hf : (p :: acc).filter (fun p => some p.1 ≠ some a) = acc.filter (fun p => some p.1 ≠ some a) := by
        simp [h]
      rw [hf, if_pos h, add_mul, h]
      rw [add_comm (p.2 * g a), add_assoc, add_comm (p.2 * g a)]
    · have hf : (p :: acc).filter (fun p => some p.1 ≠ some a)
          = p :: acc.filter (fun p => some p.1 ≠ some a) := by
        simp [h]
      rw [hf, if_neg h, zero_add, pfPair_cons, add_assoc]

theorem pfWt_filter (acc : List (κ × α)) (c : κ → Bool) (k : κ) :
    pfWt (acc.filter (fun p => c p.1)) k = if c k then pfWt acc k else 0 := by
  induction acc with
  | nil => simp
  | cons p acc ih =>
    by_cases hp : c p.1
    · rw [List.filter_cons_of_pos (by simpa using hp), pfWt_cons, pfWt_cons, ih]
      by_cases hk : p.1 = k
      · rw [← hk, if_pos hp, if_pos hp, if_pos rfl]
      · simp only [if_neg hk, zero_add]
    · rw [List.filter_cons_of_neg (by simpa using hp), pfWt_cons, ih]
      by_cases hk : p.1 = k
      · rw [← hk, if_neg hp, if_neg hp]
      · simp only [if_neg hk, zero_add]

theorem pfFilt_eq (oa ob : Option κ) (acc : List (κ × α)) :
    pfFilt oa ob acc = (acc.filter (fun p => some p.1 ≠ oa)).filter (fun p => some p.1 ≠ ob) := by
  rw [pfFilt, List.filter_filter]
  congr 1
  funext p
  rw [Bool.and_comm]

theorem pfPair_filter_opt (acc : List (κ × α)) (oa : Option κ) (g : κ → α)
    (h : ∀ a, oa = some a → pfWt acc a * g a = 0) :
    pfPair (acc.filter (fun p => some p.1 ≠ oa)) g = pfPair acc g := by
  cases oa with
  | none => simp
  | some a => rw [pfPair_filter_ne acc a g, h a rfl, add_zero]

/-- the projection does not change the pairing when the left marker carries no weight and the
function vanishes at the right marker -/
theorem pfPair_filt (oa ob : Option κ) (acc : List (κ × α)) (g : κ → α)
    (ha : ∀ a, oa = some a → pfWt acc a = 0) (hb : ∀ b, ob = some b → g b = 0) :
    pfPair (pfFilt oa ob acc) g = pfPair acc g := by
  rw [pfFilt_eq, pfPair_filter_opt _ ob g (fun b h => by rw [hb b h, mul_zero]),
    pfPair_filter_opt _ oa g (fun a h => by rw [ha a h, zero_mul])]

/-- after the projection the left marker carries no weight -/
theorem pfWt_filt_left (oa ob : Option κ) (acc : List (κ × α)) (a : κ) (h : oa = some a) :
    pfWt (pfFilt oa ob acc) a = 0 := by
  have := pfWt_filter acc (fun k => decide (some k ≠ oa) && decide (some k ≠ ob)) a
  simp only [pfFilt]
  rw [this, h]
  simp

/-- the result of `prefactor`: the weight at the final key, as a pairing with the indicator function -/
theorem pf_final (acc : List (κ × α)) (r : κ) :
    ((acc.filter (fun p => p.1 = r)).foldr (fun p s => p.2 + s) 0)
      = pfPair acc (fun k => if k = r then 1 else 0) := by
  induction acc with
  | nil => rfl
  | cons p acc ih =>
    rw [pfPair_cons, ← ih]
    by_cases h : p.1 = r
    · simp [h]
    · simp [h]

end

end TenpyModel.Ops
