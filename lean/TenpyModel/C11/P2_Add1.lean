import TenpyModel.Ops.MPO
import TenpyModel.Ops.PathProofs
import TenpyModel.C11.SumProofs
/-!
# `MPO.__add__` on integer indices, part 1: the pieces of `MPOM.add` as top-level definitions

`MPOM.add` is one big `let` block.  Here its local functions are restated verbatim as top-level
definitions (`rowGroups`, `colGroups`, `mapIdx`, `keepA`, `keepB`, `addLayer`, …) and `MPOM.add a b`
is shown to be built from them *by `rfl`* (`add_eq`), so everything proved about the pieces is a
statement about the executable model.
-/
namespace TenpyModel.Ops
namespace MPOM
variable {α : Type}

/-- `rowExists i` of `MPOM.add`: which of the four row groups (IdL, other of `a`, other of `b`, IdR) of
site `i` contain a block that is not `None` -/
def rowGroups (a b : MPOM α) (i : Nat) : Bool × Bool × Bool × Bool :=
  let sa := a.blocks i; let sa' := a.blocks (i + 1)
  let sb := b.blocks i; let sb' := b.blocks (i + 1)
  let ex (x : Option Nat) := x.isSome
  let nz (l : List Nat) := !l.isEmpty
  let s00 := ex sa.idL && ex sa'.idL; let o00 := ex sb.idL && ex sb'.idL
  let s01 := ex sa.idL && nz sa'.other; let o01 := ex sb.idL && nz sb'.other
  let s02 := ex sa.idL && ex sa'.idR; let o02 := ex sb.idL && ex sb'.idR
  let s11 := nz sa.other && nz sa'.other; let s12 := nz sa.other && ex sa'.idR
  let o11 := nz sb.other && nz sb'.other; let o12 := nz sb.other && ex sb'.idR
  let s22 := ex sa.idR && ex sa'.idR; let o22 := ex sb.idR && ex sb'.idR
  (s00 || o00 || s01 || o01 || s02 || o02, s11 || s12, o11 || o12, s22 || o22)

/-- `colExists i` of `MPOM.add`: the four column groups of site `i` (they describe bond `i + 1`) -/
def colGroups (a b : MPOM α) (i : Nat) : Bool × Bool × Bool × Bool :=
  let sa := a.blocks i; let sa' := a.blocks (i + 1)
  let sb := b.blocks i; let sb' := b.blocks (i + 1)
  let ex (x : Option Nat) := x.isSome
  let nz (l : List Nat) := !l.isEmpty
  let s00 := ex sa.idL && ex sa'.idL; let o00 := ex sb.idL && ex sb'.idL
  let s01 := ex sa.idL && nz sa'.other; let o01 := ex sb.idL && nz sb'.other
  let s02 := ex sa.idL && ex sa'.idR; let o02 := ex sb.idL && ex sb'.idR
  let s11 := nz sa.other && nz sa'.other; let s12 := nz sa.other && ex sa'.idR
  let o11 := nz sb.other && nz sb'.other; let o12 := nz sb.other && ex sb'.idR
  let s22 := ex sa.idR && ex sa'.idR; let o22 := ex sb.idR && ex sb'.idR
  (s00 || o00, s01 || s11, o01 || o11, s02 || o02 || s12 || o12 || s22 || o22)

/-- `mapIdx` of `MPOM.add`: index maps of the two summands into a bond of the sum, and its dimension -/
def mapIdx (groups : Bool × Bool × Bool × Bool) (ba bb : Blocks) :
    (Nat → Option Nat) × (Nat → Option Nat) × Nat :=
  let (gL, gA, gB, gR) := groups
  let nA := if gA then ba.other.length else 0
  let nB := if gB then bb.other.length else 0
  let nR := (if gL then 1 else 0) + nA + nB
  let fa (k : Nat) : Option Nat :=
    if some k = ba.idL then (if gL then some 0 else none)
    else if some k = ba.idR then (if gR then some nR else none)
    else if gA then (ba.other.idxOf? k).map (fun p => (if gL then 1 else 0) + p) else none
  let fb (k : Nat) : Option Nat :=
    if some k = bb.idL then (if gL then some 0 else none)
    else if some k = bb.idR then (if gR then some nR else none)
    else if gB then (bb.other.idxOf? k).map (fun p => (if gL then 1 else 0) + nA + p) else none
  (fa, fb, nR + (if gR then 1 else 0))

/-- the blocks of `a` that the grid of `__add__` contains -/
def keepA (a : MPOM α) (i : Nat) (e : Edge Nat α) : Bool :=
  let sa := a.blocks i; let sa' := a.blocks (i + 1)
  let l := if some e.kL = sa.idL then 0 else if some e.kL = sa.idR then 2 else 1
  let r := if some e.kR = sa'.idL then 0 else if some e.kR = sa'.idR then 2 else 1
  (l, r) = (0, 0) || (l, r) = (0, 1) || (l, r) = (0, 2) || (l, r) = (1, 1) || (l, r) = (1, 2)
    || (l, r) = (2, 2)

/-- the blocks of `b` that the grid of `__add__` contains (`[0,0]`, `[2,2]` only if `a` has none) -/
def keepB (a b : MPOM α) (i : Nat) (e : Edge Nat α) : Bool :=
  let sa := a.blocks i; let sa' := a.blocks (i + 1)
  let sb := b.blocks i; let sb' := b.blocks (i + 1)
  let s00 := sa.idL.isSome && sa'.idL.isSome
  let s22 := sa.idR.isSome && sa'.idR.isSome
  let l := if some e.kL = sb.idL then 0 else if some e.kL = sb.idR then 2 else 1
  let r := if some e.kR = sb'.idL then 0 else if some e.kR = sb'.idR then 2 else 1
  ((l, r) = (0, 0) && !s00) || (l, r) = (0, 1) || (l, r) = (0, 2) || (l, r) = (1, 1)
    || (l, r) = (1, 2) || ((l, r) = (2, 2) && !s22)

/-- an edge with both ends mapped into the sum, dropped if one end has no image -/
def mapEdge (f g : Nat → Option Nat) (e : Edge Nat α) : Option (Edge Nat α) :=
  match f e.kL, g e.kR with
  | some l, some r => some (⟨l, r, e.op, e.c⟩ : Edge Nat α)
  | _, _ => none

/-- layer `i` of `MPOM.add a b` -/
def addLayer (a b : MPOM α) (i : Nat) : List (Edge Nat α) :=
  let rw := mapIdx (rowGroups a b i) (a.blocks i) (b.blocks i)
  let cl := mapIdx (colGroups a b i) (a.blocks (i + 1)) (b.blocks (i + 1))
  ((a.layers.getD i []).filter (keepA a i)).filterMap (mapEdge rw.1 cl.1)
    ++ ((b.layers.getD i []).filter (keepB a b i)).filterMap (mapEdge rw.2.1 cl.2.1)

/-- bond dimension `bnd` of `MPOM.add a b` -/
def addChi (a b : MPOM α) (bnd : Nat) : Nat :=
  if bnd < a.L then (mapIdx (rowGroups a b bnd) (a.blocks bnd) (b.blocks bnd)).2.2
  else (mapIdx (colGroups a b (a.L - 1)) (a.blocks a.L) (b.blocks a.L)).2.2

theorem add_layers [DecidableEq α] (a b : MPOM α) :
    (MPOM.add a b).layers = (List.range a.L).map (addLayer a b) := rfl

theorem add_L [DecidableEq α] (a b : MPOM α) : (MPOM.add a b).L = a.L := rfl

theorem add_chi [DecidableEq α] (a b : MPOM α) :
    (MPOM.add a b).chi = (List.range (a.L + 1)).map (addChi a b) := rfl

theorem add_idL [DecidableEq α] (a b : MPOM α) :
    (MPOM.add a b).idL = (List.range (a.L + 1)).map (fun bnd =>
      if bnd = 0 then some 0
      else if ((a.blocks (bnd - 1)).idL.isSome && (a.blocks bnd).idL.isSome)
          || ((b.blocks (bnd - 1)).idL.isSome && (b.blocks bnd).idL.isSome) then some 0 else none) := rfl

theorem add_idR [DecidableEq α] (a b : MPOM α) :
    (MPOM.add a b).idR = (List.range (a.L + 1)).map (fun bnd =>
      if bnd = a.L then some (((List.range (a.L + 1)).map (addChi a b)).getD bnd 1 - 1)
      else if ((a.blocks bnd).idR.isSome && (a.blocks (bnd + 1)).idR.isSome)
          || ((b.blocks bnd).idR.isSome && (b.blocks (bnd + 1)).idR.isSome)
        then some (((List.range (a.L + 1)).map (addChi a b)).getD bnd 1 - 1) else none) := rfl

end MPOM
end TenpyModel.Ops
