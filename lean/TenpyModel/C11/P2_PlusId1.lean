import Mathlib.Algebra.Ring.Defs
import Mathlib.Data.Nat.Cast.Basic
import Mathlib.Tactic.Ring
import TenpyModel.C11.PlusIdProofs
/-!
# C11 / `plus_identity` on `N` contiguous sites: the factor bookkeeping

`MPO.plus_identity(alpha, beta, sites)` multiplies the blocks of `W_k` (standard form `[[1 C D] [0 A B] [0 0 1]]`)
by per-site factors.  `PFac` collects the seven factors of one site, `siteFac` is their closed form for the block
`sites = [s0, …, s0+N-1]`, and `sufG`, `sufF`, `sufD`, `sufA` are the factors that the *suffix sums* (paths from a
state on bond `b` to `IdR` on the last bond) pick up:

* from `IdR[b]`:   `sufG b · 1`                     (`beta` as long as the first block site is still to come)
* from other `k`:  `sufF b · (suffix sum of H)`     (`tb ^ (N - #block sites left of b)`)
* from `IdL[b]`:   `sufD b · (suffix sum of H) + sufA b · 1`

`siteFac_compat` is the one-site consistency of these factors (the "exponent bookkeeping").
-/
namespace TenpyModel.Ops

section arith
variable {α : Type} [CommSemiring α]

/-- the model's `pow` is the monoid power -/
theorem foldl_mul_replicate_aux (x a : α) (n : Nat) :
    (List.replicate n x).foldl (· * ·) a = a * x ^ n := by
  induction n generalizing a with
  | zero => simp
  | succ n ih =>
    rw [List.replicate_succ, List.foldl_cons, ih, pow_succ]
    ring

theorem foldl_mul_replicate (x : α) (n : Nat) : (List.replicate n x).foldl (· * ·) 1 = x ^ n := by
  rw [foldl_mul_replicate_aux, one_mul]

/-- the seven factors `plus_identity` applies on one site:
`d` (`IdL→IdL` becomes `d·Id`), `cLO` (`IdL→other`), `cLR` (`IdL→IdR`), `a` (`+ a·Id` on `IdL→IdR`),
`cOO` (`other→other`), `cOR` (`other→IdR`), `g` (`IdR→IdR` becomes `g·Id`) -/
structure PFac (α : Type) where
  d : α
  cLO : α
  cLR : α
  a : α
  cOO : α
  cOR : α
  g : α

/-- number of sites of the block `[s0, s0+N)` strictly left of bond `b` (python: `counter` before site `b`) -/
def cBef (s0 N b : Nat) : Nat := min (b - s0) N

/-- closed form of the factors of site `k` for `sites = [s0, …, s0+N-1]`, `b = tb`, `a = ta`;
`counter` (after the increment) is `k - s0 + 1` inside the block -/
def siteFac (beta tb ta : α) (s0 N k : Nat) : PFac α :=
  if s0 ≤ k ∧ k < s0 + N then
    ⟨if k + 1 = s0 + N then beta else 1, tb ^ (k - s0 + 1), tb ^ N, ta, tb, tb ^ (N - (k - s0 + 1) + 1),
      if k = s0 then beta else 1⟩
  else ⟨1, 1, 1, 0, 1, 1, 1⟩

def sufG (beta : α) (s0 b : Nat) : α := if b ≤ s0 then beta else 1
def sufF (tb : α) (s0 N b : Nat) : α := tb ^ (N - cBef s0 N b)
def sufD (beta : α) (s0 N b : Nat) : α := if b < s0 + N then beta else 1
def sufA (ta : α) (s0 N b : Nat) : α := ((N - cBef s0 N b : Nat) : α) * ta

/-- one-site consistency of site factors `F` with the suffix factors right (`'`) and left of the site -/
structure FacCompat (F : PFac α) (G' f' D' A' G f D A : α) : Prop where
  hg : F.g * G' = G
  hOO : F.cOO * f' = f
  hOR : F.cOR * G' = f
  hd : F.d * D' = D
  hLO : F.cLO * f' = D
  hLR : F.cLR * G' = D
  hA : F.d * A' + F.a * G' = A

theorem siteFac_compat (beta tb ta : α) (s0 N : Nat) (hN : 1 ≤ N) (hb : tb ^ N = beta) (k : Nat) :
    FacCompat (siteFac beta tb ta s0 N k)
      (sufG beta s0 (k + 1)) (sufF tb s0 N (k + 1)) (sufD beta s0 N (k + 1)) (sufA ta s0 N (k + 1))
      (sufG beta s0 k) (sufF tb s0 N k) (sufD beta s0 N k) (sufA ta s0 N k) := by
  by_cases hin : s0 ≤ k ∧ k < s0 + N
  · -- inside the block
    obtain ⟨h1, h2⟩ := hin
    have hc : cBef s0 N k = k - s0 := by unfold cBef; omega
    have hc' : cBef s0 N (k + 1) = k - s0 + 1 := by unfold cBef; omega
    have hG' : sufG beta s0 (k + 1) = 1 := by unfold sufG; rw [if_neg (by omega)]
    have hD : sufD beta s0 N k = beta := by unfold sufD; rw [if_pos h2]
    unfold siteFac
    rw [if_pos ⟨h1, h2⟩, hG', hD]
    unfold sufF sufA
    rw [hc, hc']
    refine ⟨?_, ?_, ?_, ?_, ?_, ?_, ?_⟩
    · show (if k = s0 then beta else 1) * 1 = sufG beta s0 k
      unfold sufG
      by_cases h : k = s0
      · rw [if_pos h, if_pos (by omega), mul_one]
      · rw [if_neg h, if_neg (by omega), mul_one]
    · show tb * tb ^ (N - (k - s0 + 1)) = tb ^ (N - (k - s0))
      rw [← pow_succ']
      congr 1; omega
    · show tb ^ (N - (k - s0 + 1) + 1) * 1 = tb ^ (N - (k - s0))
      rw [mul_one]; congr 1; omega
    · show (if k + 1 = s0 + N then beta else 1) * sufD beta s0 N (k + 1) = beta
      unfold sufD
      by_cases h : k + 1 = s0 + N
      · rw [if_pos h, if_neg (by omega), mul_one]
      · rw [if_neg h, if_pos (by omega), one_mul]
    · show tb ^ (k - s0 + 1) * tb ^ (N - (k - s0 + 1)) = beta
      rw [← pow_add, ← hb]; congr 1; omega
    · show tb ^ N * 1 = beta
      rw [mul_one, hb]
    · show (if k + 1 = s0 + N then beta else 1) * (((N - (k - s0 + 1) : Nat) : α) * ta) + ta * 1
          = ((N - (k - s0) : Nat) : α) * ta
      by_cases h : k + 1 = s0 + N
      · have e1 : N - (k - s0 + 1) = 0 := by omega
        have e2 : N - (k - s0) = 1 := by omega
        rw [e1, e2]; simp
      · have e2 : N - (k - s0) = (N - (k - s0 + 1)) + 1 := by omega
        rw [if_neg h, e2, Nat.cast_add, Nat.cast_one]; ring
  · unfold siteFac
    rw [if_neg hin]
    by_cases hlt : k < s0
    · -- left of the block
      have hc : cBef s0 N k = 0 := by unfold cBef; omega
      have hc' : cBef s0 N (k + 1) = 0 := by unfold cBef; omega
      unfold sufG sufF sufD sufA
      rw [hc, hc', if_pos (by omega), if_pos (by omega), if_pos (by omega), if_pos (by omega)]
      refine ⟨?_, ?_, ?_, ?_, ?_, ?_, ?_⟩ <;> simp [hb]
    · -- right of the block
      have hc : cBef s0 N k = N := by unfold cBef; omega
      have hc' : cBef s0 N (k + 1) = N := by unfold cBef; omega
      unfold sufG sufF sufD sufA
      rw [hc, hc', if_neg (by omega), if_neg (by omega), if_neg (by omega), if_neg (by omega)]
      refine ⟨?_, ?_, ?_, ?_, ?_, ?_, ?_⟩ <;> simp

/-- right of the whole block all suffix factors are trivial -/
theorem suf_end (beta tb ta : α) (s0 N b : Nat) (hN : 1 ≤ N) (h : s0 + N ≤ b) :
    sufG beta s0 b = 1 ∧ sufF tb s0 N b = 1 ∧ sufD beta s0 N b = 1 ∧ sufA ta s0 N b = 0 := by
  have hc : cBef s0 N b = N := by unfold cBef; omega
  unfold sufG sufF sufD sufA
  rw [hc, if_neg (by omega), if_neg (by omega)]
  simp

/-- on the first bond: `beta` and `N·ta` -/
theorem suf_start (beta ta : α) (s0 N : Nat) (hN : 1 ≤ N) :
    sufD beta s0 N 0 = beta ∧ sufA ta s0 N 0 = (N : α) * ta := by
  have hc : cBef s0 N 0 = 0 := by unfold cBef; omega
  unfold sufD sufA
  rw [hc, if_pos (by omega)]
  simp

end arith

/-! ## small facts on formal sums used by both inductions -/
section sums
variable {α : Type} [CommSemiring α]

theorem coeff_idStr_cons (n : Nat) (op : String) (t : OpStr) :
    coeff [(idStr (n + 1), (1 : α))] (op :: t) = (if op = "Id" then 1 else 0) * coeff [(idStr n, (1 : α))] t := by
  rw [idStr_succ', coeff_singleton, coeff_singleton]
  by_cases h1 : op = "Id"
  · subst h1
    by_cases h2 : idStr n = t
    · simp [h2]
    · simp [h2]
  · have : ¬ ("Id" :: idStr n = op :: t) := fun hh => h1 (List.cons.inj hh).1.symm
    simp [h1, this]

theorem coeff_idStr_nil (n : Nat) : coeff [(idStr (n + 1), (1 : α))] [] = 0 := by
  rw [idStr_succ', coeff_singleton]; simp

theorem coeff_single_scale (u : OpStr) (c : α) (t : OpStr) : coeff [(u, c)] t = c * coeff [(u, (1 : α))] t := by
  rw [coeff_singleton, coeff_singleton]; split <;> simp

end sums
end TenpyModel.Ops
