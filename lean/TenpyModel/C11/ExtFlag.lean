import TenpyModel.C11.ExtDecide
/-!
# C11 extension, part 5: the attributes `explicit_plus_hc`, `max_range`, `bc` through the MPO-returning operations
(tenpy/networks/mpo.py)

`MPOX` (C11/ExtDecide.lean) = an MPO with the attributes `finite`, `max_range`, `explicit_plus_hc`.  A flagged MPO
stands for `W + W†` (`MPOX.full`).  Every operation that returns an MPO has to hand the flag on:

* `MPOX.add`            `MPO.__add__`: `ValueError` for different flags, asserts on `bc` and `L`; the result carries
                        the flag of the operands and `max(max_range)` (`None` if one of them is `None`)
* `MPOX.copy`           `MPO.copy()`
* `MPOX.dagger`         (ExtDecide) a flagged MPO is returned unchanged
* `MPOX.sortLegcharges`, `groupSites`, `enlargeUnitCell`, `extractSegment`   the in-place operations / the segment
                        keep the flag (`extract_segment` passes it to the constructor)
* `MPOX.rejectsFlag`    operations that raise `NotImplementedError` for a flagged MPO: `plus_identity`, `make_U_I`,
                        `make_U_II`, `variance`, `apply_naively`, `apply_zipup`
-/
namespace TenpyModel.Ops

/-- `max_range` of a sum: `max(self.max_range, other.max_range)` if both are not `None` (`inf` allowed) -/
def MaxRange.addRange : MaxRange → MaxRange → MaxRange
  | .unknown, _ => .unknown
  | _, .unknown => .unknown
  | .inf, _ => .inf
  | _, .inf => .inf
  | .fin a, .fin b => .fin (max a b)

namespace MPOX
variable {α : Type}

/-- the operator a finite MPO stands for: the denotation of the stored tensors, plus its Hermitian conjugate when
flagged `explicit_plus_hc` -/
def full [Mul α] [One α] (hc : String → String) (cj : α → α) (a : MPOX α) : Sym α :=
  if a.plusHc then a.m.denote ++ Sym.dagger hc cj a.m.denote else a.m.denote

/-- `MPO.__add__` with the attributes -/
def add [DecidableEq α] (a b : MPOX α) : Option (MPOX α) :=
  if a.plusHc != b.plusHc then none            -- ValueError
  else if a.finite != b.finite || a.m.L != b.m.L then none     -- asserts
  else some ⟨MPOM.add a.m b.m, a.finite, a.maxRange.addRange b.maxRange, a.plusHc⟩

/-- `MPO.copy()` -/
def copy (a : MPOX α) : MPOX α := a

/-- `sort_legcharges()` (in place: the attributes stay) -/
def sortLegcharges (a : MPOX α) (q : List (List (List Int))) : MPOX α := { a with m := a.m.sortLegcharges q }

/-- `group_sites(n)` (in place; `max_range` is rescaled) -/
def groupSites [Mul α] (join : String → String → String) (a : MPOX α) (n : Nat) (sizes : Option (List Nat)) :
    Option (MPOX α) :=
  (a.m.groupSites join n sizes).map (fun g =>
    { a with m := g, maxRange := groupedMaxRange a.maxRange (sizes.getD (groupSizes a.m.L n)) })

/-- `enlarge_mps_unit_cell(factor)` (in place) -/
def enlargeUnitCell (a : MPOX α) (factor : Nat) : Option (MPOX α) :=
  (a.m.enlargeUnitCell a.finite factor).map (fun g => { a with m := g })

/-- `extract_segment(first, last)`: `max_range` and `explicit_plus_hc` are passed to the constructor; the
boundary conditions become `'segment'` (finite) -/
def extractSegment (a : MPOX α) (ucw first last : Nat) : Option (MPOX α) :=
  (a.m.extractSegment ucw first last).map (fun g => { a with m := g, finite := true })

/-- operations that refuse a flagged MPO (`NotImplementedError`) -/
def rejectsFlag (a : MPOX α) : Bool := a.plusHc

end MPOX
end TenpyModel.Ops
