import TenpyModel.C11.ExtStructProofs
/-!
# C11 — extension round, property theorems 2: operations that re-arrange an MPO
`sort_legcharges`, `group_sites`, `enlarge_mps_unit_cell`, `extract_segment`

Model: `C11/ExtStruct.lean`; helper lemmas: `C11/ExtStructProofs.lean`.
-/
open TenpyModel.Ops

/-- **the permutation of `sort_legcharges`** is a permutation of the indices of the leg, and the leg is sorted
afterwards: along the new order the charges never decrease (in the order of `np.lexsort`) — for every list of
charges. -/
theorem C11_sortPerm {q : List (List Int)} :
    (sortPerm q).Perm (List.range q.length) ∧
    (sortPerm q).Pairwise (fun x y => chargeLt (q.getD y []) (q.getD x []) = false) :=
  ⟨sortPerm_perm q, sortPerm_sorted q⟩

/-- **`MPO.sort_legcharges()` does not change the operator**: for every MPO whose entries and outer markers lie
inside the bond dimensions and every assignment of charges to the virtual indices (`q[b]` has `chi[b]`
entries), the MPO with all bonds permuted (and the markers moved along) denotes the same operator, coefficient
by coefficient. -/
theorem C11_sort_legcharges {α : Type} [Semiring α] (m : MPOM α) (q : List (List (List Int)))
    (h : SortHyp m q) (t : OpStr) :
    coeff (m.sortLegcharges q).denote t = coeff m.denote t :=
  sort_legcharges_denote m q h t

/-- **`MPO.group_sites`**: the grouped MPO denotes the same operator with the names of each group joined — as
lists of summands, not only coefficient-wise: every group size list `sizes` that partitions the chain into
non-empty groups (`n, n, …, L mod n` by default), every chain length and bond dimension. -/
theorem C11_group_sites {α : Type} [Semiring α] (join : String → String → String) (m : MPOM α) (n : Nat)
    (sizes : Option (List Nat)) (g : MPOM α) (h : GroupHyp m n sizes)
    (hg : m.groupSites join n sizes = some g) :
    g.denote = m.denote.map (fun p => (regroupStr join (sizes.getD (groupSizes m.L n)) p.1, p.2)) :=
  group_sites_denote join m n sizes g h hg

/-- the default group sizes partition the chain: they are positive and add up to `L` -/
theorem C11_groupSizes (L n : Nat) (hn : 0 < n) :
    (groupSizes L n).sum = L ∧ ∀ s ∈ groupSizes L n, 0 < s ∧ s ≤ n :=
  groupSizes_spec L n hn

/-- **`MPO.enlarge_mps_unit_cell(factor)`**: the window of `n` enlarged unit cells of the result is the window
of `factor · n` unit cells of the original MPO — the same list of summands. -/
theorem C11_enlarge_unit_cell {α : Type} [Semiring α] (m : MPOM α) (factor n : Nat) (g : MPOM α)
    (hL : 0 < m.L) (hl : m.idL.length = m.L + 1) (hr : m.idR.length = m.L + 1)
    (hg : m.enlargeUnitCell false factor = some g) :
    g.denoteWindow n = m.denoteWindow (factor * n) :=
  enlarge_denoteWindow m factor n g hL hl hr hg

/-- **`MPO.extract_segment(0, n·L - 1)`** of an infinite MPO denotes the window of `n` unit cells. -/
theorem C11_extract_segment {α : Type} [Semiring α] (m : MPOM α) (ucw n : Nat) (g : MPOM α)
    (hn : 0 < n) (hL : 0 < m.L) (hlay : m.layers.length = m.L) (hl : m.idL.length = m.L + 1)
    (hr : m.idR.length = m.L + 1)
    (hg : m.extractSegment ucw 0 (n * m.L - 1) = some g) :
    g.denote = m.denoteWindow n :=
  extract_segment_denote m ucw n g hn hL hlay hl hr hg

/-- what the implementation rejects is rejected: `enlarge_mps_unit_cell` of a finite MPO or with
`factor ≤ 1`; `extract_segment` of a number of sites that is no multiple of `L // unit_cell_width`;
`group_sites(0)` -/
theorem C11_struct_rejects {α : Type} [Semiring α] (join : String → String → String) (m : MPOM α)
    (factor ucw first last : Nat) (sizes : Option (List Nat)) :
    m.enlargeUnitCell true factor = none ∧ (factor ≤ 1 → m.enlargeUnitCell false factor = none) ∧
    ((last + 1 - first) % (m.L / ucw) ≠ 0 → m.extractSegment ucw first last = none) ∧
    m.groupSites join 0 sizes = none :=
  struct_rejects join m factor ucw first last sizes

/-! ## non-vacuity: concrete runs of the executable model -/
section examples

/-- 3 sites, bond dimensions `[2, 3, 2, 2]`, `IdL` = index 0, `IdR` = last index on every bond:
`3·X₀ + 14·A₀B₁ + 5·Y₁ + 11·Z₂` -/
def exStructM : MPOM Int :=
  ⟨3,
   [[⟨0, 0, "Id", 1⟩, ⟨0, 1, "A", 2⟩, ⟨0, 2, "X", 3⟩, ⟨1, 2, "Id", 1⟩],
    [⟨0, 0, "Id", 1⟩, ⟨0, 1, "Y", 5⟩, ⟨1, 1, "B", 7⟩, ⟨2, 1, "Id", 1⟩],
    [⟨0, 0, "Id", 1⟩, ⟨0, 1, "Z", 11⟩, ⟨1, 1, "Id", 1⟩]],
   [2, 3, 2, 2],
   [some 0, some 0, some 0, some 0],
   [some 1, some 2, some 1, some 1]⟩

/-- charges that are not sorted on bonds 0, 1, 3 (bond 2: equal charges, the stable sort keeps the order) -/
def exStructQ : List (List (List Int)) := [[[1], [0]], [[1], [0], [-1]], [[0], [0]], [[2], [1]]]

example : sortPerm [[1], [0], [1], [-1]] = [3, 1, 0, 2] := by decide
/-- the last charge is the primary key -/
example : sortPerm [[0, 1], [1, 0], [0, 0]] = [2, 1, 0] := by decide
example : (sortPerm [[1], [0], [1], [-1]]).Perm (List.range 4) := (C11_sortPerm).1

theorem exStructM_hyp : SortHyp exStructM exStructQ :=
  ⟨by decide, by decide, by decide, by decide, by decide, by decide,
   fun l h => by cases h; decide, fun r h => by cases h; decide⟩

example : exStructM.denote = [(["Id", "Id", "Z"], 11), (["Id", "Y", "Id"], 5), (["A", "B", "Id"], 14),
    (["X", "Id", "Id"], 3)] := by decide +kernel
/-- the sorted MPO is a different MPO (bond 1 is reversed, the markers moved: `IdL[1] = 2`, `IdR[1] = 0`) … -/
example : (exStructM.sortLegcharges exStructQ).idL = [some 1, some 2, some 0, some 1] ∧
    (exStructM.sortLegcharges exStructQ).idR = [some 0, some 0, some 1, some 0] ∧
    (exStructM.sortLegcharges exStructQ).layers ≠ exStructM.layers := by decide +kernel
/-- … with the same summands -/
example : (exStructM.sortLegcharges exStructQ).denote.Perm exStructM.denote := by decide +kernel
example : canon 0 (exStructM.sortLegcharges exStructQ).denote = canon 0 exStructM.denote := by decide +kernel
example (t : OpStr) : coeff (exStructM.sortLegcharges exStructQ).denote t = coeff exStructM.denote t :=
  C11_sort_legcharges exStructM exStructQ exStructM_hyp t

/-- `group_sites(2)` on 3 sites: sizes `[2, 1]` -/
def exStructJoin (a b : String) : String := a ++ "*" ++ b

example : groupSizes 3 2 = [2, 1] ∧ groupSizes 6 2 = [2, 2, 2] ∧ groupSizes 7 3 = [3, 3, 1] := by decide

theorem exStructM_group_hyp : GroupHyp exStructM 2 none :=
  ⟨by decide, by decide, by decide, by decide, by decide, by decide, by decide⟩

example : (exStructM.groupSites exStructJoin 2 none).map (fun g => (g.L, g.chi, g.idL, g.idR)) =
    some (2, [2, 2, 2], [some 0, some 0, some 0], [some 1, some 1, some 1]) := by decide +kernel
example : (exStructM.groupSites exStructJoin 2 none).map (·.denote) =
    some [(["Id*Id", "Z"], 11), (["Id*Y", "Id"], 5), (["A*B", "Id"], 14), (["X*Id", "Id"], 3)] := by
  decide +kernel
example (g : MPOM Int) (hg : exStructM.groupSites exStructJoin 2 none = some g) :
    g.denote = exStructM.denote.map (fun p => (regroupStr exStructJoin [2, 1] p.1, p.2)) :=
  C11_group_sites exStructJoin exStructM 2 none g exStructM_group_hyp hg
example : regroupStr exStructJoin [2, 1] ["A", "B", "Id"] = ["A*B", "Id"] ∧
    regroupStr exStructJoin [1, 3] ["a", "b", "c", "d"] = ["a", "b*c*d"] := by decide +kernel
/-- explicit `grouped_sites` whose first group does not have `n` sites are rejected -/
example : exStructM.groupSites exStructJoin 2 (some [1, 2]) = none := by decide +kernel
example : (exStructM.groupSites exStructJoin 1 (some [1, 2])).map (·.denote) =
    some [(["Id", "Id*Z"], 11), (["Id", "Y*Id"], 5), (["A", "B*Id"], 14), (["X", "Id*Id"], 3)] := by
  decide +kernel

/-- an infinite MPO with a 2-site unit cell: `Σ_i (2·A_i B_{i+1} + 3·C_i)` -/
def exStructI : MPOM Int :=
  ⟨2,
   [[⟨0, 0, "Id", 1⟩, ⟨0, 1, "A", 2⟩, ⟨0, 2, "C", 3⟩, ⟨1, 2, "B", 1⟩, ⟨2, 2, "Id", 1⟩],
    [⟨0, 0, "Id", 1⟩, ⟨0, 1, "A", 2⟩, ⟨0, 2, "C", 3⟩, ⟨1, 2, "B", 1⟩, ⟨2, 2, "Id", 1⟩]],
   [3, 3, 3],
   [some 0, some 0, some 0],
   [some 2, some 2, some 2]⟩

example : (exStructI.enlargeUnitCell false 2).map (fun g => (g.L, g.chi, g.idL, g.idR, g.layers.length)) =
    some (4, [3, 3, 3, 3, 3], [some 0, some 0, some 0, some 0, some 0],
      [some 2, some 2, some 2, some 2, some 2], 4) := by decide +kernel
example : (exStructI.enlargeUnitCell false 2).map (fun g => canon 0 (g.denoteWindow 1)) =
    some (canon 0 (exStructI.denoteWindow 2)) := by decide +kernel
example : (exStructI.denoteWindow 2).length = 7 := by decide +kernel
example : exStructI.enlargeUnitCell false 1 = none ∧ exStructI.enlargeUnitCell true 2 = none := by decide +kernel

/-- `extract_segment(0, 5)`: three unit cells -/
example : (exStructI.extractSegment 2 0 (3 * 2 - 1)).map (fun g => (g.L, g.chi, g.idL.head?, g.idR.getLast?)) =
    some (6, [3, 3, 3, 3, 3, 3, 3], some (some 0), some (some 2)) := by decide +kernel
example : (exStructI.extractSegment 2 0 (3 * 2 - 1)).map (·.denote) = some (exStructI.denoteWindow 3) := by
  decide +kernel
/-- a segment that starts inside the unit cell -/
example : (exStructI.extractSegment 2 1 2).map (·.denote) =
    some [(["Id", "C"], 3), (["A", "B"], 2), (["C", "Id"], 3)] := by decide +kernel
/-- `L // ucw = 2`: an odd number of sites is rejected; `ucw > L` divides by zero -/
example : exStructI.extractSegment 1 0 2 = none ∧ exStructI.extractSegment 3 0 1 = none := by decide +kernel

end examples
