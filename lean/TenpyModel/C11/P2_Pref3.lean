import TenpyModel.C11.P2_Pref2
/-!
# C11 / Props2, `MPO.prefactor`, part 3: the fold of `MPOM.prefactor` is a path sum of the middle segment

`pfStep` is a copy of the local function `step` of `MPOM.prefactor` (`prefactor_unfold`: by `rfl`),
`pfRun` the fold over the remaining names.  `pfRun_tail` is the invariant of the sites `i+k`, `k ≥ 1`
(where the projection `proj` away from `IdL`/`IdR` is applied); `pfRun_all` adds the first site.
-/
namespace TenpyModel.Ops
namespace MPOM

variable {α : Type}

/-- layer (operator-valued matrix) of site `j` -/
def lyr (m : MPOM α) (j : Nat) : List (Edge Nat α) := m.layers.getD j []
/-- marker `IdL` on bond `b` -/
def mkL (m : MPOM α) (b : Nat) : Option Nat := m.idL.getD b none
/-- marker `IdR` on bond `b` -/
def mkR (m : MPOM α) (b : Nat) : Option Nat := m.idR.getD b none

/-- the segment of `c` sites starting with site `j` -/
def seg (m : MPOM α) (j c : Nat) : List (List (Edge Nat α)) := (m.layers.drop j).take c

theorem seg_length (m : MPOM α) (j c : Nat) (h : j + c ≤ m.layers.length) : (m.seg j c).length = c := by
  simp only [seg, List.length_take, List.length_drop]
  omega

theorem seg_getD (m : MPOM α) (j c t : Nat) (ht : t < c) : (m.seg j c).getD t [] = m.lyr (j + t) := by
  simp [seg, lyr, List.getD_eq_getElem?_getD, List.getElem?_take, List.getElem?_drop, ht]

theorem seg_succ (m : MPOM α) (j c : Nat) (h : j < m.layers.length) :
    m.seg j (c + 1) = m.lyr j :: m.seg (j + 1) c := by
  simp only [seg, lyr]
  rw [List.drop_eq_getElem_cons h, List.take_succ_cons]
  simp [List.getD_eq_getElem?_getD, h]

theorem take_getD (m : MPOM α) (i t : Nat) (ht : t < i) : (m.layers.take i).getD t [] = m.lyr t := by
  simp [lyr, List.getD_eq_getElem?_getD, List.getElem?_take, ht]

theorem drop_getD (m : MPOM α) (j t : Nat) : (m.layers.drop j).getD t [] = m.lyr (j + t) := by
  simp [lyr, List.getD_eq_getElem?_getD, List.getElem?_drop]

/-- the chain is prefix ++ segment ++ suffix -/
theorem layers_split (m : MPOM α) (i n : Nat) :
    m.layers = m.layers.take i ++ (m.seg i n ++ m.layers.drop (i + n)) := by
  have : m.seg i n ++ m.layers.drop (i + n) = m.layers.drop i := by
    rw [seg, ← List.drop_drop, List.take_append_drop]
  rw [this, List.take_append_drop]

section
variable [Semiring α]

/-- copy of the local function `step` of `MPOM.prefactor` -/
def pfStep (m : MPOM α) (i : Nat) (acc : List (Nat × α)) (ko : Nat × String) : List (Nat × α) :=
  let j := i + ko.1
  let layer := m.layers.getD (j % m.L) []
  let accP := if ko.1 = 0 then acc else
    acc.filter (fun p => some p.1 ≠ m.idL.getD (j % m.L) none
                         && some p.1 ≠ m.idR.getD (j % m.L) none)
  accP.flatMap (fun (l, x) =>
    (layer.filter (fun e => e.kL = l && e.op = ko.2)).map (fun e => (e.kR, x * e.c)))

/-- the fold of `prefactor` over the names `os`, the first of which has the number `k` -/
def pfRun (m : MPOM α) (i k : Nat) (os : List String) (acc : List (Nat × α)) : List (Nat × α) :=
  (((os.zipIdx k).map (fun (o, k) => (k, o))).foldl (m.pfStep i) acc)

theorem prefactor_unfold (m : MPOM α) (i : Nat) (ops : List String) :
    m.prefactor i ops =
      match m.idL.getD (i % m.L) none, m.idR.getD ((i + ops.length - 1) % m.L + 1) none with
      | some l0, some rF =>
        ((m.pfRun i 0 ops [(l0, 1)]).filter (fun p => p.1 = rF)).foldr (fun p acc => p.2 + acc) 0
      | _, _ => 0 := rfl

theorem pfRun_nil (m : MPOM α) (i k : Nat) (acc : List (Nat × α)) : m.pfRun i k [] acc = acc := rfl

theorem pfRun_cons (m : MPOM α) (i k : Nat) (o : String) (os : List String) (acc : List (Nat × α)) :
    m.pfRun i k (o :: os) acc = m.pfRun i (k + 1) os (m.pfStep i acc (k, o)) := by
  simp [pfRun, List.zipIdx_cons]

/-- inside the chain the `% L` are trivial -/
theorem pfStep_eq (m : MPOM α) (i k : Nat) (o : String) (acc : List (Nat × α)) (h : i + k < m.L) :
    m.pfStep i acc (k, o) =
      pfStep0 (m.lyr (i + k)) o (if k = 0 then acc else pfFilt (m.mkL (i + k)) (m.mkR (i + k)) acc) := by
  simp only [pfStep, Nat.mod_eq_of_lt h]
  rfl

/-- **invariant of the sites with projection.**  Sites `i+k … e-1` (`k ≥ 1`, `e = i+k+|os|`), names `os`,
final key `rF`.  If, on the inner bonds, nothing enters `IdL` except from `IdL` and nothing leaves `IdR`
except to `IdR`, the last entry `IdR → rF` does not contain the last name, and the accumulator carries no
weight at `IdL[i+k]`, then the weight the fold delivers at `rF` is the pairing of the accumulator with
the path sums of the segment — the projections remove weight 0 only. -/
theorem pfRun_tail (m : MPOM α) (i : Nat) (rF : Nat) :
    ∀ (os : List String) (k : Nat) (acc : List (Nat × α)), 1 ≤ k →
      i + k + os.length ≤ m.L → m.layers.length = m.L →
      (∀ t, i + k ≤ t → t + 1 < i + k + os.length → ∀ ed ∈ m.lyr t, some ed.kR = m.mkL (t + 1) → some ed.kL = m.mkL t) →
      (∀ t, i + k ≤ t → t + 1 < i + k + os.length → ∀ ed ∈ m.lyr t, some ed.kL = m.mkR t → some ed.kR = m.mkR (t + 1)) →
      (∀ b o, m.mkR (i + k + os.length - 1) = some b → os.getLast? = some o →
        entryCoeff (m.lyr (i + k + os.length - 1)) b rF o = 0) →
      (os ≠ [] → ∀ a, m.mkL (i + k) = some a → pfWt acc a = 0) →
      pfPair (m.pfRun i k os acc) (fun κ => if κ = rF then 1 else 0)
        = pfPair acc (fun κ => coeff (pathsFrom rF (m.seg (i + k) os.length) κ) os) := by
  intro os
  induction os with
  | nil =>
    intro k acc _ _ _ _ _ _ _
    rw [pfRun_nil]
    congr 1
    funext κ
    simp only [seg, List.length_nil, List.take_zero, pathsFrom_nil]
    by_cases h : κ = rF
    · simp [h, coeff_singleton]
    · simp [h]
  | cons o os ih =>
    intro k acc hk hfit hlen hL hR hlast hgood
    have hlt : i + k < m.L := by simp only [List.length_cons] at hfit; omega
    have hk0 : ¬ k = 0 := by omega
    rw [pfRun_cons, pfStep_eq m i k o acc hlt, if_neg hk0]
    have hidx : i + (k + 1) = i + k + 1 := by omega
    have hend : i + (k + 1) + os.length = i + k + (o :: os).length := by
      simp only [List.length_cons]; omega
    -- the induction hypothesis for the next site
    have hih := ih (k + 1) (pfStep0 (m.lyr (i + k)) o (pfFilt (m.mkL (i + k)) (m.mkR (i + k)) acc))
      (by omega) (by omega) hlen
      (fun t h1 h2 => hL t (by omega) (by omega))
      (fun t h1 h2 => hR t (by omega) (by omega))
      (fun b o' hb ho' => by
        rw [hend] at hb ⊢
        refine hlast b o' hb ?_
        cases os with
        | nil => simp at ho'
        | cons o2 os2 => rw [List.getLast?_cons_cons]; exact ho')
      (fun hne a' ha' => by
        rw [pfWt_step0]
        apply List.sum_eq_zero
        intro x hx
        obtain ⟨ed, hed, rfl⟩ := List.mem_map.1 hx
        by_cases hc : ed.op = o ∧ ed.kR = a'
        · have hlen1 : 1 ≤ os.length := by
            cases os with
            | nil => exact absurd rfl hne
            | cons _ _ => simp
          have h1 : some ed.kL = m.mkL (i + k) :=
            hL (i + k) (le_refl _) (by simp only [List.length_cons]; omega) ed hed
              (by rw [hc.2, ← hidx, ha'])
          rw [if_pos hc, pfWt_filt_left _ _ _ _ h1.symm, zero_mul]
        · rw [if_neg hc])
    rw [hih, hidx, pfPair_step0_paths, ← seg_succ m (i + k) os.length (by omega)]
    -- the projection removes weight 0 only
    apply pfPair_filt
    · exact hgood (by simp)
    · intro b hb
      have hsl : (m.seg (i + k) (os.length + 1)).length = os.length + 1 :=
        seg_length m _ _ (by simp only [List.length_cons] at hfit; omega)
      refine pf_fromR_zero rF (m.seg (i + k) (os.length + 1)) (o :: os) (fun t => m.mkR (i + k + t))
        ?_ ?_ ?_ ?_ b hb
      · intro h; rw [h] at hsl; simp at hsl
      · rw [hsl]; rfl
      · intro j hj ed hed hkl
        rw [hsl] at hj
        rw [seg_getD m _ _ j (by omega)] at hed
        exact hR (i + k + j) (by omega) (by simp only [List.length_cons]; omega) ed hed hkl
      · intro b' o' hb' ho'
        rw [hsl] at hb' ⊢
        rw [seg_getD m _ _ _ (by omega)]
        have he : i + k + (os.length + 1 - 1) = i + k + (o :: os).length - 1 := by
          simp only [List.length_cons]; omega
        rw [he] at hb' ⊢
        exact hlast b' o' hb' ho'

end
end MPOM
end TenpyModel.Ops
