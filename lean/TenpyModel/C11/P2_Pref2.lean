import TenpyModel.C11.P2_Pref1
/-!
# C11 / Props2, `MPO.prefactor`, part 2: path sums of automata with their own markers on every bond

The index-level `MPOM` has markers `IdL[b]`, `IdR[b]` on every bond `b`; here the keys of the markers
are given by functions `a b : Nat → κ` (or `Nat → Option κ`) of the bond number.

* `pf_prefix`       reading `Id^n` from `IdL[0]` through `n` sites in standard form leads to `IdL[n]` with weight 1
* `pf_suffix`       reading `Id^n` into `IdR[n]`: weight 1 from `IdR[0]`, weight 0 from every other key
* `pf_append_delta` gluing a middle part to a suffix whose path sums are an indicator function
* `pf_fromR_zero`   a path that starts in `IdR` on the left of a segment whose last entry `IdR → fin` does
                    not contain the last name has weight 0
-/
namespace TenpyModel.Ops

variable {κ α : Type} [DecidableEq κ] [Semiring α]

theorem idStr_succ_pf (n : Nat) : idStr (n + 1) = "Id" :: idStr n := by
  simp [idStr, List.replicate_succ]

/-- **prefix of identities.**  On every site `j` of `pre`: the `"Id"` entry `a j → a (j+1)` is 1 and no
other edge named `"Id"` leaves `a j`.  Then reading `Id^|pre|` from `a 0` ends in `a |pre|` with weight 1. -/
theorem pf_prefix (fin : κ) (rest : List (List (Edge κ α))) (v : OpStr) :
    ∀ (pre : List (List (Edge κ α))) (a : Nat → κ),
      (∀ j, j < pre.length → entryCoeff (pre.getD j []) (a j) (a (j + 1)) "Id" = 1 ∧
        ∀ e ∈ pre.getD j [], e.kL = a j → e.op = "Id" → e.kR = a (j + 1)) →
      coeff (pathsFrom fin (pre ++ rest) (a 0)) (idStr pre.length ++ v)
        = coeff (pathsFrom fin rest (a pre.length)) v := by
  intro pre
  induction pre with
  | nil => intro a _; simp [idStr]
  | cons l pre ih =>
    intro a h
    have h0 := h 0 (by simp)
    simp only [List.getD_cons_zero] at h0
    have ih' := ih (fun j => a (j + 1)) (fun j hj => by
      have := h (j + 1) (by simpa using hj)
      simpa only [List.getD_cons_succ] using this)
    simp only [List.length_cons, idStr_succ_pf, List.cons_append, coeff_pathsFrom_cons]
    rw [← one_mul (coeff (pathsFrom fin rest (a (pre.length + 1))) v), ← h0.1, entryCoeff,
      ← sum_map_mul_right'']
    apply sum_congr_map
    intro e he
    by_cases hc : e.kL = a 0 ∧ e.op = "Id"
    · have hr : e.kR = a (0 + 1) := h0.2 e he hc.1 hc.2
      have h3 : e.kL = a 0 ∧ e.kR = a (0 + 1) ∧ e.op = "Id" := ⟨hc.1, hr, hc.2⟩
      rw [if_pos hc, if_pos h3, hr]
      have := ih'
      simp only [Nat.zero_add] at this ⊢
      rw [this]
    · have h3 : ¬ (e.kL = a 0 ∧ e.kR = a (0 + 1) ∧ e.op = "Id") := fun hh => hc ⟨hh.1, hh.2.2⟩
      rw [if_neg hc, if_neg h3, zero_mul]

/-- **suffix of identities.**  On every site `j` of `post`: the `"Id"` entry `b j → b (j+1)` is 1 and no
other edge named `"Id"` enters `b (j+1)`.  Then the weight of `Id^|post|` from `k` into `b |post|` is the
indicator of `k = b 0`. -/
theorem pf_suffix :
    ∀ (post : List (List (Edge κ α))) (b : Nat → κ),
      (∀ j, j < post.length → entryCoeff (post.getD j []) (b j) (b (j + 1)) "Id" = 1 ∧
        ∀ e ∈ post.getD j [], e.kR = b (j + 1) → e.op = "Id" → e.kL = b j) →
      ∀ k, coeff (pathsFrom (b post.length) post k) (idStr post.length) = if k = b 0 then 1 else 0 := by
  intro post
  induction post with
  | nil =>
    intro b _ k
    by_cases hk : k = b 0
    · simp [idStr, hk, coeff_singleton]
    · simp [idStr, hk]
  | cons l post ih =>
    intro b h k
    have h0 := h 0 (by simp)
    simp only [List.getD_cons_zero] at h0
    have ih' := ih (fun j => b (j + 1)) (fun j hj => by
      have := h (j + 1) (by simpa using hj)
      simpa only [List.getD_cons_succ] using this)
    simp only [List.length_cons, idStr_succ_pf, coeff_pathsFrom_cons]
    simp only [Nat.zero_add] at ih' h0
    simp only [ih']
    by_cases hk : k = b 0
    · rw [if_pos hk]
      refine Eq.trans ?_ h0.1
      rw [entryCoeff]
      apply sum_congr_map
      intro e _
      by_cases hc : e.kL = k ∧ e.op = "Id"
      · by_cases hr : e.kR = b 1
        · have h3 : e.kL = b 0 ∧ e.kR = b 1 ∧ e.op = "Id" := ⟨hk ▸ hc.1, hr, hc.2⟩
          rw [if_pos hc, if_pos hr, if_pos h3, mul_one]
        · have h3 : ¬ (e.kL = b 0 ∧ e.kR = b 1 ∧ e.op = "Id") := fun hh => hr hh.2.1
          rw [if_pos hc, if_neg hr, if_neg h3, mul_zero]
      · have h3 : ¬ (e.kL = b 0 ∧ e.kR = b 1 ∧ e.op = "Id") := fun hh => hc ⟨hk ▸ hh.1, hh.2.2⟩
        rw [if_neg hc, if_neg h3]
    · rw [if_neg hk]
      apply List.sum_eq_zero
      intro x hx
      obtain ⟨e, he, rfl⟩ := List.mem_map.1 hx
      by_cases hc : e.kL = k ∧ e.op = "Id"
      · have hr : ¬ e.kR = b 1 := fun hr => hk (hc.1 ▸ h0.2 e he hr hc.2)
        rw [if_pos hc, if_neg hr, mul_zero]
      · rw [if_neg hc]

/-- gluing: if the path sums of `post` for the string `w` are the indicator of the key `r'`, then reading
`u ++ w` through `mid ++ post` is reading `u` through `mid` into `r'` -/
theorem pf_append_delta (r r' : κ) (post : List (List (Edge κ α))) (w : OpStr)
    (h : ∀ k, coeff (pathsFrom r post k) w = if k = r' then 1 else 0) :
    ∀ (mid : List (List (Edge κ α))) (k : κ) (u : OpStr), u.length = mid.length →
      coeff (pathsFrom r (mid ++ post) k) (u ++ w) = coeff (pathsFrom r' mid k) u := by
  intro mid
  induction mid with
  | nil =>
    intro k u hu
    have : u = [] := List.length_eq_zero_iff.1 hu
    subst this
    simp only [List.nil_append, h, pathsFrom_nil]
    by_cases hk : k = r'
    · simp [hk, coeff_singleton]
    · simp [hk]
  | cons l mid ih =>
    intro k u hu
    cases u with
    | nil => simp at hu
    | cons o u =>
      simp only [List.cons_append, coeff_pathsFrom_cons]
      apply sum_congr_map
      intro e _
      rw [ih e.kR u (by simpa using hu)]

/-- **no way back from `IdR`.**  `ob j` = the (optional) `IdR` marker on bond `j` of the segment `mid`.  If on
every site but the last nothing leaves `IdR[j]` except to `IdR[j+1]`, and the entry `IdR[last] → fin` of the
last site does not contain the last name of `u`, then the weight of `u` from `IdR[0]` into `fin` is 0. -/
theorem pf_fromR_zero (fin : κ) :
    ∀ (mid : List (List (Edge κ α))) (u : OpStr) (ob : Nat → Option κ), mid ≠ [] → u.length = mid.length →
      (∀ j, j + 1 < mid.length → ∀ e ∈ mid.getD j [], some e.kL = ob j → some e.kR = ob (j + 1)) →
      (∀ b o, ob (mid.length - 1) = some b → u.getLast? = some o →
        entryCoeff (mid.getD (mid.length - 1) []) b fin o = 0) →
      ∀ b, ob 0 = some b → coeff (pathsFrom fin mid b) u = 0 := by
  intro mid
  induction mid with
  | nil => intro u ob h; exact absurd rfl h
  | cons l rest ih =>
    intro u ob _ hu hstep hlast b hb
    cases u with
    | nil => simp at hu
    | cons o t =>
      have ht : t.length = rest.length := by simpa using hu
      cases rest with
      | nil =>
        have : t = [] := List.length_eq_zero_iff.1 ht
        subst this
        have h0 := hlast b o (by simpa using hb) (by simp)
        simp only [List.length_cons, List.length_nil, Nat.zero_add, Nat.sub_self, List.getD_cons_zero] at h0
        rw [coeff_pathsFrom_cons]
        refine Eq.trans ?_ h0
        rw [entryCoeff]
        apply sum_congr_map
        intro e _
        simp only [pathsFrom_nil]
        by_cases hc : e.kL = b ∧ e.op = o
        · by_cases hr : e.kR = fin
          · have h3 : e.kL = b ∧ e.kR = fin ∧ e.op = o := ⟨hc.1, hr, hc.2⟩
            rw [if_pos hc, if_pos hr, if_pos h3, coeff_singleton, if_pos rfl, mul_one]
          · have h3 : ¬ (e.kL = b ∧ e.kR = fin ∧ e.op = o) := fun hh => hr hh.2.1
            rw [if_pos hc, if_neg hr, if_neg h3, coeff_nil, mul_zero]
        · have h3 : ¬ (e.kL = b ∧ e.kR = fin ∧ e.op = o) := fun hh => hc ⟨hh.1, hh.2.2⟩
          rw [if_neg hc, if_neg h3]
      | cons l' rest' =>
        cases t with
        | nil => simp at ht
        | cons o' t' =>
          rw [coeff_pathsFrom_cons]
          apply List.sum_eq_zero
          intro x hx
          obtain ⟨e, he, rfl⟩ := List.mem_map.1 hx
          by_cases hc : e.kL = b ∧ e.op = o
          · have hr : some e.kR = ob (0 + 1) :=
              hstep 0 (by simp) e (by simpa using he) (by rw [hc.1, hb])
            have := ih (o' :: t') (fun j => ob (j + 1)) (by simp) ht
              (fun j hj e' he' => by
                have := hstep (j + 1) (by simpa using hj) e' (by simpa only [List.getD_cons_succ] using he')
                exact this)
              (fun b' o'' hb' ho'' => by
                have := hlast b' o'' (by simpa using hb') (by rw [List.getLast?_cons_cons]; exact ho'')
                simpa using this)
              e.kR hr.symm
            rw [if_pos hc, this, mul_zero]
          · rw [if_neg hc]

end TenpyModel.Ops
