import Mathlib.Tactic.MkIffOfInductiveProp
import Mathlib.Tactic.IntervalCases
import TenpyModel.C11.P2_Pref3
/-!
# C11 / Props2: `MPO.prefactor(i, ops)` is the coefficient of the operator string in the denoted operator

`MPOM.prefactor m i ops` (python: `MPO.prefactor`, tenpy/networks/mpo.py) starts in `IdL[i]`, reads the
names `ops` on the sites `i … i+len-1`, projects away from `IdL[j]`/`IdR[j]` on the inner bonds and
returns the weight that arrives in `IdR[i+len]`.  `prefactor_coeff`: under `PrefHyp` this is the
coefficient of `Id^i ⊗ ops ⊗ Id^(L-i-len)` in `MPOM.denote m` — every chain length, bond dimension,
position and length of the string, every (also non-commutative) semiring of coefficients.

`PrefHyp` only constrains what is needed: the sites left of `i` (identity prefix), the sites right of the
string (identity suffix), and the inner bonds of the string.  `PrefStd` is the familiar, stronger
"standard form" of the whole chain; `PrefStd.toPrefHyp` derives `PrefHyp` from it.
-/
namespace TenpyModel.Ops
open MPOM

variable {α : Type} [Semiring α]

/-- Hypotheses of `prefactor_coeff` (`lyr j` = layer of site `j`, `mkL b`/`mkR b` = the optional markers
`IdL[b]`/`IdR[b]`, `entryCoeff l k k' op` = coefficient of the name `op` in the entry `W[k,k']`;
`n = ops.length`).

* shapes: `L` layers, `L+1` markers `IdR` (the last one is the final state of `denote`), `1 ≤ n`, `i + n ≤ L`
  (so that every `% L` of the model is trivial);
* markers used as keys exist: `IdL[j]` for `j ≤ i`, `IdR[j]` for `i+n ≤ j ≤ L`;
* sites `j < i` (prefix): the `"Id"` entry `IdL[j] → IdL[j+1]` is 1 and no other edge named `"Id"` leaves
  `IdL[j]` (a term `Id ⊗ A` stored with an explicit `"Id"` would be counted by `denote`, not by `prefactor`);
* sites `j ≥ i+n` (suffix): the `"Id"` entry `IdR[j] → IdR[j+1]` is 1 and no other edge named `"Id"` enters
  `IdR[j+1]`;
* if the string has inner bonds (`n ≥ 2`): the entry `IdL[i] → IdL[i+1]` does not contain the first name and
  the entry `IdR[i+n-1] → IdR[i+n]` does not contain the last name (for identity entries: `ops.head ≠ "Id"`,
  `ops.getLast ≠ "Id"`), and on the sites strictly inside (`i < j < i+n-1`) nothing enters `IdL[j+1]` except
  from `IdL[j]` and nothing leaves `IdR[j]` except to `IdR[j+1]` (conditions on an absent marker are
  read with `none`: e.g. if `IdL[j+1]` exists but `IdL[j]` does not, nothing may enter `IdL[j+1]`).

Nothing is assumed about the names or the shape of the other entries, about `chi`, about the `IdL`
markers right of bond `i+n-1` or the `IdR` markers left of bond `i+1`. -/
@[mk_iff]
structure PrefHyp (m : MPOM α) (i : Nat) (ops : List String) : Prop where
  len_layers : m.layers.length = m.L
  len_idR : m.idR.length = m.L + 1
  ops_pos : 1 ≤ ops.length
  fits : i + ops.length ≤ m.L
  idL_some : ∀ j, j ≤ i → (m.mkL j).isSome
  idR_some : ∀ j, j ≤ m.L → i + ops.length ≤ j → (m.mkR j).isSome
  pre_entry : ∀ j, j < i → ∀ a ∈ m.mkL j, ∀ a' ∈ m.mkL (j + 1), entryCoeff (m.lyr j) a a' "Id" = 1
  pre_only : ∀ j, j < i → ∀ e ∈ m.lyr j, some e.kL = m.mkL j → e.op = "Id" → some e.kR = m.mkL (j + 1)
  post_entry : ∀ j, j < m.L → i + ops.length ≤ j →
    ∀ b ∈ m.mkR j, ∀ b' ∈ m.mkR (j + 1), entryCoeff (m.lyr j) b b' "Id" = 1
  post_only : ∀ j, j < m.L → i + ops.length ≤ j →
    ∀ e ∈ m.lyr j, some e.kR = m.mkR (j + 1) → e.op = "Id" → some e.kL = m.mkR j
  first_zero : 2 ≤ ops.length → ∀ a ∈ m.mkL i, ∀ a' ∈ m.mkL (i + 1), ∀ o ∈ ops.head?,
    entryCoeff (m.lyr i) a a' o = 0
  last_zero : 2 ≤ ops.length → ∀ b ∈ m.mkR (i + ops.length - 1), ∀ b' ∈ m.mkR (i + ops.length),
    ∀ o ∈ ops.getLast?, entryCoeff (m.lyr (i + ops.length - 1)) b b' o = 0
  inner_L : ∀ j, j < i + ops.length - 1 → i < j →
    ∀ e ∈ m.lyr j, some e.kR = m.mkL (j + 1) → some e.kL = m.mkL j
  inner_R : ∀ j, j < i + ops.length - 1 → i < j →
    ∀ e ∈ m.lyr j, some e.kL = m.mkR j → some e.kR = m.mkR (j + 1)

instance [DecidableEq α] (m : MPOM α) (i : Nat) (ops : List String) : Decidable (PrefHyp m i ops) :=
  by
    refine @decidable_of_iff _ _ (prefHyp_iff m i ops).symm ?_
    repeat' (refine @instDecidableAnd _ _ ?_ ?_)
    all_goals infer_instance

theorem opt_eq_some_getD (o : Option Nat) (h : o.isSome) : o = some (o.getD 0) := by
  cases o with
  | none => simp at h
  | some a => rfl

theorem head?_of_getD (l : List (Option Nat)) (a : Nat) (h : l.getD 0 none = some a) :
    l.head? = some (some a) := by
  cases l with
  | nil => simp at h
  | cons x l => simpa using h

theorem getLast?_of_getD (l : List (Option Nat)) (n a : Nat) (hl : l.length = n + 1)
    (h : l.getD n none = some a) : l.getLast? = some (some a) := by
  rw [List.getLast?_eq_getElem?, hl, Nat.add_sub_cancel]
  rw [List.getD_eq_getElem?_getD] at h
  cases h' : l[n]? with
  | none => rw [h'] at h; simp at h
  | some x => rw [h'] at h; simpa using h

/-- the left-hand side: the fold of `prefactor` is the path sum of the segment `i … i+n-1` from `IdL[i]`
into `IdR[i+n]` -/
theorem prefactor_seg (m : MPOM α) (i : Nat) (ops : List String) (h : PrefHyp m i ops) (l0 rF : Nat)
    (hl0 : m.mkL i = some l0) (hrF : m.mkR (i + ops.length) = some rF) :
    pfPair (m.pfRun i 0 ops [(l0, 1)]) (fun κ => if κ = rF then 1 else 0)
      = coeff (pathsFrom rF (m.seg i ops.length) l0) ops := by
  have hfit := h.fits
  have hll := h.len_layers
  cases ops with
  | nil => have := h.ops_pos; simp at this
  | cons o os =>
    simp only [List.length_cons] at hfit hrF
    rw [pfRun_cons, pfStep_eq m i 0 o _ (by omega), if_pos rfl]
    have hend : i + 1 + os.length = i + (os.length + 1) := by omega
    rw [pfRun_tail m i rF os 1 _ (le_refl _) (by omega) hll
      (fun t h1 h2 => h.inner_L t (by simp only [List.length_cons]; omega) (by omega))
      (fun t h1 h2 => h.inner_R t (by simp only [List.length_cons]; omega) (by omega))]
    · rw [Nat.add_zero, pfPair_step0_paths, ← seg_succ m i os.length (by omega), pfPair_cons, pfPair_nil]
      simp
    · -- the last entry `IdR → IdR` does not contain the last name
      intro b o' hb ho'
      have h2 : 2 ≤ (o :: os).length := by
        cases os with
        | nil => simp at ho'
        | cons _ _ => simp
      have hidx : i + 1 + os.length - 1 = i + (o :: os).length - 1 := by
        simp only [List.length_cons]; omega
      rw [hidx] at hb ⊢
      refine h.last_zero h2 b hb rF (by simp only [List.length_cons]; exact hrF) o' ?_
      cases os with
      | nil => simp at ho'
      | cons o2 os2 => rw [List.getLast?_cons_cons]; exact ho'
    · -- no weight at `IdL[i+1]` after the first site
      intro hne a' ha'
      have h2 : 2 ≤ (o :: os).length := by
        cases os with
        | nil => exact absurd rfl hne
        | cons _ _ => simp
      rw [pfWt_step0]
      refine Eq.trans ?_ (h.first_zero h2 l0 hl0 a' ha' o (by simp))
      rw [entryCoeff, Nat.add_zero]
      apply sum_congr_map
      intro ed _
      rw [pfWt_cons, pfWt_nil, add_zero]
      by_cases h1 : ed.kL = l0
      · have h1' : l0 = ed.kL := h1.symm
        by_cases h3 : ed.op = o ∧ ed.kR = a'
        · have : ed.kL = l0 ∧ ed.kR = a' ∧ ed.op = o := ⟨h1, h3.2, h3.1⟩
          rw [if_pos h3, if_pos this, if_pos h1', one_mul]
        · have : ¬ (ed.kL = l0 ∧ ed.kR = a' ∧ ed.op = o) := fun hh => h3 ⟨hh.2.2, hh.2.1⟩
          rw [if_neg h3, if_neg this]
      · have h1' : ¬ l0 = ed.kL := fun hh => h1 hh.symm
        have : ¬ (ed.kL = l0 ∧ ed.kR = a' ∧ ed.op = o) := fun hh => h1 hh.1
        rw [if_neg this, if_neg h1', zero_mul, ite_self]

/-- the right-hand side: the coefficient of `Id^i ⊗ ops ⊗ Id^(L-i-n)` in the path sum of the whole chain is
the path sum of the segment -/
theorem denote_seg (m : MPOM α) (i : Nat) (ops : List String) (h : PrefHyp m i ops) (a0 l0 rF rL : Nat)
    (ha0 : m.mkL 0 = some a0) (hl0 : m.mkL i = some l0) (hrF : m.mkR (i + ops.length) = some rF)
    (hrL : m.mkR m.L = some rL) :
    coeff (pathsFrom rL m.layers a0) (idStr i ++ ops ++ idStr (m.L - i - ops.length))
      = coeff (pathsFrom rF (m.seg i ops.length) l0) ops := by
  have hfit := h.fits
  have hll := h.len_layers
  have hsplit : pathsFrom rL m.layers a0
      = pathsFrom rL (m.layers.take i ++ (m.seg i ops.length ++ m.layers.drop (i + ops.length))) a0 := by
    rw [← layers_split]
  rw [hsplit, List.append_assoc]
  -- prefix
  have hpl : (m.layers.take i).length = i := by rw [List.length_take]; omega
  have hpre := pf_prefix rL (m.seg i ops.length ++ m.layers.drop (i + ops.length))
    (ops ++ idStr (m.L - i - ops.length)) (m.layers.take i) (fun j => (m.mkL j).getD 0)
    (fun j hj => by
      rw [hpl] at hj
      rw [take_getD m i j hj]
      have e1 := opt_eq_some_getD _ (h.idL_some j (by omega))
      have e2 := opt_eq_some_getD _ (h.idL_some (j + 1) (by omega))
      refine ⟨h.pre_entry j hj _ e1 _ e2, fun e he hkl hop => ?_⟩
      have := h.pre_only j hj e he (by rw [hkl, ← e1]) hop
      rw [e2] at this
      exact Option.some.inj this)
  rw [hpl] at hpre
  have e0 : (m.mkL 0).getD 0 = a0 := by rw [ha0]; rfl
  have ei : (m.mkL i).getD 0 = l0 := by rw [hl0]; rfl
  simp only [e0, ei] at hpre
  rw [hpre]
  -- suffix
  have hql : (m.layers.drop (i + ops.length)).length = m.L - i - ops.length := by
    rw [List.length_drop]; omega
  have hsuf : ∀ k, coeff (pathsFrom rL (m.layers.drop (i + ops.length)) k) (idStr (m.L - i - ops.length))
      = if k = rF then 1 else 0 := by
    intro k
    have := pf_suffix (m.layers.drop (i + ops.length)) (fun t => (m.mkR (i + ops.length + t)).getD 0)
      (fun j hj => by
        rw [hql] at hj
        rw [drop_getD m]
        have e1 := opt_eq_some_getD _ (h.idR_some (i + ops.length + j) (by omega) (by omega))
        have e2 := opt_eq_some_getD _ (h.idR_some (i + ops.length + (j + 1)) (by omega) (by omega))
        refine ⟨h.post_entry _ (by omega) (by omega) _ e1 _ e2, fun e he hkr hop => ?_⟩
        have := h.post_only (i + ops.length + j) (by omega) (by omega) e he (by rw [hkr]; exact e2.symm) hop
        rw [e1] at this
        exact Option.some.inj this) k
    rw [hql] at this
    have eL : i + ops.length + (m.L - i - ops.length) = m.L := by omega
    simp only [eL, Nat.add_zero, hrL, hrF, Option.getD_some] at this
    exact this
  exact pf_append_delta rL rF _ _ hsuf (m.seg i ops.length) l0 ops
    (seg_length m i ops.length (by omega)).symm

/-- **`MPO.prefactor(i, ops)` is the coefficient of the operator string `Id^i ⊗ ops ⊗ Id^(L-i-len)` in the
operator the MPO denotes.** -/
theorem prefactor_coeff {α : Type} [Semiring α] (m : MPOM α) (i : Nat) (ops : List String) (h : PrefHyp m i ops) :
    m.prefactor i ops = coeff m.denote (idStr i ++ ops ++ idStr (m.L - i - ops.length)) := by
  have hfit := h.fits
  have hpos := h.ops_pos
  obtain ⟨a0, ha0⟩ : ∃ a, m.mkL 0 = some a := ⟨_, opt_eq_some_getD _ (h.idL_some 0 (by omega))⟩
  obtain ⟨l0, hl0⟩ : ∃ a, m.mkL i = some a := ⟨_, opt_eq_some_getD _ (h.idL_some i (le_refl _))⟩
  obtain ⟨rF, hrF⟩ : ∃ a, m.mkR (i + ops.length) = some a :=
    ⟨_, opt_eq_some_getD _ (h.idR_some _ hfit (le_refl _))⟩
  obtain ⟨rL, hrL⟩ : ∃ a, m.mkR m.L = some a :=
    ⟨_, opt_eq_some_getD _ (h.idR_some _ (le_refl _) hfit)⟩
  have hden : m.denote = pathsFrom rL m.layers a0 := by
    unfold MPOM.denote
    rw [head?_of_getD m.idL a0 ha0, getLast?_of_getD m.idR m.L rL h.len_idR hrL]
  have hmod1 : i % m.L = i := Nat.mod_eq_of_lt (by omega)
  have hmod2 : (i + ops.length - 1) % m.L + 1 = i + ops.length := by
    rw [Nat.mod_eq_of_lt (by omega)]; omega
  have hl0' : m.idL.getD i none = some l0 := hl0
  have hrF' : m.idR.getD (i + ops.length) none = some rF := hrF
  rw [prefactor_unfold, hmod1, hmod2, hl0', hrF', hden, denote_seg m i ops h a0 l0 rF rL ha0 hl0 hrF hrL]
  simp only
  rw [pf_final, prefactor_seg m i ops h l0 rF hl0 hrF]


/-- The familiar **standard form** of the whole chain with per-bond markers, a sufficient condition for
`PrefHyp`: all markers exist; on every site nothing enters `IdL[j+1]` except from `IdL[j]`, nothing leaves
`IdR[j]` except to `IdR[j+1]`, the entries `IdL[j] → IdL[j+1]` and `IdR[j] → IdR[j+1]` are exactly the
identity, no other edge named `"Id"` leaves `IdL[j]` or enters `IdR[j+1]`; the string neither starts nor
ends with `"Id"`. -/
structure PrefStd (m : MPOM α) (i : Nat) (ops : List String) : Prop where
  len_layers : m.layers.length = m.L
  len_idR : m.idR.length = m.L + 1
  ops_pos : 1 ≤ ops.length
  fits : i + ops.length ≤ m.L
  markers : ∀ b, b ≤ m.L → (m.mkL b).isSome ∧ (m.mkR b).isSome
  intoL : ∀ j, j < m.L → ∀ e ∈ m.lyr j, some e.kR = m.mkL (j + 1) → some e.kL = m.mkL j
  fromR : ∀ j, j < m.L → ∀ e ∈ m.lyr j, some e.kL = m.mkR j → some e.kR = m.mkR (j + 1)
  idL : ∀ j, j < m.L → ∀ a ∈ m.mkL j, ∀ a' ∈ m.mkL (j + 1), ∀ op,
    entryCoeff (m.lyr j) a a' op = if op = "Id" then 1 else 0
  idR : ∀ j, j < m.L → ∀ b ∈ m.mkR j, ∀ b' ∈ m.mkR (j + 1), ∀ op,
    entryCoeff (m.lyr j) b b' op = if op = "Id" then 1 else 0
  idL_only : ∀ j, j < m.L → ∀ e ∈ m.lyr j, some e.kL = m.mkL j → e.op = "Id" → some e.kR = m.mkL (j + 1)
  idR_only : ∀ j, j < m.L → ∀ e ∈ m.lyr j, some e.kR = m.mkR (j + 1) → e.op = "Id" → some e.kL = m.mkR j
  head_ne : ops.head? ≠ some "Id"
  last_ne : ops.getLast? ≠ some "Id"

theorem PrefStd.toPrefHyp {m : MPOM α} {i : Nat} {ops : List String} (h : PrefStd m i ops) :
    PrefHyp m i ops where
  len_layers := h.len_layers
  len_idR := h.len_idR
  ops_pos := h.ops_pos
  fits := h.fits
  idL_some := fun j hj => (h.markers j (by have := h.fits; omega)).1
  idR_some := fun j hj _ => (h.markers j hj).2
  pre_entry := fun j hj a ha a' ha' => by
    rw [h.idL j (by have := h.fits; omega) a ha a' ha' "Id", if_pos rfl]
  pre_only := fun j hj => h.idL_only j (by have := h.fits; omega)
  post_entry := fun j hj _ b hb b' hb' => by rw [h.idR j hj b hb b' hb' "Id", if_pos rfl]
  post_only := fun j hj _ => h.idR_only j hj
  first_zero := fun _ a ha a' ha' o ho => by
    have hne : o ≠ "Id" := fun hh => h.head_ne (by rw [← hh]; exact ho)
    rw [h.idL i (by have := h.fits; have := h.ops_pos; omega) a ha a' ha' o, if_neg hne]
  last_zero := fun _ b hb b' hb' o ho => by
    have hne : o ≠ "Id" := fun hh => h.last_ne (by rw [← hh]; exact ho)
    have e : i + ops.length - 1 + 1 = i + ops.length := by have := h.ops_pos; omega
    rw [h.idR (i + ops.length - 1) (by have := h.fits; have := h.ops_pos; omega) b hb b' (by rw [e]; exact hb') o,
      if_neg hne]
  inner_L := fun j hj _ => h.intoL j (by have := h.fits; omega)
  inner_R := fun j hj _ => h.fromR j (by have := h.fits; omega)

/-- `prefactor_coeff` for chains in standard form -/
theorem prefactor_coeff_std (m : MPOM α) (i : Nat) (ops : List String) (h : PrefStd m i ops) :
    m.prefactor i ops = coeff m.denote (idStr i ++ ops ++ idStr (m.L - i - ops.length)) :=
  prefactor_coeff m i ops h.toPrefHyp

#print axioms prefactor_coeff

/-! ## non-vacuity and the role of the hypotheses (concrete chains over `Int`, evaluated by `decide`) -/

section examples

/-- 4 sites; bonds with three states, the markers sit on different indices on different bonds
(bond 2: `IdL = 1`, inner state `0`); onsite terms `7 Z_j`, a two-site term `3 A_1 B_2` through the inner
state and a two-site term `5 A_1 C_2` -/
def exP : MPOM Int :=
  ⟨4, [[⟨0, 0, "Id", 1⟩, ⟨0, 2, "Z", 7⟩, ⟨2, 2, "Id", 1⟩],
       [⟨0, 1, "Id", 1⟩, ⟨0, 0, "A", 1⟩, ⟨0, 2, "Z", 7⟩, ⟨2, 2, "Id", 1⟩],
       [⟨1, 0, "Id", 1⟩, ⟨0, 2, "B", 3⟩, ⟨0, 2, "C", 5⟩, ⟨1, 2, "Z", 7⟩, ⟨2, 2, "Id", 1⟩],
       [⟨0, 0, "Id", 1⟩, ⟨0, 2, "Z", 7⟩, ⟨2, 2, "Id", 1⟩]],
   [3, 3, 3, 3, 3],
   [some 0, some 0, some 1, some 0, some 0], [some 2, some 2, some 2, some 2, some 2]⟩

example : PrefHyp exP 1 ["A", "B"] := by decide
example : exP.prefactor 1 ["A", "B"] = 3 := by decide
example : coeff exP.denote (idStr 1 ++ ["A", "B"] ++ idStr (exP.L - 1 - 2)) = 3 := by decide
example : PrefHyp exP 2 ["Z"] := by decide
example : exP.prefactor 2 ["Z"] = 7 := by decide

theorem entryCoeff_nil_pf {κ β : Type} [DecidableEq κ] [Semiring β] (k k' : κ) (op : String) :
    entryCoeff ([] : List (Edge κ β)) k k' op = 0 := rfl

theorem entryCoeff_cons_pf {κ β : Type} [DecidableEq κ] [Semiring β] (e : Edge κ β) (l : List (Edge κ β))
    (k k' : κ) (op : String) :
    entryCoeff (e :: l) k k' op
      = (if e.kL = k ∧ e.kR = k' ∧ e.op = op then e.c else 0) + entryCoeff l k k' op := by
  simp [entryCoeff]

/-- the chain is also in standard form in the strong sense -/
example : PrefStd exP 1 ["A", "B"] where
  len_layers := by decide
  len_idR := by decide
  ops_pos := by decide
  fits := by decide
  markers := by decide
  intoL := by decide
  fromR := by decide
  idL := by
    intro j hj a ha a' ha' op
    have hj' : j < 4 := hj
    interval_cases j <;>
      simp [exP, mkL, Option.mem_def] at ha ha' <;> subst ha <;> subst ha' <;>
      simp [exP, lyr, entryCoeff_cons_pf, entryCoeff_nil_pf] <;> split <;> simp_all <;>
      (intro h; exact absurd h.symm (by assumption))
  idR := by
    intro j hj a ha a' ha' op
    have hj' : j < 4 := hj
    interval_cases j <;>
      simp [exP, mkR, Option.mem_def] at ha ha' <;> subst ha <;> subst ha' <;>
      simp [exP, lyr, entryCoeff_cons_pf, entryCoeff_nil_pf] <;> split <;> simp_all <;>
      (intro h; exact absurd h.symm (by assumption))
  idL_only := by decide
  idR_only := by decide
  head_ne := by decide
  last_ne := by decide

/-- `PrefHyp` is weaker than the standard form: markers may be missing on the inner bonds of the string, the
entry `IdL → IdL` may contain cancelling duplicates of the first name, `IdL`/`IdR` markers are not needed
right/left of the string -/
def exW : MPOM Int :=
  ⟨3, [[⟨0, 0, "Id", 1⟩, ⟨0, 0, "A", 2⟩, ⟨0, 0, "A", -2⟩, ⟨0, 1, "A", 1⟩, ⟨2, 2, "Id", 1⟩],
       [⟨0, 0, "Id", 1⟩, ⟨1, 1, "B", 1⟩, ⟨0, 1, "B", 1⟩, ⟨2, 2, "Id", 1⟩],
       [⟨0, 0, "Id", 1⟩, ⟨1, 2, "C", 4⟩, ⟨2, 2, "Id", 1⟩]],
   [3, 3, 3, 3], [some 0, some 0, none, none], [none, none, some 2, some 2]⟩

example : PrefHyp exW 0 ["A", "B", "C"] := by decide
example : exW.prefactor 0 ["A", "B", "C"] = 4 := by decide
example : coeff exW.denote (idStr 0 ++ ["A", "B", "C"] ++ idStr (exW.L - 0 - 3)) = 4 := by decide

/-! ### the hypotheses are needed: in each chain below exactly the displayed condition fails and
`prefactor` differs from the coefficient -/

/-- `pre_only`: the term `5 · Id_0 A_1` stored with an explicit `"Id"` edge `IdL → s` -/
def exPC1 : MPOM Int :=
  ⟨2, [[⟨0, 0, "Id", 1⟩, ⟨0, 1, "Id", 1⟩, ⟨2, 2, "Id", 1⟩],
       [⟨0, 0, "Id", 1⟩, ⟨1, 2, "A", 5⟩, ⟨2, 2, "Id", 1⟩]],
   [3, 3, 3], [some 0, some 0, some 0], [some 2, some 2, some 2]⟩

example : ¬ (∀ e ∈ exPC1.lyr 0, some e.kL = exPC1.mkL 0 → e.op = "Id" → some e.kR = exPC1.mkL 1) := by decide
example : exPC1.prefactor 1 ["A"] = 0 ∧ coeff exPC1.denote (idStr 1 ++ ["A"] ++ idStr 0) = 5 := by decide

/-- `post_only`: the term `5 · A_0 Id_1` stored with an explicit `"Id"` edge `s → IdR` -/
def exPC2 : MPOM Int :=
  ⟨2, [[⟨0, 0, "Id", 1⟩, ⟨0, 1, "A", 5⟩, ⟨2, 2, "Id", 1⟩],
       [⟨0, 0, "Id", 1⟩, ⟨1, 2, "Id", 1⟩, ⟨2, 2, "Id", 1⟩]],
   [3, 3, 3], [some 0, some 0, some 0], [some 2, some 2, some 2]⟩

example : ¬ (∀ e ∈ exPC2.lyr 1, some e.kR = exPC2.mkR 2 → e.op = "Id" → some e.kL = exPC2.mkR 1) := by decide
example : exPC2.prefactor 0 ["A"] = 0 ∧ coeff exPC2.denote (idStr 0 ++ ["A"] ++ idStr 1) = 5 := by decide

/-- `first_zero` / `last_zero`: a string that starts or ends with `"Id"` (onsite terms `5 A_j`) -/
def exPC3 : MPOM Int :=
  ⟨2, [[⟨0, 0, "Id", 1⟩, ⟨0, 2, "A", 5⟩, ⟨2, 2, "Id", 1⟩],
       [⟨0, 0, "Id", 1⟩, ⟨0, 2, "A", 5⟩, ⟨2, 2, "Id", 1⟩]],
   [3, 3, 3], [some 0, some 0, some 0], [some 2, some 2, some 2]⟩

example : PrefHyp exPC3 1 ["A"] ∧ exPC3.prefactor 1 ["A"] = 5 := by decide
example : entryCoeff (exPC3.lyr 0) 0 0 "Id" ≠ 0 := by decide
example : exPC3.prefactor 0 ["Id", "A"] = 0 ∧ coeff exPC3.denote (idStr 0 ++ ["Id", "A"] ++ idStr 0) = 5 := by decide
example : entryCoeff (exPC3.lyr 1) 2 2 "Id" ≠ 0 := by decide
example : exPC3.prefactor 0 ["A", "Id"] = 0 ∧ coeff exPC3.denote (idStr 0 ++ ["A", "Id"] ++ idStr 0) = 5 := by decide

/-- `inner_L`: an edge `s → IdL[2]` on an inner bond (the path `A B C` runs through `IdL[2]`) -/
def exPC4 : MPOM Int :=
  ⟨3, [[⟨0, 0, "Id", 1⟩, ⟨0, 1, "A", 1⟩, ⟨2, 2, "Id", 1⟩],
       [⟨0, 0, "Id", 1⟩, ⟨1, 0, "B", 1⟩, ⟨2, 2, "Id", 1⟩],
       [⟨0, 0, "Id", 1⟩, ⟨0, 2, "C", 5⟩, ⟨2, 2, "Id", 1⟩]],
   [3, 3, 3, 3], [some 0, some 0, some 0, some 0], [some 2, some 2, some 2, some 2]⟩

example : ¬ (∀ e ∈ exPC4.lyr 1, some e.kR = exPC4.mkL 2 → some e.kL = exPC4.mkL 1) := by decide
example : exPC4.prefactor 0 ["A", "B", "C"] = 0 ∧
    coeff exPC4.denote (idStr 0 ++ ["A", "B", "C"] ++ idStr 0) = 5 := by decide

/-- `inner_R`: an edge `IdR[1] → s` on an inner bond -/
def exPC5 : MPOM Int :=
  ⟨3, [[⟨0, 0, "Id", 1⟩, ⟨0, 2, "A", 5⟩, ⟨2, 2, "Id", 1⟩],
       [⟨0, 0, "Id", 1⟩, ⟨2, 1, "B", 1⟩, ⟨2, 2, "Id", 1⟩],
       [⟨0, 0, "Id", 1⟩, ⟨1, 2, "C", 1⟩, ⟨2, 2, "Id", 1⟩]],
   [3, 3, 3, 3], [some 0, some 0, some 0, some 0], [some 2, some 2, some 2, some 2]⟩

example : ¬ (∀ e ∈ exPC5.lyr 1, some e.kL = exPC5.mkR 1 → some e.kR = exPC5.mkR 2) := by decide
example : exPC5.prefactor 0 ["A", "B", "C"] = 0 ∧
    coeff exPC5.denote (idStr 0 ++ ["A", "B", "C"] ++ idStr 0) = 5 := by decide

end examples

end TenpyModel.Ops
