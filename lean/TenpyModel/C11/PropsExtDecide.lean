import TenpyModel.C11.ExtDecideProofs
/-!
# C11 — extension round, property theorems 3: the glue of `overlap`, `distance`, `is_equal`, `is_hermitian`

Model: `C11/ExtDecide.lean`; helper lemmas: `C11/ExtDecideProofs.lean`.  `MPOM.denoteSites m n` = the operator
of the first `n` sites (`IdL[0]` on the left, `IdR` right of site `n-1`); `MPOX.window` adds the Hermitian
conjugate for a flagged MPO; `MPOM.frob` = Frobenius inner product of formal sums (`C11_overlap`).
-/
open TenpyModel.Ops

/-- **`_overlap_no_hc(other, num_sites)`**: whenever the contraction is defined (markers present, sites inside
a finite chain) its value is the Frobenius inner product of the two window operators — finite MPOs, windows
of infinite MPOs of any length (also different unit cells `L_A ≠ L_B`, any `num_sites`). -/
theorem C11_overlap_window {α : Type} [CommSemiring α] (gram : String → String → α) (cj : α →+* α)
    (hc : String → String) (a b : MPOX α) (n : Nat) (v : α)
    (h : MPOX.overlapNoHc gram cj hc a b n false = some v) :
    v = MPOM.frob gram cj (a.m.denoteSites n) (b.m.denoteSites n) :=
  overlapNoHc_spec gram cj hc a b n v h

/-- **`_overlap_no_hc(…, hconj_self=True)`** is `<hc(A)|B>`: the Frobenius product with the Hermitian
conjugate of the first window (`cj` an involution). -/
theorem C11_overlap_hconj {α : Type} [CommSemiring α] (gram : String → String → α) (cj : α →+* α)
    (hc : String → String) (hcj : ∀ x, cj (cj x) = x) (a b : MPOX α) (n : Nat) (v : α)
    (h : MPOX.overlapNoHc gram cj hc a b n true = some v) :
    v = MPOM.frob gram cj (Sym.dagger hc cj (a.m.denoteSites n)) (b.m.denoteSites n) :=
  overlapNoHc_hconj_spec gram cj hc hcj a b n v h

/-- **`overlap`, all four `explicit_plus_hc` branches**: the value is the Frobenius product of the operators
the two MPOs stand for (`H + H†` for a flagged one), provided the local trace form satisfies
`gram (hc x) (hc y) = cj (gram x y)` and `hc`, `cj` are involutions. -/
theorem C11_overlap_flags {α : Type} [CommSemiring α] (gram : String → String → α) (cj : α →+* α)
    (hc : String → String) (hcj : ∀ x, cj (cj x) = x) (hhc : ∀ x, hc (hc x) = x)
    (hgram : ∀ x y, gram (hc x) (hc y) = cj (gram x y))
    (a b : MPOX α) (numSites : Option Nat) (n : Nat) (v : α)
    (hn : MPOX.overlapNumSites a b numSites = some n)
    (h : MPOX.overlap gram cj hc a b numSites = some v) :
    v = MPOM.frob gram cj (a.window hc cj n) (b.window hc cj n) :=
  overlap_flags_spec gram cj hc hcj hhc hgram a b numSites n v hn h

/-- **the window of `is_equal`** covers the terms of both operands: `L` sites for finite MPOs; for infinite
ones at least `L + 2·max_range` of *each* operand when both ranges are known (so a long-range term of `other`
cannot be overlooked), `L + 2·max_range` for an explicit `max_range`, `3·L` otherwise. -/
theorem C11_is_equal_window {α : Type} (a b : MPOX α) (mr : MaxRange) :
    (a.finite = true → MPOX.isEqualNumSites a b mr = a.m.L) ∧
    (a.finite = false → ∀ r : Int, mr = .fin r → MPOX.isEqualNumSites a b mr = a.m.L + 2 * r.toNat) ∧
    (a.finite = false → (∀ r, mr ≠ .fin r) → ∀ ra rb : Int, a.maxRange = .fin ra → b.maxRange = .fin rb →
      a.m.L + 2 * ra.toNat ≤ MPOX.isEqualNumSites a b mr ∧ a.m.L + 2 * rb.toNat ≤ MPOX.isEqualNumSites a b mr) ∧
    (a.finite = false → (∀ r, mr ≠ .fin r) → (a.maxRange.known = false ∨ b.maxRange.known = false) →
      MPOX.isEqualNumSites a b mr = 3 * a.m.L) ∧
    a.m.L ≤ MPOX.isEqualNumSites a b mr :=
  isEqualNumSites_spec a b mr

/-- **`is_equal` decides the Frobenius distance of the window operators**: when it answers, the answer is
`|‖A‖² - 2·Re<A|B> + ‖B‖²|² < eps²·|‖A‖² + ‖B‖²|²` for the operators `A`, `B` the MPOs stand for on the
window of `isEqualNumSites` sites (`2·Re z = z + cj z`). -/
theorem C11_is_equal_decides {α ρ : Type} [CommRing α] [Mul ρ] [LT ρ] [DecidableLT ρ]
    (gram : String → String → α) (cj : α →+* α) (hc : String → String) (hcj : ∀ x, cj (cj x) = x)
    (hhc : ∀ x, hc (hc x) = x) (hgram : ∀ x y, gram (hc x) (hc y) = cj (gram x y))
    (absSq : α → ρ) (epsSq : ρ) (a b : MPOX α) (mr : MaxRange) (ans : Bool)
    (h : MPOX.isEqual gram cj hc absSq epsSq a b mr = some ans) :
    let n := MPOX.isEqualNumSites a b mr
    let A := a.window hc cj n
    let B := b.window hc cj n
    ans = decide (absSq (MPOM.frob gram cj A A - (MPOM.frob gram cj A B + cj (MPOM.frob gram cj A B))
                    + MPOM.frob gram cj B B)
                  < epsSq * absSq (MPOM.frob gram cj A A + MPOM.frob gram cj B B)) :=
  isEqual_decides gram cj hc hcj hhc hgram absSq epsSq a b mr ans h

/-- the Frobenius product depends on its arguments only through their coefficients: MPOs that denote the same
window operator are indistinguishable for `overlap`, `distance`, `is_equal`. -/
theorem C11_frob_congr {α : Type} [CommSemiring α] (gram : String → String → α) (cj : α →+* α)
    (s s' t t' : Sym α) (hs : Sym.Equiv s s') (ht : Sym.Equiv t t') :
    MPOM.frob gram cj s t = MPOM.frob gram cj s' t' :=
  frob_congr gram cj s s' t t' hs ht

/-- **`is_equal` accepts equal operators**: if the two MPOs stand for the same window operator
(coefficient-wise), the decision is defined and the norm is not negligible (`absSq 0 < eps²·absSq(‖A‖²+‖B‖²)`),
then `is_equal` answers `True`; the overlap `<A|B>` is assumed real (`cj` fixes it), which holds for a
positive definite trace form. -/
theorem C11_is_equal_accepts {α ρ : Type} [CommRing α] [Mul ρ] [LT ρ] [DecidableLT ρ]
    (gram : String → String → α) (cj : α →+* α) (hc : String → String) (hcj : ∀ x, cj (cj x) = x)
    (hhc : ∀ x, hc (hc x) = x) (hgram : ∀ x y, gram (hc x) (hc y) = cj (gram x y))
    (absSq : α → ρ) (epsSq : ρ) (a b : MPOX α) (mr : MaxRange) (ans : Bool)
    (h : MPOX.isEqual gram cj hc absSq epsSq a b mr = some ans)
    (heq : Sym.Equiv (a.window hc cj (MPOX.isEqualNumSites a b mr)) (b.window hc cj (MPOX.isEqualNumSites a b mr)))
    (hreal : let A := a.window hc cj (MPOX.isEqualNumSites a b mr); cj (MPOM.frob gram cj A A) = MPOM.frob gram cj A A)
    (hnorm : let A := a.window hc cj (MPOX.isEqualNumSites a b mr)
             absSq 0 < epsSq * absSq (MPOM.frob gram cj A A + MPOM.frob gram cj A A)) :
    ans = true :=
  isEqual_accepts gram cj hc hcj hhc hgram absSq epsSq a b mr ans h heq hreal hnorm

/-- **`is_hermitian`**: a flagged MPO is Hermitian by construction; otherwise the decision is `is_equal` with the
entry-wise conjugated MPO, whose window is the Hermitian conjugate of the window (`C11_dagger`). -/
theorem C11_is_hermitian {α ρ : Type} [CommRing α] [Mul ρ] [LT ρ] [DecidableLT ρ]
    (gram : String → String → α) (cj : α →+* α) (hc : String → String) (absSq : α → ρ) (epsSq : ρ)
    (a : MPOX α) (mr : MaxRange) (n : Nat) :
    (a.plusHc = true → MPOX.isHermitian gram cj hc absSq epsSq a mr = some true) ∧
    (a.plusHc = false → MPOX.isHermitian gram cj hc absSq epsSq a mr
        = MPOX.isEqual gram cj hc absSq epsSq a (a.dagger hc cj) mr) ∧
    (a.plusHc = false → ((a.dagger hc cj).m.denoteSites n) = Sym.dagger hc cj (a.m.denoteSites n)) :=
  isHermitian_spec gram cj hc absSq epsSq a mr n

/-- **`MPO.distance`** (with the window fixed once — pending_fixes/C11-distance-infinite-same-window.diff):
whenever it answers, the answer is `‖A‖² − 2·Re<A|B> + ‖B‖²` for the operators the two MPOs stand for on ONE
window of `n` sites, the default window of `self.overlap(other)` — the squared Frobenius distance `‖A − B‖²`
(`C11_distance_expand`). -/
theorem C11_distance_window {α ρ : Type} [CommRing α] [Mul ρ] [Neg ρ] [LT ρ] [DecidableLT ρ]
    (gram : String → String → α) (cj : α →+* α) (hc : String → String) (hcj : ∀ x, cj (cj x) = x)
    (hhc : ∀ x, hc (hc x) = x) (hgram : ∀ x y, gram (hc x) (hc y) = cj (gram x y))
    (re : α → ρ) (tol : ρ) (a b : MPOX α) (numSites : Option Nat) (n : Nat) (d : α)
    (hn : MPOX.overlapNumSites a b numSites = some n)
    (h : MPOX.distance gram cj hc re tol a b numSites = some d) :
    let A := a.window hc cj n
    let B := b.window hc cj n
    d = MPOM.frob gram cj A A - (MPOM.frob gram cj A B + cj (MPOM.frob gram cj A B)) + MPOM.frob gram cj B B :=
  distance_spec gram cj hc hcj hhc hgram re tol a b numSites n d hn h

/-- the combination computed by `distance` is literally `<A − B|A − B>` (`A − B` = `A ++ (-1)·B` as a formal
sum) when the local trace form is Hermitian (`gram y x = cj (gram x y)`); then also `<B|A> = conj <A|B>`. -/
theorem C11_distance_expand {α : Type} [CommRing α] (gram : String → String → α) (cj : α →+* α)
    (hcj : ∀ x, cj (cj x) = x) (hsym : ∀ x y, gram y x = cj (gram x y)) (A B : Sym α) :
    MPOM.frob gram cj (A ++ Sym.smul (-1) B) (A ++ Sym.smul (-1) B)
      = MPOM.frob gram cj A A - (MPOM.frob gram cj A B + cj (MPOM.frob gram cj A B)) + MPOM.frob gram cj B B ∧
    MPOM.frob gram cj B A = cj (MPOM.frob gram cj A B) :=
  distance_expand gram cj hcj hsym A B

/-! ## non-vacuity: concrete instances run through the executable model -/

section examples
open TenpyModel.Ops.MPOX

/-- one site of `Σ_i (c·P_i M_{i+1} + z·Z_i)`: bond states `0 = IdL`, `1`, `2 = IdR` -/
def xdLayer (z c : Int) : List (Edge Nat Int) :=
  [⟨0, 0, "Id", 1⟩, ⟨0, 1, "P", c⟩, ⟨1, 2, "M", 1⟩, ⟨0, 2, "Z", z⟩, ⟨2, 2, "Id", 1⟩]

/-- the infinite MPO with a one-site unit cell -/
def xdOne (z c : Int) (mr : MaxRange) (flag : Bool) : MPOX Int :=
  ⟨⟨1, [xdLayer z c], [3, 3], [some 0, some 0], [some 2, some 2]⟩, false, mr, flag⟩

/-- the same operator content with a two-site unit cell -/
def xdTwo (z c : Int) (mr : MaxRange) (flag : Bool) : MPOX Int :=
  ⟨⟨2, [xdLayer z c, xdLayer z c], [3, 3, 3], [some 0, some 0, some 0], [some 2, some 2, some 2]⟩, false, mr, flag⟩

/-- a finite chain of two sites -/
def xdFin (z c : Int) : MPOX Int :=
  ⟨⟨2, [xdLayer z c, xdLayer z c], [3, 3, 3], [some 0, some 0, some 0], [some 2, some 2, some 2]⟩, true, .fin 1, false⟩

/-- `P† = M`, `M† = P`, everything else self-adjoint -/
def xdHc (x : String) : String := if x = "P" then "M" else if x = "M" then "P" else x

/-- orthonormal local names -/
def xdGram (x y : String) : Int := if x = y then 1 else 0

theorem xdHc_invol (x : String) : xdHc (xdHc x) = x := by
  unfold xdHc
  by_cases h1 : x = "P"
  · subst h1; decide
  · by_cases h2 : x = "M"
    · subst h2; decide
    · simp [h1, h2]

theorem xdGram_hc (x y : String) : xdGram (xdHc x) (xdHc y) = RingHom.id Int (xdGram x y) := by
  have : xdHc x = xdHc y ↔ x = y :=
    ⟨fun h => by have := congrArg xdHc h; rwa [xdHc_invol, xdHc_invol] at this, congrArg _⟩
  simp [xdGram, this]

/-- the window operator on 3 sites: `2·Z_0 + 2·Z_1 + 2·Z_2 + P_0 M_1 + P_1 M_2` (as a list of paths) -/
example : (xdOne 2 1 (.fin 1) false).m.denoteSites 3
    = [(["Id", "Id", "Z"], 2), (["Id", "P", "M"], 1), (["Id", "Z", "Id"], 2), (["P", "M", "Id"], 1),
       (["Z", "Id", "Id"], 2)] := by decide +kernel

/-- `_overlap_no_hc` on 3 sites, unit cells `L_A = 1`, `L_B = 2`: `3·2·2 + 2·1·1` -/
example : overlapNoHc xdGram id xdHc (xdOne 2 1 (.fin 1) false) (xdTwo 2 1 (.fin 1) false) 3 false = some 14 := by
  decide +kernel

/-- `hconj_self`: `<A†|B>` keeps the `Z` terms only -/
example : overlapNoHc xdGram id xdHc (xdOne 2 1 (.fin 1) false) (xdTwo 2 1 (.fin 1) false) 3 true = some 12 := by
  decide +kernel

/-- excluded inputs: no sites, a site outside a finite chain -/
example : overlapNoHc xdGram id xdHc (xdOne 2 1 (.fin 1) false) (xdTwo 2 1 (.fin 1) false) 0 false = none := by decide
example : overlapNoHc xdGram id xdHc (xdFin 2 1) (xdFin 2 1) 3 false = none := by decide

/-- the hypotheses of `C11_overlap_window` are met by this run -/
example : (14 : Int) = MPOM.frob xdGram (RingHom.id Int) ((xdOne 2 1 (.fin 1) false).m.denoteSites 3)
    ((xdTwo 2 1 (.fin 1) false).m.denoteSites 3) :=
  C11_overlap_window xdGram (RingHom.id Int) xdHc _ _ 3 14 (by decide +kernel)

/-- default `num_sites` of `overlap`: `max(L_A + 2·range_A, L_B + 2·range_B)`; mixed boundary conditions and
finite chains of different length are rejected -/
example : overlapNumSites (xdOne 2 1 (.fin 1) false) (xdTwo 2 1 (.fin 3) false) none = some 8 := by decide
example : overlapNumSites (xdOne 2 1 .unknown false) (xdTwo 2 1 .inf false) none = some 6 := by decide
example : overlapNumSites (xdOne 2 1 (.fin 1) false) (xdFin 2 1) none = none := by decide
example : overlapNumSites (xdFin 2 1) (xdFin 2 1) (some 7) = some 2 := by decide

/-- the window of `is_equal`: both ranges known / explicit `max_range` / one range unknown / finite -/
example : isEqualNumSites (xdOne 2 1 (.fin 1) false) (xdTwo 2 1 (.fin 3) false) .unknown = 7 := by decide
example : isEqualNumSites (xdOne 2 1 (.fin 1) false) (xdTwo 2 1 (.fin 3) false) (.fin 2) = 5 := by decide
example : isEqualNumSites (xdOne 2 1 .unknown false) (xdTwo 2 1 (.fin 3) false) .inf = 3 := by decide
example : isEqualNumSites (xdTwo 2 1 (.fin 1) false) (xdOne 2 1 .inf false) .unknown = 6 := by decide
example : isEqualNumSites (xdFin 2 1) (xdFin 2 1) (.fin 5) = 2 := by decide

/-- `is_equal`: the same operator with unit cells of different length is accepted … -/
example : isEqual xdGram id xdHc (fun x : Int => x * x) 1 (xdOne 2 1 (.fin 1) false) (xdTwo 2 1 (.fin 1) false)
    .unknown = some true := by decide +kernel

/-- … the negated operator is rejected (`‖A - B‖² = 4‖A‖²`, `‖A‖² + ‖B‖² = 2‖A‖²`) … -/
example : isEqual xdGram id xdHc (fun x : Int => x * x) 1 (xdOne 2 1 (.fin 1) false) (xdTwo (-2) (-1) (.fin 1) false)
    .unknown = some false := by decide +kernel

/-- … and mixed boundary conditions give no answer -/
example : isEqual xdGram id xdHc (fun x : Int => x * x) 1 (xdOne 2 1 (.fin 1) false) (xdFin 2 1)
    .unknown = none := by decide +kernel

/-- the hypotheses of `C11_is_equal_decides` are met by the accepted run -/
example : true = decide ((fun x : Int => x * x)
      (MPOM.frob xdGram (RingHom.id Int) ((xdOne 2 1 (.fin 1) false).window xdHc (RingHom.id Int) 3)
          ((xdOne 2 1 (.fin 1) false).window xdHc (RingHom.id Int) 3)
        - (MPOM.frob xdGram (RingHom.id Int) ((xdOne 2 1 (.fin 1) false).window xdHc (RingHom.id Int) 3)
            ((xdTwo 2 1 (.fin 1) false).window xdHc (RingHom.id Int) 3)
          + RingHom.id Int (MPOM.frob xdGram (RingHom.id Int) ((xdOne 2 1 (.fin 1) false).window xdHc (RingHom.id Int) 3)
            ((xdTwo 2 1 (.fin 1) false).window xdHc (RingHom.id Int) 3)))
        + MPOM.frob xdGram (RingHom.id Int) ((xdTwo 2 1 (.fin 1) false).window xdHc (RingHom.id Int) 3)
            ((xdTwo 2 1 (.fin 1) false).window xdHc (RingHom.id Int) 3))
      < 1 * (fun x : Int => x * x)
        (MPOM.frob xdGram (RingHom.id Int) ((xdOne 2 1 (.fin 1) false).window xdHc (RingHom.id Int) 3)
            ((xdOne 2 1 (.fin 1) false).window xdHc (RingHom.id Int) 3)
          + MPOM.frob xdGram (RingHom.id Int) ((xdTwo 2 1 (.fin 1) false).window xdHc (RingHom.id Int) 3)
            ((xdTwo 2 1 (.fin 1) false).window xdHc (RingHom.id Int) 3))) :=
  C11_is_equal_decides xdGram (RingHom.id Int) xdHc (fun _ => rfl) xdHc_invol xdGram_hc (fun x : Int => x * x) 1
    (xdOne 2 1 (.fin 1) false) (xdTwo 2 1 (.fin 1) false) .unknown true (by decide +kernel)

/-- the hypotheses of `C11_is_equal_accepts` are met by the same pair: equal window operators, real norm,
norm not negligible -/
example : (true : Bool) = true :=
  C11_is_equal_accepts xdGram (RingHom.id Int) xdHc (fun _ => rfl) xdHc_invol xdGram_hc (fun x : Int => x * x) 1
    (xdOne 2 1 (.fin 1) false) (xdTwo 2 1 (.fin 1) false) .unknown true (by decide +kernel)
    (fun t => congrArg (fun s => coeff s t)
      (by decide +kernel : (xdOne 2 1 (.fin 1) false).window xdHc (RingHom.id Int) 3
        = (xdTwo 2 1 (.fin 1) false).window xdHc (RingHom.id Int) 3))
    rfl (by decide +kernel)

/-- `distance` of two infinite MPOs whose `max_range` attributes differ (the default windows of `<A|A>`,
`<B|B>` alone would be 3 and 8 sites): one window of `max(1 + 2·1, 2 + 2·3) = 8` sites, the `Z` coefficients
differ by 1 on each of them -/
example : overlapNumSites (xdOne 2 1 (.fin 1) false) (xdOne 2 1 (.fin 1) false) none = some 3 ∧
    overlapNumSites (xdTwo 3 1 (.fin 3) false) (xdTwo 3 1 (.fin 3) false) none = some 8 ∧
    overlapNumSites (xdOne 2 1 (.fin 1) false) (xdTwo 3 1 (.fin 3) false) none = some 8 := by decide
example : distance xdGram id xdHc (fun x : Int => x) (0 : Int) (xdOne 2 1 (.fin 1) false)
    (xdTwo 3 1 (.fin 3) false) none = some 8 := by decide +kernel
example : distance xdGram id xdHc (fun x : Int => x) (0 : Int) (xdOne 2 1 (.fin 1) false)
    (xdTwo 2 1 (.fin 3) false) none = some 0 := by decide +kernel
example : distance xdGram id xdHc (fun x : Int => x) (0 : Int) (xdOne 2 1 (.fin 1) false) (xdFin 2 1) none
    = none := by decide

/-- the hypotheses of `C11_distance_window` are met by this run -/
example : (8 : Int) =
    MPOM.frob xdGram (RingHom.id Int) ((xdOne 2 1 (.fin 1) false).window xdHc (RingHom.id Int) 8)
        ((xdOne 2 1 (.fin 1) false).window xdHc (RingHom.id Int) 8)
      - (MPOM.frob xdGram (RingHom.id Int) ((xdOne 2 1 (.fin 1) false).window xdHc (RingHom.id Int) 8)
          ((xdTwo 3 1 (.fin 3) false).window xdHc (RingHom.id Int) 8)
        + RingHom.id Int (MPOM.frob xdGram (RingHom.id Int) ((xdOne 2 1 (.fin 1) false).window xdHc (RingHom.id Int) 8)
          ((xdTwo 3 1 (.fin 3) false).window xdHc (RingHom.id Int) 8)))
      + MPOM.frob xdGram (RingHom.id Int) ((xdTwo 3 1 (.fin 3) false).window xdHc (RingHom.id Int) 8)
          ((xdTwo 3 1 (.fin 3) false).window xdHc (RingHom.id Int) 8) :=
  C11_distance_window xdGram (RingHom.id Int) xdHc (fun _ => rfl) xdHc_invol xdGram_hc (fun x : Int => x) (0 : Int)
    (xdOne 2 1 (.fin 1) false) (xdTwo 3 1 (.fin 3) false) none 8 8 (by decide) (by decide +kernel)

/-- `C11_distance_expand` on a concrete pair: `‖(2Z + P) − (3Z + P)‖² = 1` -/
example : MPOM.frob xdGram id (([(["Z"], 2), (["P"], 1)] : Sym Int) ++ Sym.smul (-1) [(["Z"], 3), (["P"], 1)])
    (([(["Z"], 2), (["P"], 1)] : Sym Int) ++ Sym.smul (-1) [(["Z"], 3), (["P"], 1)]) = 1 := by decide +kernel

/-- a flagged MPO `P_i M_{i+1} + h.c.`: `‖H + H†‖² = 4` on 3 sites; against the unflagged `P_i M_{i+1}`: `2` -/
example : overlap xdGram id xdHc (xdOne 0 1 (.fin 1) true) (xdTwo 0 1 (.fin 1) true) (some 3) = some 4 := by
  decide +kernel
example : overlap xdGram id xdHc (xdOne 0 1 (.fin 1) true) (xdTwo 0 1 (.fin 1) false) (some 3) = some 2 := by
  decide +kernel
example : overlap xdGram id xdHc (xdOne 0 1 (.fin 1) false) (xdTwo 0 1 (.fin 1) true) (some 3) = some 2 := by
  decide +kernel
/-- default window `max(1 + 2·1, 2 + 2·1) = 4` sites: three bonds -/
example : overlap xdGram id xdHc (xdOne 0 1 (.fin 1) false) (xdTwo 0 1 (.fin 1) false) none = some 3 := by
  decide +kernel

/-- the hypotheses of `C11_overlap_flags` are met by the doubly flagged run -/
example : (4 : Int) = MPOM.frob xdGram (RingHom.id Int) ((xdOne 0 1 (.fin 1) true).window xdHc (RingHom.id Int) 3)
    ((xdTwo 0 1 (.fin 1) true).window xdHc (RingHom.id Int) 3) :=
  C11_overlap_flags xdGram (RingHom.id Int) xdHc (fun _ => rfl) xdHc_invol xdGram_hc _ _ (some 3) 3 4
    (by decide) (by decide +kernel)

/-- `is_hermitian`: flagged → `True` without a contraction; `P_i M_{i+1}` alone is not Hermitian
(`‖A - A†‖² = ‖A‖² + ‖A†‖²`), `Z_i` alone is -/
example : isHermitian xdGram id xdHc (fun x : Int => x * x) 1 (xdOne 0 1 (.fin 1) true) .unknown = some true := by
  decide
example : isHermitian xdGram id xdHc (fun x : Int => x * x) 1 (xdOne 0 1 (.fin 1) false) .unknown = some false := by
  decide +kernel
example : isHermitian xdGram id xdHc (fun x : Int => x * x) 1 (xdOne 2 0 (.fin 1) false) .unknown = some true := by
  decide +kernel

/-- `frob` sees formal sums only through their coefficients: split and reordered summands -/
example : Sym.Equiv ([(["Z"], 2), (["P"], 1)] : Sym Int) [(["P"], 1), (["Z"], 1), (["Z"], 1)] := by
  intro t
  simp only [coeff_cons, coeff_nil]
  by_cases h1 : ["Z"] = t <;> by_cases h2 : ["P"] = t <;> simp [h1, h2]

example : MPOM.frob xdGram id ([(["Z"], 2), (["P"], 1)] : Sym Int) [(["Z"], 2), (["P"], 1)]
    = MPOM.frob xdGram id ([(["P"], 1), (["Z"], 1), (["Z"], 1)] : Sym Int) [(["Z"], 2), (["P"], 1)] := by
  decide +kernel

end examples
