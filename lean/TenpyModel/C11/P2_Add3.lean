import TenpyModel.C11.P2_Add2
/-!
# `MPO.__add__` on integer indices, part 3: one site of the glued automaton with per-bond, partial markers

Generalisation of `SumProofs` (`sumLayer`, `sum_glued`): the markers `IdL`, `IdR` of the two summands may
differ from bond to bond and may be absent (`none`).  `BM` collects the four markers of one bond,
`symLayer m m' A B` is the layer of the sum between bonds with markers `m` (left) and `m'` (right) with the
symbolic keys `SK`; the blocks kept are literally those of `MPOM.add` (`keepAo`, `keepBo`).

This file: the per-site step of the suffix-sum induction, as statements about arbitrary "suffix value"
functions `sA sB : κ → α` (values of the summands behind the site) and `sS : SK κ → α` (value of the sum).
-/
namespace TenpyModel.Ops

variable {κ α : Type} [DecidableEq κ] [Semiring α]

/-- markers of the two summands on one bond -/
structure BM (κ : Type) where
  la : Option κ
  ra : Option κ
  lb : Option κ
  rb : Option κ

/-- symbolic key of `k` on a bond with markers `l`, `r` -/
def injO (l r : Option κ) (mk : κ → SK κ) (k : κ) : SK κ :=
  if some k = l then .l else if some k = r then .r else mk k

def injAo (m : BM κ) (k : κ) : SK κ := injO m.la m.ra SK.a k
def injBo (m : BM κ) (k : κ) : SK κ := injO m.lb m.rb SK.b k

/-- `keepA` of `MPOM.add` with the markers as parameters -/
def keepAo (m m' : BM κ) (e : Edge κ α) : Bool :=
  let l := if some e.kL = m.la then 0 else if some e.kL = m.ra then 2 else 1
  let r := if some e.kR = m'.la then 0 else if some e.kR = m'.ra then 2 else 1
  (l, r) = (0, 0) || (l, r) = (0, 1) || (l, r) = (0, 2) || (l, r) = (1, 1) || (l, r) = (1, 2)
    || (l, r) = (2, 2)

/-- `keepB` of `MPOM.add` with the markers as parameters -/
def keepBo (m m' : BM κ) (e : Edge κ α) : Bool :=
  let s00 := m.la.isSome && m'.la.isSome
  let s22 := m.ra.isSome && m'.ra.isSome
  let l := if some e.kL = m.lb then 0 else if some e.kL = m.rb then 2 else 1
  let r := if some e.kR = m'.lb then 0 else if some e.kR = m'.rb then 2 else 1
  ((l, r) = (0, 0) && !s00) || (l, r) = (0, 1) || (l, r) = (0, 2) || (l, r) = (1, 1)
    || (l, r) = (1, 2) || ((l, r) = (2, 2) && !s22)

def relab2 (f g : κ → SK κ) (e : Edge κ α) : Edge (SK κ) α := ⟨f e.kL, g e.kR, e.op, e.c⟩

/-- one layer of the sum with symbolic keys -/
def symLayer (m m' : BM κ) (A B : List (Edge κ α)) : List (Edge (SK κ) α) :=
  (A.filter (keepAo m m')).map (relab2 (injAo m) (injAo m'))
    ++ (B.filter (keepBo m m')).map (relab2 (injBo m) (injBo m'))

/-- standard form of one layer w.r.t. the (optional) markers `l r` of its left and `l' r'` of its right
bond: nothing enters `IdL` except from `IdL`, nothing leaves `IdR` except to `IdR` -/
def StdO (l r l' r' : Option κ) (A : List (Edge κ α)) : Prop :=
  ∀ e ∈ A, (some e.kR = l' → some e.kL = l) ∧ (some e.kL = r → some e.kR = r')

/-- the markers of a bond are different indices -/
def DistO (l r : Option κ) : Prop := ∀ k, l = some k → r ≠ some k

/-- keys that occur on a bond with markers `m` -/
def ValidO (m : BM κ) : SK κ → Prop
  | .a k => some k ≠ m.la ∧ some k ≠ m.ra
  | .b k => some k ≠ m.lb ∧ some k ≠ m.rb
  | _ => True

/-- one step of a path sum: `Σ_{e : k → ·, name op} e.c · s(e.kR)` -/
def stepSum {κ : Type} [DecidableEq κ] (s : κ → α) (A : List (Edge κ α)) (op : String) (k : κ) : α :=
  (A.map (fun e => if e.kL = k ∧ e.op = op then e.c * s e.kR else 0)).sum

/-- expected value of the sum at a symbolic key, from the values of the summands -/
def expectO (m : BM κ) (sA sB : κ → α) : SK κ → α
  | .l => (match m.la with | some k => sA k | none => 0) + (match m.lb with | some k => sB k | none => 0)
  | .r => match m.ra with
    | some k => sA k
    | none => match m.rb with | some k => sB k | none => 0
  | .a k => sA k
  | .b k => sB k

theorem validO_injAo (m : BM κ) (k : κ) : ValidO m (injAo m k) := by
  unfold injAo injO
  split
  · trivial
  · split
    · trivial
    · exact ⟨by assumption, by assumption⟩

theorem validO_injBo (m : BM κ) (k : κ) : ValidO m (injBo m k) := by
  unfold injBo injO
  split
  · trivial
  · split
    · trivial
    · exact ⟨by assumption, by assumption⟩

theorem stepSum_symLayer (m m' : BM κ) (A B : List (Edge κ α)) (sS : SK κ → α) (op : String) (K : SK κ) :
    stepSum sS (symLayer m m' A B) op K =
      (A.map (fun e => if keepAo m m' e then (if injAo m e.kL = K ∧ e.op = op
        then e.c * sS (injAo m' e.kR) else 0) else 0)).sum +
      (B.map (fun e => if keepBo m m' e then (if injBo m e.kL = K ∧ e.op = op
        then e.c * sS (injBo m' e.kR) else 0) else 0)).sum := by
  rw [stepSum, symLayer, List.map_append, List.sum_append, List.map_map, List.map_map,
    sum_filter_map', sum_filter_map']
  rfl

omit [Semiring α] in
/-- under the standard form every edge of the first summand is kept -/
theorem keepAo_of_std (m m' : BM κ) (e : Edge κ α)
    (h1 : some e.kR = m'.la → some e.kL = m.la) (h2 : some e.kL = m.ra → some e.kR = m'.ra) :
    keepAo m m' e = true := by
  unfold keepAo
  by_cases c1 : some e.kL = m.la
  · by_cases c3 : some e.kR = m'.la
    · simp only [if_pos c1, if_pos c3]; rfl
    · by_cases c4 : some e.kR = m'.ra
      · simp only [if_pos c1, if_neg c3, if_pos c4]; rfl
      · simp only [if_pos c1, if_neg c3, if_neg c4]; rfl
  · have c3 : ¬ some e.kR = m'.la := fun h => c1 (h1 h)
    by_cases c2 : some e.kL = m.ra
    · have c4 := h2 c2
      simp only [if_neg c1, if_pos c2, if_neg c3, if_pos c4]; rfl
    · by_cases c4 : some e.kR = m'.ra
      · simp only [if_neg c1, if_neg c2, if_neg c3, if_pos c4]; rfl
      · simp only [if_neg c1, if_neg c2, if_neg c3, if_neg c4]; rfl

omit [Semiring α] in
/-- under the standard form an edge of the second summand is dropped iff it is an `IdL → IdL` edge and the
first summand has that block, or an `IdR → IdR` edge and the first summand has that block -/
theorem keepBo_of_std (m m' : BM κ) (e : Edge κ α) (hd0 : DistO m.lb m.rb)
    (h1 : some e.kR = m'.lb → some e.kL = m.lb) (h2 : some e.kL = m.rb → some e.kR = m'.rb) :
    keepBo m m' e =
      (!(decide (some e.kL = m.lb) && decide (some e.kR = m'.lb) && (m.la.isSome && m'.la.isSome)) &&
       !(decide (some e.kL = m.rb) && decide (some e.kR = m'.rb) && (m.ra.isSome && m'.ra.isSome))) := by
  unfold keepBo
  by_cases c1 : some e.kL = m.lb
  · have c2 : ¬ some e.kL = m.rb := fun h => hd0 e.kL c1.symm h.symm
    by_cases c3 : some e.kR = m'.lb
    · simp only [if_pos c1, if_pos c3, decide_eq_true c1, decide_eq_true c3, decide_eq_false c2]
      cases (m.la.isSome && m'.la.isSome) <;> rfl
    · by_cases c4 : some e.kR = m'.rb
      · simp only [if_pos c1, if_neg c3, if_pos c4, decide_eq_true c1, decide_eq_false c3, decide_eq_false c2]
        rfl
      · simp only [if_pos c1, if_neg c3, if_neg c4, decide_eq_true c1, decide_eq_false c3, decide_eq_false c2]
        rfl
  · have c3 : ¬ some e.kR = m'.lb := fun h => c1 (h1 h)
    by_cases c2 : some e.kL = m.rb
    · have c4 := h2 c2
      simp only [if_neg c1, if_pos c2, if_neg c3, if_pos c4, decide_eq_false c1, decide_eq_true c2,
        decide_eq_true c4]
      cases (m.ra.isSome && m'.ra.isSome) <;> rfl
    · by_cases c4 : some e.kR = m'.rb
      · simp only [if_neg c1, if_neg c2, if_neg c3, if_pos c4, decide_eq_false c1, decide_eq_false c2]
        rfl
      · simp only [if_neg c1, if_neg c2, if_neg c3, if_neg c4, decide_eq_false c1, decide_eq_false c2]
        rfl

end TenpyModel.Ops
