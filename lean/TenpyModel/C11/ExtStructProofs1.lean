import Mathlib.Data.List.Basic
import Mathlib.Data.List.Perm.Basic
import TenpyModel.C11.ExtStruct
/-!
# C11 extension, proofs 1: the stable argsort of `sort_legcharges`

`sortPerm q` is a permutation of `range q.length`, the charges are non-decreasing along it, and
`newIdx (sortPerm q)` is injective on the indices of the leg.
-/
namespace TenpyModel.Ops

/-! ## `intsLt` is a strict total order: asymmetry and negative transitivity -/

theorem intsLt_asymm : ∀ (a b : List Int), intsLt a b = true → intsLt b a = false
  | [], [], _ => rfl
  | [], _ :: _, _ => rfl
  | _ :: _, [], h => by simp [intsLt] at h
  | a :: as, b :: bs, h => by
    unfold intsLt at h ⊢
    by_cases h1 : a < b
    · have h2 : ¬ b < a := by omega
      simp [h1]
      omega
    · by_cases h2 : b < a
      · simp [h1, h2] at h
      · simp only [h1, h2, if_false] at h ⊢
        exact intsLt_asymm as bs h

/-- `a ≤ b → b ≤ c → a ≤ c` with `x ≤ y` := `¬ y < x` -/
theorem intsLt_negTrans : ∀ (a b c : List Int), intsLt b a = false → intsLt c b = false → intsLt c a = false
  | [], _, c, _, _ => by cases c <;> rfl
  | _ :: _, [], _, h, _ => by simp [intsLt] at h
  | _ :: _, _ :: _, [], _, h => by simp [intsLt] at h
  | a :: as, b :: bs, c :: cs, h1, h2 => by
    unfold intsLt at h1 h2 ⊢
    by_cases hba : b < a
    · simp [hba] at h1
    · by_cases hab : a < b
      · by_cases hcb : c < b
        · simp [hcb] at h2
        · have h3 : ¬ c < a := by omega
          have h4 : a < c := by omega
          simp [h3, h4]
      · simp only [hba, hab, if_false] at h1
        have hab' : a = b := by omega
        subst hab'
        by_cases hca : c < a
        · simp [hca] at h2
        · by_cases hac : a < c
          · simp [hca, hac]
          · simp only [hca, hac, if_false] at h2 ⊢
            exact intsLt_negTrans as bs cs h1 h2

theorem chargeLt_asymm (a b : List Int) (h : chargeLt a b = true) : chargeLt b a = false :=
  intsLt_asymm _ _ h

theorem chargeLt_negTrans (a b c : List Int) (h1 : chargeLt b a = false) (h2 : chargeLt c b = false) :
    chargeLt c a = false :=
  intsLt_negTrans _ _ _ h1 h2

/-! ## insertion -/

theorem insertByCharge_perm (q : List (List Int)) (x : Nat) (l : List Nat) :
    (insertByCharge q x l).Perm (x :: l) := by
  induction l with
  | nil => exact List.Perm.refl _
  | cons y ys ih =>
    unfold insertByCharge
    split
    · exact ((List.Perm.cons y ih).trans (List.Perm.swap x y ys))
    · exact List.Perm.refl _

theorem insertByCharge_sorted (q : List (List Int)) (x : Nat) (l : List Nat)
    (h : l.Pairwise (fun x y => chargeLt (q.getD y []) (q.getD x []) = false)) :
    (insertByCharge q x l).Pairwise (fun x y => chargeLt (q.getD y []) (q.getD x []) = false) := by
  induction l with
  | nil => simp [insertByCharge]
  | cons y ys ih =>
    obtain ⟨hy, hys⟩ := List.pairwise_cons.1 h
    unfold insertByCharge
    split
    · rename_i hlt
      refine List.pairwise_cons.2 ⟨?_, ih hys⟩
      intro z hz
      rcases List.mem_cons.1 ((insertByCharge_perm q x ys).mem_iff.1 hz) with rfl | hz'
      · exact chargeLt_asymm _ _ hlt
      · exact hy z hz'
    · rename_i hlt
      have hxy : chargeLt (q.getD y []) (q.getD x []) = false := by simpa using hlt
      refine List.pairwise_cons.2 ⟨?_, h⟩
      intro z hz
      rcases List.mem_cons.1 hz with rfl | hz'
      · exact hxy
      · exact chargeLt_negTrans _ _ _ hxy (hy z hz')

theorem foldr_insert_perm (q : List (List Int)) (l : List Nat) :
    (l.foldr (fun x acc => insertByCharge q x acc) []).Perm l := by
  induction l with
  | nil => exact List.Perm.refl _
  | cons x l ih => exact (insertByCharge_perm q x _).trans (List.Perm.cons x ih)

theorem foldr_insert_sorted (q : List (List Int)) (l : List Nat) :
    (l.foldr (fun x acc => insertByCharge q x acc) []).Pairwise
      (fun x y => chargeLt (q.getD y []) (q.getD x []) = false) := by
  induction l with
  | nil => exact List.Pairwise.nil
  | cons x l ih => exact insertByCharge_sorted q x _ ih

theorem sortPerm_perm (q : List (List Int)) : (sortPerm q).Perm (List.range q.length) :=
  foldr_insert_perm q _

theorem sortPerm_sorted (q : List (List Int)) :
    (sortPerm q).Pairwise (fun x y => chargeLt (q.getD y []) (q.getD x []) = false) :=
  foldr_insert_sorted q _

theorem mem_sortPerm (q : List (List Int)) (k : Nat) : k ∈ sortPerm q ↔ k < q.length := by
  rw [(sortPerm_perm q).mem_iff, List.mem_range]

/-- the new positions of two indices of the leg differ -/
theorem newIdx_sortPerm_inj (q : List (List Int)) (k k' : Nat) (hk : k < q.length)
    (h : newIdx (sortPerm q) k = newIdx (sortPerm q) k') : k = k' :=
  (List.idxOf_inj ((mem_sortPerm q k).2 hk)).1 h

end TenpyModel.Ops
