import TenpyModel.C11.P2_PlusId2
import TenpyModel.Ops.MPO
/-!
# C11 / `plus_identity`, index-level model: the layers of `MPOM.plusIdentity` in closed form

* `piLayerF`   one site of `MPOM.plusIdentity` (before the `from_grids` projection) for arbitrary factors `PFac`
* `modelFac`   the factors the model computes (`pow`, `counter`, `g`, `d`), `modelFac_range'`: for
               `sites = List.range' s0 N` they are `siteFac`
* `piCut`      the finite-bc projection of `MPO.from_grids`; `pathsFrom_piCut`: it does not change the path sum from
               index `0` to the last index
* `plusIdentity_denote`  `denote` of the result as a path sum
-/
namespace TenpyModel.Ops
open MPOM
variable {α : Type}

/-- marker / bond dimension accessors (`0` where undefined) -/
def mL (m : MPOM α) (b : Nat) : Nat := (m.idL.getD b none).getD 0
def mR (m : MPOM α) (b : Nat) : Nat := (m.idR.getD b none).getD 0
def mChi (m : MPOM α) (b : Nat) : Nat := m.chi.getD b 0

def scaledE [Mul α] (l r : Nat) (c : α) (src : List (String × α)) : List (Edge Nat α) :=
  src.map (fun p => ⟨l, r, p.1, c * p.2⟩)

/-- one site of `MPOM.plusIdentity`: rows `[IdL, other…, IdR]`, columns `[IdL, other…, IdR]` -/
def piLayerF [Mul α] (m : MPOM α) (idOp : Nat → List (String × α)) (F : PFac α) (k : Nat) : List (Edge Nat α) :=
  (scaledE 0 0 F.d (idOp k)
    ++ ((m.blocks (k + 1)).other.zipIdx.flatMap (fun rp => scaledE 0 (rp.2 + 1) F.cLO (m.entry k (mL m k) rp.1)))
    ++ scaledE 0 (mChi m (k + 1) - 1) F.cLR (m.entry k (mL m k) (mR m (k + 1)))
    ++ scaledE 0 (mChi m (k + 1) - 1) F.a (idOp k))
  ++ ((m.blocks k).other.zipIdx.flatMap (fun lq =>
      ((m.blocks (k + 1)).other.zipIdx.flatMap (fun rp => scaledE (lq.2 + 1) (rp.2 + 1) F.cOO (m.entry k lq.1 rp.1)))
      ++ scaledE (lq.2 + 1) (mChi m (k + 1) - 1) F.cOR (m.entry k lq.1 (mR m (k + 1)))))
  ++ scaledE (mChi m k - 1) (mChi m (k + 1) - 1) F.g (idOp k)

def piPow [Mul α] [One α] (x : α) (n : Nat) : α := (List.replicate n x).foldl (· * ·) 1

/-- the factors as the model computes them -/
def modelFac [Mul α] [One α] [Zero α] (beta tb ta : α) (sites : List Nat) (k : Nat) : PFac α :=
  let N := sites.length
  let inS := sites.contains k
  let cAfter := (sites.filter (· ≤ k)).length
  let cBefore := if inS then cAfter - 1 else cAfter
  let bb : α := if inS then tb else 1
  ⟨if inS then (if cBefore ≠ N - 1 then 1 else beta) else 1, piPow bb (if inS then cAfter else cAfter), piPow bb N,
    if inS then ta else 0, bb, piPow bb (N - cAfter + 1), if inS then (if cBefore ≠ 0 then 1 else beta) else 1⟩

/-- the finite-bc projection of `MPO.from_grids` -/
def piCut (m : MPOM α) (layers : List (List (Edge Nat α))) : List (List (Edge Nat α)) :=
  let chi0 := m.chi.getD 0 1
  let chiL := m.chi.getD m.L 1
  let layers := if chi0 > 1 then layers.modify 0 (fun l => l.filter (fun e => e.kL = 0)) else layers
  if chiL > 1 then
      layers.modify (m.L - 1) (fun l => (l.filter (fun e => e.kR = chiL - 1)).map (fun e => { e with kR := 0 }))
    else layers

theorem plusIdentity_layers [Mul α] [Add α] [One α] [Zero α] (m : MPOM α) (beta tb ta : α) (sites : List Nat)
    (idOp : Nat → List (String × α)) :
    (m.plusIdentity beta tb ta sites idOp).layers
      = piCut m ((List.range m.L).map (fun k => piLayerF m idOp (modelFac beta tb ta sites k) k)) := rfl

theorem plusIdentity_denote [Mul α] [Add α] [One α] [Zero α] (m : MPOM α) (beta tb ta : α) (sites : List Nat)
    (idOp : Nat → List (String × α)) (hL : 1 ≤ m.L) :
    (m.plusIdentity beta tb ta sites idOp).denote
      = pathsFrom 0 (piCut m ((List.range m.L).map (fun k => piLayerF m idOp (modelFac beta tb ta sites k) k))) 0 := by
  have h1 : (m.plusIdentity beta tb ta sites idOp).idL
      = (List.range (m.L + 1)).map (fun b => if b = m.L ∧ m.chi.getD m.L 1 > 1 then none else some 0) := rfl
  have h2 : (m.plusIdentity beta tb ta sites idOp).idR
      = (List.range (m.L + 1)).map (fun b =>
          if b = 0 ∧ m.chi.getD 0 1 > 1 then none else some (((m.chi.set 0 1).set m.L 1).getD b 1 - 1)) := rfl
  unfold MPOM.denote
  rw [plusIdentity_layers, h1, h2]
  have e1 : ((List.range (m.L + 1)).map (fun b => if b = m.L ∧ m.chi.getD m.L 1 > 1 then none else some 0)).head?
      = some (some 0) := by
    rw [List.head?_map, List.head?_range, if_neg (by omega)]
    have : ¬ (0 = m.L ∧ m.chi.getD m.L 1 > 1) := by omega
    show some (if 0 = m.L ∧ m.chi.getD m.L 1 > 1 then none else some 0) = _
    rw [if_neg this]
  have e3 : ((m.chi.set 0 1).set m.L 1).getD m.L 1 = 1 := by
    rw [List.getD_eq_getElem?_getD, List.getElem?_set_self']
    cases h : (m.chi.set 0 1)[m.L]? <;> simp
  have e2 : ((List.range (m.L + 1)).map (fun b =>
          if b = 0 ∧ m.chi.getD 0 1 > 1 then none else some (((m.chi.set 0 1).set m.L 1).getD b 1 - 1))).getLast?
      = some (some 0) := by
    rw [List.getLast?_map, List.getLast?_range, if_neg (by omega)]
    have : ¬ (m.L + 1 - 1 = 0 ∧ m.chi.getD 0 1 > 1) := by omega
    show some (if m.L + 1 - 1 = 0 ∧ m.chi.getD 0 1 > 1 then none
      else some (((m.chi.set 0 1).set m.L 1).getD (m.L + 1 - 1) 1 - 1)) = _
    rw [if_neg this, Nat.add_sub_cancel, e3]
  rw [e1, e2]

/-! ## the projection of the first / last grid does not change the path sum -/
section cut
variable {κ : Type} [DecidableEq κ] [Semiring α]

theorem pathsFrom_filter_first (fin : κ) (la : List (Edge κ α)) (rest : List (List (Edge κ α))) (k : κ) :
    pathsFrom fin ((la.filter (fun e => e.kL = k)) :: rest) k = pathsFrom fin (la :: rest) k := by
  rw [pathsFrom_cons, pathsFrom_cons]
  induction la with
  | nil => rfl
  | cons e la ih =>
    by_cases h : e.kL = k
    · simp only [List.filter_cons, h, decide_true, if_true, List.flatMap_cons, ih]
    · simp only [List.filter_cons, h, decide_false, List.flatMap_cons, ih, if_false, List.nil_append,
        Bool.false_eq_true]

theorem pathsFrom_cut_last (fin fin' : κ) (la : List (Edge κ α)) (k : κ) :
    pathsFrom fin' [(la.filter (fun e => e.kR = fin)).map (fun e => { e with kR := fin' })] k
      = pathsFrom fin [la] k := by
  simp only [pathsFrom_cons, pathsFrom_nil]
  induction la with
  | nil => rfl
  | cons e la ih =>
    by_cases h : e.kR = fin
    · simp only [List.filter_cons, h, decide_true, if_true, List.map_cons, List.flatMap_cons, ih]
    · simp only [List.filter_cons, h, decide_false, List.flatMap_cons, ih, if_false, Bool.false_eq_true]
      split <;> simp [Sym.consOp]

theorem pathsFrom_modify_last (fin fin' : κ) (g : List (Edge κ α) → List (Edge κ α))
    (hg : ∀ la k, pathsFrom fin' [g la] k = pathsFrom fin [la] k) (layers : List (List (Edge κ α))) (n : Nat)
    (hn : layers.length = n + 1) (k : κ) :
    pathsFrom fin' (layers.modify n g) k = pathsFrom fin layers k := by
  induction layers generalizing n k with
  | nil => simp at hn
  | cons x xs ih =>
    cases n with
    | zero =>
      have : xs = [] := by
        cases xs with
        | nil => rfl
        | cons _ _ => simp at hn
      subst this
      rw [List.modify_zero_cons]
      exact hg x k
    | succ n =>
      rw [List.modify_succ_cons, pathsFrom_cons, pathsFrom_cons]
      have hxs : xs.length = n + 1 := by simpa using hn
      simp only [ih n hxs]

end cut

theorem pathsFrom_piCut [Semiring α] (m : MPOM α) (layers : List (List (Edge Nat α))) (hL : 1 ≤ m.L)
    (hlen : layers.length = m.L) (h0 : 1 < m.chi.getD 0 1) (hLc : 1 < m.chi.getD m.L 1) :
    pathsFrom 0 (piCut m layers) 0 = pathsFrom (m.chi.getD m.L 1 - 1) layers 0 := by
  unfold piCut
  simp only [gt_iff_lt, if_pos h0, if_pos hLc]
  rw [pathsFrom_modify_last (m.chi.getD m.L 1 - 1) 0 _
    (fun la k => pathsFrom_cut_last (m.chi.getD m.L 1 - 1) 0 la k) _ (m.L - 1)
    (by rw [List.length_modify]; omega)]
  cases layers with
  | nil => simp at hlen; omega
  | cons x xs => rw [List.modify_zero_cons, pathsFrom_filter_first]

/-! ## the model's factors for a contiguous block -/
section fac
variable [CommSemiring α]

theorem piPow_eq (x : α) (n : Nat) : piPow x n = x ^ n := foldl_mul_replicate x n

theorem length_filter_le_range' (s0 N k : Nat) :
    ((List.range' s0 N).filter (· ≤ k)).length = min (k + 1 - s0) N := by
  induction N generalizing s0 with
  | zero => simp
  | succ N ih =>
    rw [List.range'_succ, List.filter_cons]
    by_cases h : s0 ≤ k
    · simp only [h, decide_true, if_true, List.length_cons, ih]; omega
    · simp only [h, decide_false, ih, if_false, Bool.false_eq_true]; omega

theorem modelFac_range' (beta tb ta : α) (s0 N k : Nat) :
    modelFac beta tb ta (List.range' s0 N) k = siteFac beta tb ta s0 N k := by
  unfold modelFac siteFac
  simp only [List.length_range', length_filter_le_range', piPow_eq, ite_self]
  by_cases hin : s0 ≤ k ∧ k < s0 + N
  · have hc : (List.range' s0 N).contains k = true := by
      rw [List.contains_iff_mem, List.mem_range'_1]; exact hin
    have e1 : min (k + 1 - s0) N = k - s0 + 1 := by omega
    rw [if_pos hin]
    simp only [hc, if_true, e1, Nat.add_sub_cancel]
    congr 1
    · by_cases h : k + 1 = s0 + N
      · rw [if_pos h, if_neg (by omega)]
      · rw [if_neg h, if_pos (by omega)]
    · by_cases h : k = s0
      · rw [if_pos h, if_neg (by omega)]
      · rw [if_neg h, if_pos (by omega)]
  · have hc : (List.range' s0 N).contains k = false := by
      rw [← Bool.not_eq_true, List.contains_iff_mem, List.mem_range'_1]; exact hin
    rw [if_neg hin]
    simp only [hc, if_false, Bool.false_eq_true, one_pow]

end fac
end TenpyModel.Ops
