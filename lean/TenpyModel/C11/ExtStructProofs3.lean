import TenpyModel.C11.ExtStructProofs2
/-!
# C11 extension, proofs 3: `group_sites` — the grouped MPO denotes the same list of summands with the
names of every group joined
-/
namespace TenpyModel.Ops

variable {α : Type} [Semiring α]

/-! ## helpers on `consOp` / `flatMap` -/

theorem map_consOp (F : OpStr → OpStr) (op : String) (c : α) (s : Sym α) :
    (Sym.consOp op c s).map (fun p => (F p.1, p.2)) = s.map (fun p => (F (op :: p.1), c * p.2)) := by
  simp [Sym.consOp, List.map_map, Function.comp_def]

theorem consOp_flatMap {β : Type} (op : String) (c : α) (l : List β) (f : β → Sym α) :
    Sym.consOp op c (l.flatMap f) = l.flatMap (fun x => Sym.consOp op c (f x)) := by
  simp [Sym.consOp, List.map_flatMap]

theorem flatMap_filter_eq {β γ : Type} (l : List β) (p : β → Bool) (f : β → List γ) :
    (l.filter p).flatMap f = l.flatMap (fun x => if p x then f x else []) := by
  induction l with
  | nil => rfl
  | cons x l ih =>
    rw [List.filter_cons]
    cases h : p x <;> simp [ih, h]

theorem pathsFrom_length_eq_layers (fin : Nat) (layers : List (List (Edge Nat α))) (k : Nat) :
    ∀ p ∈ pathsFrom fin layers k, p.1.length = layers.length := by
  induction layers generalizing k with
  | nil =>
    intro p hp
    rw [pathsFrom_nil] at hp
    split at hp
    · simp at hp; subst hp; rfl
    · simp at hp
  | cons lay rest ih =>
    intro p hp
    rw [pathsFrom_cons, List.mem_flatMap] at hp
    obtain ⟨e, _, hp⟩ := hp
    split at hp
    · obtain ⟨p', hp', rfl⟩ := List.mem_map.1 hp
      simp [ih e.kR p' hp']
    · simp at hp

/-! ## two layers -/

/-- join the first two names -/
def joinHead2 (join : String → String → String) : OpStr → OpStr
  | a :: b :: t => join a b :: t
  | t => t

theorem pathsFrom_composeLayer (join : String → String → String) (fin : Nat)
    (l1 l2 : List (Edge Nat α)) (rest : List (List (Edge Nat α))) (k : Nat) :
    pathsFrom fin (composeLayer join l1 l2 :: rest) k =
      (pathsFrom fin (l1 :: l2 :: rest) k).map (fun p => (joinHead2 join p.1, p.2)) := by
  rw [pathsFrom_cons, pathsFrom_cons, composeLayer, List.flatMap_assoc, List.map_flatMap]
  apply List.flatMap_congr
  intro e1 _
  rw [List.flatMap_map]
  by_cases h : e1.kL = k
  · simp only [h, if_true]
    rw [pathsFrom_cons, consOp_flatMap, List.map_flatMap, flatMap_filter_eq]
    apply List.flatMap_congr
    intro e2 _
    by_cases h2 : e2.kL = e1.kR
    · simp only [h2, decide_true, if_true]
      simp [Sym.consOp, List.map_map, Function.comp_def, joinHead2, mul_assoc]
    · simp [h2, Sym.consOp]
  · simp [h]

/-! ## one group -/

/-- join the first `n` names -/
def joinHead (join : String → String → String) (n : Nat) (t : OpStr) : OpStr :=
  (match t.take n with
   | [] => ""
   | x :: xs => xs.foldl join x) :: t.drop n

theorem joinHead_joinHead2 (join : String → String → String) (n : Nat) (t : OpStr) :
    joinHead join (n + 1) (joinHead2 join t) = joinHead join (n + 2) t := by
  match t with
  | [] => rfl
  | [a] => simp [joinHead, joinHead2]
  | a :: b :: t => simp [joinHead, joinHead2]

theorem pathsFrom_composeGroup (join : String → String → String) (fin : Nat)
    (ls : List (List (Edge Nat α))) :
    ∀ (l : List (Edge Nat α)) (rest : List (List (Edge Nat α))) (k : Nat),
    pathsFrom fin (composeGroup join (l :: ls) :: rest) k =
      (pathsFrom fin (l :: ls ++ rest) k).map (fun p => (joinHead join (ls.length + 1) p.1, p.2)) := by
  induction ls with
  | nil =>
    intro l rest k
    show pathsFrom fin (l :: rest) k = List.map _ (pathsFrom fin (l :: rest) k)
    rw [pathsFrom_cons, List.map_flatMap]
    apply List.flatMap_congr
    intro e _
    split
    · rw [map_consOp]
      simp [Sym.consOp, joinHead]
    · rfl
  | cons l2 ls ih =>
    intro l rest k
    have h1 : composeGroup join (l :: l2 :: ls) = composeGroup join (composeLayer join l l2 :: ls) := rfl
    rw [h1, ih, List.cons_append, pathsFrom_composeLayer, List.map_map]
    apply List.map_congr_left
    intro p _
    simp only [Function.comp_apply, List.length_cons]
    rw [joinHead_joinHead2]

/-! ## a relabelled tail -/

theorem pathsFrom_append_map (fin : Nat) (F : OpStr → OpStr) (G : List (List (Edge Nat α)))
    (R D : List (List (Edge Nat α)))
    (h : ∀ k, pathsFrom fin R k = (pathsFrom fin D k).map (fun p => (F p.1, p.2))) :
    ∀ k, pathsFrom fin (G ++ R) k =
      (pathsFrom fin (G ++ D) k).map (fun p => (p.1.take G.length ++ F (p.1.drop G.length), p.2)) := by
  induction G with
  | nil =>
    intro k
    simpa using h k
  | cons lay G ih =>
    intro k
    rw [List.cons_append, List.cons_append, pathsFrom_cons, pathsFrom_cons, List.map_flatMap]
    apply List.flatMap_congr
    intro e _
    split
    · rw [ih e.kR]
      simp [Sym.consOp, List.map_map, Function.comp_def]
    · rfl

/-! ## all groups -/

theorem regroupStr_cons (join : String → String → String) (s : Nat) (ss : List Nat) (t : OpStr)
    (h : s ≤ t.length) :
    joinHead join s (t.take s ++ regroupStr join ss (t.drop s)) = regroupStr join (s :: ss) t := by
  have h1 : (t.take s).length = s := by simp [h]
  simp only [joinHead, regroupStr]
  rw [List.take_left' h1, List.drop_left' h1]
  cases t.take s <;> rfl

theorem pathsFrom_groupLayers (join : String → String → String) (fin : Nat) (szs : List Nat) :
    ∀ (layers : List (List (Edge Nat α))), (∀ s ∈ szs, 0 < s) → szs.sum = layers.length → ∀ k,
    pathsFrom fin (groupLayers join szs layers) k =
      (pathsFrom fin layers k).map (fun p => (regroupStr join szs p.1, p.2)) := by
  induction szs with
  | nil =>
    intro layers _ hsum k
    have : layers = [] := List.eq_nil_of_length_eq_zero (by simpa using hsum.symm)
    subst this
    simp only [groupLayers, pathsFrom_nil]
    split <;> simp [regroupStr]
  | cons s ss ih =>
    intro layers hpos hsum k
    have hs : 0 < s := hpos s (by simp)
    rw [List.sum_cons] at hsum
    have hle : s ≤ layers.length := by omega
    have hG : (layers.take s).length = s := by simp [hle]
    have hD := ih (layers.drop s) (fun x hx => hpos x (by simp [hx])) (by simp; omega)
    obtain ⟨l, ls, hGeq⟩ : ∃ l ls, layers.take s = l :: ls := by
      cases hc : layers.take s with
      | nil => rw [hc] at hG; simp at hG; omega
      | cons l ls => exact ⟨l, ls, rfl⟩
    have hlen : ls.length + 1 = s := by rw [← hG, hGeq]; rfl
    have hsplit : layers = (l :: ls) ++ layers.drop s := by rw [← hGeq, List.take_append_drop]
    show pathsFrom fin (composeGroup join (layers.take s) :: groupLayers join ss (layers.drop s)) k = _
    rw [hGeq, pathsFrom_composeGroup,
      pathsFrom_append_map fin (regroupStr join ss) (l :: ls) _ (layers.drop s) hD k, ← hsplit,
      List.map_map]
    apply List.map_congr_left
    intro p hp
    have hpl := pathsFrom_length_eq_layers fin layers k p hp
    simp only [Function.comp_apply, List.length_cons, hlen]
    rw [regroupStr_cons join s ss p.1 (by omega)]

/-! ## the markers of the grouped MPO -/

theorem getLast?_groupEnds {β : Type} (F : Nat → β) (szs : List Nat) :
    ∀ (i : Nat) (d : β), (d :: ((groupStarts i szs).zip szs).map (fun (p : Nat × Nat) => F (p.1 + p.2))).getLast? =
      some (if szs = [] then d else F (i + szs.sum)) := by
  induction szs with
  | nil => intro i d; rfl
  | cons s ss ih =>
    intro i d
    simp only [groupStarts, List.zip_cons_cons, List.map_cons]
    rw [List.getLast?_cons_cons, ih (i + s) (F (i + s))]
    by_cases h : ss = []
    · subst h; simp
    · simp [h, Nat.add_assoc]

theorem group_sites_denote (join : String → String → String) (m : MPOM α) (n : Nat)
    (sizes : Option (List Nat)) (g : MPOM α) (h : GroupHyp m n sizes)
    (hg : m.groupSites join n sizes = some g) :
    g.denote = m.denote.map (fun p => (regroupStr join (sizes.getD (groupSizes m.L n)) p.1, p.2)) := by
  have hn : n ≠ 0 := Nat.pos_iff_ne_zero.1 h.npos
  unfold MPOM.groupSites at hg
  rw [if_neg hn] at hg
  simp only at hg
  split at hg
  · exact absurd hg (by simp)
  have hg' := (Option.some.inj hg).symm
  clear hg
  have hpos := h.pos
  have hsum := h.sum
  generalize hszs : sizes.getD (groupSizes m.L n) = szs at hg' hpos hsum ⊢
  have hne : szs ≠ [] := by
    intro h0; rw [h0] at hsum; have := h.Lpos; simp at hsum; omega
  have hL : m.idL.head? = some (m.idL.getD 0 none) := head?_eq_some_getD _ _ (by rw [h.idL]; omega)
  have hR : m.idR.getLast? = some (m.idR.getD m.L none) := getLast?_eq_some_getD _ _ _ h.idR
  have hgL : g.idL.head? = some (m.idL.getD 0 none) := by
    rw [hg']
    cases szs with
    | nil => exact absurd rfl hne
    | cons s ss => simp [groupStarts]
  have hgR : g.idR.getLast? = some (m.idR.getD m.L none) := by
    rw [hg']
    show (m.idR.headD none :: ((groupStarts 0 szs).zip szs).map
      (fun (p : Nat × Nat) => m.idR.getD (p.1 + p.2) none)).getLast? = _
    rw [getLast?_groupEnds (fun j => m.idR.getD j none) szs 0, if_neg hne, hsum, Nat.zero_add]
  have hlay : g.layers = groupLayers join szs m.layers := by rw [hg']
  unfold MPOM.denote
  rw [hgL, hgR, hL, hR, hlay]
  cases m.idL.getD 0 none with
  | none => rfl
  | some l =>
    cases m.idR.getD m.L none with
    | none => rfl
    | some r =>
      exact pathsFrom_groupLayers join r szs m.layers hpos (by rw [hsum, h.layers]) l

end TenpyModel.Ops
