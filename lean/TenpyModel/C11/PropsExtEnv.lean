import TenpyModel.C11.ExtEnvProofs
/-!
# C11 — extension round, property theorems 1: `MPOEnvironment.full_contraction`,
`MPO.expectation_value_finite`, `MPO.variance`

Model: `C11/ExtEnv.lean`; helper lemmas: `C11/ExtEnvProofs.lean`.  `tri mel cj s t u` is the matrix element
`<s| t |u>` of a formal sum of operator strings between two formal sums of basis strings; the state of an MPS is
the path sum of its tensors (`MPSM.state`), the operator of an MPO is `MPOM.denote`.
-/
open TenpyModel.Ops

/-- **`MPOEnvironment.full_contraction(i0)`** for finite boundary conditions, any cut `i0`, any bra and ket
(any bond dimensions, any tensors — no canonical form assumed), an MPO without `explicit_plus_hc`: the value
`inner(S·LP[i0+1]·S, RP[i0])` obtained by contracting the `A` tensors from the left and the `B` tensors from
the right is the matrix element of the operator denoted by the MPO between the states that the mixed form
`A[0] … A[i0]·S  B[i0+1] … B[L-1]` of bra and ket denotes. -/
theorem C11_full_contraction {α : Type} [CommSemiring α] [DecidableEq α] (mel : String → String → String → α)
    (cj : α →+* α) (e : Env α) (h : EnvHyp e) (hp : e.plusHc = false) (i0 : Nat) (hi : i0 < e.H.L) :
    Env.fullContraction mel cj e i0
      = some (tri mel cj (e.bra.state i0) e.H.denote (e.ket.state i0)) :=
  full_contraction_spec mel cj e h hp i0 hi

/-- **`MPO.expectation_value_finite(psi)`** = `<psi| H |psi>` for the dense operator `H` the MPO denotes and
the state the tensors of `psi` denote (`theta[0] B[1] … B[L-1]`). -/
theorem C11_expectation_value_finite {α : Type} [CommSemiring α] [DecidableEq α]
    (mel : String → String → String → α) (cj : α →+* α) (m : MPOM α) (psi : MPSM α)
    (h : EnvHyp ⟨psi, m, psi, false⟩) (hL : 0 < m.L) :
    m.expectationValueFinite mel cj false psi = some (tri mel cj (psi.state 0) m.denote (psi.state 0)) :=
  full_contraction_spec mel cj ⟨psi, m, psi, false⟩ h rfl 0 hL

/-- **`explicit_plus_hc`**: for an MPO flagged "plus hermitian conjugate" and `bra = ket`, `res + conj(res)` is
the expectation value of `H + H†` (`Sym.dagger`: names by `hc`, coefficients by `cj`), provided the local
matrix elements satisfy `<p| hc(o) |q> = conj <q| o |p>` and `cj` is an involution. -/
theorem C11_expectation_value_plus_hc {α : Type} [CommSemiring α] [DecidableEq α]
    (mel : String → String → String → α) (cj : α →+* α) (hc : String → String)
    (hmel : ∀ o p q, mel (hc o) p q = cj (mel o q p)) (hcj : ∀ x, cj (cj x) = x)
    (m : MPOM α) (psi : MPSM α) (h : EnvHyp ⟨psi, m, psi, true⟩) (hL : 0 < m.L) :
    m.expectationValueFinite mel cj true psi
      = some (tri mel cj (psi.state 0) (m.denote ++ Sym.dagger hc cj m.denote) (psi.state 0)) :=
  expectation_value_plus_hc_spec mel cj hc hmel hcj m psi h hL

/-- the matrix element depends on the operator only through its coefficients: two formal sums that denote the
same operator (`Sym.Equiv`) have the same matrix elements — so every coefficient-level theorem of C11
(`C11_add_indices`, `C11_plus_identity`, `C11_sort_legcharges`, …) carries over to expectation values. -/
theorem C11_matrix_element_congr {α : Type} [CommSemiring α] (mel : String → String → String → α)
    (cj : α →+* α) (s u t t' : Sym α) (h : Sym.Equiv t t') :
    tri mel cj s t u = tri mel cj s t' u :=
  tri_congr_mid mel cj s u t t' h

/-- **expectation value of a sum**: `<psi| A + B |psi> = <psi| A |psi> + <psi| B |psi>` for `MPO.__add__` on
integer indices (`C11_add_indices`) and `expectation_value_finite`. -/
theorem C11_expectation_value_add {α : Type} [CommSemiring α] [DecidableEq α]
    (mel : String → String → String → α) (cj : α →+* α) (a b : MPOM α) (hab : AddHyp a b) (psi : MPSM α)
    (ha : EnvHyp ⟨psi, a, psi, false⟩) (hb : EnvHyp ⟨psi, b, psi, false⟩)
    (hs : EnvHyp ⟨psi, MPOM.add a b, psi, false⟩) (hL : 0 < a.L) (x y z : α)
    (hx : a.expectationValueFinite mel cj false psi = some x)
    (hy : b.expectationValueFinite mel cj false psi = some y)
    (hz : (MPOM.add a b).expectationValueFinite mel cj false psi = some z) : z = x + y :=
  expectation_value_add_spec mel cj a b hab psi ha hb hs hL x y z hx hy hz

/-- **`MPO.variance`**: the two-layer contraction is `<psi| H·H |psi>` (`quad`: the local matrix elements of
the product are `Σ_r <p|o2|r><r|o1|q>` over the basis names of the site) for the state `theta[0] B[1] …`, and
`variance = <H H> - <H>²`. -/
theorem C11_variance {α : Type} [CommRing α] [DecidableEq α] (mel : String → String → String → α)
    (cj : α →+* α) (names : Nat → List String) (m : MPOM α) (psi : MPSM α)
    (h : EnvHyp ⟨psi, m, psi, false⟩) (hL : 0 < m.L) :
    m.varianceContr mel cj names psi
        = some (quad mel cj names psi.thetaState m.denote m.denote psi.thetaState) ∧
    m.variance mel cj names true false psi
        = some (quad mel cj names psi.thetaState m.denote m.denote psi.thetaState
                - tri mel cj (psi.state 0) m.denote (psi.state 0)
                  * tri mel cj (psi.state 0) m.denote (psi.state 0)) :=
  variance_spec mel cj names m psi h hL

/-- what the implementation rejects is rejected: no `IdL[0]` / `IdR[L]` (`RuntimeError` in `init_LP` /
`init_RP`), a site index outside the chain; `variance` for infinite MPOs, flagged MPOs, different lengths -/
theorem C11_env_rejects {α : Type} [CommRing α] [DecidableEq α] (mel : String → String → String → α)
    (cj : α → α) (names : Nat → List String) (e : Env α) (m : MPOM α) (psi : MPSM α) (i0 : Nat) :
    (e.H.idL.getD 0 none = none → Env.fullContraction mel cj e i0 = none) ∧
    (e.H.idR.getD e.H.L none = none → Env.fullContraction mel cj e i0 = none) ∧
    (e.H.L ≤ i0 → Env.fullContraction mel cj e i0 = none) ∧
    m.variance mel cj names false false psi = none ∧ m.variance mel cj names true true psi = none :=
  env_rejects mel cj names e m psi i0

/-! ## non-vacuity: concrete chains meet the hypotheses; the executable model run by `decide` -/
namespace C11ExtEnvEx
section examples

/-- matrix units as names: `<p| "a,b" |q> = δ_pa δ_qb` -/
def melU (o p q : String) : Int := if o = p ++ "," ++ q then 1 else 0

/-- `H = X_0 + 2 Z_0 Z_1` on two sites in matrix units (`X = E01 + E10`, `Z = E00 - E11`) -/
def H : MPOM Int := ⟨2,
  [[⟨0,0,"0,0",1⟩,⟨0,0,"1,1",1⟩, ⟨0,2,"0,1",1⟩,⟨0,2,"1,0",1⟩, ⟨0,1,"0,0",2⟩,⟨0,1,"1,1",-2⟩,
    ⟨2,2,"0,0",1⟩,⟨2,2,"1,1",1⟩],
   [⟨0,0,"0,0",1⟩,⟨0,0,"1,1",1⟩, ⟨1,2,"0,0",1⟩,⟨1,2,"1,1",-1⟩, ⟨2,2,"0,0",1⟩,⟨2,2,"1,1",1⟩]],
  [3,3,3], [some 0, some 0, some 0], [some 2, some 2, some 2]⟩

def lay0 : List (Edge Nat Int) := [⟨0,0,"0",1⟩,⟨0,1,"1",2⟩,⟨0,1,"0",-1⟩]
def lay1 : List (Edge Nat Int) := [⟨0,0,"0",3⟩,⟨1,0,"1",1⟩,⟨1,0,"0",1⟩]
def layM : List (Edge Nat Int) := [⟨0,0,"0",1⟩,⟨0,1,"1",1⟩,⟨1,0,"1",2⟩,⟨1,1,"0",-1⟩]

/-- a two-site MPS with bond dimensions `1, 2, 1` (not normalised, not canonical) -/
def psi : MPSM Int := ⟨[lay0, lay1], [lay0, lay1], [[1],[1,1],[1]], [1,2,1]⟩

/-- a three-site MPS with bond dimensions `1, 2, 2, 1` and non-trivial "singular values" -/
def psi3 : MPSM Int := ⟨[lay0, layM, lay1], [lay0, layM, lay1], [[1],[1,2],[3,1],[1]], [1,2,2,1]⟩

/-- named operators with real symmetric matrices (`hc = id`, `cj = id`) -/
def melS (o p q : String) : Int :=
  if o = "Z" then (if p = q then (if p = "0" then 1 else -1) else 0)
  else if o = "X" then (if p = q then 0 else 1)
  else if o = "W" then (if p = q then 2 else 1)
  else (if p = q then 1 else 0)

/-- `X_0 + 2 Z_0 Z_1` with operator names -/
def H2 : MPOM Int := ⟨2,
  [[⟨0,0,"Id",1⟩, ⟨0,2,"X",1⟩, ⟨0,1,"Z",2⟩, ⟨2,2,"Id",1⟩],
   [⟨0,0,"Id",1⟩, ⟨1,2,"Z",1⟩, ⟨2,2,"Id",1⟩]],
  [3,3,3], [some 0, some 0, some 0], [some 2, some 2, some 2]⟩

theorem hyp_H : EnvHyp (⟨psi, H, psi, false⟩ : Env Int) := by constructor <;> decide
theorem hyp_H2 : EnvHyp (⟨psi, H2, psi, true⟩ : Env Int) := by constructor <;> decide
theorem hyp_A3 : EnvHyp (⟨psi3, exA3, psi3, false⟩ : Env Int) := by constructor <;> decide
theorem hyp_B3 : EnvHyp (⟨psi3, exB3, psi3, false⟩ : Env Int) := by constructor <;> decide
theorem hyp_AB3 : EnvHyp (⟨psi3, MPOM.add exA3 exB3, psi3, false⟩ : Env Int) := by constructor <;> decide

/-! `C11_full_contraction`: instances of the theorem (every cut), and the same computed -/
example : Env.fullContraction melU (RingHom.id Int) ⟨psi, H, psi, false⟩ 1
    = some (tri melU (RingHom.id Int) (psi.state 1) H.denote (psi.state 1)) :=
  C11_full_contraction melU (RingHom.id Int) _ hyp_H rfl 1 (by decide)
example : Env.fullContraction melS (RingHom.id Int) ⟨psi3, exA3, psi3, false⟩ 1
    = some (tri melS (RingHom.id Int) (psi3.state 1) exA3.denote (psi3.state 1)) :=
  C11_full_contraction melS (RingHom.id Int) _ hyp_A3 rfl 1 (by decide)
example : Env.fullContraction melU id ⟨psi, H, psi, false⟩ 0 = some 10 := by decide +kernel
example : Env.fullContraction melU id ⟨psi, H, psi, false⟩ 1 = some 10 := by decide +kernel
example : tri melU id (psi.state 0) H.denote (psi.state 0) = 10 := by decide +kernel
example : tri melU id (psi.state 1) H.denote (psi.state 1) = 10 := by decide +kernel
/-- stored `A`, `B`, `S` need not be consistent: every cut `i0` is matched by its own mixed form -/
example : Env.fullContraction melS id ⟨psi3, exA3, psi3, false⟩ 1 = some (-5527) ∧
    tri melS id (psi3.state 1) exA3.denote (psi3.state 1) = -5527 ∧
    Env.fullContraction melS id ⟨psi3, exA3, psi3, false⟩ 2 = some (-535) ∧
    tri melS id (psi3.state 2) exA3.denote (psi3.state 2) = -535 := by decide +kernel

/-! `C11_expectation_value_finite` -/
example : H.expectationValueFinite melU (RingHom.id Int) false psi
    = some (tri melU (RingHom.id Int) (psi.state 0) H.denote (psi.state 0)) :=
  C11_expectation_value_finite melU (RingHom.id Int) H psi hyp_H (by decide)
example : H.expectationValueFinite melU id false psi = some 10 := by decide +kernel

/-! `C11_expectation_value_plus_hc`: the hypotheses on the local matrix elements hold for `melS` -/
theorem melS_symm (o p q : String) : melS (id o) p q = RingHom.id Int (melS o q p) := by
  by_cases h : p = q
  · subst h; rfl
  · have h' : ¬ q = p := fun e => h e.symm
    simp [melS, h, h']
example : H2.expectationValueFinite melS (RingHom.id Int) true psi
    = some (tri melS (RingHom.id Int) (psi.state 0) (H2.denote ++ Sym.dagger id (RingHom.id Int) H2.denote)
        (psi.state 0)) :=
  C11_expectation_value_plus_hc melS (RingHom.id Int) id melS_symm (fun _ => rfl) H2 psi hyp_H2 (by decide)
example : H2.expectationValueFinite melS id true psi = some 20 ∧
    H2.expectationValueFinite melS id false psi = some 10 := by decide +kernel

/-! `C11_matrix_element_congr` -/
example (s u a b : Sym Int) :
    tri melS (RingHom.id Int) s (a ++ b) u = tri melS (RingHom.id Int) s (b ++ a) u :=
  C11_matrix_element_congr melS (RingHom.id Int) s u _ _ (Sym.Equiv.append_comm a b)
example : tri melS id (psi.state 0) [(["X", "Id"], 1), (["Z", "Z"], 2), (["X", "Id"], 3)] (psi.state 0)
    = tri melS id (psi.state 0) [(["Z", "Z"], 2), (["X", "Id"], 4)] (psi.state 0) := by decide +kernel

/-! `C11_expectation_value_add`: the operands of the `C11_add_indices` example (full + partial markers) -/
example (x y z : Int) (hx : exA3.expectationValueFinite melS (RingHom.id Int) false psi3 = some x)
    (hy : exB3.expectationValueFinite melS (RingHom.id Int) false psi3 = some y)
    (hz : (MPOM.add exA3 exB3).expectationValueFinite melS (RingHom.id Int) false psi3 = some z) :
    z = x + y :=
  C11_expectation_value_add melS (RingHom.id Int) exA3 exB3 exAB_hyp psi3 hyp_A3 hyp_B3 hyp_AB3 (by decide)
    x y z hx hy hz
example : exA3.expectationValueFinite melS id false psi3 = some (-2469) ∧
    exB3.expectationValueFinite melS id false psi3 = some 16677 ∧
    (MPOM.add exA3 exB3).expectationValueFinite melS id false psi3 = some 14208 := by decide +kernel

/-! `C11_variance` -/
example : H.varianceContr melU (RingHom.id Int) (fun _ => ["0", "1"]) psi
      = some (quad melU (RingHom.id Int) (fun _ => ["0", "1"]) psi.thetaState H.denote H.denote psi.thetaState) :=
  (C11_variance melU (RingHom.id Int) (fun _ => ["0", "1"]) H psi hyp_H (by decide)).1
example : H.varianceContr melU id (fun _ => ["0", "1"]) psi = some 65 := by decide +kernel
example : quad melU id (fun _ => ["0", "1"]) psi.thetaState H.denote H.denote psi.thetaState = 65 := by
  decide +kernel
example : H.variance melU id (fun _ => ["0", "1"]) true false psi = some (-35) := by decide +kernel

/-! `C11_env_rejects` -/
example : Env.fullContraction melU id ⟨psi, { H with idL := [none, some 0, some 0] }, psi, false⟩ 0 = none ∧
    Env.fullContraction melU id ⟨psi, { H with idR := [some 2, some 2, none] }, psi, false⟩ 0 = none ∧
    Env.fullContraction melU id ⟨psi, H, psi, false⟩ 2 = none ∧
    H.variance melU id (fun _ => ["0", "1"]) false false psi = none ∧
    H.variance melU id (fun _ => ["0", "1"]) true true psi = none ∧
    H.variance melU id (fun _ => ["0", "1"]) true false psi3 = none := by decide +kernel

end examples
end C11ExtEnvEx
