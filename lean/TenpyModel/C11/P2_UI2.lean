import TenpyModel.C11.P2_UI1
/-!
# C11 / `make_U_I` on integer indices, part 2: induction over the sites with per-bond markers

Sites are given by a function `lay : Nat → layer`, markers by `lf rf : Nat → Nat` (bond `b` ↦ `IdL[b]`,
`IdR[b]`).  `hFrom lay i n` = Hamiltonian layers of the sites `i, …, i+n-1`, `uFrom lay lf rf i n` = the
`W_I` layers of the same sites.  Suffix sums from the right end (`ui_idx_first_order`):
* Hamiltonian from `IdR[i]`: the identity string;
* propagator from `IdLR[i]`: `fst` = identity string, `snd` = suffix of `H` from `IdL[i]`;
* propagator from another (shifted) state `k`: `fst = 0`, `snd` = suffix of `H` from `k`.
-/
namespace TenpyModel.Ops
open TrivSqZeroExt DualNumber

variable {α : Type} [CommSemiring α]

/-- standard form of site `i` w.r.t. the markers `(l0, r0)` of its left and `(l1, r1)` of its right bond -/
structure StdSite (l0 r0 l1 r1 : Nat) (la : List (Edge Nat α)) : Prop where
  /-- nothing enters `IdL[i+1]` except from `IdL[i]` -/
  intoL : ∀ e ∈ la, e.kR = l1 → e.kL = l0
  /-- nothing leaves `IdR[i]` except to `IdR[i+1]` -/
  fromR : ∀ e ∈ la, e.kL = r0 → e.kR = r1
  /-- the entry `IdL[i] → IdL[i+1]` is the identity -/
  idL : ∀ op, entryCoeff la l0 l1 op = if op = "Id" then 1 else 0
  /-- the entry `IdR[i] → IdR[i+1]` is the identity -/
  idR : ∀ op, entryCoeff la r0 r1 op = if op = "Id" then 1 else 0

def hFrom (lay : Nat → List (Edge Nat α)) (i n : Nat) : List (List (Edge Nat α)) :=
  (List.range' i n).map lay

def uFrom (lay : Nat → List (Edge Nat α)) (lf rf : Nat → Nat) (i n : Nat) :
    List (List (Edge Nat (DualNumber α))) :=
  (List.range' i n).map (fun j =>
    uiSite (rf j) (rf (j + 1)) (lf (j + 1)) (ε : DualNumber α) ((lay j).map liftEdge))

omit [CommSemiring α] in
theorem hFrom_succ (lay : Nat → List (Edge Nat α)) (i n : Nat) :
    hFrom lay i (n + 1) = lay i :: hFrom lay (i + 1) n := by
  simp [hFrom, List.range'_succ]

theorem uFrom_succ (lay : Nat → List (Edge Nat α)) (lf rf : Nat → Nat) (i n : Nat) :
    uFrom lay lf rf i (n + 1) =
      uiSite (rf i) (rf (i + 1)) (lf (i + 1)) (ε : DualNumber α) ((lay i).map liftEdge)
        :: uFrom lay lf rf (i + 1) n := by
  simp [uFrom, List.range'_succ]

theorem coeff_idStr_succ (n : Nat) (op : String) (t : OpStr) :
    coeff [(idStr (n + 1), (1 : α))] (op :: t)
      = (if op = "Id" then 1 else 0) * coeff [(idStr n, (1 : α))] t := by
  rw [idStr_succ', coeff_singleton, coeff_singleton]
  by_cases h1 : op = "Id"
  · subst h1
    by_cases h2 : idStr n = t
    · simp [h2]
    · simp [h2]
  · have : ¬ ("Id" :: idStr n = op :: t) := fun hh => h1 (List.cons.inj hh).1.symm
    simp [h1, this]

/-- suffix sum of the Hamiltonian from `IdR`: only the `IdR[i] → IdR[i+1]` entry matters -/
theorem coeff_from_r2 (r0 r1 fin : Nat) (la : List (Edge Nat α)) (as : List (List (Edge Nat α)))
    (h : ∀ e ∈ la, e.kL = r0 → e.kR = r1) (op : String) (t : OpStr) :
    coeff (pathsFrom fin (la :: as) r0) (op :: t) = entryCoeff la r0 r1 op * coeff (pathsFrom fin as r1) t := by
  rw [coeff_pathsFrom_cons, entryCoeff, ← sum_map_mul_right'']
  apply sum_congr_map
  intro e he
  by_cases h1 : e.kL = r0
  · have h2 := h e he h1
    by_cases h3 : e.op = op
    · simp [h1, h2, h3]
    · simp [h3]
  · simp [h1]

/-- the three suffix statements for the sites `i, …, i+n-1` of a chain whose last bond is `N = i + n` -/
def UISuffix (lay : Nat → List (Edge Nat α)) (lf rf : Nat → Nat) (N i n : Nat) : Prop :=
  (∀ t, coeff (pathsFrom (rf N) (hFrom lay i n) (rf i)) t = coeff [(idStr n, (1 : α))] t) ∧
  (∀ t, (coeff (pathsFrom (shiftIdx (rf N) (lf N)) (uFrom lay lf rf i n) (shiftIdx (rf i) (lf i))) t).fst
          = coeff [(idStr n, (1 : α))] t ∧
        (coeff (pathsFrom (shiftIdx (rf N) (lf N)) (uFrom lay lf rf i n) (shiftIdx (rf i) (lf i))) t).snd
          = coeff (pathsFrom (rf N) (hFrom lay i n) (lf i)) t) ∧
  (∀ k, k ≠ lf i → k ≠ rf i → ∀ t,
        (coeff (pathsFrom (shiftIdx (rf N) (lf N)) (uFrom lay lf rf i n) (shiftIdx (rf i) k)) t).fst = 0 ∧
        (coeff (pathsFrom (shiftIdx (rf N) (lf N)) (uFrom lay lf rf i n) (shiftIdx (rf i) k)) t).snd
          = coeff (pathsFrom (rf N) (hFrom lay i n) k) t)

theorem uiSuffix_zero (lay : Nat → List (Edge Nat α)) (lf rf : Nat → Nat) (N : Nat) (hne : lf N ≠ rf N) :
    UISuffix lay lf rf N N 0 := by
  refine ⟨fun t => by simp [hFrom, idStr], fun t => ?_, fun k hk1 hk2 t => ?_⟩
  · simp only [uFrom, hFrom, List.range'_zero, List.map_nil, pathsFrom_nil, if_true, idStr,
      List.replicate_zero, coeff_singleton, if_neg hne, coeff_nil]
    split <;> simp
  · have : shiftIdx (rf N) k ≠ shiftIdx (rf N) (lf N) := fun h =>
      hk1 ((shiftIdx_inj (rf N) k (lf N) hk2 hne).1 h)
    simp [uFrom, hFrom, this, hk2]

theorem uiSuffix_succ (lay : Nat → List (Edge Nat α)) (lf rf : Nat → Nat) (N i n : Nat)
    (hne0 : lf i ≠ rf i) (hne1 : lf (i + 1) ≠ rf (i + 1))
    (hla : StdSite (lf i) (rf i) (lf (i + 1)) (rf (i + 1)) (lay i))
    (ih : UISuffix lay lf rf N (i + 1) n) : UISuffix lay lf rf N i (n + 1) := by
  obtain ⟨ihR, ihL, ihA⟩ := ih
  -- abbreviations
  have hH := hFrom_succ lay i n
  have hU := uFrom_succ lay lf rf i n
  have hR : ∀ t, coeff (pathsFrom (rf N) (hFrom lay i (n + 1)) (rf i)) t
      = coeff [(idStr (n + 1), (1 : α))] t := by
    intro t
    cases t with
    | nil => rw [hH, coeff_pathsFrom_cons_nil]; simp [coeff_singleton, idStr]
    | cons op t =>
      rw [hH, coeff_from_r2 (rf i) (rf (i + 1)) (rf N) (lay i) _ hla.fromR, hla.idR op, ihR t,
        coeff_idStr_succ]
  have hsnd : ∀ t x, x ≠ rf (i + 1) →
      (coeff (pathsFrom (shiftIdx (rf N) (lf N)) (uFrom lay lf rf (i + 1) n) (shiftIdx (rf (i + 1)) x)) t).snd
        = coeff (pathsFrom (rf N) (hFrom lay (i + 1) n) x) t := by
    intro t x hx
    by_cases hxl : x = lf (i + 1)
    · subst hxl; exact (ihL t).2
    · exact (ihA x hxl hx t).2
  have hfl : ∀ t,
      (coeff (pathsFrom (shiftIdx (rf N) (lf N)) (uFrom lay lf rf (i + 1) n)
        (shiftIdx (rf (i + 1)) (lf (i + 1)))) t).fst
        = coeff (pathsFrom (rf N) (hFrom lay (i + 1) n) (rf (i + 1))) t :=
    fun t => (ihL t).1.trans (ihR t).symm
  have hsndAll : ∀ k, k ≠ rf i → ∀ op t,
      (coeff (pathsFrom (shiftIdx (rf N) (lf N)) (uFrom lay lf rf i (n + 1)) (shiftIdx (rf i) k)) (op :: t)).snd
        = coeff (pathsFrom (rf N) (hFrom lay i (n + 1)) k) (op :: t) := by
    intro k hk op t
    rw [hU, hH, coeff_uiSite_cons _ _ _ hne1 _ _ _ _ hk, snd_list_sum, List.map_map, coeff_pathsFrom_cons]
    apply sum_congr_map
    intro e _
    simp only [Function.comp]
    rw [snd_uiTerm2 (rf i) (rf (i + 1)) (lf (i + 1)) k hk op _
      (fun x => coeff (pathsFrom (rf N) (hFrom lay (i + 1) n) x) t) (hfl t) (hsnd t) e]
  refine ⟨hR, ?_, ?_⟩
  · intro t
    cases t with
    | nil =>
      rw [hU, hH, coeff_pathsFrom_cons_nil, coeff_pathsFrom_cons_nil]
      simp [coeff_singleton, idStr]
    | cons op t =>
      refine ⟨?_, hsndAll (lf i) hne0 op t⟩
      rw [hU, coeff_uiSite_cons _ _ _ hne1 _ _ _ _ hne0, fst_list_sum, List.map_map, coeff_idStr_succ,
        ← hla.idL op, entryCoeff, ← sum_map_mul_right'']
      apply sum_congr_map
      intro e he
      simp only [Function.comp]
      rw [fst_uiTerm2]
      by_cases h3 : e.kL = lf i ∧ e.kR = lf (i + 1) ∧ e.op = op
      · have : e.kL = lf i ∧ e.op = op ∧ e.kL ≠ rf i ∧ e.kR ≠ rf (i + 1) :=
          ⟨h3.1, h3.2.2, h3.1 ▸ hne0, h3.2.1 ▸ hne1⟩
        rw [if_pos this, if_pos h3, h3.2.1, (ihL t).1]
      · rw [if_neg h3, zero_mul]
        split
        · next hc =>
          have hkR : e.kR ≠ lf (i + 1) := fun hh => h3 ⟨hc.1, hh, hc.2.1⟩
          rw [(ihA e.kR hkR hc.2.2.2 t).1, mul_zero]
        · rfl
  · intro k hk1 hk2 t
    cases t with
    | nil =>
      rw [hU, hH, coeff_pathsFrom_cons_nil, coeff_pathsFrom_cons_nil]
      simp
    | cons op t =>
      refine ⟨?_, hsndAll k hk2 op t⟩
      rw [hU, coeff_uiSite_cons _ _ _ hne1 _ _ _ _ hk2, fst_list_sum, List.map_map]
      apply List.sum_eq_zero
      intro x hx
      obtain ⟨e, he, rfl⟩ := List.mem_map.1 hx
      simp only [Function.comp]
      rw [fst_uiTerm2]
      split
      · next hc =>
        have hkR : e.kR ≠ lf (i + 1) := fun hh => hk1 (hc.1 ▸ hla.intoL e he hh)
        rw [(ihA e.kR hkR hc.2.2.2 t).1, mul_zero]
      · rfl

/-- **first-order expansion with per-bond markers**, all suffixes of a chain with last bond `N` -/
theorem ui_idx_first_order (lay : Nat → List (Edge Nat α)) (lf rf : Nat → Nat) (N : Nat)
    (hne : ∀ b, b ≤ N → lf b ≠ rf b)
    (hstd : ∀ j, j < N → StdSite (lf j) (rf j) (lf (j + 1)) (rf (j + 1)) (lay j)) :
    ∀ n i, i + n = N → UISuffix lay lf rf N i n := by
  intro n
  induction n with
  | zero =>
    intro i hi
    have : i = N := by omega
    subst this
    exact uiSuffix_zero lay lf rf i (hne i (Nat.le_refl _))
  | succ n ih =>
    intro i hi
    exact uiSuffix_succ lay lf rf N i n (hne i (by omega)) (hne (i + 1) (by omega)) (hstd i (by omega))
      (ih (i + 1) (by omega))

end TenpyModel.Ops
