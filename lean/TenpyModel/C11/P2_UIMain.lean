import TenpyModel.C11.P2_UI3
/-!
# C11 / `make_U_I` on integer indices: first-order statement for the executable model `MPOM.makeUI`

`makeUI_first_order`: for an MPO `m` in standard form w.r.t. its per-bond markers (`UIHyp m`), the MPO
`m.lift.makeUI ε fin` over the dual numbers (`dt = ε`, `ε² = 0`) denotes `1 + ε·H`: the coefficient of
`dt⁰` of every operator string is that of the identity string, the coefficient of `dt¹` is that of
`m.denote`.  All chain lengths, bond dimensions and marker positions (any `IdL[b] ≠ IdR[b]`, not only
`IdL = 0`, `IdR = χ-1`); both values of the flag `finite` (the model ignores it).
-/
namespace TenpyModel.Ops
open TrivSqZeroExt DualNumber

/-- coefficients `c ↦ c + 0·ε` -/
def MPOM.lift {α} [CommSemiring α] (m : MPOM α) : MPOM (DualNumber α) :=
  { m with layers := m.layers.map (fun l => l.map (fun e => (⟨e.kL, e.kR, e.op, inl e.c⟩ : Edge Nat (DualNumber α)))) }

/-- **Hypotheses of `makeUI_first_order`.**  `m.mL b`, `m.mR b` are the markers `IdL[b]`, `IdR[b]` as
`makeUI` reads them (`(m.idL.getD b none).getD 0`).  Nothing is required of `chi`, of the size of the
indices, or of the inner markers being `some` (a missing inner marker is read as index `0` by the model
and the statement holds w.r.t. that reading); `UIHyp.of_wellformed` derives `UIHyp` from the usual shape
conditions. -/
structure UIHyp {α : Type} [CommSemiring α] (m : MPOM α) : Prop where
  /-- one matrix per site -/
  len : m.layers.length = m.L
  /-- `IdL[0]` exists (it is the start state of `denote`) -/
  idL0 : m.idL.head? = some (some (m.mL 0))
  /-- the last entry of `IdR` exists and is `IdR[L]` (the final state of `denote`) -/
  idRL : m.idR.getLast? = some (some (m.mR m.L))
  /-- `IdL[b] ≠ IdR[b]` on every bond `0 ≤ b ≤ L` -/
  ne : ∀ b, b ≤ m.L → m.mL b ≠ m.mR b
  /-- every site `i < L` is in standard form w.r.t. the markers of its two bonds: nothing enters `IdL[i+1]`
  except from `IdL[i]`, nothing leaves `IdR[i]` except to `IdR[i+1]`, the entries `IdL[i] → IdL[i+1]` and
  `IdR[i] → IdR[i+1]` are exactly the identity -/
  std : ∀ i, i < m.L →
    StdSite (m.mL i) (m.mR i) (m.mL (i + 1)) (m.mR (i + 1)) (m.layers.getD i [])

variable {α : Type} [CommSemiring α]

/-- the usual shape conditions imply the two marker hypotheses of `UIHyp`: `L + 1` markers of each kind,
all present -/
theorem UIHyp.of_wellformed (m : MPOM α) (len : m.layers.length = m.L)
    (hL : m.idL.length = m.L + 1) (hR : m.idR.length = m.L + 1)
    (hLs : ∀ x ∈ m.idL, x ≠ none) (hRs : ∀ x ∈ m.idR, x ≠ none)
    (ne : ∀ b, b ≤ m.L → m.mL b ≠ m.mR b)
    (std : ∀ i, i < m.L → StdSite (m.mL i) (m.mR i) (m.mL (i + 1)) (m.mR (i + 1)) (m.layers.getD i [])) :
    UIHyp m := by
  refine ⟨len, ?_, ?_, ne, std⟩
  · unfold MPOM.mL
    cases h : m.idL with
    | nil => rw [h] at hL; simp at hL
    | cons x xs =>
      have hx := hLs x (by rw [h]; exact List.mem_cons_self)
      cases x with
      | none => exact absurd rfl hx
      | some v => simp
  · unfold MPOM.mR
    have hne : m.idR ≠ [] := by intro h0; rw [h0] at hR; simp at hR
    have h1 : m.idR.getLast? = some (m.idR.getLast hne) := List.getLast?_eq_some_getLast hne
    have h2 : m.idR.getLast hne = m.idR.getD m.L none := by
      rw [List.getLast_eq_getElem, List.getD_eq_getElem?_getD, List.getElem?_eq_getElem (by omega)]
      simp [hR]
    have h3 := hRs _ (List.getLast_mem hne)
    rw [h1, ← h2]
    cases hx : m.idR.getLast hne with
    | none => exact absurd hx h3
    | some v => simp

theorem getD_map_nil {β γ : Type} (f : β → γ) (l : List (List β)) (i : Nat) :
    (l.map (List.map f)).getD i [] = (l.getD i []).map f := by
  simp only [List.getD_eq_getElem?_getD, List.getElem?_map]
  cases l[i]? <;> simp

theorem eq_map_range'_getD {β : Type} (l : List (List β)) :
    l = (List.range' 0 l.length).map (fun j => l.getD j []) := by
  apply List.ext_getElem
  · simp
  · intro i h1 h2
    simp [List.getD_eq_getElem?_getD, List.getElem?_eq_getElem h1]

theorem MPOM.lift_layers_getD (m : MPOM α) (i : Nat) :
    m.lift.layers.getD i [] = (m.layers.getD i []).map liftEdge :=
  getD_map_nil liftEdge m.layers i

/-- the layers of the propagator are the `uFrom` layers of `P2_UI2` -/
theorem MPOM.lift_makeUI_layers (m : MPOM α) (fin : Bool) :
    (m.lift.makeUI (ε : DualNumber α) fin).layers
      = uFrom (fun j => m.layers.getD j []) m.mL m.mR 0 m.L := by
  rw [MPOM.makeUI_layers, uFrom, List.range_eq_range']
  apply List.map_congr_left
  intro i _
  rw [MPOM.lift_layers_getD]
  rfl

theorem MPOM.lift_makeUI_denote (m : MPOM α) (fin : Bool) :
    (m.lift.makeUI (ε : DualNumber α) fin).denote
      = pathsFrom (shiftIdx (m.mR m.L) (m.mL m.L)) (uFrom (fun j => m.layers.getD j []) m.mL m.mR 0 m.L)
          (shiftIdx (m.mR 0) (m.mL 0)) := by
  unfold MPOM.denote
  rw [MPOM.makeUI_idL, MPOM.makeUI_idR, MPOM.lift_makeUI_layers]
  have h1 : ((List.range (m.lift.L + 1)).map (fun b => some (shiftIdx (m.lift.mR b) (m.lift.mL b)))).head?
      = some (some (shiftIdx (m.mR 0) (m.mL 0))) := by
    simp [List.range_succ_eq_map]; rfl
  have h2 : ((List.range (m.lift.L + 1)).map (fun b => some (shiftIdx (m.lift.mR b) (m.lift.mL b)))).getLast?
      = some (some (shiftIdx (m.mR m.L) (m.mL m.L))) := by
    rw [List.range_succ, List.map_append]; simp; rfl
  rw [h1, h2]

theorem MPOM.denote_of_hyp (m : MPOM α) (h : UIHyp m) :
    m.denote = pathsFrom (m.mR m.L) (hFrom (fun j => m.layers.getD j []) 0 m.L) (m.mL 0) := by
  unfold MPOM.denote
  rw [h.idL0, h.idRL]
  simp only
  have := eq_map_range'_getD m.layers
  rw [h.len] at this
  rw [hFrom, ← this]

/-- **`make_U_I`, first order, integer-index model.**  Over the dual numbers `dt = ε`: `U_I = 1 + ε·H`. -/
theorem makeUI_first_order {α : Type} [CommSemiring α] (m : MPOM α) (fin : Bool) (h : UIHyp m) (t : OpStr) :
    (coeff (m.lift.makeUI (ε : DualNumber α) fin).denote t).fst = coeff [(idStr m.L, (1 : α))] t ∧
    (coeff (m.lift.makeUI (ε : DualNumber α) fin).denote t).snd = coeff m.denote t := by
  rw [MPOM.lift_makeUI_denote, MPOM.denote_of_hyp m h]
  exact (ui_idx_first_order (fun j => m.layers.getD j []) m.mL m.mR m.L h.ne h.std m.L 0 (by omega)).2.1 t

/-! ## a decidable sufficient check for `UIHyp` -/

/-- executable check implying `UIHyp` (the `IdL → IdL`, `IdR → IdR` entries must be the single edge
`("Id", 1)`) -/
def uiCheck {α : Type} [CommSemiring α] [DecidableEq α] (m : MPOM α) : Bool :=
  decide (m.layers.length = m.L)
    && decide (m.idL.head? = some (some (m.mL 0)))
    && decide (m.idR.getLast? = some (some (m.mR m.L)))
    && (List.range (m.L + 1)).all (fun b => m.mL b != m.mR b)
    && (List.range m.L).all (fun i =>
        stdSiteB (m.mL i) (m.mR i) (m.mL (i + 1)) (m.mR (i + 1)) (m.layers.getD i []))

theorem UIHyp.of_check {α : Type} [CommSemiring α] [DecidableEq α] (m : MPOM α) (h : uiCheck m = true) :
    UIHyp m := by
  unfold uiCheck at h
  simp only [Bool.and_eq_true, decide_eq_true_eq, List.all_eq_true, List.mem_range, bne_iff_ne, ne_eq] at h
  obtain ⟨⟨⟨⟨h1, h2⟩, h3⟩, h4⟩, h5⟩ := h
  exact ⟨h1, h2, h3, fun b hb => h4 b (by omega), fun i hi => stdSite_of_check _ _ _ _ _ (h5 i hi)⟩

/-! ## non-vacuity -/

section examples

/-- three sites, `H = X⊗X⊗Id + X⊗S⊗Z + Id⊗Z⊗Z + 2·Id⊗Id⊗Y`; bond dimensions `2, 3, 3, 2`; markers
`(IdL, IdR) = (0,1), (1,0), (0,2), (0,1)`: on bond 1 they are swapped (`IdL = 1`, `IdR = 0`, inner state 2),
on bond 2 the inner state is `1` -/
def exUI : MPOM Int :=
  ⟨3, [[⟨0, 1, "Id", 1⟩, ⟨0, 2, "X", 1⟩, ⟨1, 0, "Id", 1⟩],
       [⟨1, 0, "Id", 1⟩, ⟨2, 2, "X", 1⟩, ⟨2, 1, "S", 1⟩, ⟨1, 1, "Z", 1⟩, ⟨0, 2, "Id", 1⟩],
       [⟨0, 0, "Id", 1⟩, ⟨1, 1, "Z", 1⟩, ⟨0, 1, "Y", 2⟩, ⟨2, 1, "Id", 1⟩]],
   [2, 3, 3, 2], [some 0, some 1, some 0, some 0], [some 1, some 0, some 2, some 1]⟩

theorem exUI_hyp : UIHyp exUI := UIHyp.of_check exUI (by decide)

example : exUI.denote
    = [(["Id", "Id", "Y"], 2), (["Id", "Z", "Z"], 1), (["X", "X", "Id"], 1), (["X", "S", "Z"], 1)] := by decide

/-- the integer-index propagator: shifted indices, all markers `0` afterwards -/
example : (exUI.makeUI 7 true).layers
    = [[⟨0, 0, "Id", 1⟩, ⟨0, 1, "X", 1⟩],
       [⟨0, 0, "Id", 1⟩, ⟨1, 1, "S", 1⟩, ⟨0, 1, "Z", 1⟩, ⟨1, 0, "X", 7⟩],
       [⟨0, 0, "Id", 1⟩, ⟨1, 0, "Z", 7⟩, ⟨0, 0, "Y", 14⟩]] ∧
    (exUI.makeUI 7 true).idL = [some 0, some 0, some 0, some 0] := by decide

/-- `(string, coefficient of dt⁰, coefficient of dt¹)` of the propagator over the dual numbers:
`1 + ε·H` (the second-order string `X⊗X⊗Y` has both coefficients `0`) -/
example : (exUI.lift.makeUI (ε : DualNumber Int) true).denote.map (fun p => (p.1, p.2.fst, p.2.snd))
    = [(["Id", "Id", "Id"], 1, 0), (["Id", "Id", "Y"], 0, 2), (["Id", "Z", "Z"], 0, 1), (["X", "S", "Z"], 0, 1),
       (["X", "X", "Id"], 0, 1), (["X", "X", "Y"], 0, 0)] := by
  decide +kernel

/-- the theorem applied to the example -/
example (t : OpStr) :
    (coeff (exUI.lift.makeUI (ε : DualNumber Int) false).denote t).snd = coeff exUI.denote t :=
  (makeUI_first_order exUI false exUI_hyp t).2

/-- the hypothesis is not implied by the shape conditions: with a non-identity `IdR → IdR` entry
(`2·Id`) the check fails -/
example : uiCheck ({ exUI with layers := (exUI.layers.set 0
    [⟨0, 1, "Id", 1⟩, ⟨0, 2, "X", 1⟩, ⟨1, 0, "Id", 2⟩]) } : MPOM Int) = false := by decide

end examples

end TenpyModel.Ops
