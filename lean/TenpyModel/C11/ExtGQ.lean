import Mathlib.Algebra.Ring.Defs
import Mathlib.Algebra.Ring.Hom.Defs
import Mathlib.Algebra.Ring.Rat
import Mathlib.Tactic.Ring
import TenpyModel.Ops.Sym
/-!
# The coefficient type of the C11 driver is a commutative ring

`GQ` (Gaussian rationals, `Ops/Sym.lean`) with the operations the driver `lean/drivers/C11.lean` computes with is a
commutative ring and `GQ.conj` a ring involution: the C11 theorems (stated for an arbitrary commutative (semi)ring
and ring homomorphism `cj`) apply to the very computations of the driver.
-/
namespace TenpyModel.Ops
namespace GQ

@[ext] theorem ext' {a b : GQ} (h1 : a.re = b.re) (h2 : a.im = b.im) : a = b := by
  cases a; cases b; simp_all

@[simp] theorem add_re (a b : GQ) : (a + b).re = a.re + b.re := rfl
@[simp] theorem add_im (a b : GQ) : (a + b).im = a.im + b.im := rfl
@[simp] theorem mul_re (a b : GQ) : (a * b).re = a.re * b.re - a.im * b.im := rfl
@[simp] theorem mul_im (a b : GQ) : (a * b).im = a.re * b.im + a.im * b.re := rfl
@[simp] theorem neg_re (a : GQ) : (-a).re = -a.re := rfl
@[simp] theorem neg_im (a : GQ) : (-a).im = -a.im := rfl
@[simp] theorem sub_re (a b : GQ) : (a - b).re = a.re - b.re := rfl
@[simp] theorem sub_im (a b : GQ) : (a - b).im = a.im - b.im := rfl
@[simp] theorem zero_re : (0 : GQ).re = 0 := rfl
@[simp] theorem zero_im : (0 : GQ).im = 0 := rfl
@[simp] theorem one_re : (1 : GQ).re = 1 := rfl
@[simp] theorem one_im : (1 : GQ).im = 0 := rfl
@[simp] theorem conj_re (a : GQ) : (conj a).re = a.re := rfl
@[simp] theorem conj_im (a : GQ) : (conj a).im = -a.im := rfl

/-- the ring structure uses exactly the `Add`, `Mul`, `Neg`, `Sub`, `Zero`, `One` instances of `Ops/Sym.lean` -/
instance instCommRing : CommRing GQ where
  add := (· + ·)
  mul := (· * ·)
  neg := Neg.neg
  sub := (· - ·)
  zero := 0
  one := 1
  add_assoc a b c := by ext <;> simp <;> ring
  zero_add a := by ext <;> simp
  add_zero a := by ext <;> simp
  add_comm a b := by ext <;> simp <;> ring
  neg_add_cancel a := by ext <;> simp
  sub_eq_add_neg a b := by ext <;> simp <;> ring
  mul_assoc a b c := by ext <;> simp <;> ring
  one_mul a := by ext <;> simp
  mul_one a := by ext <;> simp
  mul_comm a b := by ext <;> simp <;> ring
  left_distrib a b c := by ext <;> simp <;> ring
  right_distrib a b c := by ext <;> simp <;> ring
  zero_mul a := by ext <;> simp
  mul_zero a := by ext <;> simp
  nsmul := nsmulRec
  zsmul := zsmulRec

/-- complex conjugation as a ring homomorphism; its underlying function is `GQ.conj` -/
def conjHom : GQ →+* GQ where
  toFun := conj
  map_one' := by ext <;> simp
  map_mul' a b := by ext <;> simp <;> ring
  map_zero' := by ext <;> simp
  map_add' a b := by ext <;> simp <;> ring

theorem conjHom_apply (a : GQ) : conjHom a = conj a := rfl
theorem conj_conj (a : GQ) : conj (conj a) = a := by ext <;> simp

end GQ
end TenpyModel.Ops
