import TenpyModel.C11.ExtDecideProofs1
/-!
# C11 extension, helper lemmas 2: `overlapNoHc`, `overlap`, `isEqualNumSites`, `isEqual`, `isHermitian`
-/
namespace TenpyModel.Ops

section semiring
variable {α : Type} [CommSemiring α]

/-- inversion of `overlapNoHc`: when it answers, `n ≠ 0`, the four markers exist and the value is the
transfer-matrix fold -/
theorem overlapNoHc_some (gram : String → String → α) (cj : α → α) (hc : String → String)
    (a b : MPOX α) (n : Nat) (hs : Bool) (v : α)
    (h : MPOX.overlapNoHc gram cj hc a b n hs = some v) :
    n ≠ 0 ∧ ∃ la lb ra rb, a.m.idL.getD 0 none = some la ∧ b.m.idL.getD 0 none = some lb ∧
      a.m.idR.getD ((n - 1) % a.m.L + 1) none = some ra ∧ b.m.idR.getD ((n - 1) % b.m.L + 1) none = some rb ∧
      v = MPOM.vecAt ((List.range n).foldl (fun v i => KVec.compress
        (MPOM.tmStep (if hs then (fun x y => gram (hc x) y) else gram) (if hs then id else cj)
          (a.m.layers.getD (i % a.m.L) []) (b.m.layers.getD (i % b.m.L) []) v)) [((la, lb), 1)]) (ra, rb) := by
  unfold MPOX.overlapNoHc at h
  split at h
  · exact absurd h (by simp)
  · rename_i hn
    split at h
    · exact absurd h (by simp)
    · split at h
      · rename_i la lb ra rb e1 e2 e3 e4
        refine ⟨hn, la, lb, ra, rb, e1, e2, e3, e4, ?_⟩
        simp only [Option.some.injEq] at h
        exact h.symm
      · exact absurd h (by simp)

theorem overlapNoHc_spec (gram : String → String → α) (cj : α →+* α) (hc : String → String)
    (a b : MPOX α) (n : Nat) (v : α) (h : MPOX.overlapNoHc gram cj hc a b n false = some v) :
    v = MPOM.frob gram cj (a.m.denoteSites n) (b.m.denoteSites n) := by
  obtain ⟨hn, la, lb, ra, rb, e1, e2, e3, e4, hv⟩ := overlapNoHc_some gram cj hc a b n false v h
  rw [denoteSites_eq a.m n hn la ra e1 e3, denoteSites_eq b.m n hn lb rb e2 e4, hv]
  simp only [Bool.false_eq_true, if_false]
  exact window_fold gram cj a.m b.m n la lb ra rb

theorem overlapNoHc_hconj_spec (gram : String → String → α) (cj : α →+* α) (hc : String → String)
    (hcj : ∀ x, cj (cj x) = x) (a b : MPOX α) (n : Nat) (v : α)
    (h : MPOX.overlapNoHc gram cj hc a b n true = some v) :
    v = MPOM.frob gram cj (Sym.dagger hc cj (a.m.denoteSites n)) (b.m.denoteSites n) := by
  obtain ⟨hn, la, lb, ra, rb, e1, e2, e3, e4, hv⟩ := overlapNoHc_some gram cj hc a b n true v h
  rw [denoteSites_eq a.m n hn la ra e1 e3, denoteSites_eq b.m n hn lb rb e2 e4, hv,
    ← frob_hconj gram cj hc hcj]
  simp only [if_true]
  exact window_fold (fun x y => gram (hc x) y) (RingHom.id α) a.m b.m n la lb ra rb

/-- inversion of `overlap` -/
theorem overlap_some (gram : String → String → α) (cj : α → α) (hc : String → String)
    (a b : MPOX α) (ns : Option Nat) (v : α) (h : MPOX.overlap gram cj hc a b ns = some v) :
    ∃ n ab, MPOX.overlapNumSites a b ns = some n ∧ MPOX.overlapNoHc gram cj hc a b n false = some ab ∧
      ((a.plusHc = false ∧ b.plusHc = false ∧ v = ab) ∨
       (∃ hab, MPOX.overlapNoHc gram cj hc a b n true = some hab ∧
          ((a.plusHc = true ∧ b.plusHc = true ∧ v = (ab + hab) + cj (ab + hab)) ∨
           (a.plusHc = true ∧ b.plusHc = false ∧ v = ab + hab) ∨
           (a.plusHc = false ∧ b.plusHc = true ∧ v = ab + cj hab)))) := by
  unfold MPOX.overlap at h
  split at h
  · exact absurd h (by simp)
  · rename_i n hn
    split at h
    · exact absurd h (by simp)
    · rename_i ab hab
      refine ⟨n, ab, hn, hab, ?_⟩
      cases ha : a.plusHc <;> cases hb : b.plusHc <;> simp only [ha, hb] at h
      · left
        simp only [Bool.not_false, Bool.and_self, if_true, Option.some.injEq] at h
        exact ⟨rfl, rfl, h.symm⟩
      · right
        simp only [Bool.not_false, Bool.not_true, Bool.and_false, Bool.false_eq_true, if_false,
          Bool.false_and] at h
        split at h
        · exact absurd h (by simp)
        · rename_i hab' hh
          simp only [Option.some.injEq] at h
          exact ⟨hab', hh, Or.inr (Or.inr ⟨rfl, rfl, h.symm⟩)⟩
      · right
        simp only [Bool.not_false, Bool.not_true, Bool.false_and, Bool.false_eq_true, if_false,
          Bool.and_false, if_true] at h
        split at h
        · exact absurd h (by simp)
        · rename_i hab' hh
          simp only [Option.some.injEq] at h
          exact ⟨hab', hh, Or.inr (Or.inl ⟨rfl, rfl, h.symm⟩)⟩
      · right
        simp only [Bool.not_true, Bool.and_self, Bool.false_eq_true, if_false, if_true] at h
        split at h
        · exact absurd h (by simp)
        · rename_i hab' hh
          simp only [Option.some.injEq] at h
          exact ⟨hab', hh, Or.inl ⟨rfl, rfl, h.symm⟩⟩

theorem overlap_flags_spec (gram : String → String → α) (cj : α →+* α) (hc : String → String)
    (hcj : ∀ x, cj (cj x) = x) (hhc : ∀ x, hc (hc x) = x)
    (hgram : ∀ x y, gram (hc x) (hc y) = cj (gram x y))
    (a b : MPOX α) (numSites : Option Nat) (n : Nat) (v : α)
    (hn : MPOX.overlapNumSites a b numSites = some n)
    (h : MPOX.overlap gram cj hc a b numSites = some v) :
    v = MPOM.frob gram cj (a.window hc cj n) (b.window hc cj n) := by
  obtain ⟨n', ab, hn', hab, hcases⟩ := overlap_some gram cj hc a b numSites v h
  rw [hn] at hn'
  simp only [Option.some.injEq] at hn'
  subst hn'
  have e1 := overlapNoHc_spec gram cj hc a b n ab hab
  unfold MPOX.window
  rcases hcases with ⟨ha, hb, hv⟩ | ⟨hab', hh, hcases⟩
  · simp only [ha, hb, Bool.false_eq_true, if_false]
    rw [hv, e1]
  · have e2 := overlapNoHc_hconj_spec gram cj hc hcj a b n hab' hh
    rcases hcases with ⟨ha, hb, hv⟩ | ⟨ha, hb, hv⟩ | ⟨ha, hb, hv⟩
    · simp only [ha, hb, if_true]
      rw [frob_append_left, frob_append_right, frob_append_right,
        frob_dagger_dagger gram cj hc hgram, frob_right_dagger gram cj hc hcj hhc hgram, hv, e1, e2, map_add]
      ring
    · simp only [ha, hb, if_true, Bool.false_eq_true, if_false]
      rw [frob_append_left, hv, e1, e2]
    · simp only [ha, hb, if_true, Bool.false_eq_true, if_false]
      rw [frob_append_right, frob_right_dagger gram cj hc hcj hhc hgram, hv, e1, e2]

omit [CommSemiring α] in
theorem winLayers_dagger (hc : String → String) (cj : α → α) (m : MPOM α) (n : Nat) :
    winLayers (m.dagger hc cj) n
      = (winLayers m n).map (fun l => l.map (fun e => { e with op := hc e.op, c := cj e.c })) := by
  unfold winLayers MPOM.dagger
  simp only [List.map_map]
  apply List.map_congr_left
  intro i _
  simp only [Function.comp, List.getD_eq_getElem?_getD, List.getElem?_map]
  cases m.layers[i % m.L]? <;> simp

theorem denoteSites_dagger (hc : String → String) (cj : α →+* α) (m : MPOM α) (n : Nat) :
    (m.dagger hc cj).denoteSites n = Sym.dagger hc cj (m.denoteSites n) := by
  by_cases hn : n = 0
  · simp [MPOM.denoteSites, hn, Sym.dagger]
  · have e1 : (m.dagger hc cj).idL = m.idL := rfl
    have e2 : (m.dagger hc cj).idR = m.idR := rfl
    have e3 : (m.dagger hc cj).L = m.L := rfl
    cases hl : m.idL.getD 0 none with
    | none =>
      have hnil : ∀ m' : MPOM α, m'.idL.getD 0 none = none → m'.denoteSites n = [] := by
        intro m' h
        unfold MPOM.denoteSites
        rw [if_neg hn, h]
      rw [hnil m hl, hnil _ (by rw [e1]; exact hl)]; rfl
    | some l =>
      cases hr : m.idR.getD ((n - 1) % m.L + 1) none with
      | none =>
        have hnil : ∀ m' : MPOM α, m'.idR.getD ((n - 1) % m'.L + 1) none = none → m'.denoteSites n = [] := by
          intro m' h
          unfold MPOM.denoteSites
          rw [if_neg hn, h]
          split <;> first | rfl | simp_all
        rw [hnil m hr, hnil _ (by rw [e2, e3]; exact hr)]; rfl
      | some r =>
        rw [denoteSites_eq m n hn l r hl hr,
          denoteSites_eq (m.dagger hc cj) n hn l r (by rw [e1]; exact hl) (by rw [e2, e3]; exact hr),
          winLayers_dagger]
        exact pathsFrom_dagger hc cj r (winLayers m n) l

end semiring

theorem isEqualNumSites_spec {α : Type} (a b : MPOX α) (mr : MaxRange) :
    (a.finite = true → MPOX.isEqualNumSites a b mr = a.m.L) ∧
    (a.finite = false → ∀ r : Int, mr = .fin r → MPOX.isEqualNumSites a b mr = a.m.L + 2 * r.toNat) ∧
    (a.finite = false → (∀ r, mr ≠ .fin r) → ∀ ra rb : Int, a.maxRange = .fin ra → b.maxRange = .fin rb →
      a.m.L + 2 * ra.toNat ≤ MPOX.isEqualNumSites a b mr ∧ a.m.L + 2 * rb.toNat ≤ MPOX.isEqualNumSites a b mr) ∧
    (a.finite = false → (∀ r, mr ≠ .fin r) → (a.maxRange.known = false ∨ b.maxRange.known = false) →
      MPOX.isEqualNumSites a b mr = 3 * a.m.L) ∧
    a.m.L ≤ MPOX.isEqualNumSites a b mr := by
  refine ⟨?_, ?_, ?_, ?_, ?_⟩
  · intro hf
    simp [MPOX.isEqualNumSites, hf]
  · intro hf r hr
    simp [MPOX.isEqualNumSites, hf, hr]
  · intro hf hmr ra rb hra hrb
    have : MPOX.isEqualNumSites a b mr = a.m.L + 2 * max ra.toNat rb.toNat := by
      unfold MPOX.isEqualNumSites
      cases mr with
      | fin r => exact absurd rfl (hmr r)
      | unknown => simp [hf, hra, hrb, MaxRange.known, MaxRange.orL]
      | inf => simp [hf, hra, hrb, MaxRange.known, MaxRange.orL]
    rw [this]
    omega
  · intro hf hmr hk
    unfold MPOX.isEqualNumSites
    cases mr with
    | fin r => exact absurd rfl (hmr r)
    | unknown =>
      rcases hk with hk | hk <;> simp [hf, hk] <;> omega
    | inf =>
      rcases hk with hk | hk <;> simp [hf, hk] <;> omega
  · unfold MPOX.isEqualNumSites
    split
    · exact Nat.le_refl _
    · split
      · omega
      · split <;> omega

/-- the window chosen by `overlap` when `num_sites` is given explicitly -/
theorem overlapNumSites_some {α : Type} (a b : MPOX α) (n k : Nat)
    (h : MPOX.overlapNumSites a b (some n) = some k) :
    (a.finite = true ∧ b.finite = true ∧ a.m.L = b.m.L ∧ k = a.m.L) ∨
    (a.finite = false ∧ b.finite = false ∧ k = n) := by
  unfold MPOX.overlapNumSites at h
  cases ha : a.finite <;> cases hb : b.finite <;> simp only [ha, hb] at h
  · right
    simp only [Bool.and_self, Bool.false_eq_true, if_false, Bool.not_false, if_true, Option.getD_some] at h
    split at h
    · exact absurd h (by simp)
    · simp only [Option.some.injEq] at h
      exact ⟨rfl, rfl, h.symm⟩
  · simp at h
  · simp at h
  · left
    simp only [Bool.and_self, if_true] at h
    split at h
    · rename_i hL
      simp only [Option.some.injEq] at h
      exact ⟨rfl, rfl, hL, h.symm⟩
    · exact absurd h (by simp)

section ring
variable {α ρ : Type} [CommRing α] [Mul ρ] [LT ρ] [DecidableLT ρ]

theorem distRaw_some (gram : String → String → α) (cj : α → α) (hc : String → String)
    (a b : MPOX α) (ns : Option Nat) (d m : α) (h : MPOX.distRaw gram cj hc a b ns = some (d, m)) :
    ∃ ov s o, MPOX.overlap gram cj hc a b ns = some ov ∧ MPOX.overlap gram cj hc a a ns = some s ∧
      MPOX.overlap gram cj hc b b ns = some o ∧ d = s - (ov + cj ov) + o ∧ m = s + o := by
  unfold MPOX.distRaw at h
  split at h
  · rename_i ov s o h1 h2 h3
    simp only [Option.some.injEq, Prod.mk.injEq] at h
    exact ⟨ov, s, o, h1, h2, h3, h.1.symm, h.2.symm⟩
  · exact absurd h (by simp)

/-- when the three overlaps of `distRaw` answer for an explicit `num_sites = n` (which is `L` for finite
operands), all three are taken on the window of `n` sites -/
theorem overlaps_windows (gram : String → String → α) (cj : α →+* α) (hc : String → String)
    (hcj : ∀ x, cj (cj x) = x) (hhc : ∀ x, hc (hc x) = x)
    (hgram : ∀ x y, gram (hc x) (hc y) = cj (gram x y))
    (a b : MPOX α) (n : Nat) (hfin : a.finite = true → n = a.m.L) (ov s o : α)
    (h1 : MPOX.overlap gram cj hc a b (some n) = some ov)
    (h2 : MPOX.overlap gram cj hc a a (some n) = some s)
    (h3 : MPOX.overlap gram cj hc b b (some n) = some o) :
    ov = MPOM.frob gram cj (a.window hc cj n) (b.window hc cj n) ∧
    s = MPOM.frob gram cj (a.window hc cj n) (a.window hc cj n) ∧
    o = MPOM.frob gram cj (b.window hc cj n) (b.window hc cj n) := by
  obtain ⟨k1, _, hk1, _, _⟩ := overlap_some gram cj hc a b _ ov h1
  obtain ⟨k2, _, hk2, _, _⟩ := overlap_some gram cj hc a a _ s h2
  obtain ⟨k3, _, hk3, _, _⟩ := overlap_some gram cj hc b b _ o h3
  have f1 := overlap_flags_spec gram cj hc hcj hhc hgram a b _ k1 ov hk1 h1
  have f2 := overlap_flags_spec gram cj hc hcj hhc hgram a a _ k2 s hk2 h2
  have f3 := overlap_flags_spec gram cj hc hcj hhc hgram b b _ k3 o hk3 h3
  have e1 : k1 = n := by
    rcases overlapNumSites_some a b _ k1 hk1 with ⟨ha, _, _, hk⟩ | ⟨_, _, hk⟩
    · rw [hk, hfin ha]
    · exact hk
  have e2 : k2 = n := by
    rcases overlapNumSites_some a a _ k2 hk2 with ⟨ha, _, _, hk⟩ | ⟨_, _, hk⟩
    · rw [hk, hfin ha]
    · exact hk
  have e3 : k3 = n := by
    rcases overlapNumSites_some b b _ k3 hk3 with ⟨hb, _, _, hk⟩ | ⟨_, _, hk⟩
    · rcases overlapNumSites_some a b _ k1 hk1 with ⟨ha, _, hL, _⟩ | ⟨_, hb', _⟩
      · rw [hk, hfin ha, hL]
      · rw [hb] at hb'; exact absurd hb' (by simp)
    · exact hk
  rw [e1] at f1; rw [e2] at f2; rw [e3] at f3
  exact ⟨f1, f2, f3⟩

/-- when `is_equal` answers, all three overlaps are taken on the window of `isEqualNumSites` sites -/
theorem isEqual_windows (gram : String → String → α) (cj : α →+* α) (hc : String → String)
    (hcj : ∀ x, cj (cj x) = x) (hhc : ∀ x, hc (hc x) = x)
    (hgram : ∀ x y, gram (hc x) (hc y) = cj (gram x y))
    (a b : MPOX α) (mr : MaxRange) (ov s o : α)
    (h1 : MPOX.overlap gram cj hc a b (some (MPOX.isEqualNumSites a b mr)) = some ov)
    (h2 : MPOX.overlap gram cj hc a a (some (MPOX.isEqualNumSites a b mr)) = some s)
    (h3 : MPOX.overlap gram cj hc b b (some (MPOX.isEqualNumSites a b mr)) = some o) :
    ov = MPOM.frob gram cj (a.window hc cj (MPOX.isEqualNumSites a b mr)) (b.window hc cj (MPOX.isEqualNumSites a b mr)) ∧
    s = MPOM.frob gram cj (a.window hc cj (MPOX.isEqualNumSites a b mr)) (a.window hc cj (MPOX.isEqualNumSites a b mr)) ∧
    o = MPOM.frob gram cj (b.window hc cj (MPOX.isEqualNumSites a b mr)) (b.window hc cj (MPOX.isEqualNumSites a b mr)) :=
  overlaps_windows gram cj hc hcj hhc hgram a b _ (isEqualNumSites_spec a b mr).1 ov s o h1 h2 h3

theorem isEqual_decides (gram : String → String → α) (cj : α →+* α) (hc : String → String)
    (hcj : ∀ x, cj (cj x) = x) (hhc : ∀ x, hc (hc x) = x)
    (hgram : ∀ x y, gram (hc x) (hc y) = cj (gram x y))
    (absSq : α → ρ) (epsSq : ρ) (a b : MPOX α) (mr : MaxRange) (ans : Bool)
    (h : MPOX.isEqual gram cj hc absSq epsSq a b mr = some ans) :
    let n := MPOX.isEqualNumSites a b mr
    let A := a.window hc cj n
    let B := b.window hc cj n
    ans = decide (absSq (MPOM.frob gram cj A A - (MPOM.frob gram cj A B + cj (MPOM.frob gram cj A B))
                    + MPOM.frob gram cj B B)
                  < epsSq * absSq (MPOM.frob gram cj A A + MPOM.frob gram cj B B)) := by
  intro n A B
  unfold MPOX.isEqual at h
  split at h
  · rename_i d m hd
    obtain ⟨ov, s, o, h1, h2, h3, ed, em⟩ := distRaw_some gram cj hc a b _ d m hd
    obtain ⟨f1, f2, f3⟩ := isEqual_windows gram cj hc hcj hhc hgram a b mr ov s o h1 h2 h3
    simp only [Option.some.injEq] at h
    rw [← h, ed, em, f1, f2, f3]
  · exact absurd h (by simp)

theorem isEqual_accepts (gram : String → String → α) (cj : α →+* α) (hc : String → String)
    (hcj : ∀ x, cj (cj x) = x) (hhc : ∀ x, hc (hc x) = x)
    (hgram : ∀ x y, gram (hc x) (hc y) = cj (gram x y))
    (absSq : α → ρ) (epsSq : ρ) (a b : MPOX α) (mr : MaxRange) (ans : Bool)
    (h : MPOX.isEqual gram cj hc absSq epsSq a b mr = some ans)
    (heq : Sym.Equiv (a.window hc cj (MPOX.isEqualNumSites a b mr)) (b.window hc cj (MPOX.isEqualNumSites a b mr)))
    (hreal : let A := a.window hc cj (MPOX.isEqualNumSites a b mr); cj (MPOM.frob gram cj A A) = MPOM.frob gram cj A A)
    (hnorm : let A := a.window hc cj (MPOX.isEqualNumSites a b mr)
             absSq 0 < epsSq * absSq (MPOM.frob gram cj A A + MPOM.frob gram cj A A)) :
    ans = true := by
  have hd := isEqual_decides gram cj hc hcj hhc hgram absSq epsSq a b mr ans h
  simp only at hd hreal hnorm
  have eAB := frob_congr gram cj _ _ _ _ (Sym.Equiv.refl (a.window hc cj (MPOX.isEqualNumSites a b mr))) heq
  have eBB := frob_congr gram cj _ _ _ _ heq (Sym.Equiv.refl (b.window hc cj (MPOX.isEqualNumSites a b mr)))
  rw [← eBB, ← eAB, hreal] at hd
  have hz : ∀ x : α, x - (x + x) + x = 0 := fun x => by ring
  rw [hz] at hd
  rw [hd]
  exact decide_eq_true hnorm

/-- the default window of `overlap` is `L` for finite operands -/
theorem overlapNumSites_finite {α : Type} (a b : MPOX α) (ns : Option Nat) (n : Nat)
    (h : MPOX.overlapNumSites a b ns = some n) (ha : a.finite = true) : n = a.m.L := by
  unfold MPOX.overlapNumSites at h
  cases hb : b.finite <;> simp only [ha, hb] at h
  · simp at h
  · simp only [Bool.and_self, if_true] at h
    split at h
    · simp only [Option.some.injEq] at h
      exact h.symm
    · exact absurd h (by simp)

theorem distance_spec [Neg ρ] (gram : String → String → α) (cj : α →+* α) (hc : String → String)
    (hcj : ∀ x, cj (cj x) = x) (hhc : ∀ x, hc (hc x) = x)
    (hgram : ∀ x y, gram (hc x) (hc y) = cj (gram x y))
    (re : α → ρ) (tol : ρ) (a b : MPOX α) (numSites : Option Nat) (n : Nat) (d : α)
    (hn : MPOX.overlapNumSites a b numSites = some n)
    (h : MPOX.distance gram cj hc re tol a b numSites = some d) :
    let A := a.window hc cj n
    let B := b.window hc cj n
    d = MPOM.frob gram cj A A - (MPOM.frob gram cj A B + cj (MPOM.frob gram cj A B))
          + MPOM.frob gram cj B B := by
  intro A B
  unfold MPOX.distance at h
  rw [hn] at h
  simp only at h
  split at h
  · rename_i d' m hd
    obtain ⟨ov, s, o, h1, h2, h3, ed, _⟩ := distRaw_some gram cj hc a b _ d' m hd
    obtain ⟨f1, f2, f3⟩ := overlaps_windows gram cj hc hcj hhc hgram a b n
      (overlapNumSites_finite a b numSites n hn) ov s o h1 h2 h3
    split at h
    · exact absurd h (by simp)
    · simp only [Option.some.injEq] at h
      rw [← h, ed, f1, f2, f3]
  · exact absurd h (by simp)

/-- the value of `distance` is literally `‖A − B‖²` -/
theorem distance_expand (gram : String → String → α) (cj : α →+* α) (hcj : ∀ x, cj (cj x) = x)
    (hsym : ∀ x y, gram y x = cj (gram x y)) (A B : Sym α) :
    MPOM.frob gram cj (A ++ Sym.smul (-1) B) (A ++ Sym.smul (-1) B)
      = MPOM.frob gram cj A A - (MPOM.frob gram cj A B + cj (MPOM.frob gram cj A B)) + MPOM.frob gram cj B B ∧
    MPOM.frob gram cj B A = cj (MPOM.frob gram cj A B) := by
  have hsw := frob_swap gram cj hcj hsym A B
  refine ⟨?_, hsw⟩
  rw [frob_append_left, frob_append_right, frob_append_right, frob_smul_left, frob_smul_left,
    frob_smul_right, frob_smul_right, hsw, map_neg, map_one]
  ring

theorem isHermitian_spec (gram : String → String → α) (cj : α →+* α) (hc : String → String)
    (absSq : α → ρ) (epsSq : ρ) (a : MPOX α) (mr : MaxRange) (n : Nat) :
    (a.plusHc = true → MPOX.isHermitian gram cj hc absSq epsSq a mr = some true) ∧
    (a.plusHc = false → MPOX.isHermitian gram cj hc absSq epsSq a mr
        = MPOX.isEqual gram cj hc absSq epsSq a (a.dagger hc cj) mr) ∧
    (a.plusHc = false → ((a.dagger hc cj).m.denoteSites n) = Sym.dagger hc cj (a.m.denoteSites n)) := by
  refine ⟨?_, ?_, ?_⟩
  · intro h
    simp [MPOX.isHermitian, h]
  · intro h
    simp [MPOX.isHermitian, h]
  · intro h
    have : (a.dagger hc cj).m = a.m.dagger hc cj := by
      simp [MPOX.dagger, h]
    rw [this]
    exact denoteSites_dagger hc cj a.m n

end ring
end TenpyModel.Ops
