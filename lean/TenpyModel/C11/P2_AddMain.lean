import TenpyModel.C11.P2_Add11
/-!
# `MPO.__add__` on integer indices denotes the sum  (`add_indices`)

`MPOM.add a b` (Ops/MPO.lean) is the executable model of `MPO.__add__` + `_get_block_projections`: the 4×4 block
grid per site, rows/columns whose blocks are all `None` dropped, the surviving blocks concatenated on integer
indices, `IdL = 0` / `IdR = -1` where the corner blocks exist.  `C11_add` (C11/Props.lean) proves that gluing
the two automata at `IdL`/`IdR` denotes the sum *for symbolic keys and markers on every bond*.  Here the same is
proved for the integer-indexed model itself, including operands with PARTIAL marker lists (`IdL` only on a
prefix, `IdR` only on a suffix of the bonds, as built by `MPOGraph.from_term_list(insert_all_id=False)`).

Route: `P2_Add3…7` generalise the glued automaton of `SumProofs` to per-bond, optional markers (`sym_sum`);
`P2_Add2` shows that a per-bond injective renaming of the keys preserves path sums (`relabel_paths`);
`P2_Add8…10` show that the layers of `MPOM.add` are the symbolic layers renamed by the placement `phi`
(`addLayer_eq`), provided the row groups of site `i` and the column groups of site `i - 1` describe bond `i`
consistently (`rowGroups_eq`, `colGroups_eq` — this is where "no dead ends" is needed).
-/
namespace TenpyModel.Ops
open MPOM

variable {α : Type}

/-- Hypotheses on one operand of `MPO.__add__` ("standard sum form", possibly with partial marker lists).
All fields except `std` are about shapes / the marker lists; every field is decidable for a concrete MPO. -/
structure MPOM.Operand (a : MPOM α) : Prop where
  /-- at least one site -/
  Lpos : 1 ≤ a.L
  /-- one layer (tensor `W_i`) per site -/
  len : a.layers.length = a.L
  /-- `IdR` has `L + 1` entries (`denote` reads its last one; missing entries of `chi`, `IdL` read as `0` / `None`) -/
  lenR : a.idR.length = a.L + 1
  /-- `IdL[0]` is set -/
  idL0 : exL a 0 = true
  /-- `IdR[L]` is set -/
  idRL : exR a a.L = true
  /-- `IdL[j] ≠ IdR[j]` when both are set (the `assert IdR != IdL` of `_get_block_projections`) -/
  dist : ∀ j, j ≤ a.L → (a.idL.getD j none = none ∨ a.idL.getD j none ≠ a.idR.getD j none)
  /-- `IdL` is set on a prefix of the bonds: `IdL[i+1]` set → `IdL[i]` set -/
  pref : ∀ i, i < a.L → prefixL a i = true
  /-- `IdR` is set on a suffix of the bonds: `IdR[i]` set → `IdR[i+1]` set -/
  suf : ∀ i, i < a.L → suffixR a i = true
  /-- no dead ends (see `MPOM.noDeadEnd`; implied by: a bond that lacks a marker has ≥ 1 other state) -/
  nde : ∀ i, i < a.L → noDeadEnd a i = true
  /-- the virtual indices of every entry lie below the bond dimensions -/
  bound : ∀ i, i < a.L → ∀ e ∈ a.layers.getD i [], e.kL < a.chi.getD i 0 ∧ e.kR < a.chi.getD (i + 1) 0
  /-- upper block-triangular form w.r.t. the markers of the two bonds of a site: no entry enters `IdL[i+1]`
  except from `IdL[i]`, no entry leaves `IdR[i]` except to `IdR[i+1]` (the blocks `[1,0]`, `[2,0]`, `[2,1]`
  that `__add__` does not copy are empty) -/
  std : ∀ i, i < a.L → ∀ e ∈ a.layers.getD i [],
    (some e.kR = a.idL.getD (i + 1) none → some e.kL = a.idL.getD i none) ∧
    (some e.kL = a.idR.getD i none → some e.kR = a.idR.getD (i + 1) none)

/-- Hypotheses of `add_indices`.  `agreeL` / `agreeR`: where both operands have the block `IdL[i] → IdL[i+1]`
(resp. `IdR[i] → IdR[i+1]`), the two entries are the same local operator (in tenpy: the identity) — `__add__`
keeps only the one of `a`. -/
structure AddHyp (a b : MPOM α) [Semiring α] : Prop where
  sameL : a.L = b.L
  opA : a.Operand
  opB : b.Operand
  agreeL : ∀ i, i < a.L → ∀ x x' y y', a.idL.getD i none = some x → a.idL.getD (i + 1) none = some x' →
    b.idL.getD i none = some y → b.idL.getD (i + 1) none = some y' →
    ∀ op, entryCoeff (a.layers.getD i []) x x' op = entryCoeff (b.layers.getD i []) y y' op
  agreeR : ∀ i, i < a.L → ∀ x x' y y', a.idR.getD i none = some x → a.idR.getD (i + 1) none = some x' →
    b.idR.getD i none = some y → b.idR.getD (i + 1) none = some y' →
    ∀ op, entryCoeff (a.layers.getD i []) x x' op = entryCoeff (b.layers.getD i []) y y' op

namespace MPOM

theorem dist_to_DistO (l r : Option Nat) (h : l = none ∨ l ≠ r) : DistO l r := by
  intro k hl hr
  rcases h with h | h
  · rw [h] at hl; cases hl
  · exact h (by rw [hl, hr])

theorem prefixL_none (a : MPOM α) (i : Nat) (h : prefixL a i = true) (h0 : a.idL.getD i none = none) :
    a.idL.getD (i + 1) none = none := by
  unfold prefixL exL at h
  rw [h0] at h
  cases h1 : a.idL.getD (i + 1) none with
  | none => rfl
  | some k => rw [h1] at h; simp at h

theorem suffixR_none (a : MPOM α) (i : Nat) (h : suffixR a i = true) (h0 : a.idR.getD (i + 1) none = none) :
    a.idR.getD i none = none := by
  unfold suffixR exR at h
  rw [h0] at h
  cases h1 : a.idR.getD i none with
  | none => rfl
  | some k => rw [h1] at h; simp at h

theorem exL_some (a : MPOM α) (j : Nat) (h : exL a j = true) : ∃ k, a.idL.getD j none = some k := by
  unfold exL at h
  cases h1 : a.idL.getD j none with
  | none => rw [h1] at h; cases h
  | some k => exact ⟨k, rfl⟩

theorem exR_some (a : MPOM α) (j : Nat) (h : exR a j = true) : ∃ k, a.idR.getD j none = some k := by
  unfold exR at h
  cases h1 : a.idR.getD j none with
  | none => rw [h1] at h; cases h
  | some k => exact ⟨k, rfl⟩

variable [Semiring α]

/-- the hypotheses of the symbolic theorem, from `AddHyp` -/
theorem symHyp_of_addHyp (a b : MPOM α) (h : AddHyp a b) (rA rB : Nat)
    (hrA : a.idR.getD a.L none = some rA) (hrB : b.idR.getD a.L none = some rB) :
    SymHyp (marks a b) a.layers b.layers a.L rA rB where
  lenA := h.opA.len
  lenB := by rw [h.opB.len, h.sameL]
  finA := hrA
  finB := hrB
  distAL := dist_to_DistO _ _ (h.opA.dist a.L (Nat.le_refl _))
  distBL := dist_to_DistO _ _ (h.opB.dist a.L (Nat.le_of_eq h.sameL))
  site := by
    intro j hj
    have hjb : j < b.L := by rw [← h.sameL]; exact hj
    exact {
      stdA := h.opA.std j hj
      stdB := h.opB.std j hjb
      distA := dist_to_DistO _ _ (h.opA.dist j (by omega))
      distB := dist_to_DistO _ _ (h.opB.dist j (by omega))
      distA' := dist_to_DistO _ _ (h.opA.dist (j + 1) (by omega))
      distB' := dist_to_DistO _ _ (h.opB.dist (j + 1) (by omega))
      prefA := prefixL_none a j (h.opA.pref j hj)
      prefB := prefixL_none b j (h.opB.pref j hjb)
      sufA := suffixR_none a j (h.opA.suf j hj)
      sufB := suffixR_none b j (h.opB.suf j hjb)
      agreeL := h.agreeL j hj
      agreeR := h.agreeR j hj }

/-- the layers of `MPOM.add a b` are the symbolic layers renamed by `phi` -/
theorem addLayer_eq_of_addHyp (a b : MPOM α) (h : AddHyp a b) (i : Nat) (hi : i < a.L) :
    addLayer a b i = ((symLayers (marks a b) a.layers b.layers a.L).getD i []).filterMap
      (relabOpt (phi a b i) (phi a b (i + 1))) := by
  have hib : i < b.L := by rw [← h.sameL]; exact hi
  rw [symLayers_getD _ _ _ _ _ hi]
  exact addLayer_eq a b i
    (rowGroups_eq a b i (h.opA.nde i hi) (h.opB.nde i hib) (h.opA.suf i hi) (h.opB.suf i hib))
    (colGroups_eq a b i (h.opA.nde i hi) (h.opB.nde i hib) (h.opA.pref i hi) (h.opB.pref i hib))

/-- every key of a symbolic layer occurs on its bond -/
theorem symLayer_valid (a b : MPOM α) (h : AddHyp a b) (i : Nat) (hi : i < a.L) :
    ∀ e ∈ (symLayers (marks a b) a.layers b.layers a.L).getD i [], Vb a b i e.kL ∧ Vb a b (i + 1) e.kR := by
  have hib : i < b.L := by rw [← h.sameL]; exact hi
  rw [symLayers_getD _ _ _ _ _ hi]
  intro e he
  unfold symLayer at he
  rcases List.mem_append.1 he with he | he
  · obtain ⟨e0, he0, rfl⟩ := List.mem_map.1 he
    obtain ⟨hb1, hb2⟩ := h.opA.bound i hi e0 (List.mem_filter.1 he0).1
    exact ⟨Vb_injAo a b i e0.kL hb1, Vb_injAo a b (i + 1) e0.kR hb2⟩
  · obtain ⟨e0, he0, rfl⟩ := List.mem_map.1 he
    obtain ⟨hb1, hb2⟩ := h.opB.bound i hib e0 (List.mem_filter.1 he0).1
    exact ⟨Vb_injBo a b i e0.kL hb1, Vb_injBo a b (i + 1) e0.kR hb2⟩

/-- the index of `IdR[L]` of the sum -/
theorem addChi_last (a b : MPOM α) (h : AddHyp a b) :
    phi a b a.L SK.r = some (addChi a b a.L - 1) := by
  have hL := h.opA.Lpos
  have hi : a.L - 1 < a.L := by omega
  have hib : a.L - 1 < b.L := by rw [← h.sameL]; exact hi
  have hcol := colGroups_eq a b (a.L - 1) (h.opA.nde _ hi) (h.opB.nde _ hib) (h.opA.pref _ hi) (h.opB.pref _ hib)
  have e1 : a.L - 1 + 1 = a.L := by omega
  rw [e1] at hcol
  have hR : (exR a a.L || exR b a.L) = true := by rw [h.opA.idRL]; rfl
  unfold addChi
  rw [if_neg (Nat.lt_irrefl _), hcol, mapIdx_natG_dim, hR]
  simp only [phi, phiB, hR, if_true]
  rfl

end MPOM

/-- **`MPO.__add__` denotes the sum — on integer indices, partial marker lists included.**
For two MPOs satisfying `AddHyp` (standard sum form; `IdL` on a prefix, `IdR` on a suffix of the bonds; no dead
ends; agreeing `IdL → IdL` / `IdR → IdR` entries) the MPO built by the executable model of `MPO.__add__`
(block grid, dropped rows/columns, index placement, new markers) denotes the sum of the two denotations:
equality of the coefficient of every operator string, every chain length, all bond dimensions. -/
theorem add_indices {α : Type} [Semiring α] [DecidableEq α] (a b : MPOM α) (h : AddHyp a b) (t : OpStr) :
    coeff (MPOM.add a b).denote t = coeff a.denote t + coeff b.denote t := by
  obtain ⟨lA, hlA⟩ := exL_some a 0 h.opA.idL0
  obtain ⟨lB, hlB⟩ := exL_some b 0 h.opB.idL0
  obtain ⟨rA, hrA⟩ := exR_some a a.L h.opA.idRL
  obtain ⟨rB, hrB⟩ := exR_some b b.L h.opB.idRL
  have hrB' : b.idR.getD a.L none = some rB := by rw [h.sameL]; exact hrB
  rw [denote_eq a lA rA hlA hrA h.opA.lenR, denote_eq b lB rB hlB hrB h.opB.lenR, add_denote]
  have hsym := sym_sum (marks a b) a.layers b.layers a.L rA rB lA lB
    (symHyp_of_addHyp a b h rA rB hrA hrB') hlA hlB t
  rw [← hsym]
  have hL0 : (exL a 0 || exL b 0) = true := by rw [h.opA.idL0]; rfl
  have hRL : (exR a a.L || exR b a.L) = true := by rw [h.opA.idRL]; rfl
  have := relabel_paths (phi a b) (Vb a b) (symLayers (marks a b) a.layers b.layers a.L)
    ((List.range a.L).map (addLayer a b)) a.L (symLayers_length _ _ _ _) (by simp)
    (by
      intro i hi
      rw [← addLayer_eq_of_addHyp a b h i hi]
      simp [List.getD_eq_getElem?_getD, hi])
    (symLayer_valid a b h)
    (fun i K hK => phiB_tot _ _ _ _ K hK)
    (by
      intro i K K' hK _ hKK
      obtain ⟨x, hx⟩ := phiB_tot _ _ _ _ K hK
      exact phiB_inj _ _ _ _ K K' x hx (by rw [← hx]; exact hKK.symm))
    SK.r (addChi a b a.L - 1) hRL (addChi_last a b h)
    a.L 0 (by omega) SK.l 0 hL0 (by simp only [phi, phiB, hL0, if_true]) t
  simpa using this

end TenpyModel.Ops

/-! ## convenience: sufficient conditions that are easier to state / decidable -/
namespace TenpyModel.Ops
open MPOM
variable {α : Type}

theorem bool_nde : ∀ (xl nz xr xl' nz' xr' : Bool), ((xl && xr) || nz) = true → ((xl' && xr') || nz') = true →
    ((!xl || (xl' || nz' || xr')) && (!nz || (nz' || xr')) && (!nz' || (xl || nz)) && (!xr' || (xl || nz || xr)))
      = true := by decide

/-- "a bond that lacks a marker carries at least one other state" implies `noDeadEnd` on every site -/
theorem MPOM.noDeadEnd_of_markers (a : MPOM α) (i : Nat)
    (h : ((exL a i && exR a i) || nzO a i) = true) (h' : ((exL a (i + 1) && exR a (i + 1)) || nzO a (i + 1)) = true) :
    noDeadEnd a i = true :=
  bool_nde _ _ _ _ _ _ h h'

/-- the local coefficient of an entry, from the entry as a formal local operator -/
theorem MPOM.entryCoeff_entry [Semiring α] (m : MPOM α) (i k k' : Nat) (op : String) :
    entryCoeff (m.layers.getD i []) k k' op
      = ((m.entry i k k').map (fun p => if p.1 = op then p.2 else 0)).sum := by
  unfold entryCoeff MPOM.entry
  rw [List.map_map, sum_filter_map']
  apply sum_congr_map
  intro e _
  by_cases h1 : e.kL = k <;> by_cases h2 : e.kR = k' <;> simp [h1, h2]

/-- decidable form of `agreeL`, `agreeR`: the entries are equal as lists of `(name, coefficient)` -/
def AgreeDec (a b : MPOM α) : Prop :=
  ∀ i, i < a.L →
    (∀ x ∈ (a.idL.getD i none).toList, ∀ x' ∈ (a.idL.getD (i + 1) none).toList,
      ∀ y ∈ (b.idL.getD i none).toList, ∀ y' ∈ (b.idL.getD (i + 1) none).toList,
        a.entry i x x' = b.entry i y y') ∧
    (∀ x ∈ (a.idR.getD i none).toList, ∀ x' ∈ (a.idR.getD (i + 1) none).toList,
      ∀ y ∈ (b.idR.getD i none).toList, ∀ y' ∈ (b.idR.getD (i + 1) none).toList,
        a.entry i x x' = b.entry i y y')

instance (a b : MPOM α) [DecidableEq α] : Decidable (AgreeDec a b) := by
  unfold AgreeDec; infer_instance

theorem AddHyp.of_dec [Semiring α] (a b : MPOM α) (hL : a.L = b.L) (ha : a.Operand) (hb : b.Operand)
    (hag : AgreeDec a b) : AddHyp a b where
  sameL := hL
  opA := ha
  opB := hb
  agreeL := by
    intro i hi x x' y y' h1 h2 h3 h4 op
    rw [entryCoeff_entry, entryCoeff_entry,
      (hag i hi).1 x (by rw [h1]; simp) x' (by rw [h2]; simp) y (by rw [h3]; simp) y' (by rw [h4]; simp)]
  agreeR := by
    intro i hi x x' y y' h1 h2 h3 h4 op
    rw [entryCoeff_entry, entryCoeff_entry,
      (hag i hi).2 x (by rw [h1]; simp) x' (by rw [h2]; simp) y (by rw [h3]; simp) y' (by rw [h4]; simp)]

end TenpyModel.Ops

/-! ## non-vacuity: concrete operands run through the executable model -/
namespace TenpyModel.Ops
open MPOM
section examples

/-- markers on every bond: `X X 1 + 2 Z 1 1 + 3 · 1 Z Z + 5 · 1 1 X` -/
def exA3 : MPOM Int :=
  ⟨3, [[⟨0, 0, "Id", 1⟩, ⟨0, 1, "X", 1⟩, ⟨0, 2, "Z", 2⟩, ⟨1, 2, "Id", 1⟩],
       [⟨0, 0, "Id", 1⟩, ⟨1, 2, "X", 1⟩, ⟨0, 1, "Z", 1⟩, ⟨2, 2, "Id", 1⟩],
       [⟨0, 0, "Id", 1⟩, ⟨1, 1, "Z", 3⟩, ⟨2, 1, "Id", 1⟩, ⟨0, 1, "X", 5⟩]],
   [2, 3, 3, 2], [some 0, some 0, some 0, some 0], [some 1, some 2, some 2, some 1]⟩

/-- partial markers (`IdL` on bonds 0, 1; `IdR` on bonds 2, 3), bond dimensions 1, 2, 2, 1:
`Y Y 1 + 7 · 1 W W` -/
def exB3 : MPOM Int :=
  ⟨3, [[⟨0, 0, "Id", 1⟩, ⟨0, 1, "Y", 1⟩],
       [⟨1, 1, "Y", 1⟩, ⟨0, 0, "W", 1⟩],
       [⟨0, 0, "W", 7⟩, ⟨1, 0, "Id", 1⟩]],
   [1, 2, 2, 1], [some 0, some 0, none, none], [none, none, some 1, some 0]⟩

/-- partial markers at unusual positions (`IdL` = 0, 1 on bonds 0, 1; `IdR` = 0, 1, 0 on bonds 1, 2, 3):
`3 Q 1 1 + 2 P P 1 + 4 · 1 Q 1 + 5 · 1 R R` -/
def exC3 : MPOM Int :=
  ⟨3, [[⟨0, 1, "Id", 1⟩, ⟨0, 2, "P", 2⟩, ⟨0, 0, "Q", 3⟩],
       [⟨0, 1, "Id", 1⟩, ⟨2, 1, "P", 1⟩, ⟨1, 0, "R", 1⟩, ⟨1, 1, "Q", 4⟩],
       [⟨0, 0, "R", 5⟩, ⟨1, 0, "Id", 1⟩]],
   [1, 3, 2, 1], [some 0, some 1, none, none], [none, some 0, some 1, some 0]⟩

theorem exA3_operand : exA3.Operand := by
  refine ⟨?_, ?_, ?_, ?_, ?_, ?_, ?_, ?_, ?_, ?_, ?_⟩ <;> decide

theorem exB3_operand : exB3.Operand := by
  refine ⟨?_, ?_, ?_, ?_, ?_, ?_, ?_, ?_, ?_, ?_, ?_⟩ <;> decide

theorem exC3_operand : exC3.Operand := by
  refine ⟨?_, ?_, ?_, ?_, ?_, ?_, ?_, ?_, ?_, ?_, ?_⟩ <;> decide

/-- the hypotheses of `add_indices` hold for (full markers) + (partial markers), in both orders, and for two
operands with partial markers -/
theorem exAB_hyp : AddHyp exA3 exB3 := AddHyp.of_dec _ _ rfl exA3_operand exB3_operand (by decide)
theorem exBA_hyp : AddHyp exB3 exA3 := AddHyp.of_dec _ _ rfl exB3_operand exA3_operand (by decide)
theorem exBC_hyp : AddHyp exB3 exC3 := AddHyp.of_dec _ _ rfl exB3_operand exC3_operand (by decide)

/-- hence (instances of the theorem): -/
example (t : OpStr) : coeff (MPOM.add exA3 exB3).denote t = coeff exA3.denote t + coeff exB3.denote t :=
  add_indices _ _ exAB_hyp t
example (t : OpStr) : coeff (MPOM.add exB3 exC3).denote t = coeff exB3.denote t + coeff exC3.denote t :=
  add_indices _ _ exBC_hyp t

/-- the same, computed by the executable model -/
example : (MPOM.add exA3 exB3).chi = [2, 4, 4, 2] ∧ (MPOM.add exA3 exB3).idR = [some 1, some 3, some 3, some 1] := by
  decide
example : canon 0 (MPOM.add exA3 exB3).denote = canon 0 (exA3.denote ++ exB3.denote) := by decide +kernel
example : canon 0 (MPOM.add exB3 exA3).denote = canon 0 (exB3.denote ++ exA3.denote) := by decide +kernel
example : canon 0 (MPOM.add exB3 exC3).denote = canon 0 (exB3.denote ++ exC3.denote) := by decide +kernel
/-- the sum of two operands with partial markers has partial markers itself -/
example : (MPOM.add exB3 exC3).idL = [some 0, some 0, none, none] ∧
    (MPOM.add exB3 exC3).idR = [none, some 3, some 2, some 0] ∧ (MPOM.add exB3 exC3).chi = [1, 4, 3, 1] := by
  decide +kernel
example : (MPOM.add exB3 exC3).denote =
    [(["Id", "W", "W"], 7), (["Id", "R", "R"], 5), (["Id", "Q", "Id"], 4), (["Y", "Y", "Id"], 1),
     (["P", "P", "Id"], 2), (["Q", "Id", "Id"], 3)] := by decide +kernel

/-- `noDeadEnd` cannot be dropped: on bond 1 of `exD3` the other state has no block to its right (all other
fields of `Operand` hold), the row group of site 1 is dropped but the column group of site 0 is not, the
indices of the second summand shift, and the model of `__add__` returns `X Y 1` in place of `Y Y 1`
(tenpy itself would fail in the MPO constructor: the legs of `W_0` and `W_1` do not match). -/
def exD3 : MPOM Int :=
  ⟨3, [[⟨0, 0, "Id", 1⟩, ⟨0, 1, "X", 1⟩], [⟨0, 0, "Id", 1⟩], [⟨0, 0, "Z", 1⟩]],
   [1, 2, 1, 1], [some 0, some 0, some 0, none], [none, none, none, some 0]⟩

example : noDeadEnd exD3 1 = false ∧
    (MPOM.add exD3 exB3).denote = [(["Id", "Id", "Z"], 1), (["Id", "W", "W"], 7), (["X", "Y", "Id"], 1)] ∧
    exD3.denote ++ exB3.denote = [(["Id", "Id", "Z"], 1), (["Id", "W", "W"], 7), (["Y", "Y", "Id"], 1)] := by
  decide +kernel

end examples
end TenpyModel.Ops

open TenpyModel.Ops in
#print axioms add_indices
