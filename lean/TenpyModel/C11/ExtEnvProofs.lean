import TenpyModel.C11.ExtEnvProofs3
import TenpyModel.C11.ExtEnvProofs4
/-!
# C11 extension: helper lemmas for `PropsExtEnv.lean`

* `ExtEnvProofs1`  list sums (`lsum`), sparse vectors (`KVec.wsum`, `stepL`, `stepR`, `compress`, `dot`), weighted
                   path sums with a final weight (`KVec.wpathsF`), multilinearity of `tri`, the product automaton
                   `prod3` (`wpathsF_prod3`)
* `ExtEnvProofs2`  `full_contraction_spec` (`Env.contraction_val`: left run, absorbed singular values, right run)
* `ExtEnvProofs3`  `tri_congr_mid`, `expectation_value_plus_hc_spec`, `expectation_value_add_spec`, `env_rejects`
* `ExtEnvProofs4`  `variance_spec` (`prod4`, `quadN`)
-/
