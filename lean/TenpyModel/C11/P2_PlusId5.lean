import TenpyModel.C11.P2_PlusId4
/-!
# C11 / `plus_identity`, index-level model: one site

Row functionals of the three groups of rows of `piLayerF` (`IdL` row, inner rows, `IdR` row) and the one-site
step of the suffix-sum invariant (`piStep_R`, `piStep_O`, `piStep_L`), index-level analogues of `plusStep_*`.
-/
namespace TenpyModel.Ops
open MPOM
variable {α : Type} [CommSemiring α]

/-- identity as a local formal operator -/
def idOne : Nat → List (String × α) := fun _ => [("Id", 1)]

/-- the `IdL` row -/
def piRow0 (m : MPOM α) (F : PFac α) (k : Nat) : List (Edge Nat α) :=
  scaledE 0 0 F.d (idOne k)
    ++ ((m.blocks (k + 1)).other.zipIdx.flatMap (fun rp => scaledE 0 (rp.2 + 1) F.cLO (m.entry k (mL m k) rp.1)))
    ++ scaledE 0 (mChi m (k + 1) - 1) F.cLR (m.entry k (mL m k) (mR m (k + 1)))
    ++ scaledE 0 (mChi m (k + 1) - 1) F.a (idOne k)

/-- the inner rows -/
def piMid (m : MPOM α) (F : PFac α) (k : Nat) : List (Edge Nat α) :=
  (m.blocks k).other.zipIdx.flatMap (fun lq =>
      ((m.blocks (k + 1)).other.zipIdx.flatMap (fun rp => scaledE (lq.2 + 1) (rp.2 + 1) F.cOO (m.entry k lq.1 rp.1)))
      ++ scaledE (lq.2 + 1) (mChi m (k + 1) - 1) F.cOR (m.entry k lq.1 (mR m (k + 1))))

/-- the `IdR` row -/
def piLast (m : MPOM α) (F : PFac α) (k : Nat) : List (Edge Nat α) :=
  scaledE (mChi m k - 1) (mChi m (k + 1) - 1) F.g (idOne k)

theorem piLayerF_split (m : MPOM α) (F : PFac α) (k : Nat) :
    piLayerF m idOne F k = piRow0 m F k ++ piMid m F k ++ piLast m F k := rfl

/-- value of an inner row of the new layer, as a function of the old row index `y` -/
def midVal (m : MPOM α) (F : PFac α) (k : Nat) (op : String) (R' : Nat → α) (y : Nat) : α :=
  ((m.blocks (k + 1)).other.zipIdx.map (fun rp =>
      F.cOO * (entryCoeff (m.layers.getD k []) y rp.1 op * R' (rp.2 + 1)))).sum
    + F.cOR * (entryCoeff (m.layers.getD k []) y (mR m (k + 1)) op * R' (mChi m (k + 1) - 1))

theorem rowSum_piRow0_zero (m : MPOM α) (F : PFac α) (k : Nat) (op : String) (R' : Nat → α) :
    rowSum (piRow0 m F k) 0 op R' =
      (if "Id" = op then F.d * R' 0 else 0)
      + ((m.blocks (k + 1)).other.zipIdx.map (fun rp =>
          F.cLO * (entryCoeff (m.layers.getD k []) (mL m k) rp.1 op * R' (rp.2 + 1)))).sum
      + F.cLR * (entryCoeff (m.layers.getD k []) (mL m k) (mR m (k + 1)) op * R' (mChi m (k + 1) - 1))
      + (if "Id" = op then F.a * R' (mChi m (k + 1) - 1) else 0) := by
  unfold piRow0 idOne
  simp only [rowSum_append, rowSum_flatMap, rowSum_scaled_entry, rowSum_scaled_id, true_and, if_true]

theorem rowSum_piRow0_ne (m : MPOM α) (F : PFac α) (k : Nat) (K : Nat) (hK : K ≠ 0) (op : String) (R' : Nat → α) :
    rowSum (piRow0 m F k) K op R' = 0 := by
  unfold piRow0 idOne
  have h0 : ¬ (0 = K) := fun h => hK h.symm
  simp only [rowSum_append, rowSum_flatMap, rowSum_scaled_entry, rowSum_scaled_id, h0, false_and, if_false,
    add_zero, sum_map_zero']

theorem rowSum_piMid (m : MPOM α) (F : PFac α) (k : Nat) (K : Nat) (op : String) (R' : Nat → α) :
    rowSum (piMid m F k) K op R' =
      ((m.blocks k).other.zipIdx.map (fun lq => if lq.2 + 1 = K then midVal m F k op R' lq.1 else 0)).sum := by
  unfold piMid
  simp only [rowSum_append, rowSum_flatMap, rowSum_scaled_entry]
  apply sum_congr_map
  intro lq _
  by_cases h : lq.2 + 1 = K
  · simp only [if_pos h, midVal]
  · simp only [if_neg h, sum_map_zero', add_zero]

theorem rowSum_piMid_pick (m : MPOM α) (F : PFac α) (k : Nat) (x q : Nat)
    (hx : (x, q) ∈ (m.blocks k).other.zipIdx) (op : String) (R' : Nat → α) :
    rowSum (piMid m F k) (q + 1) op R' = midVal m F k op R' x := by
  rw [rowSum_piMid, ← sum_zipIdx_pick (m.blocks k).other 0 x q hx (midVal m F k op R')]
  apply sum_congr_map
  intro lq _
  by_cases h : lq.2 = q
  · rw [if_pos h, if_pos (by omega)]
  · rw [if_neg h, if_neg (by omega)]

theorem rowSum_piMid_none (m : MPOM α) (F : PFac α) (k : Nat) (K : Nat)
    (hK : ∀ lq ∈ (m.blocks k).other.zipIdx, lq.2 + 1 ≠ K) (op : String) (R' : Nat → α) :
    rowSum (piMid m F k) K op R' = 0 := by
  rw [rowSum_piMid]
  apply List.sum_eq_zero
  intro z hz
  obtain ⟨lq, hlq, rfl⟩ := List.mem_map.1 hz
  rw [if_neg (hK lq hlq)]

theorem rowSum_piLast (m : MPOM α) (F : PFac α) (k : Nat) (K : Nat) (op : String) (R' : Nat → α) :
    rowSum (piLast m F k) K op R'
      = if mChi m k - 1 = K ∧ "Id" = op then F.g * R' (mChi m (k + 1) - 1) else 0 := by
  unfold piLast idOne
  rw [rowSum_scaled_id]

end TenpyModel.Ops

namespace TenpyModel.Ops
open MPOM
variable {α : Type} [CommSemiring α]

/-- standard form of site `k` on integer indices: `l`, `r` = `IdL`, `IdR` on the left bond, `l'`, `r'` on the right -/
structure PiStdSite (la : List (Edge Nat α)) (l r l' r' : Nat) : Prop where
  intoL : ∀ e ∈ la, e.kR = l' → e.kL = l
  fromR : ∀ e ∈ la, e.kL = r → e.kR = r'
  idL : ∀ op, entryCoeff la l l' op = if op = "Id" then 1 else 0
  idR : ∀ op, entryCoeff la r r' op = if op = "Id" then 1 else 0

/-- what site `k` and its two bonds have to satisfy -/
structure SiteOK (m : MPOM α) (k : Nat) : Prop where
  hl : m.idL.getD k none = some (mL m k)
  hr : m.idR.getD k none = some (mR m k)
  hne : mL m k ≠ mR m k
  hlc : mL m k < mChi m k
  hrc : mR m k < mChi m k
  hl' : m.idL.getD (k + 1) none = some (mL m (k + 1))
  hr' : m.idR.getD (k + 1) none = some (mR m (k + 1))
  hne' : mL m (k + 1) ≠ mR m (k + 1)
  hlc' : mL m (k + 1) < mChi m (k + 1)
  hrc' : mR m (k + 1) < mChi m (k + 1)
  edgesR : ∀ e ∈ m.layers.getD k [], e.kR < mChi m (k + 1)
  std : PiStdSite (m.layers.getD k []) (mL m k) (mR m k) (mL m (k + 1)) (mR m (k + 1))

/-- sum over the inner columns of the old layer -/
def otherSum (m : MPOM α) (k : Nat) (a : Nat) (op : String) (H' : Nat → α) : α :=
  ((m.blocks (k + 1)).other.map (fun x => entryCoeff (m.layers.getD k []) a x op * H' x)).sum

/-- the old row functional in matrix form: columns `IdL`, `IdR`, other -/
theorem rowSum_old (m : MPOM α) (k : Nat) (h : SiteOK m k) (a : Nat) (op : String) (H' : Nat → α) :
    rowSum (m.layers.getD k []) a op H' =
      entryCoeff (m.layers.getD k []) a (mL m (k + 1)) op * H' (mL m (k + 1))
      + (entryCoeff (m.layers.getD k []) a (mR m (k + 1)) op * H' (mR m (k + 1)) + otherSum m k a op H') := by
  rw [rowSum_eq_entries _ a op H' _ (nodup_all m (k + 1) h.hl' h.hr' h.hne')
    (fun e he => cover_all m (k + 1) h.hl' h.hr' e.kR (h.edgesR e he))]
  simp only [List.map_cons, List.sum_cons, otherSum]

/-- relation of the suffix values on the right bond of site `k`: `R'` new automaton, `H'` old automaton -/
structure SufRelI (m : MPOM α) (k : Nat) (R' H' : Nat → α) (δ' G' f' D' A' : α) : Prop where
  hR : R' (mChi m (k + 1) - 1) = G' * δ'
  hHr : H' (mR m (k + 1)) = δ'
  hO : ∀ x p, (x, p) ∈ (m.blocks (k + 1)).other.zipIdx → R' (p + 1) = f' * H' x
  hL : R' 0 = D' * H' (mL m (k + 1)) + A' * δ'

/-- inner columns of the new layer: the factor `f'` comes out -/
theorem otherSum_new (m : MPOM α) (k : Nat) (R' H' : Nat → α) (δ' G' f' D' A' : α)
    (hs : SufRelI m k R' H' δ' G' f' D' A') (c : α) (a : Nat) (op : String) :
    ((m.blocks (k + 1)).other.zipIdx.map (fun rp =>
        c * (entryCoeff (m.layers.getD k []) a rp.1 op * R' (rp.2 + 1)))).sum
      = (c * f') * otherSum m k a op H' := by
  rw [otherSum, ← sum_map_mul_left']
  refine Eq.trans ?_ (sum_zipIdx_fst (m.blocks (k + 1)).other
    (fun x => c * f' * (entryCoeff (m.layers.getD k []) a x op * H' x)))
  apply sum_congr_map
  intro rp hrp
  rw [hs.hO rp.1 rp.2 hrp]
  ring

theorem old_R (m : MPOM α) (k : Nat) (h : SiteOK m k) (op : String) (H' : Nat → α) :
    rowSum (m.layers.getD k []) (mR m k) op H' = (if op = "Id" then 1 else 0) * H' (mR m (k + 1)) := by
  rw [rowSum_old m k h, h.std.idR op]
  have e1 : entryCoeff (m.layers.getD k []) (mR m k) (mL m (k + 1)) op = 0 :=
    entryCoeff_eq_zero _ _ _ _ (fun e he hh => h.hne ((h.std.intoL e he hh.2).symm.trans hh.1))
  have e2 : otherSum m k (mR m k) op H' = 0 := by
    unfold otherSum
    apply List.sum_eq_zero
    intro z hz
    obtain ⟨x, hx, rfl⟩ := List.mem_map.1 hz
    have hx' := (mem_other m (k + 1) h.hl' h.hr' x).1 hx
    rw [entryCoeff_eq_zero _ _ _ _ (fun e he hh => hx'.2.2 (hh.2.symm.trans (h.std.fromR e he hh.1))), zero_mul]
  rw [e1, e2, zero_mul, zero_add, add_zero]

/-- one site, from `IdR` -/
theorem piStep_R (m : MPOM α) (k : Nat) (h : SiteOK m k) (F : PFac α) (R' H' : Nat → α)
    (δ' G' f' D' A' G f D A : α) (hs : SufRelI m k R' H' δ' G' f' D' A')
    (hc : FacCompat F G' f' D' A' G f D A) (op : String) :
    rowSum (piLayerF m idOne F k) (mChi m k - 1) op R' = G * ((if op = "Id" then 1 else 0) * δ') := by
  have hlen := length_other m k h.hl h.hr h.hne h.hlc h.hrc
  rw [piLayerF_split, rowSum_append, rowSum_append, rowSum_piRow0_ne m F k _ (by omega),
    rowSum_piMid_none m F k _ (fun lq hlq => by
      have := List.snd_lt_of_mem_zipIdx hlq
      omega),
    rowSum_piLast, zero_add, zero_add, hs.hR, ← mul_assoc, hc.hg]
  by_cases ho : op = "Id"
  · subst ho; simp
  · have : ¬ (mChi m k - 1 = mChi m k - 1 ∧ "Id" = op) := fun hh => ho hh.2.symm
    rw [if_neg this, if_neg ho]; simp

/-- one site, from an inner state -/
theorem piStep_O (m : MPOM α) (k : Nat) (h : SiteOK m k) (F : PFac α) (R' H' : Nat → α)
    (δ' G' f' D' A' G f D A : α) (hs : SufRelI m k R' H' δ' G' f' D' A')
    (hc : FacCompat F G' f' D' A' G f D A) (x q : Nat) (hx : (x, q) ∈ (m.blocks k).other.zipIdx) (op : String) :
    rowSum (piLayerF m idOne F k) (q + 1) op R' = f * rowSum (m.layers.getD k []) x op H' := by
  have hlen := length_other m k h.hl h.hr h.hne h.hlc h.hrc
  have hq := List.snd_lt_of_mem_zipIdx hx
  have hxo := (mem_other m k h.hl h.hr x).1 (List.fst_mem_of_mem_zipIdx hx)
  simp only at hq hxo
  have hn : ¬ (mChi m k - 1 = q + 1 ∧ "Id" = op) := fun hh => by omega
  rw [piLayerF_split, rowSum_append, rowSum_append, rowSum_piRow0_ne m F k _ (by omega),
    rowSum_piMid_pick m F k x q hx, rowSum_piLast, if_neg hn, zero_add, add_zero, midVal,
    otherSum_new m k R' H' δ' G' f' D' A' hs, rowSum_old m k h, hs.hR, hs.hHr, hc.hOO, ← hc.hOR]
  have e1 : entryCoeff (m.layers.getD k []) x (mL m (k + 1)) op = 0 :=
    entryCoeff_eq_zero _ _ _ _ (fun e he hh => hxo.2.1 (hh.1.symm.trans (h.std.intoL e he hh.2)))
  rw [e1]
  ring

/-- one site, from `IdL` -/
theorem piStep_L (m : MPOM α) (k : Nat) (h : SiteOK m k) (F : PFac α) (R' H' : Nat → α)
    (δ' G' f' D' A' G f D A : α) (hs : SufRelI m k R' H' δ' G' f' D' A')
    (hc : FacCompat F G' f' D' A' G f D A) (op : String) :
    rowSum (piLayerF m idOne F k) 0 op R'
      = D * rowSum (m.layers.getD k []) (mL m k) op H' + A * ((if op = "Id" then 1 else 0) * δ') := by
  have hlen := length_other m k h.hl h.hr h.hne h.hlc h.hrc
  have hn : ¬ (mChi m k - 1 = 0 ∧ "Id" = op) := fun hh => by omega
  rw [piLayerF_split, rowSum_append, rowSum_append, rowSum_piRow0_zero,
    rowSum_piMid_none m F k 0 (fun lq _ => by omega), rowSum_piLast, if_neg hn, add_zero, add_zero,
    otherSum_new m k R' H' δ' G' f' D' A' hs, rowSum_old m k h, h.std.idL op, hs.hR, hs.hHr, hs.hL,
    hc.hLO]
  have hE : ∀ E : α, F.cLR * (E * (G' * δ')) = (F.cLR * G') * (E * δ') := fun E => by ring
  rw [hE, hc.hLR, ← hc.hA, ← hc.hd]
  by_cases ho : op = "Id"
  · subst ho
    simp only [if_true]
    ring
  · have : ¬ ("Id" = op) := fun hh => ho hh.symm
    rw [if_neg this, if_neg this, if_neg ho]
    ring

end TenpyModel.Ops
