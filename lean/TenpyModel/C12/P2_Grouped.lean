import TenpyModel.C12.PropsJW
/-! `GroupedSite`: Kronecker factors as Jordan–Wigner images inside the group. -/
namespace TenpyModel.C12

/-- Kronecker factor on sub-site `k` described by a Jordan–Wigner image (`[]` = identity) -/
def kronFactor : Word → String
  | [] => "Id"
  | x :: _ => x

/-- the grouped operator for operator `o` of sub-site `i` (of `n`): on every sub-site `k` the factor
is what the Jordan–Wigner image of `o` at position `i` *within the group* puts there -/
def gopOf (n i : Nat) (lbl : String) (o : SubOp) : GOp :=
  ⟨o.name ++ lbl, o.needJW, o.hc.map (· ++ lbl),
   (List.range n).map (fun (k : Nat) => kronFactor (imgAt (k : Int) ([o.name], (i : Int), o.needJW)))⟩

theorem kronFactor_img (k i : Nat) (name : String) (odd : Bool) :
    kronFactor (imgAt (k : Int) ([name], (i : Int), odd)) =
      if k = i then name else if k < i ∧ odd then "JW" else "Id" := by
  unfold imgAt
  by_cases h1 : k = i
  · simp [h1, kronFactor]
  · have h1' : ¬ ((k : Int) = (i : Int)) := by omega
    by_cases h2 : k < i ∧ odd = true
    · have h2' : (k : Int) < (i : Int) ∧ odd = true := ⟨by omega, h2.2⟩
      simp [h1, h1', h2, h2', kronFactor]
    · have h2' : ¬ ((k : Int) < (i : Int) ∧ odd = true) := fun h => h2 ⟨by omega, h.2⟩
      simp only [h1', if_false, h2', h1, h2, kronFactor]

end TenpyModel.C12
