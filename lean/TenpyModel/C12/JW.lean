/-!
C12 model, part 3: Jordan–Wigner bookkeeping as symbolic functions on operator names
(core Lean only).

An operator name is a `Word` = list of atomic names (python: names separated by whitespace,
`get_op` multiplies them left to right).  A site is abstracted to its `need_JW_string` set.

mirrors
* `Site.op_needs_JW`, `Site.multiply_op_names`                      (tenpy/networks/site.py)
* `order_combine_term`, `CouplingTerms.coupling_term_handle_JW`,
  `MultiCouplingTerms.multi_coupling_term_handle_JW`                (tenpy/networks/terms.py)
* `MPS._term_to_ops_list`, the `autoJW` decision of `MPS.correlation_function`
                                                                    (tenpy/networks/mps.py)
* the operator table of `GroupedSite.__init__` (JW of the sites to the left folded in),
  `set_common_charges` incl. `_set_common_charges_charge_to_JW_parity`
-/
namespace TenpyModel.C12

abbrev Word := List String

/-- python `name.split()` -/
def splitWSAux : List Char → List Char → List String
  | [], cur => if cur.isEmpty then [] else [String.ofList cur.reverse]
  | c :: cs, cur =>
    if c.isWhitespace then
      (if cur.isEmpty then splitWSAux cs [] else String.ofList cur.reverse :: splitWSAux cs [])
    else splitWSAux cs (c :: cur)

def splitWS (s : String) : Word := splitWSAux s.toList []

/-- `Site.op_needs_JW`: parity of the number of atomic names in `need_JW_string`
(python raises IndexError on an empty name; never generated) -/
def opNeedsJW (njw : List String) : Word → Bool
  | [] => false
  | n :: ns => ns.foldl (fun acc op => if njw.contains op then !acc else acc) (njw.contains n)

/-- `Site.multiply_op_names` -/
def multiplyOpNames (names : List Word) : Word :=
  if names.isEmpty then ["Id"] else names.flatten

/-- the sites of a chain: each one abstracted to its `need_JW_string` -/
abbrev JWSites := List (List String)

/-- `sites[i % L]` -/
def siteAt (sites : JWSites) (i : Int) : List String :=
  sites.getD (i % (sites.length : Int)).toNat []

/-! ## `order_combine_term` -/

structure TC where
  op  : Word
  i   : Int
  odd : Bool
deriving DecidableEq, Repr

/-- inner loop `for s in range(n)`: compare/swap positions `s, s+1`; the Bool is "sign flipped" -/
def bubblePass : Nat → List TC → List TC × Bool
  | n + 1, a :: b :: rest =>
    if a.i > b.i then
      let r := bubblePass n (a :: rest)
      (b :: r.1, (a.odd && b.odd) != r.2)
    else
      let r := bubblePass n (b :: rest)
      (a :: r.1, r.2)
  | _, l => (l, false)

/-- outer loop `for s_max in range(N - 1, 0, -1)` (argument = first `s_max`) -/
def bubbleSort : Nat → List TC → List TC × Bool
  | 0, l => (l, false)
  | s + 1, l =>
    let r := bubblePass (s + 1) l
    let r2 := bubbleSort s r.1
    (r2.1, r.2 != r2.2)

/-- `itertools.groupby(terms_commute, lambda t: t[1])` -/
def groupBySite : List TC → List (Int × List Word)
  | [] => []
  | t :: ts =>
    match groupBySite ts with
    | (i, ops) :: gs => if i = t.i then (i, t.op :: ops) :: gs else (t.i, [t.op]) :: (i, ops) :: gs
    | [] => [(t.i, [t.op])]

def toTC (sites : JWSites) (term : List (Word × Int)) : List TC :=
  term.map (fun t => ⟨t.1, t.2, opNeedsJW (siteAt sites t.2) t.1⟩)

/-- returns `(combined_term, overall_sign)` -/
def orderCombineTerm (sites : JWSites) (term : List (Word × Int)) : List (Word × Int) × Int :=
  let r := bubbleSort (term.length - 1) (toTC sites term)
  ((groupBySite r.1).map (fun g => (multiplyOpNames g.2, g.1)), if r.2 then -1 else 1)

/-! ## `coupling_term_handle_JW`, `multi_coupling_term_handle_JW` -/

/-- returns `(i, j, op_i, op_j, op_string)` -/
def couplingHandleJW (sites : JWSites) (ti tj : Word × Int) (opString : Option String) :
    Except String (Int × Int × Word × Word × String) :=
  let needI := opNeedsJW (siteAt sites ti.2) ti.1
  let needJ := opNeedsJW (siteAt sites tj.2) tj.1
  let os : Except String String :=
    match opString with
    | some s => .ok s
    | none =>
      if needI && needJ then .ok "JW"
      else if needI || needJ then .error "ValueError: only one needs JW"
      else .ok "Id"
  match os with
  | .error e => .error e
  | .ok s =>
    let opI := if s == "JW" then multiplyOpNames [ti.1, ["JW"]] else ti.1
    .ok (ti.2, tj.2, opI, tj.1, s)

/-- the `for x in range(number_ops)` loop; state = `JW_right`.
returns `(ops, new_op_str (one entry too much), final JW_right)` -/
def jwLoop : Bool → List (Word × Bool) → List Word × List String × Bool
  | jw, [] => ([], [], jw)
  | jw, (op, odd) :: rest =>
    let jw' := if odd then !jw else jw
    let r := jwLoop jw' rest
    ((if jw' then multiplyOpNames [op, ["JW"]] else op) :: r.1,
     (if jw' then "JW" else "Id") :: r.2.1, r.2.2)

def ascending : List Int → Bool
  | a :: b :: rest => a < b && ascending (b :: rest)
  | _ => true

/-- returns `(ijkl, ops_ijkl, op_string)` -/
def multiHandleJW (sites : JWSites) (term : List (Word × Int)) (opString : Option String) :
    Except String (List Int × List Word × List String) :=
  let L : Int := sites.length
  if term.length < 2 then .error "ValueError: onsite term" else
  let ops := term.map (·.1)
  let ijkl := term.map (·.2)
  if !ascending ijkl then .error "AssertionError: not ascending" else
  let odd := term.map (fun t => opNeedsJW (siteAt sites t.2) t.1)
  let opString := if !odd.any id then some "Id" else opString
  let i0 := ijkl.headD 0
  let ijkl := if 0 ≤ i0 ∧ i0 < L then ijkl else ijkl.map (· + (i0 % L - i0))
  match opString with
  | some s => .ok (ijkl, ops, List.replicate (term.length - 1) s)
  | none =>
    let r := jwLoop false (ops.zip odd)
    if r.2.2 then .error "ValueError: odd number of JW" else .ok (ijkl, r.1, r.2.1.dropLast)

/-! ## `MPS._term_to_ops_list` -/

def minInt : List Int → Int
  | [] => 0
  | a :: as => as.foldl min a

def maxInt : List Int → Int
  | [] => 0
  | a :: as => as.foldl max a

/-- one iteration of `for op, i in term` on the list-of-lists `ops`; `j = i - i_min` -/
def opsStep (ops : List (List Word)) (op : Word) (j : Nat) (odd : Bool) : List (List Word) :=
  ops.mapIdx (fun k l => if k = j then l ++ [op] else if k < j ∧ odd then l ++ [["JW"]] else l)

/-- returns `(per site the list handed to multiply_operators, i_min + i_offset, has_extra_JW)` -/
def termToOpsList (sites : JWSites) (term : List (Word × Int)) (autoJW : Bool) (iOffset : Int)
    (jwFromRight : Option Bool) : List (List Word) × Int × Bool :=
  let iMin := minInt (term.map (·.2))
  let iMax := maxInt (term.map (·.2))
  let ops0 : List (List Word) := List.replicate (iMax - iMin + 1).toNat []
  let r := term.foldl (fun (acc : List (List Word) × Nat) t =>
      let odd := autoJW && opNeedsJW (siteAt sites (t.2 + iOffset)) t.1
      (opsStep acc.1 t.1 (t.2 - iMin).toNat odd, if odd then acc.2 + 1 else acc.2)) (ops0, 0)
  let count := r.2
  -- JW_from_right None: decide from the parity; count -= 1 and count += 1 cancel
  let (fromRight, count) : Bool × Nat :=
    match jwFromRight with
    | none => (count % 2 == 1, count)
    | some true => (true, count + 1)
    | some false => (false, count)
  let ops := if fromRight then r.1.map (fun l => l ++ [["JW"]]) else r.1
  (ops, iMin + iOffset, count % 2 == 1)

/-! ## `MPS.correlation_function`: the `autoJW` decision (all-string operators)

`need_JW` is collected with `ops1` on `sites1` and `ops2` on `sites2`. -/

def pyIdx (l : List Word) (i : Int) : Word := l.getD (i % (l.length : Int)).toNat []

/-- returns the `opstr` chosen (`none` = unchanged, i.e. no string) -/
def corrAutoJW (sites : JWSites) (ops1 ops2 : List Word) (sites1 sites2 : List Int) (strOnFirst : Bool) :
    Except String (Option String) :=
  let need := sites1.map (fun i => opNeedsJW (siteAt sites i) (pyIdx ops1 i)) ++
              sites2.map (fun j => opNeedsJW (siteAt sites j) (pyIdx ops2 j))
  if need.any id then
    if !need.all id then .error "ValueError: some but not all need JW"
    else if !strOnFirst then .error "ValueError: need JW but str_on_first=False"
    else .ok (some "JW")
  else .ok none

/-! ## `GroupedSite.__init__`: which Kronecker factors make up each operator -/

structure SubOp where
  name   : String
  needJW : Bool
  hc     : Option String
deriving Repr

structure GOp where
  name    : String
  needJW  : Bool
  hc      : Option String
  factors : List String     -- one atomic operator name per grouped site
deriving Repr

/-- `subs[i]` = `sites[i].onsite_ops` (sorted by name) with flags; `Id` entries are skipped -/
def groupedOps (subs : List (List SubOp)) (labels : List String) : List GOp :=
  let n := subs.length
  [⟨"Id", false, some "Id", List.replicate n "Id"⟩, ⟨"JW", true, some "JW", List.replicate n "JW"⟩] ++
  (subs.zipIdx.flatMap (fun (ops, i) =>
    let lbl := labels.getD i ""
    (ops.filter (fun o => o.name != "Id")).map (fun o =>
      ⟨o.name ++ lbl, o.needJW, o.hc.map (· ++ lbl),
       (List.range n).map (fun k => if k = i then o.name else if k < i ∧ o.needJW then "JW" else "Id")⟩)))

/-! ## `set_common_charges` -/

/-- one old charge `(factor, site_index, old_charge_index)` -/
abbrev CTerm := Int × Nat × Nat

def addToNamed (name : String) (t : CTerm) : List (Option String × List CTerm) → List (Option String × List CTerm)
  | [] => [(some name, [t])]
  | (n, l) :: rest => if n == some name then (n, l ++ [t]) :: rest else (n, l) :: addToNamed name t rest

/-- `new_charges='same'`: charges with equal names are added up (names `None` stay independent) -/
def commonSame (names : List (List (Option String))) : List (List CTerm) :=
  let r := names.zipIdx.foldl (fun (acc : List (Option String × List CTerm)) (ns, s) =>
    ns.zipIdx.foldl (fun acc (n, i) =>
      match n with
      | none => acc ++ [(none, [((1 : Int), s, i)])]
      | some nm => addToNamed nm (1, s, i) acc) acc) []
  r.map (·.2)

def commonIndependent (qnumbers : List Nat) : List (List CTerm) :=
  qnumbers.zipIdx.flatMap (fun (q, s) => (List.range q).map (fun i => [((1 : Int), s, i)]))

/-- default `new_mod`: the `mod` of the first old charge; `none` = "different mod nature" error -/
def commonMod (mods : List (List Nat)) (newCharges : List (List CTerm)) : Option (List Nat) :=
  newCharges.mapM (fun nc =>
    match nc with
    | [] => none
    | (_, s, oi) :: _ =>
      let m := (mods.getD s []).getD oi 1
      if nc.all (fun t => (mods.getD t.2.1 []).getD t.2.2 1 == m) then some m else none)

/-- new flat charge of one basis state of site `s` with old charge vector `old` -/
def commonCharge (newCharges : List (List CTerm)) (newMod : List Nat) (s : Nat) (old : List Int) : List Int :=
  makeValid' newMod (newCharges.map (fun nc =>
    nc.foldl (fun acc t => if t.2.1 = s then acc + t.1 * old.getD t.2.2 0 else acc) 0))
where
  makeValid' (mods : List Nat) (q : List Int) : List Int :=
    List.zipWith (fun (m : Nat) (x : Int) => if m ≤ 1 then x else x % (m : Int)) mods q

def sameSet (a b : List CTerm) : Bool := a.all b.contains && b.all a.contains
def subSet (a b : List CTerm) : Bool := a.all b.contains

/-- `_set_common_charges_charge_to_JW_parity` -/
def commonC2JW (c2jw : List (Option (List Int))) (newCharges : List (List CTerm)) (newMod : List Nat) :
    Option (List Int) :=
  match c2jw.mapM id with
  | none => none
  | some ps =>
    let need : List CTerm := ps.zipIdx.flatMap (fun (par, s) =>
      par.zipIdx.filterMap (fun (p, oi) => if p != 0 then some ((1 : Int), s, oi) else none))
    let zeros : List Int := newCharges.map (fun _ => 0)
    if need.isEmpty then some zeros else
    let cands := (newCharges.zip newMod).zipIdx.filter (fun ((_, m), _) => m == 1 || m % 2 == 0)
    match cands.find? (fun ((nc, _), _) => sameSet nc need) with
    | some (_, ni) =>
      -- an exact match returns immediately, whatever subsets were recorded before it
      some (zeros.set ni 1)
    | none =>
      let subs := cands.filter (fun ((nc, _), _) => subSet nc need)
      let r := subs.foldl (fun (acc : List Int × List CTerm) ((nc, _), ni) =>
        if subSet nc acc.2 then (acc.1.set ni 1, acc.2.filter (fun t => !nc.contains t)) else acc) (zeros, need)
      if r.2.isEmpty then some r.1 else none

end TenpyModel.C12
