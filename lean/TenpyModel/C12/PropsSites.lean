import TenpyModel.C12.Sites
import TenpyModel.C12.MatProofs
import Mathlib.Tactic.IntervalCases
import Mathlib.Tactic.Linarith
import Mathlib.Data.Rat.Cast.CharZero
/-!
# C12 — local operator algebra of the predefined sites (property theorems)

All statements are about the tables of `TenpyModel/C12/Sites.lean`, which the correspondence harness
compares entry by entry (exactly / by squares) with `tenpy.networks.site` on every run.

* fixed-size classes (`FermionSite`, `SpinHalfSite`, `SpinHalfFermionSite`, `SpinHalfHoleSite`): rational
  tables, every `filling`.
* `SpinSite(S)` for **every** `2S ∈ ℕ` and `BosonSite(Nmax)` for **every** `Nmax`: the model stores the
  rational squares of the irrational entries (`spinSpSq`, `bosonBSq`).  The theorems hold in every field
  `K` of characteristic 0 for every choice of elements `a n` with `a n * a n = ` that rational — in
  particular for `K = ℝ`, `a n = sqrt(..)`, which is what numpy computes.
* `ClockSite(q)` for every `q`: `ω` is any element of a commutative ring with `ω^q = 1`.

Matrix products are `mmul d` (sum over the `d × d` window).
-/
open TenpyModel.C12

/-! ## FermionSite -/

/-- **Fermion site algebra**, every `filling`: `{c,c†}=1`, `c²=0=c†²`, `n=c†c`, `JW = 1-2n`,
`JW c = -c JW`, `JW c† = -c† JW`, `dN = n - filling`, `dNdN = dN·dN`. -/
theorem C12_fermion (filling : Rat) : ∀ i < 2, ∀ j < 2,
    mmul 2 fC fCd i j + mmul 2 fCd fC i j = (idM : Nat → Nat → Rat) i j ∧
    mmul 2 fC fC i j = 0 ∧ mmul 2 fCd fCd i j = 0 ∧
    fN i j = mmul 2 fCd fC i j ∧
    fJW i j = (idM : Nat → Nat → Rat) i j - 2 * fN i j ∧
    mmul 2 fJW fC i j = - mmul 2 fC fJW i j ∧
    mmul 2 fJW fCd i j = - mmul 2 fCd fJW i j ∧
    fdN filling i j = fN i j - filling * (idM : Nat → Nat → Rat) i j ∧
    fdNdN filling i j = mmul 2 (fdN filling) (fdN filling) i j := by
  intro i hi j hj
  refine ⟨?_, ?_, ?_, ?_, ?_, ?_, ?_, ?_, ?_⟩
  · revert i j; decide +kernel
  · revert i j; decide +kernel
  · revert i j; decide +kernel
  · revert i j; decide +kernel
  · revert i j; decide +kernel
  · revert i j; decide +kernel
  · revert i j; decide +kernel
  · interval_cases i <;> interval_cases j <;> simp [fdN, fN, idM, ofRows]
  · interval_cases i <;> interval_cases j <;> simp [fdNdN, fdN, mmul, sumTo, ofRows]

/-- non-vacuity: the tables are the expected 2×2 matrices -/
example : tab 2 fC = [[0, 1], [0, 0]] ∧ tab 2 (mmul 2 fCd fC) = [[0, 0], [0, 1]] := by decide +kernel

/-! ## SpinHalfSite (`Sy = i·shSyIm`) -/

/-- **Spin-1/2 algebra**: `[Sz,S±]=±S±`, `[S+,S-]=2Sz`, `Sx=(S+ + S-)/2`, `Sy=(S+ - S-)/(2i)`,
`[Sx,Sy]=iSz`, `[Sy,Sz]=iSx`, `[Sz,Sx]=iSy` (written for the real coefficient matrix of `Sy`). -/
theorem C12_spinhalf : ∀ i < 2, ∀ j < 2,
    mmul 2 shSz shSp i j - mmul 2 shSp shSz i j = shSp i j ∧
    mmul 2 shSz shSm i j - mmul 2 shSm shSz i j = - shSm i j ∧
    mmul 2 shSp shSm i j - mmul 2 shSm shSp i j = 2 * shSz i j ∧
    shSx i j = (1/2) * (shSp i j + shSm i j) ∧
    shSyIm i j = (-1/2) * (shSp i j - shSm i j) ∧
    -- [Sx, i·Y] = i·Sz  ⇔  [Sx, Y] = Sz
    mmul 2 shSx shSyIm i j - mmul 2 shSyIm shSx i j = shSz i j ∧
    -- [i·Y, Sz] = i·Sx  ⇔  [Y, Sz] = Sx
    mmul 2 shSyIm shSz i j - mmul 2 shSz shSyIm i j = shSx i j ∧
    -- [Sz, Sx] = i·(i·Y) = -Y
    mmul 2 shSz shSx i j - mmul 2 shSx shSz i j = - shSyIm i j := by
  decide +kernel

/-! ## SpinHalfFermionSite -/

/-- **Spinful fermion site**: canonical anticommutation relations of `Cu, Cd` and their adjoints on one
site (this is why `Cd` contains `JWu`), `JW = JWu·JWd` anticommutes with all four, number and spin
operators are the stated bilinears, spin algebra. -/
theorem C12_spinful_fermion : ∀ i < 4, ∀ j < 4,
    mmul 4 sfCu sfCdu i j + mmul 4 sfCdu sfCu i j = (idM : Nat → Nat → Rat) i j ∧
    mmul 4 sfCd sfCdd i j + mmul 4 sfCdd sfCd i j = (idM : Nat → Nat → Rat) i j ∧
    mmul 4 sfCu sfCd i j + mmul 4 sfCd sfCu i j = 0 ∧
    mmul 4 sfCu sfCdd i j + mmul 4 sfCdd sfCu i j = 0 ∧
    mmul 4 sfCdu sfCd i j + mmul 4 sfCd sfCdu i j = 0 ∧
    mmul 4 sfCdu sfCdd i j + mmul 4 sfCdd sfCdu i j = 0 ∧
    mmul 4 sfCu sfCu i j = 0 ∧ mmul 4 sfCd sfCd i j = 0 ∧
    sfJW i j = mmul 4 sfJWu sfJWd i j ∧
    mmul 4 sfJW sfCu i j = - mmul 4 sfCu sfJW i j ∧
    mmul 4 sfJW sfCd i j = - mmul 4 sfCd sfJW i j ∧
    mmul 4 sfJW sfCdu i j = - mmul 4 sfCdu sfJW i j ∧
    mmul 4 sfJW sfCdd i j = - mmul 4 sfCdd sfJW i j ∧
    diagM sfNuDiag i j = mmul 4 sfCdu sfCu i j ∧
    diagM sfNdDiag i j = mmul 4 sfCdd sfCd i j ∧
    sfJWu i j = (idM : Nat → Nat → Rat) i j - 2 * diagM sfNuDiag i j ∧
    sfJWd i j = (idM : Nat → Nat → Rat) i j - 2 * diagM sfNdDiag i j ∧
    mmul 4 sfSz sfSp i j - mmul 4 sfSp sfSz i j = sfSp i j ∧
    mmul 4 sfSp sfSm i j - mmul 4 sfSm sfSp i j = 2 * sfSz i j ∧
    mmul 4 sfSx sfSyIm i j - mmul 4 sfSyIm sfSx i j = sfSz i j := by
  intro i hi j hj
  interval_cases i <;> interval_cases j <;> decide +kernel

/-- non-vacuity / documentation of the sign convention: `Cd` carries the sign of `JWu` -/
example : tab 4 sfCd = [[0, 0, 1, 0], [0, 0, 0, -1], [0, 0, 0, 0], [0, 0, 0, 0]] ∧
    tab 4 sfSp = [[0, 0, 0, 0], [0, 0, 1, 0], [0, 0, 0, 0], [0, 0, 0, 0]] := by decide +kernel

/-! ## SpinHalfHoleSite (no double occupancy) -/

/-- **Hole site**: the projected relations `{Cu,Cdu} = 1 - Nd`, `{Cd,Cdd} = 1 - Nu`, `{Cu,Cd}=0`,
JW anticommutes with the four fermionic operators, bilinears, spin algebra; every operator is the
restriction of the spinful fermion operator to `(empty, up, down)`. -/
theorem C12_hole : ∀ i < 3, ∀ j < 3,
    mmul 3 hCu hCdu i j + mmul 3 hCdu hCu i j = (idM : Nat → Nat → Rat) i j - diagM hNdDiag i j ∧
    mmul 3 hCd hCdd i j + mmul 3 hCdd hCd i j = (idM : Nat → Nat → Rat) i j - diagM hNuDiag i j ∧
    mmul 3 hCu hCd i j + mmul 3 hCd hCu i j = 0 ∧
    mmul 3 hCdu hCdd i j + mmul 3 hCdd hCdu i j = 0 ∧
    mmul 3 hJW hCu i j = - mmul 3 hCu hJW i j ∧
    mmul 3 hJW hCd i j = - mmul 3 hCd hJW i j ∧
    mmul 3 hJW hCdu i j = - mmul 3 hCdu hJW i j ∧
    mmul 3 hJW hCdd i j = - mmul 3 hCdd hJW i j ∧
    diagM hNuDiag i j = mmul 3 hCdu hCu i j ∧
    diagM hNdDiag i j = mmul 3 hCdd hCd i j ∧
    mmul 3 hSz hSp i j - mmul 3 hSp hSz i j = hSp i j ∧
    mmul 3 hSp hSm i j - mmul 3 hSm hSp i j = 2 * hSz i j ∧
    hCu i j = sfCu i j ∧ hCd i j = sfCd i j ∧ hJW i j = sfJW i j ∧ hSp i j = sfSp i j ∧ hSm i j = sfSm i j ∧
    hSz i j = sfSz i j := by
  intro i hi j hj
  interval_cases i <;> interval_cases j <;> decide +kernel

/-! ## SpinSite(S), every S -/

theorem spinSpSq_closed (twoS n : Nat) : spinSpSq twoS n = ((n : Rat) + 1) * ((twoS : Rat) - n) := by
  simp only [spinSpSq, spinS]; ring

section field
variable {K : Type} [Field K] [CharZero K]

/-- **Spin algebra for every spin `S = twoS/2`** in squared / rational form.
`a n` is any element of `K` whose square is the rational `S(S+1) - m(m+1)` stored by the model
(`m = n - S`); `Sp = subD a` is tenpy's `Sp[n+1, n] = sqrt(..)`, `Sm = Sp.T`. Then, entry by entry on the
`(2S+1) × (2S+1)` window: `[Sz,S+] = S+`, `[Sz,S-] = -S-`, `[S+,S-] = 2 Sz`. -/
theorem C12_spin_algebra (twoS : Nat) (a : Nat → K)
    (ha : ∀ n, a n * a n = ((spinSpSq twoS n : Rat) : K)) :
    let d := twoS + 1
    let Sz : Nat → Nat → K := diagM (fun n => ((spinSzDiag twoS n : Rat) : K))
    ∀ i j, i < d → j < d →
      (mmul d Sz (subD a) i j - mmul d (subD a) Sz i j = subD a i j) ∧
      (mmul d Sz (supD a) i j - mmul d (supD a) Sz i j = - supD a i j) ∧
      (mmul d (subD a) (supD a) i j - mmul d (supD a) (subD a) i j = 2 * Sz i j) := by
  intro d Sz i j hi hj
  refine ⟨?_, ?_, ?_⟩
  · rw [mmul_diag_left _ _ _ _ _ hi, mmul_diag_right _ _ _ _ _ hj]
    unfold subD
    split
    next h => subst h; simp only [spinSzDiag, spinS]; push_cast; ring
    next h => simp
  · rw [mmul_diag_left _ _ _ _ _ hi, mmul_diag_right _ _ _ _ _ hj]
    unfold supD
    split
    next h => subst h; simp only [spinSzDiag, spinS]; push_cast; ring
    next h => simp
  · rw [mmul_subD_supD _ _ _ _ _ hi, mmul_supD_subD]
    by_cases hij : i = j
    · subst hij
      simp only [Sz, diagM, if_true, true_and]
      have hsz : ((spinSzDiag twoS i : Rat) : K) = (i : K) - (twoS : K) / 2 := by
        simp only [spinSzDiag, spinS]; push_cast; ring
      rw [hsz]
      rcases Nat.eq_zero_or_pos i with h0 | h0
      · subst h0
        by_cases h1 : 0 + 1 < d
        · rw [if_neg (by omega), if_pos h1, ha 0, spinSpSq_closed]; push_cast; ring
        · have : twoS = 0 := by omega
          subst this
          rw [if_neg (by omega), if_neg h1]; push_cast; ring
      · obtain ⟨i', rfl⟩ : ∃ i', i = i' + 1 := ⟨i - 1, by omega⟩
        rw [if_pos (by omega)]
        simp only [Nat.add_sub_cancel]
        by_cases h1 : i' + 1 + 1 < d
        · rw [if_pos h1, ha i', ha (i' + 1), spinSpSq_closed, spinSpSq_closed]; push_cast; ring
        · have : twoS = i' + 1 := by omega
          subst this
          rw [if_neg h1, ha i', spinSpSq_closed]; push_cast; ring
    · have hd : ¬ (i = j) := hij
      simp only [Sz, diagM, hd, false_and, if_false]
      ring

/-- the rational squares really are squares in ℚ-form for integer spin positions: e.g. `S = 1`:
`Sp[1,0]² = Sp[2,1]² = 2`; `S = 3/2`: `3, 4, 3`. -/
example : (List.range 2).map (spinSpSq 2) = [2, 2] ∧ (List.range 3).map (spinSpSq 3) = [3, 4, 3] := by
  decide +kernel

/-! ## BosonSite(Nmax), every Nmax -/

/-- **Boson algebra for every cutoff**: with `B = supD b` (`B[n, n+1] = b n`, `b n² = n+1`), `Bd = B.T`:
`[B,Bd] = 1` on every row except the cutoff row `Nmax`, where it is `-Nmax`; `N = Bd·B`. -/
theorem C12_boson (nmax : Nat) (b : Nat → K) (hb : ∀ n, b n * b n = ((bosonBSq n : Rat) : K)) :
    ∀ i j, i < nmax + 1 → j < nmax + 1 →
      (mmul (nmax + 1) (supD b) (subD b) i j - mmul (nmax + 1) (subD b) (supD b) i j
        = if i = j then (if i = nmax then -(nmax : K) else 1) else 0) ∧
      (mmul (nmax + 1) (subD b) (supD b) i j = diagM (fun n => ((bosonN n : Rat) : K)) i j) := by
  intro i j hi hj
  have hB : ∀ n, b n * b n = (n : K) + 1 := by
    intro n; rw [hb n]; simp only [bosonBSq]; push_cast; ring
  rw [mmul_subD_supD _ _ _ _ _ hi, mmul_supD_subD]
  by_cases hij : i = j
  · subst hij
    simp only [diagM, if_true, true_and, bosonN]
    rcases Nat.eq_zero_or_pos i with h0 | h0
    · subst h0
      by_cases h1 : 0 + 1 < nmax + 1
      · have h2 : ¬ (0 = nmax) := by omega
        simp only [h1, h2, if_true, if_false, Nat.lt_irrefl, hB]; push_cast; constructor <;> ring
      · have : nmax = 0 := by omega
        subst this
        simp
    · obtain ⟨i', rfl⟩ : ∃ i', i = i' + 1 := ⟨i - 1, by omega⟩
      simp only [Nat.add_sub_cancel, Nat.succ_pos, if_true]
      by_cases h1 : i' + 1 + 1 < nmax + 1
      · have h2 : ¬ (i' + 1 = nmax) := by omega
        simp only [h1, h2, if_true, if_false, hB]; push_cast; constructor <;> ring
      · have : nmax = i' + 1 := by omega
        subst this
        simp only [h1, if_true, if_false, hB]; push_cast; constructor <;> ring
  · simp [diagM, hij]

end field

/-! ## ClockSite(q), every q -/

section clock
variable {R : Type} [CommRing R]

/-- value of an entry `Σ_e ω^e` -/
def evalOm (ω : R) (l : List Nat) : R := (l.map (fun e => ω ^ e)).sum

theorem clockX_eval (ω : R) (q i j : Nat) (hi : i < q) (hj : j < q) :
    evalOm ω (clockX q i j) = if (i + 1) % q = j then 1 else 0 := by
  unfold clockX evalOm
  by_cases h1 : i + 1 < q
  · rw [Nat.mod_eq_of_lt h1]
    have h3 : ¬ (j + q = i + 1) := by omega
    by_cases h : j = i + 1
    · rw [if_pos h, if_neg h3, if_pos h.symm]; simp
    · rw [if_neg h, if_neg h3, if_neg (fun e => h e.symm)]; simp
  · have hq : i + 1 = q := by omega
    have hmod : (i + 1) % q = 0 := by rw [hq]; exact Nat.mod_self q
    rw [hmod]
    have h2 : ¬ (j = i + 1) := by omega
    by_cases h : j = 0
    · have h3 : j + q = i + 1 := by omega
      rw [if_neg h2, if_pos h3, if_pos h.symm]; simp
    · have h3 : ¬ (j + q = i + 1) := by omega
      rw [if_neg h2, if_neg h3, if_neg (fun e => h e.symm)]; simp

theorem clockZ_eval (ω : R) (q i j : Nat) (hi : i < q) :
    evalOm ω (clockZ q i j) = diagM (fun n => ω ^ n) i j := by
  unfold clockZ evalOm diagM
  split
  · simp [Nat.mod_eq_of_lt hi]
  · simp

/-- **Clock relation for every `q`** (`ω` any `q`-th root of unity in a commutative ring):
`X Z = ω Z X` for the matrices of the code (`X = eye(q,k=1)+eye(q,k=1-q)` lowers the clock state). -/
theorem C12_clock (q : Nat) (ω : R) (hω : ω ^ q = 1) :
    let X : Nat → Nat → R := fun i j => evalOm ω (clockX q i j)
    let Z : Nat → Nat → R := fun i j => evalOm ω (clockZ q i j)
    ∀ i j, i < q → j < q → mmul q X Z i j = ω * mmul q Z X i j := by
  intro X Z i j hi hj
  have hZ : ∀ a b, a < q → Z a b = diagM (fun n => ω ^ n) a b := fun a b ha => clockZ_eval ω q a b ha
  have e1 : mmul q X Z i j = mmul q X (diagM (fun n => ω ^ n)) i j := by
    unfold mmul; apply sumTo_congr; intro k hk; rw [hZ k j hk]
  have e2 : mmul q Z X i j = mmul q (diagM (fun n => ω ^ n)) X i j := by
    unfold mmul; apply sumTo_congr; intro k hk; rw [hZ i k hi]
  rw [e1, e2, mmul_diag_right _ _ _ _ _ hj, mmul_diag_left _ _ _ _ _ hi]
  show evalOm ω (clockX q i j) * ω ^ j = ω * (ω ^ i * evalOm ω (clockX q i j))
  rw [clockX_eval ω q i j hi hj]
  split
  next h =>
    by_cases h1 : i + 1 < q
    · rw [Nat.mod_eq_of_lt h1] at h; subst h; ring
    · have hq : i + 1 = q := by omega
      rw [hq, Nat.mod_self] at h
      subst h
      have : ω * ω ^ i = ω ^ q := by rw [← hq]; ring
      rw [← mul_assoc, this, hω]; simp
  next h => simp

/-- `n`-th power of a `d × d` matrix -/
def mpow (d : Nat) (A : Nat → Nat → R) : Nat → Nat → Nat → R
  | 0 => idM
  | n + 1 => mmul d (mpow d A n) A

theorem clockX_pow (q : Nat) (ω : R) (n : Nat) :
    ∀ i j, i < q → j < q →
      mpow q (fun i j => evalOm ω (clockX q i j)) n i j = if (i + n) % q = j then 1 else 0 := by
  induction n with
  | zero =>
    intro i j hi hj
    simp only [mpow, idM, Nat.add_zero, Nat.mod_eq_of_lt hi]
  | succ n ih =>
    intro i j hi hj
    have hq : 0 < q := by omega
    show mmul q (mpow q _ n) _ i j = _
    unfold mmul
    rw [sumTo_single q ((i + n) % q) _ (Nat.mod_lt _ hq)]
    · rw [ih i _ hi (Nat.mod_lt _ hq), if_pos rfl, one_mul]
      show evalOm ω (clockX q ((i + n) % q) j) = _
      rw [clockX_eval ω q _ j (Nat.mod_lt _ hq) hj]
      have : ((i + n) % q + 1) % q = (i + (n + 1)) % q := by
        rw [Nat.mod_add_mod, Nat.add_assoc]
      rw [this]
    · intro k hk hne
      rw [ih i k hi hk, if_neg (fun e => hne e.symm), zero_mul]

theorem mpow_diag (d : Nat) (f : Nat → R) (n : Nat) :
    ∀ i j, i < d → j < d → mpow d (diagM f) n i j = diagM (fun k => f k ^ n) i j := by
  induction n with
  | zero => intro i j _ _; simp [mpow, idM, diagM]
  | succ n ih =>
    intro i j hi hj
    show mmul d (mpow d (diagM f) n) (diagM f) i j = _
    rw [mmul_diag_right _ _ _ _ _ hj, ih i j hi hj]
    unfold diagM
    split
    next h => subst h; show f i ^ n * f i = f i ^ (n + 1); rw [pow_succ]
    next h => simp

/-- **`X^q = 1` and `Z^q = 1`** for every `q` (as `q × q` matrices, `mpow` = repeated `mmul`). -/
theorem C12_clock_order (q : Nat) (ω : R) (hω : ω ^ q = 1) :
    ∀ i j, i < q → j < q →
      mpow q (fun i j => evalOm ω (clockX q i j)) q i j = (idM : Nat → Nat → R) i j ∧
      mpow q (diagM (fun n => ω ^ n)) q i j = (idM : Nat → Nat → R) i j := by
  intro i j hi hj
  refine ⟨?_, ?_⟩
  · rw [clockX_pow q ω q i j hi hj, Nat.add_mod_right, Nat.mod_eq_of_lt hi]; rfl
  · rw [mpow_diag q _ q i j hi hj]
    unfold diagM idM
    split
    next h => show (ω ^ i) ^ q = 1; rw [← pow_mul, mul_comm, pow_mul, hω, one_pow]
    next h => rfl

end clock

/-- non-vacuity: `q = 3`, the monomial structure of `X` and `Z` -/
example : tab 3 (clockX 3) = [[[], [0], []], [[], [], [0]], [[0], [], []]] ∧
    tab 3 (clockZ 3) = [[[0], [], []], [[], [1], []], [[], [], [2]]] := by decide
