import TenpyModel.C12.P2_Fill
/-! charges / hc pairs for every filling: assembly. -/
namespace TenpyModel.C12

theorem opChargeOk_congr (s s' : SiteSpec) (o : OpDef) (hd : siteDim s = siteDim s') (hm : siteMod s = siteMod s')
    (hc : ∀ n, siteRawCharge s n = siteRawCharge s' n) : opChargeOk s o = opChargeOk s' o := by
  have hcd : chargeDiff s = chargeDiff s' := by
    funext i j; simp [chargeDiff, siteCharge, hm, hc]
  unfold opChargeOk opCharge
  rw [hd, hcd, hm]

/-- one entry of `hcOk` -/
def hcEntry (s : SiteSpec) (o : OpDef) : Bool :=
  match findOp s o.hc with
  | none => false
  | some o' => o'.hc == o.name &&
    (List.range (siteDim s)).all (fun i => (List.range (siteDim s)).all (fun j =>
      (o'.ent i j).sameB ((o.ent j i).conj (siteQ s))))

theorem hcOk_eq (s : SiteSpec) : hcOk s = (siteOps s).all (hcEntry s) := rfl

theorem hc_entry (s : SiteSpec) (o o' : OpDef) (d q : Nat) (hd : siteDim s = d) (hq : siteQ s = q)
    (hf : findOp s o.hc = some o') (hn : o'.hc = o.name)
    (hw : (List.range d).all (fun i => (List.range d).all (fun j =>
        (o'.ent i j).sameB ((o.ent j i).conj q))) = true) : hcEntry s o = true := by
  unfold hcEntry
  rw [hf]
  simp only [hn, beq_self_eq_true, Bool.true_and, hd, hq]
  exact hw

/-- discharge one entry of `hcOk`: find the partner by evaluation, then check the window with `w` -/
macro "hc_ent" d:num q:num w:tactic : tactic => `(tactic| (
  apply hc_entry (d := $d) (q := $q)
  · rfl
  · rfl
  · rfl
  · rfl
  · ($w:tactic)))

theorem hcOk_fermion (c : Cons) (f : Rat) : hcOk (.fermion c f) = true := by
  rw [hcOk_eq]
  simp only [siteOps, fermionOps, List.all_cons, List.all_nil, Bool.and_true, Bool.and_eq_true]
  refine ⟨?_, ?_, ?_, ?_, ?_, ?_, ?_⟩
  · hc_ent 2 1 (decide +kernel)
  · hc_ent 2 1 (decide +kernel)
  · hc_ent 2 1 (decide +kernel)
  · hc_ent 2 1 (decide +kernel)
  · hc_ent 2 1 (decide +kernel)
  · hc_ent 2 1 (exact hc_self_sym 2 (fdN f) (fdN_symm f) 1)
  · hc_ent 2 1 (exact hc_self_sym 2 (fdNdN f) (fun i j => by simp [fdNdN, fdN_symm f i j]) 1)


theorem hcOk_shFermion (cN cS : Cons) (f : Rat) : hcOk (.shFermion cN cS f) = true := by
  rw [hcOk_eq]
  cases cS <;>
  · simp only [siteOps, shFermionOps, reduceCtorEq, if_true, if_false, List.append_nil, List.cons_append,
      List.nil_append, List.all_cons, List.all_nil, Bool.and_true, Bool.and_eq_true]
    repeat' apply And.intro
    all_goals first
      | hc_ent 4 1 (decide +kernel)
      | hc_ent 4 1 (exact hc_self_sym 4 _ (diagM_symm _) 1)

theorem hcOk_shHole (cN cS : Cons) (f : Rat) : hcOk (.shHole cN cS f) = true := by
  rw [hcOk_eq]
  cases cS <;>
  · simp only [siteOps, shHoleOps, reduceCtorEq, if_true, if_false, List.append_nil, List.cons_append,
      List.nil_append, List.all_cons, List.all_nil, Bool.and_true, Bool.and_eq_true]
    repeat' apply And.intro
    all_goals first
      | hc_ent 3 1 (decide +kernel)
      | hc_ent 3 1 (exact hc_self_sym 3 _ (diagM_symm _) 1)


theorem chargeDiff_self_fermion (c : Cons) (f : Rat) (i : Nat) :
    chargeDiff (.fermion c f) i i = (siteMod (.fermion c f)).map (fun _ => 0) := by
  rcases chargeDiff_self (.fermion c f) i with h | h
  · exact h
  · exact absurd (by cases c <;> rfl) h

theorem chargeDiff_self_shFermion (cN cS : Cons) (f : Rat) (i : Nat) :
    chargeDiff (.shFermion cN cS f) i i = (siteMod (.shFermion cN cS f)).map (fun _ => 0) := by
  rcases chargeDiff_self (.shFermion cN cS f) i with h | h
  · exact h
  · exact absurd (by cases cN <;> cases cS <;> rfl) h

theorem chargeDiff_self_shHole (cN cS : Cons) (f : Rat) (i : Nat) :
    chargeDiff (.shHole cN cS f) i i = (siteMod (.shHole cN cS f)).map (fun _ => 0) := by
  rcases chargeDiff_self (.shHole cN cS f) i with h | h
  · exact h
  · exact absurd (by cases cN <;> cases cS <;> rfl) h

theorem opChargeOk_fermion_fill (c : Cons) (f : Rat) (o : OpDef) :
    opChargeOk (.fermion c f) o = opChargeOk (.fermion c 0) o := opChargeOk_congr _ _ _ rfl rfl (fun _ => rfl)
theorem opChargeOk_shFermion_fill (cN cS : Cons) (f : Rat) (o : OpDef) :
    opChargeOk (.shFermion cN cS f) o = opChargeOk (.shFermion cN cS 0) o := opChargeOk_congr _ _ _ rfl rfl (fun _ => rfl)
theorem opChargeOk_shHole_fill (cN cS : Cons) (f : Rat) (o : OpDef) :
    opChargeOk (.shHole cN cS f) o = opChargeOk (.shHole cN cS 0) o := opChargeOk_congr _ _ _ rfl rfl (fun _ => rfl)

theorem opChargeAll_fermion (c : Cons) (f : Rat) :
    (siteOps (.fermion c f)).all (opChargeOk (.fermion c f)) = true := by
  cases c <;>
  · simp only [siteOps, fermionOps, List.all_cons, List.all_nil, Bool.and_true, Bool.and_eq_true]
    repeat' apply And.intro
    all_goals first
      | (rw [opChargeOk_fermion_fill]; decide +kernel)
      | exact opChargeOk_diag _ _ (ratOp_offdiag_zero _ _ _ _ (fdN_offdiag f)) (chargeDiff_self_fermion _ f)
      | exact opChargeOk_diag _ _ (ratOp_offdiag_zero _ _ _ _ (fun i j h => by simp [fdNdN, fdN_offdiag f i j h]))
          (chargeDiff_self_fermion _ f)

theorem opChargeAll_shFermion (cN cS : Cons) (f : Rat) :
    (siteOps (.shFermion cN cS f)).all (opChargeOk (.shFermion cN cS f)) = true := by
  cases cN <;> cases cS <;>
  · simp only [siteOps, shFermionOps, reduceCtorEq, if_true, if_false, List.append_nil, List.cons_append,
      List.nil_append, List.all_cons, List.all_nil, Bool.and_true, Bool.and_eq_true]
    repeat' apply And.intro
    all_goals first
      | (rw [opChargeOk_shFermion_fill]; decide +kernel)
      | exact opChargeOk_diag _ _ (ratOp_diag_support _ _ _ _) (chargeDiff_self_shFermion _ _ f)

theorem opChargeAll_shHole (cN cS : Cons) (f : Rat) :
    (siteOps (.shHole cN cS f)).all (opChargeOk (.shHole cN cS f)) = true := by
  cases cN <;> cases cS <;>
  · simp only [siteOps, shHoleOps, reduceCtorEq, if_true, if_false, List.append_nil, List.cons_append,
      List.nil_append, List.all_cons, List.all_nil, Bool.and_true, Bool.and_eq_true]
    repeat' apply And.intro
    all_goals first
      | (rw [opChargeOk_shHole_fill]; decide +kernel)
      | exact opChargeOk_diag _ _ (ratOp_diag_support _ _ _ _) (chargeDiff_self_shHole _ _ f)

end TenpyModel.C12
