import TenpyModel.C12.JW
import Mathlib.Data.List.Perm.Subperm
import Mathlib.Data.List.Nodup
import Mathlib.Algebra.BigOperators.Group.List.Basic
/-! `_set_common_charges_charge_to_JW_parity`: the new parity vector reproduces the JW sign. -/
namespace TenpyModel.C12

/-- `np.dot` of two integer vectors (truncated to the shorter one) -/
def dotI (a b : List Int) : Int := (List.zipWith (· * ·) a b).sum

/-- sum of `f` over a list of old-charge terms -/
def sumT (f : CTerm → Int) (l : List CTerm) : Int := (l.map f).sum

/-- the old charges that carry JW parity -/
def needOf (ps : List (List Int)) : List CTerm :=
  ps.zipIdx.flatMap (fun (par, s) =>
    par.zipIdx.filterMap (fun (p, oi) => if p != 0 then some ((1 : Int), s, oi) else none))

/-- `_set_common_charges_charge_to_JW_parity` after `need` has been collected -/
def c2jwCore (need : List CTerm) (newCharges : List (List CTerm)) (newMod : List Nat) : Option (List Int) :=
  let zeros : List Int := newCharges.map (fun _ => 0)
  if need.isEmpty then some zeros else
  let cands := (newCharges.zip newMod).zipIdx.filter (fun ((_, m), _) => m == 1 || m % 2 == 0)
  match cands.find? (fun ((nc, _), _) => sameSet nc need) with
  | some (_, ni) => some (zeros.set ni 1)
  | none =>
    let subs := cands.filter (fun ((nc, _), _) => subSet nc need)
    let r := subs.foldl (fun (acc : List Int × List CTerm) ((nc, _), ni) =>
      if subSet nc acc.2 then (acc.1.set ni 1, acc.2.filter (fun t => !nc.contains t)) else acc) (zeros, need)
    if r.2.isEmpty then some r.1 else none

theorem commonC2JW_eq (c2jw : List (Option (List Int))) (newCharges : List (List CTerm)) (newMod : List Nat) :
    commonC2JW c2jw newCharges newMod =
      (c2jw.mapM id).bind (fun ps => c2jwCore (needOf ps) newCharges newMod) := by
  unfold commonC2JW
  cases c2jw.mapM id with
  | none => rfl
  | some ps => rfl

/-! ### sums over duplicate-free lists -/

theorem sumT_perm (f : CTerm → Int) {a b : List CTerm} (h : a.Perm b) : sumT f a = sumT f b :=
  (h.map f).sum_eq

theorem subSet_iff (a b : List CTerm) : subSet a b = true ↔ ∀ t ∈ a, t ∈ b := by
  simp [subSet, List.all_eq_true]

theorem sameSet_iff (a b : List CTerm) : sameSet a b = true ↔ (∀ t ∈ a, t ∈ b) ∧ (∀ t ∈ b, t ∈ a) := by
  simp [sameSet, List.all_eq_true]

theorem sumT_eq_of_sameSet (f : CTerm → Int) {a b : List CTerm} (ha : a.Nodup) (hb : b.Nodup)
    (h : sameSet a b = true) : sumT f a = sumT f b := by
  obtain ⟨h1, h2⟩ := (sameSet_iff a b).1 h
  apply sumT_perm
  exact (List.perm_ext_iff_of_nodup ha hb).2 (fun t => ⟨h1 t, h2 t⟩)

/-- removing a duplicate-free sub-list: the sum splits -/
theorem sumT_split (f : CTerm → Int) (rem nc : List CTerm) (hn : nc.Nodup) (hr : rem.Nodup)
    (hsub : ∀ t ∈ nc, t ∈ rem) :
    sumT f rem = sumT f (rem.filter (fun t => !nc.contains t)) + sumT f nc := by
  have hperm : rem.Perm (rem.filter (fun t => !nc.contains t) ++ nc) := by
    apply (List.perm_ext_iff_of_nodup hr ?_).2
    · intro t
      simp only [List.mem_append, List.mem_filter, Bool.not_eq_true', List.contains_eq_mem, decide_eq_false_iff_not]
      constructor
      · intro ht
        by_cases h : t ∈ nc
        · right; exact h
        · left; exact ⟨ht, h⟩
      · rintro (⟨h, _⟩ | h)
        · exact h
        · exact hsub t h
    · refine List.nodup_append.2 ⟨hr.filter _, hn, ?_⟩
      intro a ha b hb hab
      subst hab
      simp only [List.mem_filter, Bool.not_eq_true', List.contains_eq_mem, decide_eq_false_iff_not] at ha
      exact ha.2 hb
  rw [sumT_perm f hperm, sumT, List.map_append, List.sum_append]
  rfl

end TenpyModel.C12
