import TenpyModel.C12.JWProofs
/-!
# C12 — Jordan–Wigner bookkeeping of terms (property theorems)

About the executable model `TenpyModel/C12/JW.lean`, which the harness compares string by string
with `order_combine_term`, `coupling_term_handle_JW`, `multi_coupling_term_handle_JW`
(tenpy/networks/terms.py) and `MPS._term_to_ops_list` (tenpy/networks/mps.py).

Semantics used in the statements
* `prodJ J l` — ordered product `J t₁ · J t₂ ⋯` in a ring, `J` = Jordan–Wigner image of an entry;
  the only thing assumed about `J` is graded commutation of operators on *different* sites
  (theorem `C12_JW_images` proves it for Jordan–Wigner images in any algebra);
* `prodAt k T` — what the ordered product of the images of a term puts on site `k` (a word of
  atomic operator names: the operator on its own site, `JW` on every site left of an odd one);
* `outAt k prev ijkl ops op_string` — what the output of the `handle_JW` functions puts on site `k`;
* `evalWord ev w` — value of a word in any monoid in which `JW · JW = 1` and `Id = 1`.
-/
open TenpyModel.C12

/-- **`op_needs_JW` is the fermion parity of the name**: the number (mod 2) of atomic names in
`need_JW_string`; hence multiplying names adds parities. -/
theorem C12_op_needs_JW (njw : List String) (u v : Word) :
    opNeedsJW njw u = (countJW njw u % 2 == 1) ∧
    opNeedsJW njw (u ++ v) = (opNeedsJW njw u != opNeedsJW njw v) := by
  refine ⟨opNeedsJW_eq_parity njw u, ?_⟩
  rw [opNeedsJW_eq_parity, opNeedsJW_eq_parity, opNeedsJW_eq_parity]
  have : countJW njw (u ++ v) = countJW njw u + countJW njw v := by simp [countJW]
  rw [this]
  rcases Nat.mod_two_eq_zero_or_one (countJW njw u) with h1 | h1 <;>
    rcases Nat.mod_two_eq_zero_or_one (countJW njw v) with h2 | h2 <;>
    simp [Nat.add_mod, h1, h2]

example : opNeedsJW ["JW", "C", "Cd"] ["Cd", "N", "C", "Cd"] = true := by decide

/-- **`order_combine_term`, structure**: the bubble sort returns a permutation of the input ordered
by site; the sign is `(-1)^(number of inversions among JW-odd operators)`; the combined term has
strictly ascending sites and is, letter for letter, the sorted list (operators on one site are
multiplied in their original order). -/
theorem C12_order_combine (sites : JWSites) (term : List (Word × Int)) :
    let tc := toTC sites term
    let sorted := (bubbleSort (term.length - 1) tc).1
    let out := orderCombineTerm sites term
    sorted.Perm tc ∧ SortedBySite sorted ∧
    out.2 = (-1) ^ oddInv tc ∧
    ascending (out.1.map (·.2)) = true ∧
    out.1.flatMap (fun p => p.1.map (fun n => (n, p.2))) = lettersTC sorted := by
  intro tc sorted out
  have hlen : term.length = tc.length := by simp [tc, toTC]
  have hsorted : SortedBySite sorted := by
    have := bubbleSort_sorted tc
    rw [← hlen] at this
    exact this
  refine ⟨bubbleSort_perm _ _, hsorted, ?_, ?_, ?_⟩
  · have h := bubbleSort_sign (term.length - 1) tc
    rw [oddInv_sorted _ hsorted] at h
    show (if (bubbleSort (term.length - 1) tc).2 then (-1 : Int) else 1) = _
    rw [h]; simp [isgn]
  · apply ascending_of_pairwise
    show List.Pairwise (· < ·) (List.map (·.2) (List.map (fun g => (multiplyOpNames g.2, g.1)) (groupBySite sorted)))
    rw [List.map_map]
    have := groupBySite_ascending sorted hsorted
    exact List.pairwise_map.2 this
  · show List.flatMap _ (List.map (fun g => (multiplyOpNames g.2, g.1)) (groupBySite sorted)) = _
    rw [← groupBySite_letters sorted, lettersG, List.flatMap_map]
    apply List.flatMap_congr
    intro g hg
    have hne := groupBySite_nonempty sorted g hg
    have : multiplyOpNames g.2 = g.2.flatten := by
      simp only [multiplyOpNames]
      cases h : g.2 with
      | nil => exact absurd h hne
      | cons a l => simp
    simp [this]

/-- **`order_combine_term`, meaning**: in any ring, for any assignment `J` of elements to the entries
such that entries on *different* sites commute up to the sign `-1` exactly when both are JW-odd,
`(product of the term as written) = overall_sign · (product of the site-ordered list)`. -/
theorem C12_order_combine_product {A : Type} [Ring A] (sites : JWSites) (term : List (Word × Int))
    (J : TC → A)
    (hJ : ∀ a b : TC, a.i ≠ b.i → J a * J b = sgnA (a.odd && b.odd) * (J b * J a)) :
    prodJ J (toTC sites term) =
      ((orderCombineTerm sites term).2 : A) * prodJ J (bubbleSort (term.length - 1) (toTC sites term)).1 := by
  have h := bubbleSort_prod J hJ (term.length - 1) (toTC sites term)
  rw [h]
  show _ = (((if (bubbleSort (term.length - 1) (toTC sites term)).2 then (-1 : Int) else 1) : Int) : A) * _
  cases (bubbleSort (term.length - 1) (toTC sites term)).2 <;> simp [sgnA]

/-- non-vacuity: `c†_2 c_0 n_1 (c† c)_0` on a fermion chain: one odd–odd inversion, sign `-1`. -/
example :
    let f := ["JW", "C", "Cd"]
    orderCombineTerm [f, f, f] [(["Cd"], 2), (["C"], 0), (["N"], 1), (["Cd", "C"], 0)]
      = ([(["C", "Cd", "C"], 0), (["N"], 1), (["Cd"], 2)], -1) := by decide

/-! ## `multi_coupling_term_handle_JW` -/

namespace TenpyModel.C12

/-- the term with its needs-JW flags -/
def withFlags (sites : JWSites) (term : List (Word × Int)) : List SOp :=
  term.map (fun t => (t.1, t.2, opNeedsJW (siteAt sites t.2) t.1))

theorem withFlags_map (sites : JWSites) (term : List (Word × Int)) :
    (withFlags sites term).map (fun t => (t.1, t.2.2)) =
      (term.map (·.1)).zip (term.map (fun t => opNeedsJW (siteAt sites t.2) t.1)) := by
  induction term with
  | nil => rfl
  | cons t term ih =>
    simp only [withFlags, List.map_cons, List.zip_cons_cons] at ih ⊢
    rw [ih]

theorem pairwise_of_ascending (l : List Int) (h : ascending l = true) : l.Pairwise (· < ·) := by
  induction l with
  | nil => simp
  | cons a t ih =>
    cases t with
    | nil => simp
    | cons b r =>
      simp only [ascending, Bool.and_eq_true, decide_eq_true_eq] at h
      have ih' := ih h.2
      refine List.pairwise_cons.2 ⟨?_, ih'⟩
      intro x hx
      rcases List.mem_cons.1 hx with rfl | hx
      · exact h.1
      · have := (List.pairwise_cons.1 ih').1 x hx; omega

theorem outAt_shift (k sh : Int) (prev : String) (is : List Int) (os : List Word) (ss : List String) :
    outAt (k + sh) prev (is.map (· + sh)) os ss = outAt k prev is os ss := by
  induction is generalizing prev os ss with
  | nil => simp [outAt]
  | cons i is ih =>
    cases os with
    | nil => simp [outAt]
    | cons o os =>
      cases ss with
      | nil => simp [outAt]
      | cons s ss =>
        simp only [List.map_cons, outAt, ih]
        have e1 : (k + sh < i + sh) ↔ (k < i) := by omega
        have e2 : (k + sh = i + sh) ↔ (k = i) := by omega
        simp only [e1, e2]

theorem jwLoop_strs_last (jw : Bool) (T : List (Word × Bool)) (hT : T ≠ []) :
    (jwLoop jw T).2.1 = (jwLoop jw T).2.1.dropLast ++ [strOf (jwLoop jw T).2.2] := by
  induction T generalizing jw with
  | nil => exact absurd rfl hT
  | cons t T ih =>
    obtain ⟨op, odd⟩ := t
    cases T with
    | nil => simp [jwLoop, strOf]
    | cons t2 T2 =>
      have h := ih (if odd = true then !jw else jw) (by simp)
      simp only [jwLoop] at h ⊢
      rw [List.dropLast_cons_of_ne_nil (by simp [jwLoop]), List.cons_append, ← h]

theorem jwLoop_lengths (jw : Bool) (T : List (Word × Bool)) :
    (jwLoop jw T).1.length = T.length ∧ (jwLoop jw T).2.1.length = T.length := by
  induction T generalizing jw with
  | nil => simp [jwLoop]
  | cons t T ih =>
    obtain ⟨op, odd⟩ := t
    have := ih (if odd = true then !jw else jw)
    simp only [jwLoop, List.length_cons]
    omega

/-- without any JW-odd operator the loop changes nothing and writes `Id` everywhere -/
theorem jwLoop_all_even (T : List (Word × Bool)) (h : ∀ t ∈ T, t.2 = false) :
    jwLoop false T = (T.map (·.1), List.replicate T.length "Id", false) := by
  induction T with
  | nil => rfl
  | cons t T ih =>
    obtain ⟨op, odd⟩ := t
    have ho : odd = false := h (op, odd) (by simp)
    subst ho
    have := ih (fun u hu => h u (List.mem_cons_of_mem _ hu))
    simp [jwLoop, this, List.replicate_succ]

end TenpyModel.C12

/-- **`multi_coupling_term_handle_JW` writes out the product of the Jordan–Wigner images.**
If the function accepts a site-sorted term (`op_string=None`), then on *every* site `k` of the chain
(also between and left/right of the operators) the operator string it returns — operators `ops[x]`
on `ijkl[x]`, `op_string[x]` between `ijkl[x]` and `ijkl[x+1]`, identity outside — has the same
value as the ordered product of the Jordan–Wigner images of the operators of the term, in every
monoid where `JW² = 1`.  `ijkl` is the input shifted by a multiple-of-`L` offset `sh`. -/
theorem C12_JW_sorted {M : Type} [Monoid M] (ev : String → M)
    (hJ : ev "JW" * ev "JW" = 1) (hI : ev "Id" = 1)
    (sites : JWSites) (term : List (Word × Int)) (ijkl : List Int) (ops : List Word) (strs : List String)
    (h : multiHandleJW sites term none = .ok (ijkl, ops, strs)) :
    ∃ sh : Int, ijkl = (term.map (·.2)).map (· + sh) ∧
      tpar (withFlags sites term) = false ∧
      ∀ k, evalWord ev (prodAt k (withFlags sites term)) =
           evalWord ev (outAt (k + sh) "Id" ijkl ops (strs ++ ["Id"])) := by
  unfold multiHandleJW at h
  simp only at h
  split at h
  · cases h
  next hlen =>
  split at h
  · cases h
  next hasc =>
  have hasc' : ascending (term.map (·.2)) = true := by simpa using hasc
  have hne : term ≠ [] := by intro e; subst e; simp at hlen
  set T := withFlags sites term with hT
  have hTmap : T.map (fun t => (t.1, t.2.2)) = (term.map (·.1)).zip (term.map (fun t => opNeedsJW (siteAt sites t.2) t.1)) :=
    withFlags_map sites term
  have hTsites : T.map (·.2.1) = term.map (·.2) := by simp [hT, withFlags, List.map_map, Function.comp_def]
  have hsorted : T.Pairwise (fun a b => a.2.1 < b.2.1) := by
    have := pairwise_of_ascending _ hasc'
    rw [← hTsites] at this
    exact List.pairwise_map.1 this
  -- the shift
  generalize hsh : (if 0 ≤ (term.map (·.2)).headD 0 ∧ (term.map (·.2)).headD 0 < (sites.length : Int) then term.map (·.2)
      else (term.map (·.2)).map (· + ((term.map (·.2)).headD 0 % (sites.length : Int) - (term.map (·.2)).headD 0))) = ijkl' at h
  obtain ⟨sh, hshift⟩ : ∃ sh : Int, ijkl' = (term.map (·.2)).map (· + sh) := by
    rw [← hsh]
    split
    · exact ⟨0, by simp⟩
    · exact ⟨_, rfl⟩
  -- both paths (no odd operator / the loop) give the loop's output
  have key : ∃ r : List Word × List String × Bool, r = jwLoop false (T.map (fun t => (t.1, t.2.2))) ∧
      r.2.2 = false ∧ ijkl = ijkl' ∧ ops = r.1 ∧ strs ++ ["Id"] = r.2.1 := by
    refine ⟨_, rfl, ?_⟩
    by_cases hany : (term.map (fun t => opNeedsJW (siteAt sites t.2) t.1)).any id = true
    · simp only [hany, Bool.not_true, Bool.false_eq_true, if_false] at h
      rw [← hTmap] at h
      split at h
      · cases h
      next hfin =>
        have hfin' : (jwLoop false (T.map (fun t => (t.1, t.2.2)))).2.2 = false := by simpa using hfin
        simp only [Except.ok.injEq, Prod.mk.injEq] at h
        refine ⟨hfin', h.1.symm, h.2.1.symm, ?_⟩
        rw [← h.2.2]
        have hl := jwLoop_strs_last false (T.map (fun t => (t.1, t.2.2))) (by simp [hT, withFlags, hne])
        rw [hfin'] at hl
        exact hl.symm
    · have hall : ∀ t ∈ T.map (fun t => (t.1, t.2.2)), t.2 = false := by
        intro t ht
        rw [hTmap] at ht
        have := (List.of_mem_zip ht).2
        simp only [List.any_eq_true, id, not_exists, not_and] at hany
        cases hb : t.2
        · rfl
        · exact absurd hb (hany t.2 this)
      have hev := jwLoop_all_even _ hall
      simp only [hany, Bool.not_false, if_true, Except.ok.injEq, Prod.mk.injEq] at h
      rw [hev]
      refine ⟨rfl, h.1.symm, ?_, ?_⟩
      · rw [← h.2.1]; simp [hT, withFlags, List.map_map, Function.comp_def]
      · rw [← h.2.2]
        have : (T.map (fun t => (t.1, t.2.2))).length = term.length := by simp [hT, withFlags]
        rw [this]
        have : term.length = (term.length - 1) + 1 := by omega
        rw [this, List.replicate_succ']; simp
  obtain ⟨r, hr, hfin, e1, e2, e3⟩ := key
  refine ⟨sh, by rw [e1, hshift], ?_, ?_⟩
  · have := jwLoop_final false T
    rw [← hr, hfin] at this
    exact (eq_of_bne_false _ _ this.symm).symm ▸ rfl
  · intro k
    have hc := jwLoop_correct ev hJ hI k T hsorted false (by rw [← hr]; exact hfin)
    rw [hc, ← hr, e1, hshift, e2, e3, ← hTsites, outAt_shift]
    rfl

/-- **rejection**: a site-sorted term of at least two operators is rejected with "odd number of
Jordan Wigner strings" exactly when its total fermion parity is odd. -/
theorem C12_JW_sorted_error (sites : JWSites) (term : List (Word × Int))
    (hlen : 2 ≤ term.length) (hasc : ascending (term.map (·.2)) = true) :
    (∃ e, multiHandleJW sites term none = .error e) ↔ tpar (withFlags sites term) = true := by
  have hTmap := withFlags_map sites term
  have hfinal := jwLoop_final false (withFlags sites term)
  unfold multiHandleJW
  simp only
  rw [if_neg (by omega), hasc]
  simp only [Bool.not_true, Bool.false_eq_true, if_false]
  by_cases hany : (term.map (fun t => opNeedsJW (siteAt sites t.2) t.1)).any id = true
  · simp only [hany, Bool.not_true, Bool.false_eq_true, if_false]
    rw [← hTmap, hfinal]
    cases htp : tpar (withFlags sites term) <;> simp
  · simp only [hany, Bool.not_false, if_true]
    have hall : ∀ t ∈ (withFlags sites term).map (fun t => (t.1, t.2.2)), t.2 = false := by
      intro t ht
      rw [hTmap] at ht
      have := (List.of_mem_zip ht).2
      simp only [List.any_eq_true, id, not_exists, not_and] at hany
      cases hb : t.2
      · rfl
      · exact absurd hb (hany t.2 this)
    have hev := jwLoop_all_even _ hall
    rw [hev] at hfinal
    have : tpar (withFlags sites term) = false := (eq_of_bne_false _ _ hfinal.symm)
    simp [this]

/-- non-vacuity: `c†_0 n_1 c_4` on a three-site unit cell: strings on sites 0..3. -/
example :
    let f := ["JW", "C", "Cd"]
    multiHandleJW [f, f, ["JW"]] [(["Cd"], 0), (["N"], 1), (["C"], 4)] none
      = .ok ([0, 1, 4], [["Cd", "JW"], ["N", "JW"], ["C"]], ["JW", "JW"]) := by decide

/-- **`coupling_term_handle_JW` is the two-operator case of `multi_coupling_term_handle_JW`**
(same operators and string; both reject exactly the mixed-parity pairs). -/
theorem C12_coupling_JW (sites : JWSites) (ti tj : Word × Int) (hij : ti.2 < tj.2)
    (hi : 0 ≤ ti.2 ∧ ti.2 < (sites.length : Int)) :
    (multiHandleJW sites [ti, tj] none).toOption =
      (couplingHandleJW sites ti tj none).toOption.map (fun r => ([r.1, r.2.1], [r.2.2.1, r.2.2.2.1], [r.2.2.2.2])) := by
  unfold multiHandleJW couplingHandleJW
  simp only [List.length_cons, List.length_nil, List.map_cons, List.map_nil, ascending, hij, decide_true,
    Bool.and_self, Bool.not_true, Bool.false_eq_true, if_false, List.headD_cons, hi, and_self, if_true,
    List.any_cons, List.any_nil, Bool.or_false, id, List.zip_cons_cons, List.zip_nil_right]
  cases h1 : opNeedsJW (siteAt sites ti.2) ti.1 <;> cases h2 : opNeedsJW (siteAt sites tj.2) tj.1 <;>
    simp [jwLoop, Except.toOption, multiplyOpNames]

/-! ## `MPS._term_to_ops_list` -/

namespace TenpyModel.C12

/-- one entry of the term as the loop sees it: name, position `j = i - i_min`, needs-JW flag -/
abbrev TEntry := Word × Nat × Bool

def t2oStep (acc : List (List Word) × Nat) (e : TEntry) : List (List Word) × Nat :=
  (opsStep acc.1 e.1 e.2.1 e.2.2, if e.2.2 then acc.2 + 1 else acc.2)

/-- what entry `e` appends to the list of site `j` -/
def contrib (j : Nat) (e : TEntry) : List Word :=
  if j = e.2.1 then [e.1] else if j < e.2.1 ∧ e.2.2 = true then [["JW"]] else []

theorem t2o_fold (es : List TEntry) (ops : List (List Word)) (c : Nat) :
    (es.foldl t2oStep (ops, c)).1.length = ops.length ∧
    (∀ j, j < ops.length →
      (es.foldl t2oStep (ops, c)).1[j]? = (ops[j]?).map (fun l => l ++ es.flatMap (contrib j))) ∧
    (es.foldl t2oStep (ops, c)).2 = c + es.countP (fun e => e.2.2) := by
  induction es generalizing ops c with
  | nil => simp
  | cons e es ih =>
    have hlen : (opsStep ops e.1 e.2.1 e.2.2).length = ops.length := by simp [opsStep]
    obtain ⟨h1, h2, h3⟩ := ih (opsStep ops e.1 e.2.1 e.2.2) (if e.2.2 then c + 1 else c)
    simp only [List.foldl_cons, t2oStep]
    refine ⟨by rw [h1, hlen], ?_, ?_⟩
    · intro j hj
      rw [h2 j (by rw [hlen]; exact hj)]
      simp only [opsStep, List.getElem?_mapIdx, Option.map_map, List.flatMap_cons]
      cases hoj : ops[j]? with
      | none => rfl
      | some l =>
        simp only [Option.map_some, Function.comp, contrib]
        congr 1
        by_cases h1 : j = e.2.1
        · simp [h1]
        · by_cases h2 : j < e.2.1 ∧ e.2.2 = true
          · simp [h1, h2]
          · simp [h1, h2]
    · rw [h3]
      simp only [List.countP_cons]
      cases e.2.2 <;> simp <;> omega

theorem tpar_countP (T : List SOp) : tpar T = (T.countP (fun t => t.2.2) % 2 == 1) := by
  induction T with
  | nil => rfl
  | cons t T ih =>
    simp only [tpar, ih, List.countP_cons]
    rcases Nat.mod_two_eq_zero_or_one (List.countP (fun t => t.2.2) T) with h | h <;>
      cases t.2.2 <;> simp [h, Nat.add_mod]

theorem foldl_min_le (l : List Int) (a : Int) : l.foldl min a ≤ a ∧ ∀ x ∈ l, l.foldl min a ≤ x := by
  induction l generalizing a with
  | nil => simp
  | cons b l ih =>
    simp only [List.foldl_cons]
    obtain ⟨h1, h2⟩ := ih (min a b)
    refine ⟨le_trans h1 (min_le_left _ _), ?_⟩
    intro x hx
    rcases List.mem_cons.1 hx with rfl | hx
    · exact le_trans h1 (min_le_right _ _)
    · exact h2 x hx

theorem minInt_le (l : List Int) : ∀ x ∈ l, minInt l ≤ x := by
  cases l with
  | nil => simp
  | cons a l =>
    intro x hx
    simp only [minInt]
    rcases List.mem_cons.1 hx with rfl | hx
    · exact (foldl_min_le l _).1
    · exact (foldl_min_le l a).2 x hx

end TenpyModel.C12

/-- **`MPS._term_to_ops_list` builds the ordered product of the Jordan–Wigner images, site by site.**
For every term (any order, repeated sites allowed) and every position `j` of the returned list, the
names handed to `multiply_operators` for site `i_min + j` are — in order — exactly what the images of
the operators of the term put on that site (`prodAt`), and `has_extra_JW` is the total parity, i.e.
"a string leaves to the left of `i_min`". (`JW_from_right=False`.) -/
theorem C12_term_to_ops_list (sites : JWSites) (term : List (Word × Int)) (autoJW : Bool) (off : Int) :
    let T : List SOp := term.map (fun t => (t.1, t.2, autoJW && opNeedsJW (siteAt sites (t.2 + off)) t.1))
    let r := termToOpsList sites term autoJW off (some false)
    let iMin := minInt (term.map (·.2))
    r.2.1 = iMin + off ∧ r.2.2 = tpar T ∧
    ∀ j, j < r.1.length → ((r.1[j]?).map List.flatten) = some (prodAt (iMin + (j : Int)) T) := by
  intro T r iMin
  -- the loop as a fold over entries
  let f : Word × Int → TEntry := fun t => (t.1, (t.2 - iMin).toNat, autoJW && opNeedsJW (siteAt sites (t.2 + off)) t.1)
  let ops0 : List (List Word) := List.replicate (maxInt (term.map (·.2)) - iMin + 1).toNat []
  have hfold : term.foldl (fun (acc : List (List Word) × Nat) t =>
        let odd := autoJW && opNeedsJW (siteAt sites (t.2 + off)) t.1
        (opsStep acc.1 t.1 (t.2 - iMin).toNat odd, if odd then acc.2 + 1 else acc.2)) (ops0, 0)
      = (term.map f).foldl t2oStep (ops0, 0) := by
    rw [List.foldl_map]; rfl
  obtain ⟨h1, h2, h3⟩ := t2o_fold (term.map f) ops0 0
  have hr1 : r.1 = ((term.map f).foldl t2oStep (ops0, 0)).1 := by
    show (termToOpsList sites term autoJW off (some false)).1 = _
    simp only [termToOpsList]
    rw [hfold]; simp
  have hr3 : r.2.2 = (((term.map f).foldl t2oStep (ops0, 0)).2 % 2 == 1) := by
    show (termToOpsList sites term autoJW off (some false)).2.2 = _
    simp only [termToOpsList]
    rw [hfold]
  refine ⟨rfl, ?_, ?_⟩
  · rw [hr3, h3, tpar_countP]
    simp only [Nat.zero_add, T, f, List.countP_map]
    rfl
  · intro j hj
    rw [hr1] at hj ⊢
    rw [h1] at hj
    rw [h2 j hj]
    have hget : ops0[j]? = some [] := by
      simp only [ops0, List.length_replicate] at hj
      simp [ops0, List.getElem?_replicate, hj]
    rw [hget]
    simp only [Option.map_some, List.nil_append, prodAt, T, List.flatMap_map, Option.some.injEq]
    have hff : ∀ (l : List (Word × Int)) (g : Word × Int → List Word),
        (l.flatMap g).flatten = l.flatMap (fun a => (g a).flatten) := by
      intro l g
      induction l with
      | nil => rfl
      | cons a l ih => simp [List.flatMap_cons, List.flatten_append, ih]
    rw [hff]
    apply List.flatMap_congr
    intro t ht
    have hmin : iMin ≤ t.2 := minInt_le _ t.2 (List.mem_map_of_mem ht)
    have hpos : ((t.2 - iMin).toNat : Int) = t.2 - iMin := Int.toNat_of_nonneg (by omega)
    suffices key : ∀ odd : Bool, (contrib j (t.1, (t.2 - iMin).toNat, odd)).flatten
        = imgAt (iMin + (j : Int)) (t.1, t.2, odd) from key _
    intro odd
    show (if j = (t.2 - iMin).toNat then [t.1] else if j < (t.2 - iMin).toNat ∧ odd = true then [["JW"]] else []).flatten
        = if iMin + (j : Int) = t.2 then t.1 else if iMin + (j : Int) < t.2 ∧ odd = true then ["JW"] else []
    by_cases c1 : j = (t.2 - iMin).toNat
    · have e : iMin + (j : Int) = t.2 := by omega
      rw [if_pos c1, if_pos e]; simp
    · have hne : ¬ (iMin + (j : Int) = t.2) := by omega
      rw [if_neg c1, if_neg hne]
      by_cases c2 : j < (t.2 - iMin).toNat ∧ odd = true
      · have e2 : iMin + (j : Int) < t.2 ∧ odd = true := ⟨by omega, c2.2⟩
        rw [if_pos c2, if_pos e2]; simp
      · have e2 : ¬ (iMin + (j : Int) < t.2 ∧ odd = true) := by
          intro h; apply c2; exact ⟨by omega, h.2⟩
        rw [if_neg c2, if_neg e2]; simp

/-- non-vacuity: `<c†_2 c_0>` needs strings on sites 0 and 1 -/
example :
    let f := ["JW", "C", "Cd"]
    termToOpsList [f, f, f] [(["Cd"], 2), (["C"], 0)] true 0 (some false)
      = ([[["JW"], ["C"]], [["JW"]], [["Cd"]]], 0, false) := by decide
