import TenpyModel.C12.JW
import Mathlib.Tactic.Ring
import Mathlib.Tactic.NoncommRing
import Mathlib.Tactic.Linarith
import Mathlib.Data.List.Perm.Basic
import Mathlib.Algebra.Group.Defs
/-! Helper lemmas for the Jordan–Wigner bookkeeping model (`JW.lean`). -/
namespace TenpyModel.C12

/-! ## `opNeedsJW` is the parity of the number of flagged names -/

def countJW (njw : List String) (w : Word) : Nat := (w.filter njw.contains).length

theorem foldl_toggle (njw : List String) (ns : Word) (b : Bool) :
    ns.foldl (fun acc op => if njw.contains op then !acc else acc) b
      = (b != (countJW njw ns % 2 == 1)) := by
  induction ns generalizing b with
  | nil => simp [countJW]
  | cons n ns ih =>
    simp only [List.foldl_cons, ih, countJW, List.filter_cons]
    by_cases h : njw.contains n = true
    · simp only [h, if_true, List.length_cons]
      have : ((List.filter njw.contains ns).length + 1) % 2 = 1 - (List.filter njw.contains ns).length % 2 := by omega
      rcases Nat.mod_two_eq_zero_or_one (List.filter njw.contains ns).length with h0 | h0 <;>
        cases b <;> simp [this, h0]
    · simp only [h, Bool.false_eq_true, if_false]

theorem opNeedsJW_eq_parity (njw : List String) (w : Word) :
    opNeedsJW njw w = (countJW njw w % 2 == 1) := by
  cases w with
  | nil => simp [opNeedsJW, countJW]
  | cons n ns =>
    simp only [opNeedsJW, foldl_toggle]
    simp only [countJW, List.filter_cons]
    by_cases h : njw.contains n = true
    · simp only [h, if_true, List.length_cons]
      rcases Nat.mod_two_eq_zero_or_one (List.filter njw.contains ns).length with h0 | h0
      · have : ((List.filter njw.contains ns).length + 1) % 2 = 1 := by omega
        simp [h0, this]
      · have : ((List.filter njw.contains ns).length + 1) % 2 = 0 := by omega
        simp [h0, this]
    · have h' : n ∉ njw := by simpa using h
      simp [h']

/-! ## bubble sort of `order_combine_term` -/

theorem bubblePass_perm (n : Nat) (l : List TC) : (bubblePass n l).1.Perm l := by
  induction n generalizing l with
  | zero => cases l <;> simp [bubblePass]
  | succ n ih =>
    match l with
    | [] => simp [bubblePass]
    | [a] => simp [bubblePass]
    | a :: b :: rest =>
      simp only [bubblePass]
      split
      · exact ((ih (a :: rest)).cons b).trans (List.Perm.swap a b rest)
      · exact (ih (b :: rest)).cons a

theorem bubblePass_length (n : Nat) (l : List TC) : (bubblePass n l).1.length = l.length :=
  (bubblePass_perm n l).length_eq

theorem bubbleSort_perm (s : Nat) (l : List TC) : (bubbleSort s l).1.Perm l := by
  induction s generalizing l with
  | zero => simp [bubbleSort]
  | succ s ih => simp only [bubbleSort]; exact (ih _).trans (bubblePass_perm _ l)

/-- the pass does not look beyond position `n` -/
theorem bubblePass_append (n : Nat) (p q : List TC) (hp : p.length = n + 1) :
    bubblePass n (p ++ q) = ((bubblePass n p).1 ++ q, (bubblePass n p).2) := by
  induction n generalizing p with
  | zero =>
    match p, hp with
    | [a], _ => cases q <;> simp [bubblePass]
  | succ n ih =>
    match p, hp with
    | a :: b :: rest, hp =>
      have hl : (a :: rest).length = n + 1 := by simpa using hp
      have hl' : (b :: rest).length = n + 1 := by simpa using hp
      simp only [List.cons_append, bubblePass]
      split
      · have := ih (a :: rest) hl
        simp only [List.cons_append] at this
        rw [this]; rfl
      · have := ih (b :: rest) hl'
        simp only [List.cons_append] at this
        rw [this]; rfl

/-- after a full pass over `p` the last element is a maximum (by site) -/
theorem bubblePass_last (n : Nat) (p : List TC) (hp : p.length = n + 1) :
    ∃ init m, (bubblePass n p).1 = init ++ [m] ∧ ∀ x ∈ init, x.i ≤ m.i := by
  induction n generalizing p with
  | zero =>
    match p, hp with
    | [a], _ => exact ⟨[], a, by simp [bubblePass], by simp⟩
  | succ n ih =>
    match p, hp with
    | a :: b :: rest, hp =>
      simp only [bubblePass]
      split
      next hgt =>
        obtain ⟨init, m, he, hm⟩ := ih (a :: rest) (by simpa using hp)
        refine ⟨b :: init, m, by simp [he], ?_⟩
        intro x hx
        rcases List.mem_cons.1 hx with rfl | hx
        · -- b < a ≤ m : a is in init ++ [m]
          have ha : a ∈ init ++ [m] := by
            rw [← he]; exact (bubblePass_perm n (a :: rest)).mem_iff.2 (List.mem_cons_self ..)
          rcases List.mem_append.1 ha with h | h
          · have := hm a h; omega
          · simp at h; subst h; omega
        · exact hm x hx
      next hle =>
        obtain ⟨init, m, he, hm⟩ := ih (b :: rest) (by simpa using hp)
        refine ⟨a :: init, m, by simp [he], ?_⟩
        intro x hx
        rcases List.mem_cons.1 hx with rfl | hx
        · have hb : b ∈ init ++ [m] := by
            rw [← he]; exact (bubblePass_perm n (b :: rest)).mem_iff.2 (List.mem_cons_self ..)
          rcases List.mem_append.1 hb with h | h
          · have := hm b h; omega
          · simp at h; subst h; omega
        · exact hm x hx

def SortedBySite (l : List TC) : Prop := l.Pairwise (fun a b => a.i ≤ b.i)

/-- invariant of the outer loop: `l = p ++ q`, `|p| = s + 1`, `q` sorted and above all of `p` -/
theorem bubbleSort_sorted_aux (s : Nat) (p q : List TC) (hp : p.length = s + 1)
    (hq : SortedBySite q) (hpq : ∀ x ∈ p, ∀ y ∈ q, x.i ≤ y.i) :
    SortedBySite (bubbleSort s (p ++ q)).1 := by
  induction s generalizing p q with
  | zero =>
    match p, hp with
    | [a], _ =>
      simp only [bubbleSort, List.cons_append, List.nil_append]
      exact List.pairwise_cons.2 ⟨fun y hy => hpq a (by simp) y hy, hq⟩
  | succ s ih =>
    simp only [bubbleSort]
    rw [bubblePass_append (s + 1) p q hp]
    obtain ⟨init, m, he, hm⟩ := bubblePass_last (s + 1) p hp
    simp only [he, List.append_assoc, List.cons_append, List.nil_append]
    have hperm := bubblePass_perm (s + 1) p
    rw [he] at hperm
    have hlen : init.length = s + 1 := by
      have := hperm.length_eq
      simp at this; omega
    have hmem : ∀ x, x ∈ init ++ [m] → x ∈ p := fun x hx => hperm.mem_iff.1 hx
    apply ih init (m :: q) hlen
    · exact List.pairwise_cons.2 ⟨fun y hy => hpq m (hmem m (by simp)) y hy, hq⟩
    · intro x hx y hy
      rcases List.mem_cons.1 hy with rfl | hy
      · exact hm x hx
      · exact hpq x (hmem x (by simp [hx])) y hy

theorem bubbleSort_sorted (l : List TC) : SortedBySite (bubbleSort (l.length - 1) l).1 := by
  cases l with
  | nil => simp [bubbleSort, SortedBySite]
  | cons a t =>
    have := bubbleSort_sorted_aux t.length (a :: t) [] (by simp) (by simp [SortedBySite]) (by simp)
    simpa using this

/-! ### the sign: parity of inversions among JW-odd operators -/

/-- number of later operators `b` that `a` has to jump over with a sign: `a` right of `b`, both odd -/
def cntInv (a : TC) (l : List TC) : Nat := (l.filter (fun b => decide (a.i > b.i) && a.odd && b.odd)).length

/-- inversions (pairs in the wrong site order) among JW-odd operators -/
def oddInv : List TC → Nat
  | [] => 0
  | a :: l => cntInv a l + oddInv l

theorem cntInv_perm (a : TC) {l₁ l₂ : List TC} (h : l₁.Perm l₂) : cntInv a l₁ = cntInv a l₂ :=
  (h.filter _).length_eq

def isgn (b : Bool) : Int := if b then -1 else 1

theorem isgn_xor (a b : Bool) : isgn (a != b) = isgn a * isgn b := by
  cases a <;> cases b <;> simp [isgn]

theorem bubblePass_sign (n : Nat) (l : List TC) :
    (-1 : Int) ^ oddInv l = isgn (bubblePass n l).2 * (-1) ^ oddInv (bubblePass n l).1 := by
  induction n generalizing l with
  | zero => cases l <;> simp [bubblePass, isgn]
  | succ n ih =>
    match l with
    | [] => simp [bubblePass, isgn]
    | [a] => simp [bubblePass, isgn]
    | a :: b :: rest =>
      simp only [bubblePass]
      split
      next hgt =>
        have h1 := ih (a :: rest)
        have hp := bubblePass_perm n (a :: rest)
        simp only [oddInv] at h1 ⊢
        rw [cntInv_perm b hp]
        have ca : cntInv a (b :: rest) = (if a.odd && b.odd then 1 else 0) + cntInv a rest := by
          simp only [cntInv, List.filter_cons, hgt, decide_true, Bool.true_and]
          split <;> simp <;> omega
        have cb : cntInv b (a :: rest) = cntInv b rest := by
          have : ¬ (b.i > a.i) := by omega
          simp [cntInv, List.filter_cons, this]
        rw [ca, cb, isgn_xor]
        have e : (-1 : Int) ^ ((if (a.odd && b.odd) = true then 1 else 0) + cntInv a rest + (cntInv b rest + oddInv rest))
            = isgn (a.odd && b.odd) * (-1) ^ cntInv b rest * (-1) ^ (cntInv a rest + oddInv rest) := by
          cases hab : (a.odd && b.odd) <;> simp [isgn, pow_add] <;> ring
        rw [e, h1, pow_add]; ring
      next hle =>
        have h1 := ih (b :: rest)
        have hp := bubblePass_perm n (b :: rest)
        simp only [oddInv] at h1 ⊢
        rw [cntInv_perm a hp, pow_add, h1]; ring

theorem bubbleSort_sign (s : Nat) (l : List TC) :
    (-1 : Int) ^ oddInv l = isgn (bubbleSort s l).2 * (-1) ^ oddInv (bubbleSort s l).1 := by
  induction s generalizing l with
  | zero => simp [bubbleSort, isgn]
  | succ s ih =>
    simp only [bubbleSort]
    rw [bubblePass_sign (s + 1) l, ih (bubblePass (s + 1) l).1, isgn_xor]; ring

theorem cntInv_zero_of_le (a : TC) (l : List TC) (h : ∀ b ∈ l, a.i ≤ b.i) : cntInv a l = 0 := by
  simp only [cntInv, List.length_eq_zero_iff, List.filter_eq_nil_iff]
  intro b hb
  have := h b hb
  have : ¬ (a.i > b.i) := by omega
  simp [this]

theorem oddInv_sorted (l : List TC) (h : SortedBySite l) : oddInv l = 0 := by
  induction l with
  | nil => rfl
  | cons a l ih =>
    rw [SortedBySite, List.pairwise_cons] at h
    simp [oddInv, cntInv_zero_of_le a l h.1, ih h.2]

/-! ### the product: graded commutation -/

section product
variable {A : Type} [Ring A]

def sgnA (b : Bool) : A := if b then -1 else 1

theorem sgnA_xor (a b : Bool) : (sgnA (a != b) : A) = sgnA a * sgnA b := by
  cases a <;> cases b <;> simp [sgnA]

theorem sgnA_comm (b : Bool) (x : A) : sgnA b * x = x * sgnA b := by
  cases b <;> simp [sgnA]

/-- ordered product `J t₁ * J t₂ * ...` -/
def prodJ (J : TC → A) : List TC → A
  | [] => 1
  | t :: ts => J t * prodJ J ts

theorem bubblePass_prod (J : TC → A)
    (hJ : ∀ a b : TC, a.i ≠ b.i → J a * J b = sgnA (a.odd && b.odd) * (J b * J a))
    (n : Nat) (l : List TC) :
    prodJ J l = sgnA (bubblePass n l).2 * prodJ J (bubblePass n l).1 := by
  induction n generalizing l with
  | zero => cases l <;> simp [bubblePass, sgnA]
  | succ n ih =>
    match l with
    | [] => simp [bubblePass, sgnA]
    | [a] => simp [bubblePass, sgnA]
    | a :: b :: rest =>
      simp only [bubblePass]
      split
      next hgt =>
        have h1 := ih (a :: rest)
        simp only [prodJ] at h1 ⊢
        have hne : a.i ≠ b.i := by omega
        calc J a * (J b * prodJ J rest) = (J a * J b) * prodJ J rest := by noncomm_ring
          _ = sgnA (a.odd && b.odd) * (J b * (J a * prodJ J rest)) := by rw [hJ a b hne]; noncomm_ring
          _ = sgnA (a.odd && b.odd) * (J b * (sgnA (bubblePass n (a :: rest)).2 * prodJ J (bubblePass n (a :: rest)).1)) := by
              rw [h1]
          _ = sgnA ((a.odd && b.odd) != (bubblePass n (a :: rest)).2) * (J b * prodJ J (bubblePass n (a :: rest)).1) := by
              rw [sgnA_xor, ← mul_assoc (J b), ← sgnA_comm]; noncomm_ring
      next hle =>
        have h1 := ih (b :: rest)
        simp only [prodJ] at h1 ⊢
        rw [h1, ← mul_assoc, ← sgnA_comm, mul_assoc]

theorem bubbleSort_prod (J : TC → A)
    (hJ : ∀ a b : TC, a.i ≠ b.i → J a * J b = sgnA (a.odd && b.odd) * (J b * J a))
    (s : Nat) (l : List TC) :
    prodJ J l = sgnA (bubbleSort s l).2 * prodJ J (bubbleSort s l).1 := by
  induction s generalizing l with
  | zero => simp [bubbleSort, sgnA]
  | succ s ih =>
    simp only [bubbleSort]
    rw [bubblePass_prod J hJ (s + 1) l, ih (bubblePass (s + 1) l).1, sgnA_xor, mul_assoc]

end product

/-! ## `groupBySite` + `multiply_op_names`: same letters, strictly ascending sites -/

/-- the term spelled out letter by letter: (atomic name, site) -/
def lettersTC (l : List TC) : List (String × Int) := l.flatMap (fun t => t.op.map (fun n => (n, t.i)))

def lettersG (g : List (Int × List Word)) : List (String × Int) :=
  g.flatMap (fun p => p.2.flatten.map (fun n => (n, p.1)))

theorem groupBySite_cons_nil (t : TC) (ts : List TC) (h : groupBySite ts = []) :
    groupBySite (t :: ts) = [(t.i, [t.op])] := by
  simp [groupBySite, h]

theorem groupBySite_cons_cons (t : TC) (ts : List TC) (i : Int) (ops : List Word) (gs : List (Int × List Word))
    (h : groupBySite ts = (i, ops) :: gs) :
    groupBySite (t :: ts) = if i = t.i then (i, t.op :: ops) :: gs else (t.i, [t.op]) :: (i, ops) :: gs := by
  simp [groupBySite, h]

theorem groupBySite_letters (l : List TC) : lettersG (groupBySite l) = lettersTC l := by
  induction l with
  | nil => rfl
  | cons t ts ih =>
    cases hg : groupBySite ts with
    | nil =>
      rw [groupBySite_cons_nil t ts hg]
      rw [hg] at ih
      simp only [lettersTC, List.flatMap_cons] at ih ⊢
      rw [← ih]; simp [lettersG]
    | cons g gs =>
      obtain ⟨i, ops⟩ := g
      rw [groupBySite_cons_cons t ts i ops gs hg]
      rw [hg] at ih
      simp only [lettersTC, List.flatMap_cons] at ih ⊢
      rw [← ih]
      split
      next h => subst h; simp [lettersG]
      next h => simp [lettersG]

theorem groupBySite_nonempty (l : List TC) : ∀ g ∈ groupBySite l, g.2 ≠ [] := by
  induction l with
  | nil => simp [groupBySite]
  | cons t ts ih =>
    cases hg : groupBySite ts with
    | nil => rw [groupBySite_cons_nil t ts hg]; simp
    | cons g gs =>
      obtain ⟨i, ops⟩ := g
      rw [groupBySite_cons_cons t ts i ops gs hg]
      rw [hg] at ih
      split
      · intro g hg'
        rcases List.mem_cons.1 hg' with rfl | h
        · simp
        · exact ih g (List.mem_cons_of_mem _ h)
      · intro g hg'
        rcases List.mem_cons.1 hg' with rfl | h
        · simp
        · exact ih g h

theorem groupBySite_mem_site (l : List TC) : ∀ g ∈ groupBySite l, ∃ t ∈ l, t.i = g.1 := by
  induction l with
  | nil => simp [groupBySite]
  | cons t ts ih =>
    cases hg : groupBySite ts with
    | nil => rw [groupBySite_cons_nil t ts hg]; simp
    | cons g gs =>
      obtain ⟨i, ops⟩ := g
      rw [groupBySite_cons_cons t ts i ops gs hg]
      rw [hg] at ih
      split
      next h =>
        intro g hg'
        rcases List.mem_cons.1 hg' with rfl | h'
        · exact ⟨t, by simp, h.symm⟩
        · obtain ⟨u, hu, e⟩ := ih g (List.mem_cons_of_mem _ h')
          exact ⟨u, List.mem_cons_of_mem _ hu, e⟩
      next h =>
        intro g hg'
        rcases List.mem_cons.1 hg' with rfl | h'
        · exact ⟨t, by simp, rfl⟩
        · obtain ⟨u, hu, e⟩ := ih g h'
          exact ⟨u, List.mem_cons_of_mem _ hu, e⟩

theorem groupBySite_ascending (l : List TC) (h : SortedBySite l) :
    (groupBySite l).Pairwise (fun a b => a.1 < b.1) := by
  induction l with
  | nil => simp [groupBySite]
  | cons t ts ih =>
    rw [SortedBySite, List.pairwise_cons] at h
    have ih' := ih h.2
    cases hg : groupBySite ts with
    | nil => rw [groupBySite_cons_nil t ts hg]; simp
    | cons g gs =>
      obtain ⟨i, ops⟩ := g
      rw [groupBySite_cons_cons t ts i ops gs hg]
      rw [hg] at ih'
      have hmem := groupBySite_mem_site ts
      rw [hg] at hmem
      rw [List.pairwise_cons] at ih'
      split
      next he => exact List.pairwise_cons.2 ⟨fun b hb => ih'.1 b hb, ih'.2⟩
      next hne =>
        obtain ⟨u, hu, eu⟩ := hmem (i, ops) (by simp)
        have hlt : t.i < i := by
          have := h.1 u hu
          simp only at eu
          have hne' : ¬ (i = t.i) := hne
          omega
        refine List.pairwise_cons.2 ⟨?_, List.pairwise_cons.2 ih'⟩
        intro b hb
        rcases List.mem_cons.1 hb with rfl | hb
        · exact hlt
        · have := ih'.1 b hb
          simp only at this ⊢
          omega

theorem ascending_of_pairwise (l : List Int) (h : l.Pairwise (· < ·)) : ascending l = true := by
  induction l with
  | nil => rfl
  | cons a t ih =>
    cases t with
    | nil => rfl
    | cons b r =>
      rw [List.pairwise_cons] at h
      simp only [ascending, Bool.and_eq_true, decide_eq_true_eq]
      exact ⟨h.1 b (by simp), ih h.2⟩

/-! ## `multi_coupling_term_handle_JW`: the string loop -/

section strings
variable {M : Type} [Monoid M]

/-- value of a product of atomic names in a monoid -/
def evalWord (ev : String → M) : Word → M
  | [] => 1
  | a :: w => ev a * evalWord ev w

theorem evalWord_append (ev : String → M) (u v : Word) :
    evalWord ev (u ++ v) = evalWord ev u * evalWord ev v := by
  induction u with
  | nil => simp [evalWord]
  | cons a u ih => simp [evalWord, ih, mul_assoc]

/-- an operator of a (site-sorted) term: name, site, needs-JW flag -/
abbrev SOp := Word × Int × Bool

/-- what the Jordan–Wigner image of `t` puts on site `k`: the operator itself on its own site, a `JW`
on every site to its left if it is odd, nothing (identity) elsewhere -/
def imgAt (k : Int) (t : SOp) : Word :=
  if k = t.2.1 then t.1 else if k < t.2.1 ∧ t.2.2 = true then ["JW"] else []

/-- site `k` of the ordered product of the images: concatenation (operators on different sites
commute, on the same site they multiply in order) -/
def prodAt (k : Int) (T : List SOp) : Word := T.flatMap (imgAt k)

/-- total parity -/
def tpar : List SOp → Bool
  | [] => false
  | t :: T => t.2.2 != tpar T

def strOf (jw : Bool) : String := if jw then "JW" else "Id"

/-- site `k` of the operator string described by the output `(ijkl, ops, op_string)`: `prev` is the
string operator of the segment to the left of the first remaining operator -/
def outAt (k : Int) : String → List Int → List Word → List String → Word
  | prev, i :: is, o :: os, s :: ss => if k < i then [prev] else if k = i then o else outAt k s is os ss
  | prev, _, _, _ => [prev]

def jwPow (ev : String → M) (b : Bool) : M := if b then ev "JW" else 1

theorem jwPow_xor (ev : String → M) (hJ : ev "JW" * ev "JW" = 1) (a b : Bool) :
    jwPow ev (a != b) = jwPow ev a * jwPow ev b := by
  cases a <;> cases b <;> simp [jwPow, hJ]

theorem jwLoop_final (jw : Bool) (T : List SOp) :
    (jwLoop jw (T.map (fun t => (t.1, t.2.2)))).2.2 = (jw != tpar T) := by
  induction T generalizing jw with
  | nil => simp [jwLoop, tpar]
  | cons t T ih =>
    simp only [List.map_cons, jwLoop, tpar]
    rw [ih]
    cases jw <;> cases t.2.2 <;> cases tpar T <;> rfl

/-- left of all operators only the strings are seen -/
theorem prodAt_left (ev : String → M) (hJ : ev "JW" * ev "JW" = 1) (k : Int) (T : List SOp)
    (h : ∀ t ∈ T, k < t.2.1) : evalWord ev (prodAt k T) = jwPow ev (tpar T) := by
  induction T with
  | nil => simp [prodAt, evalWord, jwPow, tpar]
  | cons t T ih =>
    have hk := h t (by simp)
    have hne : ¬ (k = t.2.1) := by omega
    simp only [prodAt, List.flatMap_cons] at ih ⊢
    rw [evalWord_append, ih (fun u hu => h u (List.mem_cons_of_mem _ hu)), tpar, jwPow_xor ev hJ]
    congr 1
    simp only [imgAt, hne, if_false, hk, true_and]
    cases t.2.2 <;> simp [evalWord, jwPow]

theorem sorted_tail_gt (t : SOp) (T : List SOp) (h : (t :: T).Pairwise (fun a b => a.2.1 < b.2.1)) :
    ∀ u ∈ T, t.2.1 < u.2.1 := (List.pairwise_cons.1 h).1

theorem eq_of_bne_false (a b : Bool) (h : (a != b) = false) : b = a := by
  cases a <;> cases b <;> simp_all

theorem evalWord_strOf (ev : String → M) (hI : ev "Id" = 1) (b : Bool) :
    evalWord ev [strOf b] = jwPow ev b := by
  cases b <;> simp [evalWord, strOf, jwPow, hI]

/-- **the loop invariant of `multi_coupling_term_handle_JW`**: for the remaining operators `T`
(strictly ascending sites) and the current state `jw` = "a string is arriving from the left", the
operator string written out by the loop has on every site `k` the same value as the ordered product
of the Jordan–Wigner images of `T` — provided the loop ends without an open string. -/
theorem jwLoop_correct (ev : String → M) (hJ : ev "JW" * ev "JW" = 1) (hI : ev "Id" = 1)
    (k : Int) (T : List SOp) (hs : T.Pairwise (fun a b => a.2.1 < b.2.1)) (jw : Bool)
    (hfin : (jwLoop jw (T.map (fun t => (t.1, t.2.2)))).2.2 = false) :
    evalWord ev (prodAt k T) =
      evalWord ev (outAt k (strOf jw) (T.map (·.2.1))
        (jwLoop jw (T.map (fun t => (t.1, t.2.2)))).1 (jwLoop jw (T.map (fun t => (t.1, t.2.2)))).2.1) := by
  induction T generalizing jw with
  | nil =>
    simp only [List.map_nil, jwLoop] at hfin ⊢
    subst hfin
    simp [prodAt, outAt, evalWord, strOf, hI]
  | cons t T ih =>
    have htail := sorted_tail_gt t T hs
    have hs' := (List.pairwise_cons.1 hs).2
    have hfin0 := hfin
    rw [jwLoop_final] at hfin0
    simp only [List.map_cons, jwLoop] at hfin ⊢
    simp only [outAt]
    by_cases hk : k < t.2.1
    · -- left of the first operator
      rw [if_pos hk, evalWord_strOf ev hI]
      rw [prodAt_left ev hJ k (t :: T)]
      · rw [eq_of_bne_false _ _ hfin0]
      · intro u hu
        rcases List.mem_cons.1 hu with rfl | hu
        · exact hk
        · have := htail u hu; omega
    · rw [if_neg hk]
      by_cases hk2 : k = t.2.1
      · -- on the site of the first operator
        rw [if_pos hk2]
        have hfin' := hfin
        rw [jwLoop_final] at hfin'
        have hp : evalWord ev (prodAt k T) = jwPow ev (tpar T) :=
          prodAt_left ev hJ k T (fun u hu => by have := htail u hu; omega)
        simp only [prodAt, List.flatMap_cons] at hp ⊢
        rw [evalWord_append, hp]
        simp only [imgAt, hk2, if_true]
        have htp : tpar T = (if t.2.2 = true then !jw else jw) := eq_of_bne_false _ _ hfin'
        rw [htp]
        cases h2 : (if t.2.2 = true then !jw else jw)
        · simp [jwPow]
        · simp [jwPow, multiplyOpNames, evalWord_append, evalWord]
      · -- right of it: the first image contributes nothing
        rw [if_neg hk2]
        have hnil : imgAt k t = [] := by
          have : ¬ (k < t.2.1 ∧ t.2.2 = true) := fun h => hk h.1
          simp [imgAt, hk2, this]
        simp only [prodAt, List.flatMap_cons, hnil, List.nil_append]
        have := ih hs' (if t.2.2 = true then !jw else jw) hfin
        simp only [prodAt] at this
        rw [this]
        cases h2 : (if t.2.2 = true then !jw else jw) <;> simp [strOf]

end strings

end TenpyModel.C12
