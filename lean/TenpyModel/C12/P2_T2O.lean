import TenpyModel.C12.PropsJW
/-! `_term_to_ops_list` with `JW_from_right ∈ {True, None}` in terms of `JW_from_right=False`. -/
namespace TenpyModel.C12

theorem termToOpsList_true (sites : JWSites) (term : List (Word × Int)) (autoJW : Bool) (off : Int) :
    termToOpsList sites term autoJW off (some true) =
      ((termToOpsList sites term autoJW off (some false)).1.map (fun l => l ++ [["JW"]]),
       (termToOpsList sites term autoJW off (some false)).2.1,
       !(termToOpsList sites term autoJW off (some false)).2.2) := by
  simp only [termToOpsList]
  generalize (term.foldl _ _) = r
  simp only [if_true, Bool.false_eq_true, if_false, Prod.mk.injEq, true_and]
  rcases Nat.mod_two_eq_zero_or_one r.2 with h | h <;> simp [Nat.add_mod, h]

theorem termToOpsList_none (sites : JWSites) (term : List (Word × Int)) (autoJW : Bool) (off : Int) :
    termToOpsList sites term autoJW off none =
      ((termToOpsList sites term autoJW off
          (some (termToOpsList sites term autoJW off (some false)).2.2)).1,
       (termToOpsList sites term autoJW off (some false)).2.1,
       (termToOpsList sites term autoJW off (some false)).2.2) := by
  simp only [termToOpsList]
  generalize (term.foldl _ _) = r
  cases h : (r.2 % 2 == 1) <;> simp [h]

theorem tpar_append (T : List SOp) (x : SOp) : tpar (T ++ [x]) = (tpar T != x.2.2) := by
  induction T with
  | nil => simp [tpar]
  | cons t T ih =>
    simp only [List.cons_append, tpar, ih]
    cases t.2.2 <;> cases tpar T <;> cases x.2.2 <;> rfl

theorem prodAt_append (k : Int) (T : List SOp) (x : SOp) : prodAt k (T ++ [x]) = prodAt k T ++ imgAt k x := by
  simp [prodAt, List.flatMap_append]

theorem termToOpsList_length (sites : JWSites) (term : List (Word × Int)) (autoJW : Bool) (off : Int) :
    (termToOpsList sites term autoJW off (some false)).1.length =
      (maxInt (term.map (·.2)) - minInt (term.map (·.2)) + 1).toNat := by
  let iMin := minInt (term.map (·.2))
  let f : Word × Int → TEntry := fun t => (t.1, (t.2 - iMin).toNat, autoJW && opNeedsJW (siteAt sites (t.2 + off)) t.1)
  let ops0 : List (List Word) := List.replicate (maxInt (term.map (·.2)) - iMin + 1).toNat []
  have hfold : term.foldl (fun (acc : List (List Word) × Nat) t =>
        let odd := autoJW && opNeedsJW (siteAt sites (t.2 + off)) t.1
        (opsStep acc.1 t.1 (t.2 - iMin).toNat odd, if odd then acc.2 + 1 else acc.2)) (ops0, 0)
      = (term.map f).foldl t2oStep (ops0, 0) := by
    rw [List.foldl_map]; rfl
  obtain ⟨h1, _, _⟩ := t2o_fold (term.map f) ops0 0
  simp only [termToOpsList]
  rw [hfold]
  simp only [Bool.false_eq_true, if_false]
  rw [h1]; simp [ops0, iMin]

end TenpyModel.C12
