import TenpyModel.C12.Sites
import Mathlib.Tactic.Linarith
import Mathlib.Data.List.Perm.Basic
/-!
# C12 — declared Hermitian-conjugate pairs (property theorems)

`hc_ops[name]` of the model (compared with `site.hc_ops` on every run) names an operator whose table
is the conjugate transpose: entry `(i, j)` of the partner = complex conjugate of entry `(j, i)`.
Parametric classes (`SpinSite(S)`, `BosonSite(Nmax)`, `ClockSite(q)`) for every parameter value, every
entry; fixed-size classes by evaluation of the executable check on the whole table.
-/
namespace TenpyModel.C12

/-- entry of the operator called `name` (zero if there is none) -/
def opEnt (s : SiteSpec) (name : String) (i j : Nat) : Entry :=
  match findOp s name with
  | some o => o.ent i j
  | none => eZero

/-- equality of entries; sums of powers of `ω` are compared as multisets -/
def Entry.sameB : Entry → Entry → Bool
  | .sq s r im, .sq s' r' im' => s == s' && r == r' && im == im'
  | .omega l, .omega l' => l.isPerm l'
  | _, _ => false

/-- executable check on the `d × d` window: every operator has its declared partner, and the partner
is the conjugate transpose -/
def hcOk (s : SiteSpec) : Bool :=
  let d := siteDim s
  (siteOps s).all (fun o =>
    match findOp s o.hc with
    | none => false
    | some o' => o'.hc == o.name &&
      (List.range d).all (fun i => (List.range d).all (fun j =>
        (o'.ent i j).sameB ((o.ent j i).conj (siteQ s)))))

theorem eSqrt_conj_real (s : Int) (r : Rat) (q : Nat) : (eSqrt s r).conj q = eSqrt s r := by
  unfold eSqrt
  split <;> simp [Entry.conj, eZero]

theorem eSqrt_conj_imag (s : Int) (r : Rat) (q : Nat) : (eSqrt s r true).conj q = eSqrt (-s) r true := by
  unfold eSqrt
  by_cases h : r = 0 ∨ s = 0
  · have h' : r = 0 ∨ -s = 0 := by
      rcases h with h | h
      · exact Or.inl h
      · exact Or.inr (by omega)
    simp [h, h', Entry.conj, eZero]
  · have h' : ¬ (r = 0 ∨ -s = 0) := by
      intro h2; apply h
      rcases h2 with h2 | h2
      · exact Or.inl h2
      · exact Or.inr (by omega)
    simp [h, h', Entry.conj]

theorem eZero_conj (q : Nat) : eZero.conj q = eZero := by simp [eZero, Entry.conj]

end TenpyModel.C12

open TenpyModel.C12

/-- **`SpinSite(S)`, every `S` and conserve option, every entry**: `Sm = Sp†`, and `Sx`, `Sy` (when
present) are Hermitian — `Sy` has purely imaginary entries `±i·sqrt(..)/2` that change sign under
transposition. -/
theorem C12_hc_pairs_spin (twoS : Nat) (c : Cons) (i j : Nat) :
    opEnt (.spin twoS c) "Sm" i j = (opEnt (.spin twoS c) "Sp" j i).conj 1 ∧
    opEnt (.spin twoS c) "Sp" i j = (opEnt (.spin twoS c) "Sm" j i).conj 1 ∧
    opEnt (.spin twoS .none) "Sx" i j = (opEnt (.spin twoS .none) "Sx" j i).conj 1 ∧
    opEnt (.spin twoS .none) "Sy" i j = (opEnt (.spin twoS .none) "Sy" j i).conj 1 ∧
    (findOp (.spin twoS c) "Sp").map (·.hc) = some "Sm" ∧ (findOp (.spin twoS c) "Sm").map (·.hc) = some "Sp" := by
  have hSp : ∀ a b, opEnt (.spin twoS c) "Sp" a b = subD (fun n => eSqrt 1 (spinSpSq twoS n)) a b := by
    intro a b; simp [opEnt, findOp, siteOps, spinOps, ratOp]
  have hSm : ∀ a b, opEnt (.spin twoS c) "Sm" a b = supD (fun n => eSqrt 1 (spinSpSq twoS n)) a b := by
    intro a b; simp [opEnt, findOp, siteOps, spinOps, ratOp]
  refine ⟨?_, ?_, ?_, ?_, by simp [findOp, siteOps, spinOps, ratOp], by simp [findOp, siteOps, spinOps, ratOp]⟩
  · rw [hSp, hSm]
    unfold subD supD
    split
    · rw [eSqrt_conj_real]
    · exact (eZero_conj 1).symm
  · rw [hSp, hSm]
    unfold subD supD
    split
    · rw [eSqrt_conj_real]
    · exact (eZero_conj 1).symm
  · have h : ∀ a b, opEnt (.spin twoS .none) "Sx" a b =
        if a = b + 1 then eSqrt 1 (spinSpSq twoS b / 4) else if b = a + 1 then eSqrt 1 (spinSpSq twoS a / 4) else eZero := by
      intro a b; simp [opEnt, findOp, siteOps, spinOps, ratOp]
    rw [h, h]
    by_cases h1 : i = j + 1
    · have h2 : ¬ (j = i + 1) := by omega
      rw [if_pos h1, if_neg h2, if_pos h1, eSqrt_conj_real]
    · by_cases h2 : j = i + 1
      · rw [if_neg h1, if_pos h2, if_pos h2, eSqrt_conj_real]
      · rw [if_neg h1, if_neg h2, if_neg h2, if_neg h1, eZero_conj]
  · have h : ∀ a b, opEnt (.spin twoS .none) "Sy" a b =
        if a = b + 1 then eSqrt (-1) (spinSpSq twoS b / 4) true
        else if b = a + 1 then eSqrt 1 (spinSpSq twoS a / 4) true else eZero := by
      intro a b; simp [opEnt, findOp, siteOps, spinOps, ratOp]
    rw [h, h]
    by_cases h1 : i = j + 1
    · have h2 : ¬ (j = i + 1) := by omega
      rw [if_pos h1, if_neg h2, if_pos h1, eSqrt_conj_imag]
    · by_cases h2 : j = i + 1
      · rw [if_neg h1, if_pos h2, if_pos h2, eSqrt_conj_imag]; rfl
      · rw [if_neg h1, if_neg h2, if_neg h2, if_neg h1, eZero_conj]

/-- **`BosonSite(Nmax)`, every cutoff**: `Bd = B†`. -/
theorem C12_hc_pairs_boson (nmax : Nat) (c : Cons) (f : Rat) (i j : Nat) :
    opEnt (.boson nmax c f) "Bd" i j = (opEnt (.boson nmax c f) "B" j i).conj 1 ∧
    opEnt (.boson nmax c f) "B" i j = (opEnt (.boson nmax c f) "Bd" j i).conj 1 ∧
    (findOp (.boson nmax c f) "B").map (·.hc) = some "Bd" ∧ (findOp (.boson nmax c f) "Bd").map (·.hc) = some "B" := by
  have hB : ∀ a b, opEnt (.boson nmax c f) "B" a b = supD (fun n => eSqrt 1 (bosonBSq n)) a b := by
    intro a b; simp [opEnt, findOp, siteOps, bosonOps, ratOp]
  have hBd : ∀ a b, opEnt (.boson nmax c f) "Bd" a b = subD (fun n => eSqrt 1 (bosonBSq n)) a b := by
    intro a b; simp [opEnt, findOp, siteOps, bosonOps, ratOp]
  refine ⟨?_, ?_, by simp [findOp, siteOps, bosonOps, ratOp], by simp [findOp, siteOps, bosonOps, ratOp]⟩
  · rw [hB, hBd]; unfold subD supD
    split
    · rw [eSqrt_conj_real]
    · exact (eZero_conj 1).symm
  · rw [hB, hBd]; unfold subD supD
    split
    · rw [eSqrt_conj_real]
    · exact (eZero_conj 1).symm

/-- **`ClockSite(q)`, every `q ≥ 1`**: `Xhc = X†` (entries are 0/1, transposed) and `Zhc = Z†`
(`conj(ω^k) = ω^(q-k)`). -/
theorem C12_hc_pairs_clock (q : Nat) (hq : 0 < q) (i j : Nat) :
    mtrans (clockX q) i j = (clockX q j i).map (fun e => (q - e % q) % q) ∧
    clockZhc q i j = (clockZ q j i).map (fun e => (q - e % q) % q) ∧
    clockZ q i j = (clockZhc q j i).map (fun e => (q - e % q) % q) := by
  refine ⟨?_, ?_, ?_⟩
  · simp only [mtrans, clockX, List.map_append]
    have : (q - 0 % q) % q = 0 := by simp
    split <;> split <;> simp [this]
  · simp only [clockZhc, clockZ]
    by_cases h : i = j
    · subst h; simp [Nat.mod_mod]
    · have h' : ¬ j = i := fun e => h e.symm
      simp [h, h']
  · simp only [clockZhc, clockZ]
    by_cases h : i = j
    · subst h
      simp only [if_true, List.map_cons, List.map_nil, List.cons.injEq, and_true]
      have hr := Nat.mod_lt i hq
      rcases Nat.eq_zero_or_pos (i % q) with h0 | h0
      · rw [h0]; simp
      · have h1 : (q - i % q) % q = q - i % q := Nat.mod_eq_of_lt (by omega)
        rw [h1, h1]
        have : q - (q - i % q) = i % q := by omega
        rw [this, Nat.mod_mod]
    · have h' : ¬ j = i := fun e => h e.symm
      simp [h, h']

/-- **every operator of every fixed-size site (all conserve options) and of the small parametric
sites** has its declared partner, which is the conjugate transpose on the whole table (executable
check `hcOk`, evaluated by the kernel; fillings ½ / 1 — the filling only enters real diagonal
entries). -/
theorem C12_hc_pairs_tables :
    (∀ c ∈ [Cons.none, .parity, .full], hcOk (.spinHalf c) = true ∧ hcOk (.fermion c (1/2)) = true) ∧
    (∀ cS ∈ [Cons.none, .parity, .full], hcOk (.shFermion .full cS 1) = true ∧ hcOk (.shHole .full cS 1) = true) ∧
    (∀ twoS ∈ [1, 2, 3, 4], hcOk (.spin twoS .none) = true ∧ hcOk (.spin twoS .full) = true) ∧
    (∀ n ∈ [1, 2, 3], hcOk (.boson n .full 0) = true) ∧
    (∀ q ∈ [2, 3, 4, 5], hcOk (.clock q .none) = true ∧ hcOk (.clock q .full) = true) := by
  decide +kernel
