import TenpyModel.C12.P2_C2JW
/-! the greedy cover of `_set_common_charges_charge_to_JW_parity`: fold invariant. -/
namespace TenpyModel.C12

theorem dotI_nil_left (xs : List Int) : dotI [] xs = 0 := by simp [dotI]
theorem dotI_cons (a : Int) (as : List Int) (x : Int) (xs : List Int) :
    dotI (a :: as) (x :: xs) = a * x + dotI as xs := by simp [dotI]

theorem dotI_zeros {β : Type} (l : List β) (xs : List Int) : dotI (l.map (fun _ => (0 : Int))) xs = 0 := by
  induction l generalizing xs with
  | nil => simp [dotI]
  | cons b l ih =>
    cases xs with
    | nil => simp [dotI]
    | cons x xs => rw [List.map_cons, dotI_cons, ih]; simp

theorem dotI_set (vec xs : List Int) (ni : Nat) (v : Int) (h1 : ni < vec.length) (h2 : ni < xs.length) :
    dotI (vec.set ni v) xs = dotI vec xs + (v - vec[ni]) * xs[ni] := by
  induction vec generalizing xs ni with
  | nil => simp at h1
  | cons a as ih =>
    cases xs with
    | nil => simp at h2
    | cons x xs =>
      cases ni with
      | zero => simp only [List.set_cons_zero, dotI_cons, List.getElem_cons_zero]; rw [Int.sub_mul]; omega
      | succ ni =>
        simp only [List.set_cons_succ, dotI_cons, List.getElem_cons_succ]
        rw [ih xs ni (by simpa using h1) (by simpa using h2)]; omega

/-- one step of the greedy cover -/
def coverStep (acc : List Int × List CTerm) (c : (List CTerm × Nat) × Nat) : List Int × List CTerm :=
  if subSet c.1.1 acc.2 then (acc.1.set c.2 1, acc.2.filter (fun t => !c.1.1.contains t)) else acc

/-- what is known about an entry of `cands` -/
def CandOk (newCharges : List (List CTerm)) (newMod : List Nat) (c : (List CTerm × Nat) × Nat) : Prop :=
  newCharges[c.2]? = some c.1.1 ∧ newMod[c.2]? = some c.1.2 ∧ (c.1.2 = 1 ∨ c.1.2 % 2 = 0)

/-- entries of the result: `0`, or `1` at an admissible new charge -/
def VecOk (newMod : List Nat) (vec : List Int) : Prop :=
  ∀ ni, vec.getD ni 0 = 0 ∨ (vec.getD ni 0 = 1 ∧ ∃ m, newMod[ni]? = some m ∧ (m = 1 ∨ m % 2 = 0))

theorem getD_set (vec : List Int) (ni k : Nat) (v : Int) :
    (vec.set ni v).getD k 0 = if k = ni ∧ ni < vec.length then v else vec.getD k 0 := by
  simp only [List.getD_eq_getElem?_getD, List.getElem?_set]
  by_cases h : ni = k
  · subst h
    by_cases h2 : ni < vec.length
    · simp [h2]
    · simp [h2]
  · have h' : ¬ k = ni := fun e => h e.symm
    simp [h, h']

theorem cover_fold (f : CTerm → Int) (need : List CTerm) (newCharges : List (List CTerm)) (newMod : List Nat)
    (hndc : ∀ nc ∈ newCharges, nc.Nodup)
    (cs : List ((List CTerm × Nat) × Nat)) (hcs : ∀ c ∈ cs, CandOk newCharges newMod c)
    (hidx : cs.Pairwise (fun a b => a.2 ≠ b.2))
    (acc : List Int × List CTerm)
    (hlen : acc.1.length = newCharges.length) (hnd : acc.2.Nodup)
    (hsum : sumT f need = sumT f acc.2 + dotI acc.1 (newCharges.map (sumT f)))
    (hzero : ∀ c ∈ cs, acc.1.getD c.2 0 = 0) (hok : VecOk newMod acc.1) :
    let r := cs.foldl coverStep acc
    r.1.length = newCharges.length ∧ r.2.Nodup ∧
    sumT f need = sumT f r.2 + dotI r.1 (newCharges.map (sumT f)) ∧ VecOk newMod r.1 := by
  induction cs generalizing acc with
  | nil => exact ⟨hlen, hnd, hsum, hok⟩
  | cons c cs ih =>
    simp only [List.foldl_cons]
    obtain ⟨hc1, hc2, hc3⟩ := hcs c (by simp)
    have hlt : c.2 < newCharges.length := by
      rcases List.getElem?_eq_some_iff.1 hc1 with ⟨h, _⟩; exact h
    have hget : newCharges[c.2] = c.1.1 := by
      rcases List.getElem?_eq_some_iff.1 hc1 with ⟨_, h⟩; exact h
    rw [List.pairwise_cons] at hidx
    unfold coverStep
    by_cases hsub : subSet c.1.1 acc.2 = true
    · rw [if_pos hsub]
      apply ih (fun x hx => hcs x (List.mem_cons_of_mem _ hx)) hidx.2
      · simp [hlen]
      · exact hnd.filter _
      · have hncnd : c.1.1.Nodup := hndc _ (by rw [← hget]; exact List.getElem_mem hlt)
        have hsplit := sumT_split f acc.2 c.1.1 hncnd hnd ((subSet_iff _ _).1 hsub)
        have h0 := hzero c (by simp)
        have hlt' : c.2 < acc.1.length := by omega
        rw [List.getD_eq_getElem?_getD, List.getElem?_eq_getElem hlt'] at h0
        simp only [Option.getD_some] at h0
        rw [dotI_set _ _ _ _ hlt' (by simpa using hlt), h0]
        simp only [List.getElem_map, hget]
        rw [hsum, hsplit]; omega
      · intro x hx
        rw [getD_set]
        have hne : ¬ x.2 = c.2 := fun e => hidx.1 x hx e.symm
        simp only [hne, false_and, if_false]
        exact hzero x (List.mem_cons_of_mem _ hx)
      · intro ni
        rw [getD_set]
        by_cases h : ni = c.2 ∧ c.2 < acc.1.length
        · rw [if_pos h]
          right
          exact ⟨rfl, c.1.2, by rw [h.1]; exact hc2, hc3⟩
        · rw [if_neg h]; exact hok ni
    · rw [if_neg hsub]
      exact ih (fun x hx => hcs x (List.mem_cons_of_mem _ hx)) hidx.2 acc hlen hnd hsum
        (fun x hx => hzero x (List.mem_cons_of_mem _ hx)) hok

end TenpyModel.C12
