import TenpyModel.C12.P2_C2JW2
/-! `c2jwCore`: the selected new charges carry exactly the parity-carrying old charges. -/
namespace TenpyModel.C12

theorem zipIdx_pairwise_snd {β : Type} (l : List β) : l.zipIdx.Pairwise (fun a b => a.2 ≠ b.2) := by
  have h1 : (l.zipIdx.map Prod.snd).Pairwise (· < ·) := by
    rw [List.zipIdx_map_snd]; exact List.pairwise_lt_range'
  rw [List.pairwise_map] at h1
  exact h1.imp (fun h => by omega)

theorem cands_ok (newCharges : List (List CTerm)) (newMod : List Nat) (c : (List CTerm × Nat) × Nat)
    (hc : c ∈ (newCharges.zip newMod).zipIdx.filter (fun x => x.1.2 == 1 || x.1.2 % 2 == 0)) :
    CandOk newCharges newMod c := by
  obtain ⟨h1, h2⟩ := List.mem_filter.1 hc
  have h3 := List.mem_zipIdx_iff_getElem?.1 h1
  rw [List.getElem?_zip_eq_some] at h3
  simp only [Bool.or_eq_true, beq_iff_eq] at h2
  exact ⟨h3.1, h3.2, h2⟩

theorem foldl_coverStep_eq (l : List ((List CTerm × Nat) × Nat)) (acc : List Int × List CTerm) :
    l.foldl (fun (acc : List Int × List CTerm) (x : (List CTerm × Nat) × Nat) =>
      match x with
      | ((nc, _), ni) =>
        if subSet nc acc.2 then (acc.1.set ni 1, acc.2.filter (fun t => !nc.contains t)) else acc) acc
      = l.foldl coverStep acc := by
  congr 1

theorem c2jwCore_spec (f : CTerm → Int) (need : List CTerm) (newCharges : List (List CTerm)) (newMod : List Nat)
    (r : List Int) (h : c2jwCore need newCharges newMod = some r) (hneed : need.Nodup)
    (hndc : ∀ nc ∈ newCharges, nc.Nodup) :
    r.length = newCharges.length ∧ dotI r (newCharges.map (sumT f)) = sumT f need ∧ VecOk newMod r := by
  unfold c2jwCore at h
  simp only at h
  have hzok : VecOk newMod (newCharges.map (fun _ => (0 : Int))) := by
    intro ni; left
    rw [List.getD_eq_getElem?_getD, List.getElem?_map]
    cases newCharges[ni]? <;> rfl
  by_cases he : need.isEmpty = true
  · rw [if_pos he] at h
    have hr := (Option.some.inj h).symm
    subst hr
    have : need = [] := List.isEmpty_iff.1 he
    refine ⟨by simp, by rw [dotI_zeros, this]; rfl, hzok⟩
  · rw [if_neg he] at h
    set cands := (newCharges.zip newMod).zipIdx.filter (fun x => x.1.2 == 1 || x.1.2 % 2 == 0) with hcands
    have hcok : ∀ c ∈ cands, CandOk newCharges newMod c := fun c hc => cands_ok _ _ c hc
    cases hfind : cands.find? (fun x => sameSet x.1.1 need) with
    | some c =>
      rw [hfind] at h
      have hr := (Option.some.inj h).symm
      subst hr
      have hmem := List.mem_of_find?_eq_some hfind
      have hsame := List.find?_some hfind
      obtain ⟨hc1, hc2, hc3⟩ := hcok c hmem
      have hlt : c.2 < newCharges.length := (List.getElem?_eq_some_iff.1 hc1).1
      have hget : newCharges[c.2] = c.1.1 := (List.getElem?_eq_some_iff.1 hc1).2
      have hncnd : c.1.1.Nodup := hndc _ (by rw [← hget]; exact List.getElem_mem hlt)
      refine ⟨by simp, ?_, ?_⟩
      · rw [dotI_set _ _ _ _ (by simpa using hlt) (by simpa using hlt), dotI_zeros]
        simp only [List.getElem_map, hget]
        rw [sumT_eq_of_sameSet f hncnd hneed hsame]; omega
      · intro ni
        rw [getD_set]
        by_cases hh : ni = c.2 ∧ c.2 < (newCharges.map (fun _ => (0 : Int))).length
        · rw [if_pos hh]; right
          exact ⟨rfl, c.1.2, by rw [hh.1]; exact hc2, hc3⟩
        · rw [if_neg hh]; exact hzok ni
    | none =>
      rw [hfind] at h
      simp only at h
      rw [foldl_coverStep_eq] at h
      set subs := cands.filter (fun x => subSet x.1.1 need) with hsubs
      have hinv := cover_fold f need newCharges newMod hndc subs
        (fun c hc => hcok c (List.mem_filter.1 hc).1)
        (((zipIdx_pairwise_snd _).sublist List.filter_sublist).sublist List.filter_sublist)
        (newCharges.map (fun _ => (0 : Int)), need) (by simp) hneed
        (by simp only [dotI_zeros]; omega)
        (fun c _ => by
          show (newCharges.map (fun _ => (0 : Int))).getD c.2 0 = 0
          rw [List.getD_eq_getElem?_getD, List.getElem?_map]
          cases newCharges[c.2]? <;> rfl) hzok
      simp only at hinv
      by_cases hemp : (subs.foldl coverStep (newCharges.map (fun _ => (0 : Int)), need)).2.isEmpty = true
      · rw [if_pos hemp] at h
        have hr := (Option.some.inj h).symm
        subst hr
        obtain ⟨i1, _, i3, i4⟩ := hinv
        have : (subs.foldl coverStep (newCharges.map (fun _ => (0 : Int)), need)).2 = [] := List.isEmpty_iff.1 hemp
        rw [this] at i3
        refine ⟨i1, ?_, i4⟩
        rw [i3]; simp [sumT]
      · rw [if_neg hemp] at h; cases h

end TenpyModel.C12
