import Mathlib.Tactic.Ring
import Mathlib.Tactic.NoncommRing
import Mathlib.Tactic.Abel
/-!
# C12 — Jordan–Wigner images in an abstract algebra (property theorems)

Setting: an arbitrary (non-commutative) ring `A`; `s k ∈ A` is the local sign operator `JW` of
site `k` (`s k · s k = 1`, the signs of different sites commute).  An element `x` is a *local
operator on site `j` with parity `odd`* (`LocalOp`) when it commutes with the signs of all other
sites and commutes / anticommutes with `s j` — exactly what tenpy's `need_JW_string` flag asserts
about an operator (and what the harness checks on the dense matrices: `JW·op = ±op·JW`).

`jwString s n = s 0 · s 1 ⋯ s (n-1)` is the string left of site `n`;
`jwImage s j odd x = jwString s j · x` for odd `x`, `x` itself for even `x` — the operator that
`coupling_term_handle_JW` / `multi_coupling_term_handle_JW` / `_term_to_ops_list` / `GroupedSite`
build site by site (see `PropsJW.lean` for the string bookkeeping).

No matrices, no dimension: the theorems hold for chains of any length and any local Hilbert spaces.
-/
namespace TenpyModel.C12

variable {A : Type} [Ring A]

/-- `s 0 * s 1 * ... * s (n-1)` -/
def jwString (s : Nat → A) : Nat → A
  | 0 => 1
  | n + 1 => jwString s n * s n

/-- the local signs: involutions that commute with each other -/
structure JWSigns (s : Nat → A) : Prop where
  sq : ∀ k, s k * s k = 1
  comm : ∀ k l, s k * s l = s l * s k

/-- `x` acts on site `j` only and has fermion parity `odd` -/
structure LocalOp (s : Nat → A) (j : Nat) (odd : Bool) (x : A) : Prop where
  other : ∀ k, k ≠ j → x * s k = s k * x
  same : x * s j = if odd then -(s j * x) else s j * x

/-- Jordan–Wigner image of a local operator on site `j` -/
def jwImage (s : Nat → A) (j : Nat) (odd : Bool) (x : A) : A :=
  if odd then jwString s j * x else x

theorem jwString_comm (s : Nat → A) (x : A) (n : Nat) (h : ∀ k, k < n → x * s k = s k * x) :
    x * jwString s n = jwString s n * x := by
  induction n with
  | zero => simp [jwString]
  | succ n ih =>
    have h1 := ih (fun k hk => h k (Nat.lt_succ_of_lt hk))
    have h2 := h n (Nat.lt_succ_self n)
    simp only [jwString]
    rw [← mul_assoc, h1, mul_assoc, h2, ← mul_assoc]

theorem jwString_anticomm (s : Nat → A) (x : A) (j n : Nat) (hj : j < n)
    (hc : ∀ k, k < n → k ≠ j → x * s k = s k * x) (ha : x * s j = -(s j * x)) :
    x * jwString s n = -(jwString s n * x) := by
  induction n with
  | zero => omega
  | succ n ih =>
    simp only [jwString]
    by_cases hjn : j = n
    · subst hjn
      have h1 := jwString_comm s x j (fun k hk => hc k (by omega) (by omega))
      rw [← mul_assoc, h1, mul_assoc, ha, mul_neg, mul_assoc]
    · have h1 := ih (by omega) (fun k hk hne => hc k (by omega) hne)
      have h2 := hc n (by omega) (fun e => hjn e.symm)
      rw [← mul_assoc, h1, neg_mul, mul_assoc, h2, ← mul_assoc]

theorem sign_comm_string {s : Nat → A} (hs : JWSigns s) (k n : Nat) :
    s k * jwString s n = jwString s n * s k :=
  jwString_comm s (s k) n (fun l _ => hs.comm k l)

theorem string_comm_string {s : Nat → A} (hs : JWSigns s) (m n : Nat) :
    jwString s m * jwString s n = jwString s n * jwString s m :=
  jwString_comm s (jwString s m) n (fun k _ => (sign_comm_string hs k m).symm)

theorem jwString_sq {s : Nat → A} (hs : JWSigns s) (n : Nat) : jwString s n * jwString s n = 1 := by
  induction n with
  | zero => simp [jwString]
  | succ n ih =>
    simp only [jwString]
    calc jwString s n * s n * (jwString s n * s n)
        = jwString s n * (s n * jwString s n) * s n := by noncomm_ring
      _ = jwString s n * (jwString s n * s n) * s n := by rw [sign_comm_string hs n n]
      _ = (jwString s n * jwString s n) * (s n * s n) := by noncomm_ring
      _ = 1 := by rw [ih, hs.sq n, mul_one]

/-- a local operator commutes with the string left of its own site (and of any site further left) -/
theorem LocalOp.comm_string {s : Nat → A} {j : Nat} {odd : Bool} {x : A} (hx : LocalOp s j odd x)
    (n : Nat) (hn : n ≤ j) : x * jwString s n = jwString s n * x :=
  jwString_comm s x n (fun k hk => hx.other k (by omega))

/-- an odd local operator anticommutes with every string that covers its site -/
theorem LocalOp.anticomm_string {s : Nat → A} {j : Nat} {x : A} (hx : LocalOp s j true x)
    (n : Nat) (hn : j < n) : x * jwString s n = -(jwString s n * x) :=
  jwString_anticomm s x j n hn (fun k _ hne => hx.other k hne) (by simpa using hx.same)

/-- an even local operator commutes with every string -/
theorem LocalOp.even_comm_string {s : Nat → A} {j : Nat} {x : A} (hx : LocalOp s j false x)
    (n : Nat) : x * jwString s n = jwString s n * x :=
  jwString_comm s x n (fun k _ => by
    by_cases h : k = j
    · subst h; simpa using hx.same
    · exact hx.other k h)

end TenpyModel.C12

open TenpyModel.C12

variable {A : Type} [Ring A]

/-- **Jordan–Wigner images on different sites commute or anticommute according to parity.**
`x` local on site `i`, `y` local on site `j`, `i < j`, the local operators themselves commute
(different tensor factors).  Then the images anticommute iff both are odd. -/
theorem C12_JW_images (s : Nat → A) (hs : JWSigns s) (i j : Nat) (hij : i < j) (p q : Bool) (x y : A)
    (hx : LocalOp s i p x) (hy : LocalOp s j q y) (hxy : x * y = y * x) :
    jwImage s i p x * jwImage s j q y =
      if p && q then -(jwImage s j q y * jwImage s i p x) else jwImage s j q y * jwImage s i p x := by
  cases p <;> cases q <;> simp only [jwImage, Bool.and_self, Bool.and_false, Bool.false_and, if_true]
  · simpa using hxy
  · -- x even, y odd
    have h := hx.even_comm_string j
    simp only [Bool.false_eq_true, if_false]
    calc x * (jwString s j * y) = (x * jwString s j) * y := by noncomm_ring
      _ = jwString s j * (x * y) := by rw [h]; noncomm_ring
      _ = jwString s j * y * x := by rw [hxy]; noncomm_ring
  · -- x odd, y even (y commutes with the string left of i)
    have h := hy.comm_string i (by omega)
    simp only [Bool.false_eq_true, if_false]
    calc jwString s i * x * y = jwString s i * (y * x) := by rw [← hxy]; noncomm_ring
      _ = (y * jwString s i) * x := by rw [h]; noncomm_ring
      _ = y * (jwString s i * x) := by noncomm_ring
  · -- both odd
    have h1 := hx.anticomm_string j hij
    have h2 := hy.comm_string i (by omega)
    have h3 := string_comm_string hs i j
    calc jwString s i * x * (jwString s j * y)
        = jwString s i * (x * jwString s j) * y := by noncomm_ring
      _ = -(jwString s i * jwString s j * (x * y)) := by rw [h1]; noncomm_ring
      _ = -(jwString s j * jwString s i * (y * x)) := by rw [h3, hxy]
      _ = -(jwString s j * (jwString s i * y) * x) := by noncomm_ring
      _ = -(jwString s j * (y * jwString s i) * x) := by rw [h2]
      _ = -(jwString s j * y * (jwString s i * x)) := by noncomm_ring

/-- **Operators on the same site: the image of a product is the product of the images**, with parity
`p xor q` — the rule `op_needs_JW('a b') = op_needs_JW('a') xor op_needs_JW('b')` together with
`multiply_op_names` in `order_combine_term`. -/
theorem C12_combine_same_site (s : Nat → A) (hs : JWSigns s) (i : Nat) (p q : Bool) (x y : A)
    (hx : LocalOp s i p x) (hy : LocalOp s i q y) :
    LocalOp s i (p != q) (x * y) ∧
    jwImage s i p x * jwImage s i q y = jwImage s i (p != q) (x * y) := by
  refine ⟨⟨?_, ?_⟩, ?_⟩
  · intro k hk
    rw [mul_assoc, hy.other k hk, ← mul_assoc, hx.other k hk, mul_assoc]
  · have hx' := hx.same
    have hy' := hy.same
    cases p <;> cases q
    · simp only [Bool.false_eq_true, if_false] at hx' hy'
      show x * y * s i = if (false != false) = true then _ else _
      simp only [bne_self_eq_false, Bool.false_eq_true, if_false]
      rw [mul_assoc, hy', ← mul_assoc, hx', mul_assoc]
    · simp only [Bool.false_eq_true, if_false, if_true] at hx' hy'
      show x * y * s i = if (false != true) = true then _ else _
      simp only [Bool.bne_true, Bool.not_false, if_true]
      rw [mul_assoc, hy', mul_neg, ← mul_assoc, hx', mul_assoc]
    · simp only [Bool.false_eq_true, if_false, if_true] at hx' hy'
      show x * y * s i = if (true != false) = true then _ else _
      simp only [Bool.bne_false, if_true]
      rw [mul_assoc, hy', ← mul_assoc, hx', neg_mul, mul_assoc]
    · simp only [if_true] at hx' hy'
      show x * y * s i = if (true != true) = true then _ else _
      simp only [bne_self_eq_false, Bool.false_eq_true, if_false]
      rw [mul_assoc, hy', mul_neg, ← mul_assoc, hx', neg_mul, neg_neg, mul_assoc]
  · have cx := hx.comm_string i (Nat.le_refl i)
    have cy := hy.comm_string i (Nat.le_refl i)
    have sq := jwString_sq hs i
    cases p <;> cases q <;> simp only [jwImage, Bool.false_eq_true, if_false, if_true, bne_self_eq_false,
      Bool.bne_true, Bool.not_false, Bool.bne_false]
    · rw [← mul_assoc, cx, mul_assoc]
    · rw [mul_assoc]
    · calc jwString s i * x * (jwString s i * y)
          = jwString s i * (x * jwString s i) * y := by noncomm_ring
        _ = (jwString s i * jwString s i) * (x * y) := by rw [cx]; noncomm_ring
        _ = x * y := by rw [sq, one_mul]

/-- **Canonical anticommutation relations.**  From the *local* relations on every site
(`{c,c†}=1`, `c²=0`, `JW c = -c JW`, `JW c† = -c† JW` — theorem `C12_fermion` for the tables of the
code), locality and commutation of operators of different sites, the Jordan–Wigner images
`C i = s 0 ⋯ s (i-1) · c i` satisfy `{C i, C† j} = δ_ij`, `{C i, C j} = 0`, `{C† i, C† j} = 0`. -/
theorem C12_CAR (s c cd : Nat → A) (hs : JWSigns s)
    (hc : ∀ i, LocalOp s i true (c i)) (hcd : ∀ i, LocalOp s i true (cd i))
    (hcomm : ∀ i j, i ≠ j → c i * c j = c j * c i ∧ c i * cd j = cd j * c i ∧ cd i * cd j = cd j * cd i)
    (hloc : ∀ i, c i * cd i + cd i * c i = 1 ∧ c i * c i = 0 ∧ cd i * cd i = 0) :
    let C := fun i => jwImage s i true (c i)
    let Cd := fun i => jwImage s i true (cd i)
    ∀ i j, (i ≠ j → C i * C j + C j * C i = 0 ∧ C i * Cd j + Cd j * C i = 0 ∧ Cd i * Cd j + Cd j * Cd i = 0) ∧
           (C i * Cd i + Cd i * C i = 1 ∧ C i * C i = 0 ∧ Cd i * Cd i = 0) := by
  intro C Cd i j
  have key : ∀ (x y : Nat → A), (∀ i, LocalOp s i true (x i)) → (∀ i, LocalOp s i true (y i)) →
      ∀ i j, i < j → x i * y j = y j * x i →
        jwImage s i true (x i) * jwImage s j true (y j) + jwImage s j true (y j) * jwImage s i true (x i) = 0 := by
    intro x y hx hy i j hij hxy
    have := C12_JW_images s hs i j hij true true (x i) (y j) (hx i) (hy j) hxy
    simp only [Bool.and_self, if_true] at this
    rw [this]; simp
  have same : ∀ (x y : Nat → A), (∀ i, LocalOp s i true (x i)) → (∀ i, LocalOp s i true (y i)) →
      ∀ i, jwImage s i true (x i) * jwImage s i true (y i) = x i * y i := by
    intro x y hx hy i
    have := (C12_combine_same_site s hs i true true (x i) (y i) (hx i) (hy i)).2
    simpa [jwImage] using this
  refine ⟨?_, ?_⟩
  · intro hij
    rcases Nat.lt_or_gt_of_ne hij with h | h
    · refine ⟨key c c hc hc i j h (hcomm i j hij).1, key c cd hc hcd i j h (hcomm i j hij).2.1,
        key cd cd hcd hcd i j h (hcomm i j hij).2.2⟩
    · have hji : j ≠ i := fun e => hij e.symm
      refine ⟨?_, ?_, ?_⟩
      · have := key c c hc hc j i h (hcomm j i hji).1
        rw [add_comm]; exact this
      · have := key cd c hcd hc j i h ((hcomm i j hij).2.1).symm
        rw [add_comm]; exact this
      · have := key cd cd hcd hcd j i h (hcomm j i hji).2.2
        rw [add_comm]; exact this
  · show jwImage s i true (c i) * jwImage s i true (cd i) + jwImage s i true (cd i) * jwImage s i true (c i) = 1 ∧
      jwImage s i true (c i) * jwImage s i true (c i) = 0 ∧ jwImage s i true (cd i) * jwImage s i true (cd i) = 0
    rw [same c cd hc hcd i, same cd c hcd hc i, same c c hc hc i, same cd cd hcd hcd i]
    exact hloc i

/-- **Operator strings multiply site by site.**  If `x k`, `y k` are operators on site `k` (operators
of different sites commute), the product of the strings `x 0 ⋯ x (n-1)` and `y 0 ⋯ y (n-1)` is the
string of the site-wise products — the justification for reading the product of Jordan–Wigner images
one site at a time (`prodAt` in `PropsJW.lean`: concatenation of the names on each site). -/
theorem C12_string_product (x y : Nat → A) (n : Nat) (h : ∀ i j, i ≠ j → x i * y j = y j * x i) :
    jwString (fun k => x k * y k) n = jwString x n * jwString y n := by
  induction n with
  | zero => simp [jwString]
  | succ n ih =>
    have hc : x n * jwString y n = jwString y n * x n :=
      jwString_comm y (x n) n (fun k hk => h n k (by omega))
    show jwString (fun k => x k * y k) n * (x n * y n) = jwString x n * x n * (jwString y n * y n)
    rw [ih]
    calc jwString x n * jwString y n * (x n * y n)
        = jwString x n * (jwString y n * x n) * y n := by noncomm_ring
      _ = jwString x n * (x n * jwString y n) * y n := by rw [hc]
      _ = jwString x n * x n * (jwString y n * y n) := by noncomm_ring

/-! ## grouped sites -/

namespace TenpyModel.C12

/-- `s lo * s (lo+1) * ... * s (lo+len-1)` -/
def seg (s : Nat → A) (lo len : Nat) : A := jwString (fun k => s (lo + k)) len

theorem jwString_add (s : Nat → A) (lo len : Nat) :
    jwString s (lo + len) = jwString s lo * seg s lo len := by
  induction len with
  | zero => simp [seg, jwString]
  | succ n ih =>
    show jwString s (lo + n) * s (lo + n) = jwString s lo * (jwString (fun k => s (lo + k)) n * s (lo + n))
    rw [ih]; simp only [seg]; noncomm_ring

/-- sign operator of the `m`-th grouped site when `n` consecutive sites are grouped:
`JW_all = kroneckerproduct([s.JW for s in sites])` -/
def groupedSign (s : Nat → A) (n : Nat) (m : Nat) : A := seg s (m * n) n

theorem jwString_grouped (s : Nat → A) (n m : Nat) :
    jwString (groupedSign s n) m = jwString s (m * n) := by
  induction m with
  | zero => simp [jwString]
  | succ m ih =>
    show jwString (groupedSign s n) m * groupedSign s n m = _
    rw [ih, Nat.succ_mul, jwString_add]; rfl

/-- operator of the grouped site for `x` on its `r`-th site (`GroupedSite.__init__`):
`kroneckerproduct([JW, .., JW, x, Id, ..])` if `x` needs a JW string, `[Id, .., x, Id, ..]` otherwise -/
def groupedOp (s : Nat → A) (n m r : Nat) (odd : Bool) (x : A) : A :=
  if odd then seg s (m * n) r * x else x

end TenpyModel.C12

/-- **Grouping sites does not change Jordan–Wigner images.**  The image of the grouped operator,
taken with the grouped signs on the coarse chain, is the image of the original operator on the
original chain: folding the `JW` of the sites to the *left* inside the group into the operator is
exactly what is needed. -/
theorem C12_grouped_JW (s : Nat → A) (n m r : Nat) (odd : Bool) (x : A) :
    jwImage (groupedSign s n) m odd (groupedOp s n m r odd x) = jwImage s (m * n + r) odd x := by
  cases odd
  · simp [jwImage, groupedOp]
  · simp only [jwImage, groupedOp, if_true]
    rw [jwString_grouped, jwString_add, mul_assoc]

/-- non-vacuity: in the commutative ring ℤ with all signs 1 everything is satisfied (degenerate but
type-correct); a faithful instance is the dense matrix algebra checked by the harness. -/
example : JWSigns (fun _ => (1 : Int)) := ⟨fun _ => by simp, fun _ _ => rfl⟩
