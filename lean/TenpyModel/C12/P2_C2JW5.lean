import TenpyModel.C12.P2_C2JW4
/-! `_set_common_charges_charge_to_JW_parity`: assembly. -/
namespace TenpyModel.C12

theorem foldl_termW (s : Nat) (old : List Int) (nc : List CTerm) (a : Int) :
    nc.foldl (fun acc t => if t.2.1 = s then acc + t.1 * old.getD t.2.2 0 else acc) a
      = a + sumT (termW s old) nc := by
  induction nc generalizing a with
  | nil => simp [sumT]
  | cons t nc ih =>
    simp only [List.foldl_cons, ih, sumT, List.map_cons, List.sum_cons, termW]
    split <;> omega

theorem commonCharge_eq (newCharges : List (List CTerm)) (newMod : List Nat) (s : Nat) (old : List Int) :
    commonCharge newCharges newMod s old =
      List.zipWith (fun (m : Nat) (x : Int) => if m ≤ 1 then x else x % (m : Int)) newMod
        (newCharges.map (sumT (termW s old))) := by
  unfold commonCharge commonCharge.makeValid'
  congr 1
  apply List.map_congr_left
  intro nc _
  rw [foldl_termW]; omega

theorem vecOk_tail (m : Nat) (nm : List Nat) (a : Int) (r : List Int) (h : VecOk (m :: nm) (a :: r)) :
    (a = 0 ∨ (a = 1 ∧ (m = 1 ∨ m % 2 = 0))) ∧ VecOk nm r := by
  constructor
  · have := h 0
    simpa using this
  · intro ni
    have := h (ni + 1)
    simpa using this

/-- reducing the new charges modulo an even number (or not at all) does not change the parity -/
theorem parity_mods (r xs : List Int) (nm : List Nat) (hok : VecOk nm r) (hlen : nm.length = xs.length) :
    dotI r (List.zipWith (fun (m : Nat) (x : Int) => if m ≤ 1 then x else x % (m : Int)) nm xs) % 2
      = dotI r xs % 2 := by
  induction r generalizing nm xs with
  | nil => simp [dotI]
  | cons a r ih =>
    match nm, xs, hlen with
    | [], [], _ => simp [dotI]
    | m :: nm, x :: xs, hlen =>
      obtain ⟨h0, htl⟩ := vecOk_tail m nm a r hok
      have ih' := ih xs nm htl (by simpa using hlen)
      simp only [List.zipWith_cons_cons, dotI_cons]
      rcases h0 with rfl | ⟨rfl, hm⟩
      · simp only [Int.zero_mul, Int.zero_add]; exact ih'
      · simp only [Int.one_mul]
        by_cases hle : m ≤ 1
        · rw [if_pos hle]; omega
        · rw [if_neg hle]
          have hm2 : m % 2 = 0 := by rcases hm with h | h <;> omega
          have hdvd : (2 : Int) ∣ (m : Int) := by
            have : (2 : Nat) ∣ m := Nat.dvd_of_mod_eq_zero hm2
            exact Int.natCast_dvd_natCast.2 this
          have := Int.emod_emod_of_dvd x hdvd
          omega

/-- **the new `charge_to_JW_parity`** -/
theorem commonC2JW_spec (c2jw : List (Option (List Int))) (newCharges : List (List CTerm)) (newMod : List Nat)
    (ps : List (List Int)) (r : List Int) (hps : c2jw.mapM id = some ps)
    (h : commonC2JW c2jw newCharges newMod = some r)
    (hlen : newMod.length = newCharges.length)
    (h01 : ∀ par ∈ ps, ∀ p ∈ par, p = 0 ∨ p = 1)
    (hndc : ∀ nc ∈ newCharges, nc.Nodup) (s : Nat) (old : List Int) :
    r.length = newCharges.length ∧
    dotI r (commonCharge newCharges newMod s old) % 2 = dotI (ps.getD s []) old % 2 := by
  rw [commonC2JW_eq, hps] at h
  simp only [Option.bind_some] at h
  obtain ⟨h1, h2, h3⟩ := c2jwCore_spec (termW s old) (needOf ps) newCharges newMod r h (needOf_nodup ps) hndc
  refine ⟨h1, ?_⟩
  rw [commonCharge_eq, parity_mods r _ newMod h3 (by simpa using hlen), h2, need_sum s old ps h01]

end TenpyModel.C12
