/-
C12 model, part 1: tiny matrix kernel (import-free, scalar-polymorphic).

Matrices are functions `Nat → Nat → α` together with a dimension `d` that is passed to the
product (`mmul d`) — the entries outside the `d × d` window are never read.  The same
definitions are instantiated at `Rat` (executable driver, finite tables) and, in the proof
files, at an arbitrary field `K` (where the irrational entries `sqrt(..)` live as elements whose
square is the rational number stored in the model).
-/
namespace TenpyModel.C12

/-- `Σ_{k<n} f k` -/
def sumTo {α : Type} [Add α] [OfNat α 0] : Nat → (Nat → α) → α
  | 0, _ => 0
  | n + 1, f => sumTo n f + f n

/-- matrix product of the `d × d` windows -/
def mmul {α : Type} [Add α] [Mul α] [OfNat α 0] (d : Nat) (A B : Nat → Nat → α) : Nat → Nat → α :=
  fun i j => sumTo d (fun k => A i k * B k j)

/-- `np.diag(f)` -/
def diagM {α : Type} [OfNat α 0] (f : Nat → α) : Nat → Nat → α :=
  fun i j => if i = j then f i else 0

/-- sub-diagonal matrix: entry `[n+1, n] = a n` (tenpy: `Sp[n + 1, n] = ...`, `Bd`) -/
def subD {α : Type} [OfNat α 0] (a : Nat → α) : Nat → Nat → α :=
  fun i j => if i = j + 1 then a j else 0

/-- super-diagonal matrix: entry `[n, n+1] = a n` (tenpy: `B[n - 1, n] = sqrt(n)`, `Sm = Sp.T`) -/
def supD {α : Type} [OfNat α 0] (a : Nat → α) : Nat → Nat → α :=
  fun i j => if j = i + 1 then a i else 0

def idM {α : Type} [OfNat α 0] [OfNat α 1] : Nat → Nat → α := fun i j => if i = j then 1 else 0

def madd {α : Type} [Add α] (A B : Nat → Nat → α) : Nat → Nat → α := fun i j => A i j + B i j
def msub {α : Type} [Sub α] (A B : Nat → Nat → α) : Nat → Nat → α := fun i j => A i j - B i j
def mscale {α : Type} [Mul α] (c : α) (A : Nat → Nat → α) : Nat → Nat → α := fun i j => c * A i j
def mtrans {α : Type} (A : Nat → Nat → α) : Nat → Nat → α := fun i j => A j i

/-- the `d × d` window as nested lists (row major) -/
def tab {α : Type} (d : Nat) (A : Nat → Nat → α) : List (List α) :=
  (List.range d).map (fun i => (List.range d).map (fun j => A i j))

/-- matrix given by nested lists (0 outside) -/
def ofRows {α : Type} [OfNat α 0] (rows : List (List α)) : Nat → Nat → α :=
  fun i j => (rows.getD i []).getD j 0

end TenpyModel.C12
