import TenpyModel.C12.P2_T2O
import TenpyModel.C12.P2_Fill2
import TenpyModel.C12.P2_C2JW5
import TenpyModel.C12.P2_GroupedRing
/-!
# C12 — property theorems, second part

* `C12_term_to_ops_list_from_right`, `C12_term_to_ops_list_auto`: `MPS._term_to_ops_list` for
  `JW_from_right ∈ {True, None}`.
* `C12_corr_autoJW`, `C12_grouped_ops`: the `autoJW` decision of `correlation_function`, the
  operator table of `GroupedSite` for any number of sub-sites.
* `C12_op_charge_all_fillings`, `C12_hc_pairs_all_fillings`: the statements of
  `C12_op_charge_fixed` / `C12_hc_pairs_tables` for EVERY filling (a rational parameter).
-/
open TenpyModel.C12

/-- **`_term_to_ops_list(JW_from_right=True)`: a Jordan–Wigner string comes in from the right.**
The outputs are those of the term extended by ONE more odd operator `w` sitting anywhere to the
right of `i_max` and written last (right-most in the product, it acts first): for every position
`j` of the returned list the names handed to `multiply_operators` for site `i_min + j` are, in
order, what the images of the operators of the extended term put there (`prodAt`), and
`has_extra_JW` is the total parity of the extended term. -/
theorem C12_term_to_ops_list_from_right (sites : JWSites) (term : List (Word × Int)) (off : Int)
    (w : Word) (iFar : Int) (hfar : maxInt (term.map (·.2)) < iFar) :
    let T : List SOp := term.map (fun t => (t.1, t.2, true && opNeedsJW (siteAt sites (t.2 + off)) t.1))
    let T' : List SOp := T ++ [(w, iFar, true)]
    let r := termToOpsList sites term true off (some true)
    let iMin := minInt (term.map (·.2))
    r.2.1 = iMin + off ∧ r.2.2 = tpar T' ∧
    ∀ j, j < r.1.length → ((r.1[j]?).map List.flatten) = some (prodAt (iMin + (j : Int)) T') := by
  intro T T' r iMin
  obtain ⟨h1, h2, h3⟩ := C12_term_to_ops_list sites term true off
  have hr : r = _ := termToOpsList_true sites term true off
  have hlen := termToOpsList_length sites term true off
  refine ⟨by rw [hr]; exact h1, ?_, ?_⟩
  · rw [hr]; simp only [T']
    rw [tpar_append, h2]
    cases tpar _ <;> rfl
  · intro j hj
    rw [hr] at hj ⊢
    simp only [List.length_map] at hj
    have := h3 j hj
    simp only [List.getElem?_map, Option.map_map] at this ⊢
    cases hg : (termToOpsList sites term true off (some false)).1[j]? with
    | none => rw [hg] at this; simp at this
    | some l =>
      rw [hg] at this
      simp only [Option.map_some, Option.some.injEq, Function.comp] at this ⊢
      simp only [T', prodAt_append, List.flatten_append, this]
      congr 1
      have hj' : iMin + (j : Int) < iFar := by
        rw [hlen] at hj
        have : (j : Int) < maxInt (term.map (·.2)) - minInt (term.map (·.2)) + 1 := by omega
        simp only [iMin]; omega
      have hne : ¬ (iMin + (j : Int) = iFar) := by omega
      simp [imgAt, hne, hj']

/-- **`_term_to_ops_list(JW_from_right=None)`** decides from the parity: the operators are those
of `JW_from_right := (total parity of the term)` — nothing is added for an even term, a string
from the right for an odd term — and `has_extra_JW` reports the value chosen. -/
theorem C12_term_to_ops_list_auto (sites : JWSites) (term : List (Word × Int)) (autoJW : Bool) (off : Int) :
    let T : List SOp := term.map (fun t => (t.1, t.2, autoJW && opNeedsJW (siteAt sites (t.2 + off)) t.1))
    termToOpsList sites term autoJW off none =
      ((termToOpsList sites term autoJW off (some (tpar T))).1,
       minInt (term.map (·.2)) + off, tpar T) := by
  intro T
  obtain ⟨h1, h2, _⟩ := C12_term_to_ops_list sites term autoJW off
  rw [termToOpsList_none, h1, h2]

/-- non-vacuity: `<c_1>` with a string from the right (as inside `<c_1 c†_5>`): `JW` is appended on
sites 0..1 of the range; `None` on the odd term `c†_2 n_1 ... ` chooses `True`, on an even term `False`. -/
example :
    let f := ["JW", "C", "Cd"]
    termToOpsList [f, f, f] [(["N"], 0), (["C"], 1)] true 0 (some true)
      = ([[["N"], ["JW"], ["JW"]], [["C"], ["JW"]]], 0, false) ∧
    termToOpsList [f, f, f] [(["N"], 0), (["C"], 1)] true 0 none
      = ([[["N"], ["JW"], ["JW"]], [["C"], ["JW"]]], 0, true) ∧
    termToOpsList [f, f, f] [(["Cd"], 2), (["C"], 0)] true 0 none
      = ([[["JW"], ["C"]], [["JW"]], [["Cd"]]], 0, false) := by decide

/-! ## `MPS.correlation_function(autoJW)` -/

/-- **The `autoJW` decision of `correlation_function`** (repaired code: `ops2` are looked up on
`sites2`).  With `f1 i` / `f2 j` the `op_needs_JW` flags of the operators actually used:
* no string (`opstr` unchanged) iff no operator needs one;
* `opstr = 'JW'` iff there is an operator, ALL of them need a string and `str_on_first` is set;
* every other combination (mixed parities, or `str_on_first=False`) raises — nothing else is returned;
* and the choice is the Jordan–Wigner image: for `i < k < j` the ordered product of the images of
  `op1_i, op2_j` puts exactly the chosen `opstr` on the intermediate site `k` (nothing if none),
  `op1 · JW` on site `i` when a string is used (`str_on_first`), and no string leaves to the left. -/
theorem C12_corr_autoJW (sites : JWSites) (ops1 ops2 : List Word) (sites1 sites2 : List Int) (strOnFirst : Bool) :
    let f1 := fun i : Int => opNeedsJW (siteAt sites i) (pyIdx ops1 i)
    let f2 := fun j : Int => opNeedsJW (siteAt sites j) (pyIdx ops2 j)
    let r := corrAutoJW sites ops1 ops2 sites1 sites2 strOnFirst
    (r = .ok none ↔ (∀ i ∈ sites1, f1 i = false) ∧ (∀ j ∈ sites2, f2 j = false)) ∧
    (r = .ok (some "JW") ↔ (sites1 ≠ [] ∨ sites2 ≠ []) ∧ (∀ i ∈ sites1, f1 i = true) ∧
        (∀ j ∈ sites2, f2 j = true) ∧ strOnFirst = true) ∧
    (∀ s, r = .ok s → s = none ∨ s = some "JW") ∧
    (∀ s, r = .ok s → ∀ i ∈ sites1, ∀ j ∈ sites2, i < j →
      let T : List SOp := [(pyIdx ops1 i, i, f1 i), (pyIdx ops2 j, j, f2 j)]
      tpar T = false ∧
      (∀ k, i < k → k < j → prodAt k T = (match s with | none => [] | some w => [w])) ∧
      prodAt i T = pyIdx ops1 i ++ (match s with | none => [] | some w => [w])) := by
  intro f1 f2 r
  have hr : r = corrAutoJW sites ops1 ops2 sites1 sites2 strOnFirst := rfl
  unfold corrAutoJW at hr
  simp only at hr
  set need := sites1.map f1 ++ sites2.map f2 with hneed
  have hany : need.any id = true ↔ (∃ i ∈ sites1, f1 i = true) ∨ (∃ j ∈ sites2, f2 j = true) := by
    simp [hneed, List.any_append, List.any_map]
  have hall : need.all id = true ↔ (∀ i ∈ sites1, f1 i = true) ∧ (∀ j ∈ sites2, f2 j = true) := by
    simp [hneed, List.all_append, List.all_map]
  have hnone_iff : ¬ (need.any id = true) ↔ (∀ i ∈ sites1, f1 i = false) ∧ (∀ j ∈ sites2, f2 j = false) := by
    rw [hany]; simp [not_or]
  have hcases : (r = .ok none ∧ ¬ need.any id = true) ∨
      (r = .ok (some "JW") ∧ need.any id = true ∧ need.all id = true ∧ strOnFirst = true) ∨
      ((∃ e, r = .error e) ∧ need.any id = true ∧ ¬ (need.all id = true ∧ strOnFirst = true)) := by
    by_cases h1 : need.any id = true
    · by_cases h2 : need.all id = true
      · cases h3 : strOnFirst
        · right; right
          refine ⟨⟨"ValueError: need JW but str_on_first=False", by rw [hr]; simp [h1, h2, h3]⟩, h1, by simp [h3]⟩
        · right; left; exact ⟨by rw [hr]; simp [h1, h2, h3], h1, h2, rfl⟩
      · right; right
        refine ⟨⟨"ValueError: some but not all need JW", by rw [hr]; simp [h1, h2]⟩, h1, fun h => h2 h.1⟩
    · left; exact ⟨by rw [hr]; simp [h1], h1⟩
  have hne_of_any : need.any id = true → sites1 ≠ [] ∨ sites2 ≠ [] := by
    intro h
    rcases hany.1 h with ⟨i, hi, _⟩ | ⟨j, hj, _⟩
    · left; exact List.ne_nil_of_mem hi
    · right; exact List.ne_nil_of_mem hj
  have hany_of_all : (sites1 ≠ [] ∨ sites2 ≠ []) → need.all id = true → need.any id = true := by
    intro hne h
    obtain ⟨a1, a2⟩ := hall.1 h
    rw [hany]
    rcases hne with hne | hne
    · obtain ⟨i, hi⟩ := List.exists_mem_of_ne_nil _ hne
      exact Or.inl ⟨i, hi, a1 i hi⟩
    · obtain ⟨j, hj⟩ := List.exists_mem_of_ne_nil _ hne
      exact Or.inr ⟨j, hj, a2 j hj⟩
  refine ⟨?_, ?_, ?_, ?_⟩
  · rw [← hnone_iff]
    rcases hcases with ⟨h, g⟩ | ⟨h, g, _⟩ | ⟨⟨e, h⟩, g, _⟩ <;> rw [h] <;> simp [g]
  · rcases hcases with ⟨h, g⟩ | ⟨h, g1, g2, g3⟩ | ⟨⟨e, h⟩, g1, g2⟩
    · rw [h]
      simp only [Except.ok.injEq, reduceCtorEq, false_iff, not_and]
      intro hne a1 a2
      exact absurd (hany_of_all hne (hall.2 ⟨a1, a2⟩)) g
    · rw [h]; simp only [true_iff]
      exact ⟨hne_of_any g1, (hall.1 g2).1, (hall.1 g2).2, g3⟩
    · rw [h]
      simp only [reduceCtorEq, false_iff, not_and]
      intro hne a1 a2 a3
      exact g2 ⟨hall.2 ⟨a1, a2⟩, a3⟩
  · intro s hs
    rcases hcases with ⟨h, _⟩ | ⟨h, _⟩ | ⟨⟨e, h⟩, _⟩ <;> rw [h] at hs
    · left; exact (Except.ok.inj hs).symm
    · right; exact (Except.ok.inj hs).symm
    · cases hs
  · intro s hs i hi j hj hij
    rcases hcases with ⟨h, g⟩ | ⟨h, g1, g2, g3⟩ | ⟨⟨e, h⟩, _⟩ <;> rw [h] at hs
    · have hs' := (Except.ok.inj hs).symm; subst hs'
      obtain ⟨a1, a2⟩ := hnone_iff.1 g
      have e1 := a1 i hi
      have e2 := a2 j hj
      refine ⟨by simp [tpar, e1, e2], ?_, ?_⟩
      · intro k hk1 hk2
        have n1 : ¬ k = i := by omega
        have n2 : ¬ k = j := by omega
        simp [prodAt, imgAt, e1, e2, n1, n2]
      · have n2 : ¬ i = j := by omega
        simp [prodAt, imgAt, e1, e2, n2]
    · have hs' := (Except.ok.inj hs).symm; subst hs'
      obtain ⟨a1, a2⟩ := hall.1 g2
      have e1 := a1 i hi
      have e2 := a2 j hj
      refine ⟨by simp [tpar, e1, e2], ?_, ?_⟩
      · intro k hk1 hk2
        have n1 : ¬ k = i := by omega
        have n2 : ¬ k = j := by omega
        have n3 : ¬ k < i := by omega
        simp [prodAt, imgAt, e1, e2, n1, n2, n3, hk2]
      · have n2 : ¬ i = j := by omega
        simp [prodAt, imgAt, e1, e2, n2, hij]
    · cases hs

/-- non-vacuity: `<c†_i c_j>` chooses `'JW'`; `<n_i n_j>` chooses none; `<n_i c_j>` raises. -/
example :
    let f := ["JW", "C", "Cd"]
    corrAutoJW [f, f, f] [["Cd"]] [["C"]] [0, 1] [1, 2] true = .ok (some "JW") ∧
    corrAutoJW [f, f, f] [["N"]] [["N"]] [0, 1] [1, 2] true = .ok none ∧
    corrAutoJW [f, f, f] [["N"]] [["C"]] [0, 1] [1, 2] true = .error "ValueError: some but not all need JW" ∧
    corrAutoJW [f, f, f] [["Cd"]] [["C"]] [0, 1] [1, 2] false = .error "ValueError: need JW but str_on_first=False" := by
  decide

/-! ## `GroupedSite.__init__`: the operator table -/


/-- **The operator table of `GroupedSite`, for any number `n` of grouped sites**: besides `Id`
(all factors `Id`) and `JW` (all factors `JW`: the sign of the group is the product of the signs),
there is exactly one operator per sub-site `i` and non-identity operator `o` of it, named
`o.name + labels[i]`, with the `need_JW_string` flag and the (relabelled) `hc` name of `o`, and its
Kronecker factors are the Jordan–Wigner image of `o` inside the group: `o` itself on sub-site `i`,
`JW` on every sub-site to the LEFT of `i` iff `o` needs a string, `Id` elsewhere (`gopOf`,
`imgAt`).  With `C12_grouped_JW` this is the folding that keeps JW images unchanged. -/
theorem C12_grouped_ops (subs : List (List SubOp)) (labels : List String) :
    groupedOps subs labels =
      [⟨"Id", false, some "Id", List.replicate subs.length "Id"⟩,
       ⟨"JW", true, some "JW", List.replicate subs.length "JW"⟩] ++
      subs.zipIdx.flatMap (fun oi =>
        (oi.1.filter (fun o => o.name != "Id")).map (gopOf subs.length oi.2 (labels.getD oi.2 ""))) ∧
    ∀ (i : Nat) (o : SubOp) (lbl : String),
      (gopOf subs.length i lbl o).factors.length = subs.length ∧
      ∀ k, k < subs.length →
        (gopOf subs.length i lbl o).factors[k]? =
          some (if k = i then o.name else if k < i ∧ o.needJW then "JW" else "Id") := by
  constructor
  · unfold groupedOps
    simp only
    congr 1
    apply List.flatMap_congr
    rintro ⟨ops, i⟩ _
    apply List.map_congr_left
    intro o _
    simp only [gopOf, GOp.mk.injEq, true_and]
    symm
    apply List.map_congr_left
    intro k _
    rw [kronFactor_img]
  · intro i o lbl
    refine ⟨by simp [gopOf], fun k hk => ?_⟩
    simp only [gopOf, List.getElem?_map]
    rw [List.getElem?_range hk]
    simp only [Option.map_some, kronFactor_img]

/-- non-vacuity: three sites `[fermion, spin, fermion]`: `C` of the last site carries `JW JW C`, the
spin operator carries no string, the group's `JW` is `JW JW JW`. -/
example :
    let fermion : List SubOp := [⟨"C", true, some "Cd"⟩, ⟨"Id", false, some "Id"⟩, ⟨"N", false, some "N"⟩]
    let spin : List SubOp := [⟨"Sz", false, some "Sz"⟩]
    (groupedOps [fermion, spin, fermion] ["_0", "_1", "_2"]).map (fun g => (g.name, g.needJW, g.hc, g.factors)) =
      [("Id", false, some "Id", ["Id", "Id", "Id"]), ("JW", true, some "JW", ["JW", "JW", "JW"]),
       ("C_0", true, some "Cd_0", ["C", "Id", "Id"]), ("N_0", false, some "N_0", ["N", "Id", "Id"]),
       ("Sz_1", false, some "Sz_1", ["Id", "Sz", "Id"]),
       ("C_2", true, some "Cd_2", ["JW", "JW", "C"]), ("N_2", false, some "N_2", ["Id", "Id", "N"])] := by
  decide


/-- **The grouped operator as an element of the algebra** (any ring, any local signs `s`, any number
`n` of grouped sites, grouped site number `m`, sub-site `i < n`): multiplying the Kronecker factors
of the table entry in order — `x` on sub-site `i`, the sign `s (m n + k)` for a factor `JW` on
sub-site `k`, `1` for `Id` — gives `groupedOp` (the JW of the sub-sites to the left times `x` if the
operator is odd); hence (`C12_grouped_JW`) its Jordan–Wigner image on the coarse chain is the image of
`x` on site `m n + i` of the original chain. -/
theorem C12_grouped_ops_ring {A : Type} [Ring A] (s : Nat → A) (n m i : Nat) (hi : i < n) (x : A)
    (lbl : String) (o : SubOp) :
    evalFactors s (m * n) i x 0 (gopOf n i lbl o).factors = groupedOp s n m i o.needJW x ∧
    jwImage (groupedSign s n) m o.needJW (evalFactors s (m * n) i x 0 (gopOf n i lbl o).factors)
      = jwImage s (m * n + i) o.needJW x := by
  have h := eval_gopOf s n m i hi x lbl o
  exact ⟨h, by rw [h]; exact C12_grouped_JW s n m i o.needJW x⟩

/-- non-vacuity (in `ℤ`, signs `s k = k + 2`): `C` on the last of three sub-sites of grouped site 1
evaluates to `s 3 * s 4 * 7`. -/
example : evalFactors (fun k => (k : Int) + 2) (1 * 3) 2 7 0 (gopOf 3 2 "_2" ⟨"C", true, some "Cd"⟩).factors = 5 * 6 * 7 := by
  decide

/-! ## every filling -/

/-- **Operator charges, every filling** (completes `C12_op_charge_fixed`): for `FermionSite`,
`SpinHalfFermionSite`, `SpinHalfHoleSite`, every value of the `conserve` options and EVERY rational
`filling`, all non-zero entries of every operator carry the charge the model reports (the check
`npc.Array.from_ndarray` performs in `add_op`).  The filling-dependent operators `dN`, `dNdN` have
no off-diagonal entries (`opChargeOk_diag`: such operators are neutral whatever their diagonal
is); the other tables do not contain the filling and are evaluated. -/
theorem C12_op_charge_all_fillings (f : Rat) :
    (∀ c, (siteOps (.fermion c f)).all (opChargeOk (.fermion c f)) = true) ∧
    (∀ cN cS, (siteOps (.shFermion cN cS f)).all (opChargeOk (.shFermion cN cS f)) = true ∧
      (siteOps (.shHole cN cS f)).all (opChargeOk (.shHole cN cS f)) = true) :=
  ⟨fun c => opChargeAll_fermion c f, fun cN cS => ⟨opChargeAll_shFermion cN cS f, opChargeAll_shHole cN cS f⟩⟩

/-- **Declared Hermitian-conjugate pairs, every filling** (completes `C12_hc_pairs_tables` for the
fermionic sites): for every `conserve` option and EVERY rational filling each operator has its
declared partner and the partner's table is the conjugate transpose (`hcOk`); `dN`, `dNdN` are
real symmetric, hence their own partners (`hc_self_sym`). -/
theorem C12_hc_pairs_all_fillings (f : Rat) :
    (∀ c, hcOk (.fermion c f) = true) ∧
    (∀ cN cS, hcOk (.shFermion cN cS f) = true ∧ hcOk (.shHole cN cS f) = true) :=
  ⟨fun c => hcOk_fermion c f, fun cN cS => ⟨hcOk_shFermion cN cS f, hcOk_shHole cN cS f⟩⟩

/-- non-vacuity: filling `1/3` (not one of the representative values): `dN = diag(-1/3, 2/3)` is a
non-zero neutral operator; the instance of the theorems is the evaluated check. -/
example :
    (siteOps (.fermion .full (1/3))).all (opChargeOk (.fermion .full (1/3))) = true ∧
    hcOk (.shFermion .full .parity (1/3)) = true ∧
    ((ratOp "dN" (fdN (1/3))).ent 1 1).isZero = false ∧
    opCharge (.fermion .full (1/3)) (ratOp "dN" (fdN (1/3))) = [0] := by
  refine ⟨(C12_op_charge_all_fillings (1/3)).1 .full, ((C12_hc_pairs_all_fillings (1/3)).2 .full .parity).1,
    by decide +kernel, by decide +kernel⟩

/-! ## `_set_common_charges_charge_to_JW_parity` -/

/-- **The new `charge_to_JW_parity` reproduces the Jordan–Wigner sign of every basis state of every
site.**  Whenever `_set_common_charges_charge_to_JW_parity` returns a vector `r` (exact match or greedy
cover — all branches), for every site `s` and every old charge vector `old` of a basis state of that
site: `r · new_charges(state) ≡ charge_to_JW_parity_s · old (mod 2)`, i.e. `charge_to_JW_signs` of the
site with the common charges equals that of the original site.  Hypotheses: the old parity vectors have
entries 0/1, a new charge does not list an old charge twice, `new_mod` has one entry per new charge.
Proof: the selected new charges have `mod` 1 or even (reduction does not change the parity) and their
term lists are pairwise disjoint subsets that exactly cover the parity-carrying old charges
(`cover_fold`: invariant of the greedy loop; `need_sum`). -/
theorem C12_common_c2jw (c2jw : List (Option (List Int))) (newCharges : List (List CTerm)) (newMod : List Nat)
    (ps : List (List Int)) (r : List Int) (hps : c2jw.mapM id = some ps)
    (h : commonC2JW c2jw newCharges newMod = some r)
    (hlen : newMod.length = newCharges.length)
    (h01 : ∀ par ∈ ps, ∀ p ∈ par, p = 0 ∨ p = 1)
    (hndc : ∀ nc ∈ newCharges, nc.Nodup) (s : Nat) (old : List Int) :
    r.length = newCharges.length ∧
    dotI r (commonCharge newCharges newMod s old) % 2 = dotI (ps.getD s []) old % 2 :=
  commonC2JW_spec c2jw newCharges newMod ps r hps h hlen h01 hndc s old

/-- non-vacuity: fermion ⊗ spinful-fermion-like site with charges `[N]` and `[N, 2Sz]`; new charges
`N_total` (mod 1) and `2Sz` (mod 1): the parity vector is `[1, 0]`; a state with old charges `(1)` on
site 0 / `(1, -1)` on site 1 has odd parity in both descriptions; with independent charges the greedy
cover picks the two `N` charges. -/
example :
    commonC2JW [some [1], some [1, 0]] [[(1, 0, 0), (1, 1, 0)], [(1, 1, 1)]] [1, 1] = some [1, 0] ∧
    commonCharge [[(1, 0, 0), (1, 1, 0)], [(1, 1, 1)]] [1, 1] 1 [1, -1] = [1, -1] ∧
    commonCharge [[(1, 0, 0), (1, 1, 0)], [(1, 1, 1)]] [1, 1] 0 [1] = [1, 0] ∧
    dotI [1, 0] [1, 0] % 2 = dotI [1] [1] % 2 ∧
    commonC2JW [some [1], some [1, 0]] [[(1, 0, 0)], [(1, 1, 0)], [(1, 1, 1)]] [2, 1, 1] = some [1, 1, 0] := by
  decide

/-- **`_set_common_charges_charge_to_JW_parity`, which vector is returned in the branches without the
greedy cover**:
(1) a site without `charge_to_JW_parity` makes the result undefined; (2) if no old charge carries
parity the new vector is zero; (3) otherwise, if some admissible new charge (`mod` 1 or even)
consists of exactly the parity-carrying old charges, the result is the unit vector at the FIRST such
charge — whatever proper subsets precede it. -/
theorem C12_common_c2jw_branches (c2jw : List (Option (List Int))) (newCharges : List (List CTerm)) (newMod : List Nat) :
    (c2jw.mapM id = none → commonC2JW c2jw newCharges newMod = none) ∧
    (∀ ps, c2jw.mapM id = some ps →
      let need : List CTerm := ps.zipIdx.flatMap (fun (par, s) =>
        par.zipIdx.filterMap (fun (p, oi) => if p != 0 then some ((1 : Int), s, oi) else none))
      let zeros : List Int := newCharges.map (fun _ => 0)
      let cands := (newCharges.zip newMod).zipIdx.filter (fun ((_, m), _) => m == 1 || m % 2 == 0)
      (need = [] → commonC2JW c2jw newCharges newMod = some zeros) ∧
      (need ≠ [] → ∀ c, cands.find? (fun ((nc, _), _) => sameSet nc need) = some c →
        commonC2JW c2jw newCharges newMod = some (zeros.set c.2 1) ∧
        sameSet c.1.1 need = true ∧ (c.1.2 == 1 || c.1.2 % 2 == 0) = true)) := by
  refine ⟨fun h => by simp [commonC2JW, h], fun ps hps => ?_⟩
  intro need zeros cands
  refine ⟨fun hn => ?_, fun hn c hc => ⟨?_, ?_, ?_⟩⟩
  · simp only [commonC2JW, hps]
    have : need.isEmpty = true := by simp [hn]
    simp only [need] at this
    simp only [this, if_true]
    rfl
  · simp only [commonC2JW, hps]
    have : need.isEmpty = false := by
      cases hne : need with
      | nil => exact absurd hne hn
      | cons _ _ => rfl
    simp only [need] at this
    simp only [this, Bool.false_eq_true, if_false]
    simp only [cands, need] at hc
    rw [hc]
  · have := List.find?_some hc
    exact this
  · have := List.mem_of_find?_eq_some hc
    simp only [cands, List.mem_filter] at this
    exact this.2

/-- non-vacuity: two fermion sites, `new_charges='same'`: the summed charge `N` carries the parity;
with independent charges the greedy cover picks both. -/
example :
    commonC2JW [some [1], some [1]] [[(1, 0, 0), (1, 1, 0)]] [1] = some [1] ∧
    commonC2JW [some [1], some [1]] [[(1, 0, 0)], [(1, 1, 0)]] [1, 2] = some [1, 1] ∧
    commonC2JW [some [1], none] [[(1, 0, 0)]] [1] = none ∧
    commonC2JW [some [0], some [0]] [[(1, 0, 0)], [(1, 1, 0)]] [1, 1] = some [0, 0] := by decide
