import TenpyModel.C12.Mat
/-!
C12 model, part 2: the predefined site classes of `tenpy/networks/site.py` as parametric operator
tables (core Lean only; no Mathlib).

* Every operator is a function `Nat → Nat → Entry` on the `conserve=None` basis order (the order in
  which `__init__` writes the numpy arrays, *before* `Site.sort_charge` permutes the states).
* An `Entry` is `sgn * sqrt(sq) * (i if im)` with `sq : Rat` — irrational entries (`S±`, `B`, `Bd`,
  `Sx`, `Sy` of `SpinSite`, `BosonSite`) are stored by their rational squares — or, for
  `ClockSite`, a sum of powers of the symbolic root of unity `ω = exp(2πi/q)`.
* Conservation options: flat charges per basis state (already reduced by `ChargeInfo.make_valid`),
  `mod`, names, the permutation `perm` produced by `Site.sort_charge` (stable sort, last charge
  most significant = `np.lexsort(charges.T)`), state labels, `charge_to_JW_parity`.

Rational building blocks used by the theorems (`spinSzDiag`, `spinSpSq`, `bosonBSq`, the literal
fermion tables, ...) are separate definitions; `siteOps` only assembles them.
-/
namespace TenpyModel.C12

/-! ## entries -/

inductive Entry where
  /-- `sgn * sqrt(sq)`, times `i` if `im` -/
  | sq (sgn : Int) (sq : Rat) (im : Bool)
  /-- `Σ_e ω^e` with `ω = exp(2πi/q)` (ClockSite) -/
  | omega (exps : List Nat)
deriving DecidableEq, Repr

def eZero : Entry := .sq 0 0 false

instance : OfNat Entry 0 := ⟨eZero⟩

def ratSign (r : Rat) : Int := if 0 < r then 1 else if r < 0 then -1 else 0

/-- a real rational entry -/
def eRat (r : Rat) : Entry := if r = 0 then eZero else .sq (ratSign r) (r * r) false

/-- `i * r` -/
def eImag (r : Rat) : Entry := if r = 0 then eZero else .sq (ratSign r) (r * r) true

/-- `s * sqrt(r)` (times `i` if `im`), `s = ±1` -/
def eSqrt (s : Int) (r : Rat) (im : Bool := false) : Entry :=
  if r = 0 ∨ s = 0 then eZero else .sq s r im

def eOmega (l : List Nat) : Entry := if l = [] then eZero else .omega l

/-- complex conjugate (`q` = order of `ω`) -/
def Entry.conj (q : Nat) : Entry → Entry
  | .sq s r im => if im then .sq (-s) r true else .sq s r false
  | .omega l => .omega (l.map (fun e => (q - e % q) % q))

def Entry.isZero : Entry → Bool
  | .sq s _ _ => s == 0
  | .omega l => l.isEmpty

/-! ## conservation options -/

/-- `'None'`, `'parity'`, the main charge (`'Sz'` / `'N'` / `'Z'`), `'dipole'` -/
inductive Cons where
  | none | parity | full | dipole
deriving DecidableEq, Repr

inductive SiteSpec where
  | spinHalf (c : Cons)
  | spin (twoS : Nat) (c : Cons)
  | fermion (c : Cons) (filling : Rat)
  | shFermion (cN cSz : Cons) (filling : Rat)
  | shHole (cN cSz : Cons) (filling : Rat)
  | boson (nmax : Nat) (c : Cons) (filling : Rat)
  | clock (q : Nat) (c : Cons)
deriving Repr

structure OpDef where
  name   : String
  needJW : Bool
  hc     : String
  ent    : Nat → Nat → Entry

def ratOp (name : String) (A : Nat → Nat → Rat) (needJW : Bool := false) (hc : String := name) : OpDef :=
  ⟨name, needJW, hc, fun i j => eRat (A i j)⟩

def imagOp (name : String) (A : Nat → Nat → Rat) : OpDef :=
  ⟨name, false, name, fun i j => eImag (A i j)⟩

def one : Nat → Rat := fun _ => 1

/-! ## SpinHalfSite  (states `up`=0, `down`=1) -/

def shSx : Nat → Nat → Rat := ofRows [[0, 1/2], [1/2, 0]]
/-- `Sy = i * shSyIm` -/
def shSyIm : Nat → Nat → Rat := ofRows [[0, -1/2], [1/2, 0]]
def shSz : Nat → Nat → Rat := ofRows [[1/2, 0], [0, -1/2]]
def shSp : Nat → Nat → Rat := ofRows [[0, 1], [0, 0]]
def shSm : Nat → Nat → Rat := ofRows [[0, 0], [1, 0]]

def spinHalfOps (c : Cons) : List OpDef :=
  [ratOp "Id" (diagM one), ratOp "Sp" shSp false "Sm", ratOp "Sm" shSm false "Sp", ratOp "Sz" shSz]
  ++ (if c = .full then [] else [ratOp "Sx" shSx, imagOp "Sy" shSyIm])
  ++ [ratOp "JW" (diagM one) true]
  ++ (if c = .full then [] else [ratOp "Sigmax" (mscale 2 shSx), imagOp "Sigmay" (mscale 2 shSyIm)])
  ++ [ratOp "Sigmaz" (mscale 2 shSz)]

/-! ## SpinSite(S), `twoS = 2S`; state `n` has `m = n - S` -/

def spinS (twoS : Nat) : Rat := (twoS : Rat) / 2

/-- `Sz_diag = -S + arange(d)` -/
def spinSzDiag (twoS : Nat) (n : Nat) : Rat := -spinS twoS + (n : Rat)

/-- square of `Sp[n + 1, n] = sqrt(S (S + 1) - m (m + 1))`, `m = n - S` -/
def spinSpSq (twoS : Nat) (n : Nat) : Rat :=
  let S := spinS twoS
  let m := (n : Rat) - S
  S * (S + 1) - m * (m + 1)

def spinOps (twoS : Nat) (c : Cons) : List OpDef :=
  let a := spinSpSq twoS
  [ratOp "Id" (diagM one),
   ⟨"Sp", false, "Sm", subD (fun n => eSqrt 1 (a n))⟩,
   ⟨"Sm", false, "Sp", supD (fun n => eSqrt 1 (a n))⟩,
   ratOp "Sz" (diagM (spinSzDiag twoS))]
  ++ (if c = .full ∨ c = .dipole then [] else
       -- Sx = (Sp + Sm) * 0.5 ;  Sy = (Sm - Sp) * 0.5j
       [⟨"Sx", false, "Sx", fun i j => if i = j + 1 then eSqrt 1 (a j / 4) else if j = i + 1 then eSqrt 1 (a i / 4) else eZero⟩,
        ⟨"Sy", false, "Sy", fun i j => if i = j + 1 then eSqrt (-1) (a j / 4) true else if j = i + 1 then eSqrt 1 (a i / 4) true else eZero⟩])
  ++ [ratOp "JW" (diagM one) true]

/-! ## FermionSite (states `empty`=0, `full`=1) -/

def fJW : Nat → Nat → Rat := ofRows [[1, 0], [0, -1]]
def fC  : Nat → Nat → Rat := ofRows [[0, 1], [0, 0]]
def fCd : Nat → Nat → Rat := ofRows [[0, 0], [1, 0]]
def fN  : Nat → Nat → Rat := ofRows [[0, 0], [0, 1]]
def fdN (filling : Rat) : Nat → Nat → Rat := ofRows [[-filling, 0], [0, 1 - filling]]
/-- `dNdN = dN**2` (element-wise) -/
def fdNdN (filling : Rat) : Nat → Nat → Rat := fun i j => fdN filling i j * fdN filling i j

def fermionOps (filling : Rat) : List OpDef :=
  [ratOp "Id" (diagM one), ratOp "JW" fJW true, ratOp "C" fC true "Cd", ratOp "Cd" fCd true "C",
   ratOp "N" fN, ratOp "dN" (fdN filling), ratOp "dNdN" (fdNdN filling)]

/-! ## SpinHalfFermionSite (states `empty`, `up`, `down`, `full`) -/

def sfNuDiag : Nat → Rat := fun n => [0, 1, 0, 1].getD n 0
def sfNdDiag : Nat → Rat := fun n => [0, 0, 1, 1].getD n 0
def sfJWu : Nat → Nat → Rat := diagM (fun n => 1 - 2 * sfNuDiag n)
def sfJWd : Nat → Nat → Rat := diagM (fun n => 1 - 2 * sfNdDiag n)
/-- `JW = JWu * JWd` (element-wise product of the two diagonal matrices) -/
def sfJW : Nat → Nat → Rat := fun i j => sfJWu i j * sfJWd i j
def sfCu : Nat → Nat → Rat := ofRows [[0, 1, 0, 0], [0, 0, 0, 0], [0, 0, 0, 1], [0, 0, 0, 0]]
def sfCdu : Nat → Nat → Rat := mtrans sfCu
def sfCdNoJW : Nat → Nat → Rat := ofRows [[0, 0, 1, 0], [0, 0, 0, 1], [0, 0, 0, 0], [0, 0, 0, 0]]
/-- `Cd = np.dot(JWu, Cd_noJW)` -/
def sfCd : Nat → Nat → Rat := mmul 4 sfJWu sfCdNoJW
def sfCdd : Nat → Nat → Rat := mtrans sfCd
def sfSz : Nat → Nat → Rat := diagM (fun n => (1/2) * (sfNuDiag n - sfNdDiag n))
def sfSp : Nat → Nat → Rat := mmul 4 sfCdu sfCd
def sfSm : Nat → Nat → Rat := mmul 4 sfCdd sfCu
def sfSx : Nat → Nat → Rat := mscale (1/2) (madd sfSp sfSm)
/-- `Sy = -0.5j * (Sp - Sm)`; this is the coefficient of `i` -/
def sfSyIm : Nat → Nat → Rat := mscale (-1/2) (msub sfSp sfSm)

def shFermionOps (cSz : Cons) (filling : Rat) : List OpDef :=
  [ratOp "Id" (diagM one), ratOp "JW" sfJW true, ratOp "JWu" sfJWu true, ratOp "JWd" sfJWd true,
   ratOp "Cu" sfCu true "Cdu", ratOp "Cdu" sfCdu true "Cu", ratOp "Cd" sfCd true "Cdd", ratOp "Cdd" sfCdd true "Cd",
   ratOp "Nu" (diagM sfNuDiag), ratOp "Nd" (diagM sfNdDiag),
   ratOp "Ntot" (diagM (fun n => sfNuDiag n + sfNdDiag n)),
   ratOp "NuNd" (diagM (fun n => sfNuDiag n * sfNdDiag n)),
   ratOp "dN" (diagM (fun n => sfNuDiag n + sfNdDiag n - filling))]
  ++ (if cSz = .full then [] else [ratOp "Sx" sfSx, imagOp "Sy" sfSyIm])
  ++ [ratOp "Sz" sfSz, ratOp "Sp" sfSp false "Sm", ratOp "Sm" sfSm false "Sp"]

/-! ## SpinHalfHoleSite (states `empty`, `up`, `down`) -/

def hNuDiag : Nat → Rat := fun n => [0, 1, 0].getD n 0
def hNdDiag : Nat → Rat := fun n => [0, 0, 1].getD n 0
def hJWu : Nat → Nat → Rat := diagM (fun n => 1 - 2 * hNuDiag n)
def hJWd : Nat → Nat → Rat := diagM (fun n => 1 - 2 * hNdDiag n)
def hJW : Nat → Nat → Rat := fun i j => hJWu i j * hJWd i j
def hCu : Nat → Nat → Rat := ofRows [[0, 1, 0], [0, 0, 0], [0, 0, 0]]
def hCdu : Nat → Nat → Rat := mtrans hCu
def hCdNoJW : Nat → Nat → Rat := ofRows [[0, 0, 1], [0, 0, 0], [0, 0, 0]]
def hCd : Nat → Nat → Rat := mmul 3 hJWu hCdNoJW
def hCdd : Nat → Nat → Rat := mtrans hCd
def hSz : Nat → Nat → Rat := diagM (fun n => (1/2) * (hNuDiag n - hNdDiag n))
def hSp : Nat → Nat → Rat := mmul 3 hCdu hCd
def hSm : Nat → Nat → Rat := mmul 3 hCdd hCu
def hSx : Nat → Nat → Rat := mscale (1/2) (madd hSp hSm)
def hSyIm : Nat → Nat → Rat := mscale (-1/2) (msub hSp hSm)

def shHoleOps (cSz : Cons) (filling : Rat) : List OpDef :=
  [ratOp "Id" (diagM one), ratOp "JW" hJW true, ratOp "JWu" hJWu true, ratOp "JWd" hJWd true,
   ratOp "Cu" hCu true "Cdu", ratOp "Cdu" hCdu true "Cu", ratOp "Cd" hCd true "Cdd", ratOp "Cdd" hCdd true "Cd",
   ratOp "Nu" (diagM hNuDiag), ratOp "Nd" (diagM hNdDiag),
   ratOp "Ntot" (diagM (fun n => hNuDiag n + hNdDiag n)),
   ratOp "dN" (diagM (fun n => hNuDiag n + hNdDiag n - filling))]
  ++ (if cSz = .full then [] else [ratOp "Sx" hSx, imagOp "Sy" hSyIm])
  ++ [ratOp "Sz" hSz, ratOp "Sp" hSp false "Sm", ratOp "Sm" hSm false "Sp"]

/-! ## BosonSite(Nmax) -/

/-- square of `B[n, n + 1] = sqrt(n + 1)` (code: `B[n - 1, n] = np.sqrt(n)`) -/
def bosonBSq (n : Nat) : Rat := (n : Rat) + 1

def bosonN : Nat → Rat := fun n => (n : Rat)

def bosonOps (filling : Rat) : List OpDef :=
  [ratOp "Id" (diagM one),
   ⟨"B", false, "Bd", supD (fun n => eSqrt 1 (bosonBSq n))⟩,
   ⟨"Bd", false, "B", subD (fun n => eSqrt 1 (bosonBSq n))⟩,
   ratOp "N" (diagM bosonN), ratOp "NN" (diagM (fun n => bosonN n * bosonN n)),
   ratOp "dN" (diagM (fun n => bosonN n - filling)),
   ratOp "dNdN" (diagM (fun n => (bosonN n - filling) * (bosonN n - filling))),
   ratOp "P" (diagM (fun n => 1 - 2 * ((n % 2 : Nat) : Rat))),
   ratOp "JW" (diagM one) true]

/-! ## ClockSite(q): `X = eye(q, k=1) + eye(q, k=1-q)`, `Z = diag(ω^k)` -/

/-- exponent lists: `X[i, j] = [j = i + 1] + [j = i + 1 - q]` -/
def clockX (q : Nat) : Nat → Nat → List Nat :=
  fun i j => (if j = i + 1 then [0] else []) ++ (if j + q = i + 1 then [0] else [])
def clockZ (q : Nat) : Nat → Nat → List Nat := fun i j => if i = j then [i % q] else []
def clockZhc (q : Nat) : Nat → Nat → List Nat := fun i j => if i = j then [(q - i % q) % q] else []

def omOp (name hc : String) (A : Nat → Nat → List Nat) : OpDef :=
  ⟨name, false, hc, fun i j => eOmega (A i j)⟩

def clockOps (q : Nat) (c : Cons) : List OpDef :=
  [ratOp "Id" (diagM one), ratOp "JW" (diagM one) true,
   omOp "X" "Xhc" (clockX q), omOp "Xhc" "X" (mtrans (clockX q)),
   omOp "Z" "Zhc" (clockZ q), omOp "Zhc" "Z" (clockZhc q)]
  ++ (if c = .full then [] else
       [omOp "Xphc" "Xphc" (fun i j => clockX q i j ++ clockX q j i),
        omOp "Zphc" "Zphc" (fun i j => clockZ q i j ++ clockZhc q i j)])

/-! ## assembly -/

def siteDim : SiteSpec → Nat
  | .spinHalf _ => 2
  | .spin twoS _ => twoS + 1
  | .fermion _ _ => 2
  | .shFermion _ _ _ => 4
  | .shHole _ _ _ => 3
  | .boson nmax _ _ => nmax + 1
  | .clock q _ => q

def siteOps : SiteSpec → List OpDef
  | .spinHalf c => spinHalfOps c
  | .spin twoS c => spinOps twoS c
  | .fermion _ f => fermionOps f
  | .shFermion _ cSz f => shFermionOps cSz f
  | .shHole _ cSz f => shHoleOps cSz f
  | .boson _ _ f => bosonOps f
  | .clock q c => clockOps q c

/-- order of `ω` for `Entry.conj` (1 = no ω around) -/
def siteQ : SiteSpec → Nat
  | .clock q _ => q
  | _ => 1

/-- `ChargeInfo.mod` -/
def siteMod : SiteSpec → List Nat
  | .spinHalf c => match c with | .full => [1] | .parity => [2] | _ => []
  | .spin _ c => match c with | .full => [1] | .parity => [2] | .dipole => [1, 1] | .none => []
  | .fermion c _ => match c with | .full => [1] | .parity => [2] | _ => []
  | .shFermion cN cSz _ | .shHole cN cSz _ =>
    (match cN with | .full => [1] | .parity => [2] | _ => []) ++
    (match cSz with | .full => [1] | .parity => [4] | _ => [])
  | .boson _ c _ => match c with | .full => [1] | .parity => [2] | .dipole => [1, 1] | .none => []
  | .clock q c => match c with | .full => [q] | _ => []

def siteQNames : SiteSpec → List String
  | .spinHalf c => match c with | .full => ["2*Sz"] | .parity => ["parity_Sz"] | _ => []
  | .spin _ c => match c with | .full => ["2*Sz"] | .parity => ["parity_Sz"] | .dipole => ["2*Sz", "dipole"] | .none => []
  | .fermion c _ => match c with | .full => ["N"] | .parity => ["parity_N"] | _ => []
  | .shFermion cN cSz _ | .shHole cN cSz _ =>
    (match cN with | .full => ["N"] | .parity => ["parity_N"] | _ => []) ++
    (match cSz with | .full => ["2*Sz"] | .parity => ["parity_Sz"] | _ => [])
  | .boson _ c _ => match c with | .full => ["N"] | .parity => ["parity_N"] | .dipole => ["N", "dipole"] | .none => []
  | .clock _ c => match c with | .full => ["clock_phase"] | _ => []

/-- `ChargeInfo.make_valid` on one charge vector -/
def makeValid (mods : List Nat) (q : List Int) : List Int :=
  List.zipWith (fun (m : Nat) (x : Int) => if m ≤ 1 then x else x % (m : Int)) mods q

/-- raw charge of basis state `n` as written in `__init__` (before `make_valid`) -/
def siteRawCharge : SiteSpec → Nat → List Int
  | .spinHalf c, n => match c with
    | .full => [[1, -1].getD n 0] | .parity => [[1, 0].getD n 0] | _ => []
  | .spin twoS c, n => match c with
    | .full => [2 * (n : Int) - twoS] | .parity => [((n % 2 : Nat) : Int)]
    | .dipole => [2 * (n : Int) - twoS, 0] | .none => []
  | .fermion c _, n => match c with
    | .full => [(n : Int)] | .parity => [(n : Int)] | _ => []
  | .shFermion cN cSz _, n =>
    (match cN with | .full => [[0, 1, 1, 2].getD n 0] | .parity => [[0, 1, 1, 0].getD n 0] | _ => []) ++
    (match cSz with | .full => [[0, 1, -1, 0].getD n 0] | .parity => [[0, 1, 3, 0].getD n 0] | _ => [])
  | .shHole cN cSz _, n =>
    (match cN with | .full => [[0, 1, 1].getD n 0] | .parity => [[0, 1, 1].getD n 0] | _ => []) ++
    (match cSz with | .full => [[0, 1, -1].getD n 0] | .parity => [[0, 1, 3].getD n 0] | _ => [])
  | .boson _ c _, n => match c with
    | .full => [(n : Int)] | .parity => [((n % 2 : Nat) : Int)] | .dipole => [(n : Int), 0] | .none => []
  | .clock _ c, n => match c with | .full => [(n : Int)] | _ => []

/-- flat charges of the leg before sorting, `leg.to_qflat()[n]` -/
def siteCharge (s : SiteSpec) (n : Nat) : List Int := makeValid (siteMod s) (siteRawCharge s n)

/-! ### `Site.sort_charge`: stable sort of the basis states by charge -/

/-- order used by `np.lexsort(charges.T)`: the *last* charge is the most significant key -/
def lexLe : List Int → List Int → Bool
  | [], _ => true
  | _ :: _, [] => false
  | a :: as, b :: bs => a < b || (a == b && lexLe as bs)

def keyLe (a b : List Int) : Bool := lexLe a.reverse b.reverse

/-- insert `x`, which preceded all of the list in the original order, stably -/
def insertBy (key : Nat → List Int) (x : Nat) : List Nat → List Nat
  | [] => [x]
  | y :: ys => if keyLe (key x) (key y) then x :: y :: ys else y :: insertBy key x ys

def sortBy (key : Nat → List Int) : List Nat → List Nat
  | [] => []
  | x :: xs => insertBy key x (sortBy key xs)

/-- `perm_flat` of `leg.sort(bunch=True)`: new position `a` holds old state `perm[a]` -/
def chargePerm (d : Nat) (key : Nat → List Int) : List Nat := sortBy key (List.range d)

/-- `site.perm` -/
def sitePerm (s : SiteSpec) (sortCharge : Bool) : List Nat :=
  if sortCharge then chargePerm (siteDim s) (siteCharge s) else List.range (siteDim s)

/-! ### state labels (label, index in the `conserve=None` order) -/

def halfStr (t : Int) : String :=
  let a := t.natAbs
  (if t < 0 then "-" else "") ++ toString (a / 2) ++ (if a % 2 = 0 then ".0" else ".5")

def siteLabels : SiteSpec → List (String × Nat)
  | .spinHalf _ => [("up", 0), ("down", 1), ("-0.5", 1), ("0.5", 0)]
  | .spin twoS _ =>
    (List.range (twoS + 1)).map (fun (n : Nat) => (halfStr (2 * (n : Int) - (twoS : Int)), n)) ++ [("down", 0), ("up", twoS)]
  | .fermion _ _ => [("empty", 0), ("full", 1)]
  | .shFermion _ _ _ => [("empty", 0), ("up", 1), ("down", 2), ("full", 3)]
  | .shHole _ _ _ => [("empty", 0), ("up", 1), ("down", 2)]
  | .boson nmax _ _ => (List.range (nmax + 1)).map (fun n => (toString n, n)) ++ [("vac", 0)]
  | .clock q _ =>
    (List.range q).map (fun n => (toString n, n)) ++ [("up", 0)] ++ (if q % 2 = 0 then [("down", q / 2)] else [])

/-- `state_labels` after the permutation: `label ↦ inv_perm[index]` -/
def permutedLabels (perm : List Nat) (labels : List (String × Nat)) : List (String × Nat) :=
  labels.map (fun (l, i) => (l, perm.idxOf i))

/-- `charge_to_JW_parity` (`none` = attribute not defined) -/
def siteC2JW : SiteSpec → Option (List Int)
  | .spinHalf c => some ((siteMod (.spinHalf c)).map (fun _ => 0))
  | .spin t c => some ((siteMod (.spin t c)).map (fun _ => 0))
  | .fermion c _ => match c with | .full => some [1] | .parity => some [1] | _ => none
  | .shFermion cN cSz f =>
    if cN = .full ∨ cN = .parity then some (1 :: ((siteMod (.shFermion cN cSz f)).drop 1).map (fun _ => 0)) else none
  | .shHole cN cSz f =>
    if cN = .full ∨ cN = .parity then some (1 :: ((siteMod (.shHole cN cSz f)).drop 1).map (fun _ => 0)) else none
  | .boson n c f => some ((siteMod (.boson n c f)).map (fun _ => 0))
  | .clock _ _ => none

/-! ### charge of an operator -/

/-- `charge(row i) - charge(column j)`, reduced -/
def chargeDiff (s : SiteSpec) (i j : Nat) : List Int :=
  makeValid (siteMod s) (List.zipWith (· - ·) (siteCharge s i) (siteCharge s j))

/-- first non-zero entry (row-major) of the `d × d` window -/
def firstNonzero (d : Nat) (A : Nat → Nat → Entry) : Option (Nat × Nat) :=
  ((List.range d).flatMap (fun i => (List.range d).map (fun j => (i, j)))).find? (fun p => !(A p.1 p.2).isZero)

/-- `op.qtotal`: the charge difference at the first stored entry (zero operator: zero charge) -/
def opCharge (s : SiteSpec) (o : OpDef) : List Int :=
  match firstNonzero (siteDim s) o.ent with
  | some (i, j) => chargeDiff s i j
  | none => (siteMod s).map (fun _ => 0)

/-- all non-zero entries connect states with the same charge difference (so `from_ndarray` accepts it) -/
def opChargeOk (s : SiteSpec) (o : OpDef) : Bool :=
  let d := siteDim s
  (List.range d).all (fun i => (List.range d).all (fun j =>
    (o.ent i j).isZero || chargeDiff s i j == opCharge s o))

def findOp (s : SiteSpec) (name : String) : Option OpDef := (siteOps s).find? (fun o => o.name == name)

end TenpyModel.C12
