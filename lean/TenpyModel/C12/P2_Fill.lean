import TenpyModel.C12.PropsHc
import TenpyModel.C12.PropsCharges
/-! The filling parameter of the fermionic sites: operator charges and hc pairs for EVERY filling. -/
namespace TenpyModel.C12

theorem eRat_conj (r : Rat) (q : Nat) : (eRat r).conj q = eRat r := by
  unfold eRat
  split <;> simp [Entry.conj, eZero]

theorem sameB_refl_sq (s : Int) (r : Rat) (im : Bool) : (Entry.sq s r im).sameB (Entry.sq s r im) = true := by
  simp [Entry.sameB]

theorem eRat_sameB_self (r : Rat) : (eRat r).sameB (eRat r) = true := by
  unfold eRat
  split
  · exact sameB_refl_sq _ _ _
  · exact sameB_refl_sq _ _ _

/-- a real symmetric table is its own conjugate transpose -/
theorem hc_self_sym (d : Nat) (A : Nat → Nat → Rat) (hsym : ∀ i j, A i j = A j i) (q : Nat) :
    (List.range d).all (fun i => (List.range d).all (fun j =>
      (eRat (A i j)).sameB ((eRat (A j i)).conj q))) = true := by
  simp only [List.all_eq_true]
  intro i _ j _
  rw [eRat_conj, hsym j i]
  exact eRat_sameB_self _

theorem diagM_symm (f : Nat → Rat) (i j : Nat) : diagM f i j = diagM f j i := by
  unfold diagM
  by_cases h : i = j
  · subst h; rfl
  · have h' : ¬ j = i := fun e => h e.symm
    simp [h, h']

theorem fdN_symm (f : Rat) (i j : Nat) : fdN f i j = fdN f j i := by
  unfold fdN ofRows
  match i, j with
  | 0, 0 => rfl
  | 0, 1 => rfl
  | 1, 0 => rfl
  | 1, 1 => rfl
  | 0, (j + 2) => simp
  | 1, (j + 2) => simp
  | (i + 2), 0 => simp
  | (i + 2), 1 => simp
  | (i + 2), (j + 2) => simp

theorem fdN_offdiag (f : Rat) (i j : Nat) (h : i ≠ j) : fdN f i j = 0 := by
  unfold fdN ofRows
  match i, j, h with
  | 0, 1, _ => rfl
  | 1, 0, _ => rfl
  | 0, (j + 2), _ => simp
  | 1, (j + 2), _ => simp
  | (i + 2), j, _ => simp
  | 0, 0, h => exact absurd rfl h
  | 1, 1, h => exact absurd rfl h

/-- an operator without off-diagonal entries is neutral: the charge check holds whatever its
diagonal entries are -/
theorem opChargeOk_diag (s : SiteSpec) (o : OpDef)
    (hdiag : ∀ i j, (o.ent i j).isZero = false → i = j)
    (hself : ∀ i, chargeDiff s i i = (siteMod s).map (fun _ => 0)) : opChargeOk s o = true := by
  have hcharge : opCharge s o = (siteMod s).map (fun _ => 0) := by
    unfold opCharge
    cases hf : firstNonzero (siteDim s) o.ent with
    | none => rfl
    | some p =>
      obtain ⟨i, j⟩ := p
      have := List.find?_some hf
      simp only [Bool.not_eq_true'] at this
      have hij := hdiag i j this
      subst hij
      exact hself i
  unfold opChargeOk
  simp only [List.all_eq_true, Bool.or_eq_true, beq_iff_eq]
  intro i _ j _
  cases hz : (o.ent i j).isZero with
  | true => left; rfl
  | false =>
    right
    have hij := hdiag i j hz
    subst hij
    rw [hself i, hcharge]

theorem ratOp_offdiag_zero (name : String) (A : Nat → Nat → Rat) (jw : Bool) (hc : String)
    (hA : ∀ i j, i ≠ j → A i j = 0) (i j : Nat) (h : ((ratOp name A jw hc).ent i j).isZero = false) : i = j := by
  by_contra hne
  have : (ratOp name A jw hc).ent i j = eRat 0 := by simp [ratOp, hA i j hne]
  rw [this] at h
  simp [eRat, eZero, Entry.isZero] at h

end TenpyModel.C12
