import TenpyModel.C12.P2_Grouped
import TenpyModel.C12.PropsCAR
/-! Evaluating the Kronecker factors of a grouped operator in a ring gives `groupedOp` of `PropsCAR`. -/
namespace TenpyModel.C12

variable {A : Type} [Ring A]

/-- ordered product of the Kronecker factors, positions `k, k+1, ...`: the operator `x` on sub-site
`i`, the local sign `s (base + k)` for a factor `JW`, `1` for `Id` -/
def evalFactors (s : Nat → A) (base i : Nat) (x : A) : Nat → List String → A
  | _, [] => 1
  | k, f :: fs => (if k = i then x else if f = "JW" then s (base + k) else 1) * evalFactors s base i x (k + 1) fs

/-- `s lo * s (lo+1) * ... * s (lo+d-1)`, multiplied from the left -/
def lprod (s : Nat → A) : Nat → Nat → A
  | _, 0 => 1
  | lo, d + 1 => s lo * lprod s (lo + 1) d

theorem jwString_succ_left (t : Nat → A) (d : Nat) :
    jwString t (d + 1) = t 0 * jwString (fun k => t (k + 1)) d := by
  induction d with
  | zero => simp [jwString]
  | succ d ih =>
    rw [jwString, ih]
    simp only [jwString]
    rw [mul_assoc]

theorem lprod_eq_seg (s : Nat → A) (lo d : Nat) : lprod s lo d = seg s lo d := by
  induction d generalizing lo with
  | zero => simp [lprod, seg, jwString]
  | succ d ih =>
    rw [lprod, ih (lo + 1)]
    unfold seg
    rw [jwString_succ_left]
    simp only [Nat.add_zero]
    congr 2
    funext k
    congr 1
    omega

/-- the factor on sub-site `k` of the grouped operator of `(name, odd)` on sub-site `i` -/
def gfac (i : Nat) (name : String) (odd : Bool) (k : Nat) : String :=
  if k = i then name else if k < i ∧ odd then "JW" else "Id"

theorem eval_after (s : Nat → A) (base i : Nat) (x : A) (name : String) (odd : Bool) (k len : Nat) (hk : i < k) :
    evalFactors s base i x k ((List.range' k len).map (gfac i name odd)) = 1 := by
  induction len generalizing k with
  | zero => simp [evalFactors]
  | succ len ih =>
    rw [List.range'_succ, List.map_cons, evalFactors, ih (k + 1) (by omega)]
    have h1 : ¬ k = i := by omega
    have h2 : ¬ (k < i ∧ odd = true) := fun h => by omega
    have h3 : ¬ ("Id" = "JW") := by decide
    simp [gfac, h1, h2, h3]

theorem eval_upto (s : Nat → A) (base i : Nat) (x : A) (name : String) (odd : Bool) (d k len : Nat)
    (hk : k + d = i) (hlen : d < len) :
    evalFactors s base i x k ((List.range' k len).map (gfac i name odd)) =
      (if odd then lprod s (base + k) d else 1) * x := by
  induction d generalizing k len with
  | zero =>
    obtain ⟨len', rfl⟩ : ∃ len', len = len' + 1 := ⟨len - 1, by omega⟩
    have hki : k = i := by omega
    rw [List.range'_succ, List.map_cons, evalFactors, eval_after s base i x name odd (k + 1) len' (by omega)]
    simp [hki, lprod]
  | succ d ih =>
    obtain ⟨len', rfl⟩ : ∃ len', len = len' + 1 := ⟨len - 1, by omega⟩
    rw [List.range'_succ, List.map_cons, evalFactors, ih (k + 1) len' (by omega) (by omega)]
    have h1 : ¬ k = i := by omega
    have h2 : k < i := by omega
    cases odd with
    | false => simp [gfac, h1]
    | true =>
      have e : base + (k + 1) = base + k + 1 := by omega
      simp only [gfac, h1, if_false, h2, true_and, if_true, lprod, e]
      rw [mul_assoc]

/-- **The Kronecker factors of the grouped operator multiply to `groupedOp`**: `JW` of the sub-sites to
the left (if odd), then the operator, then identities. -/
theorem eval_gopOf (s : Nat → A) (n m i : Nat) (hi : i < n) (x : A) (lbl : String) (o : SubOp) :
    evalFactors s (m * n) i x 0 (gopOf n i lbl o).factors = groupedOp s n m i o.needJW x := by
  have hf : (gopOf n i lbl o).factors = (List.range' 0 n).map (gfac i o.name o.needJW) := by
    simp only [gopOf, List.range_eq_range']
    apply List.map_congr_left
    intro k _
    rw [kronFactor_img]; rfl
  rw [hf, eval_upto s (m * n) i x o.name o.needJW i 0 n (by omega) hi]
  unfold groupedOp
  rw [Nat.add_zero, lprod_eq_seg]
  cases o.needJW <;> simp

end TenpyModel.C12
