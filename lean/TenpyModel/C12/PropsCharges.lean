import TenpyModel.C12.Sites
import TenpyModel.C12.MatProofs
import Mathlib.Algebra.BigOperators.Group.List.Basic
import Mathlib.Tactic.Linarith
import Mathlib.Tactic.Ring
import Mathlib.Tactic.IntervalCases
import Mathlib.Data.List.Perm.Basic
/-!
# C12 — basis bookkeeping: `sort_charge` permutation and charges of operators (property theorems)

* `C12_conserve_perm`: for **every** charge assignment, the permutation the model computes for
  `Site.sort_charge` (compared with `site.perm` on every run) is a permutation of the basis states,
  sorts the charges (last charge most significant, as `np.lexsort`) and is stable — so the operators of
  a conserving site are the `conserve=None` operators conjugated by a permutation matrix
  (`op[np.ix_(perm, perm)]`), nothing else.
* `C12_op_charge_*`: for every parameter value and conserve option, every non-zero entry of every
  operator connects states whose charge difference is the single value the model reports as `qtotal`.
-/
namespace TenpyModel.C12

/-! ## the order of `np.lexsort` -/

theorem lexLe_total (a b : List Int) : lexLe a b = true ∨ lexLe b a = true := by
  induction a generalizing b with
  | nil => left; rfl
  | cons x as ih =>
    cases b with
    | nil => right; rfl
    | cons y bs =>
      simp only [lexLe, Bool.or_eq_true, decide_eq_true_eq, Bool.and_eq_true, beq_iff_eq]
      rcases Int.lt_trichotomy x y with h | h | h
      · left; left; exact h
      · subst h
        rcases ih bs with h' | h'
        · left; right; exact ⟨rfl, h'⟩
        · right; right; exact ⟨rfl, h'⟩
      · right; left; exact h

theorem lexLe_trans (a b c : List Int) (h1 : lexLe a b = true) (h2 : lexLe b c = true) : lexLe a c = true := by
  induction a generalizing b c with
  | nil => rfl
  | cons x as ih =>
    cases b with
    | nil => simp [lexLe] at h1
    | cons y bs =>
      cases c with
      | nil => simp [lexLe] at h2
      | cons z cs =>
        simp only [lexLe, Bool.or_eq_true, decide_eq_true_eq, Bool.and_eq_true, beq_iff_eq] at h1 h2 ⊢
        rcases h1 with h1 | ⟨h1, h1'⟩ <;> rcases h2 with h2 | ⟨h2, h2'⟩
        · left; omega
        · left; omega
        · left; omega
        · right; exact ⟨by omega, ih bs cs h1' h2'⟩

theorem keyLe_total (a b : List Int) : keyLe a b = true ∨ keyLe b a = true := lexLe_total _ _
theorem keyLe_trans (a b c : List Int) : keyLe a b = true → keyLe b c = true → keyLe a c = true :=
  lexLe_trans _ _ _

/-! ## stable insertion sort -/

/-- `a` comes before `b` in a stably sorted list: key not larger, and ties in index order -/
def Before (key : Nat → List Int) (a b : Nat) : Prop :=
  keyLe (key a) (key b) = true ∧ (keyLe (key b) (key a) = true → a < b)

theorem insertBy_perm (key : Nat → List Int) (x : Nat) (l : List Nat) : (insertBy key x l).Perm (x :: l) := by
  induction l with
  | nil => exact List.Perm.refl _
  | cons y ys ih =>
    unfold insertBy
    split
    · exact List.Perm.refl _
    · exact (List.Perm.cons y ih).trans (List.Perm.swap x y ys)

theorem sortBy_perm (key : Nat → List Int) (l : List Nat) : (sortBy key l).Perm l := by
  induction l with
  | nil => exact List.Perm.refl _
  | cons x xs ih => exact (insertBy_perm key x _).trans (List.Perm.cons x ih)

theorem insertBy_before (key : Nat → List Int) (x : Nat) (ys : List Nat)
    (hs : ys.Pairwise (Before key)) (hx : ∀ y ∈ ys, x < y) : (insertBy key x ys).Pairwise (Before key) := by
  induction ys with
  | nil => simp [insertBy]
  | cons y ys ih =>
    rw [List.pairwise_cons] at hs
    unfold insertBy
    split
    next hle =>
      refine List.pairwise_cons.2 ⟨?_, List.pairwise_cons.2 hs⟩
      intro z hz
      refine ⟨?_, fun _ => hx z hz⟩
      rcases List.mem_cons.1 hz with rfl | hz'
      · exact hle
      · exact keyLe_trans _ _ _ hle (hs.1 z hz').1
    next hnle =>
      refine List.pairwise_cons.2 ⟨?_, ih hs.2 (fun z hz => hx z (List.mem_cons_of_mem _ hz))⟩
      intro w hw
      rcases List.mem_cons.1 ((insertBy_perm key x ys).mem_iff.1 hw) with rfl | hw'
      · refine ⟨?_, fun h => absurd h hnle⟩
        rcases keyLe_total (key y) (key w) with h | h
        · exact h
        · exact absurd h hnle
      · exact hs.1 w hw'

theorem sortBy_before (key : Nat → List Int) (l : List Nat) (hl : l.Pairwise (· < ·)) :
    (sortBy key l).Pairwise (Before key) := by
  induction l with
  | nil => simp [sortBy]
  | cons x xs ih =>
    rw [List.pairwise_cons] at hl
    exact insertBy_before key x _ (ih hl.2) (fun y hy => hl.1 y ((sortBy_perm key xs).mem_iff.1 hy))

end TenpyModel.C12

open TenpyModel.C12

/-- **`Site.sort_charge`, every charge assignment**: `perm` is a permutation of `0..d-1`; along `perm`
the charge vectors are non-decreasing in the `np.lexsort` order; states with equal charges keep their
original order (stability) — which pins the permutation down uniquely. -/
theorem C12_conserve_perm (d : Nat) (key : Nat → List Int) :
    (chargePerm d key).Perm (List.range d) ∧
    (chargePerm d key).Pairwise (fun a b => keyLe (key a) (key b) = true) ∧
    (chargePerm d key).Pairwise (fun a b => keyLe (key b) (key a) = true → a < b) := by
  have hb := sortBy_before key (List.range d) List.pairwise_lt_range
  exact ⟨sortBy_perm key _, hb.imp (fun h => h.1), hb.imp (fun h => h.2)⟩

/-- uniqueness: any two lists with these three properties coincide (so model and code cannot differ
by a legitimate choice) -/
theorem C12_conserve_perm_unique (key : Nat → List Int) (l₁ l₂ : List Nat) (hp : l₁.Perm l₂)
    (h₁ : l₁.Pairwise (Before key)) (h₂ : l₂.Pairwise (Before key)) : l₁ = l₂ :=
  hp.eq_of_pairwise (fun a b _ _ hab hba => by
    have := hab.2 hba.1
    have := hba.2 hab.1
    omega) h₁ h₂

/-- non-vacuity: spin-3/2 with parity conservation: even states first (`[0, 2, 1, 3]`);
spinful fermions with `(N, Sz)`: sorted by `2*Sz` first, then `N` (`down, empty, full, up`). -/
example : sitePerm (.spin 3 .parity) true = [0, 2, 1, 3] ∧
    sitePerm (.shFermion .full .full 1) true = [2, 0, 3, 1] := by decide +kernel

/-! ## charges of operators -/

namespace TenpyModel.C12

theorem ratSign_eq_zero (r : Rat) : ratSign r = 0 ↔ r = 0 := by
  unfold ratSign
  constructor
  · intro h
    split at h
    · simp at h
    · split at h
      · simp at h
      · rename_i h1 h2
        exact le_antisymm (not_lt.1 h1) (not_lt.1 h2)
  · intro h; subst h; simp

theorem eRat_isZero (r : Rat) : (eRat r).isZero = true ↔ r = 0 := by
  unfold eRat
  split
  next h => simp [eZero, Entry.isZero, h]
  next h =>
    simp only [Entry.isZero, beq_iff_eq, ratSign_eq_zero]

theorem eImag_isZero (r : Rat) : (eImag r).isZero = true ↔ r = 0 := by
  unfold eImag
  split
  next h => simp [eZero, Entry.isZero, h]
  next h =>
    simp only [Entry.isZero, beq_iff_eq, ratSign_eq_zero]

theorem eSqrt_isZero (s : Int) (r : Rat) (im : Bool) (hs : s ≠ 0) : (eSqrt s r im).isZero = true ↔ r = 0 := by
  unfold eSqrt
  split
  next h =>
    rcases h with h | h
    · simp [eZero, Entry.isZero, h]
    · exact absurd h hs
  next h =>
    have : ¬ r = 0 := fun e => h (Or.inl e)
    simp [Entry.isZero, hs, this]

/-- diagonal rational operators only connect a state with itself -/
theorem ratOp_diag_support (name : String) (f : Nat → Rat) (jw : Bool) (hc : String) (i j : Nat)
    (h : ((ratOp name (diagM f) jw hc).ent i j).isZero = false) : i = j := by
  by_contra hne
  have : (ratOp name (diagM f) jw hc).ent i j = eRat 0 := by simp [ratOp, diagM, hne]
  rw [this] at h
  simp [eRat, eZero, Entry.isZero] at h

theorem subD_support (a : Nat → Entry) (i j : Nat) (h : (subD a i j).isZero = false) : i = j + 1 := by
  by_contra hne
  simp [subD, hne] at h
  exact absurd h (by decide)

theorem supD_support (a : Nat → Entry) (i j : Nat) (h : (supD a i j).isZero = false) : j = i + 1 := by
  by_contra hne
  simp [supD, hne] at h
  exact absurd h (by decide)

theorem chargeDiff_self (s : SiteSpec) (i : Nat) : chargeDiff s i i = (siteMod s).map (fun _ => 0) ∨
    (siteCharge s i).length ≠ (siteMod s).length := by
  by_cases hl : (siteCharge s i).length = (siteMod s).length
  · left
    unfold chargeDiff makeValid
    generalize siteCharge s i = q at hl
    generalize siteMod s = m at hl
    induction m generalizing q with
    | nil => simp
    | cons m ms ih =>
      cases q with
      | nil => simp at hl
      | cons x q =>
        simp only [List.zipWith_cons_cons, List.map_cons, Int.sub_self]
        rw [ih q (by simpa using hl)]
        by_cases hm : m ≤ 1 <;> simp [hm]
  · right; exact hl

end TenpyModel.C12

/-- **Charges of the `SpinSite(S)` operators, every `S` and conserve option**: along each diagonal
the charge difference `charge(row) - charge(column)` is one constant: `0` on the diagonal (`Sz`, `Id`,
`JW`), `+2` (`'Sz'`), `1 mod 2` (`'parity'`), `(+2, 0)` (`'dipole'`) for the raising entries
`[n+1, n]` of `Sp`, the negative for `Sm`; with `'parity'` raising and lowering entries carry the same
charge, which is why `Sx, Sy` exist there and not with `'Sz'`. -/
theorem C12_op_charge_spin (twoS : Nat) (n : Nat) :
    chargeDiff (.spin twoS .full) (n + 1) n = [2] ∧ chargeDiff (.spin twoS .full) n (n + 1) = [-2] ∧
    chargeDiff (.spin twoS .full) n n = [0] ∧
    chargeDiff (.spin twoS .parity) (n + 1) n = [1] ∧ chargeDiff (.spin twoS .parity) n (n + 1) = [1] ∧
    chargeDiff (.spin twoS .parity) n n = [0] ∧
    chargeDiff (.spin twoS .dipole) (n + 1) n = [2, 0] ∧ chargeDiff (.spin twoS .dipole) n (n + 1) = [-2, 0] ∧
    chargeDiff (.spin twoS .dipole) n n = [0, 0] ∧
    chargeDiff (.spin twoS .none) (n + 1) n = [] := by
  simp only [chargeDiff, siteCharge, siteRawCharge, siteMod, makeValid, List.zipWith_cons_cons, List.zipWith_nil_right,
    Nat.le_refl, if_true, List.cons.injEq, and_true]
  simp only [show ¬ (2 ≤ 1) by decide, if_false]
  push_cast
  repeat' constructor
  all_goals omega

/-- every non-zero entry of every `SpinSite` operator sits on the diagonal its name promises, hence
(with `C12_op_charge_spin`) carries the charge the model reports. -/
theorem C12_op_support_spin (twoS : Nat) (c : Cons) (o : OpDef) (ho : o ∈ spinOps twoS c) (i j : Nat)
    (h : (o.ent i j).isZero = false) :
    (o.name = "Sp" → i = j + 1) ∧ (o.name = "Sm" → j = i + 1) ∧
    (o.name = "Sz" ∨ o.name = "Id" ∨ o.name = "JW" → i = j) ∧
    (o.name = "Sx" ∨ o.name = "Sy" → (i = j + 1 ∨ j = i + 1) ∧ (c = .parity ∨ c = .none)) := by
  simp only [spinOps, List.mem_append, List.mem_cons, List.mem_nil_iff, or_false] at ho
  rcases ho with ((rfl | rfl | rfl | rfl) | ho) | rfl
  · exact ⟨by simp [ratOp], by simp [ratOp], fun _ => ratOp_diag_support _ _ _ _ i j h, by simp [ratOp]⟩
  · exact ⟨fun _ => subD_support (fun n => eSqrt 1 (spinSpSq twoS n)) i j h, by simp, by simp, by simp⟩
  · exact ⟨by simp, fun _ => supD_support (fun n => eSqrt 1 (spinSpSq twoS n)) i j h, by simp, by simp⟩
  · exact ⟨by simp [ratOp], by simp [ratOp], fun _ => ratOp_diag_support _ _ _ _ i j h, by simp [ratOp]⟩
  · split at ho
    · simp at ho
    next hc =>
      have hc' : c = .parity ∨ c = .none := by
        cases c <;> simp_all
      simp only [List.mem_cons, List.mem_nil_iff, or_false] at ho
      rcases ho with rfl | rfl
      · refine ⟨by simp, by simp, by simp, fun _ => ⟨?_, hc'⟩⟩
        by_contra hne
        simp only [not_or] at hne
        simp [hne.1, hne.2, eZero, Entry.isZero] at h
      · refine ⟨by simp, by simp, by simp, fun _ => ⟨?_, hc'⟩⟩
        by_contra hne
        simp only [not_or] at hne
        simp [hne.1, hne.2, eZero, Entry.isZero] at h
  · exact ⟨by simp [ratOp], by simp [ratOp], fun _ => ratOp_diag_support _ _ _ _ i j h, by simp [ratOp]⟩

/-- **Charges of the `BosonSite(Nmax)` operators, every cutoff and conserve option**: `B` (entries
`[n, n+1]`) lowers `N` by one, `Bd` raises it, the diagonal operators are neutral. -/
theorem C12_op_charge_boson (nmax : Nat) (f : Rat) (n : Nat) :
    chargeDiff (.boson nmax .full f) n (n + 1) = [-1] ∧ chargeDiff (.boson nmax .full f) (n + 1) n = [1] ∧
    chargeDiff (.boson nmax .full f) n n = [0] ∧
    chargeDiff (.boson nmax .parity f) n (n + 1) = [1] ∧ chargeDiff (.boson nmax .parity f) (n + 1) n = [1] ∧
    chargeDiff (.boson nmax .parity f) n n = [0] ∧
    chargeDiff (.boson nmax .dipole f) n (n + 1) = [-1, 0] ∧ chargeDiff (.boson nmax .dipole f) (n + 1) n = [1, 0] ∧
    chargeDiff (.boson nmax .dipole f) n n = [0, 0] := by
  simp only [chargeDiff, siteCharge, siteRawCharge, siteMod, makeValid, List.zipWith_cons_cons, List.zipWith_nil_right,
    Nat.le_refl, if_true, List.cons.injEq, and_true]
  simp only [show ¬ (2 ≤ 1) by decide, if_false]
  push_cast
  repeat' constructor
  all_goals omega

theorem C12_op_support_boson (f : Rat) (o : OpDef) (ho : o ∈ bosonOps f) (i j : Nat)
    (h : (o.ent i j).isZero = false) :
    (o.name = "B" → j = i + 1) ∧ (o.name = "Bd" → i = j + 1) ∧
    (o.name ≠ "B" ∧ o.name ≠ "Bd" → i = j) := by
  simp only [bosonOps, List.mem_cons, List.mem_nil_iff, or_false] at ho
  rcases ho with rfl | rfl | rfl | rfl | rfl | rfl | rfl | rfl | rfl
  · exact ⟨by simp [ratOp], by simp [ratOp], fun _ => ratOp_diag_support _ _ _ _ i j h⟩
  · exact ⟨fun _ => supD_support (fun n => eSqrt 1 (bosonBSq n)) i j h, by simp, by simp⟩
  · exact ⟨by simp, fun _ => subD_support (fun n => eSqrt 1 (bosonBSq n)) i j h, by simp⟩
  all_goals exact ⟨by simp [ratOp], by simp [ratOp], fun _ => ratOp_diag_support _ _ _ _ i j h⟩

/-- **Charges of the `ClockSite(q)` operators, every `q`**: with `conserve='Z'` the charge of state
`n` is `n mod q`; the entries of `X` (row `i`, column `(i+1) mod q`) all carry charge `q-1 ≡ -1`,
those of `Xhc` carry `+1`, `Z`, `Zhc` are neutral. -/
theorem C12_op_charge_clock (q : Nat) (hq : 2 ≤ q) (i : Nat) (hi : i < q) :
    chargeDiff (.clock q .full) i ((i + 1) % q) = [(q : Int) - 1] ∧
    chargeDiff (.clock q .full) ((i + 1) % q) i = [1] ∧
    chargeDiff (.clock q .full) i i = [0] := by
  have hq1 : ¬ (q ≤ 1) := by omega
  have hqpos : (0 : Int) < q := by omega
  simp only [chargeDiff, siteCharge, siteRawCharge, siteMod, makeValid, List.zipWith_cons_cons, List.zipWith_nil_right,
    hq1, if_false, List.cons.injEq, and_true]
  have hi' : ((i : Int) % q) = i := Int.emod_eq_of_lt (by omega) (by omega)
  by_cases h1 : i + 1 < q
  · rw [Nat.mod_eq_of_lt h1]
    have h2 : (((i + 1 : Nat) : Int) % q) = i + 1 := by
      push_cast; exact Int.emod_eq_of_lt (by omega) (by omega)
    rw [hi', h2]
    refine ⟨?_, ?_, ?_⟩
    · have : (i : Int) - (i + 1) = (q - 1) + (-1) * q := by ring
      rw [this, Int.add_mul_emod_self_right]; exact Int.emod_eq_of_lt (by omega) (by omega)
    · have : (i : Int) + 1 - i = 1 := by ring
      rw [this]; exact Int.emod_eq_of_lt (by omega) (by omega)
    · simp
  · have hq' : i + 1 = q := by omega
    rw [hq', Nat.mod_self]
    simp only [Nat.cast_zero, Int.zero_emod]
    rw [hi']
    have hiq : (i : Int) = q - 1 := by omega
    refine ⟨?_, ?_, ?_⟩
    · rw [Int.sub_zero]; rw [hiq]; exact Int.emod_eq_of_lt (by omega) (by omega)
    · rw [hiq]
      have : (0 : Int) - (q - 1) = 1 + (-1) * q := by ring
      rw [this, Int.add_mul_emod_self_right]; exact Int.emod_eq_of_lt (by omega) (by omega)
    · simp

/-- **Charges of the operators of the fixed-size fermionic sites**, every conserve option: the model's
executable check "all non-zero entries of the operator carry the reported charge" holds for every
operator of `FermionSite` and `SpinHalfSite`, and (for the representative fillings ½ and 1, the entries
of `dN` being the only place where the filling enters, on the diagonal) of `SpinHalfFermionSite` and
`SpinHalfHoleSite`. -/
theorem C12_op_charge_fixed :
    (∀ c ∈ [Cons.none, .parity, .full], ((siteOps (.fermion c (1/2))).all (opChargeOk (.fermion c (1/2))) = true ∧
        (siteOps (.spinHalf c)).all (opChargeOk (.spinHalf c)) = true)) ∧
    (∀ cN ∈ [Cons.none, .parity, .full], ∀ cS ∈ [Cons.none, .parity, .full],
      (siteOps (.shFermion cN cS 1)).all (opChargeOk (.shFermion cN cS 1)) = true ∧
      (siteOps (.shHole cN cS 1)).all (opChargeOk (.shHole cN cS 1)) = true) := by
  decide +kernel

/-! ## the algebra does not depend on the basis order -/

namespace TenpyModel.C12
variable {K : Type} [CommRing K]

theorem sumTo_eq_list_sum (d : Nat) (f : Nat → K) : sumTo d f = ((List.range d).map f).sum := by
  induction d with
  | zero => simp [sumTo]
  | succ n ih => rw [sumTo_succ, ih, List.range_succ]; simp

theorem map_getD_range (p : List Nat) : (List.range p.length).map (fun k => p.getD k 0) = p := by
  apply List.ext_getElem
  · simp
  · intro i h1 h2
    simp [List.getD_eq_getElem?_getD, List.getElem?_eq_getElem h2]

theorem sumTo_perm (d : Nat) (p : List Nat) (hp : p.Perm (List.range d)) (g : Nat → K) :
    sumTo d (fun k => g (p.getD k 0)) = sumTo d g := by
  have hl : p.length = d := by simpa using hp.length_eq
  rw [sumTo_eq_list_sum, sumTo_eq_list_sum]
  have : (List.range d).map (fun k => g (p.getD k 0)) = p.map g := by
    rw [← hl]
    conv_rhs => rw [← map_getD_range p]
    rw [List.map_map]; rfl
  rw [this]
  exact (hp.map g).sum_eq

end TenpyModel.C12

/-- **Same operators up to the permutation of basis states.**  With `perm` a permutation of
`0..d-1` (theorem `C12_conserve_perm`), the operators of the conserving site are
`op[np.ix_(perm, perm)]`; products of permuted operators are the permuted products, so every
algebraic relation proved above for the `conserve=None` tables holds verbatim for every conserve
option. -/
theorem C12_perm_invariance {K : Type} [CommRing K] (d : Nat) (p : List Nat) (hp : p.Perm (List.range d))
    (A B : Nat → Nat → K) (a b : Nat) :
    mmul d (fun i j => A (p.getD i 0) (p.getD j 0)) (fun i j => B (p.getD i 0) (p.getD j 0)) a b
      = mmul d A B (p.getD a 0) (p.getD b 0) := by
  unfold mmul
  exact sumTo_perm d p hp (fun k => A (p.getD a 0) k * B k (p.getD b 0))
