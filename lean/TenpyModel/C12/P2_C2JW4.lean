import TenpyModel.C12.P2_C2JW3
/-! `needOf`: duplicate free, and its weighted sum is the old JW parity. -/
namespace TenpyModel.C12

/-- one block of `needOf` -/
def needBlock (x : List Int × Nat) : List CTerm :=
  x.1.zipIdx.filterMap (fun po => if po.1 != 0 then some ((1 : Int), x.2, po.2) else none)

theorem needOf_eq (ps : List (List Int)) : needOf ps = ps.zipIdx.flatMap needBlock := by
  unfold needOf needBlock
  congr 1

theorem mem_needBlock (x : List Int × Nat) (t : CTerm) (h : t ∈ needBlock x) : t.1 = 1 ∧ t.2.1 = x.2 := by
  simp only [needBlock, List.mem_filterMap] at h
  obtain ⟨po, _, hpo⟩ := h
  split at hpo
  · cases hpo; exact ⟨rfl, rfl⟩
  · cases hpo

theorem needBlock_nodup (x : List Int × Nat) : (needBlock x).Nodup := by
  unfold needBlock
  rw [List.nodup_iff_pairwise_ne]
  refine List.Pairwise.filterMap _ ?_ (zipIdx_pairwise_snd x.1)
  intro a a' hne b hb b' hb' e
  subst e
  split at hb <;> split at hb'
  · have e1 := Option.some.inj hb
    have e2 := Option.some.inj hb'
    have := e1.trans e2.symm
    simp only [Prod.mk.injEq, true_and] at this
    exact hne this
  all_goals simp_all

theorem needOf_nodup (ps : List (List Int)) : (needOf ps).Nodup := by
  rw [needOf_eq, List.nodup_flatMap]
  refine ⟨fun x _ => needBlock_nodup x, ?_⟩
  refine (zipIdx_pairwise_snd ps).imp ?_
  intro a b hne t ha hb
  have h1 := (mem_needBlock a t ha).2
  have h2 := (mem_needBlock b t hb).2
  exact hne (h1.symm.trans h2)

/-- weight of an old-charge term for the basis state with old charges `old` of site `s` -/
def termW (s : Nat) (old : List Int) (t : CTerm) : Int := if t.2.1 = s then t.1 * old.getD t.2.2 0 else 0

theorem sumT_flatMap {β : Type} (f : CTerm → Int) (l : List β) (B : β → List CTerm) :
    sumT f (l.flatMap B) = (l.map (fun x => sumT f (B x))).sum := by
  induction l with
  | nil => rfl
  | cons a l ih =>
    simp only [List.flatMap_cons, List.map_cons, List.sum_cons, ← ih]
    simp [sumT, List.map_append, List.sum_append]

theorem block_sum_other (s : Nat) (old : List Int) (x : List Int × Nat) (h : x.2 ≠ s) :
    sumT (termW s old) (needBlock x) = 0 := by
  unfold sumT
  apply List.sum_eq_zero
  intro v hv
  obtain ⟨t, ht, rfl⟩ := List.mem_map.1 hv
  have := (mem_needBlock x t ht).2
  simp [termW, this, h]

/-- the block of site `s`: the old parity (entries of `charge_to_JW_parity` are 0 or 1) -/
theorem block_sum_self_aux (s : Nat) (par : List Int) (h01 : ∀ p ∈ par, p = 0 ∨ p = 1) (k : Nat) (old : List Int) :
    sumT (termW s old) ((par.zipIdx k).filterMap
        (fun po => if po.1 != 0 then some ((1 : Int), s, po.2) else none)) = dotI par (old.drop k) := by
  induction par generalizing k with
  | nil => simp [sumT, dotI]
  | cons p par ih =>
    have ih' := ih (fun q hq => h01 q (List.mem_cons_of_mem _ hq)) (k + 1)
    simp only [List.zipIdx_cons, List.filterMap_cons]
    have hdrop : old.drop k = (if h : k < old.length then old[k] :: old.drop (k + 1) else []) := by
      split
      · next h => exact List.drop_eq_getElem_cons h
      · next h => exact List.drop_eq_nil_of_le (by omega)
    rcases h01 p (by simp) with rfl | rfl
    · simp only [bne_self_eq_false, Bool.false_eq_true, if_false]
      rw [ih', hdrop]
      split
      · rw [dotI_cons]; omega
      · next h =>
        rw [List.drop_eq_nil_of_le (by omega)]; simp [dotI]
    · simp only [show ((1 : Int) != 0) = true by decide, if_true]
      rw [sumT, List.map_cons, List.sum_cons]
      change termW s old (1, s, k) + sumT (termW s old) _ = _
      rw [ih', hdrop]
      simp only [termW, if_true, Int.one_mul]
      split
      · next h =>
        rw [dotI_cons, List.getD_eq_getElem?_getD, List.getElem?_eq_getElem h]; simp
      · next h =>
        rw [List.drop_eq_nil_of_le (by omega), List.getD_eq_getElem?_getD, List.getElem?_eq_none (by omega)]
        simp [dotI]

theorem block_sum_self (s : Nat) (old : List Int) (par : List Int) (h01 : ∀ p ∈ par, p = 0 ∨ p = 1) :
    sumT (termW s old) (needBlock (par, s)) = dotI par old := by
  have := block_sum_self_aux s par h01 0 old
  simpa [needBlock] using this

theorem need_sum_aux (s : Nat) (old : List Int) (ps : List (List Int)) (h01 : ∀ par ∈ ps, ∀ p ∈ par, p = 0 ∨ p = 1)
    (k : Nat) :
    ((ps.zipIdx k).map (fun x => sumT (termW s old) (needBlock x))).sum =
      if k ≤ s then dotI (ps.getD (s - k) []) old else 0 := by
  induction ps generalizing k with
  | nil => simp [dotI]
  | cons par ps ih =>
    have ih' := ih (fun q hq => h01 q (List.mem_cons_of_mem _ hq)) (k + 1)
    simp only [List.zipIdx_cons, List.map_cons, List.sum_cons]
    rw [ih']
    by_cases hk : k = s
    · subst hk
      rw [block_sum_self k old par (h01 par (by simp))]
      have h1 : ¬ k + 1 ≤ k := by omega
      simp [h1]
    · rw [block_sum_other s old (par, k) hk]
      by_cases hle : k ≤ s
      · have h1 : k + 1 ≤ s := by omega
        obtain ⟨d, hd⟩ : ∃ d, s - k = d + 1 := ⟨s - k - 1, by omega⟩
        have h2 : s - (k + 1) = d := by omega
        simp [hle, h1, hd, h2]
      · have h1 : ¬ k + 1 ≤ s := by omega
        simp [hle, h1]

/-- **the parity-carrying old charges, weighted by the old charges of a state, give the old JW parity** -/
theorem need_sum (s : Nat) (old : List Int) (ps : List (List Int)) (h01 : ∀ par ∈ ps, ∀ p ∈ par, p = 0 ∨ p = 1) :
    sumT (termW s old) (needOf ps) = dotI (ps.getD s []) old := by
  rw [needOf_eq, sumT_flatMap, need_sum_aux s old ps h01 0]
  simp

end TenpyModel.C12
