import TenpyModel.C12.Mat
import Mathlib.Tactic.Ring
import Mathlib.Tactic.NoncommRing
/-! Helper lemmas for the matrix kernel of the C12 model over an arbitrary ring. -/
namespace TenpyModel.C12

variable {K : Type} [Ring K]

theorem sumTo_succ (n : Nat) (f : Nat → K) : sumTo (n + 1) f = sumTo n f + f n := rfl

theorem sumTo_eq_zero (n : Nat) (f : Nat → K) (h : ∀ k, k < n → f k = 0) : sumTo n f = 0 := by
  induction n with
  | zero => rfl
  | succ n ih =>
    rw [sumTo_succ, ih (fun k hk => h k (Nat.lt_succ_of_lt hk)), h n (Nat.lt_succ_self n)]
    simp

/-- a sum with a single non-zero term -/
theorem sumTo_single (n k0 : Nat) (f : Nat → K) (hk0 : k0 < n) (h : ∀ k, k < n → k ≠ k0 → f k = 0) :
    sumTo n f = f k0 := by
  induction n with
  | zero => omega
  | succ n ih =>
    rw [sumTo_succ]
    by_cases hk : k0 = n
    · subst hk
      rw [sumTo_eq_zero k0 f (fun k hk' => h k (by omega) (by omega))]
      simp
    · rw [ih (by omega) (fun k hk' hne => h k (by omega) hne), h n (by omega) (fun e => hk e.symm)]
      simp

theorem sumTo_add (n : Nat) (f g : Nat → K) : sumTo n (fun k => f k + g k) = sumTo n f + sumTo n g := by
  induction n with
  | zero => simp [sumTo]
  | succ n ih => rw [sumTo_succ, sumTo_succ, sumTo_succ, ih]; abel

theorem sumTo_mul_left (n : Nat) (c : K) (f : Nat → K) : sumTo n (fun k => c * f k) = c * sumTo n f := by
  induction n with
  | zero => simp [sumTo]
  | succ n ih => rw [sumTo_succ, sumTo_succ, ih, mul_add]

theorem sumTo_mul_right (n : Nat) (c : K) (f : Nat → K) : sumTo n (fun k => f k * c) = sumTo n f * c := by
  induction n with
  | zero => simp [sumTo]
  | succ n ih => rw [sumTo_succ, sumTo_succ, ih, add_mul]

theorem sumTo_congr (n : Nat) (f g : Nat → K) (h : ∀ k, k < n → f k = g k) : sumTo n f = sumTo n g := by
  induction n with
  | zero => rfl
  | succ n ih => rw [sumTo_succ, sumTo_succ, ih (fun k hk => h k (by omega)), h n (by omega)]

/-- `diag(f) · B` -/
theorem mmul_diag_left (d : Nat) (f : Nat → K) (B : Nat → Nat → K) (i j : Nat) (hi : i < d) :
    mmul d (diagM f) B i j = f i * B i j := by
  unfold mmul
  rw [sumTo_single d i _ hi]
  · simp [diagM]
  · intro k _ hne
    have : ¬ i = k := fun e => hne e.symm
    simp [diagM, this]

/-- `A · diag(f)` -/
theorem mmul_diag_right (d : Nat) (f : Nat → K) (A : Nat → Nat → K) (i j : Nat) (hj : j < d) :
    mmul d A (diagM f) i j = A i j * f j := by
  unfold mmul
  rw [sumTo_single d j _ hj]
  · simp [diagM]
  · intro k _ hne
    simp [diagM, hne]

/-- `subD a · supD b` is diagonal with entries `a (i-1) * b (i-1)` (`i ≥ 1`) -/
theorem mmul_subD_supD (d : Nat) (a b : Nat → K) (i j : Nat) (hi : i < d) :
    mmul d (subD a) (supD b) i j = if i = j ∧ 0 < i then a (i - 1) * b (i - 1) else 0 := by
  unfold mmul
  by_cases h0 : 0 < i
  · rw [sumTo_single d (i - 1) _ (by omega)]
    · have e1 : i = i - 1 + 1 := by omega
      by_cases hij : i = j
      · subst hij; simp [subD, supD, h0, ← e1]
      · have : ¬ j = i - 1 + 1 := by omega
        simp [subD, supD, hij, this]
    · intro k _ hne
      have : ¬ i = k + 1 := by omega
      simp [subD, this]
  · have hz : i = 0 := by omega
    subst hz
    rw [sumTo_eq_zero]
    · simp
    · intro k _; simp [subD]

/-- `supD b · subD a` is diagonal with entries `b i * a i` (`i + 1 < d`) -/
theorem mmul_supD_subD (d : Nat) (a b : Nat → K) (i j : Nat) :
    mmul d (supD b) (subD a) i j = if i = j ∧ i + 1 < d then b i * a i else 0 := by
  unfold mmul
  by_cases h1 : i + 1 < d
  · rw [sumTo_single d (i + 1) _ h1]
    · by_cases hij : i = j
      · subst hij; simp [subD, supD, h1]
      · have : ¬ i + 1 = j + 1 := by omega
        simp [subD, supD, hij, this]
    · intro k _ hne
      simp [supD, hne]
  · rw [sumTo_eq_zero]
    · simp [h1]
    · intro k hk
      have : ¬ k = i + 1 := by omega
      simp [supD, this]

end TenpyModel.C12
