import TenpyModel.C01.B2_Dot10
/-!
C01 part C — closure of the charge rule (`Arr.ChargeRule`) and of `LegsValid` under the contraction-type operations.
File 1: the block-charge computation for a result row `qa[:cut] ++ qb[k:]` of two stored rows with equal contracted
parts (contractible contracted legs), and the result of `outer`.
-/
namespace TenpyModel.C01C
open TenpyModel.Core TenpyModel.C01B TenpyModel.C01B2

variable {α : Type}

/-- the pure vector computation: keep-charges of both rows add up to `qtotal_a + qtotal_b` -/
theorem charge_algebra2 (mods : List Nat) (SA SC SC' SB qa qb : Charge)
    (lA : SA.length = mods.length) (lC : SC.length = mods.length) (lC' : SC'.length = mods.length)
    (lB : SB.length = mods.length)
    (h1 : makeValid mods (cadd SA SC) = qa) (h2 : makeValid mods (cadd SC' SB) = qb)
    (h3 : makeValid mods (cadd SC' SC) = czero mods.length) :
    makeValid mods (cadd SA SB) = makeValid mods (cadd qa qb) := by
  rw [← h1, ← h2, makeValid_add, makeValid_add_left]
  have e2 : cadd (cadd SA SC) (cadd SC' SB) = cadd (cadd SA SB) (cadd SC' SC) := by
    unfold cadd
    apply List.ext_getElem
    · simp only [List.length_zipWith]; omega
    · intro i i1 i2
      simp only [List.getElem_zipWith]; omega
  rw [e2, ← makeValid_add mods (cadd SA SB), h3,
    cadd_czero_right _ (cadd SA SB) (by rw [cadd_length, lA, lB, Nat.min_self])]

section charge
variable [CommSemiring α]
set_option linter.unusedSectionVars false

/-- **the charge of a result row**: a stored row of `a` and a stored row of `b` with equal contracted parts give a
row `qa[:cut] ++ qb[k:]` whose block charge (w.r.t. the legs of the result) is `make_valid(qtotal_a + qtotal_b)` -/
theorem row_charge (a b : Arr α) (k : Nat) (h : DotHyp a b k) (hm : a.mods = b.mods)
    (hc : (List.zipWith Leg.testContractible (a.lcs.drop (a.rank - k)) (b.lcs.take k)).all id = true)
    (hca : a.ChargeRule) (hcb : b.ChargeRule) (hva : LegsValid a) (hvb : LegsValid b)
    (qa qb : List Nat) (hqa : qa ∈ a.qdata) (hqb : qb ∈ b.qdata) (he : qa.drop (a.rank - k) = qb.take k) :
    blockChargeOf a.mods (a.lcs.take (a.rank - k) ++ b.lcs.drop k) (qa.take (a.rank - k) ++ qb.drop k)
      = makeValid a.mods (cadd a.qtotal b.qtotal) := by
  obtain ⟨ra1, ra2, ra3⟩ := h.rowA qa hqa
  obtain ⟨rb1, rb2, rb3⟩ := h.rowB qb hqb
  have vA := chs_len a.mods.length _ _ (legsValid_charges hva (a.lcs.take (a.rank - k))
    (fun l hl => List.mem_of_mem_take hl)) ra2
  have vC := chs_len a.mods.length _ _ (legsValid_charges hva (a.lcs.drop (a.rank - k))
    (fun l hl => List.mem_of_mem_drop hl)) ra3
  have vC' := chs_len a.mods.length _ _ (by
    rw [hm]; exact legsValid_charges hvb (b.lcs.take k) (fun l hl => List.mem_of_mem_take hl)) rb2
  have vB := chs_len a.mods.length _ _ (by
    rw [hm]; exact legsValid_charges hvb (b.lcs.drop k) (fun l hl => List.mem_of_mem_drop hl)) rb3
  have h1 : makeValid a.mods (cadd (csum a.mods.length (chs (a.lcs.take (a.rank - k)) (qa.take (a.rank - k))))
      (csum a.mods.length (chs (a.lcs.drop (a.rank - k)) (qa.drop (a.rank - k))))) = a.qtotal := by
    have := hca qa hqa
    unfold blockChargeOf at this
    rw [← csum_append _ _ _ vA vC, ← chs_split]
    exact this
  have h2 : makeValid a.mods (cadd (csum a.mods.length (chs (b.lcs.take k) (qb.take k)))
      (csum a.mods.length (chs (b.lcs.drop k) (qb.drop k)))) = b.qtotal := by
    have := hcb qb hqb
    unfold blockChargeOf at this
    rw [← csum_append _ _ _ vC' vB, ← chs_split, hm]
    exact this
  have h3 : makeValid a.mods (cadd (csum a.mods.length (chs (b.lcs.take k) (qb.take k)))
      (csum a.mods.length (chs (a.lcs.drop (a.rank - k)) (qb.take k)))) = czero a.mods.length := by
    have hlen : (a.lcs.drop (a.rank - k)).length = (b.lcs.take k).length := by
      rw [h.lenC, lcs_take_len b k h.hkb]
    have := blockCharge_contractible a.mods (a.lcs.drop (a.rank - k)) (b.lcs.take k) (qb.take k) hlen
      (by rw [rb1, lcs_take_len b k h.hkb]) hc
      (fun l hl => by rw [hm]; exact (hvb l (List.mem_of_mem_take hl)).1)
      (fun i hi => by
        have hli : (b.lcs.take k).getD i default ∈ b.lcs.take k := getD_mem _ _ _ hi
        rw [hm]
        apply (hvb _ (List.mem_of_mem_take hli)).2
        apply getD_mem
        have := rb2.getD_lt i (by rw [rb2.length_eq, List.length_map]; exact hi)
        rw [getD_map' _ _ i default 0 hi] at this
        exact this)
    unfold blockChargeOf at this
    rw [makeValid_add, makeValid_add_left] at this
    exact this
  rw [he] at h1 vC
  have hsplit : List.zipWith (fun (l : Leg) qi => l.getCharge qi) (a.lcs.take (a.rank - k) ++ b.lcs.drop k)
      (qa.take (a.rank - k) ++ qb.drop k)
      = chs (a.lcs.take (a.rank - k)) (qa.take (a.rank - k)) ++ chs (b.lcs.drop k) (qb.drop k) := by
    unfold chs
    rw [List.zipWith_append (by rw [ra1, lcs_take_len a _ (Nat.sub_le _ _)])]
  unfold blockChargeOf
  rw [hsplit, csum_append _ _ _ vA vB]
  exact charge_algebra2 a.mods _ _ _ _ _ _ (csum_length _ _ vA) (csum_length _ _ vC) (csum_length _ _ vC')
    (csum_length _ _ vB) h1 h2 h3

/-- the legs of the result of a contraction are legs over the operands' `chinfo` with charge rows of that width -/
theorem legsValid_of_legs (a b r : Arr α) (n k : Nat) (hm : a.mods = b.mods) (hva : LegsValid a) (hvb : LegsValid b)
    (hmods : r.mods = a.mods) (hlegs : r.legs = a.legs.take n ++ b.legs.drop k) : LegsValid r := by
  intro l hl
  rw [lcs_of_legs r n hlegs] at hl
  rw [hmods]
  rcases List.mem_append.1 hl with h1 | h1
  · exact hva l (List.mem_of_mem_take h1)
  · rw [hm]; exact hvb l (List.mem_of_mem_drop h1)

/-- `DotHyp` for `k = 0` (no contracted legs) -/
theorem dotHyp_zero (a b : Arr α) (ha : W a) (hb : W b) : DotHyp a b 0 :=
  ⟨ha, hb, Nat.zero_le _, Nat.zero_le _, by simp [lcs_length]⟩

/-- **(b)** `outer(a, b)`: the result obeys the charge rule and has valid legs -/
theorem chargeRule_outer (a b r : Arr α) (ha : a.WF) (hb : b.WF) (hca : a.ChargeRule) (hcb : b.ChargeRule)
    (hva : LegsValid a) (hvb : LegsValid b) (h : a.outer b = .ok r) : r.ChargeRule ∧ LegsValid r := by
  obtain ⟨hlegs, hmods, hqt, _, _⟩ := outer_ok a b r h
  obtain ⟨_, _, hq, _, _⟩ := outer_parts a b r h
  have hm : a.mods = b.mods := by
    unfold Arr.outer at h
    simp only [bind, Except.bind, pure, Except.pure] at h
    split at h
    · simp [throw, throwThe, MonadExceptOf.throw] at h
    · rename_i hne; simpa using hne
  have hlegs' : r.legs = a.legs.take (a.rank - 0) ++ b.legs.drop 0 := by
    rw [hlegs, Nat.sub_zero, List.drop_zero, List.take_of_length_le (by simp [Arr.rank])]
  refine ⟨?_, legsValid_of_legs a b r _ 0 hm hva hvb hmods hlegs'⟩
  intro q hqm
  rw [hq] at hqm
  obtain ⟨e, he, rfl⟩ := List.mem_map.1 hqm
  unfold outerRows at he
  obtain ⟨rbB, hB, he⟩ := List.mem_flatMap.1 he
  obtain ⟨rbA, hA, rfl⟩ := List.mem_map.1 he
  have hqa := (List.of_mem_zip hA).1
  have hqb := (List.of_mem_zip hB).1
  have hD := dotHyp_zero a b (W.of ha) (W.of hb)
  have hla : rbA.1.length = a.rank := (W.of ha).rowLen _ hqa
  have := row_charge a b 0 hD hm (by simp) hca hcb hva hvb rbA.1 rbB.1 hqa hqb
    (by rw [Nat.sub_zero, List.take_zero, List.drop_of_length_le (by omega)])
  rw [Nat.sub_zero, List.drop_zero, List.drop_zero, List.take_of_length_le (by rw [lcs_length]),
    List.take_of_length_le (by omega)] at this
  rw [hmods, hqt, lcs_of_legs r _ hlegs', Nat.sub_zero, List.drop_zero,
    List.take_of_length_le (by rw [lcs_length])]
  exact this

end charge
end TenpyModel.C01C
