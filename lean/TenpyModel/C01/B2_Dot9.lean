import TenpyModel.C01.B2_Dot8
import TenpyModel.C01.B2_Outer
/-!
C01 part B2 — `tensordot(a, b, axes=k)` for every branch that returns a tensor: an operand without blocks, the
`stored_blocks == 1` shortcut, `k = 0` (→ `outer`) and `_tensordot_worker`.
-/
namespace TenpyModel.C01B2
open TenpyModel.Core TenpyModel.C01B

variable {α : Type}

section final
variable [CommSemiring α]
set_option linter.unusedSectionVars false

/-- from the entries to the dense form -/
theorem toDense_of_entry (a b r : Arr α) (k : Nat) (h : DotHyp a b k)
    (hlegs : r.legs = a.legs.take (a.rank - k) ++ b.legs.drop k)
    (hent : ∀ i j, InRange i ((a.lcs.take (a.rank - k)).map Leg.indLen) → InRange j ((b.lcs.drop k).map Leg.indLen) →
      r.entry (i ++ j) = (Dense.tensordot a.toDense b.toDense k).get 0 (i ++ j)) :
    r.toDense = Dense.tensordot a.toDense b.toDense k := by
  have hlcs := lcs_of_legs r (a.rank - k) hlegs
  have hra : a.toDense.rank = a.rank := by simp [Dense.rank, toDense_shape, Arr.shape, lcs_length]
  have hshape : (Dense.tensordot a.toDense b.toDense k).shape = r.shape := by
    rw [tensordot_shape, hra, toDense_shape, toDense_shape, shape_eq, shape_eq, shape_eq, hlcs, List.map_append,
      List.map_take, List.map_drop]
  apply toDense_eq_of_get r _ hshape (tensordot_good _ _ _)
  intro idx hidx
  rw [shape_eq, hlcs, List.map_append] at hidx
  obtain ⟨u, v, rfl, hu, hv⟩ := InRange_split hidx
  exact (hent u v hu hv).symm

/-- entry form of the result: `r[i ++ j] = Σ_c a[i ++ c] * b[c ++ j]` -/
theorem entry_form (a b r : Arr α) (k : Nat) (h : DotHyp a b k)
    (hlegs : r.legs = a.legs.take (a.rank - k) ++ b.legs.drop k)
    (hr : r.toDense = Dense.tensordot a.toDense b.toDense k) (i j : List Nat)
    (hi : InRange i (a.shape.take (a.rank - k))) (hj : InRange j (b.shape.drop k)) :
    r.entry (i ++ j)
      = ((Dense.allIdx (a.shape.drop (a.rank - k))).map (fun c => a.entry (i ++ c) * b.entry (c ++ j))).sum := by
  have hlcs := lcs_of_legs r (a.rank - k) hlegs
  have hra : a.toDense.rank = a.rank := by simp [Dense.rank, toDense_shape, Arr.shape, lcs_length]
  have c5 := (congr_slices _ _ h.hss).2.2.2.2
  have hin : InRange (i ++ j) r.shape := by
    rw [shape_eq, hlcs, List.map_append, List.map_take, List.map_drop]
    exact (InRange_append hi.length_eq).2 ⟨hi, hj⟩
  have hcc : b.toDense.shape.take k = a.toDense.shape.drop (a.toDense.rank - k) := by
    rw [hra, toDense_shape, toDense_shape, shape_eq, shape_eq, ← List.map_take, ← List.map_drop, c5]
  rw [← toDense_get r _ hin, hr,
    get_tensordot a.toDense b.toDense k hcc i j (by rw [hra, toDense_shape]; exact hi) (by rw [toDense_shape]; exact hj),
    hra, toDense_shape]
  apply sum_map_congr
  intro c hc
  have hcr : InRange c (a.shape.drop (a.rank - k)) := (mem_allIdx _ _).1 hc
  have h1 : InRange (i ++ c) a.shape := by
    rw [← List.take_append_drop (a.rank - k) a.shape]
    exact (InRange_append hi.length_eq).2 ⟨hi, hcr⟩
  have h2 : InRange (c ++ j) b.shape := by
    rw [← List.take_append_drop k b.shape]
    have : b.shape.take k = a.shape.drop (a.rank - k) := by
      rw [shape_eq, shape_eq, ← List.map_take, ← List.map_drop, c5]
    rw [this]
    exact (InRange_append hcr.length_eq).2 ⟨hcr, hj⟩
  rw [toDense_get a _ h1, toDense_get b _ h2]

/-- the charge filter passes every pair of stored rows with equal contracted parts -/
theorem hok_of_chargeRule (a b : Arr α) (k : Nat) (h : DotHyp a b k) (hm : a.mods = b.mods)
    (hc : (List.zipWith Leg.testContractible (a.lcs.drop (a.rank - k)) (b.lcs.take k)).all id = true)
    (hca : a.ChargeRule) (hcb : b.ChargeRule) (hva : LegsValid a) (hvb : LegsValid b) :
    ∀ qa ∈ a.qdata, ∀ qb ∈ b.qdata, qa.drop (a.rank - k) = qb.take k →
      okPair a b k (qa.take (a.rank - k)) (qb.drop k) = true := by
  intro qa hqa qb hqb he
  unfold okPair
  rw [charge_match a b k h hm hc hca hcb hva hvb qa qb hqa hqb he]
  simp

/-- length of the labels of the result -/
theorem labels_len (a b r : Arr α) (k : Nat) (ha : W a) (hb : W b) (hka : k ≤ a.rank)
    (hlegs : r.legs = a.legs.take (a.rank - k) ++ b.legs.drop k)
    (hlab : r.labels = Label.dropDuplicate (a.labels.take (a.rank - k)) (b.labels.drop k)) :
    r.labels.length = r.rank := by
  rw [hlab, C01_labels_dropDuplicate_length, List.length_take, List.length_drop, ha.labLen, hb.labLen]
  simp only [Arr.rank, hlegs, List.length_append, List.length_take, List.length_drop]

/-- a tensor without blocks on the legs of the result is the contraction when one operand has no blocks -/
theorem noblock_case (a b r : Arr α) (k : Nat) (h : DotHyp a b k)
    (hnb : a.storedBlocks = 0 ∨ b.storedBlocks = 0)
    (hlegs : r.legs = a.legs.take (a.rank - k) ++ b.legs.drop k)
    (hq : r.qdata = []) (hd : r.data = []) (hlab : r.labels.length = r.rank) :
    r.toDense = Dense.tensordot a.toDense b.toDense k ∧ r.WF := by
  have hlcs := lcs_of_legs r (a.rank - k) hlegs
  constructor
  · apply toDense_of_entry a b r k h hlegs
    intro i j hi hj
    rw [Arr.entry_noBlocks r hq, dense_side a b k h i j hi hj]
    symm
    apply sum_map_zero
    intro rb hrb
    rcases hnb with h0 | h0
    · have hd0 : a.data = [] := List.length_eq_zero_iff.1 h0
      rw [hd0] at hrb
      simp at hrb
    · have hd0 : b.data = [] := List.length_eq_zero_iff.1 h0
      unfold term
      rw [hd0]
      simp
  · apply WF_of_parts r hlab (by simp [hq, hd]) (by rw [hq]; exact List.nodup_nil)
    · intro l hl
      rw [hlcs] at hl
      rcases List.mem_append.1 hl with h1 | h1
      · exact h.wa.shapes l (List.mem_of_mem_take h1)
      · exact h.wb.shapes l (List.mem_of_mem_drop h1)
    · intro q hqm; rw [hq] at hqm; simp at hqm
    · intro rb hrb; rw [hq] at hrb; simp at hrb
    · intro _; rw [hq]; decide

theorem single_of_length {β γ} (q : List β) (d : List γ) (hl : q.length = d.length) (h1 : d.length = 1) :
    ∃ x y, q = [x] ∧ d = [y] := by
  obtain ⟨y, hy⟩ := List.length_eq_one_iff.1 h1
  obtain ⟨x, hx⟩ := List.length_eq_one_iff.1 (hl.trans h1)
  exact ⟨x, y, hx, hy⟩

/-- `tensordot(a, b, axes=k)` whenever it returns a tensor (i.e. not a full contraction) -/
theorem tensordot_int (cy : Bool) (a b : Arr α) (ha : W a) (hb : W b)
    (hca : a.ChargeRule) (hcb : b.ChargeRule) (hva : LegsValid a) (hvb : LegsValid b)
    (k : Nat) (v : Val α) (h : Arr.tensordot cy a b (.int (k : Int)) = .ok v) (hnf : ¬(k = a.rank ∧ k = b.rank)) :
    ∃ r, v = .arr r ∧ r.toDense = Dense.tensordot a.toDense b.toDense k
      ∧ r.legs = a.legs.take (a.rank - k) ++ b.legs.drop k
      ∧ r.qtotal = makeValid a.mods (cadd a.qtotal b.qtotal)
      ∧ r.labels = Label.dropDuplicate (a.labels.take (a.rank - k)) (b.labels.drop k)
      ∧ r.WF := by
  unfold Arr.tensordot at h
  cases ht : Arr.tensordotTransposeAxes cy a b (.int (k : Int)) with
  | error e => rw [ht] at h; simp [bind, Except.bind] at h
  | ok t =>
    obtain ⟨a', b', k'⟩ := t
    obtain ⟨rfl, rfl, rfl, hm, hka, hkb, hc⟩ := tensordotTranspose_int cy a b a' b' k k' ht
    rw [ht] at h
    simp only [bind, Except.bind, pure, Except.pure] at h
    rw [if_neg hnf] at h
    have hD : DotHyp a' b' k' := ⟨ha, hb, hka, hkb, contracted_slices a' b' k' hka hkb hc⟩
    by_cases hnb : a'.storedBlocks = 0 ∨ b'.storedBlocks = 0
    · -- an operand without blocks
      rw [if_pos (Or.inl hnb)] at h
      cases hz : (Arr.zeros a'.mods (a'.legs.take (a'.rank - k') ++ b'.legs.drop k')
          (some (cadd a'.qtotal b'.qtotal)) none : Except Err (Arr α)) with
      | error e => rw [hz] at h; simp at h
      | ok res =>
        rw [hz] at h
        have hres := zeros_ok _ _ _ _ hz
        have hone : ¬ (a'.storedBlocks = 1 ∧ b'.storedBlocks = 1) := by
          rcases hnb with h0 | h0 <;> omega
        simp only [hone, false_and, if_false, Except.ok.injEq] at h
        refine ⟨_, h.symm, ?_, by rw [hres], by rw [hres]; rfl, rfl, ?_⟩
        · exact (noblock_case a' b' _ k' hD hnb (by rw [hres]) (by rw [hres]) (by rw [hres])
            (labels_len a' b' _ k' ha hb hka (by rw [hres]) rfl)).1
        · exact (noblock_case a' b' _ k' hD hnb (by rw [hres]) (by rw [hres]) (by rw [hres])
            (labels_len a' b' _ k' ha hb hka (by rw [hres]) rfl)).2
    · by_cases hone : a'.storedBlocks = 1 ∧ b'.storedBlocks = 1
      · -- the one-block shortcut
        rw [if_pos (Or.inr hone)] at h
        cases hz : (Arr.zeros a'.mods (a'.legs.take (a'.rank - k') ++ b'.legs.drop k')
            (some (cadd a'.qtotal b'.qtotal)) none : Except Err (Arr α)) with
        | error e => rw [hz] at h; simp at h
        | ok res =>
          rw [hz] at h
          have hres := zeros_ok _ _ _ _ hz
          obtain ⟨qa, A, hqa, hA⟩ := single_of_length a'.qdata a'.data ha.len hone.1
          obtain ⟨qb, B, hqb, hB⟩ := single_of_length b'.qdata b'.data hb.len hone.2
          simp only [hone, true_and, Except.ok.injEq, hqa, hqb, hA, hB, List.headD_cons] at h
          have hzA : a'.qdata.zip a'.data = [(qa, A)] := by rw [hqa, hA]; rfl
          have hzB : b'.qdata.zip b'.data = [(qb, B)] := by rw [hqb, hB]; rfl
          refine ⟨_, h.symm, ?_, ?_, ?_, rfl, ?_⟩
          · apply toDense_of_entry a' b' _ k' hD
            · split <;> rw [hres]
            · intro i j hi hj
              apply one_entry a' b' k' hD qa qb A B hzA hzB _ _ _ i j hi hj
              · split <;> rw [hres]
              · unfold oneRows
                split <;> simp [hres]
          · split <;> rw [hres]
          · split <;> rw [hres] <;> rfl
          · apply one_wf a' b' k' hD qa qb A B hzA hzB
            · split <;> rw [hres]
            · unfold oneRows
              split <;> simp [hres]
            · unfold oneRows
              split <;> simp [hres]
            · apply labels_len a' b' _ k' ha hb hka _ rfl
              split <;> rw [hres]
      · rw [if_neg (by rintro (h1 | h1); exact hnb h1; exact hone h1)] at h
        by_cases hk0 : k' = 0
        · -- `k = 0`: outer product
          rw [if_pos hk0] at h
          cases ho : a'.outer b' with
          | error e => rw [ho] at h; simp at h
          | ok r =>
            rw [ho] at h
            simp only [Except.ok.injEq] at h
            obtain ⟨h1, _, h3, h4, _⟩ := outer_ok a' b' r ho
            subst hk0
            refine ⟨r, h.symm, outer_toDense a' b' r ha hb ho, ?_, h3, ?_, outer_WF a' b' r ha hb ho⟩
            · rw [h1, Nat.sub_zero, List.drop_zero, List.take_of_length_le (by simp [Arr.rank])]
            · rw [h4, Nat.sub_zero, List.drop_zero, List.take_of_length_le (Nat.le_of_eq ha.labLen)]
        · -- `_tensordot_worker`
          rw [if_neg hk0] at h
          cases hw : Arr.tensordotWorker a' b' k' with
          | error e => rw [hw] at h; simp at h
          | ok res =>
            rw [hw] at h
            simp only [Except.ok.injEq] at h
            obtain ⟨_, w2, w3, w4, w5⟩ := worker_spec a' b' res k' hw
            have c := ctx_of a' b' k' hD
            have hok := hok_of_chargeRule a' b' k' hD hm hc hca hcb hva hvb
            refine ⟨_, h.symm, ?_, w2, w3, rfl, ?_⟩
            · exact toDense_of_entry a' b' _ k' hD w2 (fun i j hi hj => c.entry hok _ w2 w4 w5 i j hi hj)
            · exact c.wf _ w2 w4 w5 (labels_len a' b' _ k' ha hb hka w2 rfl)

end final
end TenpyModel.C01B2

namespace TenpyModel.C01B2
open TenpyModel.Core TenpyModel.C01B

variable {α : Type}

/-- `zeros` succeeds for a non-empty list of legs over the right `chinfo` -/
theorem zeros_isOk (mods : List Nat) (legs : List ALeg) (qt : Option Charge)
    (h1 : legs.isEmpty = false) (h2 : legs.any (fun l => l.leg.mods ≠ mods) = false) :
    ∃ res : Arr α, Arr.zeros mods legs qt none = .ok res := by
  unfold Arr.zeros
  rw [if_neg (by simp [h1]), if_neg (by rw [h2]; exact Bool.false_ne_true)]
  exact ⟨_, rfl⟩

/-- `tensordot(a, b, k)` returns a tensor as soon as the argument checks pass, the contraction is not full and the
legs of the result are legs over `chinfo` (non-vacuity of `tensordot_int`: the call does return `.ok`) -/
theorem tensordot_int_isOk [CommSemiring α] (cy : Bool) (a b : Arr α) (k : Nat)
    (ht : Arr.tensordotTransposeAxes cy a b (.int (k : Int)) = .ok (a, b, k)) (hnf : ¬(k = a.rank ∧ k = b.rank))
    (h1 : (a.legs.take (a.rank - k) ++ b.legs.drop k).isEmpty = false)
    (h2 : (a.legs.take (a.rank - k) ++ b.legs.drop k).any (fun l => l.leg.mods ≠ a.mods) = false) :
    ∃ r, Arr.tensordot cy a b (.int (k : Int)) = .ok (.arr r) := by
  obtain ⟨_, _, _, hm, hka, hkb, hc⟩ := tensordotTranspose_int cy a b a b k k ht
  unfold Arr.tensordot
  rw [ht]
  simp only [bind, Except.bind, pure, Except.pure]
  rw [if_neg hnf]
  split
  · obtain ⟨res, hz⟩ := zeros_isOk (α := α) a.mods _ (some (cadd a.qtotal b.qtotal)) h1 h2
    rw [hz]
    exact ⟨_, rfl⟩
  · split
    · rename_i hk0
      subst hk0
      have e : a.legs.take (a.rank - 0) ++ b.legs.drop 0 = a.legs ++ b.legs := by
        rw [Nat.sub_zero, List.drop_zero, List.take_of_length_le (by simp [Arr.rank])]
      rw [e] at h1 h2
      obtain ⟨res, hz⟩ := zeros_isOk (α := α) a.mods _ (some (cadd a.qtotal b.qtotal)) h1 h2
      unfold Arr.outer
      simp only [bind, Except.bind, pure, Except.pure]
      rw [if_neg (by simpa using hm), hz]
      exact ⟨_, rfl⟩
    · obtain ⟨res, hz⟩ := zeros_isOk (α := α) a.mods _ (some (makeValid a.mods (cadd a.qtotal b.qtotal))) h1 h2
      have : ∃ r', Arr.tensordotWorker a b k = .ok r' := by
        rw [worker_def a b res k hz]
        split <;> exact ⟨_, rfl⟩
      obtain ⟨r', hr'⟩ := this
      rw [hr']
      exact ⟨_, rfl⟩

end TenpyModel.C01B2
