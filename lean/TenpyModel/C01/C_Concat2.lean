import TenpyModel.C01.C_Concat1
/-!
C01 part C — `concatenate`, step 2: the model function in closed form. The compatibility loop succeeds iff every
operand passes the four checks (`Compat`); the result is `catRes`: the first operand with leg `k` replaced by `catLeg`
and the block lists of the operands appended, the block index on axis `k` shifted by the number of blocks before.
-/
namespace TenpyModel.C01C.Cat
open TenpyModel.Core

variable {α : Type}

/-- the axes other than the stacking axis -/
def notAxis (first : Arr α) (k : Nat) : List Nat := (List.range first.rank).filter (· ≠ k)

/-- the checks of the compatibility loop of `concatenate` for one operand -/
def Compat (first : Arr α) (k : Nat) (a : Arr α) : Prop :=
  (a.shape.take k = first.shape.take k ∧ a.shape.drop (k + 1) = first.shape.drop (k + 1))
  ∧ a.mods = first.mods ∧ a.qtotal = first.qtotal
  ∧ Arr.legsEqual (pick a.lcs (notAxis first k) default) (pick first.lcs (notAxis first k) default) = true

instance (first : Arr α) (k : Nat) (a : Arr α) : Decidable (Compat first k a) := by
  unfold Compat; infer_instance

/-- a loop whose body only checks a condition -/
theorem forIn_check {β} (l : List β) (body : β → PUnit → Except Err (ForInStep PUnit)) (P : β → Prop)
    [DecidablePred P] (hb : ∀ a u, body a u = if P a then .ok (.yield ⟨⟩) else .error .valueError) :
    forIn l PUnit.unit body = if ∀ a ∈ l, P a then (.ok ⟨⟩ : Except Err PUnit) else .error .valueError := by
  induction l with
  | nil => simp [pure, Except.pure]
  | cons a l ih =>
    rw [List.forIn_cons, hb]
    by_cases hp : P a
    · simp only [hp, if_true, bind, Except.bind, ih, List.mem_cons, forall_eq_or_imp, true_and]
    · simp only [hp, if_false, bind, Except.bind, List.mem_cons, forall_eq_or_imp, false_and]

/-- block-index shifts: number of blocks on the axis in the operands before -/
def catShifts : Nat → List Nat → List Nat
  | _, [] => []
  | s, n :: ns => s :: catShifts (s + n) ns

theorem foldl_shifts (ns : List Nat) (acc : List Nat) (s : Nat) :
    (ns.foldl (fun (acc : List Nat × Nat) n => (acc.1 ++ [acc.2], acc.2 + n)) (acc, s)).1 = acc ++ catShifts s ns := by
  induction ns generalizing acc s with
  | nil => simp [catShifts]
  | cons n ns ih =>
    rw [List.foldl_cons, ih]
    simp [catShifts]

/-- a stored row of an operand, re-indexed for the result -/
def shiftRow (k s : Nat) (r : List Nat) : List Nat := r.set k (r.getD k 0 + s)

/-- rows of the result -/
def catQ (k : Nat) : Nat → List (Arr α) → List (List Nat)
  | _, [] => []
  | s, a :: rest => a.qdata.map (shiftRow k s) ++ catQ k (s + (a.lc k).blockNumber) rest

/-- (row, block) pairs of the result -/
def catRows (k : Nat) : Nat → List (Arr α) → List (List Nat × Blk α)
  | _, [] => []
  | s, a :: rest => (a.qdata.zip a.data).map (fun rb => (shiftRow k s rb.1, rb.2))
      ++ catRows k (s + (a.lc k).blockNumber) rest

theorem catQ_eq (k s : Nat) (arrays : List (Arr α)) :
    (arrays.zip (catShifts s (arrays.map (fun a => (a.lc k).blockNumber)))).flatMap
        (fun as => as.1.qdata.map (fun r => r.set k (r.getD k 0 + as.2))) = catQ k s arrays := by
  induction arrays generalizing s with
  | nil => rfl
  | cons a rest ih =>
    simp only [List.map_cons, catShifts, List.zip_cons_cons, List.flatMap_cons, catQ, ih]
    rfl

theorem catRows_zip (k s : Nat) (arrays : List (Arr α)) (hl : ∀ a ∈ arrays, a.qdata.length = a.data.length) :
    (catQ k s arrays).zip (arrays.flatMap (·.data)) = catRows k s arrays := by
  induction arrays generalizing s with
  | nil => rfl
  | cons a rest ih =>
    simp only [catQ, catRows, List.flatMap_cons]
    rw [List.zip_append (by rw [List.length_map]; exact hl a (by simp)),
      ih _ (fun b hb => hl b (by simp [hb])), List.zip_map_left]
    rfl

/-- the result of `concatenate` once the checks have passed -/
def catRes (first : Arr α) (rest : List (Arr α)) (k : Nat) : Arr α :=
  { first with
    legs := first.legs.set k (.plain (catLeg first.mods (first.lc k).qconj ((first :: rest).map (·.lc k)))),
    qdata := catQ k 0 (first :: rest), data := (first :: rest).flatMap (·.data), qdataSorted := false }

theorem concatenate_nil (axis : Ax) : Arr.concatenate ([] : List (Arr α)) axis = .error .indexError := rfl

/-- **`concatenate` in closed form** -/
theorem concatenate_eq (first : Arr α) (rest : List (Arr α)) (axis : Ax) :
    Arr.concatenate (first :: rest) axis =
      match first.getLegIndex axis with
      | .error e => .error e
      | .ok k => if ∀ a ∈ first :: rest, Compat first k a then .ok (catRes first rest k) else .error .valueError := by
  unfold Arr.concatenate
  simp only [bind, Except.bind, pure, Except.pure, throw, throwThe, MonadExceptOf.throw]
  cases hk : first.getLegIndex axis with
  | error e => rfl
  | ok k =>
    simp only
    rw [forIn_check _ _ (Compat first k) (fun a u => ?_)]
    · by_cases hall : ∀ a ∈ first :: rest, Compat first k a
      · rw [if_pos hall, if_pos hall]
        simp only [Except.ok.injEq]
        unfold catRes
        congr 1
        · congr 2
          unfold catLeg
          rw [List.flatMap_map, List.flatMap_map]
          rfl
        · rw [foldl_shifts, List.nil_append]
          exact catQ_eq k 0 (first :: rest)
      · rw [if_neg hall, if_neg hall]
    · have hor : ∀ (p q : Prop), ¬ (¬ p ∨ ¬ q) ↔ (p ∧ q) := fun p q => by
        constructor
        · intro h
          exact ⟨Classical.byContradiction (fun hp => h (Or.inl hp)), Classical.byContradiction (fun hq => h (Or.inr hq))⟩
        · rintro ⟨hp, hq⟩ (h | h)
          · exact h hp
          · exact h hq
      by_cases hc : Compat first k a
      · rw [if_pos hc]
        obtain ⟨h1, h2, h3, h4⟩ := hc
        unfold notAxis at h4
        rw [if_neg ((hor _ _).2 h1), if_neg (not_not.2 h2), if_neg (not_not.2 h3), if_neg (by rw [h4]; simp)]
      · rw [if_neg hc]
        by_cases h1 : a.shape.take k = first.shape.take k ∧ a.shape.drop (k + 1) = first.shape.drop (k + 1)
        · rw [if_neg ((hor _ _).2 h1)]
          by_cases h2 : a.mods = first.mods
          · rw [if_neg (not_not.2 h2)]
            by_cases h3 : a.qtotal = first.qtotal
            · rw [if_neg (not_not.2 h3)]
              by_cases h4 : Arr.legsEqual (pick a.lcs (notAxis first k) default)
                  (pick first.lcs (notAxis first k) default) = true
              · exact absurd ⟨h1, h2, h3, h4⟩ hc
              · unfold notAxis at h4
                rw [if_pos (by rw [Bool.not_eq_true']; exact Bool.eq_false_iff.2 h4)]
            · rw [if_pos h3]
          · rw [if_pos h2]
        · rw [if_pos (Classical.byContradiction (fun hn => h1 ((hor _ _).1 hn)))]

/-- what `.ok r` means -/
theorem concatenate_ok (first : Arr α) (rest : List (Arr α)) (axis : Ax) (r : Arr α)
    (h : Arr.concatenate (first :: rest) axis = .ok r) :
    ∃ k, first.getLegIndex axis = .ok k ∧ (∀ a ∈ first :: rest, Compat first k a) ∧ r = catRes first rest k := by
  rw [concatenate_eq] at h
  cases hk : first.getLegIndex axis with
  | error e => rw [hk] at h; simp at h
  | ok k =>
    rw [hk] at h
    simp only at h
    by_cases hall : ∀ a ∈ first :: rest, Compat first k a
    · rw [if_pos hall] at h
      exact ⟨k, rfl, hall, (Except.ok.inj h).symm⟩
    · rw [if_neg hall] at h
      simp at h

/-- the resolved axis is a leg of the first operand -/
theorem getLegIndex_lt (a : Arr α) (hl : a.labels.length = a.rank) (axis : Ax) (k : Nat)
    (h : a.getLegIndex axis = .ok k) : k < a.rank := by
  cases axis with
  | lbl s =>
    simp only [Arr.getLegIndex] at h
    split at h
    · rename_i hlt
      injection h with h
      omega
    · simp at h
  | idx i =>
    simp only [Arr.getLegIndex] at h
    by_cases hneg : i < 0
    · simp only [hneg, if_true] at h
      split at h
      · simp at h
      · injection h with h
        omega
    · simp only [hneg, if_false] at h
      split at h
      · simp at h
      · injection h with h
        omega

end TenpyModel.C01C.Cat
