import TenpyModel.Core.ArrWF
import TenpyModel.C06.LegProofs
import TenpyModel.C01.SortProofs
import TenpyModel.C01.A_Dense
/-!
C01 part A — entries of a block-sparse tensor: `(qindex, within)` decomposition of a flat index (`Leg.locate`),
`Arr.entry` as a look-up, and the generic lemma `Arr.entry_rowmap` for operations that filter / relabel the stored
rows and transform the blocks one by one.
-/
namespace TenpyModel.Core

theorem Leg.ShapeOK.shape {l : Leg} (h : l.ShapeOK) : l.Shape := ⟨h.1, h.2.1, h.2.2⟩

theorem A_takeWhile_le_spec (s : List Nat) (x : Nat) :
    (∀ i, i < (s.takeWhile (fun v => v ≤ x)).length → s.getD i 0 ≤ x) ∧
      ((s.takeWhile (fun v => v ≤ x)).length < s.length →
        x < s.getD (s.takeWhile (fun v => v ≤ x)).length 0) ∧
      (s.takeWhile (fun v => v ≤ x)).length ≤ s.length := by
  induction s with
  | nil => simp
  | cons a s ih =>
    by_cases ha : a ≤ x
    · rw [List.takeWhile_cons_of_pos (by simpa using ha)]
      refine ⟨?_, ?_, ?_⟩
      · intro i hi
        cases i with
        | zero => simpa using ha
        | succ i => simpa using ih.1 i (by simpa using hi)
      · intro h; simpa using ih.2.1 (by simpa using h)
      · simpa using ih.2.2
    · rw [List.takeWhile_cons_of_neg (by simpa using ha)]
      refine ⟨by intro i hi; simp at hi, fun _ => by simpa using Nat.lt_of_not_le ha, by simp⟩

namespace Leg

/-- `locate` finds the block containing a flat index and the offset inside it -/
theorem locate_ok {l : Leg} (h : l.Shape) (x : Nat) (hx : x < l.indLen) :
    (l.locate x).1 < l.blockNumber ∧ l.slices.getD (l.locate x).1 0 ≤ x ∧
      x < l.slices.getD ((l.locate x).1 + 1) 0 ∧ l.slices.getD (l.locate x).1 0 + (l.locate x).2 = x := by
  obtain ⟨t1, t2, t3⟩ := A_takeWhile_le_spec l.slices x
  have ht : bisectRight l.slices x = (l.slices.takeWhile (fun v => v ≤ x)).length := by
    unfold bisectRight; simp
  have hpos : 1 ≤ bisectRight l.slices x := by
    rcases Nat.eq_zero_or_pos (bisectRight l.slices x) with h0 | h0
    · have := t2 (by rw [← ht, h0, h.len]; omega)
      rw [← ht, h0, h.slices_zero] at this
      omega
    · exact h0
  have hle : bisectRight l.slices x ≤ l.blockNumber := by
    rcases Nat.lt_or_ge l.blockNumber (bisectRight l.slices x) with hgt | hle
    · have := t1 l.blockNumber (by rw [← ht]; exact hgt)
      rw [← h.indLen_eq_getD] at this
      omega
    · exact hle
  have e : bisectRight l.slices x - 1 + 1 = bisectRight l.slices x := by omega
  have a1 := t1 (bisectRight l.slices x - 1) (by rw [← ht]; omega)
  have a2 := t2 (by rw [← ht, h.len]; unfold blockNumber at hle; omega)
  rw [← ht] at a2
  unfold locate
  simp only
  rw [e]
  exact ⟨by omega, a1, a2, by omega⟩

theorem locate_within {l : Leg} (h : l.Shape) (x : Nat) (hx : x < l.indLen) :
    (l.locate x).2 < l.blockSizes.getD (l.locate x).1 0 := by
  obtain ⟨h1, h2, h3, h4⟩ := locate_ok h x hx
  have := h.slices_succ _ h1
  omega

/-- the block containing a flat index is unique -/
theorem locate_unique {l : Leg} (h : l.Shape) (q x : Nat) (hq : q < l.blockNumber) (h1 : l.slices.getD q 0 ≤ x)
    (h2 : x < l.slices.getD (q + 1) 0) : l.locate x = (q, x - l.slices.getD q 0) := by
  have hlen : l.slices.length = l.blockNumber + 1 := h.len
  have hx : x < l.indLen := by
    rw [h.indLen_eq_getD]
    have := mono_getD l.slices h.mono (q + 1) l.blockNumber (by omega) (by omega)
    omega
  obtain ⟨a1, a2, a3, a4⟩ := locate_ok h x hx
  have hq0 : (l.locate x).1 = q := by
    rcases Nat.lt_trichotomy (l.locate x).1 q with hlt | heq | hgt
    · have := mono_getD l.slices h.mono ((l.locate x).1 + 1) q (by omega) (by omega)
      omega
    · exact heq
    · have := mono_getD l.slices h.mono (q + 1) (l.locate x).1 (by omega) (by omega)
      omega
  have h2' : (l.locate x).2 = x - l.slices.getD q 0 := by rw [hq0] at a4; omega
  exact Prod.ext hq0 h2'

theorem locate_block {l : Leg} (h : l.Shape) (q w : Nat) (hq : q < l.blockNumber) (hw : w < l.blockSizes.getD q 0) :
    l.locate (l.slices.getD q 0 + w) = (q, w) := by
  have := h.slices_succ q hq
  rw [locate_unique h q _ hq (by omega) (by omega)]
  congr 1
  omega

end Leg

theorem getD_zipWith' {β γ δ} (f : β → γ → δ) (xs : List β) (ys : List γ) (k : Nat) (dx : β) (dy : γ) (d : δ)
    (h1 : k < xs.length) (h2 : k < ys.length) :
    (List.zipWith f xs ys).getD k d = f (xs.getD k dx) (ys.getD k dy) := by
  simp [List.getD_eq_getElem?_getD, List.getElem?_zipWith, h1, h2]

/-- look-up in a list of keyed blocks after filtering the rows by `P`, relabelling them by `φ` (injective on the
kept rows) and transforming the blocks by `g` -/
theorem find?_filterMap_key {β β' : Type} (l : List (List Nat × β)) (P : List Nat → Bool)
    (φ : List Nat → List Nat) (g : List Nat → β → β') (q : List Nat) (hP : P q = true)
    (hinj : ∀ rb ∈ l, P rb.1 = true → φ rb.1 = φ q → rb.1 = q) :
    (l.filterMap (fun rb => if P rb.1 then some (φ rb.1, g rb.1 rb.2) else none)).find? (fun x => x.1 == φ q)
      = (l.find? (fun x => x.1 == q)).map (fun rb => (φ rb.1, g rb.1 rb.2)) := by
  induction l with
  | nil => rfl
  | cons rb rest ih =>
    have ih' := ih (fun x hx => hinj x (List.mem_cons_of_mem _ hx))
    by_cases hp : P rb.1 = true
    · rw [List.filterMap_cons_some (b := (φ rb.1, g rb.1 rb.2)) (by simp [hp])]
      simp only [List.find?_cons]
      by_cases hq : rb.1 = q
      · simp [hq]
      · have hne : ¬ φ rb.1 = φ q := fun e => hq (hinj rb (List.mem_cons_self ..) hp e)
        have b1 : (rb.1 == q) = false := beq_eq_false_iff_ne.2 hq
        have b2 : (φ rb.1 == φ q) = false := beq_eq_false_iff_ne.2 hne
        rw [b1, b2]
        exact ih'
    · rw [List.filterMap_cons_none (by simp [hp])]
      have hq : ¬ rb.1 = q := fun e => hp (e ▸ hP)
      simp [hq, ih']

theorem zip_map_eq_filterMap {β β' : Type} (qd : List (List Nat)) (dt : List β) (φ : List Nat → List Nat)
    (g : List Nat → β → β') :
    (qd.map φ).zip (List.zipWith g qd dt)
      = (qd.zip dt).filterMap (fun rb => if (fun _ => true) rb.1 then some (φ rb.1, g rb.1 rb.2) else none) := by
  induction qd generalizing dt with
  | nil => simp
  | cons r rs ih =>
    cases dt with
    | nil => simp
    | cons b bs => simp [ih bs]

theorem zipWith_const_left {β γ δ : Type} (g : γ → δ) (qd : List β) (dt : List γ) (h : qd.length = dt.length) :
    List.zipWith (fun _ b => g b) qd dt = dt.map g := by
  induction qd generalizing dt with
  | nil => cases dt with
    | nil => rfl
    | cons _ _ => simp at h
  | cons r rs ih =>
    cases dt with
    | nil => simp at h
    | cons b bs => simp [ih bs (by simpa using h)]

namespace Arr
variable {α : Type}

/-- block indices of a multi-index -/
def qidx (lcs : List Leg) (idx : List Nat) : List Nat := List.zipWith (fun l i => (l.locate i).1) lcs idx
/-- offsets inside the block -/
def widx (lcs : List Leg) (idx : List Nat) : List Nat := List.zipWith (fun l i => (l.locate i).2) lcs idx

theorem entry_eq [Zero α] (a : Arr α) (idx : List Nat) :
    a.entry idx = match (a.qdata.zip a.data).reverse.find? (fun rb => rb.1 == qidx a.lcs idx) with
      | none => 0
      | some rb => rb.2.get 0 (widx a.lcs idx) := by
  unfold entry qidx widx
  simp only [List.map_zipWith]
  cases (a.qdata.zip a.data).reverse.find? _ with
  | none => rfl
  | some rb => rfl

theorem qidx_cons (l : Leg) (ls : List Leg) (i : Nat) (t : List Nat) :
    qidx (l :: ls) (i :: t) = (l.locate i).1 :: qidx ls t := rfl
theorem widx_cons (l : Leg) (ls : List Leg) (i : Nat) (t : List Nat) :
    widx (l :: ls) (i :: t) = (l.locate i).2 :: widx ls t := rfl

theorem blockShapeOf_cons (l : Leg) (ls : List Leg) (q : Nat) (qs : List Nat) :
    blockShapeOf (l :: ls) (q :: qs) = l.blockSizes.getD q 0 :: blockShapeOf ls qs := rfl

/-- for an index in range, the block indices are in range and the offsets lie inside the block -/
theorem qw_inRange (lcs : List Leg) (hl : ∀ l ∈ lcs, l.ShapeOK) (idx : List Nat)
    (h : InRange idx (lcs.map Leg.indLen)) :
    InRange (qidx lcs idx) (lcs.map Leg.blockNumber) ∧ InRange (widx lcs idx) (blockShapeOf lcs (qidx lcs idx)) := by
  induction lcs generalizing idx with
  | nil => cases idx with
    | nil => exact ⟨trivial, trivial⟩
    | cons _ _ => exact h.elim
  | cons l ls ih =>
    cases idx with
    | nil => exact h.elim
    | cons i t =>
      have hs := (hl l (by simp)).shape
      obtain ⟨h1, h2⟩ := ih (fun m hm => hl m (by simp [hm])) t h.2
      rw [qidx_cons, widx_cons, List.map_cons, blockShapeOf_cons]
      exact ⟨⟨(Leg.locate_ok hs i h.1).1, h1⟩, ⟨Leg.locate_within hs i h.1, h2⟩⟩

theorem qidx_length (lcs : List Leg) (idx : List Nat) (h : idx.length = lcs.length) :
    (qidx lcs idx).length = lcs.length := by simp [qidx, h]
theorem widx_length (lcs : List Leg) (idx : List Nat) (h : idx.length = lcs.length) :
    (widx lcs idx).length = lcs.length := by simp [widx, h]

theorem qidx_getD (lcs : List Leg) (idx : List Nat) (k : Nat) (h1 : k < lcs.length) (h2 : k < idx.length) :
    (qidx lcs idx).getD k 0 = ((lcs.getD k default).locate (idx.getD k 0)).1 :=
  getD_zipWith' _ lcs idx k default 0 0 h1 h2
theorem widx_getD (lcs : List Leg) (idx : List Nat) (k : Nat) (h1 : k < lcs.length) (h2 : k < idx.length) :
    (widx lcs idx).getD k 0 = ((lcs.getD k default).locate (idx.getD k 0)).2 :=
  getD_zipWith' _ lcs idx k default 0 0 h1 h2

theorem shape_length (a : Arr α) : a.shape.length = a.rank := by simp [shape, lcs, rank]
theorem lcs_length (a : Arr α) : a.lcs.length = a.rank := by simp [lcs, rank]

theorem lc_eq (a : Arr α) (k : Nat) (hk : k < a.rank) : a.lcs.getD k default = a.lc k := by
  unfold lc lcs
  rw [getD_map' ALeg.leg a.legs k default default hk]

/-- **entries under a row-wise transformation of the block list.** If the stored (row, block) pairs of `a'` are
those of `a` with `P row`, relabelled by `φ` and transformed by `g`, and the multi-indices `idx'` / `idx` point to
corresponding blocks and offsets, then `a'[idx'] = F a[idx]`. -/
theorem entry_rowmap [Zero α] (a a' : Arr α) (P : List Nat → Bool) (φ : List Nat → List Nat)
    (g : List Nat → Blk α → Blk α) (F : α → α) (hF : F 0 = 0)
    (hzip : a'.qdata.zip a'.data
      = (a.qdata.zip a.data).filterMap (fun rb => if P rb.1 then some (φ rb.1, g rb.1 rb.2) else none))
    (idx idx' : List Nat) (hP : P (qidx a.lcs idx) = true)
    (hq : qidx a'.lcs idx' = φ (qidx a.lcs idx))
    (hinj : ∀ r ∈ a.qdata, P r = true → φ r = φ (qidx a.lcs idx) → r = qidx a.lcs idx)
    (hblk : ∀ b, (qidx a.lcs idx, b) ∈ a.qdata.zip a.data →
      (g (qidx a.lcs idx) b).get 0 (widx a'.lcs idx') = F (b.get 0 (widx a.lcs idx))) :
    a'.entry idx' = F (a.entry idx) := by
  rw [entry_eq, entry_eq, hzip, ← List.filterMap_reverse, hq,
    find?_filterMap_key _ P φ g _ hP (fun rb hrb => hinj rb.1 (List.of_mem_zip (List.mem_reverse.1 hrb)).1)]
  cases hfind : (a.qdata.zip a.data).reverse.find? (fun rb => rb.1 == qidx a.lcs idx) with
  | none => simp [hF]
  | some rb =>
    simp only [Option.map_some]
    have hmem : rb ∈ a.qdata.zip a.data := List.mem_reverse.1 (List.mem_of_find?_eq_some hfind)
    have hkey : rb.1 = qidx a.lcs idx := by
      have := List.find?_some hfind
      exact eq_of_beq this
    have hmem' : (qidx a.lcs idx, rb.2) ∈ a.qdata.zip a.data := by rw [← hkey]; exact hmem
    rw [hkey]
    exact hblk rb.2 hmem'

/-- the special case where all rows are kept -/
theorem entry_rowmap_all [Zero α] (a a' : Arr α) (φ : List Nat → List Nat)
    (g : List Nat → Blk α → Blk α) (F : α → α) (hF : F 0 = 0)
    (hqd : a'.qdata = a.qdata.map φ) (hdt : a'.data = List.zipWith g a.qdata a.data)
    (idx idx' : List Nat)
    (hq : qidx a'.lcs idx' = φ (qidx a.lcs idx))
    (hinj : ∀ r ∈ a.qdata, φ r = φ (qidx a.lcs idx) → r = qidx a.lcs idx)
    (hblk : ∀ b, (qidx a.lcs idx, b) ∈ a.qdata.zip a.data →
      (g (qidx a.lcs idx) b).get 0 (widx a'.lcs idx') = F (b.get 0 (widx a.lcs idx))) :
    a'.entry idx' = F (a.entry idx) :=
  entry_rowmap a a' (fun _ => true) φ g F hF (by rw [hqd, hdt]; exact zip_map_eq_filterMap _ _ _ _) idx idx' rfl hq
    (fun r hr _ => hinj r hr) hblk

/-- what `WF` says about a stored block -/
theorem WF.block {a : Arr α} (h : a.WF) (r : List Nat) (b : Blk α) (hm : (r, b) ∈ a.qdata.zip a.data) :
    b.shape = blockShapeOf a.lcs r ∧ b.vals.length = Dense.prod b.shape ∧ r.length = a.rank
      ∧ ∀ k, k < a.rank → r.getD k 0 < (a.lc k).blockNumber := by
  obtain ⟨_, _, _, _, hrows, hblk, _⟩ := h
  have h1 := hblk (r, b) hm
  have h2 := hrows r (List.of_mem_zip hm).1
  exact ⟨h1.1, h1.2, h2.1, h2.2⟩

theorem WF.legs_ok {a : Arr α} (h : a.WF) : ∀ l ∈ a.lcs, l.ShapeOK := h.2.2.2.1

end Arr
end TenpyModel.Core
