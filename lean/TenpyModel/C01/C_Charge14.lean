import TenpyModel.C01.C_Charge10
/-!
C01 part C — closure under part A's operations, file 5: `permute` (the new leg `from_qflat(qflat[perm]).bunch()` gives
every permuted index the charge of its source index).
-/
namespace TenpyModel.C01C
open TenpyModel.Core TenpyModel.C01B TenpyModel.C01B2

variable {α : Type}

/-- the charge of the block containing a flat index is the entry of `to_qflat()` -/
theorem toQflat_locate {l : Leg} (h : l.Shape) (x : Nat) (hx : x < l.indLen) :
    l.toQflat.getD x [] = l.charges.getD (l.locate x).1 [] := by
  obtain ⟨h1, h2, h3, _⟩ := locate_spec h x hx
  exact h.toQflat_getD _ x h1 h2 h3

theorem bunch_qconj_mods (l : Leg) : l.bunch.2.qconj = l.qconj ∧ l.bunch.2.mods = l.mods := by
  rw [Leg.bunch_eq]; split <;> exact ⟨rfl, rfl⟩

theorem bunch_charges_sub {l : Leg} (hc : l.CL0) : ∀ c ∈ l.bunch.2.charges, c ∈ l.charges := by
  rw [Leg.bunch_eq]
  split
  · exact fun c h => h
  · exact fun c h => (Leg.bunchCore_charges_sublist hc).subset h

theorem fromQflat_toQflat_getD (mods : List Nat) (qflat : List Charge) (qc : Int) (j : Nat) (hj : j < qflat.length) :
    (Leg.fromQflat mods qflat qc).toQflat.getD j [] = qflat.getD j [] := by
  have hs := Leg.fromQflat_shape_pm mods qflat qc
  have hsl : ∀ i, i ≤ qflat.length → (Leg.fromQflat mods qflat qc).slices.getD i 0 = i := by
    intro i hi
    show (List.range (qflat.length + 1)).getD i 0 = i
    exact getD_range _ _ (by omega)
  exact hs.toQflat_getD j j hj (by rw [hsl j (by omega)]) (by rw [hsl (j + 1) (by omega)]; omega)

/-- **the new leg of `permute`**: the block containing the new position of the old index `iold` carries the charge of
the old block containing `iold` -/
theorem permNewLeg_charge (a : Arr α) (k : Nat) (perm : List Nat) (hs : (a.lc k).Shape)
    (hperm : perm.Perm (List.range (a.lc k).indLen)) (hcl : a.mods.length = 0 → ∀ c ∈ (a.lc k).charges, c = [])
    (iold : Nat) (hi : iold < (a.lc k).indLen) :
    (Arr.permNewLeg a k perm).charges.getD ((Arr.permNewLeg a k perm).locate ((inversePerm perm).getD iold 0)).1 []
      = (a.lc k).charges.getD ((a.lc k).locate iold).1 [] := by
  have hlen : perm.length = (a.lc k).indLen := by simpa using hperm.length_eq
  have hperm' : perm.Perm (List.range perm.length) := by rw [hlen]; exact hperm
  have hcl0 : (Leg.fromQflat a.mods (pick (a.lc k).toQflat perm []) (a.lc k).qconj).CL0 := by
    intro h0 c hc
    obtain ⟨i, _, rfl⟩ := List.mem_map.1 hc
    by_cases hi' : i < (a.lc k).toQflat.length
    · exact hcl h0 _ (mem_expand_pm _ _ _ (getD_mem _ _ _ hi'))
    · exact getD_ge _ _ _ (by omega)
  have hsq := Leg.fromQflat_shape_pm a.mods (pick (a.lc k).toQflat perm []) (a.lc k).qconj
  obtain ⟨hs', hind'⟩ := Leg.fromQflat_bunch_pm a.mods (pick (a.lc k).toQflat perm []) (a.lc k).qconj hcl0
  have hpl : (pick (a.lc k).toQflat perm []).length = perm.length := by simp [pick]
  rw [hpl] at hind'
  obtain ⟨j1, j2⟩ := inversePerm_spec perm hperm' iold (by rw [hlen]; exact hi)
  unfold Arr.permNewLeg
  rw [← toQflat_locate hs' _ (by rw [hind']; exact j1), Leg.bunch_toQflat hsq hcl0,
    fromQflat_toQflat_getD _ _ _ _ (by rw [hpl]; exact j1), Dense.pick_getD_sl _ _ _ _ j1, j2,
    toQflat_locate hs iold hi]

/-- the keys of the dictionary of the write loop are rows of the writes -/
theorem permStep_keys [Zero α] (lcs' : List Leg) (k : Nat) (T : List (Arr.PTriple α)) :
    ∀ (acc : List (List Nat × Blk α)), ∀ rb ∈ T.foldl (Arr.permStep lcs' k) acc,
      rb.1 ∈ acc.map (·.1) ∨ ∃ t ∈ T, t.1 = rb.1 := by
  induction T with
  | nil => intro acc rb h; exact Or.inl (List.mem_map.2 ⟨rb, h, rfl⟩)
  | cons t T ih =>
    intro acc rb h
    rw [List.foldl_cons] at h
    rcases ih _ rb h with h1 | ⟨t', ht', e⟩
    · obtain ⟨rb', hrb', e⟩ := List.mem_map.1 h1
      unfold Arr.permStep at hrb'
      obtain ⟨x, hx, hxe⟩ := List.mem_map.1 hrb'
      have hfst : rb'.1 = x.1 := by
        rw [← hxe]; split <;> rfl
      split at hx
      · exact Or.inl (List.mem_map.2 ⟨x, hx, by rw [← e, hfst]⟩)
      · rcases List.mem_append.1 hx with h2 | h2
        · exact Or.inl (List.mem_map.2 ⟨x, h2, by rw [← e, hfst]⟩)
        · simp only [List.mem_singleton] at h2
          exact Or.inr ⟨t, by simp, by rw [← e, hfst, h2]⟩
    · exact Or.inr ⟨t', by simp [ht'], e⟩

/-- **`permute(perm, axis)`** (hypotheses as in `C01_toDense_permute`) -/
theorem chargeRule_permute [Zero α] (a r : Arr α) (ha : a.WF) (hc : a.ChargeRule) (hv : LegsValid a)
    (perm : List Nat) (axis : Ax) (k : Nat) (hk : a.getLegIndex axis = .ok k)
    (hperm : perm.Perm (List.range (a.lc k).indLen)) (hcl : a.mods.length = 0 → ∀ c ∈ (a.lc k).charges, c = [])
    (h : a.permute perm axis = .ok r) : r.ChargeRule ∧ LegsValid r := by
  have hk' : k < a.rank := Arr.getLegIndex_lt_pj a ha.1 axis k hk
  have hkl : k < a.lcs.length := by rw [lcs_length]; exact hk'
  have hw := W.of ha
  have hlmem : a.lc k ∈ a.lcs := by rw [← Arr.lc_eq a k hk']; exact getD_mem _ _ _ hkl
  have hs : (a.lc k).Shape := hw.shapes _ hlmem
  obtain ⟨hlen, hr⟩ := Arr.permute_ok a r perm axis k hk h
  have hrlcs : r.lcs = a.lcs.set k (Arr.permNewLeg a k perm) := by
    unfold Arr.lcs; rw [hr]; simp only [List.map_set]; rfl
  have hmods : r.mods = a.mods := by rw [hr]
  have hqt : r.qtotal = a.qtotal := by rw [hr]
  have hrq : r.qdata = (Arr.permRes a k perm).map (·.1) := by rw [hr]
  have hqm := bunch_qconj_mods (Leg.fromQflat a.mods (pick (a.lc k).toQflat perm []) (a.lc k).qconj)
  constructor
  · intro row hrow
    rw [hrq] at hrow
    obtain ⟨rb, hrb, rfl⟩ := List.mem_map.1 hrow
    unfold Arr.permRes at hrb
    rcases permStep_keys _ k _ [] rb hrb with h1 | ⟨t, ht, e⟩
    · simp at h1
    · obtain ⟨⟨di, iold, w⟩, hj, rfl⟩ := List.mem_map.1 ht
      obtain ⟨_, _, f3, f4, f5⟩ := Arr.permJob_facts a k ha.wf0 hk' di iold w hj
      rw [← e, hmods, hrlcs, hqt, ← hc _ f3]
      have hql := hw.rowLen _ f3
      show blockChargeOf a.mods _ ((a.qdata.getD di []).set k _) = _
      unfold blockChargeOf
      congr 2
      apply ext_getD _ _ ([] : Charge)
      · simp
      · intro j hj'
        have hj'' : j < a.rank := by
          simp only [List.length_zipWith, List.length_set, lcs_length, hql, Nat.min_self] at hj'
          exact hj'
        rw [zipWith_getD _ _ _ default 0 [] j (by rw [List.length_set, lcs_length]; exact hj'')
            (by rw [List.length_set, hql]; exact hj''),
          zipWith_getD _ _ _ default 0 [] j (by rw [lcs_length]; exact hj'') (by rw [hql]; exact hj'')]
        by_cases hjk : k = j
        · subst hjk
          rw [getD_set_eq_pj _ _ _ _ hkl, getD_set_eq_pj _ _ _ _ (by rw [hql]; exact hk'), Arr.lc_eq a k hk']
          unfold Leg.getCharge
          rw [permNewLeg_charge a k perm hs hperm hcl iold f4, f5]
          show cscale (Leg.fromQflat a.mods (pick (a.lc k).toQflat perm []) (a.lc k).qconj).bunch.2.qconj _ = _
          rw [hqm.1]
          rfl
        · rw [getD_set_ne_pj _ _ _ _ _ hjk, getD_set_ne_pj _ _ _ _ _ hjk]
  · intro l hl
    rw [hrlcs] at hl
    rw [hmods]
    rcases List.mem_or_eq_of_mem_set hl with h1 | h1
    · exact hv l h1
    · rw [h1]
      refine ⟨hqm.2, ?_⟩
      intro c hc'
      have hcl0 : (Leg.fromQflat a.mods (pick (a.lc k).toQflat perm []) (a.lc k).qconj).CL0 := by
        intro h0 c hc
        obtain ⟨i, _, rfl⟩ := List.mem_map.1 hc
        by_cases hi' : i < (a.lc k).toQflat.length
        · exact hcl h0 _ (mem_expand_pm _ _ _ (getD_mem _ _ _ hi'))
        · exact getD_ge _ _ _ (by omega)
      have hc'' := bunch_charges_sub hcl0 c hc'
      have hc3 : c ∈ pick (a.lc k).toQflat perm [] := hc''
      obtain ⟨i, hi, rfl⟩ := List.mem_map.1 hc3
      have hilt : i < (a.lc k).indLen := by simpa using hperm.mem_iff.1 hi
      apply (hv _ hlmem).2
      exact mem_expand_pm _ _ _ (getD_mem _ _ _ (by show i < (a.lc k).toQflat.length; rw [hs.toQflat_length]; exact hilt))

end TenpyModel.C01C
