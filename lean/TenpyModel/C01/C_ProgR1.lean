import TenpyModel.C01.C_RObj
import TenpyModel.C01.A_Program2
/-!
C01 part C — program theorems on reference objects that carry legs (`RObj`), step 1: what the operations of part A do
to `mods` (nothing) and the two leg rules that the per-operation theorems of part A do not state (`iproject`,
`permute`).
-/
namespace TenpyModel.C01C.ProgR
open TenpyModel.Core
open TenpyModel.Core.Arr (permuteList swapList)

variable {α : Type}

/-! ### `mods` is never changed -/

theorem isetLegLabels_mods (a r : Arr α) (ls : List Label) (h : a.isetLegLabels ls = .ok r) :
    r.mods = a.mods ∧ r.legs = a.legs := by
  unfold Arr.isetLegLabels at h
  split at h
  · cases h
  · split at h
    · cases h
    · simp only [Except.ok.injEq] at h
      subst h
      exact ⟨rfl, rfl⟩

theorem iscalePrefactor_mods [Mul α] [Zero α] [DecidableEq α] (a : Arr α) (s : α) :
    (a.iscalePrefactor s).mods = a.mods ∧ (a.iscalePrefactor s).legs = a.legs := by
  unfold Arr.iscalePrefactor
  split <;> exact ⟨rfl, rfl⟩

theorem addTrivialLeg_mods (a r : Arr α) (axis : Int) (label : Label) (qconj : Int)
    (h : a.addTrivialLeg axis label qconj = .ok r) : r.mods = a.mods := by
  unfold Arr.addTrivialLeg at h
  simp only at h
  split at h
  · cases h
  · simp only [Except.ok.injEq] at h
    subst h
    rfl

theorem takeSlice_mods [Zero α] (a r : Arr α) (indices : List Int) (axes : List Ax)
    (h : a.takeSlice indices axes = .ok r) : r.mods = a.mods := by
  unfold Arr.takeSlice at h
  obtain ⟨ax, _, h⟩ := bind_ok h
  simp only [bind, Except.bind, pure, Except.pure] at h
  split at h
  · simp [throw, throwThe, MonadExceptOf.throw] at h
  · split at h
    · simp only [Except.ok.injEq] at h
      rw [← h]
    · split at h
      · cases h
      · split at h
        · simp [throw, throwThe, MonadExceptOf.throw] at h
        · simp only [Except.ok.injEq] at h
          rw [← h]

theorem iscaleAxis_mods [Mul α] [Zero α] (a r : Arr α) (s : List α) (axis : Ax)
    (h : a.iscaleAxis s axis = .ok r) : r.mods = a.mods := by
  unfold Arr.iscaleAxis at h
  obtain ⟨k, _, h⟩ := bind_ok h
  simp only [bind, Except.bind, pure, Except.pure] at h
  split at h
  · simp [throw, throwThe, MonadExceptOf.throw] at h
  · simp only [Except.ok.injEq] at h
    rw [← h]

theorem ibinaryBlockwise_mods [Zero α] (f : α → α → α) (a b : Arr α) (rb : Arr α × Arr α)
    (h : a.ibinaryBlockwise f b = .ok rb) : rb.1.mods = a.mods := by
  rcases hts : b.transposeSameLabels a.labels with ⟨b1, tr⟩
  simp only [Arr.ibinaryBlockwise, hts, bind, Except.bind, pure, Except.pure] at h
  cases hchk : Arr.binaryCheck a b1 with
  | error e => simp [hchk] at h
  | ok u =>
    simp only [hchk, Except.ok.injEq] at h
    rw [← h]
    exact (Arr.isortQdata_qtotal a).2

theorem iaddPrefactorOther_mods [Zero α] [Add α] [Mul α] [DecidableEq α] (cy : Bool) (a b : Arr α) (p : α)
    (rb : Arr α × Arr α) (h : a.iaddPrefactorOther cy p b = .ok rb) : rb.1.mods = a.mods := by
  cases cy with
  | true =>
    rcases hts : b.transposeSameLabels a.labels with ⟨b1, tr⟩
    simp only [Arr.iaddPrefactorOther, hts, bind, Except.bind, pure, Except.pure, if_true] at h
    cases hchk : Arr.binaryCheck a b1 with
    | error e => simp [hchk] at h
    | ok u =>
      simp only [hchk] at h
      by_cases hp0 : p = 0
      · simp only [hp0, if_true, Except.ok.injEq] at h
        rw [← h]
      · simp only [hp0, if_false, Except.ok.injEq] at h
        rw [← h]
        exact (Arr.isortQdata_qtotal a).2
  | false =>
    simp only [Arr.iaddPrefactorOther, bind, Except.bind, pure, Except.pure, Bool.false_eq_true, if_false] at h
    cases hbin : Arr.ibinaryBlockwise (fun x y => x + y) a (b.copy.iscalePrefactor p) with
    | error e => simp [hbin] at h
    | ok rr =>
      simp only [hbin, Except.ok.injEq] at h
      rw [← h]
      exact ibinaryBlockwise_mods _ a _ rr hbin

/-! ### `squeeze` with a tensor result: legs and `mods` -/

theorem squeeze_arr_specR [Zero α] (a r : Arr α) (axes : Option (List Ax)) (hw : a.WF) (hok : a.SqueezeOK axes)
    (h : a.squeeze axes = .ok (.arr r)) :
    r.legs = pick a.legs (C01ProgA.keepOf a.toLD.d.rank (C01ProgA.squeezeAx a.toLD axes)) default
      ∧ r.mods = a.mods := by
  cases hax : a.squeezeAx axes with
  | error e =>
    rw [Arr.squeeze_eq_body, hax] at h
    cases h
  | ok ax =>
    obtain ⟨_, _, h3, _⟩ := Arr.toDense_squeeze_arr a r axes hw ax hax (hok ax hax) h
    obtain ⟨hr, _⟩ := Arr.squeeze_arr_eq a r axes ax hax h
    have hsq : C01ProgA.squeezeAx a.toLD axes = ax := by
      cases axes with
      | none =>
        simp only [Arr.squeezeAx, Except.ok.injEq] at hax
        rw [← hax]
        simp only [C01ProgA.squeezeAx, Arr.toLD_rank]
        rfl
      | some xs => exact Arr.toLD_axs a xs ax hax
    rw [hsq, Arr.toLD_rank]
    exact ⟨h3, by rw [hr]; rfl⟩

/-! ### `iproject`: the legs -/

/-- the legs after the loop of `iproject`: leg `k` is replaced by `Leg.project` of its `LegCharge` view, one
(mask, axis) pair after the other -/
def projLegs (legs : List ALeg) (L : List (List Bool × Nat)) : List ALeg :=
  L.foldl (fun ls mk => ls.set mk.2 (.plain ((ls.getD mk.2 default).leg.project mk.1).2.2)) legs

theorem foldl_proj1_legs [Zero α] (L : List (List Bool × Nat)) : ∀ (a : Arr α),
    (L.foldl Arr.proj1 a).legs = projLegs a.legs L ∧ (L.foldl Arr.proj1 a).mods = a.mods := by
  induction L with
  | nil => intro a; exact ⟨rfl, rfl⟩
  | cons mk L ih =>
    intro a
    rw [List.foldl_cons]
    obtain ⟨h1, h2⟩ := ih (a.proj1 mk)
    rw [h1, h2]
    exact ⟨rfl, rfl⟩

theorem iproject_legs [Zero α] (a r : Arr α) (masks : List Arr.Mask) (axes : List Ax) (ha : a.WF)
    (ax : List Nat) (hax : a.getLegIndices axes = .ok ax) (hnd : ax.Nodup) (bmasks : List (List Bool))
    (hbm : (masks.zip ax).mapM (fun mk => mk.1.toBools (a.shape.getD mk.2 0)) = .ok bmasks)
    (h : a.iproject masks axes = .ok r) :
    r.legs = projLegs a.legs (bmasks.zip ax) ∧ r.mods = a.mods := by
  obtain ⟨_, _, _, _, _, hr⟩ := Arr.toDense_iproject_wf0 a r masks axes ha.wf0 ax hax hnd bmasks hbm h
  rw [hr]
  exact foldl_proj1_legs _ a

/-! ### `permute`: the legs -/

/-- the legs after `permute(perm, axis)`: leg `k` is replaced by the re-bunched `LegCharge` of the permuted flat
charges -/
def permLegs (mods : List Nat) (legs : List ALeg) (k : Nat) (perm : List Nat) : List ALeg :=
  legs.set k (.plain (Leg.fromQflat mods (pick (legs.getD k default).leg.toQflat perm [])
    (legs.getD k default).leg.qconj).bunch.2)

theorem permute_legs [Zero α] (a r : Arr α) (perm : List Nat) (axis : Ax) (k : Nat)
    (hk : a.getLegIndex axis = .ok k) (h : a.permute perm axis = .ok r) :
    r.legs = permLegs a.mods a.legs k perm ∧ r.mods = a.mods := by
  obtain ⟨_, hr⟩ := Arr.permute_ok a r perm axis k hk h
  rw [hr]
  exact ⟨rfl, rfl⟩

end TenpyModel.C01C.ProgR
