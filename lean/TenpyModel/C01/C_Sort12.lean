import TenpyModel.C01.A_Entry
/-!
C01 part C — `sort_legcharge`, part 12 (dense level only): `d[np.ix_(p_0, …, p_{n-1})]` is the iterated
`np.take(·, p_k, axis=k)` for `k = 0, …, n-1` (`ix_eq_takeIter`), the reference operation of `C01_toDense_permute`.
-/
namespace TenpyModel.C01C.SortLc
open TenpyModel.Core

variable {α : Type}

theorem getD_set' {β} (l : List β) (m k : Nat) (x d : β) :
    (l.set m x).getD k d = if m = k ∧ m < l.length then x else l.getD k d := by
  simp only [List.getD_eq_getElem?_getD, List.getElem?_set]
  by_cases h : m = k
  · subst h
    by_cases h2 : m < l.length
    · simp [h2]
    · simp [h2]
  · simp [h]

/-- `np.take` along the axes `0, …, m-1` in turn -/
def takeIter [Zero α] (d : Dense α) (perms : List (List Nat)) (m : Nat) : Dense α :=
  (List.range m).foldl (fun acc k => Dense.takeList acc k (perms.getD k [])) d

/-- the index lists after `m` steps: `perms[k]` for `k < m`, the identity for the other axes -/
def ixP (shape : List Nat) (perms : List (List Nat)) (m : Nat) : List (List Nat) :=
  (List.range shape.length).map (fun k => if k < m then perms.getD k [] else List.range (shape.getD k 0))

theorem ixP_length (shape : List Nat) (perms : List (List Nat)) (m : Nat) : (ixP shape perms m).length = shape.length := by
  simp [ixP]

theorem ixP_getD (shape : List Nat) (perms : List (List Nat)) (m k : Nat) (hk : k < shape.length) :
    (ixP shape perms m).getD k [] = if k < m then perms.getD k [] else List.range (shape.getD k 0) := by
  unfold ixP
  rw [getD_map' _ _ k 0 [] (by simpa using hk), getD_range _ _ hk]

theorem ixP_full (shape : List Nat) (perms : List (List Nat)) (hl : perms.length = shape.length) :
    ixP shape perms shape.length = perms := by
  apply ext_getD _ _ [] (by rw [ixP_length, hl])
  intro k hk
  rw [ixP_length] at hk
  rw [ixP_getD _ _ _ _ hk, if_pos hk]

section
variable [Zero α]

theorem ix_shape (d : Dense α) (P : List (List Nat)) : (Dense.ix d P).shape = P.map List.length := rfl

/-- all index lists the identity: nothing changes (for a tensor with a complete value list) -/
theorem ix_zero (d : Dense α) (hd : d.vals.length = Dense.prod d.shape) (perms : List (List Nat)) :
    Dense.ix d (ixP d.shape perms 0) = d := by
  have hsh : (ixP d.shape perms 0).map List.length = d.shape := by
    apply ext_getD _ _ 0 (by rw [List.length_map, ixP_length])
    intro k hk
    rw [List.length_map, ixP_length] at hk
    rw [getD_map' _ _ k [] 0 (by rw [ixP_length]; exact hk), ixP_getD _ _ _ _ hk]
    simp
  conv => rhs; rw [Dense.eq_ofFn_get 0 d hd]
  unfold Dense.ix
  rw [Dense.gather_eq_ofFn, hsh]
  apply Dense.ofFn_congr_mem
  intro idx hi
  congr 1
  apply ext_getD _ _ 0 (by rw [List.length_zipWith, ixP_length, hi.length_eq]; simp)
  intro k hk
  rw [List.length_zipWith, ixP_length, hi.length_eq, Nat.min_self] at hk
  rw [getD_zipWith' _ _ _ k [] 0 0 (by rw [ixP_length]; exact hk) (by rw [hi.length_eq]; exact hk),
    ixP_getD _ _ _ _ hk]
  simp only [Nat.not_lt_zero, if_false]
  exact getD_range _ _ (hi.getD_lt' k hk)

/-- one more `np.take` -/
theorem ix_step (d : Dense α) (perms : List (List Nat)) (m : Nat) (hm : m < d.shape.length)
    (hlt : ∀ x ∈ perms.getD m [], x < d.shape.getD m 0) :
    Dense.takeList (Dense.ix d (ixP d.shape perms m)) m (perms.getD m []) = Dense.ix d (ixP d.shape perms (m + 1)) := by
  have hsh : ((ixP d.shape perms m).map List.length).set m (perms.getD m []).length
      = (ixP d.shape perms (m + 1)).map List.length := by
    apply ext_getD _ _ 0 (by simp [ixP_length])
    intro k hk
    rw [List.length_set, List.length_map, ixP_length] at hk
    rw [getD_set', getD_map' _ _ k [] 0 (by rw [ixP_length]; exact hk),
      getD_map' _ _ k [] 0 (by rw [ixP_length]; exact hk), ixP_getD _ _ _ _ hk, ixP_getD _ _ _ _ hk,
      List.length_map, ixP_length]
    by_cases h : m = k
    · subst h
      simp only [true_and, hm, if_true, Nat.lt_succ_self]
    · have h3 : k < m + 1 ↔ k < m := by omega
      simp only [h, false_and, if_false, h3]
  unfold Dense.takeList
  rw [ix_shape, hsh]
  conv => rhs; unfold Dense.ix
  rw [Dense.gather_eq_ofFn, Dense.gather_eq_ofFn]
  apply Dense.ofFn_congr_mem
  intro idx hi
  have hlen : idx.length = d.shape.length := by rw [hi.length_eq, List.length_map, ixP_length]
  have hidx : ∀ k, k < d.shape.length → idx.getD k 0 < ((ixP d.shape perms (m + 1)).getD k []).length := by
    intro k hk
    have := hi.getD_lt' k (by rw [List.length_map, ixP_length]; exact hk)
    rwa [getD_map' _ _ k [] 0 (by rw [ixP_length]; exact hk)] at this
  have hv : (perms.getD m []).getD (idx.getD m 0) 0 < d.shape.getD m 0 := by
    apply hlt
    have := hidx m hm
    rw [ixP_getD _ _ _ _ hm, if_pos (Nat.lt_succ_self m)] at this
    exact getD_mem _ _ _ this
  have hin : InRange (idx.set m ((perms.getD m []).getD (idx.getD m 0) 0)) ((ixP d.shape perms m).map List.length) := by
    apply InRange.of_getD _ _ (by rw [List.length_set, hlen, List.length_map, ixP_length])
    intro k hk
    rw [List.length_map, ixP_length] at hk
    rw [getD_set', getD_map' _ _ k [] 0 (by rw [ixP_length]; exact hk), ixP_getD _ _ _ _ hk]
    by_cases h : m = k
    · subst h
      have e1 : (if m = m ∧ m < idx.length then (perms.getD m []).getD (idx.getD m 0) 0 else idx.getD m 0)
          = (perms.getD m []).getD (idx.getD m 0) 0 := if_pos ⟨rfl, by rw [hlen]; exact hm⟩
      have e2 : (if m < m then perms.getD m [] else List.range (d.shape.getD m 0)) = List.range (d.shape.getD m 0) :=
        if_neg (Nat.lt_irrefl m)
      rw [e1, e2, List.length_range]
      exact hv
    · have h2 := hidx k hk
      rw [ixP_getD _ _ _ _ hk] at h2
      have h3 : k < m + 1 ↔ k < m := by omega
      simp only [h3] at h2
      have e1 : (if m = k ∧ m < idx.length then (perms.getD m []).getD (idx.getD m 0) 0 else idx.getD k 0)
          = idx.getD k 0 := if_neg (fun hh => h hh.1)
      rw [e1]
      exact h2
  unfold Dense.ix
  rw [Dense.get_gather 0 d _ _ _ hin]
  congr 1
  apply ext_getD _ _ 0 (by simp [ixP_length])
  intro k hk
  rw [List.length_zipWith, ixP_length, List.length_set, hlen, Nat.min_self] at hk
  rw [getD_zipWith' _ _ _ k [] 0 0 (by rw [ixP_length]; exact hk) (by rw [List.length_set, hlen]; exact hk),
    getD_zipWith' _ _ _ k [] 0 0 (by rw [ixP_length]; exact hk) (by rw [hlen]; exact hk),
    ixP_getD _ _ _ _ hk, ixP_getD _ _ _ _ hk, getD_set']
  by_cases h : m = k
  · subst h
    have e1 : (if m = m ∧ m < idx.length then (perms.getD m []).getD (idx.getD m 0) 0 else idx.getD m 0)
        = (perms.getD m []).getD (idx.getD m 0) 0 := if_pos ⟨rfl, by rw [hlen]; exact hm⟩
    have e2 : (if m < m then perms.getD m [] else List.range (d.shape.getD m 0)) = List.range (d.shape.getD m 0) :=
      if_neg (Nat.lt_irrefl m)
    have e3 : (if m < m + 1 then perms.getD m [] else List.range (d.shape.getD m 0)) = perms.getD m [] :=
      if_pos (Nat.lt_succ_self m)
    rw [e1, e2, e3]
    exact getD_range _ _ hv
  · have h3 : k < m + 1 ↔ k < m := by omega
    have e1 : (if m = k ∧ m < idx.length then (perms.getD m []).getD (idx.getD m 0) 0 else idx.getD k 0)
        = idx.getD k 0 := if_neg (fun hh => h hh.1)
    rw [e1]
    simp only [h3]

/-- **`np.ix_` = iterated `np.take`** (for index lists with entries in range, e.g. permutations) -/
theorem ix_eq_takeIter (d : Dense α) (hd : d.vals.length = Dense.prod d.shape) (perms : List (List Nat))
    (hl : perms.length = d.shape.length) (hlt : ∀ k, k < d.shape.length → ∀ x ∈ perms.getD k [], x < d.shape.getD k 0) :
    Dense.ix d perms = takeIter d perms d.shape.length := by
  have key : ∀ m, m ≤ d.shape.length → takeIter d perms m = Dense.ix d (ixP d.shape perms m) := by
    intro m
    induction m with
    | zero => intro _; rw [ix_zero d hd]; rfl
    | succ m ih =>
      intro hm
      unfold takeIter at ih ⊢
      rw [List.range_succ, List.foldl_append, List.foldl_cons, List.foldl_nil, ih (by omega)]
      exact ix_step d perms m (by omega) (hlt m (by omega))
  rw [key _ (Nat.le_refl _), ixP_full _ _ hl]

end

end TenpyModel.C01C.SortLc
