import TenpyModel.C01.C_Charge1
import TenpyModel.C01.B2_Trace5
import TenpyModel.C01.B_Trace
/-!
C01 part C — `trace`: the rows of the result are `row[keep]` for stored rows with equal block index on the two traced
(contractible) legs; the two traced charges cancel, so the result obeys the charge rule.
-/
namespace TenpyModel.C01C
open TenpyModel.Core TenpyModel.C01B TenpyModel.C01B2
open TenpyModel.Core.Arr (permuteList)

variable {α : Type}

/-- the remaining axes followed by the two traced ones: a permutation -/
theorem keep_perm (n ax1 ax2 : Nat) (h1 : ax1 < n) (h2 : ax2 < n) (hne : ax1 ≠ ax2) :
    IsPerm (Dense.keepAx n [ax1, ax2] ++ [ax1, ax2]) n := by
  apply IsPerm.of_perm
  apply (List.perm_ext_iff_of_nodup ?_ List.nodup_range).2
  · intro k
    simp only [List.mem_append, Dense.mem_keepAx, mem_pair, List.mem_range]
    constructor
    · rintro (h | rfl | rfl)
      · exact h.1
      · exact h1
      · exact h2
    · intro hk
      by_cases e : k = ax1 ∨ k = ax2
      · exact Or.inr e
      · exact Or.inl ⟨hk, e⟩
  · rw [List.nodup_append]
    refine ⟨Dense.keepAx_nodup _ _, by simp [hne], ?_⟩
    intro x hx y hy e
    subst e
    exact ((Dense.mem_keepAx _ _ _).1 hx).2 hy

theorem permuteList_keep {β} (xs : List β) (keep : List Nat) (ax1 ax2 : Nat) (d : β) :
    permuteList xs (keep ++ [ax1, ax2]) d = keep.map (fun k => xs.getD k d) ++ [xs.getD ax1 d, xs.getD ax2 d] := by
  simp [permuteList]

/-- the charge sum of a row, split into the remaining legs and the two traced ones -/
theorem csum_trace_split (a : Arr α) (ax1 ax2 : Nat) (h1 : ax1 < a.rank) (h2 : ax2 < a.rank) (hne : ax1 ≠ ax2)
    (q : List Nat) (hq : q.length = a.rank) (n : Nat) :
    csum n (chs a.lcs q)
      = csum n (chs ((Dense.keepAx a.rank [ax1, ax2]).map a.lc) (pick q (Dense.keepAx a.rank [ax1, ax2]) 0)
          ++ [(a.lc ax1).getCharge (q.getD ax1 0), (a.lc ax2).getCharge (q.getD ax2 0)]) := by
  have hp := keep_perm a.rank ax1 ax2 h1 h2 hne
  have hlen : (chs a.lcs q).length = a.rank := by
    unfold chs; rw [List.length_zipWith, lcs_length, hq, Nat.min_self]
  have e1 : (permuteList (chs a.lcs q) (Dense.keepAx a.rank [ax1, ax2] ++ [ax1, ax2]) []).Perm (chs a.lcs q) :=
    permuteList_perm _ _ _ (by rw [hlen]; exact hp)
  rw [← csum_perm n _ _ e1]
  unfold chs
  rw [← hp.zipWith_permute_both _ a.lcs default ([] : Charge) (lcs_length a) q hq, permuteList_keep,
    permuteList_keep, List.zipWith_append (by simp)]
  congr 2
  · unfold pick
    congr 1
    apply List.map_congr_left
    intro k hk
    exact Arr.lc_eq a k ((Dense.mem_keepAx _ _ _).1 hk).1
  · simp only [List.zipWith_cons_cons, List.zipWith_nil_right, Arr.lc_eq a ax1 h1, Arr.lc_eq a ax2 h2]

theorem inRange_map {β} (L : List β) (f g : β → Nat) (h : ∀ s ∈ L, f s < g s) : InRange (L.map f) (L.map g) := by
  induction L with
  | nil => trivial
  | cons x L ih => exact ⟨h x (by simp), ih (fun s hs => h s (by simp [hs]))⟩

section trace
variable [CommSemiring α]
set_option linter.unusedSectionVars false

/-- a stored row with equal block index on two contractible legs: the block charge of the remaining legs is `qtotal` -/
theorem trace_row_charge (a : Arr α) (ha : W a) (hca : a.ChargeRule) (hva : LegsValid a) (ax1 ax2 : Nat)
    (h1 : ax1 < a.rank) (h2 : ax2 < a.rank) (hne : ax1 ≠ ax2)
    (hc : (a.lc ax1).testContractible (a.lc ax2) = true)
    (q : List Nat) (hq : q ∈ a.qdata) (hd : q.getD ax1 0 = q.getD ax2 0) :
    blockChargeOf a.mods ((Dense.keepAx a.rank [ax1, ax2]).map a.lc) (pick q (Dense.keepAx a.rank [ax1, ax2]) 0)
      = a.qtotal := by
  have hql := ha.rowLen q hq
  have hm1 := hva _ (Arr.lc_mem_lcs_sl a ax1 h1)
  have hm2 := hva _ (Arr.lc_mem_lcs_sl a ax2 h2)
  have hlt2 := ha.rowLt q hq ax2 h2
  have hlt1 := ha.rowLt q hq ax1 h1
  -- the two traced charges cancel
  have hz := getCharge_contractible (a.lc ax1) (a.lc ax2) hc (q.getD ax2 0)
    (by rw [hm2.1]; exact hm2.2 _ (getD_mem _ _ _ hlt2))
  rw [hm2.1, cadd_comm] at hz
  -- lengths
  have vK : ∀ c ∈ chs ((Dense.keepAx a.rank [ax1, ax2]).map a.lc) (pick q (Dense.keepAx a.rank [ax1, ax2]) 0),
      c.length = a.mods.length := by
    apply chs_len
    · intro l hl
      obtain ⟨k, hk, rfl⟩ := List.mem_map.1 hl
      exact (hva _ (Arr.lc_mem_lcs_sl a k ((Dense.mem_keepAx _ _ _).1 hk).1)).2
    · unfold pick
      rw [List.map_map]
      apply inRange_map
      intro k hk
      exact ha.rowLt q hq k ((Dense.mem_keepAx _ _ _).1 hk).1
  have l1 : ((a.lc ax1).getCharge (q.getD ax1 0)).length = a.mods.length := by
    simp only [Leg.getCharge, cscale, List.length_map]
    exact hm1.2 _ (getD_mem _ _ _ hlt1)
  have l2 : ((a.lc ax2).getCharge (q.getD ax2 0)).length = a.mods.length := by
    simp only [Leg.getCharge, cscale, List.length_map]
    exact hm2.2 _ (getD_mem _ _ _ hlt2)
  have vT : ∀ c ∈ [(a.lc ax1).getCharge (q.getD ax1 0), (a.lc ax2).getCharge (q.getD ax2 0)],
      c.length = a.mods.length := by
    intro c hc'
    rcases (List.mem_pair.1 hc') with rfl | rfl
    · exact l1
    · exact l2
  have hrule := hca q hq
  unfold blockChargeOf at hrule ⊢
  rw [show List.zipWith (fun (l : Leg) qi => l.getCharge qi) a.lcs q = chs a.lcs q from rfl,
    csum_trace_split a ax1 ax2 h1 h2 hne q hql, csum_append _ _ _ vK vT] at hrule
  have e2 : csum a.mods.length [(a.lc ax1).getCharge (q.getD ax1 0), (a.lc ax2).getCharge (q.getD ax2 0)]
      = cadd ((a.lc ax1).getCharge (q.getD ax1 0)) ((a.lc ax2).getCharge (q.getD ax2 0)) := by
    simp only [csum, List.foldl_cons, List.foldl_nil]
    rw [czero_cadd_left _ _ l1]
  rw [e2, hd, ← makeValid_add, hz, cadd_czero_right _ _ (csum_length _ _ vK)] at hrule
  exact hrule

/-- **(c)** `trace(a, leg1, leg2)` (tensor-valued, i.e. rank ≠ 2): the result obeys the charge rule and has valid legs -/
theorem chargeRule_trace (a : Arr α) (ha : a.WF) (hca : a.ChargeRule) (hva : LegsValid a) (l1 l2 : Ax) (r : Arr α)
    (h : a.trace l1 l2 = .ok (.arr r)) : r.ChargeRule ∧ LegsValid r := by
  have hr : a.rank ≠ 2 := by
    intro h2
    have := (trace_scalar a (W.of ha) l1 l2 _ h h2).1
    cases this
  obtain ⟨ax1, ax2, g1, g2, hne, hc, hv⟩ := TenpyModel.C01B2.trace_unfold a l1 l2 _ h hr
  have lt1 := TenpyModel.C01B.getLegIndex_lt a ha.1 l1 ax1 g1
  have lt2 := TenpyModel.C01B.getLegIndex_lt a ha.1 l2 ax2 g2
  have c : TrCtx a ax1 ax2 := ⟨W.of ha, lt1, lt2, hne, slices_of_testContractible _ _ hc⟩
  simp only [Val.arr.injEq] at hv
  subst hv
  constructor
  · intro row hrow
    have hrow' : row ∈ (traceAcc a ax1 ax2).map (·.1) := hrow
    rw [c.acc_ok.2.2 row] at hrow'
    obtain ⟨e, he, rfl⟩ := List.mem_map.1 hrow'
    unfold traceList at he
    obtain ⟨rb, hrb, rfl⟩ := List.mem_map.1 he
    obtain ⟨hmem, hd⟩ := List.mem_filter.1 hrb
    have hq := (List.of_mem_zip hmem).1
    rw [trRes_lcs]
    show blockChargeOf a.mods _ _ = makeValid a.mods a.qtotal
    rw [trace_row_charge a (W.of ha) hca hva ax1 ax2 lt1 lt2 hne hc rb.1 hq (by simpa using hd)]
    rw [← hca rb.1 hq]
    unfold blockChargeOf
    rw [makeValid_idem]
  · intro l hl
    rw [trRes_lcs] at hl
    obtain ⟨k, hk, rfl⟩ := List.mem_map.1 hl
    exact hva _ (Arr.lc_mem_lcs_sl a k ((Dense.mem_keepAx _ _ _).1 hk).1)

end trace
end TenpyModel.C01C
