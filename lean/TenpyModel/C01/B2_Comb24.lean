import TenpyModel.C01.B2_Comb23
import TenpyModel.C01.PropsLabels
/-!
C01 part B2 — part 24 (labels): generic lemmas about the two label loops — `labels[na : na + nlegs] = [pipe label]`
for ascending `na` (`collapse_fold`) and `labels[a : a+1] = split(labels[a])` for descending `a`
(`expand_foldlM`) — and `_split_leg_label(_combine_leg_labels(ls))` on strings (`splitLabel_combine`).
-/
namespace TenpyModel.C01B2.Comb
open TenpyModel.Core TenpyModel.C01B

theorem range_split (n x : Nat) (hx : x < n) :
    List.range n = List.range x ++ x :: List.range' (x + 1) (n - x - 1) := by
  have h1 : n = x + (1 + (n - x - 1)) := by omega
  conv_lhs => rw [h1, List.range_eq_range', ← List.range'_append_1, ← List.range'_append_1]
  simp [List.range_eq_range']

theorem length_flatten_ones {β} (L : List (List β)) (h : ∀ l ∈ L, l.length = 1) : L.flatten.length = L.length := by
  induction L with
  | nil => rfl
  | cons l L ih =>
    rw [List.flatten_cons, List.length_append, h l (by simp), ih (fun m hm => h m (by simp [hm]))]
    simp; omega

theorem mem_range'_gt (s m k : Nat) (h : k ∈ List.range' s m) : s ≤ k := by
  have := List.mem_range'_1.1 h
  omega

/-- the loop `labels[na : na + nlegs] = [label]` over ascending positions -/
theorem collapse_fold {β} (n : Nat) (segs : Nat → List β) (c : Nat → β) (pos : List Nat) :
    pos.Pairwise (· < ·) → (∀ x ∈ pos, x < n) →
    (∀ k, ¬ pos.contains k = true → (∃ p ∈ pos, k < p) → (segs k).length = 1) →
    pos.foldl (fun ls k => ls.take k ++ c k :: ls.drop (k + (segs k).length)) ((List.range n).map segs).flatten
      = ((List.range n).map (fun k => if pos.contains k then [c k] else segs k)).flatten := by
  induction pos using List.reverseRecOn with
  | nil => intro _ _ _; simp
  | append_singleton pos0 x ih =>
    intro hasc hlt hone
    have hpw := List.pairwise_append.1 hasc
    have hltx : ∀ p ∈ pos0, p < x := fun p hp => hpw.2.2 p hp x (by simp)
    have hxn : x < n := hlt x (by simp)
    have hxm : x ∉ pos0 := fun h => Nat.lt_irrefl _ (hltx x h)
    have hone0 : ∀ k, ¬ pos0.contains k = true → (∃ p ∈ pos0, k < p) → (segs k).length = 1 := by
      intro k hc ⟨p, hp, hkp⟩
      have hkx : k ≠ x := by have := hltx p hp; omega
      exact hone k (by simp at hc ⊢; exact ⟨hc, hkx⟩) ⟨p, by simp [hp], hkp⟩
    rw [List.foldl_append, ih hpw.1 (fun p hp => hlt p (by simp [hp])) hone0]
    simp only [List.foldl_cons, List.foldl_nil]
    rw [range_split n x hxn]
    simp only [List.map_append, List.map_cons, List.flatten_append, List.flatten_cons]
    have hc0 : ¬ pos0.contains x = true := by simpa using hxm
    have hc1 : (pos0 ++ [x]).contains x = true := by simp
    rw [if_neg hc0, if_pos hc1]
    -- the part before `x` consists of singletons
    have hA : ((List.range x).map (fun k => if pos0.contains k then [c k] else segs k)).flatten.length = x := by
      rw [length_flatten_ones]
      · simp
      · intro l hl
        obtain ⟨k, hk, rfl⟩ := List.mem_map.1 hl
        have hk' : k < x := List.mem_range.1 hk
        by_cases hc : pos0.contains k = true
        · rw [if_pos hc]; rfl
        · rw [if_neg hc]
          exact hone k (by simp at hc ⊢; exact ⟨hc, by omega⟩) ⟨x, by simp, hk'⟩
    have e1 : ∀ (A S B : List β), A.length = x →
        (A ++ (S ++ B)).take x ++ c x :: (A ++ (S ++ B)).drop (x + S.length) = A ++ ([c x] ++ B) := by
      intro A S B hA'
      rw [List.take_left' hA', ← List.append_assoc, List.drop_left' (by rw [List.length_append, hA'])]
      rfl
    rw [e1 _ _ _ hA]
    congr 1
    · congr 1
      apply List.map_congr_left
      intro k hk
      have hk' : k < x := List.mem_range.1 hk
      have : (pos0 ++ [x]).contains k = pos0.contains k := by
        have : k ≠ x := by omega
        simp [this]
      rw [this]
    · congr 2
      apply List.map_congr_left
      intro k hk
      have hk' := mem_range'_gt _ _ _ hk
      have h1 : ¬ pos0.contains k = true := by
        intro h; have := hltx k (by simpa using h); omega
      have h2 : ¬ (pos0 ++ [x]).contains k = true := by
        intro h
        simp only [List.contains_eq_mem, List.mem_append, List.mem_singleton, decide_eq_true_eq] at h
        rcases h with h | h
        · have := hltx k h; omega
        · omega
      rw [if_neg h1, if_neg h2]

theorem flatten_map_singleton {β γ} (L : List γ) (f : γ → β) : (L.map (fun k => [f k])).flatten = L.map f := by
  induction L with
  | nil => rfl
  | cons x L ih => simp only [List.map_cons, List.flatten_cons, ih, List.singleton_append]

theorem map_getD_range' {β} (l : List β) (d : β) (s : Nat) :
    (List.range' s (l.length - s)).map (fun k => l.getD k d) = l.drop s := by
  apply ext_getD _ _ d (by simp)
  intro i hi
  have hi' : i < l.length - s := by simpa using hi
  rw [getD_map' _ _ i 0 d (by simpa using hi')]
  have : (List.range' s (l.length - s)).getD i 0 = s + i := by
    rw [getD_lt _ _ _ (by simpa using hi')]
    simp
  rw [this]
  simp [List.getD_eq_getElem?_getD, List.getElem?_drop]

/-- one step of the label loop of `split_legs`: `labels[k : k+1] = _split_leg_label(labels[k], w k)` -/
def splitStep (w : Nat → Nat) (ls : List Label) (k : Nat) : Except Err (List Label) := do
  let parts ← Arr.splitLabel (ls.getD k none) (w k)
  pure (ls.take k ++ parts ++ ls.drop (k + 1))

theorem getD_take {β} (l : List β) (x k : Nat) (d : β) (h : k < x) : (l.take x).getD k d = l.getD k d := by
  simp [List.getD_eq_getElem?_getD, List.getElem?_take_of_lt h]

/-- the label loop of `split_legs` over descending positions -/
theorem expand_foldlM (w : Nat → Nat) (e : Nat → List Label) (pos : List Nat) :
    ∀ (pre post : List Label), pos.Pairwise (· < ·) → (∀ x ∈ pos, x < pre.length) →
    (∀ k ∈ pos, Arr.splitLabel (pre.getD k none) (w k) = .ok (e k)) →
    pos.reverse.foldlM (splitStep w) (pre ++ post)
      = .ok (((List.range pre.length).map (fun k => if pos.contains k then e k else [pre.getD k none])).flatten
          ++ post) := by
  induction pos using List.reverseRecOn with
  | nil =>
    intro pre post _ _ _
    simp only [List.reverse_nil, List.foldlM_nil, List.contains_nil, Bool.false_eq_true, if_false, pure, Except.pure]
    rw [flatten_map_singleton, map_getD_range]
  | append_singleton pos0 x ih =>
    intro pre post hasc hlt hsp
    have hpw := List.pairwise_append.1 hasc
    have hltx : ∀ p ∈ pos0, p < x := fun p hp => hpw.2.2 p hp x (by simp)
    have hxl : x < pre.length := hlt x (by simp)
    rw [List.reverse_append, List.reverse_singleton, List.singleton_append, List.foldlM_cons]
    have hstep : splitStep w (pre ++ post) x = .ok (pre.take x ++ (e x ++ (pre.drop (x + 1) ++ post))) := by
      unfold splitStep
      rw [getD_append_left' _ _ _ _ hxl, hsp x (by simp)]
      simp only [bind, Except.bind, pure, Except.pure]
      rw [List.take_append_of_le_length (by omega), List.drop_append_of_le_length (by omega)]
      simp only [List.append_assoc]
    rw [hstep]
    simp only [bind, Except.bind]
    have hpl : (pre.take x).length = x := by rw [List.length_take]; omega
    have := ih (pre.take x) (e x ++ (pre.drop (x + 1) ++ post)) hpw.1 (by rw [hpl]; exact hltx)
      (fun k hk => by rw [getD_take pre x k none (hltx k hk)]; exact hsp k (by simp [hk]))
    rw [this, hpl, range_split pre.length x hxl]
    simp only [List.map_append, List.map_cons, List.flatten_append, List.flatten_cons, List.append_assoc]
    have hc1 : (pos0 ++ [x]).contains x = true := by simp
    rw [if_pos hc1]
    congr 2
    · congr 1
      apply List.map_congr_left
      intro k hk
      have hk' : k < x := List.mem_range.1 hk
      have : (pos0 ++ [x]).contains k = pos0.contains k := by
        have : k ≠ x := by omega
        simp [this]
      rw [this, getD_take pre x k none hk']
    · congr 1
      have : (List.range' (x + 1) (pre.length - x - 1)).map
          (fun k => if (pos0 ++ [x]).contains k then e k else [pre.getD k none])
          = (List.range' (x + 1) (pre.length - (x + 1))).map (fun k => [pre.getD k none]) := by
        apply List.map_congr_left
        intro k hk
        have hk' := mem_range'_gt _ _ _ hk
        have h2 : ¬ (pos0 ++ [x]).contains k = true := by
          intro h
          simp only [List.contains_eq_mem, List.mem_append, List.mem_singleton, decide_eq_true_eq] at h
          rcases h with h | h
          · have := hltx k h; omega
          · omega
        rw [if_neg h2]
      rw [this, flatten_map_singleton, map_getD_range']

/-- `_split_leg_label(_combine_leg_labels(ls), len(ls))` on strings -/
theorem splitLabel_combine (ls : List String) (hne : ls ≠ []) (hp : ∀ s ∈ ls, Label.Piece s.toList) :
    Arr.splitLabel (some (Label.combine ls)) ls.length
      = .ok (ls.map (fun s => if s.toList.head? = some '?' then none else some s)) := by
  unfold Arr.splitLabel Label.combine
  have h := C01_labels_split_combine (ls.map String.toList) (by simpa using hne)
    (by intro p hp'; obtain ⟨s, hs, rfl⟩ := List.mem_map.1 hp'; exact hp s hs)
  rw [List.length_map] at h
  simp only [Option.map_some, String.toList_ofList, h, List.map_map]
  congr 1
  apply List.map_congr_left
  intro s _
  simp only [Function.comp]
  split <;> simp

end TenpyModel.C01B2.Comb
