import TenpyModel.C01.A_Slice3
/-!
C01 part A — the slice record (`take_slice`, `squeeze`) preserves the storage invariants `Arr.WF`, including the
inherited `_qdata_sorted` claim: the kept rows agree on the removed columns, so the lexicographic order of the rows
is the order of their kept parts.
-/
namespace TenpyModel.Core

namespace Dense

theorem filterIdx_snoc_sl {β} (p : Nat → Bool) (l : List β) (x : β) :
    filterIdx p (l ++ [x]) = filterIdx p l ++ (if p l.length then [x] else []) := by
  induction l generalizing p with
  | nil => simp [filterIdx]
  | cons y ys ih =>
    simp only [List.cons_append, filterIdx, List.length_cons]
    rw [ih (fun k => p (k + 1))]
    split <;> simp

end Dense

theorem lexLE_snoc_sl (a b : List Int) (x y : Int) :
    lexLE (a ++ [x]) (b ++ [y]) = if x < y then true else if y < x then false else lexLE a b := by
  simp [lexLE, lexLE.go]

theorem lexLE_nil_sl (b : List Int) : lexLE [] b = true := by simp [lexLE, lexLE.go]

/-- dropping columns on which two rows agree does not change their lexicographic comparison -/
theorem lexLE_filterIdx_sl (p : Nat → Bool) : ∀ (n : Nat) (a b : List Int), a.length = n → b.length = n →
    (∀ k, k < n → p k = false → a.getD k 0 = b.getD k 0) →
    lexLE (Dense.filterIdx p a) (Dense.filterIdx p b) = lexLE a b := by
  intro n
  induction n with
  | zero =>
    intro a b ha hb _
    rw [List.length_eq_zero_iff.1 ha, List.length_eq_zero_iff.1 hb]
    rfl
  | succ n ih =>
    intro a b ha hb h
    rcases List.eq_nil_or_concat a with rfl | ⟨a', x, ea⟩
    · simp at ha
    rcases List.eq_nil_or_concat b with rfl | ⟨b', y, eb⟩
    · simp at hb
    rw [List.concat_eq_append] at ea eb
    subst ea eb
    have ha' : a'.length = n := by simpa using ha
    have hb' : b'.length = n := by simpa using hb
    have hrec := ih a' b' ha' hb' (fun k hk hp => by
      have := h k (by omega) hp
      rwa [getD_append_left' _ _ _ _ (by omega), getD_append_left' _ _ _ _ (by omega)] at this)
    rw [Dense.filterIdx_snoc_sl, Dense.filterIdx_snoc_sl, ha', hb']
    by_cases hp : p n = true
    · simp only [hp, if_true]
      rw [lexLE_snoc_sl, lexLE_snoc_sl, hrec]
    · have hp' : p n = false := by simpa using hp
      have hxy := h n (by omega) hp'
      have e1 : (a' ++ [x]).getD n 0 = x := by
        have := getD_append_right' a' [x] 0 0
        rw [ha'] at this
        simpa using this
      have e2 : (b' ++ [y]).getD n 0 = y := by
        have := getD_append_right' b' [y] 0 0
        rw [hb'] at this
        simpa using this
      rw [e1, e2] at hxy
      subst hxy
      simp only [hp', Bool.false_eq_true, if_false, List.append_nil]
      rw [lexLE_snoc_sl, hrec]
      simp

namespace Arr
variable {α : Type}
open Dense

theorem pick_keepAx_eq_filterIdx_sl {β} (l : List β) (n : Nat) (ax : List Nat) (d : β) (hl : l.length = n) :
    pick l (keepAx n ax) d = filterIdx (fun k => !ax.contains k) l := by
  rw [← hl]
  exact pick_filter_eq_filterIdx l _ d

/-- rows with the same entries on the removed axes compare like their kept parts -/
theorem lexLE_pick_sl (n : Nat) (ax : List Nat) (r s : List Nat) (hr : r.length = n) (hs : s.length = n)
    (hax : ∀ k ∈ ax, r.getD k 0 = s.getD k 0) :
    lexLE ((pick r (keepAx n ax) 0).map Int.ofNat) ((pick s (keepAx n ax) 0).map Int.ofNat)
      = lexLE (r.map Int.ofNat) (s.map Int.ofNat) := by
  rw [pick_keepAx_eq_filterIdx_sl r n ax 0 hr, pick_keepAx_eq_filterIdx_sl s n ax 0 hs, ← filterIdx_map, ← filterIdx_map]
  apply lexLE_filterIdx_sl _ n _ _ (by simpa using hr) (by simpa using hs)
  intro k hk hp
  have hm : k ∈ ax := by simpa using hp
  rw [getD_map' Int.ofNat r k 0 0 (by omega), getD_map' Int.ofNat s k 0 0 (by omega), hax k hm]

theorem lc_slice [Zero α] (a : Arr α) (ax : List Nat) (v : Nat → Nat) (qt : Charge) (j : Nat)
    (hj : j < (keepAx a.rank ax).length) : (a.slice ax v qt).lc j = a.lc ((keepAx a.rank ax).getD j 0) := by
  rw [← lc_eq _ j (by rw [rank_slice]; exact hj), lcs_slice, getD_map' a.lc _ j 0 default hj]

theorem lc_mem_lcs_sl (a : Arr α) (k : Nat) (hk : k < a.rank) : a.lc k ∈ a.lcs := by
  rw [← lc_eq a k hk]
  exact getD_mem _ _ _ (by rw [lcs_length]; exact hk)

/-- the stored (row, block) pairs of a slice -/
theorem mem_slice_zip [Zero α] (a : Arr α) (ax : List Nat) (v : Nat → Nat) (qt : Charge) (rb' : List Nat × Blk α)
    (h : rb' ∈ (a.slice ax v qt).qdata.zip (a.slice ax v qt).data) :
    ∃ rb ∈ a.qdata.zip a.data, a.rowOK ax v rb.1 = true ∧ rb'.1 = pick rb.1 (keepAx a.rank ax) 0
      ∧ rb'.2 = rb.2.fixAxes ax ((ax.map (a.fixQ v)).map (·.2)) := by
  rw [slice_zip, List.mem_filterMap] at h
  obtain ⟨rb, hrb, he⟩ := h
  by_cases hp : a.rowOK ax v rb.1 = true
  · rw [if_pos hp] at he
    injection he with he
    exact ⟨rb, hrb, hp, by rw [← he], by rw [← he]⟩
  · rw [if_neg hp] at he
    cases he

theorem qdata_slice [Zero α] (a : Arr α) (ha : a.qdata.length = a.data.length) (ax : List Nat) (v : Nat → Nat)
    (qt : Charge) : (a.slice ax v qt).qdata = (a.qdata.filter (a.rowOK ax v)).map (fun r => pick r (keepAx a.rank ax) 0) := by
  have e : ∀ (qd : List (List Nat)) (dt : List (Blk α)), qd.length = dt.length →
      ((qd.zip dt).filter (fun rb => a.rowOK ax v rb.1)).map (fun rb => pick rb.1 (keepAx a.rank ax) 0)
        = (qd.filter (a.rowOK ax v)).map (fun r => pick r (keepAx a.rank ax) 0) := by
    intro qd
    induction qd with
    | nil => intro dt _; rfl
    | cons r rs ih =>
      intro dt hl
      cases dt with
      | nil => simp at hl
      | cons b bs =>
        have := ih bs (by simpa using hl)
        simp only [List.zip_cons_cons, List.filter_cons]
        split
        · simp only [List.map_cons, this]
        · exact this
  exact e a.qdata a.data ha

/-- the slice record is well-formed (the `_qdata_sorted` claim stays true) -/
theorem WF_slice [Zero α] (a : Arr α) (ha : a.WF) (ax : List Nat) (v : Nat → Nat) (qt : Charge) :
    (a.slice ax v qt).WF := by
  obtain ⟨h1, h2, h3, h4, h5, h6, h7⟩ := ha
  have hqd := qdata_slice a h2 ax v qt
  -- two kept rows with equal kept parts are equal
  have hinj : ∀ r ∈ a.qdata.filter (a.rowOK ax v), ∀ s ∈ a.qdata.filter (a.rowOK ax v),
      pick r (keepAx a.rank ax) 0 = pick s (keepAx a.rank ax) 0 → r = s := by
    intro r hr s hs e
    obtain ⟨hr1, hr2⟩ := List.mem_filter.1 hr
    obtain ⟨hs1, hs2⟩ := List.mem_filter.1 hs
    refine eq_of_pick_eq_sl a.rank ax r s (h5 r hr1).1 (h5 s hs1).1 ?_ e
    intro k hk
    rw [(rowOK_iff _ _ _ _).1 hr2 k hk, (rowOK_iff _ _ _ _).1 hs2 k hk]
  refine ⟨?_, ?_, ?_, ?_, ?_, ?_, ?_⟩
  · rw [rank_slice]
    exact pick_length_sl _ _ _
  · show (List.map _ _).length = (List.map _ _).length
    rw [List.length_map, List.length_map]
  · rw [hqd]
    unfold List.Nodup
    rw [List.pairwise_map]
    have : (a.qdata.filter (a.rowOK ax v)).Pairwise (· ≠ ·) := List.Pairwise.filter _ h3
    refine this.imp_of_mem ?_
    intro r s hr hs hne e
    exact hne (hinj r hr s hs e)
  · intro l hl
    rw [lcs_slice] at hl
    obtain ⟨k, hk, rfl⟩ := List.mem_map.1 hl
    exact h4 _ (lc_mem_lcs_sl a k ((mem_keepAx _ _ _).1 hk).1)
  · intro r' hr'
    rw [hqd] at hr'
    obtain ⟨r, hr, rfl⟩ := List.mem_map.1 hr'
    obtain ⟨hr1, _⟩ := List.mem_filter.1 hr
    refine ⟨by rw [pick_length_sl, rank_slice], ?_⟩
    intro j hj
    rw [rank_slice] at hj
    rw [pick_getD_sl _ _ _ _ hj, lc_slice _ _ _ _ _ hj]
    exact (h5 r hr1).2 _ (keepAx_getD_mem _ _ _ hj).1
  · intro rb' hrb'
    obtain ⟨rb, hrb, _, e1, e2⟩ := mem_slice_zip a ax v qt rb' hrb'
    obtain ⟨hsh, hvl⟩ := h6 rb hrb
    obtain ⟨hrl, _⟩ := h5 rb.1 (List.of_mem_zip hrb).1
    have hbr : rb.2.rank = a.rank := by
      unfold Dense.rank
      rw [hsh, blockShapeOf_length_sl _ _ (by rw [lcs_length, hrl]), lcs_length]
    rw [e1, e2, fixAxes_eq, hbr]
    constructor
    · show List.map _ _ = _
      rw [lcs_slice]
      unfold blockShapeOf
      apply ext_getD _ _ 0 (by simp [pick_length_sl])
      intro j hj
      rw [List.length_map] at hj
      obtain ⟨hk, _⟩ := keepAx_getD_mem a.rank ax j hj
      rw [getD_map' _ _ j 0 0 hj, hsh]
      unfold blockShapeOf
      rw [getD_zipWith' _ _ _ _ default 0 0 (by rw [lcs_length]; exact hk) (by rw [hrl]; exact hk),
        getD_zipWith' _ _ _ j default 0 0 (by simpa using hj) (by rw [pick_length_sl]; exact hj),
        lc_eq a _ hk, getD_map' a.lc _ j 0 default hj, pick_getD_sl _ _ _ _ hj]
    · unfold gather
      simp only [List.length_map, allIdx_length]
  · intro hsrt
    have hs := (isLexsorted_iff_sl _).1 (h7 hsrt)
    rw [hqd, isLexsorted_iff_sl]
    unfold natRows at hs ⊢
    rw [List.map_map, List.pairwise_map]
    rw [List.pairwise_map] at hs
    have : (a.qdata.filter (a.rowOK ax v)).Pairwise
        (fun r s => lexLE (r.map Int.ofNat) (s.map Int.ofNat) = true) := List.Pairwise.filter _ hs
    refine this.imp_of_mem ?_
    intro r s hr hs' hrs
    obtain ⟨hr1, hr2⟩ := List.mem_filter.1 hr
    obtain ⟨hs1, hs2⟩ := List.mem_filter.1 hs'
    simp only [Function.comp]
    rw [lexLE_pick_sl a.rank ax r s (h5 r hr1).1 (h5 s hs1).1 (fun k hk => by
      rw [(rowOK_iff _ _ _ _).1 hr2 k hk, (rowOK_iff _ _ _ _).1 hs2 k hk])]
    exact hrs

/-- `take_slice` preserves the storage invariants -/
theorem WF_takeSlice [Zero α] (a r : Arr α) (indices : List Int) (axes : List Ax) (ha : a.WF)
    (ax : List Nat) (hax : a.getLegIndices axes = .ok ax) (hnd : ax.Nodup)
    (h : a.takeSlice indices axes = .ok r) : r.WF := by
  by_cases hne : ax = []
  · rw [(toDense_takeSlice a r indices axes ha ax hax hnd h).2.2.1 hne]
    exact ha
  · obtain ⟨_, _, _, pos, _, hr⟩ := takeSlice_eq a r indices axes ha ax hax hnd hne h
    rw [hr]
    exact WF_slice a ha ax _ _

end Arr

/-! ### non-vacuity -/
namespace C01SliceExample
open C01Example

def legC : Leg := ⟨[1, 3], [0, 1, 2], [[0, 0], [-2, 0]], 1, false, true⟩
/-- rank 3, U(1)×Z₃, `qtotal = (-1,1)`; admissible blocks (0,0,0), (2,0,0) (duplicate sector of leg `a`) and (1,1,1);
(0,0,0) is not stored -/
def t3 : Arr Int :=
  { mods := [1, 3], legs := [.plain legA, .plain legB, .plain legC], qtotal := [-1, 1],
    labels := [some "a", some "b*", some "c"], qdata := [[2, 0, 0], [1, 1, 1]],
    data := [⟨[1, 2, 1], [5, -7]⟩, ⟨[2, 1, 1], [3, 4]⟩], qdataSorted := true }

example : t3.WF ∧ t3.ChargeRule := by decide
example : (t.getLegIndices [.lbl "a"]).toOption = some [0]
    ∧ (t3.getLegIndices [.lbl "c", .idx (-3)]).toOption = some [2, 0] := by decide

example : (t.takeSlice [-1] [.lbl "a"]).toOption.map (fun r => (r.toDense, r.labels, r.qtotal, r.qdata))
    = some (t.toDense.fixAxes [0] [3], [some "b*"], [-1, 0], [[0]]) := by decide
example : (t.takeSlice [-1] [.lbl "a"]).toOption.map (fun r => r.toDense) = some ⟨[3], [5, -7, 0]⟩ := by decide
/-- a slice through a missing block is zero, with the total charge of that block row -/
example : (t.takeSlice [2] [.lbl "a"]).toOption.map (fun r => (r.toDense, r.qtotal, r.qdata))
    = some (⟨[3], [0, 0, 0]⟩, [-2, 2], []) := by decide
/-- two axes given in non-ascending order, one negative index -/
example : (t3.takeSlice [1, -2] [.lbl "c", .idx (-3)]).toOption.map (fun r => (r.toDense, r.labels, r.qtotal, r.qdata))
    = some (t3.toDense.fixAxes [2, 0] [1, 2], [some "b*"], [0, 2], [[1]]) := by decide
example : (t3.takeSlice [1, -2] [.lbl "c", .idx (-3)]).toOption.map (fun r => r.toDense) = some ⟨[3], [0, 0, 4]⟩ := by
  decide
example : (t3.takeSlice [0] [.lbl "c"]).toOption.map (fun r => (r.toDense, decide r.WF))
    = some (⟨[4, 3], [0, 0, 0, 0, 0, 0, 0, 0, 0, 5, -7, 0]⟩, true) := by decide
example : (t3.takeSlice [1] [.lbl "b*"]).toOption.map (fun r => (r.toDense, r.qdata, decide r.WF))
    = some (t3.toDense.fixAxes [1] [1], [[2, 0]], true) := by decide
/-- index out of range / all axes sliced: rejected -/
example : (t.takeSlice [4] [.lbl "a"]).toOption.map (fun r => r.toDense) = none
    ∧ (t.takeSlice [0, 0] [.idx 0, .idx 1]).toOption.map (fun r => r.toDense) = none := by decide

end C01SliceExample
end TenpyModel.Core
