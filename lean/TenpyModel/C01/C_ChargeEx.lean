import TenpyModel.C01.C_Charge2
import TenpyModel.C01.C_Charge3
import TenpyModel.C01.PropsB2
/-!
C01 part C — non-vacuity of the charge-rule closure theorems for `outer`, `tensordot`, `trace` on the example tensors
of parts B / B2 (U(1)×Z₃, duplicate sector, unsorted block lists, `qtotal ≠ 0`).
-/
namespace TenpyModel.C01C.Ex
open TenpyModel.Core TenpyModel.C01B TenpyModel.C01B2 TenpyModel.C01C

/-- `decide`able summary of the conclusion for a tensor-valued result -/
def okArr (v : Except Err (Val Int)) : Bool :=
  match v with
  | .ok (.arr r) => decide (r.ChargeRule ∧ LegsValid r) && !r.qdata.isEmpty
  | _ => false

theorem ok_of_isSome {ε β} (x : Except ε β) (h : x.toOption.isSome = true) : ∃ r, x = .ok r := by
  cases x with
  | error e => simp [Except.toOption] at h
  | ok r => exact ⟨r, rfl⟩

theorem arr_of_okArr (v : Except Err (Val Int)) (h : okArr v = true) : ∃ r, v = .ok (.arr r) := by
  unfold okArr at h
  split at h
  · exact ⟨_, rfl⟩
  · cases h

/-! ### outer -/

/-- hypotheses of `chargeRule_outer` for `t ⊗ v` (1 × 2 stored blocks) -/
example : C01Example.t.WF ∧ C01ExampleB.v.WF ∧ C01Example.t.ChargeRule ∧ C01ExampleB.v.ChargeRule
    ∧ LegsValid C01Example.t ∧ LegsValid C01ExampleB.v := by decide
/-- … and its conclusion, by the theorem and by evaluation -/
example : ∃ r, C01Example.t.outer C01ExampleB.v = .ok r ∧ r.ChargeRule ∧ LegsValid r ∧ r.qdata ≠ [] := by
  obtain ⟨r, h⟩ := ok_of_isSome (C01Example.t.outer C01ExampleB.v) (by decide)
  obtain ⟨h1, h2⟩ := chargeRule_outer C01Example.t C01ExampleB.v r (by decide) (by decide) (by decide) (by decide)
    (by decide) (by decide) h
  refine ⟨r, h, h1, h2, ?_⟩
  have : (C01Example.t.outer C01ExampleB.v).toOption.map (fun r => r.qdata.isEmpty) = some false := by decide
  rw [h] at this
  intro e
  simp [Except.toOption, e] at this
example : (C01Example.t.outer C01ExampleB.v).toOption.map (fun r => decide (r.ChargeRule ∧ LegsValid r)) = some true := by
  decide

/-! ### tensordot -/

/-- worker branch (`m2 ⋅₁ m`, 4 × 3 stored blocks): hypotheses `decide`d (PropsB2), the call returns a tensor
(`tensordot_int_isOk`), the theorem gives the charge rule of the result -/
example : ∃ r, Arr.tensordot false C01ExampleB2.m2 C01ExampleB.m (.int 1) = .ok (.arr r)
    ∧ r.ChargeRule ∧ LegsValid r := by
  obtain ⟨r, hr⟩ := tensordot_int_isOk false C01ExampleB2.m2 C01ExampleB.m 1 rfl (by decide) (by decide) (by decide)
  obtain ⟨h1, h2⟩ := chargeRule_tensordot false C01ExampleB2.m2 C01ExampleB.m (by decide) (by decide) (by decide)
    (by decide) (by decide) (by decide) _ r hr
  exact ⟨r, hr, h1, h2⟩

/-- the rows of that result are pairs of stored rows agreeing on the contracted block index -/
example : ∃ r, Arr.tensordot false C01ExampleB2.m2 C01ExampleB.m (.int 1) = .ok (.arr r)
    ∧ PairRows C01ExampleB2.m2 C01ExampleB.m r 1 ∧ r.qtotal = [0, 0] := by
  obtain ⟨r, hr⟩ := tensordot_int_isOk false C01ExampleB2.m2 C01ExampleB.m 1 rfl (by decide) (by decide) (by decide)
  obtain ⟨_, _, _, _, _, hq, hrows⟩ := tensordot_int_rows false C01ExampleB2.m2 C01ExampleB.m (W.of (by decide))
    (W.of (by decide)) 1 r hr
  refine ⟨r, hr, hrows, ?_⟩
  rw [hq]; decide

/-- one-block shortcut (`t ⋅₁ x1`), evaluated: one stored row, charge rule holds, `qtotal = (1, 0) ≠ 0` -/
example : okArr (Arr.tensordot false C01Example.t C01ExampleB2.x1 (.int 1)) = true := by decide

/-- axis-pair form `tensordot(m2, m, ([0], ['p*']))` (both operands transposed) -/
example : ∃ r, Arr.tensordot false C01ExampleB2.m2 C01ExampleB.m (.pair [.idx 0] [.lbl "p*"]) = .ok (.arr r)
    ∧ r.ChargeRule ∧ LegsValid r := by
  have ht : Arr.tensordotTransposeAxes false C01ExampleB2.m2 C01ExampleB.m (.pair [.idx 0] [.lbl "p*"])
      = .ok (C01ExampleB2.m2.itransposeFast [1, 0], C01ExampleB.m.itransposeFast [1, 0], 1) := rfl
  have he := tensordot_pair_of false _ _ _ _ (by decide) (by decide) _ _ _ ht
  obtain ⟨r, hr⟩ := tensordot_int_isOk false (C01ExampleB2.m2.itransposeFast [1, 0])
    (C01ExampleB.m.itransposeFast [1, 0]) 1 rfl (by decide) (by decide) (by decide)
  rw [← he] at hr
  obtain ⟨h1, h2⟩ := chargeRule_tensordot false C01ExampleB2.m2 C01ExampleB.m (by decide) (by decide) (by decide)
    (by decide) (by decide) (by decide) _ r hr
  exact ⟨r, hr, h1, h2⟩

/-! ### trace -/

/-- `s3`: rank 3, three diagonal blocks accumulate, one off-diagonal block of the duplicate sector is skipped -/
example : C01ExampleB2T.s3.WF ∧ C01ExampleB2T.s3.ChargeRule ∧ LegsValid C01ExampleB2T.s3 := by decide
example : okArr (C01ExampleB2T.s3.trace (.lbl "a") (.lbl "a*")) = true
    ∧ okArr (C01ExampleB2T.s3.trace (.idx (-1)) (.idx 0)) = true := by decide
example : ∃ r, C01ExampleB2T.s3.trace (.lbl "a") (.lbl "a*") = .ok (.arr r) ∧ r.ChargeRule ∧ LegsValid r := by
  obtain ⟨r, h⟩ := arr_of_okArr _ (show okArr (C01ExampleB2T.s3.trace (.lbl "a") (.lbl "a*")) = true by decide)
  obtain ⟨h1, h2⟩ := chargeRule_trace C01ExampleB2T.s3 (by decide) (by decide) (by decide) _ _ r h
  exact ⟨r, h, h1, h2⟩

end TenpyModel.C01C.Ex
