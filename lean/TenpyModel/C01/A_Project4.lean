import TenpyModel.C01.A_Project3
/-!
C01 part A — `iproject`, step 4: the cached claim `_qdata_sorted` stays true (dropping rows and relabelling one
column by the order-preserving `map_qind` keeps a lexsorted `_qdata` lexsorted), hence `iproject` preserves the full
invariant `Arr.WF`; non-vacuity examples.
-/
namespace TenpyModel.Core

/-- `lexLE.go` only looks at the position-wise comparisons -/
theorem lexLE_go_congr_pj : ∀ (a b a' b' : List Int), a.length = b.length → a'.length = a.length →
    b'.length = a.length →
    (∀ i, (a.getD i 0 < b.getD i 0 ↔ a'.getD i 0 < b'.getD i 0) ∧ (b.getD i 0 < a.getD i 0 ↔ b'.getD i 0 < a'.getD i 0)) →
    lexLE.go a b = lexLE.go a' b'
  | [], [], [], [], _, _, _, _ => rfl
  | [], _ :: _, _, _, h, _, _, _ => by simp at h
  | [], [], _ :: _, _, _, h, _, _ => by simp at h
  | [], [], [], _ :: _, _, _, h, _ => by simp at h
  | _ :: _, [], _, _, h, _, _, _ => by simp at h
  | _ :: _, _ :: _, [], _, _, h, _, _ => by simp at h
  | _ :: _, _ :: _, _ :: _, [], _, _, h, _ => by simp at h
  | x :: xs, y :: ys, x' :: xs', y' :: ys', h1, h2, h3, h => by
    have h0 := h 0
    simp only [List.getD_cons_zero] at h0
    have ih := lexLE_go_congr_pj xs ys xs' ys' (by simpa using h1) (by simpa using h2) (by simpa using h3)
      (fun i => by simpa using h (i + 1))
    simp only [lexLE.go]
    by_cases c1 : x < y
    · rw [if_pos c1, if_pos (h0.1.1 c1)]
    · rw [if_neg c1, if_neg (fun c => c1 (h0.1.2 c))]
      by_cases c2 : y < x
      · rw [if_pos c2, if_pos (h0.2.1 c2)]
      · rw [if_neg c2, if_neg (fun c => c2 (h0.2.2 c))]
        exact ih

theorem getD_reverse_map_pj (r : List Nat) (i : Nat) :
    ((r.map Int.ofNat).reverse).getD i 0 = if i < r.length then Int.ofNat (r.getD (r.length - 1 - i) 0) else 0 := by
  split
  next hi =>
    rw [List.getD_eq_getElem?_getD, List.getElem?_reverse (by simpa using hi), List.length_map,
      ← List.getD_eq_getElem?_getD, getD_map' Int.ofNat r _ 0 0 (by omega)]
  next hi => exact getD_ge _ _ _ (by simpa using hi)

theorem isLexsorted_iff_pj (rows : List (List Nat)) :
    isLexsorted rows = true ↔ rows.Pairwise (fun r s => lexLE (r.map Int.ofNat) (s.map Int.ofNat) = true) := by
  unfold isLexsorted lexsortNat natRows
  rw [beq_iff_eq]
  have hl : rows.length = (rows.map (fun r => r.map Int.ofNat)).length := by simp
  rw [hl]
  constructor
  · intro h
    have := sorted_of_lexsort _ h
    rwa [List.pairwise_map] at this
  · intro h
    exact lexsort_of_sorted _ (by rwa [List.pairwise_map])

namespace Leg

/-- `map_qind` is strictly increasing on the kept blocks -/
theorem project_mapQ_lt_iff (l : Leg) (mask : List Bool) (h : l.Shape) (q1 q2 : Nat) (h1 : q1 < l.blockNumber)
    (h2 : q2 < l.blockNumber) (p1 : 0 ≤ (l.project mask).1.getD q1 (-1)) (p2 : 0 ≤ (l.project mask).1.getD q2 (-1)) :
    ((l.project mask).1.getD q1 (-1)).toNat < ((l.project mask).1.getD q2 (-1)).toNat ↔ q1 < q2 := by
  obtain ⟨a1, a2⟩ := project_mapQ_spec l mask h q1 h1 p1
  obtain ⟨b1, b2⟩ := project_mapQ_spec l mask h q2 h2 p2
  rw [project_blockNumber] at a1 b1
  have := smono_getD_lt_iff _ (projKeep_sorted l mask) _ _ a1 b1
  rw [a2, b2] at this
  exact this.symm

end Leg

namespace Arr
variable {α : Type}

/-- relabelling column `k` by `map_qind` keeps the order of two kept rows -/
theorem lexLE_projRow (l : Leg) (mask : List Bool) (hs : l.Shape) (k : Nat) (r s : List Nat) (hl : r.length = s.length)
    (hk : k < r.length) (hr : r.getD k 0 < l.blockNumber) (hsk : s.getD k 0 < l.blockNumber)
    (pr : projKeepRow (l.project mask).1 k r = true) (ps : projKeepRow (l.project mask).1 k s = true) :
    lexLE ((projRow (l.project mask).1 k r).map Int.ofNat) ((projRow (l.project mask).1 k s).map Int.ofNat)
      = lexLE (r.map Int.ofNat) (s.map Int.ofNat) := by
  unfold projKeepRow at pr ps
  rw [decide_eq_true_eq] at pr ps
  have hmono := Leg.project_mapQ_lt_iff l mask hs _ _ hr hsk pr ps
  have hmono' := Leg.project_mapQ_lt_iff l mask hs _ _ hsk hr ps pr
  unfold lexLE
  apply lexLE_go_congr_pj
  · simp [projRow_length, hl]
  · simp [projRow_length]
  · simp [projRow_length, hl]
  · intro i
    rw [getD_reverse_map_pj, getD_reverse_map_pj, getD_reverse_map_pj, getD_reverse_map_pj, projRow_length,
      projRow_length, ← hl]
    by_cases hi : i < r.length
    · simp only [if_pos hi]
      by_cases hjk : k = r.length - 1 - i
      · rw [← hjk, projRow_getD_eq _ _ _ hk, projRow_getD_eq _ _ _ (by omega)]
        simp only [Int.ofNat_eq_natCast, Int.ofNat_lt]
        exact ⟨hmono, hmono'⟩
      · rw [projRow_getD_ne _ _ _ _ hjk, projRow_getD_ne _ _ _ _ hjk]
        exact ⟨Iff.rfl, Iff.rfl⟩
    · simp only [if_neg hi]
      exact ⟨trivial, trivial⟩

/-- one projection step keeps a lexsorted `_qdata` lexsorted -/
theorem proj1_isLexsorted [Zero α] (a : Arr α) (mask : List Bool) (k : Nat) (ha : a.WF0) (hk : k < a.rank)
    (hsrt : isLexsorted a.qdata = true) : isLexsorted (a.proj1 (mask, k)).qdata = true := by
  obtain ⟨_, w2, _, w4, w5, _⟩ := ha
  have hlmem : a.lc k ∈ a.lcs := by
    rw [← lc_eq a k hk]; exact getD_mem _ _ _ (by rw [lcs_length]; exact hk)
  have hs : (a.lc k).Shape := (w4 _ hlmem).shape
  rw [isLexsorted_iff_pj] at hsrt ⊢
  rw [proj1_qdata a mask k w2]
  refine List.Pairwise.filterMap _ ?_ (List.Pairwise.and_mem.1 hsrt)
  intro r s ⟨hr, hs', hle⟩ b hb b' hb'
  split at hb
  next pr =>
    split at hb'
    next ps =>
      simp only [Option.some.injEq] at hb hb'
      rw [← hb, ← hb', lexLE_projRow (a.lc k) mask hs k r s (by rw [(w5 r hr).1, (w5 s hs').1])
        (by rw [(w5 r hr).1]; exact hk) ((w5 r hr).2 k hk) ((w5 s hs').2 k hk) pr ps]
      exact hle
    next => simp at hb'
  next => simp at hb

/-- one projection step preserves the full storage invariant -/
theorem proj1_WF [Zero α] (a : Arr α) (mask : List Bool) (k : Nat) (ha : a.WF) (hk : k < a.rank)
    (hm : mask.length = a.shape.getD k 0) : (a.proj1 (mask, k)).WF :=
  (proj1_spec a mask k ha.wf0 hk hm).2.wf (fun h => proj1_isLexsorted a mask k ha.wf0 hk (ha.2.2.2.2.2.2 h))

theorem foldl_proj1_WF [Zero α] (L : List (List Bool × Nat)) : ∀ (a : Arr α), a.WF → (L.map (·.2)).Nodup →
    (∀ mk ∈ L, mk.2 < a.rank ∧ mk.1.length = a.shape.getD mk.2 0) → (L.foldl proj1 a).WF := by
  induction L with
  | nil => intro a ha _ _; exact ha
  | cons mk L ih =>
    intro a ha hnd hL
    rw [List.map_cons, List.nodup_cons] at hnd
    obtain ⟨hk, hm⟩ := hL mk (by simp)
    rw [List.foldl_cons]
    refine ih (a.proj1 mk) (proj1_WF a mk.1 mk.2 ha hk hm) hnd.2 ?_
    intro mk' hmk'
    obtain ⟨hk', hm'⟩ := hL mk' (by simp [hmk'])
    have hne : mk.2 ≠ mk'.2 := fun e => hnd.1 (e ▸ List.mem_map_of_mem hmk')
    refine ⟨by rw [proj1_rank]; exact hk', ?_⟩
    rw [proj1_shape, getD_set_ne_pj _ _ _ _ _ hne]
    exact hm'

/-- **`iproject` preserves the storage invariants** (pairwise distinct axes) -/
theorem iproject_WF [Zero α] (a r : Arr α) (masks : List Mask) (axes : List Ax) (ha : a.WF)
    (ax : List Nat) (hax : a.getLegIndices axes = .ok ax) (hnd : ax.Nodup)
    (bmasks : List (List Bool))
    (hbm : (masks.zip ax).mapM (fun mk => mk.1.toBools (a.shape.getD mk.2 0)) = .ok bmasks)
    (h : a.iproject masks axes = .ok r) : r.WF := by
  obtain ⟨hlen, hcase⟩ := iproject_ok a r masks axes ax hax bmasks hbm h
  have hfin := (toDense_iproject_wf0 a r masks axes ha.wf0 ax hax hnd bmasks hbm h).2.2.2.2.2
  have hbl : bmasks.length = ax.length := by
    rw [mapM_ok_length_pj _ _ _ hbm, List.length_zip, hlen, Nat.min_self]
  have hsnd : (bmasks.zip ax).map (·.2) = ax := List.map_snd_zip (by omega)
  rcases hcase with ⟨_, hr⟩ | ⟨hm, _⟩
  · rw [hr]; exact ha
  · have hlt : ∀ k ∈ ax, k < a.rank :=
      mapM_ok_forall_pj a.getLegIndex (fun k => k < a.rank) (fun x k hk => getLegIndex_lt_pj a ha.1 x k hk) axes ax hax
    rw [hfin]
    exact foldl_proj1_WF (bmasks.zip ax) a ha (by rw [hsnd]; exact hnd)
      (fun mk hmk => ⟨hlt _ (List.of_mem_zip hmk).2, hm mk hmk⟩)

/-- **`iproject`, full statement**: dense form, labels, total charge, invariants -/
theorem toDense_iproject_full [Zero α] (a r : Arr α) (masks : List Mask) (axes : List Ax) (ha : a.WF)
    (ax : List Nat) (hax : a.getLegIndices axes = .ok ax) (hnd : ax.Nodup)
    (bmasks : List (List Bool))
    (hbm : (masks.zip ax).mapM (fun mk => mk.1.toBools (a.shape.getD mk.2 0)) = .ok bmasks)
    (h : a.iproject masks axes = .ok r) :
    r.toDense = (bmasks.zip ax).foldl (fun d mk => d.compress mk.2 mk.1) a.toDense ∧ r.labels = a.labels
      ∧ r.qtotal = a.qtotal ∧ r.WF := by
  obtain ⟨t1, t2, t3⟩ := toDense_iproject a r masks axes ha ax hax hnd bmasks hbm h
  exact ⟨t1, t2, t3, iproject_WF a r masks axes ha ax hax hnd bmasks hbm h⟩

/-- **`iproject` along a single axis** = `np.compress(mask, ·, axis)`; invariants preserved -/
theorem toDense_iproject_single [Zero α] (a r : Arr α) (m : Mask) (x : Ax) (ha : a.WF) (k : Nat)
    (hk : a.getLegIndex x = .ok k) (bmask : List Bool) (hbm : m.toBools (a.shape.getD k 0) = .ok bmask)
    (h : a.iproject [m] [x] = .ok r) :
    r.toDense = a.toDense.compress k bmask ∧ r.labels = a.labels ∧ r.qtotal = a.qtotal ∧ r.WF := by
  have hbm' : ([m].zip [k]).mapM (fun mk => mk.1.toBools (a.shape.getD mk.2 0)) = .ok [bmask] := by
    rw [List.zip_cons_cons, List.zip_nil_left, List.mapM_cons, List.mapM_nil]
    simp only [hbm, bind, Except.bind, pure, Except.pure]
  exact toDense_iproject_full a r [m] [x] ha [k] (getLegIndices_single a x k hk) (by simp) [bmask] hbm' h

end Arr
end TenpyModel.Core

/-! ### non-vacuity: the U(1)×Z₃ tensor of `C01/Props.lean` (duplicate sector, missing block, `qtotal ≠ 0`) -/
section
open TenpyModel.Core

example : C01Example.t.WF := by decide

/-- single axis, boolean mask: block 1 of leg `a` shrinks, all three blocks survive -/
example : (C01Example.t.getLegIndex (.idx 0)).toOption = some 0
    ∧ ((Arr.Mask.bools [true, false, true, true]).toBools (C01Example.t.shape.getD 0 0)).toOption
        = some [true, false, true, true]
    ∧ (C01Example.t.iproject [.bools [true, false, true, true]] [.idx 0]).toOption.map (fun r => r.toDense)
        = some (C01Example.t.toDense.compress 0 [true, false, true, true])
    ∧ C01Example.t.toDense.compress 0 [true, false, true, true] = ⟨[3, 3], [0, 0, 0, 0, 0, 0, 5, -7, 0]⟩ := by decide

/-- single axis: block 0 of leg `a` is dropped, the stored row `[2, 0]` is relabelled to `[1, 0]` -/
example : (C01Example.t.iproject [.bools [false, true, true, true]] [.lbl "a"]).toOption.map
      (fun r => (r.qdata, r.toDense, decide r.WF))
    = some ([[1, 0]], ⟨[3, 3], [0, 0, 0, 0, 0, 0, 5, -7, 0]⟩, true) := by decide

/-- the stored block is dropped altogether -/
example : (C01Example.t.iproject [.bools [true, true, true, false]] [.lbl "a"]).toOption.map
      (fun r => (r.qdata, r.toDense, decide r.WF))
    = some ([], ⟨[3, 3], [0, 0, 0, 0, 0, 0, 0, 0, 0]⟩, true) := by decide

/-- two axes, one boolean and one integer mask (negative index) -/
example : (C01Example.t.getLegIndices [.idx 0, .lbl "b*"]).toOption = some [0, 1]
    ∧ (([Arr.Mask.bools [false, true, false, true], Arr.Mask.ints [1, -3]].zip [0, 1]).mapM
        (fun (mk : Arr.Mask × Nat) => mk.1.toBools (C01Example.t.shape.getD mk.2 0))).toOption
        = some [[false, true, false, true], [true, true, false]]
    ∧ (C01Example.t.iproject [.bools [false, true, false, true], .ints [1, -3]] [.idx 0, .lbl "b*"]).toOption.map
        (fun r => (r.toDense, decide r.WF))
      = some (([[false, true, false, true], [true, true, false]].zip [0, 1]).foldl
          (fun d mk => d.compress mk.2 mk.1) C01Example.t.toDense, true)
    ∧ ([[false, true, false, true], [true, true, false]].zip [0, 1]).foldl
          (fun d mk => d.compress mk.2 mk.1) C01Example.t.toDense = ⟨[2, 2], [0, 0, 5, -7]⟩ := by decide
end

