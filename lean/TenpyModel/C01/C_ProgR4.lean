import TenpyModel.C01.C_ProgR3
import TenpyModel.C01.B2_Prog
/-!
C01 part C — reference semantics on reference objects with legs for the programs of part B2 (`C01ProgAB`: part A's
operations, `outer`, `tensordot` with an integer or a pair of axis lists, `trace`): `C01ProgAB.evalRefR`, its values and
labels are those of `C01ProgAB.evalRef`; and `mods` of a tensor-valued `tensordot`.
-/
namespace TenpyModel.C01C.ProgR
open TenpyModel.Core TenpyModel.C01B TenpyModel.C01B2

variable {α : Type}

/-- a tensor-valued `tensordot(a, b, k)` works over the `chinfo` of `a` -/
theorem tensordot_int_mods [CommSemiring α] (cy : Bool) (a b r : Arr α) (k : Nat)
    (h : Arr.tensordot cy a b (.int (k : Int)) = .ok (.arr r)) : r.mods = a.mods := by
  unfold Arr.tensordot at h
  cases ht : Arr.tensordotTransposeAxes cy a b (.int (k : Int)) with
  | error e => rw [ht] at h; simp [bind, Except.bind] at h
  | ok t =>
    obtain ⟨a', b', k'⟩ := t
    obtain ⟨rfl, rfl, rfl, _⟩ := tensordotTranspose_int cy a b a' b' k k' ht
    rw [ht] at h
    simp only [bind, Except.bind, pure, Except.pure] at h
    split at h
    · cases h
    · split at h
      · cases hz : (Arr.zeros a'.mods (a'.legs.take (a'.rank - k') ++ b'.legs.drop k')
            (some (cadd a'.qtotal b'.qtotal)) none : Except Err (Arr α)) with
        | error e => rw [hz] at h; simp at h
        | ok res =>
          rw [hz] at h
          have hres := zeros_ok _ _ _ _ hz
          simp only [Except.ok.injEq, Val.arr.injEq] at h
          rw [← h]
          split <;> rw [hres]
      · split at h
        · cases ho : a'.outer b' with
          | error e => rw [ho] at h; simp at h
          | ok r' =>
            rw [ho] at h
            simp only [Except.ok.injEq, Val.arr.injEq] at h
            rw [← h]
            exact (outer_ok a' b' r' ho).2.1
        · cases hw : Arr.tensordotWorker a' b' k' with
          | error e => rw [hw] at h; simp at h
          | ok res =>
            rw [hw] at h
            simp only [Except.ok.injEq, Val.arr.injEq] at h
            rw [← h]
            exact (worker_spec a' b' res k' hw).1

end TenpyModel.C01C.ProgR

namespace TenpyModel.Core
open Arr (permuteList)

namespace C01ProgAB
variable {α : Type}

/-- **reference semantics on reference objects with legs** for part B2's programs. `d`, `labels`: as `evalRef`.
`legs`: `outer` — both leg lists; `tensordot(·,·,k)` — the first `rank - k` legs of the first operand, then the legs of
the second one after its first `k`; `tensordot` with axis lists — the same on the operands permuted by
`_tensordot_transpose_axes`; `trace` — the remaining legs in order; `partA p x y` — `p.evalRefR` on the two computed
operands. `mods`: that of the first operand. -/
def evalRefR [Zero α] [Neg α] [Add α] [Mul α] (st : α → α) (env : List (RObj α)) : C01ProgAB α → RObj α
  | .input i => env.getD i RObj.empty
  | .partA p x y => p.evalRefR st [evalRefR st env x, evalRefR st env y]
  | .outer x y =>
    let u := evalRefR st env x
    let v := evalRefR st env y
    ⟨Dense.outer u.d v.d, Label.dropDuplicate u.labels v.labels, u.legs ++ v.legs, u.mods⟩
  | .tensordot k x y =>
    let u := evalRefR st env x
    let v := evalRefR st env y
    ⟨Dense.tensordot u.d v.d k, Label.dropDuplicate (u.labels.take (u.d.rank - k)) (v.labels.drop k),
     u.legs.take (u.d.rank - k) ++ v.legs.drop k, u.mods⟩
  | .tensordotAxes xa xb x y =>
    let u := evalRefR st env x
    let v := evalRefR st env y
    let k := (u.ld.axs xa).length
    ⟨Dense.tensordot (u.d.transpose (dotPa u.ld xa)) (v.d.transpose (dotPb v.ld xb)) k,
     Label.dropDuplicate ((permuteList u.labels (dotPa u.ld xa) none).take (u.d.rank - k))
       ((permuteList v.labels (dotPb v.ld xb) none).drop k),
     (permuteList u.legs (dotPa u.ld xa) default).take (u.d.rank - k)
       ++ (permuteList v.legs (dotPb v.ld xb) default).drop k,
     u.mods⟩
  | .trace l1 l2 x =>
    let u := evalRefR st env x
    ⟨Dense.trace u.d (u.ld.ax l1) (u.ld.ax l2),
     pick u.labels ((List.range u.d.rank).filter (fun k => k ≠ u.ld.ax l1 ∧ k ≠ u.ld.ax l2)) none,
     pick u.legs ((List.range u.d.rank).filter (fun k => k ≠ u.ld.ax l1 ∧ k ≠ u.ld.ax l2)) default,
     u.mods⟩

/-- values and labels of `evalRefR` are exactly those of part B2's reference semantics `evalRef` -/
theorem evalRefR_ld [Zero α] [Neg α] [Add α] [Mul α] (st : α → α) (env : List (RObj α)) (p : C01ProgAB α) :
    (evalRefR st env p).ld = evalRef st (env.map RObj.ld) p := by
  induction p with
  | input i => exact (RObj.getD_map_ld env i).symm
  | partA p x y ihx ihy =>
    simp only [evalRef, evalRefR, ← ihx, ← ihy]
    exact C01ProgA.evalRefR_ld st _ p
  | outer x y ihx ihy => simp only [evalRef, ← ihx, ← ihy]; rfl
  | tensordot k x y ihx ihy => simp only [evalRef, ← ihx, ← ihy]; rfl
  | tensordotAxes xa xb x y ihx ihy => simp only [evalRef, ← ihx, ← ihy]; rfl
  | trace l1 l2 x ihx => simp only [evalRef, ← ihx]; rfl

theorem evalRefR_d [Zero α] [Neg α] [Add α] [Mul α] (st : α → α) (env : List (RObj α)) (p : C01ProgAB α) :
    (evalRefR st env p).d = (evalRef st (env.map RObj.ld) p).d := congrArg LDense.d (evalRefR_ld st env p)

theorem evalRefR_labels [Zero α] [Neg α] [Add α] [Mul α] (st : α → α) (env : List (RObj α)) (p : C01ProgAB α) :
    (evalRefR st env p).labels = (evalRef st (env.map RObj.ld) p).labels :=
  congrArg LDense.labels (evalRefR_ld st env p)

end C01ProgAB
end TenpyModel.Core
