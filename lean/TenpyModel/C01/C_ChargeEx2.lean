import TenpyModel.C01.C_Charge6
import TenpyModel.C01.B2_CombEx
/-!
C01 part C — non-vacuity of the charge-rule closure theorems for `combine_legs` on `Comb.Ex.t3` (rank 3 over U(1)×Z₃,
duplicate sector, two stored blocks in unsorted order, `qtotal = (-1, 1) ≠ 0`; `_combine_legs_worker` branch).
-/
namespace TenpyModel.C01C.Ex2
open TenpyModel.Core TenpyModel.C01B TenpyModel.C01B2 TenpyModel.C01B2.Comb TenpyModel.C01C

theorem ok_of_isSome {ε β} (x : Except ε β) (h : x.toOption.isSome = true) : ∃ r, x = .ok r := by
  cases x with
  | error e => simp [Except.toOption] at h
  | ok r => exact ⟨r, rfl⟩

theorem pipesOK_pBC : PipesOK Ex.t3 [[1, 2]] [Ex.pBC] := by
  intro g hg
  have : g = 0 := by simpa using hg
  subst this
  exact ⟨1, true, true, _, rfl⟩

theorem pipesOK_pAB : PipesOK Ex.t3 [[0, 1]] [Ex.pAB] := by
  intro g hg
  have : g = 0 := by simpa using hg
  subst this
  exact ⟨-1, false, false, _, rfl⟩

/-- hypotheses of `chargeRule_combineStd` -/
example : Ex.t3.WF ∧ Ex.t3.ChargeRule ∧ LegsValid Ex.t3 ∧ StdForm Ex.t3.rank [[1, 2]] [1]
    ∧ StdForm Ex.t3.rank [[0, 1]] [0] ∧ PipesQ [Ex.pBC] ∧ PipesQ [Ex.pAB] := by decide

/-- standard form, spectator leg 0, sorted + bunched pipe of direction `+1` over legs 1, 2: by the theorem … -/
example : ∃ r, Ex.t3.combineStd [[1, 2]] [1] [Ex.pBC] ["a", "b", "?2"] = .ok r ∧ r.ChargeRule ∧ LegsValid r := by
  obtain ⟨r, h⟩ := ok_of_isSome (Ex.t3.combineStd [[1, 2]] [1] [Ex.pBC] ["a", "b", "?2"]) (by decide)
  obtain ⟨h1, h2⟩ := chargeRule_combineStd Ex.t3 r (by decide) (by decide) (by decide) _ _ _ _ rfl rfl pipesOK_pBC
    (by decide) (by decide) h
  exact ⟨r, h, h1, h2⟩
/-- … and by evaluation (two stored rows, `qtotal ≠ 0`) -/
example : (Ex.t3.combineStd [[1, 2]] [1] [Ex.pBC] ["a", "b", "?2"]).toOption.map
      (fun r => (decide (r.ChargeRule ∧ LegsValid r), r.qdata, r.qtotal)) = some (true, [[0, 0], [2, 0]], [-1, 1]) := by
  decide
/-- unsorted pipe of direction `-1` over legs 0, 1 -/
example : ∃ r, Ex.t3.combineStd [[0, 1]] [0] [Ex.pAB] ["a", "b", "?2"] = .ok r ∧ r.ChargeRule ∧ LegsValid r := by
  obtain ⟨r, h⟩ := ok_of_isSome (Ex.t3.combineStd [[0, 1]] [0] [Ex.pAB] ["a", "b", "?2"]) (by decide)
  obtain ⟨h1, h2⟩ := chargeRule_combineStd Ex.t3 r (by decide) (by decide) (by decide) _ _ _ _ rfl rfl pipesOK_pAB
    (by decide) (by decide) h
  exact ⟨r, h, h1, h2⟩
example : (Ex.t3.combineStd [[0, 1]] [0] [Ex.pAB] ["a", "b", "?2"]).toOption.map
      (fun r => decide (r.ChargeRule ∧ LegsValid r) && !r.qdata.isEmpty) = some true := by decide

/-- a pipe of direction `2` (insane: `qconj ∉ {+1, -1}`) breaks the charge rule — the hypothesis `PipesQ` is needed -/
example : (Ex.t3.combineStd [[1, 2]] [1] [ALeg.mkPipe [.plain Ex.legB, .plain Ex.legC] 2 true true] ["a", "b", "?2"]).toOption.map
      (fun r => decide r.ChargeRule) = some false := by decide

/-- the public `combine_legs`, no transposition: `t3.combine_legs([1, 2], qconj=+1)` -/
example : ∃ r, Ex.t3.combineLegs [[.idx 1, .idx 2]] none none [some 1] = .ok r ∧ r.ChargeRule ∧ LegsValid r := by
  obtain ⟨r, h⟩ := ok_of_isSome (Ex.t3.combineLegs [[.idx 1, .idx 2]] none none [some 1]) (by decide)
  obtain ⟨h1, h2⟩ := chargeRule_combineLegs Ex.t3 r (by decide) (by decide) (by decide) _ none none [some 1]
    [Ex.pBC] [[1, 2]] [1] (List.range Ex.t3.rank) rfl (by decide) (by decide) pipesOK_pBC (by decide) (by decide) h
  exact ⟨r, h, h1, h2⟩
/-- the public `combine_legs` with its transposition step: `t3.combine_legs([2, 0])` (`transp = [1, 2, 0]`) -/
theorem pipesOK_pCA : PipesOK Ex.t3 [[2, 0]] [ALeg.mkPipe [.plain Ex.legC, .plain Ex.legA] 1 true true] := by
  intro g hg
  have : g = 0 := by simpa using hg
  subst this
  exact ⟨1, true, true, _, rfl⟩
example : ∃ r, Ex.t3.combineLegs [[.idx 2, .idx 0]] none none [some 1] = .ok r ∧ r.ChargeRule ∧ LegsValid r := by
  obtain ⟨r, h⟩ := ok_of_isSome (Ex.t3.combineLegs [[.idx 2, .idx 0]] none none [some 1]) (by decide)
  obtain ⟨h1, h2⟩ := chargeRule_combineLegs Ex.t3 r (by decide) (by decide) (by decide) _ none none [some 1]
    [ALeg.mkPipe [.plain Ex.legC, .plain Ex.legA] 1 true true] [[2, 0]] [1] [1, 2, 0] rfl (by decide) (by decide)
    pipesOK_pCA (by decide) (by decide) h
  exact ⟨r, h, h1, h2⟩
example : (Ex.t3.combineLegs [[.idx 2, .idx 0]] none none [some 1]).toOption.map
      (fun r => decide (r.ChargeRule ∧ LegsValid r) && !r.qdata.isEmpty) = some true := by decide

end TenpyModel.C01C.Ex2
