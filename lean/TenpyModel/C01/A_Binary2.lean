import TenpyModel.C01.A_Binary
import TenpyModel.C01.A_Merge5
/-!
C01 part A — the public binary operations `ibinary_blockwise(f, other)` and `iadd_prefactor_other(p, other)`
(both kernel variants): label transposition + argument checks + `isort_qdata` of both operands + merge.
-/
namespace TenpyModel.Core
open Arr (permuteList)

namespace Arr
variable {α : Type}

theorem isortQdata_qtotal (a : Arr α) : a.isortQdata.qtotal = a.qtotal ∧ a.isortQdata.mods = a.mods := by
  unfold isortQdata
  split
  · exact ⟨rfl, rfl⟩
  · split <;> exact ⟨rfl, rfl⟩

theorem shape_of_slices (a b : Arr α) (hs : a.lcs.map Leg.slices = b.lcs.map Leg.slices) : a.shape = b.shape := by
  have : ∀ x : Arr α, x.shape = (x.lcs.map Leg.slices).map (fun s => s.getLastD 0) := by
    intro x
    simp [shape, Leg.indLen, List.map_map, Function.comp_def]
  rw [this a, this b, hs]

/-- what the common part of the binary operations returns -/
theorem binaryCore_spec [Zero α] (f : α → α → α) (hf : f 0 0 = 0) (a b : Arr α) (ha : a.WF) (hb : b.WF)
    (b1 : Arr α) (tr : Bool) (hts : b.transposeSameLabels a.labels = (b1, tr)) (hchk : binaryCheck a b1 = .ok ())
    (r b' : Arr α)
    (hr : r = { a.isortQdata with
      qdata := (mergeBlocks f a.blockNumbers a.isortQdata.qdata a.isortQdata.data b1.isortQdata.qdata b1.isortQdata.data).1,
      data := (mergeBlocks f a.blockNumbers a.isortQdata.qdata a.isortQdata.data b1.isortQdata.qdata b1.isortQdata.data).2 })
    (hb' : b' = if tr then b else b1.isortQdata) :
    IsPerm (sameLabelsAx b.labels b.rank a.labels) b.rank
      ∧ r.toDense = Dense.zipWith f a.toDense (b.toDense.transpose (sameLabelsAx b.labels b.rank a.labels))
      ∧ r.legs = a.legs ∧ r.labels = a.labels ∧ r.qtotal = a.qtotal ∧ r.WF
      ∧ b'.toDense = b.toDense ∧ b'.legs = b.legs ∧ b'.labels = b.labels ∧ b'.WF := by
  obtain ⟨hp, h1, h6, h7⟩ := transposeSameLabels_ax b a.labels hb
  rw [hts] at h1 h6 h7
  simp only at h1 h6 h7
  obtain ⟨hd, hd'⟩ := toDense_ibinaryCore f hf a b1 ha h6 hchk
  obtain ⟨hw, hw'⟩ := WF_ibinaryCore f a b1 ha h6 hchk
  refine ⟨hp, ?_, ?_, ?_, ?_, ?_, ?_, ?_, ?_, ?_⟩
  · rw [hr, hd, h1]
  · rw [hr]; exact (isortQdata_fields a).1
  · rw [hr]; exact (isortQdata_fields a).2
  · rw [hr]; exact (isortQdata_qtotal a).1
  · rw [hr]; exact hw
  · cases tr with
    | true => rw [hb']; rfl
    | false =>
      have := h7 rfl
      subst this
      rw [hb']
      exact hd'
  · cases tr with
    | true => rw [hb']; rfl
    | false =>
      have := h7 rfl
      subst this
      rw [hb']
      exact (isortQdata_fields _).1
  · cases tr with
    | true => rw [hb']; rfl
    | false =>
      have := h7 rfl
      subst this
      rw [hb']
      exact (isortQdata_fields _).2
  · cases tr with
    | true => rw [hb']; exact hb
    | false => rw [hb']; exact hw'

/-- **`self.ibinary_blockwise(f, other)`** for `f` with `f 0 0 = 0`: whenever the call succeeds, the new `self` is
the entry-wise `f` of the dense forms (with `other` transposed to the label order of `self`: `ax` is the identity
unless `_transpose_same_labels` made a transposed copy); legs, labels and total charge of `self` are kept; the
operand `other` keeps its dense form (it may have been lexsorted in place); both stay well formed. -/
theorem ibinaryBlockwise_spec [Zero α] (f : α → α → α) (hf : f 0 0 = 0) (a b r b' : Arr α) (ha : a.WF) (hb : b.WF)
    (h : a.ibinaryBlockwise f b = .ok (r, b')) :
    IsPerm (sameLabelsAx b.labels b.rank a.labels) b.rank
      ∧ r.toDense = Dense.zipWith f a.toDense (b.toDense.transpose (sameLabelsAx b.labels b.rank a.labels))
      ∧ r.legs = a.legs ∧ r.labels = a.labels ∧ r.qtotal = a.qtotal ∧ r.WF
      ∧ b'.toDense = b.toDense ∧ b'.legs = b.legs ∧ b'.labels = b.labels ∧ b'.WF := by
  rcases hts : b.transposeSameLabels a.labels with ⟨b1, tr⟩
  simp only [ibinaryBlockwise, hts, bind, Except.bind, pure, Except.pure] at h
  cases hchk : binaryCheck a b1 with
  | error e => simp [hchk] at h
  | ok u =>
    simp only [hchk, Except.ok.injEq, Prod.mk.injEq] at h
    exact binaryCore_spec f hf a b ha hb b1 tr hts hchk r b' h.1.symm h.2.symm

theorem toDense_add_zero [Zero α] [Add α] [Mul α] (hz : ∀ x : α, x * 0 = 0) (hadd : ∀ x : α, x + 0 = x)
    (a b : Arr α) (hs : a.shape = b.shape) :
    a.toDense = Dense.zipWith (fun x y => x + y * 0) a.toDense b.toDense := by
  unfold toDense
  rw [← hs, Dense.zipWith_ofFn]
  apply Dense.ofFn_congr
  intro idx
  rw [hz, hadd]

/-- **`self.iadd_prefactor_other(p, other)`** (`a + b`: `p = 1`; `a - b`: `p = -1`), both kernel variants: the new
`self` is `self + p * other` entry-wise (with `other` transposed to the label order of `self`). -/
theorem iaddPrefactorOther_spec [Zero α] [Add α] [Mul α] [DecidableEq α] (hz : ∀ x : α, x * 0 = 0)
    (hz' : ∀ s : α, 0 * s = 0) (hadd : ∀ x : α, x + 0 = x) (cy : Bool) (a b r b' : Arr α) (p : α)
    (ha : a.WF) (hb : b.WF) (h : a.iaddPrefactorOther cy p b = .ok (r, b')) :
    IsPerm (sameLabelsAx b.labels b.rank a.labels) b.rank
      ∧ r.toDense = Dense.zipWith (fun x y => x + y * p) a.toDense
          (b.toDense.transpose (sameLabelsAx b.labels b.rank a.labels))
      ∧ r.legs = a.legs ∧ r.labels = a.labels ∧ r.qtotal = a.qtotal ∧ r.WF
      ∧ b'.toDense = b.toDense ∧ b'.legs = b.legs ∧ b'.labels = b.labels ∧ b'.WF := by
  have hf : (fun x y : α => x + y * p) 0 0 = 0 := by
    show (0 : α) + 0 * p = 0
    rw [hz', hadd]
  cases cy with
  | true =>
    rcases hts : b.transposeSameLabels a.labels with ⟨b1, tr⟩
    simp only [iaddPrefactorOther, hts, bind, Except.bind, pure, Except.pure, if_true] at h
    cases hchk : binaryCheck a b1 with
    | error e => simp [hchk] at h
    | ok u =>
      simp only [hchk] at h
      by_cases hp0 : p = 0
      · simp only [hp0, if_true, Except.ok.injEq, Prod.mk.injEq] at h
        obtain ⟨hp, h1, h6, _⟩ := transposeSameLabels_ax b a.labels hb
        rw [hts] at h1 h6
        simp only at h1 h6
        obtain ⟨_, hs, _⟩ := of_binaryCheck a b1 hchk
        refine ⟨hp, ?_, by rw [← h.1], by rw [← h.1], by rw [← h.1], by rw [← h.1]; exact ha,
          by rw [← h.2], by rw [← h.2], by rw [← h.2], by rw [← h.2]; exact hb⟩
        rw [← h.1, hp0, ← h1]
        exact toDense_add_zero hz hadd a b1 (shape_of_slices a b1 hs)
      · simp only [hp0, if_false, Except.ok.injEq, Prod.mk.injEq] at h
        exact binaryCore_spec _ hf a b ha hb b1 tr hts hchk r b' h.1.symm h.2.symm
  | false =>
    simp only [iaddPrefactorOther, bind, Except.bind, pure, Except.pure, Bool.false_eq_true, if_false] at h
    cases hbin : ibinaryBlockwise (fun x y => x + y) a (b.copy.iscalePrefactor p) with
    | error e => simp [hbin] at h
    | ok rr =>
      obtain ⟨r0, b0⟩ := rr
      simp only [hbin, Except.ok.injEq, Prod.mk.injEq] at h
      have hf0 : (fun x y : α => x + y) 0 0 = 0 := hadd 0
      have hbs : (b.copy.iscalePrefactor p).WF := WF_iscalePrefactor b p hb
      obtain ⟨hp, h1, h2, h3, h4, h5, _⟩ :=
        ibinaryBlockwise_spec _ hf0 a (b.copy.iscalePrefactor p) r0 b0 ha hbs hbin
      have hrank : (b.copy.iscalePrefactor p).rank = b.rank ∧ (b.copy.iscalePrefactor p).labels = b.labels := by
        unfold iscalePrefactor copy
        split <;> exact ⟨rfl, rfl⟩
      rw [hrank.1, hrank.2] at hp h1
      refine ⟨hp, ?_, by rw [← h.1]; exact h2, by rw [← h.1]; exact h3, by rw [← h.1]; exact h4,
        by rw [← h.1]; exact h5, by rw [← h.2], by rw [← h.2], by rw [← h.2], by rw [← h.2]; exact hb⟩
      rw [← h.1, h1]
      have hsc : (b.copy.iscalePrefactor p).toDense = b.toDense.map (fun x => x * p) := by
        unfold iscalePrefactor copy
        split
        · rename_i hs
          subst hs
          unfold Arr.toDense
          rw [Dense.map_ofFn]
          refine Dense.ofFn_congr _ _ _ (fun idx => ?_)
          rw [hz]
          exact Arr.entry_noBlocks _ rfl idx
        · exact Arr.toDense_iunaryBlockwise _ (hz' p) b
      rw [hsc, Dense.transpose_map _ (hz' p), Dense.zipWith_map_right]

end Arr
end TenpyModel.Core
