import TenpyModel.C01.C_Charge5
/-!
C01 part C — `split_legs`, step 1 (independent of how the tensor was made): a row of the result is the stored row with
every split block index `q_k` replaced by the incoming block indices `q_map[j, 3:]` of *some* row `j` of the sector
`q_k` of the pipe; by the fusion rule its block charge w.r.t. the split legs equals the block charge of the stored row.
-/
namespace TenpyModel.C01C
open TenpyModel.Core TenpyModel.C01B TenpyModel.C01B2 TenpyModel.C01B2.Comb

variable {α : Type}

/-- a pipe leg that `split_legs` can split consistently: it is the `LegPipe` of its incoming legs (any `sort`/`bunch`),
its direction is `±1`, and the incoming legs are well-shaped legs over `chinfo` with charge rows of that width
(all part of `LegPipe.test_sanity`). Decidable. -/
def SplitLegOK (mods : List Nat) : ALeg → Prop
  | .pipe p subs =>
      (∃ sb ∈ [(true, true), (true, false), (false, true), (false, false)],
          p = Pipe.init (subs.map ALeg.leg) p.leg.qconj sb.1 sb.2)
      ∧ (p.leg.qconj = 1 ∨ p.leg.qconj = -1)
      ∧ ∀ l ∈ subs.map ALeg.leg, l.Shape ∧ l.mods = mods ∧ ∀ c ∈ l.charges, c.length = mods.length
  | .plain _ => True

instance (mods : List Nat) (l : ALeg) : Decidable (SplitLegOK mods l) := by
  cases l <;> unfold SplitLegOK <;> infer_instance

theorem zipWith_flatten_map {ι β γ δ} (L : List ι) (A : ι → List β) (B : ι → List γ) (f : β → γ → δ)
    (h : ∀ k ∈ L, (A k).length = (B k).length) :
    List.zipWith f (L.map A).flatten (L.map B).flatten = (L.map (fun k => List.zipWith f (A k) (B k))).flatten := by
  induction L with
  | nil => rfl
  | cons x L ih =>
    simp only [List.map_cons, List.flatten_cons]
    rw [List.zipWith_append (h x (by simp)), ih (fun k hk => h k (by simp [hk]))]

/-- **one split axis**: any `q_map` row `j` of sector `I` of the pipe lists in-range incoming block indices whose
charges add up to the charge of block `I` (modulo `mod`) -/
theorem split_axis_charge (mods : List Nat) (p : Pipe) (subs : List ALeg) (hok : SplitLegOK mods (.pipe p subs))
    (hmods : p.leg.mods = mods) (I j : Nat) (hI : I < p.leg.blockNumber)
    (h1 : p.qMapSlices.getD I 0 ≤ j) (h2 : j < p.qMapSlices.getD (I + 1) 0) :
    InRange ((p.qMap.getD j []).drop 3) ((subs.map ALeg.leg).map Leg.blockNumber)
    ∧ makeValid mods (p.leg.getCharge I)
        = makeValid mods (csum mods.length (chs (subs.map ALeg.leg) ((p.qMap.getD j []).drop 3))) := by
  obtain ⟨⟨sb, _, e⟩, hqc, hsub⟩ := hok
  generalize p.leg.qconj = qc at e hqc
  subst e
  have hsh : ∀ l ∈ subs.map ALeg.leg, l.Shape := fun l hl => (hsub l hl).1
  have S := Pipe.slicesOK (subs.map ALeg.leg) qc sb.1 sb.2
  have hlast := Pipe.SlicesOK.mono_last S (I + 1) (by omega)
  have hj : j < (Pipe.init (subs.map ALeg.leg) qc sb.1 sb.2).qMap.length := by omega
  have hsec := (S.sector I hI j h1 h2).1
  obtain ⟨hin, hinv⟩ := qMap_row_inv (subs.map ALeg.leg) qc sb.1 sb.2 hsh j hj
  have hg : Pipe.gMods (subs.map ALeg.leg) = mods := by
    rw [← (Pipe.init_mods_qconj (subs.map ALeg.leg) qc sb.1 sb.2).1]; exact hmods
  refine ⟨hin, ?_⟩
  have := pipe_getCharge (subs.map ALeg.leg) qc hqc sb.1 sb.2 hsh _ hin
  unfold pipeRow at this
  rw [hinv, hsec, hg] at this
  exact this

/-- the legs of the result of `split_legs`, as `LegCharge`s, axis by axis -/
theorem splitLegList_lcs (legs : List ALeg) (ax : List Nat) :
    (Arr.splitLegList legs ax).map ALeg.leg
      = ((List.range legs.length).map (fun k =>
          if ax.contains k then (Arr.subLegs (legs.getD k default)).map ALeg.leg
          else [(legs.getD k default).leg])).flatten := by
  unfold Arr.splitLegList
  rw [List.map_flatMap, List.flatMap_def]
  congr 1
  apply List.map_congr_left
  intro k _
  by_cases hc : ax.contains k = true
  · simp only [hc, if_true]
  · simp only [hc]; rfl

section rows

/-- the pieces of a row of the result: the incoming block indices of the chosen `q_map` row, or the old block index -/
def splitPiece (a : Arr α) (ax : List Nat) (q : List Nat) (jf : Nat → Nat) (k : Nat) : List Nat :=
  if ax.contains k then ((Arr.pipeOf (a.legs.getD k default)).qMap.getD (jf k) []).drop 3 else [q.getD k 0]

/-- a row of the result of `split_legs` belonging to the stored row `q`: at every split axis `k` some `q_map` row
`jf k` of the sector `q[k]` is chosen -/
def SplitRow (a : Arr α) (ax : List Nat) (q : List Nat) (row : List Nat) : Prop :=
  ∃ jf : Nat → Nat,
    (∀ k, k < a.rank → ax.contains k = true →
      (Arr.pipeOf (a.legs.getD k default)).qMapSlices.getD (q.getD k 0) 0 ≤ jf k
      ∧ jf k < (Arr.pipeOf (a.legs.getD k default)).qMapSlices.getD (q.getD k 0 + 1) 0)
    ∧ row = ((List.range a.rank).map (splitPiece a ax q jf)).flatten

/-- **the charge of a split row** -/
theorem splitRow_charge (a : Arr α) (ha : W a) (hva : LegsValid a) (ax : List Nat)
    (hS : ∀ k, k < a.rank → ax.contains k = true →
      (a.legs.getD k default).isPipe = true ∧ SplitLegOK a.mods (a.legs.getD k default))
    (q : List Nat) (hq : q ∈ a.qdata) (row : List Nat) (hrow : SplitRow a ax q row) :
    blockChargeOf a.mods ((Arr.splitLegList a.legs ax).map ALeg.leg) row = blockChargeOf a.mods a.lcs q := by
  obtain ⟨jf, hjf, rfl⟩ := hrow
  have hql := ha.rowLen q hq
  have hwidth : ∀ l ∈ a.lcs, ∀ c ∈ l.charges, c.length = a.mods.length := fun l hl => (hva l hl).2
  -- per axis
  have haxis : ∀ k, k < a.rank →
      ((if ax.contains k then (Arr.subLegs (a.legs.getD k default)).map ALeg.leg
          else [(a.legs.getD k default).leg]).length = (splitPiece a ax q jf k).length)
      ∧ ((a.lc k).getCharge (q.getD k 0)).length = a.mods.length
      ∧ (∀ c ∈ chs (if ax.contains k then (Arr.subLegs (a.legs.getD k default)).map ALeg.leg
            else [(a.legs.getD k default).leg]) (splitPiece a ax q jf k), c.length = a.mods.length)
      ∧ makeValid a.mods ((a.lc k).getCharge (q.getD k 0))
          = makeValid a.mods (csum a.mods.length
              (chs (if ax.contains k then (Arr.subLegs (a.legs.getD k default)).map ALeg.leg
                else [(a.legs.getD k default).leg]) (splitPiece a ax q jf k))) := by
    intro k hk
    have hlc : a.lc k ∈ a.lcs := by
      rw [← Arr.lc_eq a k hk]; exact getD_mem _ _ _ (by rw [lcs_length]; exact hk)
    have hlt := ha.rowLt q hq k hk
    have hlen : ((a.lc k).getCharge (q.getD k 0)).length = a.mods.length := by
      simp only [Leg.getCharge, cscale, List.length_map]
      exact hwidth _ hlc _ (getD_mem _ _ _ hlt)
    by_cases hc : ax.contains k = true
    · obtain ⟨hp, hok⟩ := hS k hk hc
      obtain ⟨j1, j2⟩ := hjf k hk hc
      unfold splitPiece
      rw [if_pos hc, if_pos hc]
      cases hx : a.legs.getD k default with
      | plain l => rw [hx] at hp; simp [ALeg.isPipe] at hp
      | pipe p subs =>
        rw [hx] at hok j1 j2
        have hlk : a.lc k = p.leg := by unfold Arr.lc; rw [hx]; rfl
        rw [hlk] at hlen hlt hlc ⊢
        have hmods : p.leg.mods = a.mods := (hva _ hlc).1
        obtain ⟨hin, hch⟩ := split_axis_charge a.mods p subs hok hmods (q.getD k 0) (jf k) hlt j1 j2
        simp only [Arr.subLegs, Arr.pipeOf] at hin hch j1 j2 ⊢
        refine ⟨by rw [hin.length_eq]; simp, hlen, ?_, hch⟩
        exact chs_len _ _ _ (fun l hl => (hok.2.2 l hl).2.2) hin
    · unfold splitPiece
      rw [if_neg hc, if_neg hc]
      have hlk : (a.legs.getD k default).leg = a.lc k := rfl
      rw [hlk]
      refine ⟨rfl, hlen, ?_, ?_⟩
      · intro c hc'
        simp only [chs, List.zipWith_cons_cons, List.zipWith_nil_right, List.mem_singleton] at hc'
        rw [hc']; exact hlen
      · simp only [chs, List.zipWith_cons_cons, List.zipWith_nil_right, csum, List.foldl_cons, List.foldl_nil]
        rw [czero_cadd_left _ _ hlen]
  -- assemble
  have hsrc : chs a.lcs q = (List.range a.rank).map (fun k => (a.lc k).getCharge (q.getD k 0)) := by
    unfold chs
    rw [zipWith_eq_range _ a.lcs q default 0 (by rw [lcs_length, hql]), lcs_length]
    apply List.map_congr_left
    intro k hk
    rw [Arr.lc_eq a k (List.mem_range.1 hk)]
  unfold blockChargeOf
  rw [splitLegList_lcs]
  show makeValid a.mods (csum a.mods.length (List.zipWith _ ((List.range a.rank).map _).flatten _)) = _
  rw [zipWith_flatten_map _ _ _ _ (fun k hk => (haxis k (List.mem_range.1 hk)).1)]
  show _ = makeValid a.mods (csum a.mods.length (chs a.lcs q))
  rw [hsrc]
  symm
  exact csum_flatten_congr a.mods (List.range a.rank) _ _
    (fun k hk => (haxis k (List.mem_range.1 hk)).2.1)
    (fun k hk => (haxis k (List.mem_range.1 hk)).2.2.1)
    (fun k hk => (haxis k (List.mem_range.1 hk)).2.2.2)

end rows
end TenpyModel.C01C
