import TenpyModel.C01.A_Program
/-!
C01 part C — reference objects that carry legs.

The dense semantics of `combine_legs` / `split_legs` / `sort_legcharge` depends on the leg charges (through the sort
order of a pipe), so the reference semantics of programs containing them works on `RObj`: the numpy array, the labels,
the legs (plain `LegCharge`s or nested pipes) and `chinfo.mod`. Nothing about the storage (block list, cached claims,
total charge) is part of a reference object.
-/
namespace TenpyModel.Core

structure RObj (α : Type) where
  d : Dense α
  labels : List Label
  legs : List ALeg
  mods : List Nat

namespace RObj
variable {α : Type}

/-- the labelled dense tensor of part A / B -/
def ld (x : RObj α) : LDense α := ⟨x.d, x.labels⟩
def rank (x : RObj α) : Nat := x.legs.length
def lcs (x : RObj α) : List Leg := x.legs.map ALeg.leg

/-- the block-less tensor over the same legs and labels: lets the reference semantics call the model's *leg-level*
helper functions (`getLegIndices`, `combineMakePipes`, `combineNewAxes`, …), which never look at blocks -/
def frame (x : RObj α) : Arr α :=
  { mods := x.mods, legs := x.legs, qtotal := [], labels := x.labels, qdata := [], data := [], qdataSorted := true }

end RObj

/-- the observable content of a tensor as a reference object -/
def Arr.toR {α : Type} [Zero α] (a : Arr α) : RObj α := ⟨a.toDense, a.labels, a.legs, a.mods⟩

theorem Arr.toR_ld {α : Type} [Zero α] (a : Arr α) : a.toR.ld = a.toLD := rfl

end TenpyModel.Core
