import TenpyModel.C01.B_Group
import TenpyModel.C01.B_Inner
/-!
C01 part B — `Dense.setBlock` / `reshape` entry-wise, folds of `setBlock` into a zero block, and gathering rows along
`np.lexsort` (used by `_combine_legs_worker`).
-/
namespace TenpyModel.C01B
open TenpyModel.Core

variable {α : Type}

/-- the region test of `Dense.setBlock` -/
def sbCond (start shape idx : List Nat) : Bool :=
  (List.zipWith (fun (p : Nat × Nat) n => decide (p.1 ≤ p.2 ∧ p.2 < p.1 + n)) (start.zip idx) shape).all id
    && idx.length == start.length

theorem getD_zipWith' {β γ δ} (f : β → γ → δ) (xs : List β) (ys : List γ) (dx : β) (dy : γ) (dz : δ)
    (h : xs.length = ys.length) (i : Nat) (hi : i < xs.length) :
    (List.zipWith f xs ys).getD i dz = f (xs.getD i dx) (ys.getD i dy) := by
  rw [zipWith_eq_range f xs ys dx dy h, getD_map' _ _ i 0 dz (by simpa using hi), getD_range _ _ hi]

section zero
variable [Zero α]

theorem setBlock_shape (d : Dense α) (start : List Nat) (src : Dense α) : (d.setBlock start src).shape = d.shape := rfl

theorem setBlock_good (d : Dense α) (hd : Good d) (start : List Nat) (src : Dense α) : Good (d.setBlock start src) := by
  simp only [Good, Dense.setBlock, List.length_zipWith, allIdx_length]
  rw [hd]; simp

theorem get_setBlock (d : Dense α) (hd : Good d) (start : List Nat) (src : Dense α) (idx : List Nat)
    (hi : InRange idx d.shape) :
    (d.setBlock start src).get 0 idx =
      if sbCond start src.shape idx
      then src.vals.getD (Dense.flatIdx src.shape (List.zipWith (fun i s => i - s) idx start)) (d.get 0 idx)
      else d.get 0 idx := by
  rw [get_inRange 0 _ idx (by rw [setBlock_shape]; exact hi), get_inRange 0 d idx hi, setBlock_shape]
  have hlt := dot_stride_lt idx _ hi
  have hlen : (Dense.allIdx d.shape).length = d.vals.length := by rw [allIdx_length, hd]
  simp only [Dense.setBlock]
  rw [getD_zipWith' _ _ _ [] 0 0 hlen _ (by rw [allIdx_length]; exact hlt)]
  rw [allIdx_eq, gridC_getD idx _ hi]
  simp only [sbCond, getD_toArray]
  exact if_congr Iff.rfl rfl rfl

theorem zeros_good (s : List Nat) : Good (Dense.zeros s : Dense α) := by
  simp [Good, Dense.zeros, prod_eq]

theorem zeros_get (s idx : List Nat) : (Dense.zeros s : Dense α).get 0 idx = 0 := by
  unfold Dense.get Dense.zeros
  split
  · simp only [List.getD_eq_getElem?_getD]
    cases h : (List.replicate (Dense.prod s) (0 : α))[Dense.flatIdx s idx]? with
    | none => rfl
    | some x =>
      have := List.mem_of_getElem? h
      simp only [List.mem_replicate] at this
      simp [this.2]
  · rfl

/-- a fold of block writes into `d`: the value at `idx` -/
theorem fold_setBlock {σ : Type} (start : σ → List Nat) (src : σ → Dense α) (idx : List Nat) (v : α)
    (vs : List σ) (d : Dense α) (hd : Good d) (hi : InRange idx d.shape)
    (hval : ∀ s ∈ vs, sbCond (start s) (src s).shape idx = true →
      ∀ z, (src s).vals.getD (Dense.flatIdx (src s).shape (List.zipWith (fun i s => i - s) idx (start s))) z = v)
    (hex : (∃ s ∈ vs, sbCond (start s) (src s).shape idx = true) ∨ d.get 0 idx = v) :
    (vs.foldl (fun nb s => nb.setBlock (start s) (src s)) d).get 0 idx = v := by
  induction vs generalizing d with
  | nil =>
    rcases hex with ⟨s, hs, _⟩ | h
    · simp at hs
    · exact h
  | cons s vs ih =>
    rw [List.foldl_cons]
    apply ih _ (setBlock_good d hd _ _) (by rw [setBlock_shape]; exact hi)
      (fun s' hs' => hval s' (by simp [hs']))
    rw [get_setBlock d hd _ _ idx hi]
    by_cases hc : sbCond (start s) (src s).shape idx = true
    · right
      rw [if_pos hc]
      exact hval s (by simp) hc _
    · rw [if_neg hc]
      rcases hex with ⟨s', hs', hc'⟩ | h
      · rcases List.mem_cons.1 hs' with rfl | hs''
        · exact absurd hc' hc
        · exact Or.inl ⟨s', hs'', hc'⟩
      · exact Or.inr h

end zero

/-! ### gathering rows along `lexsortNat` -/

theorem natRows_lexLE_antisymm (a b : List Nat)
    (h1 : lexLE (a.map Int.ofNat) (b.map Int.ofNat) = true) (h2 : lexLE (b.map Int.ofNat) (a.map Int.ofNat) = true) :
    a = b := by
  have := lexLE_antisymm _ _ h1 h2
  exact List.map_injective_iff.2 (fun x y hxy => by simpa using hxy) this

/-- `pick rows (lexsortNat (rows.map key)) d` is a permutation of `rows` sorted by key -/
theorem pick_lexsort {β} (rows : List β) (key : β → List Nat) (d : β) :
    (pick rows (lexsortNat (rows.map key)) d).Perm rows
    ∧ (pick rows (lexsortNat (rows.map key)) d).Pairwise
        (fun x y => lexLE ((key x).map Int.ofNat) ((key y).map Int.ofNat) = true) := by
  have hp : (lexsortNat (rows.map key)).Perm (List.range rows.length) := by
    have := lexsort_perm (natRows (rows.map key))
    simpa [lexsortNat, natRows] using this
  refine ⟨take?_perm' rows _ d hp, ?_⟩
  have hs := take?_lexsort_sorted (natRows (rows.map key))
  have e : take? (natRows (rows.map key)) (lexsort (natRows (rows.map key))) []
      = (pick rows (lexsortNat (rows.map key)) d).map (fun x => (key x).map Int.ofNat) := by
    unfold take? pick lexsortNat
    rw [List.map_map]
    apply List.map_congr_left
    intro i hi
    have hi' : i < rows.length := by
      have := hp.mem_iff.1 (by simpa [lexsortNat] using hi)
      simpa using this
    simp only [Function.comp, natRows, List.map_map]
    rw [getD_map' _ _ i d [] hi']
    rfl
  rw [e, List.pairwise_map] at hs
  exact hs

end TenpyModel.C01B
