import TenpyModel.C01.C_Charge20
import TenpyModel.C01.B2_CombEx
/-!
C01 part C — non-vacuity: `chargeRule_sortLegcharge`, the default `combine_legs` call without side hypotheses,
`hQ_default`, `combine_splitLegOK` and the chain `split_legs ∘ combine_legs` on `Comb.Ex.t3`.
-/
namespace TenpyModel.C01C.Ex6
open TenpyModel.Core TenpyModel.C01B TenpyModel.C01B2 TenpyModel.C01B2.Comb TenpyModel.C01C

theorem ok_of_isSome {ε β} (x : Except ε β) (h : x.toOption.isSome = true) : ∃ r, x = .ok r := by
  cases x with
  | error e => simp [Except.toOption] at h
  | ok r => exact ⟨r, rfl⟩

/-- the operand: well formed, charge rule, valid legs, directions `±1`, no pipe legs -/
example : Ex.t3.WF ∧ Ex.t3.ChargeRule ∧ LegsValid Ex.t3 ∧ LegsQ Ex.t3
    ∧ (∀ l ∈ Ex.t3.legs, l.isPipe = true → SplitLegOK Ex.t3.mods l) := by decide

/-! ### sort_legcharge -/

/-- sorting + bunching leg 0 and sorting leg 2 of `t3` (merges the two stored blocks): by the theorem … -/
example : ∃ perms cp, Ex.t3.sortLegcharge [true, false, true] [true, false, false] = .ok (perms, cp)
    ∧ cp.ChargeRule ∧ LegsValid cp := by
  obtain ⟨pc, h⟩ : ∃ pc, Ex.t3.sortLegcharge [true, false, true] [true, false, false] = .ok pc := ⟨_, rfl⟩
  obtain ⟨perms, cp⟩ := pc
  exact ⟨perms, cp, h, chargeRule_sortLegcharge Ex.t3 (by decide) (by decide) (by decide) (by decide) _ _ perms cp h⟩
/-- … and by evaluation -/
example : (Ex.t3.sortLegcharge [true, false, true] [true, false, false]).toOption.map
      (fun pc => (decide (pc.2.ChargeRule ∧ LegsValid pc.2), pc.2.qdata)) = some (true, [[0, 0, 0]]) := by decide

/-! ### the default `combine_legs` call: no side hypotheses -/

example : ∀ q, some q ∈ [some (1 : Int)] → q = 1 ∨ q = -1 := by
  intro q hq
  simp only [List.mem_singleton, Option.some.injEq] at hq
  exact Or.inl hq
example : ∃ r, Ex.t3.combineLegs [[.idx 2, .idx 0]] none none [some 1] = .ok r ∧ r.ChargeRule ∧ LegsValid r := by
  obtain ⟨r, h⟩ := ok_of_isSome (Ex.t3.combineLegs [[.idx 2, .idx 0]] none none [some 1]) (by decide)
  exact ⟨r, h, chargeRule_combineLegs_default Ex.t3 r (by decide) (by decide) (by decide) (by decide) _ _
    (by intro q hq; simp only [List.mem_singleton, Option.some.injEq] at hq; exact Or.inl hq)
    (by decide) h⟩
/-- `qconj = None`: the pipe takes the direction of the first leg of the group (`legB`: `-1`) -/
example : ∃ r, Ex.t3.combineLegs [[.lbl "b", .idx 2]] none none [none] = .ok r ∧ r.ChargeRule ∧ LegsValid r := by
  obtain ⟨r, h⟩ := ok_of_isSome (Ex.t3.combineLegs [[.lbl "b", .idx 2]] none none [none]) (by decide)
  exact ⟨r, h, chargeRule_combineLegs_default Ex.t3 r (by decide) (by decide) (by decide) (by decide) _ _
    (by intro q hq; simp at hq) (by decide) h⟩
example : (Ex.t3.combineLegs [[.lbl "b", .idx 2]] none none [none]).toOption.map
      (fun r => (decide (r.ChargeRule ∧ LegsValid r ∧ LegsQ r), (r.lc 1).qconj, !r.qdata.isEmpty))
    = some (true, -1, true) := by decide

/-! ### the chain `split_legs ∘ combine_legs` -/

theorem pipesOK2_pBC : PipesOK2 Ex.t3 [[1, 2]] [Ex.pBC] := by
  intro g hg
  have : g = 0 := by simpa using hg
  subst this
  exact ⟨1, true, true, rfl⟩

/-- the combined tensor satisfies the hypothesis of `chargeRule_splitLegs` (`combine_splitLegOK`), so the split tensor
obeys the charge rule — for every way of naming the axes, with no hypothesis on the intermediate tensor -/
example : ∃ r, Ex.t3.combineStd [[1, 2]] [1] [Ex.pBC] ["a", "b", "?2"] = .ok r
    ∧ (∀ l ∈ r.legs, l.isPipe = true → SplitLegOK r.mods l)
    ∧ (∀ axes a', r.splitLegs axes = .ok a' → a'.ChargeRule ∧ LegsValid a')
    ∧ LegsQ r := by
  obtain ⟨r, h⟩ := ok_of_isSome (Ex.t3.combineStd [[1, 2]] [1] [Ex.pBC] ["a", "b", "?2"]) (by decide)
  refine ⟨r, h, combine_splitLegOK Ex.t3 r (by decide) (by decide) (by decide) _ _ _ _ rfl (by decide) pipesOK2_pBC
    (by decide) h, fun axes a' hs => ?_, legsQ_combineStd Ex.t3 r (by decide) (by decide) _ _ _ _ (by decide) h⟩
  exact chargeRule_split_combineStd Ex.t3 r a' (by decide) (by decide) (by decide) (by decide) _ _ _ _ rfl rfl
    (by decide) pipesOK2_pBC (by decide) (by decide) h axes hs

end TenpyModel.C01C.Ex6
