import TenpyModel.C01.C_Charge2
import TenpyModel.C01.C_Charge3
import TenpyModel.C01.B2_Prog
/-!
C01 part C — programs over part A's operations and the products (`C01ProgAB`): the charge rule and leg validity are
carried along the program, so the side condition "operands of each `tensordot` obey the charge rule" of
`C01ProgAB.evalArr_spec` is *derived* for all product nodes; what remains as a side condition is the closure at the
results of the embedded part-A programs.
-/
namespace TenpyModel.C01C
open TenpyModel.Core TenpyModel.C01B TenpyModel.C01B2
open TenpyModel.Core.C01ProgAB

variable {α : Type}

/-- the simplest part-A operations do not touch legs, rows, `chinfo` or the total charge -/
theorem chargeRule_iunaryBlockwise (f : α → α) (a : Arr α) (hc : a.ChargeRule) (hv : LegsValid a) :
    (a.iunaryBlockwise f).ChargeRule ∧ LegsValid (a.iunaryBlockwise f) := ⟨hc, hv⟩

theorem chargeRule_neg [Neg α] (a : Arr α) (hc : a.ChargeRule) (hv : LegsValid a) :
    a.neg.ChargeRule ∧ LegsValid a.neg := ⟨hc, hv⟩

theorem chargeRule_complexConj (st : α → α) (a : Arr α) (hc : a.ChargeRule) (hv : LegsValid a) :
    (a.complexConj st).ChargeRule ∧ LegsValid (a.complexConj st) := ⟨hc, hv⟩

theorem chargeRule_iscalePrefactor [Mul α] [Zero α] [DecidableEq α] (a : Arr α) (s : α) (hc : a.ChargeRule)
    (hv : LegsValid a) : (a.iscalePrefactor s).ChargeRule ∧ LegsValid (a.iscalePrefactor s) := by
  unfold Arr.iscalePrefactor
  split
  · exact ⟨fun r hr => by simp at hr, hv⟩
  · exact ⟨hc, hv⟩

/-- side conditions of a program, *without* the charge rule at the product nodes: part A's side conditions at every
embedded part-A program, and the charge rule / leg validity of the **result** of every embedded part-A program
(closure of the two invariants under part A's operations is not proved here, except for the operations above). -/
def SideA [Zero α] [Neg α] [Add α] [Mul α] [DecidableEq α] (st : α → α) (cy : Bool) (env : List (Arr α)) :
    C01ProgAB α → Prop
  | .input _ => True
  | .partA p x y => SideA st cy env x ∧ SideA st cy env y ∧
      ∀ a b, evalArr st cy env x = .ok a → evalArr st cy env y = .ok b →
        p.Side st [a, b] ∧ ∀ r, p.evalArr st [a, b] = .ok r → r.ChargeRule ∧ LegsValid r
  | .outer x y => SideA st cy env x ∧ SideA st cy env y
  | .tensordot _ x y => SideA st cy env x ∧ SideA st cy env y
  | .tensordotAxes _ _ x y => SideA st cy env x ∧ SideA st cy env y
  | .trace _ _ x => SideA st cy env x

/-- FULL STATEMENT (open): `(∀ a ∈ env, a.WF ∧ a.ChargeRule ∧ LegsValid a) → evalArr st cy env p = .ok r →
r.ChargeRule ∧ LegsValid r` with part A's `Side` only. Missing: one closure lemma per part-A operation
(`conj`, `transpose`/`iswapaxes` (available for `itransposeFast`: `chargeRule_itransposeFast`), `add_trivial_leg`,
`take_slice`, `squeeze`, `iscale_axis`, `iproject`, `permute`, `ibinary_blockwise`, `iadd_prefactor_other`) and the induction
over `C01ProgA`.

PROVED: with the invariants of the inputs and `SideA`, every node of the program obeys the charge rule, has valid
legs and is well formed; in particular the side condition `C01ProgAB.Side` of `C01_programAB` holds (its charge-rule part
at every `tensordot` node is derived, not assumed). -/
theorem progAB_chargeRule_partial [CommRing α] [DecidableEq α] (st : α → α) (hst : st 0 = 0) (cy : Bool)
    (env : List (Arr α)) (henv : ∀ a ∈ env, a.WF ∧ a.ChargeRule ∧ LegsValid a) (p : C01ProgAB α) :
    ∀ r, SideA st cy env p → evalArr st cy env p = .ok r →
      Side st cy env p ∧ r.WF ∧ r.ChargeRule ∧ LegsValid r := by
  have hwf : ∀ a ∈ env, a.WF := fun a ha => (henv a ha).1
  induction p with
  | input i =>
    intro r _ h
    simp only [evalArr] at h
    cases hi : env[i]? with
    | none => simp [hi] at h
    | some a =>
      simp only [hi, Except.ok.injEq] at h
      subst h
      have := henv a (List.mem_of_getElem? hi)
      exact ⟨trivial, this⟩
  | partA p x y ihx ihy =>
    intro r hs h
    have h0 := h
    simp only [evalArr, bind, Except.bind] at h
    cases hx : evalArr st cy env x with
    | error e => rw [hx] at h; simp at h
    | ok a =>
      cases hy : evalArr st cy env y with
      | error e => rw [hx, hy] at h; simp at h
      | ok b =>
        rw [hx, hy] at h
        simp only at h
        obtain ⟨sx, _⟩ := ihx a hs.1 hx
        obtain ⟨sy, _⟩ := ihy b hs.2.1 hy
        have hside : Side st cy env (.partA p x y) :=
          ⟨sx, sy, fun a' b' ha' hb' => (hs.2.2 a' b' ha' hb').1⟩
        have hw := (evalArr_spec st hst cy env hwf _ r hside h0).2
        obtain ⟨c, v⟩ := (hs.2.2 a b hx hy).2 r h
        exact ⟨hside, hw, c, v⟩
  | outer x y ihx ihy =>
    intro r hs h
    have h0 := h
    simp only [evalArr, bind, Except.bind] at h
    cases hx : evalArr st cy env x with
    | error e => rw [hx] at h; simp at h
    | ok a =>
      cases hy : evalArr st cy env y with
      | error e => rw [hx, hy] at h; simp at h
      | ok b =>
        rw [hx, hy] at h
        simp only at h
        obtain ⟨sx, wa, ca, va⟩ := ihx a hs.1 hx
        obtain ⟨sy, wb, cb, vb⟩ := ihy b hs.2 hy
        have hside : Side st cy env (.outer x y) := ⟨sx, sy⟩
        have hw := (evalArr_spec st hst cy env hwf _ r hside h0).2
        obtain ⟨c, v⟩ := chargeRule_outer a b r wa wb ca cb va vb h
        exact ⟨hside, hw, c, v⟩
  | tensordot k x y ihx ihy =>
    intro r hs h
    have h0 := h
    simp only [evalArr, bind, Except.bind] at h
    cases hx : evalArr st cy env x with
    | error e => rw [hx] at h; simp at h
    | ok a =>
      cases hy : evalArr st cy env y with
      | error e => rw [hx, hy] at h; simp at h
      | ok b =>
        rw [hx, hy] at h
        simp only at h
        obtain ⟨sx, wa, ca, va⟩ := ihx a hs.1 hx
        obtain ⟨sy, wb, cb, vb⟩ := ihy b hs.2 hy
        have hside : Side st cy env (.tensordot k x y) := by
          refine ⟨sx, sy, fun a' b' ha' hb' => ?_⟩
          rw [hx] at ha'; rw [hy] at hb'
          cases ha'; cases hb'
          exact ⟨ca, cb, va, vb⟩
        have hw := (evalArr_spec st hst cy env hwf _ r hside h0).2
        obtain ⟨c, v⟩ := chargeRule_tensordot cy a b wa wb ca cb va vb _ r (dotArr_ok cy a b r _ h)
        exact ⟨hside, hw, c, v⟩
  | tensordotAxes xa xb x y ihx ihy =>
    intro r hs h
    have h0 := h
    simp only [evalArr, bind, Except.bind] at h
    cases hx : evalArr st cy env x with
    | error e => rw [hx] at h; simp at h
    | ok a =>
      cases hy : evalArr st cy env y with
      | error e => rw [hx, hy] at h; simp at h
      | ok b =>
        rw [hx, hy] at h
        simp only at h
        obtain ⟨sx, wa, ca, va⟩ := ihx a hs.1 hx
        obtain ⟨sy, wb, cb, vb⟩ := ihy b hs.2 hy
        have hside : Side st cy env (.tensordotAxes xa xb x y) := by
          refine ⟨sx, sy, fun a' b' ha' hb' => ?_⟩
          rw [hx] at ha'; rw [hy] at hb'
          cases ha'; cases hb'
          exact ⟨ca, cb, va, vb⟩
        have hw := (evalArr_spec st hst cy env hwf _ r hside h0).2
        obtain ⟨c, v⟩ := chargeRule_tensordot cy a b wa wb ca cb va vb _ r (dotArr_ok cy a b r _ h)
        exact ⟨hside, hw, c, v⟩
  | trace l1 l2 x ihx =>
    intro r hs h
    have h0 := h
    simp only [evalArr, bind, Except.bind] at h
    cases hx : evalArr st cy env x with
    | error e => rw [hx] at h; simp at h
    | ok a =>
      rw [hx] at h
      simp only at h
      obtain ⟨sx, wa, ca, va⟩ := ihx a hs hx
      have hside : Side st cy env (.trace l1 l2 x) := sx
      have hw := (evalArr_spec st hst cy env hwf _ r hside h0).2
      obtain ⟨c, v⟩ := chargeRule_trace a wa ca va l1 l2 r (traceArr_ok a r l1 l2 h)
      exact ⟨hside, hw, c, v⟩

/-- consequence: `C01_programAB` without the charge-rule side condition at the product nodes — dense form and labels of
the result = reference semantics, result well formed, obeying the charge rule, with valid legs -/
theorem progAB_spec [CommRing α] [DecidableEq α] (st : α → α) (hst : st 0 = 0) (cy : Bool)
    (env : List (Arr α)) (henv : ∀ a ∈ env, a.WF ∧ a.ChargeRule ∧ LegsValid a) (p : C01ProgAB α) (r : Arr α)
    (hside : SideA st cy env p) (h : evalArr st cy env p = .ok r) :
    r.toDense = (evalRef st (env.map Arr.toLD) p).d ∧ r.labels = (evalRef st (env.map Arr.toLD) p).labels
    ∧ r.WF ∧ r.ChargeRule ∧ LegsValid r := by
  obtain ⟨hs, hw, c, v⟩ := progAB_chargeRule_partial st hst cy env henv p r hside h
  obtain ⟨h1, _⟩ := evalArr_spec st hst cy env (fun a ha => (henv a ha).1) p r hs h
  exact ⟨congrArg LDense.d h1, congrArg LDense.labels h1, hw, c, v⟩

end TenpyModel.C01C
