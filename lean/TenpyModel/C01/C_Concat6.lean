import TenpyModel.C01.C_Concat5
/-!
C01 part C — `concatenate`, step 6: the dense specification `Dense.concatenate` (a left fold of `Dense.concat2`)
entry by entry, and `toDense (concatenate arrays k) = np.concatenate (map toDense arrays) k`.
-/
namespace TenpyModel.C01C.Cat
open TenpyModel.Core TenpyModel.C01B

variable {α : Type}

theorem concatenate_snoc [Zero α] (d : Dense α) (ds : List (Dense α)) (x : Dense α) (k : Nat) :
    Dense.concatenate ((d :: ds) ++ [x]) k = Dense.concat2 (Dense.concatenate (d :: ds) k) x k := by
  unfold Dense.concatenate
  simp only [List.cons_append, List.foldl_append, List.foldl_cons, List.foldl_nil]

theorem concat2_shape [Zero α] (a b : Dense α) (k : Nat) :
    (Dense.concat2 a b k).shape = a.shape.set k (a.shape.getD k 0 + b.shape.getD k 0) := rfl

theorem concat2_get [Zero α] (a b : Dense α) (k : Nat) (idx : List Nat)
    (h : InRange idx (a.shape.set k (a.shape.getD k 0 + b.shape.getD k 0))) :
    (Dense.concat2 a b k).get 0 idx
      = if idx.getD k 0 < a.shape.getD k 0 then a.get 0 idx else b.get 0 (idx.set k (idx.getD k 0 - a.shape.getD k 0)) := by
  unfold Dense.concat2
  exact get_ofFn 0 _ _ idx h

theorem InRange_set_set {idx S : List Nat} {k n n' v : Nat} (h : InRange idx (S.set k n)) (hk : k < S.length)
    (hv : v < n') : InRange (idx.set k v) (S.set k n') := by
  have h' : InRange idx ((S.set k n').set k n) := by rw [List.set_set]; exact h
  exact h'.set_of_pj (by rw [getD_set_eq_pj _ _ _ _ hk]; exact hv)

/-- **`np.concatenate` entry by entry**: for operands whose shapes agree with `S` off the axis `k`, the result has the
summed length on the axis, and the part contributed by `d` (after the operands `pre`) is `d` -/
theorem dense_concatenate_spec [Zero α] (S : List Nat) (k : Nat) (hk : k < S.length) (ds : List (Dense α))
    (hne : ds ≠ []) (hsh : ∀ d ∈ ds, d.shape = S.set k (d.shape.getD k 0)) (hg : ∀ d ∈ ds, Good d) :
    (Dense.concatenate ds k).shape = S.set k ((ds.map (·.shape.getD k 0)).sum)
    ∧ Good (Dense.concatenate ds k)
    ∧ ∀ pre d post, ds = pre ++ d :: post → ∀ idx, InRange idx d.shape →
        (Dense.concatenate ds k).get 0 (idx.set k (idx.getD k 0 + (pre.map (·.shape.getD k 0)).sum)) = d.get 0 idx := by
  induction ds using List.reverseRecOn with
  | nil => exact absurd rfl hne
  | append_singleton init x ih =>
    cases init with
    | nil =>
      have e : Dense.concatenate ([] ++ [x]) k = x := rfl
      rw [e]
      refine ⟨?_, hg x (by simp), ?_⟩
      · simpa using hsh x (by simp)
      · intro pre d post hd idx hi
        cases pre with
        | nil =>
          simp only [List.nil_append, List.cons.injEq] at hd
          obtain ⟨rfl, _⟩ := hd
          simp only [List.map_nil, List.sum_nil, Nat.add_zero]
          rw [set_getD_self_pj]
        | cons p pre =>
          simp only [List.nil_append, List.cons_append, List.cons.injEq] at hd
          exact absurd hd.2 (by simp)
    | cons d0 init =>
      obtain ⟨ih1, ih2, ih3⟩ := ih (by simp) (fun d hd => hsh d (by simp at hd ⊢; tauto))
        (fun d hd => hg d (by simp at hd ⊢; tauto))
      rw [concatenate_snoc]
      have hna : (Dense.concatenate (d0 :: init) k).shape.getD k 0 = ((d0 :: init).map (·.shape.getD k 0)).sum := by
        rw [ih1, getD_set_eq_pj _ _ _ _ hk]
      have hshape : (Dense.concat2 (Dense.concatenate (d0 :: init) k) x k).shape
          = S.set k (((d0 :: init ++ [x]).map (·.shape.getD k 0)).sum) := by
        rw [concat2_shape, hna, ih1, List.set_set, List.map_append, List.sum_append]
        simp
      refine ⟨hshape, ofFn_good _ _, ?_⟩
      intro pre d post hd idx hi
      have hdsh : d.shape = S.set k (d.shape.getD k 0) := hsh d (by rw [hd]; simp)
      have hik : idx.getD k 0 < d.shape.getD k 0 := hi.getD_lt' k (by rw [hdsh, List.length_set]; exact hk)
      have hi' : InRange idx (S.set k (d.shape.getD k 0)) := by rw [← hdsh]; exact hi
      rcases List.eq_nil_or_concat post with rfl | ⟨L, b, rfl⟩
      · -- `d` is the last operand
        have := List.append_inj' hd (by simp)
        obtain ⟨e1, e2⟩ := this
        simp only [List.cons.injEq, and_true] at e2
        subst e2
        rw [← e1, ← hna]
        have hr : InRange (idx.set k (idx.getD k 0 + (Dense.concatenate (d0 :: init) k).shape.getD k 0))
            ((Dense.concatenate (d0 :: init) k).shape.set k
              ((Dense.concatenate (d0 :: init) k).shape.getD k 0 + x.shape.getD k 0)) := by
          rw [ih1, List.set_set]
          exact InRange_set_set hi' hk (by omega)
        rw [concat2_get _ _ _ _ hr, getD_set_eq_pj _ _ _ _ (by rw [hi'.length_eq, List.length_set]; exact hk),
          if_neg (by omega), List.set_set, Nat.add_sub_cancel, set_getD_self_pj]
      · -- `d` lies in the accumulated part
        have hd' : d0 :: init ++ [x] = (pre ++ d :: L) ++ [b] := by rw [hd]; simp
        obtain ⟨e1, e2⟩ := List.append_inj' hd' (by simp)
        have hlt : idx.getD k 0 + (pre.map (·.shape.getD k 0)).sum < (Dense.concatenate (d0 :: init) k).shape.getD k 0 := by
          rw [hna, e1, sum_map_append_cons]
          omega
        have hr : InRange (idx.set k (idx.getD k 0 + (pre.map (·.shape.getD k 0)).sum))
            ((Dense.concatenate (d0 :: init) k).shape.set k
              ((Dense.concatenate (d0 :: init) k).shape.getD k 0 + x.shape.getD k 0)) := by
          rw [hna, ih1, List.set_set]
          rw [hna] at hlt
          exact InRange_set_set hi' hk (by omega)
        rw [concat2_get _ _ _ _ hr, getD_set_eq_pj _ _ _ _ (by rw [hi'.length_eq, List.length_set]; exact hk),
          if_pos hlt]
        exact ih3 pre d L e1 idx hi

namespace Ctx
variable {first : Arr α} {rest : List (Arr α)} {k : Nat}

/-- total length of the result on the axis -/
theorem shape_res (c : Ctx first rest k) :
    (catRes first rest k).shape = first.shape.set k (((first :: rest).map (fun a => (a.lc k).indLen)).sum) := by
  unfold Arr.shape
  rw [lcs_res, List.map_set, catLeg_indLen _ _ _ c.shapes, List.map_map]
  rfl

theorem toDense_res [Zero α] (c : Ctx first rest k) :
    (catRes first rest k).toDense = Dense.concatenate ((first :: rest).map Arr.toDense) k := by
  have hkS : k < first.shape.length := by rw [Arr.shape_length]; exact c.hk
  have hdk : ∀ a ∈ first :: rest, a.toDense.shape.getD k 0 = (a.lc k).indLen := by
    intro a ha
    exact shape_getD a k (by rw [c.rank a ha]; exact c.hk)
  obtain ⟨s1, s2, s3⟩ := dense_concatenate_spec first.shape k hkS ((first :: rest).map Arr.toDense) (by simp)
    (by
      intro d hd
      obtain ⟨a, ha, rfl⟩ := List.mem_map.1 hd
      rw [hdk a ha]
      exact (c.compat a ha).shape_eq (c.rank a ha))
    (by
      intro d hd
      obtain ⟨a, ha, rfl⟩ := List.mem_map.1 hd
      exact toDense_good a)
  have hsum : (((first :: rest).map Arr.toDense).map (·.shape.getD k 0)).sum
      = ((first :: rest).map (fun a => (a.lc k).indLen)).sum := by
    rw [List.map_map]
    exact sum_map_congr_mem _ _ _ hdk
  apply toDense_eq_of_get _ _ (by rw [s1, hsum, c.shape_res]) s2
  intro idx hidx
  rw [c.shape_res] at hidx
  have hx : idx.getD k 0 < ((first :: rest).map (fun a => (a.lc k).indLen)).sum := by
    have := hidx.getD_lt' k (by rw [List.length_set]; exact hkS)
    rwa [getD_set_eq_pj _ _ _ _ hkS] at this
  obtain ⟨pre, a, post, hd, h1, h2⟩ := exists_split_of_lt_sum _ _ _ hx
  have ha : a ∈ first :: rest := by rw [hd]; simp
  have hoff : offOf k pre = (pre.map (fun a => (a.lc k).indLen)).sum := by
    unfold offOf; rw [List.map_map]; rfl
  have hil : idx.length = first.shape.length := by rw [hidx.length_eq, List.length_set]
  -- the index inside the operand
  have hi0 : InRange (idx.set k (idx.getD k 0 - offOf k pre)) a.shape := by
    rw [(c.compat a ha).shape_eq (c.rank a ha)]
    exact InRange_set_set hidx hkS (by omega)
  have hback : (idx.set k (idx.getD k 0 - offOf k pre)).set k
      ((idx.set k (idx.getD k 0 - offOf k pre)).getD k 0 + offOf k pre) = idx := by
    rw [getD_set_eq_pj _ _ _ _ (by rw [hil]; exact hkS), List.set_set, Nat.sub_add_cancel (by omega),
      set_getD_self_pj]
  have e1 := c.entry pre post a hd _ hi0
  rw [hback] at e1
  have hpre : (pre.map Arr.toDense).map (·.shape.getD k 0) = pre.map (fun a => (a.lc k).indLen) := by
    rw [List.map_map]
    apply List.map_congr_left
    intro b hb
    exact hdk b (by rw [hd]; simp [hb])
  have e2 := s3 (pre.map Arr.toDense) a.toDense (post.map Arr.toDense) (by rw [hd]; simp) _ hi0
  rw [hpre, ← hoff, hback, toDense_get a _ hi0] at e2
  rw [e2, e1]

end Ctx

end TenpyModel.C01C.Cat
