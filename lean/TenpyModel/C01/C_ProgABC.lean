import TenpyModel.C01.C_NodesC3
/-!
C01 part C — the concrete syntax of the programs of `C01_programABC`: single-assignment programs whose steps are
* `ab p` — a whole part-A/B expression program (`C01ProgAB`: neg, scale, conj, complex_conj, transpose, iswapaxes,
  add_trivial_leg, take_slice, squeeze, iscale_axis, iproject, permute, ibinary_blockwise, iadd_prefactor_other, outer,
  tensordot (integer or axis pair), trace) on the selected operands,
* `combineLegs groups qconj`, `splitLegs axes`, `concatenate axis`, `sortLegcharge sort bunch`.
Reference objects carry the legs (`RObj`).
-/
namespace TenpyModel.Core
open TenpyModel.C01C C01SSA

inductive C01StepC (α : Type) where
  | ab (p : C01ProgAB α)
  | combineLegs (cl : List (List Ax)) (qconj : List (Option Int))
  | splitLegs (axes : Option (List Ax))
  | concatenate (axis : Ax)
  | sortLegcharge (sort bunch : List Bool)

namespace C01StepC
variable {α : Type}

/-- the node (model run, reference semantics, side conditions, soundness proofs) of a step -/
def spec [CommRing α] [DecidableEq α] (st : α → α) (hst : st 0 = 0) (cy : Bool) : C01StepC α → NodeSpecQ α
  | .ab p => nodeABQ st hst cy p
  | .combineLegs cl qconj => nodeCombineQ cl qconj
  | .splitLegs axes => nodeSplitQ axes
  | .concatenate axis => nodeConcatQ axis
  | .sortLegcharge sort bunch => nodeSortQ sort bunch

/-- a program: steps with the indices of their operands in the environment -/
abbrev Prog (α : Type) := List (C01StepC α × List Nat)

def specsQ [CommRing α] [DecidableEq α] (st : α → α) (hst : st 0 = 0) (cy : Bool) (prog : Prog α) :
    List (NodeSpecQ α × List Nat) := prog.map (fun s => (s.1.spec st hst cy, s.2))

def specs [CommRing α] [DecidableEq α] (st : α → α) (hst : st 0 = 0) (cy : Bool) (prog : Prog α) :
    List (NodeSpec α × List Nat) := (specsQ st hst cy prog).map (fun s => (s.1.toNodeSpec, s.2))

/-- the run of the block-sparse model (`cy` = kernel variant of `iadd_prefactor_other` / `tensordot`) -/
def runArr [CommRing α] [DecidableEq α] (st : α → α) (hst : st 0 = 0) (cy : Bool) (env : List (Arr α)) (prog : Prog α) :
    Except Err (List (Arr α)) := C01SSA.runArr env (specs st hst cy prog)

/-- the reference run on numpy arrays + labels + legs -/
def runRef [CommRing α] [DecidableEq α] (st : α → α) (hst : st 0 = 0) (env : List (RObj α)) (prog : Prog α) :
    List (RObj α) := C01SSA.runRef env (specs st hst false prog)

/-- the side conditions of every step at the environment reached: part A's documented conditions and the charge rule
of `tensordot` operands inside `ab` steps, no empty group (`combineLegs`), genuine pipes (`splitLegs`), every operand has
the axis (`concatenate`) -/
def Side [CommRing α] [DecidableEq α] (st : α → α) (hst : st 0 = 0) (cy : Bool) (env : List (Arr α)) (prog : Prog α) :
    Prop := SideAll env (specs st hst cy prog)

/-- the reduced side conditions for environments that satisfy the charge invariants: part A's documented conditions
+ `SqueezeQ` inside `ab` steps, directions ±1 of the legs involved in `combineLegs` / `sortLegcharge` / `concatenate`,
`SplitLegOK` for `splitLegs` -/
def SideQ [CommRing α] [DecidableEq α] (st : α → α) (hst : st 0 = 0) (cy : Bool) (env : List (Arr α)) (prog : Prog α) :
    Prop := SideAllQ env (specsQ st hst cy prog)

theorem runRef_cy [CommRing α] [DecidableEq α] (st : α → α) (hst : st 0 = 0) (cy : Bool) (env : List (RObj α))
    (prog : Prog α) : C01SSA.runRef env (specs st hst cy prog) = runRef st hst env prog := by
  unfold runRef specs specsQ
  induction prog generalizing env with
  | nil => rfl
  | cons s rest ih =>
    obtain ⟨s, ins⟩ := s
    simp only [List.map_cons, C01SSA.runRef]
    have : ((s.spec st hst cy).toNodeSpec.ref (operandsRef env ins))
        = ((s.spec st hst false).toNodeSpec.ref (operandsRef env ins)) := by
      cases s <;> rfl
    rw [this]
    exact ih _

end C01StepC

/-- build the side conditions of a program step by step along a known run -/
theorem C01SSA.sideAll_cons {α : Type} [Zero α] (n : NodeSpec α) (ins : List Nat) (rest : List (NodeSpec α × List Nat))
    (env xs : List (Arr α)) (r : Arr α) (hx : operands env ins = .ok xs) (hr : n.run xs = .ok r) (hs : n.side xs)
    (hrest : SideAll (env ++ [r]) rest) : SideAll env ((n, ins) :: rest) := by
  intro xs' hx'
  rw [hx] at hx'
  cases hx'
  refine ⟨hs, fun r' hr' => ?_⟩
  rw [hr] at hr'
  cases hr'
  exact hrest

theorem C01SSA.sideAllQ_cons {α : Type} [Zero α] (n : NodeSpecQ α) (ins : List Nat)
    (rest : List (NodeSpecQ α × List Nat)) (env xs : List (Arr α)) (r : Arr α) (hx : operands env ins = .ok xs)
    (hr : n.run xs = .ok r) (hs : n.sideQ xs) (hrest : SideAllQ (env ++ [r]) rest) :
    SideAllQ env ((n, ins) :: rest) := by
  intro xs' hx'
  rw [hx] at hx'
  cases hx'
  refine ⟨hs, fun r' hr' => ?_⟩
  rw [hr] at hr'
  cases hr'
  exact hrest

end TenpyModel.Core
