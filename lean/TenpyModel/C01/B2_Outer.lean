import TenpyModel.C01.B2_Dot7
/-!
C01 part B2 — `outer(a, b)` returns a well-formed tensor: rows duplicate-free and in range, blocks of the right
shape, and the inherited claim `_qdata_sorted = a._qdata_sorted and b._qdata_sorted` is truthful.
-/
namespace TenpyModel.C01B2
open TenpyModel.Core TenpyModel.C01B

variable {α : Type}

section outer
variable [CommSemiring α]
set_option linter.unusedSectionVars false

/-- the rows of `outer` (block index of `a` fastest) -/
def outerRows (a b : Arr α) : List (List Nat × Blk α) :=
  (b.qdata.zip b.data).flatMap (fun rbB => (a.qdata.zip a.data).map (fun rbA => (rbA.1 ++ rbB.1, Dense.outer rbA.2 rbB.2)))

theorem outer_parts (a b r : Arr α) (h : a.outer b = .ok r) :
    r.legs = a.legs ++ b.legs ∧ r.labels = Label.dropDuplicate a.labels b.labels
    ∧ r.qdata = (outerRows a b).map (·.1) ∧ r.data = (outerRows a b).map (·.2)
    ∧ r.qdataSorted = (a.qdataSorted && b.qdataSorted) := by
  unfold Arr.outer at h
  simp only [bind, Except.bind, pure, Except.pure] at h
  split at h
  · simp [throw, throwThe, MonadExceptOf.throw] at h
  · cases hz : (Arr.zeros a.mods (a.legs ++ b.legs) (some (cadd a.qtotal b.qtotal)) none : Except Err (Arr α)) with
    | error e => rw [hz] at h; simp at h
    | ok res =>
      rw [hz] at h
      simp only [Except.ok.injEq] at h
      have hres := zeros_ok _ _ _ _ hz
      subst h
      subst hres
      refine ⟨rfl, rfl, ?_, ?_, rfl⟩
      · simp only [outerRows, List.map_flatMap, List.map_map]
        rfl
      · simp only [outerRows, List.map_flatMap, List.map_map]
        rfl

theorem zip_pairwise_fst_ne {β} (q : List (List Nat)) (d : List β) (hl : q.length = d.length) (hnd : q.Nodup) :
    (q.zip d).Pairwise (fun x y => x.1 ≠ y.1) := by
  have : ((q.zip d).map (·.1)).Pairwise (· ≠ ·) := by
    rw [map_fst_zip' _ _ hl]; exact List.nodup_iff_pairwise_ne.1 hnd
  rw [List.pairwise_map] at this
  exact this

theorem zip_pairwise_lex {β} (q : List (List Nat)) (d : List β) (hl : q.length = d.length)
    (hs : isLexsorted q = true) :
    (q.zip d).Pairwise (fun x y => lexLE (x.1.map Int.ofNat) (y.1.map Int.ofNat) = true) := by
  have h1 : (natRows q).Pairwise (fun a b => lexLE a b = true) := by
    apply sorted_of_lexsort
    unfold isLexsorted lexsortNat at hs
    simpa [natRows] using hs
  unfold natRows at h1
  rw [List.pairwise_map] at h1
  have : ((q.zip d).map (·.1)).Pairwise (fun x y => lexLE (x.map Int.ofNat) (y.map Int.ofNat) = true) := by
    rw [map_fst_zip' _ _ hl]; exact h1
  rw [List.pairwise_map] at this
  exact this

theorem outer_WF (a b r : Arr α) (ha : W a) (hb : W b) (h : a.outer b = .ok r) : r.WF := by
  obtain ⟨hlegs, hlab, hq, hd, hsrt⟩ := outer_parts a b r h
  have hlcs : r.lcs = a.lcs ++ b.lcs := by simp [Arr.lcs, hlegs]
  have hzip : r.qdata.zip r.data = outerRows a b := by rw [hq, hd, zip_map_fst_snd]
  have hmem : ∀ e ∈ outerRows a b, ∃ rbA ∈ a.qdata.zip a.data, ∃ rbB ∈ b.qdata.zip b.data,
      e = (rbA.1 ++ rbB.1, Dense.outer rbA.2 rbB.2) := by
    intro e he
    simp only [outerRows, List.mem_flatMap, List.mem_map] at he
    obtain ⟨rbB, hB, rbA, hA, rfl⟩ := he
    exact ⟨rbA, hA, rbB, hB, rfl⟩
  have hrows : (outerRows a b).map (·.1)
      = (b.qdata.zip b.data).flatMap (fun rbB => (a.qdata.zip a.data).map (fun rbA => rbA.1 ++ rbB.1)) := by
    simp only [outerRows, List.map_flatMap, List.map_map]
    rfl
  have hlenA : ∀ x ∈ a.qdata.zip a.data, x.1.length = a.rank := fun x hx => ha.rowLen _ (List.of_mem_zip hx).1
  have hlenB : ∀ x ∈ b.qdata.zip b.data, x.1.length = b.rank := fun x hx => hb.rowLen _ (List.of_mem_zip hx).1
  apply WF_of_parts r
  · rw [hlab, C01_labels_dropDuplicate_length, ha.labLen, hb.labLen]
    simp [Arr.rank, hlegs]
  · rw [hq, hd]; simp
  · rw [hq, hrows, List.nodup_flatMap]
    constructor
    · intro rbB _
      apply List.Nodup.map_on _ (zip_nodup _ _ ha.len ha.nodup)
      intro x hx y hy e
      exact zip_fst_inj _ _ ha.nodup x hx y hy (by simpa using e)
    · refine (zip_pairwise_fst_ne _ _ hb.len hb.nodup).imp (fun {x y} hxy => ?_)
      intro l hl1 hl2
      obtain ⟨u, hu, rfl⟩ := List.mem_map.1 hl1
      obtain ⟨v, hv, e⟩ := List.mem_map.1 hl2
      exact hxy (List.append_inj e ((hlenA v hv).trans (hlenA u hu).symm)).2.symm
  · intro l hl
    rw [hlcs] at hl
    rcases List.mem_append.1 hl with h1 | h1
    · exact ha.shapes l h1
    · exact hb.shapes l h1
  · intro q hqm
    rw [hq] at hqm
    obtain ⟨e, he, rfl⟩ := List.mem_map.1 hqm
    obtain ⟨rbA, hA, rbB, hB, rfl⟩ := hmem e he
    rw [hlcs, List.map_append]
    have r1 := ha.rowIn' _ (List.of_mem_zip hA).1
    have r2 := hb.rowIn' _ (List.of_mem_zip hB).1
    exact (InRange_append r1.length_eq).2 ⟨r1, r2⟩
  · intro rb hrb
    rw [hzip] at hrb
    obtain ⟨rbA, hA, rbB, hB, rfl⟩ := hmem rb hrb
    refine ⟨?_, tensordot_good _ _ _⟩
    simp only
    rw [outer_shape, ha.blkShape _ hA, hb.blkShape _ hB, hlcs,
      blockShapeOf_append _ _ _ _ (by rw [hlenA _ hA, lcs_length])]
  · intro hs
    rw [hsrt] at hs
    simp only [Bool.and_eq_true] at hs
    rw [hq, hrows]
    apply isLexsorted_of_pairwise
    rw [List.pairwise_flatMap]
    constructor
    · intro rbB _
      rw [List.pairwise_map]
      refine (zip_pairwise_lex _ _ ha.len (ha.sortedOK hs.1)).imp_of_mem (fun {x y} hx hy hxy => ?_)
      rw [lexLE_append_nat _ _ _ _ ((hlenA x hx).trans (hlenA y hy).symm) rfl, if_pos rfl]
      exact hxy
    · refine ((zip_pairwise_lex _ _ hb.len (hb.sortedOK hs.2)).and
        (zip_pairwise_fst_ne _ _ hb.len hb.nodup)).imp_of_mem (fun {x y} hx hy hxy => ?_)
      intro l1 hl1 l2 hl2
      obtain ⟨u, hu, rfl⟩ := List.mem_map.1 hl1
      obtain ⟨v, hv, rfl⟩ := List.mem_map.1 hl2
      rw [lexLE_append_nat _ _ _ _ ((hlenA u hu).trans (hlenA v hv).symm) ((hlenB x hx).trans (hlenB y hy).symm),
        if_neg hxy.2]
      exact hxy.1

end outer
end TenpyModel.C01B2
