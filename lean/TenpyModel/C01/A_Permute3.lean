import TenpyModel.C01.A_Permute2
/-!
C01 part A — `permute`, step 3: `permute(perm, axis)` commutes with `toDense` (`np.take(·, perm, axis)`) and
preserves the storage invariants.
-/
namespace TenpyModel.Core
namespace Arr
variable {α : Type}

/-- what a job of the write loop is -/
theorem permJob_facts (a : Arr α) (k : Nat) (ha : a.WF0) (hk : k < a.rank) (di iold w : Nat)
    (hj : (di, iold, w) ∈ permJobs a k) :
    di < a.qdata.length ∧ di < a.data.length ∧ a.qdata.getD di [] ∈ a.qdata
      ∧ iold < (a.lc k).indLen ∧ (a.lc k).locate iold = ((a.qdata.getD di []).getD k 0, w) := by
  obtain ⟨_, w2, _, w4, _, _⟩ := ha
  have hlmem : a.lc k ∈ a.lcs := by
    rw [← lc_eq a k hk]; exact getD_mem _ _ _ (by rw [lcs_length]; exact hk)
  have hs : (a.lc k).Shape := (w4 _ hlmem).shape
  obtain ⟨h1, h2, h3, h4⟩ := (mem_permJobs a k di iold w).1 hj
  have hsz := hs.slices_succ _ h1
  have hw : w < (a.lc k).blockSizes.getD ((a.qdata.getD di []).getD k 0) 0 := by omega
  refine ⟨h2, by omega, getD_mem _ _ _ h2, ?_, ?_⟩
  · have := psum_add_lt (a.lc k).blockSizes _ _ (by rw [hs.sizes_len]; exact h1) hw
    rw [← hs.slices_getD _ (Nat.le_of_lt h1), ← hs.indLen_eq] at this
    omega
  · rw [h4]
    exact Leg.locate_block hs _ _ h1 hw

/-- **`permute`** = `np.take(·, perm, axis)`; labels and total charge unchanged, invariants preserved.
`hcl` (a leg without charges has empty charge rows) is what `_find_row_differences` needs to know about the rows. -/
theorem toDense_permute [Zero α] (a r : Arr α) (perm : List Nat) (axis : Ax) (ha : a.WF) (k : Nat)
    (hk : a.getLegIndex axis = .ok k) (hperm : perm.Perm (List.range (a.lc k).indLen))
    (hcl : a.mods.length = 0 → ∀ c ∈ (a.lc k).charges, c = [])
    (h : a.permute perm axis = .ok r) :
    r.toDense = a.toDense.takeList k perm ∧ r.labels = a.labels ∧ r.qtotal = a.qtotal ∧ r.WF := by
  have hk' : k < a.rank := getLegIndex_lt_pj a ha.1 axis k hk
  have ha0 := ha.wf0
  obtain ⟨w1, w2, w3, w4, w5, w6⟩ := ha0
  have hkl : k < a.lcs.length := by rw [lcs_length]; exact hk'
  have hlmem : a.lc k ∈ a.lcs := by rw [← lc_eq a k hk']; exact getD_mem _ _ _ hkl
  have hs : (a.lc k).Shape := (w4 _ hlmem).shape
  obtain ⟨hlen, hr⟩ := permute_ok a r perm axis k hk h
  have hperm' : perm.Perm (List.range perm.length) := by rw [hlen]; exact hperm
  have hpnd : perm.Nodup := (hperm.nodup_iff).2 List.nodup_range
  -- the new leg
  have hnl : (permNewLeg a k perm).Shape ∧ (permNewLeg a k perm).indLen = perm.length := by
    have := Leg.fromQflat_bunch_pm a.mods (pick (a.lc k).toQflat perm []) (a.lc k).qconj (by
      intro h0 c hc
      obtain ⟨i, _, rfl⟩ := List.mem_map.1 hc
      by_cases hi : i < (a.lc k).toQflat.length
      · exact hcl h0 _ (mem_expand_pm _ _ _ (getD_mem _ _ _ hi))
      · exact getD_ge _ _ _ (by omega))
    rw [show (pick (a.lc k).toQflat perm []).length = perm.length by simp [pick]] at this
    exact this
  obtain ⟨hs', hind'⟩ := hnl
  -- fields of the result
  have hrlegs : r.legs = a.legs.set k (.plain (permNewLeg a k perm)) := by rw [hr]
  have hrq : r.qdata = (permRes a k perm).map (·.1) := by rw [hr]
  have hrd : r.data = (permRes a k perm).map (·.2) := by rw [hr]
  have hrlcs : r.lcs = a.lcs.set k (permNewLeg a k perm) := by
    unfold lcs; rw [hrlegs, List.map_set]; rfl
  have hrrank : r.rank = a.rank := by unfold rank; rw [hrlegs, List.length_set]
  have hrshape : r.shape = a.shape := by
    unfold shape
    rw [hrlcs, List.map_set, hind', hlen, ← shape_getD_pj a k hk']
    exact set_getD_self_pj _ _ _
  have hrlc : ∀ j, j < a.rank → r.lc j = if k = j then permNewLeg a k perm else a.lc j := by
    intro j hj
    rw [← lc_eq r j (by rw [hrrank]; exact hj), hrlcs]
    split
    next e => subst e; exact getD_set_eq_pj _ _ _ _ hkl
    next e => rw [getD_set_ne_pj _ _ _ _ _ e, lc_eq a j hj]
  have hlegs' : ∀ l ∈ r.lcs, l.ShapeOK := by
    intro l hl
    rw [hrlcs] at hl
    rcases List.mem_or_eq_of_mem_set hl with h1 | h1
    · exact w4 l h1
    · rw [h1]; exact ⟨hs'.len, hs'.head, hs'.mono⟩
  -- the inverse permutation
  have hinvlt : ∀ i, i < perm.length → (inversePerm perm).getD i 0 < perm.length ∧
      perm.getD ((inversePerm perm).getD i 0) 0 = i := inversePerm_spec perm hperm'
  have hinvperm : ∀ j, j < perm.length → (inversePerm perm).getD (perm.getD j 0) 0 = j := by
    intro j hj
    have hlt := perm_range_lt perm _ hperm' j hj
    unfold inversePerm
    rw [getD_map' _ _ _ 0 0 (by simpa using hlt), getD_range _ _ hlt, getD_lt _ _ _ hj]
    exact hpnd.idxOf_getElem j hj
  -- the writes
  have hT : ∀ t ∈ (permJobs a k).map (permTriple a k (permNewLeg a k perm) (inversePerm perm)),
      t.2.2.shape = Dense.removeAt (blockShapeOf (a.lcs.set k (permNewLeg a k perm)) t.1) k
        ∧ t.2.2.vals.length = Dense.prod t.2.2.shape := by
    intro t ht
    obtain ⟨⟨di, iold, w⟩, hj, rfl⟩ := List.mem_map.1 ht
    obtain ⟨f1, f2, f3, _, _⟩ := permJob_facts a k ⟨w1, w2, w3, w4, w5, w6⟩ hk' di iold w hj
    refine ⟨?_, Dense.take_vals_length _ _ _⟩
    show Dense.removeAt (a.data.getD di ⟨[], []⟩).shape k = Dense.removeAt (blockShapeOf _ (List.set _ k _)) k
    rw [blockShapeOf_set_pj _ _ _ _ _ hkl (by rw [(w5 _ f3).1, lcs_length]), removeAt_set_pm,
      (w6 _ (getD_zip_mem_pm a.qdata a.data di [] ⟨[], []⟩ f1 f2)).1]
  have hinv : PermInv (a.lcs.set k (permNewLeg a k perm)) k (permRes a k perm)
      ((permJobs a k).map (permTriple a k (permNewLeg a k perm) (inversePerm perm))) := by
    have := PermInv.foldl (α := α) _ (PermInv.nil (a.lcs.set k (permNewLeg a k perm)) k) hT
    rwa [List.nil_append] at this
  refine ⟨?_, by rw [hr], by rw [hr], ?_⟩
  · -- dense form
    unfold toDense
    rw [Dense.takeList_ofFn_pm _ _ _ _ (fun j hj => by
      rw [shape_getD_pj a k hk']; exact perm_range_lt perm _ hperm j hj), hrshape]
    have eS : a.shape.set k perm.length = a.shape := by
      rw [hlen, ← shape_getD_pj a k hk']; exact set_getD_self_pj _ _ _
    rw [eS]
    apply Dense.ofFn_congr_mem
    intro idx' hidx'
    have hlen' : idx'.length = a.lcs.length := by rw [hidx'.length_eq, shape_length, lcs_length]
    have hj : idx'.getD k 0 < perm.length := by
      have := hidx'.getD_lt' k (by rw [shape_length]; exact hk')
      rwa [shape_getD_pj a k hk', ← hlen] at this
    have hi : perm.getD (idx'.getD k 0) 0 < (a.lc k).indLen := perm_range_lt perm _ hperm _ hj
    generalize hie : perm.getD (idx'.getD k 0) 0 = i at hi
    have hidx : InRange (idx'.set k i) a.shape := by
      have h0 : InRange idx' (a.shape.set k (a.shape.getD k 0)) := by rw [set_getD_self_pj]; exact hidx'
      exact h0.set_of_pj (by rw [shape_getD_pj a k hk']; exact hi)
    have hidxk : (idx'.set k i).getD k 0 = i := getD_set_eq_pj _ _ _ _ (by omega)
    have hlenset : (idx'.set k i).length = a.lcs.length := by rw [List.length_set, hlen']
    have hqk : (qidx a.lcs (idx'.set k i)).getD k 0 = ((a.lc k).locate i).1 := by
      rw [qidx_getD _ _ k hkl (by omega), lc_eq a k hk', hidxk]
    have hwk : (widx a.lcs (idx'.set k i)).getD k 0 = ((a.lc k).locate i).2 := by
      rw [widx_getD _ _ k hkl (by omega), lc_eq a k hk', hidxk]
    have hqlen : (qidx a.lcs (idx'.set k i)).length = a.lcs.length := qidx_length _ _ hlenset
    have hwlen : (widx a.lcs (idx'.set k i)).length = a.lcs.length := widx_length _ _ hlenset
    obtain ⟨o1, _, _, o4⟩ := Leg.locate_ok hs i hi
    have o5 := Leg.locate_within hs i hi
    have hq : qidx r.lcs idx' = (qidx a.lcs (idx'.set k i)).set k ((permNewLeg a k perm).locate (idx'.getD k 0)).1 := by
      rw [hrlcs]; exact qidx_set_pj a.lcs _ idx' k i hkl hlen'
    have hw : widx r.lcs idx' = (widx a.lcs (idx'.set k i)).set k ((permNewLeg a k perm).locate (idx'.getD k 0)).2 := by
      rw [hrlcs]; exact widx_set_pj a.lcs _ idx' k i hkl hlen'
    obtain ⟨hqr, hwr⟩ := qw_inRange _ hlegs' idx' (by show InRange idx' r.shape; rw [hrshape]; exact hidx')
    have hwr : InRange (widx r.lcs idx') (blockShapeOf (a.lcs.set k (permNewLeg a k perm)) (qidx r.lcs idx')) := by
      rw [← hrlcs]; exact hwr
    -- the entry of the result is the last write into its slot
    have hentry : r.entry idx' = permSpec ((permJobs a k).map (permTriple a k (permNewLeg a k perm) (inversePerm perm))) k
        (qidx r.lcs idx') (widx r.lcs idx') := by
      rw [← hinv.val _ _ hwr, entry_eq, hrq, hrd, zip_map_fst_snd_pj]
      rfl
    rw [hentry, entry_eq]
    have hwk' : (widx r.lcs idx').getD k 0 = ((permNewLeg a k perm).locate (idx'.getD k 0)).2 := by
      rw [hw, getD_set_eq_pj _ _ _ _ (by omega)]
    have hjlt : idx'.getD k 0 < (permNewLeg a k perm).indLen := by rw [hind']; exact hj
    unfold permSpec
    cases hfT : ((permJobs a k).map (permTriple a k (permNewLeg a k perm) (inversePerm perm))).reverse.find?
        (fun t => t.1 == qidx r.lcs idx' && t.2.1 == (widx r.lcs idx').getD k 0) with
    | some t =>
      -- the write comes from the block of the old index
      have hmem : t ∈ (permJobs a k).map (permTriple a k (permNewLeg a k perm) (inversePerm perm)) :=
        List.mem_reverse.1 (List.mem_of_find?_eq_some hfT)
      have hkey : (t.1 == qidx r.lcs idx' && t.2.1 == (widx r.lcs idx').getD k 0) = true := by
        have := List.find?_some hfT
        exact this
      rw [Bool.and_eq_true, beq_iff_eq, beq_iff_eq] at hkey
      obtain ⟨⟨di, iold, w⟩, hjob, rfl⟩ := List.mem_map.1 hmem
      obtain ⟨f1, f2, f3, f4, f5⟩ := permJob_facts a k ⟨w1, w2, w3, w4, w5, w6⟩ hk' di iold w hjob
      obtain ⟨hk1, hk2⟩ := hkey
      have hk1 : (a.qdata.getD di []).set k ((permNewLeg a k perm).locate ((inversePerm perm).getD iold 0)).1
          = qidx r.lcs idx' := hk1
      have hk2 : ((permNewLeg a k perm).locate ((inversePerm perm).getD iold 0)).2 = (widx r.lcs idx').getD k 0 := hk2
      have hrowlen : (a.qdata.getD di []).length = a.lcs.length := by rw [(w5 _ f3).1, lcs_length]
      -- same new position, hence same old index
      have e1 : ((permNewLeg a k perm).locate ((inversePerm perm).getD iold 0)).1
          = ((permNewLeg a k perm).locate (idx'.getD k 0)).1 := by
        have := congrArg (fun l => l.getD k 0) hk1
        rwa [getD_set_eq_pj _ _ _ _ (by omega), hq, getD_set_eq_pj _ _ _ _ (by omega)] at this
      have e2 : ((permNewLeg a k perm).locate ((inversePerm perm).getD iold 0)).2
          = ((permNewLeg a k perm).locate (idx'.getD k 0)).2 := by rw [hk2, hwk']
      have hioldlt : iold < perm.length := by rw [hlen]; exact f4
      have e3 : (inversePerm perm).getD iold 0 = idx'.getD k 0 :=
        Leg.locate_inj_pm hs' _ _ (by rw [hind']; exact (hinvlt iold hioldlt).1) hjlt (Prod.ext e1 e2)
      have e4 : iold = i := by
        rw [← (hinvlt iold hioldlt).2, e3, hie]
      subst e4
      rw [f5] at hqk hwk o5
      simp only at hqk hwk
      -- the old row is the row of the old index
      have erow : a.qdata.getD di [] = qidx a.lcs (idx'.set k iold) := by
        apply ext_getD _ _ 0 (by rw [hrowlen, hqlen])
        intro j _
        by_cases hjk : k = j
        · subst hjk; rw [hqk]
        · have := congrArg (fun l => l.getD j 0) hk1
          rwa [getD_set_ne_pj _ _ _ _ _ hjk, hq, getD_set_ne_pj _ _ _ _ _ hjk] at this
      have hzmem := getD_zip_mem_pm a.qdata a.data di [] ⟨[], []⟩ f1 f2
      rw [erow] at hzmem
      cases hfa : (a.qdata.zip a.data).reverse.find? (fun rb => rb.1 == qidx a.lcs (idx'.set k iold)) with
      | none =>
        rw [List.find?_eq_none] at hfa
        exact absurd (by simp) (hfa _ (List.mem_reverse.2 hzmem))
      | some rb =>
        have hrbmem : rb ∈ a.qdata.zip a.data := List.mem_reverse.1 (List.mem_of_find?_eq_some hfa)
        have hrbkey : rb.1 = qidx a.lcs (idx'.set k iold) := by
          have := List.find?_some hfa
          exact eq_of_beq this
        have hrb2 : rb.2 = a.data.getD di ⟨[], []⟩ :=
          zip_nodup_unique_pm a.qdata a.data _ _ _ w3 (by rw [← hrbkey]; exact hrbmem) hzmem
        simp only
        show ((a.data.getD di ⟨[], []⟩).take k w).get 0 (Dense.removeAt (widx r.lcs idx') k) = rb.2.get 0 _
        rw [hrb2]
        have hbs := (w6 _ hzmem).1
        simp only at hbs
        have hwr' : InRange (Dense.removeAt (widx r.lcs idx') k) (Dense.removeAt (a.data.getD di ⟨[], []⟩).shape k) := by
          have := Dense.inRange_removeAt_pm _ _ k hwr
          rwa [hq, blockShapeOf_set_pj _ _ _ _ _ hkl hqlen, removeAt_set_pm, ← hbs] at this
        rw [Dense.get_take _ k w _ hwr', Dense.insertAt_removeAt_pm _ k w (by rw [hw, List.length_set]; omega), hw,
          List.set_set, ← hwk, set_getD_self_pj]
    | none =>
      -- no write: the old block is not stored
      simp only
      cases hfa : (a.qdata.zip a.data).reverse.find? (fun rb => rb.1 == qidx a.lcs (idx'.set k i)) with
      | none => rfl
      | some rb =>
        exfalso
        have hrbmem : rb ∈ a.qdata.zip a.data := List.mem_reverse.1 (List.mem_of_find?_eq_some hfa)
        have hrbkey : rb.1 = qidx a.lcs (idx'.set k i) := by
          have := List.find?_some hfa
          exact eq_of_beq this
        have hqmem : qidx a.lcs (idx'.set k i) ∈ a.qdata := hrbkey ▸ (List.of_mem_zip hrbmem).1
        obtain ⟨di, hdi, hdie⟩ := List.mem_iff_getElem.1 hqmem
        have hdie' : a.qdata.getD di [] = qidx a.lcs (idx'.set k i) := by rw [getD_lt _ _ _ hdi]; exact hdie
        have hsz := hs.slices_succ _ o1
        have hjob : (di, i, ((a.lc k).locate i).2) ∈ permJobs a k := by
          rw [mem_permJobs, hdie', hqk]
          exact ⟨o1, hdi, by omega, o4.symm⟩
        rw [List.find?_eq_none] at hfT
        apply hfT (permTriple a k (permNewLeg a k perm) (inversePerm perm) (di, i, ((a.lc k).locate i).2))
          (List.mem_reverse.2 (List.mem_map_of_mem hjob))
        show ((a.qdata.getD di []).set k ((permNewLeg a k perm).locate ((inversePerm perm).getD i 0)).1 == qidx r.lcs idx'
          && ((permNewLeg a k perm).locate ((inversePerm perm).getD i 0)).2 == (widx r.lcs idx').getD k 0) = true
        rw [← hie, hinvperm _ hj, hdie', ← hq, hwk']
        simp
  · -- invariants
    refine ⟨by rw [hrrank, hr]; exact w1, by rw [hrq, hrd, List.length_map, List.length_map], by rw [hrq]; exact hinv.nodup,
      hlegs', ?_, ?_, fun hsrt => by rw [hr] at hsrt; simp at hsrt⟩
    · intro R hR
      rw [hrq] at hR
      obtain ⟨rb, hrb, rfl⟩ := List.mem_map.1 hR
      obtain ⟨t, ht, et⟩ := hinv.from_ rb hrb
      obtain ⟨⟨di, iold, w⟩, hjob, rfl⟩ := List.mem_map.1 ht
      obtain ⟨_, _, f3, f4, _⟩ := permJob_facts a k ⟨w1, w2, w3, w4, w5, w6⟩ hk' di iold w hjob
      have et : (a.qdata.getD di []).set k ((permNewLeg a k perm).locate ((inversePerm perm).getD iold 0)).1 = rb.1 := et
      rw [← et, hrrank]
      refine ⟨by rw [List.length_set]; exact (w5 _ f3).1, ?_⟩
      intro j hj
      rw [hrlc j hj]
      split
      next e =>
        subst e
        rw [getD_set_eq_pj _ _ _ _ (by rw [(w5 _ f3).1]; exact hk')]
        exact (Leg.locate_ok hs' _ (by rw [hind']; exact (hinvlt iold (by rw [hlen]; exact f4)).1)).1
      next e =>
        rw [getD_set_ne_pj _ _ _ _ _ e]
        exact (w5 _ f3).2 j hj
    · rw [hrq, hrd, zip_map_fst_snd_pj, hrlcs]
      exact hinv.shape

end Arr
end TenpyModel.Core

/-! ### non-vacuity -/
section
open TenpyModel.Core

/-- a genuine permutation that moves indices between blocks: the stored block ends up in a new sector structure -/
example : (C01Example.t.getLegIndex (.lbl "a")).toOption = some 0
    ∧ [3, 0, 2, 1].Perm (List.range (C01Example.t.lc 0).indLen)
    ∧ (C01Example.t.mods.length = 0 → ∀ c ∈ (C01Example.t.lc 0).charges, c = [])
    ∧ (C01Example.t.permute [3, 0, 2, 1] (.lbl "a")).toOption.map (fun r => (r.toDense, decide r.WF))
        = some (C01Example.t.toDense.takeList 0 [3, 0, 2, 1], true)
    ∧ C01Example.t.toDense.takeList 0 [3, 0, 2, 1] = ⟨[4, 3], [5, -7, 0, 0, 0, 0, 0, 0, 0, 0, 0, 0]⟩ := by decide

example : (C01Example.t.permute [0, 2, 1] (.idx 1)).toOption.map (fun r => (r.toDense, r.qdata))
    = some (⟨[4, 3], [0, 0, 0, 0, 0, 0, 0, 0, 0, 5, 0, -7]⟩, [[2, 0], [2, 2]]) := by decide
end

