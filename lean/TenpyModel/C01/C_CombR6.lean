import TenpyModel.C01.C_CombR5
/-!
C01 part C — `split_legs` on reference objects, part 3: the reference semantics `refSplit` and the refinement theorem
`splitLegs_specR` for **any** well-formed tensor whose legs at the split axes are genuine pipes (`PipeLegOK`) — not
only for results of `combine_legs`. All branches (`axes=None` / by index or label; no block, the one-block shortcut,
`_split_legs_worker`).

`refSplit` never looks at a block list: axes from `splitAx` on `x.frame`; legs = `Arr.splitLegList`; labels = the
`_split_leg_label` loop (`splitLabels`); dense array `d'[idx] = d[splitIdx idx]` with `splitIdx idx` = `idx` with the
sub-indices of every split axis replaced by `map_incoming_flat` of its pipe (`splitIdx_getD`).
-/
namespace TenpyModel.C01C
open TenpyModel.Core TenpyModel.C01B TenpyModel.C01B2 TenpyModel.C01B2.Comb

variable {α : Type}

namespace CombR

/-- the label loop of `split_legs`:
`for a in sorted(axes, reverse=True): labels[a:a+1] = _split_leg_label(labels[a], nlegs)` -/
def splitLabels (legs : List ALeg) (labels : List Label) (ax : List Nat) : Except Err (List Label) :=
  ax.reverse.foldlM (fun (ls : List Label) k => do
    let parts ← Arr.splitLabel (ls.getD k none) (Arr.subLegs (legs.getD k default)).length
    pure (ls.take k ++ parts ++ ls.drop (k + 1))) labels

/-- the index map of `split_legs`: the index tuple `idx` of the split tensor ↦ index tuple of the tensor with pipes
(the `combIdx` of the groups of incoming legs) -/
def splitIdx (x : RObj α) (ax : List Nat) (idx : List Nat) : List Nat :=
  combIdx (splitFrame x.frame ax) (splitGroups x.legs ax) ax (ax.map (fun k => x.legs.getD k default)) idx

end CombR

/-- reference semantics of `x.split_legs(axes)`; `x` itself where the call raises -/
def refSplit [Zero α] (x : RObj α) (axes : Option (List Ax)) : RObj α :=
  match splitAx x.frame axes with
  | .ok ax =>
    if ax = [] then x else
    match CombR.splitLabels x.legs x.labels ax with
    | .ok labels' =>
      ⟨Dense.ofFn ((Arr.splitLegList x.legs ax).map (fun l => l.leg.indLen))
         (fun idx => x.d.get 0 (CombR.splitIdx x ax idx)), labels', Arr.splitLegList x.legs ax, x.mods⟩
    | .error _ => x
  | .error _ => x

namespace CombR

/-- the axis list of `split_legs` is strictly ascending and in range -/
theorem splitAx_sorted [Zero α] (a : Arr α) (hl : a.labels.length = a.rank) (axes : Option (List Ax)) (ax : List Nat)
    (h : splitAx a axes = .ok ax) : ax.Pairwise (· < ·) ∧ ∀ k ∈ ax, k < a.rank := by
  cases axes with
  | none =>
    simp only [splitAx, pure, Except.pure, Except.ok.injEq] at h
    subst h
    exact ⟨List.Pairwise.filter _ List.pairwise_lt_range, fun k hk => List.mem_range.1 (List.mem_filter.1 hk).1⟩
  | some xs =>
    simp only [splitAx, bind, Except.bind, pure, Except.pure] at h
    cases hidx : a.getLegIndices xs with
    | error e => rw [hidx] at h; cases h
    | ok idx =>
      rw [hidx] at h
      simp only at h
      split at h
      · cases h
      · rename_i hd
        simp only [Except.ok.injEq] at h
        subst h
        have hd' := Decidable.not_not.1 hd
        have hnd := nodup_of_eraseDups_length _ _ (Nat.le_refl _) hd'
        have hle := argsort_sorted idx
        refine ⟨(hle.and hnd).imp (fun h => Nat.lt_of_le_of_ne h.1 h.2), ?_⟩
        intro k hk
        have hperm := pick_perm idx _ 0 (argsort_perm idx)
        exact (Arr.getLegIndices_lt a hl xs idx hidx).2 k (hperm.mem_iff.1 hk)

/-- `split_legs` called with its own (ascending) axis list -/
theorem splitAx_idx [Zero α] (a : Arr α) (ax : List Nat) (hasc : ax.Pairwise (· < ·)) (hlt : ∀ k ∈ ax, k < a.rank) :
    splitAx a (some (ax.map (fun k => Ax.idx (Int.ofNat k)))) = .ok ax := by
  have hnd : ax.Nodup := hasc.imp (fun h => Nat.ne_of_lt h)
  simp only [splitAx, bind, Except.bind, pure, Except.pure, getLegIndices_idx_ok a ax hlt, argsort_of_sorted ax hasc,
    eraseDups_of_nodup ax hnd, ne_eq, not_true_eq_false, if_false]

/-- what `split_legs` does after the axes are known -/
theorem splitTail_eq [Zero α] (a : Arr α) (ax : List Nat) :
    splitTail a ax =
      if (ax.any fun k => !(a.legs.getD k default).isPipe) = true then .error .valueError
      else if ax.isEmpty = true then .ok a
      else match splitLabels a.legs a.labels ax with
        | .ok labels => (splitRes a ax).isetLegLabels labels
        | .error e => .error e := by
  unfold splitTail splitLabels
  simp only [bind, Except.bind, pure, Except.pure, throw, throwThe, MonadExceptOf.throw]
  split
  · rfl
  · split
    · rfl
    · generalize List.foldlM (m := Except Err) _ a.labels ax.reverse = v
      cases v <;> rfl

end CombR

section zero
variable [Zero α]

/-- **`split_legs` on reference objects** — any well-formed tensor, axes by index or label or `None` (all pipes),
provided the legs at the split axes are genuine pipes (`CombR.PipeLegOK`, decidable): the observable content of the
result (`to_ndarray`, labels, legs, `chinfo.mod`) is the reference one, and the result is well formed. All branches of
the code (`stored_blocks == 0`, the one-block shortcut, `_split_legs_worker`). -/
theorem splitLegs_specR' (a r : Arr α) (ha : a.WF) (axes : Option (List Ax))
    (hp : ∀ ax, splitAx a axes = .ok ax → ∀ k ∈ ax, CombR.PipeLegOK (a.legs.getD k default))
    (h : a.splitLegs axes = .ok r) : r.toR = refSplit a.toR axes ∧ r.WF := by
  rw [splitLegs_eq] at h
  cases hax : splitAx a axes with
  | error e => rw [hax] at h; cases h
  | ok ax =>
    rw [hax] at h
    have h' : splitTail a ax = .ok r := h
    obtain ⟨hasc, hlt⟩ := CombR.splitAx_sorted a ha.1 axes ax hax
    have hax' : splitAx a.toR.frame axes = .ok ax := hax
    unfold refSplit
    simp only [hax']
    rw [CombR.splitTail_eq] at h'
    split at h'
    · cases h'
    by_cases he : ax = []
    · subst he
      simp only [List.isEmpty_nil, if_true, Except.ok.injEq] at h'
      subst h'
      exact ⟨by rw [if_pos rfl], ha⟩
    · have hie : ¬ ax.isEmpty = true := fun e => he (List.isEmpty_iff.1 e)
      rw [if_neg hie] at h'
      rw [if_neg he]
      -- the call is a call with the ascending axis list itself
      have h2 : a.splitLegs (some (ax.map (fun k => Ax.idx (Int.ofNat k)))) = .ok r := by
        rw [splitLegs_eq, CombR.splitAx_idx a ax hasc hlt]
        show splitTail a ax = .ok r
        rw [CombR.splitTail_eq]
        rename_i hany
        rw [if_neg hany, if_neg hie]
        exact h'
      have c := CombR.cs_of_split a ax ha hasc hlt (hp ax hax)
      have hne : CombR.splitGroups a.legs ax ≠ [] := by
        intro e
        exact he (List.map_eq_nil_iff.1 e)
      obtain ⟨hlegs, hmods, _, _, hS⟩ := c.split_core hne r h2
      have hwf := c.split_WF hne r h2
      refine ⟨?_, hwf⟩
      -- labels
      cases hlab : CombR.splitLabels a.legs a.labels ax with
      | error e => rw [hlab] at h'; cases h'
      | ok labels =>
        rw [hlab] at h'
        have hlab' : CombR.splitLabels a.toR.legs a.toR.labels ax = .ok labels := hlab
        simp only [hlab']
        have hrl : r.labels = labels := by rw [(isetLegLabels_ok _ r labels h').1]
        have hlcs' : r.lcs = (CombR.splitFrame a ax).lcs := by unfold Arr.lcs; rw [hlegs]
        -- entries
        have hentry : ∀ idx, InRange idx r.shape → r.entry idx = a.toDense.get 0 (CombR.splitIdx a.toR ax idx) := by
          intro idx hi
          have hi' : InRange idx ((CombR.splitFrame a ax).lcs.map Leg.indLen) := by
            rw [← hlcs']; exact hi
          rw [split_entry (CombR.splitFrame a ax).lcs c.wa.shapes c.specs c.valid a r c.wr.nodup c.lcs_r hlcs' hS idx hi']
          have hr : InRange (specIdx c.specs idx) a.shape := by
            unfold Arr.shape
            rw [c.lcs_r, List.map_map]
            exact InRange_map c.specs _ _
              (fun s hs => (AxS.place (CombR.splitFrame a ax).lcs c.wa.shapes idx hi' s (c.valid s hs)).1)
          exact (toDense_get a _ hr).symm
        have hshape : r.shape = (Arr.splitLegList a.legs ax).map (fun l => l.leg.indLen) := by
          unfold Arr.shape Arr.lcs
          rw [hlegs, List.map_map]
          rfl
        have hd : r.toDense = Dense.ofFn ((Arr.splitLegList a.legs ax).map (fun l => l.leg.indLen))
            (fun idx => a.toDense.get 0 (CombR.splitIdx a.toR ax idx)) := by
          unfold Arr.toDense
          rw [← hshape]
          exact ofFn_congr_mem _ _ _ hentry
        unfold Arr.toR
        rw [hd, hrl, hlegs, hmods]
        rfl

/-- the same with the hypothesis on all pipe legs of the operand (as in `chargeRule_splitLegs`) -/
theorem splitLegs_specR (a r : Arr α) (ha : a.WF) (axes : Option (List Ax))
    (hp : ∀ l ∈ a.legs, l.isPipe = true → CombR.PipeLegOK l) (h : a.splitLegs axes = .ok r) :
    r.toR = refSplit a.toR axes ∧ r.WF := by
  apply splitLegs_specR' a r ha axes ?_ h
  intro ax hax k hk
  obtain ⟨_, hlt⟩ := CombR.splitAx_sorted a ha.1 axes ax hax
  have hkr := hlt k hk
  have hmem : a.legs.getD k default ∈ a.legs := by rw [getD_lt _ _ _ hkr]; exact List.getElem_mem _
  apply hp _ hmem
  -- the split axes are pipes (else the call raises)
  rw [splitLegs_eq, hax] at h
  have h' : splitTail a ax = .ok r := h
  rw [CombR.splitTail_eq] at h'
  split at h'
  · cases h'
  · rename_i hany
    have := hany
    simp only [List.any_eq_true, Bool.not_eq_true', not_exists, not_and, Bool.not_eq_false] at this
    exact this k hk

end zero
end TenpyModel.C01C
