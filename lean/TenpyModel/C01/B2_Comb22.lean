import TenpyModel.C01.B2_Comb21
/-!
C01 part B2 — part 22: `split_legs()` without arguments splits exactly the new pipe axes when no spectator leg is a
pipe, so `split_combine` also holds for `r.split_legs()`.
-/
namespace TenpyModel.C01B2.Comb
open TenpyModel.Core TenpyModel.C01B

variable {α : Type}

theorem getLegIndices_idx_ok (r : Arr α) (na : List Nat) (hlt : ∀ k ∈ na, k < r.rank) :
    r.getLegIndices (na.map (fun k => Ax.idx (Int.ofNat k))) = .ok na := by
  unfold Arr.getLegIndices
  induction na with
  | nil => rfl
  | cons k na ih =>
    have hk : k < r.rank := hlt k (by simp)
    have e : r.getLegIndex (Ax.idx (Int.ofNat k)) = .ok k := by
      simp only [Arr.getLegIndex]
      have hc : (Int.ofNat k) = (k : Int) := rfl
      have h0 : ¬ (Int.ofNat k < 0) := by omega
      rw [if_neg h0]
      have h1 : ¬ (Int.ofNat k ≥ (r.rank : Int) ∨ Int.ofNat k < 0) := by omega
      rw [if_neg h1]
      rfl
    rw [List.map_cons, List.mapM_cons, e, ih (fun j hj => hlt j (by simp [hj]))]
    rfl

theorem eraseDups_of_nodup (l : List Nat) (h : l.Nodup) : l.eraseDups = l := by
  induction l with
  | nil => rfl
  | cons x l ih =>
    have hn := List.nodup_cons.1 h
    rw [List.eraseDups_cons]
    have : l.filter (fun b => !b == x) = l := by
      apply List.filter_eq_self.2
      intro b hb
      have : b ≠ x := fun e => hn.1 (e ▸ hb)
      simpa using this
    rw [this, ih hn.2]

theorem filter_contains_range (na : List Nat) (n : Nat) (hasc : na.Pairwise (· < ·)) (hlt : ∀ k ∈ na, k < n) :
    (List.range n).filter (fun k => na.contains k) = na := by
  apply List.Perm.eq_of_pairwise (le := (· < ·))
  · intro a b _ _ h1 h2; omega
  · exact List.Pairwise.filter _ List.pairwise_lt_range
  · exact hasc
  · apply (List.perm_ext_iff_of_nodup (List.Nodup.filter _ List.nodup_range)
      (hasc.imp (fun h => Nat.ne_of_lt h))).2
    intro k
    constructor
    · intro hk
      simpa using (List.mem_filter.1 hk).2
    · intro hk
      exact List.mem_filter.2 ⟨List.mem_range.2 (hlt k hk), by simpa using hk⟩

section zero
variable [Zero α]

/-- `split_legs()` = `split_legs(new axes)` when the pipes of `r` are exactly the axes `na` -/
theorem splitLegs_none_eq (r : Arr α) (na : List Nat)
    (hf : (List.range r.rank).filter (fun k => (r.legs.getD k default).isPipe) = na)
    (hasc : na.Pairwise (· < ·)) (hlt : ∀ k ∈ na, k < r.rank) :
    r.splitLegs none = r.splitLegs (some (na.map (fun k => Ax.idx (Int.ofNat k)))) := by
  have hnd : na.Nodup := hasc.imp (fun h => Nat.ne_of_lt h)
  unfold Arr.splitLegs
  simp only [bind, Except.bind, pure, Except.pure, getLegIndices_idx_ok r na hlt, argsort_of_sorted na hasc, hf,
    eraseDups_of_nodup na hnd, ne_eq, not_true_eq_false, if_false]

namespace CS
variable {a r : Arr α} {cl : List (List Nat)} {na : List Nat} {ps : List ALeg}

omit [Zero α] in
/-- the pipes of the result are exactly the new axes if no spectator leg is a pipe -/
theorem filter_isPipe (c : CS a r cl na ps)
    (hsp : ∀ x ∈ cNonComb a.rank cl, (a.legs.getD x default).isPipe = false) :
    (List.range r.rank).filter (fun k => (r.legs.getD k default).isPipe) = na := by
  rw [c.rank_r]
  have : (List.range c.n).filter (fun k => (r.legs.getD k default).isPipe)
      = (List.range c.n).filter (fun k => na.contains k) := by
    apply List.filter_congr
    intro k hk
    have hk' : k < c.n := List.mem_range.1 hk
    rw [c.legs, (cLegs_getD a cl na ps c.hl1 c.hl2 c.std).2 k hk']
    by_cases hc : na.contains k = true
    · rw [if_pos hc, hc]
      obtain ⟨hg, _⟩ := c.na_idxOf k hc
      exact c.pipes.ok.isPipe c.hl2 _ (getD_mem ps _ default (by rw [c.hl2, ← c.hl1]; exact hg))
    · rw [if_neg hc]
      have hm : k ∉ na := by simpa using hc
      have hj := (cNonNew_idxOf (cNonComb a.rank cl).length na c.std.1 (by rw [c.hl1]; exact c.std.2.1) k
        (by rw [c.hl1]; exact hk') hm).2
      rw [c.hl1] at hj
      have := hsp _ (getD_mem (cNonComb a.rank cl) _ 0 hj)
      rw [this]
      simpa using hc
  rw [this]
  exact filter_contains_range na c.n c.std.1 c.std.2.1

end CS

/-- `split_combine` for `r.split_legs()` (no spectator leg of `a` is a pipe) -/
theorem split_combine_none (a r a' : Arr α) (ha : a.WF) (cl : List (List Nat)) (na : List Nat) (ps : List ALeg)
    (labels : List String) (hl1 : na.length = cl.length) (hl2 : ps.length = cl.length) (hp : PipesOK2 a cl ps)
    (hstd : StdForm a.rank cl na) (hne : cl ≠ [])
    (hsp : ∀ x ∈ cNonComb a.rank cl, (a.legs.getD x default).isPipe = false)
    (h : a.combineStd cl na ps labels = .ok r) (hs : r.splitLegs none = .ok a') :
    a'.legs = a.legs ∧ a'.toDense = a.toDense ∧ (∀ idx, InRange idx a.shape → a'.entry idx = a.entry idx)
    ∧ a'.mods = a.mods ∧ a'.qtotal = makeValid a.mods a.qtotal ∧ a'.labels.length = a.rank := by
  have c := CS.of_combine a r ha cl na ps labels hl1 hl2 hp hstd h
  rw [splitLegs_none_eq r na (c.filter_isPipe hsp) hstd.1 (by rw [c.rank_r]; exact hstd.2.1)] at hs
  exact split_combine a r a' ha cl na ps labels hl1 hl2 hp hstd hne h hs

end zero
end TenpyModel.C01B2.Comb
