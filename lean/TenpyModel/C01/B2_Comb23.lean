import TenpyModel.C01.B2_Comb22
/-!
C01 part B2 — part 23: the index map `combIdx` of `combine_legs` explicitly, and as a **bijection** between the
multi-indices of the operand and those of the result (`combIdx_inj`, `combIdx_surj`) — so `combine_places`
determines every entry of the result.
-/
namespace TenpyModel.C01B2.Comb
open TenpyModel.Core TenpyModel.C01B

variable {α : Type}

/-- per axis: the image is `some f` with `f` in range, for pipe axes -/
theorem AxS.ix_some (lcs : List Leg) (hs : ∀ l ∈ lcs, l.Shape) (idx : List Nat)
    (hi : InRange idx (lcs.map Leg.indLen)) (p : Pipe) (c : List Nat) (hv : (AxS.new p c).Valid lcs) :
    ∃ f, p.mapIncomingFlat ((pick idx c 0).map Int.ofNat) = some f ∧ f < p.leg.indLen := by
  obtain ⟨hc, qconj, sort, bunch, rfl⟩ := hv
  obtain ⟨f, h1, h2, _⟩ := Pipe.mapIncomingFlat_spec (pick lcs c default) qconj sort bunch (pick_shapes lcs hs c hc)
    (pick idx c 0) (pick_inRange_ind lcs idx hi c hc)
  exact ⟨f, h1, h2⟩

/-- per axis: equal images force equal sub-tuples -/
theorem AxS.ix_inj (lcs : List Leg) (hs : ∀ l ∈ lcs, l.Shape) (s : AxS) (hv : s.Valid lcs) (i1 i2 : List Nat)
    (h1 : InRange i1 (lcs.map Leg.indLen)) (h2 : InRange i2 (lcs.map Leg.indLen)) (e : s.ix i1 = s.ix i2) :
    pick i1 s.part 0 = pick i2 s.part 0 := by
  cases s with
  | new p c =>
    obtain ⟨f1, g1, _⟩ := AxS.ix_some lcs hs i1 h1 p c hv
    obtain ⟨f2, g2, _⟩ := AxS.ix_some lcs hs i2 h2 p c hv
    obtain ⟨hc, qconj, sort, bunch, rfl⟩ := hv
    have e' : (Pipe.init (pick lcs c default) qconj sort bunch).mapIncomingFlat ((pick i1 c 0).map Int.ofNat)
        = (Pipe.init (pick lcs c default) qconj sort bunch).mapIncomingFlat ((pick i2 c 0).map Int.ofNat) := by
      have : ((Pipe.init (pick lcs c default) qconj sort bunch).mapIncomingFlat ((pick i1 c 0).map Int.ofNat)).getD 0
          = ((Pipe.init (pick lcs c default) qconj sort bunch).mapIncomingFlat ((pick i2 c 0).map Int.ofNat)).getD 0 := e
      rw [g1, g2] at this ⊢
      simpa using this
    exact Pipe.mapIncomingFlat_inj (pick lcs c default) qconj sort bunch (pick_shapes lcs hs c hc) _ _
      (pick_inRange_ind lcs i1 h1 c hc) (pick_inRange_ind lcs i2 h2 c hc) e'
  | old x =>
    have : i1.getD x 0 = i2.getD x 0 := e
    show pick i1 [x] 0 = pick i2 [x] 0
    simp only [pick, List.map_cons, List.map_nil, this]

/-- per axis: every index of the result axis is the image of a sub-tuple -/
theorem AxS.ix_surj (lcs : List Leg) (hs : ∀ l ∈ lcs, l.Shape) (s : AxS) (hv : s.Valid lcs) (v : Nat)
    (hvl : v < (s.leg lcs).indLen) :
    ∃ sub : List Nat, InRange sub (pick (lcs.map Leg.indLen) s.part 0)
      ∧ ∀ idx, pick idx s.part 0 = sub → s.ix idx = v := by
  cases s with
  | new p c =>
    obtain ⟨hc, qconj, sort, bunch, rfl⟩ := hv
    have hperm := Pipe.mapIncomingFlat_perm (pick lcs c default) qconj sort bunch (pick_shapes lcs hs c hc)
    have hm := hperm.mem_iff.2 (List.mem_range.2 hvl)
    obtain ⟨xs, hxs, hxv⟩ := List.mem_map.1 hm
    refine ⟨xs, ?_, ?_⟩
    · show InRange xs (pick (lcs.map Leg.indLen) c 0)
      rw [pick_map Leg.indLen lcs c default 0 hc]
      exact (mem_gridC _ _).1 hxs
    · intro idx hidx
      have hidx' : pick idx c 0 = xs := hidx
      show ((Pipe.init _ qconj sort bunch).mapIncomingFlat ((pick idx c 0).map Int.ofNat)).getD 0 = v
      rw [hidx']
      exact hxv
  | old x =>
    have hx : x < lcs.length := hv
    refine ⟨[v], ?_, ?_⟩
    · show InRange [v] (pick (lcs.map Leg.indLen) [x] 0)
      simp only [pick, List.map_cons, List.map_nil]
      rw [getD_map' Leg.indLen lcs x default 0 hx]
      exact ⟨hvl, trivial⟩
    · intro idx hidx
      have hidx' : [idx.getD x 0] = [v] := hidx
      exact List.head_eq_of_cons_eq hidx'

theorem map_eq_range_getD {β γ} (l : List β) (f : β → γ) (d : β) :
    l.map f = (List.range l.length).map (fun i => f (l.getD i d)) := by
  conv_lhs => rw [← map_getD_range l d, List.map_map]
  rfl

theorem specIdx_inj (lcs : List Leg) (hs : ∀ l ∈ lcs, l.Shape) (specs : List AxS) (hv : ∀ s ∈ specs, s.Valid lcs)
    (hstd : (specs.map AxS.part).flatten = List.range lcs.length) (i1 i2 : List Nat)
    (h1 : InRange i1 (lcs.map Leg.indLen)) (h2 : InRange i2 (lcs.map Leg.indLen))
    (e : specIdx specs i1 = specIdx specs i2) : i1 = i2 := by
  apply eq_of_parts (specs.map AxS.part) i1 i2 lcs.length hstd
    (by rw [h1.length_eq, List.length_map]) (by rw [h2.length_eq, List.length_map])
  intro c hc
  obtain ⟨s, hs', rfl⟩ := List.mem_map.1 hc
  exact AxS.ix_inj lcs hs s (hv s hs') i1 i2 h1 h2 (List.map_inj_left.1 e s hs')

/-- choose a sub-tuple for every axis -/
theorem choose_pieces (lcs : List Leg) (hs : ∀ l ∈ lcs, l.Shape) : ∀ (L : List AxS) (vs : List Nat),
    (∀ s ∈ L, s.Valid lcs) → InRange vs (L.map (fun s => (s.leg lcs).indLen)) →
    ∃ pieces : List (List Nat), pieces.length = L.length ∧ ∀ i, i < L.length →
      InRange (pieces.getD i []) (pick (lcs.map Leg.indLen) (L.getD i (AxS.old 0)).part 0)
      ∧ ∀ idx, pick idx (L.getD i (AxS.old 0)).part 0 = pieces.getD i [] → (L.getD i (AxS.old 0)).ix idx = vs.getD i 0 := by
  intro L
  induction L with
  | nil => intro vs _ _; exact ⟨[], rfl, fun i hi => by simp at hi⟩
  | cons s L ih =>
    intro vs hv hin
    cases vs with
    | nil => exact hin.elim
    | cons v vs =>
      obtain ⟨sub, hsub, hix⟩ := AxS.ix_surj lcs hs s (hv s (by simp)) v hin.1
      obtain ⟨pieces, hl, hp⟩ := ih vs (fun t ht => hv t (by simp [ht])) hin.2
      refine ⟨sub :: pieces, by simp [hl], ?_⟩
      intro i hi
      cases i with
      | zero => exact ⟨hsub, hix⟩
      | succ i => exact hp i (by simpa using hi)

theorem specIdx_surj (lcs : List Leg) (hs : ∀ l ∈ lcs, l.Shape) (specs : List AxS) (hv : ∀ s ∈ specs, s.Valid lcs)
    (hstd : (specs.map AxS.part).flatten = List.range lcs.length) (idx' : List Nat)
    (h : InRange idx' (specs.map (fun s => (s.leg lcs).indLen))) :
    ∃ idx, InRange idx (lcs.map Leg.indLen) ∧ specIdx specs idx = idx' := by
  obtain ⟨pieces, hl, hp⟩ := choose_pieces lcs hs specs idx' hv h
  have hpieces : pieces = (List.range specs.length).map (fun i => pieces.getD i []) := by
    rw [← hl]; exact (map_getD_range pieces []).symm
  have hfl : ((List.range specs.length).map (fun i => (specs.getD i (AxS.old 0)).part)).flatten
      = List.range' ([] : List Nat).length lcs.length := by
    rw [← map_eq_range_getD specs AxS.part (AxS.old 0), hstd, List.range_eq_range']
    rfl
  have hlen : ∀ i ∈ List.range specs.length, (pieces.getD i []).length = (specs.getD i (AxS.old 0)).part.length := by
    intro i hi
    have := (hp i (List.mem_range.1 hi)).1.length_eq
    rw [this, pick_length]
  have hpick : ∀ i, i < specs.length → pick pieces.flatten (specs.getD i (AxS.old 0)).part 0 = pieces.getD i [] := by
    intro i hi
    have := pick_pieces_aux (fun i => (specs.getD i (AxS.old 0)).part) (fun i => pieces.getD i []) 0
      (List.range specs.length) [] lcs.length [] hfl hlen i (List.mem_range.2 hi)
    rw [← hpieces] at this
    simpa using this
  refine ⟨pieces.flatten, ?_, ?_⟩
  · have e1 : pieces.flatten = ((List.range specs.length).map (fun i => pieces.getD i [])).flatten := by rw [← hpieces]
    have e2 : lcs.map Leg.indLen = ((List.range specs.length).map (fun i =>
        pick (lcs.map Leg.indLen) (specs.getD i (AxS.old 0)).part 0)).flatten := by
      have := flatten_parts specs (lcs.map Leg.indLen) 0 (by rw [List.length_map]; exact hstd)
      rw [← map_eq_range_getD specs (fun s => pick (lcs.map Leg.indLen) s.part 0) (AxS.old 0)]
      exact this.symm
    rw [e1, e2]
    exact InRange_flatten _ _ _ (fun i hi => (hp i (List.mem_range.1 hi)).1)
  · unfold specIdx
    apply ext_getD _ _ 0 (by rw [List.length_map, h.length_eq, List.length_map])
    intro i hi
    rw [List.length_map] at hi
    rw [getD_map' _ _ i (AxS.old 0) 0 hi]
    exact (hp i hi).2 _ (hpick i hi)

section zero
variable [Zero α]

/-- **the index map of `combine_legs` is a bijection** between the multi-indices of the operand and of the result -/
theorem combIdx_bijective (a r : Arr α) (ha : a.WF) (cl : List (List Nat)) (newAxes : List Nat) (pipes : List ALeg)
    (labels : List String) (hl1 : newAxes.length = cl.length) (hl2 : pipes.length = cl.length)
    (hpipes : PipesOK a cl pipes) (hstd : StdForm a.rank cl newAxes)
    (h : a.combineStd cl newAxes pipes labels = .ok r) :
    (∀ i1 i2, InRange i1 a.shape → InRange i2 a.shape →
      combIdx a cl newAxes pipes i1 = combIdx a cl newAxes pipes i2 → i1 = i2)
    ∧ (∀ idx', InRange idx' r.shape → ∃ idx, InRange idx a.shape ∧ combIdx a cl newAxes pipes idx = idx') := by
  have hw := W.of ha
  have hvalid := cSpecs_valid a cl newAxes pipes hl1 hl2 hpipes hstd
  have hparts : ((cSpecs ((cNonComb a.rank cl).length + cl.length) cl (cNonComb a.rank cl) newAxes (cPs pipes)).map
      AxS.part).flatten = List.range a.lcs.length := by
    rw [cSpecs_parts, lcs_length]; exact hstd.2.2
  have hlegs := (combine_places a r ha cl newAxes pipes labels hl1 hl2 hpipes hstd h).1
  have hlcs : r.lcs = (cSpecs ((cNonComb a.rank cl).length + cl.length) cl (cNonComb a.rank cl) newAxes
      (cPs pipes)).map (AxS.leg a.lcs) := by
    unfold Arr.lcs
    rw [hlegs]
    exact cLegs_lcs a cl newAxes pipes hl1 hl2 (hpipes.isPipe hl2) hstd
  refine ⟨fun i1 i2 h1 h2 e => specIdx_inj a.lcs hw.shapes _ hvalid hparts i1 i2 h1 h2 e, ?_⟩
  intro idx' hidx'
  apply specIdx_surj a.lcs hw.shapes _ hvalid hparts idx'
  rw [shape_eq, hlcs, List.map_map] at hidx'
  exact hidx'

omit [Zero α] in
/-- the pipe axes: the image of the sub-tuple exists and is in range -/
theorem combIdx_some (a : Arr α) (ha : a.WF) (cl : List (List Nat)) (pipes : List ALeg)
    (hpipes : PipesOK a cl pipes) (hcl : ∀ x ∈ cl.flatten, x < a.rank) (idx : List Nat) (hi : InRange idx a.shape)
    (g : Nat) (hg : g < cl.length) :
    ∃ f, (Arr.pipeOf (pipes.getD g default)).mapIncomingFlat ((pick idx (cl.getD g []) 0).map Int.ofNat) = some f
      ∧ f < (Arr.pipeOf (pipes.getD g default)).leg.indLen := by
  obtain ⟨qconj, sort, bunch, subs, e⟩ := hpipes g hg
  rw [e]
  apply AxS.ix_some a.lcs (W.of ha).shapes idx hi
  refine ⟨?_, qconj, sort, bunch, rfl⟩
  intro x hx
  rw [lcs_length]
  exact hcl x (List.mem_flatten.2 ⟨_, getD_mem cl g [] hg, hx⟩)

omit [Zero α] in
/-- `combIdx` axis by axis -/
theorem combIdx_getD (a : Arr α) (cl : List (List Nat)) (newAxes : List Nat) (pipes : List ALeg) (idx : List Nat) :
    (combIdx a cl newAxes pipes idx).length = (cNonComb a.rank cl).length + cl.length
    ∧ ∀ k, k < (cNonComb a.rank cl).length + cl.length → (combIdx a cl newAxes pipes idx).getD k 0 =
      if newAxes.contains k then
        ((sP pipes (newAxes.idxOf k)).mapIncomingFlat ((pick idx (cl.getD (newAxes.idxOf k) []) 0).map Int.ofNat)).getD 0
      else idx.getD ((cNonComb a.rank cl).getD
        ((cNonNew ((cNonComb a.rank cl).length + cl.length) newAxes).idxOf k) 0) 0 := by
  unfold combIdx specIdx cSpecs
  refine ⟨by simp, ?_⟩
  intro k hk
  rw [List.map_map, getD_map' _ _ k 0 0 (by simpa using hk), getD_range _ _ hk]
  simp only [Function.comp]
  by_cases hc : newAxes.contains k = true
  · rw [if_pos hc, if_pos hc]; rfl
  · rw [if_neg hc, if_neg hc]; rfl

end zero
end TenpyModel.C01B2.Comb
