import TenpyModel.C01.A_Project4
/-!
C01 part A — `permute`, step 1: dense lemmas (`setAlong`, `take`, `zeros`, `removeAt` / `insertAt`) and the write
loop of `permute` as a fold over (row, position, slab) triples with "last write wins" semantics.
-/
namespace TenpyModel.Core

namespace Dense
variable {α : Type}

theorem removeAt_succ_pm {β} (y : β) (l : List β) (i : Nat) : removeAt (y :: l) (i + 1) = y :: removeAt l i := by
  simp [removeAt]

theorem removeAt_zero_pm {β} (y : β) (l : List β) : removeAt (y :: l) 0 = l := by simp [removeAt]

theorem inRange_removeAt_pm : ∀ (w S : List Nat) (k : Nat), InRange w S → InRange (removeAt w k) (removeAt S k)
  | [], [], k, _ => by simp [removeAt, InRange]
  | [], _ :: _, _, h => h.elim
  | _ :: _, [], _, h => h.elim
  | i :: t, n :: rest, 0, h => by rw [removeAt_zero_pm, removeAt_zero_pm]; exact h.2
  | i :: t, n :: rest, k + 1, h => by
    rw [removeAt_succ_pm, removeAt_succ_pm]
    exact ⟨h.1, inRange_removeAt_pm t rest k h.2⟩

theorem insertAt_removeAt_pm : ∀ (w : List Nat) (k v : Nat), k < w.length → insertAt (removeAt w k) k v = w.set k v
  | [], _, _, h => by simp at h
  | i :: t, 0, v, _ => by rw [removeAt_zero_pm, insertAt_zero]; rfl
  | i :: t, k + 1, v, h => by
    rw [removeAt_succ_pm, insertAt_succ, insertAt_removeAt_pm t k v (by simpa using h)]
    rfl

theorem setAlong_ofFn [Zero α] (S : List Nat) (g : List Nat → α) (k j : Nat) (src : Dense α) :
    setAlong (ofFn S g) k j src = ofFn S (fun idx =>
      if idx.getD k 0 = j then src.vals.getD (flatIdx src.shape (removeAt idx k)) (g idx) else g idx) := by
  have h : ∀ (l : List α) (i : Nat) (z : α), l.toArray.getD i z = l.getD i z := by intro l i z; simp
  unfold setAlong ofFn
  simp only [zipWith_map_right_pj, h]

theorem setAlong_shape [Zero α] (d : Dense α) (k j : Nat) (src : Dense α) : (d.setAlong k j src).shape = d.shape := rfl

theorem setAlong_vals_length [Zero α] (d : Dense α) (k j : Nat) (src : Dense α) (h : d.vals.length = prod d.shape) :
    (d.setAlong k j src).vals.length = prod (d.setAlong k j src).shape := by
  unfold setAlong
  simp only [List.length_zipWith, allIdx_length, h, Nat.min_self]

theorem get_setAlong [Zero α] (d : Dense α) (k j : Nat) (src : Dense α) (h : d.vals.length = prod d.shape)
    (idx : List Nat) (hidx : InRange idx d.shape) :
    (d.setAlong k j src).get 0 idx
      = if idx.getD k 0 = j then src.vals.getD (flatIdx src.shape (removeAt idx k)) (d.get 0 idx) else d.get 0 idx := by
  have e : d.setAlong k j src = ofFn d.shape (fun idx =>
      if idx.getD k 0 = j then src.vals.getD (flatIdx src.shape (removeAt idx k)) (d.get 0 idx) else d.get 0 idx) := by
    conv => lhs; rw [eq_ofFn_get 0 d h]
    exact setAlong_ofFn _ _ _ _ _
  rw [e, get_ofFn 0 _ _ idx hidx]

/-- reading the value list at a valid flat index is `get` -/
theorem getD_flat_eq_get_pm (z : α) (z' : α) (d : Dense α) (h : d.vals.length = prod d.shape) (u : List Nat)
    (hu : InRange u d.shape) : d.vals.getD (flatIdx d.shape u) z' = d.get z u := by
  unfold Dense.get
  simp only [(inRange_iff _ _).2 hu, if_true]
  have hlt : flatIdx d.shape u < d.vals.length := by
    rw [flatIdx_eq, h, prod_eq]; exact dot_stride_lt u d.shape hu
  rw [getD_lt _ _ _ hlt, getD_lt _ _ _ hlt]

theorem take_shape [Zero α] (b : Dense α) (k w : Nat) : (b.take k w).shape = removeAt b.shape k := rfl

theorem take_vals_length [Zero α] (b : Dense α) (k w : Nat) : (b.take k w).vals.length = prod (b.take k w).shape := by
  unfold take gather
  simp only [List.length_map, allIdx_length]

theorem get_take [Zero α] (b : Dense α) (k w : Nat) (u : List Nat) (hu : InRange u (removeAt b.shape k)) :
    (b.take k w).get 0 u = b.get 0 (insertAt u k w) := by
  unfold take
  exact get_gather 0 b _ _ u hu

theorem zeros_shape [Zero α] (S : List Nat) : (zeros S : Dense α).shape = S := rfl

theorem zeros_vals_length [Zero α] (S : List Nat) : (zeros S : Dense α).vals.length = prod (zeros S : Dense α).shape := by
  simp [zeros]

theorem get_zeros [Zero α] (S : List Nat) (idx : List Nat) : (zeros S : Dense α).get 0 idx = 0 := by
  unfold Dense.get zeros
  split
  · simp only [List.getD_eq_getElem?_getD, List.getElem?_replicate]
    split <;> rfl
  · rfl

end Dense

namespace Arr
variable {α : Type}

/-- a write of `permute`: (new row, position along the axis in the new block, slab of the old block) -/
abbrev PTriple (α : Type) := List Nat × Nat × Blk α

/-- one iteration of the write loop of `permute` -/
def permStep [Zero α] (lcs' : List Leg) (k : Nat) (acc : List (List Nat × Blk α)) (t : PTriple α) :
    List (List Nat × Blk α) :=
  (if acc.any (fun rb => rb.1 == t.1) then acc else acc ++ [(t.1, Dense.zeros (blockShapeOf lcs' t.1))]).map
    (fun rb => if rb.1 == t.1 then (rb.1, rb.2.setAlong k t.2.1 t.2.2) else rb)

/-- value stored for row `R` at offsets `w` -/
def permVal [Zero α] (acc : List (List Nat × Blk α)) (R w : List Nat) : α :=
  match acc.reverse.find? (fun rb => rb.1 == R) with
  | none => 0
  | some rb => rb.2.get 0 w

/-- the last write into slot `(R, w[k])` -/
def permSpec [Zero α] (T : List (PTriple α)) (k : Nat) (R w : List Nat) : α :=
  match T.reverse.find? (fun t => t.1 == R && t.2.1 == w.getD k 0) with
  | none => 0
  | some t => t.2.2.get 0 (Dense.removeAt w k)

/-- invariant of the write loop -/
structure PermInv [Zero α] (lcs' : List Leg) (k : Nat) (acc : List (List Nat × Blk α)) (T : List (PTriple α)) : Prop where
  nodup : (acc.map (·.1)).Nodup
  shape : ∀ rb ∈ acc, rb.2.shape = blockShapeOf lcs' rb.1 ∧ rb.2.vals.length = Dense.prod rb.2.shape
  cover : ∀ t ∈ T, ∃ rb ∈ acc, rb.1 = t.1
  from_ : ∀ rb ∈ acc, ∃ t ∈ T, t.1 = rb.1
  val : ∀ R w, InRange w (blockShapeOf lcs' R) → permVal acc R w = permSpec T k R w

theorem permSpec_snoc [Zero α] (T : List (PTriple α)) (t : PTriple α) (k : Nat) (R w : List Nat) :
    permSpec (T ++ [t]) k R w
      = if t.1 = R ∧ t.2.1 = w.getD k 0 then t.2.2.get 0 (Dense.removeAt w k) else permSpec T k R w := by
  unfold permSpec
  rw [List.reverse_append, List.reverse_singleton, List.singleton_append, List.find?_cons]
  by_cases h : t.1 = R ∧ t.2.1 = w.getD k 0
  · have : (t.1 == R && t.2.1 == w.getD k 0) = true := by simp [h.1, h.2]
    rw [this, if_pos h]
  · have : (t.1 == R && t.2.1 == w.getD k 0) = false := by
      rw [Bool.and_eq_false_iff]
      by_cases h1 : t.1 = R
      · right; simpa using fun e => h ⟨h1, e⟩
      · left; simpa using h1
    rw [this, if_neg h]

theorem find?_key_none_pm {β} (l : List (List Nat × β)) (R : List Nat)
    (h : l.any (fun rb => rb.1 == R) = false) : l.reverse.find? (fun rb => rb.1 == R) = none := by
  rw [List.find?_eq_none]
  intro rb hrb
  rw [List.any_eq_false] at h
  exact h rb (List.mem_reverse.1 hrb)

theorem find?_map_key_pm {β} (l : List (List Nat × β)) (upd : List Nat × β → List Nat × β)
    (hupd : ∀ rb, (upd rb).1 = rb.1) (R : List Nat) :
    (l.map upd).reverse.find? (fun rb => rb.1 == R) = (l.reverse.find? (fun rb => rb.1 == R)).map upd := by
  have e : ((fun rb : List Nat × β => rb.1 == R) ∘ upd) = (fun rb => rb.1 == R) := by
    funext rb
    simp [Function.comp, hupd]
  rw [← List.map_reverse, List.find?_map, e]

/-- the value after one write -/
theorem permVal_step [Zero α] (lcs' : List Leg) (k : Nat) (acc : List (List Nat × Blk α)) (t : PTriple α)
    (hshape : ∀ rb ∈ acc, rb.2.shape = blockShapeOf lcs' rb.1 ∧ rb.2.vals.length = Dense.prod rb.2.shape)
    (R w : List Nat) (hw : InRange w (blockShapeOf lcs' R)) :
    permVal (permStep lcs' k acc t) R w
      = if t.1 = R then
          (if w.getD k 0 = t.2.1 then
            t.2.2.vals.getD (Dense.flatIdx t.2.2.shape (Dense.removeAt w k)) (permVal acc R w)
           else permVal acc R w)
        else permVal acc R w := by
  unfold permStep permVal
  rw [find?_map_key_pm _ _ (fun rb => by split <;> rfl)]
  by_cases hR : t.1 = R
  · subst hR
    rw [if_pos rfl]
    by_cases hany : acc.any (fun rb => rb.1 == t.1) = true
    · rw [if_pos hany]
      cases hf : acc.reverse.find? (fun rb => rb.1 == t.1) with
      | none =>
        rw [List.find?_eq_none] at hf
        rw [List.any_eq_true] at hany
        obtain ⟨rb, hrb, hk⟩ := hany
        exact absurd hk (hf rb (List.mem_reverse.2 hrb))
      | some rb =>
        have hkey : (rb.1 == t.1) = true := by
          have := List.find?_some hf
          exact this
        have hmem : rb ∈ acc := List.mem_reverse.1 (List.mem_of_find?_eq_some hf)
        simp only [Option.map_some, hkey, if_true]
        have hs := hshape rb hmem
        rw [Dense.get_setAlong rb.2 k _ _ hs.2 w (by rw [hs.1, eq_of_beq hkey]; exact hw)]
    · have hany' : acc.any (fun rb => rb.1 == t.1) = false := Bool.eq_false_iff.2 hany
      rw [if_neg hany, List.reverse_append, List.reverse_singleton, List.singleton_append, List.find?_cons]
      simp only [beq_self_eq_true, Option.map_some, if_true]
      rw [find?_key_none_pm acc t.1 hany']
      simp only
      rw [Dense.get_setAlong _ k _ _ (Dense.zeros_vals_length _) w (by rw [Dense.zeros_shape]; exact hw),
        Dense.get_zeros]
  · rw [if_neg hR]
    have hne : (t.1 == R) = false := by simpa using hR
    have hfind : (if acc.any (fun rb => rb.1 == t.1) = true then acc
          else acc ++ [(t.1, Dense.zeros (blockShapeOf lcs' t.1))]).reverse.find? (fun rb => rb.1 == R)
        = acc.reverse.find? (fun rb => rb.1 == R) := by
      split
      · rfl
      · rw [List.reverse_append, List.reverse_singleton, List.singleton_append, List.find?_cons]
        simp only [hne]
    rw [hfind]
    cases hf : acc.reverse.find? (fun rb => rb.1 == R) with
    | none => rfl
    | some rb =>
      have hkey : (rb.1 == R) = true := by
        have := List.find?_some hf
        exact this
      have : (rb.1 == t.1) = false := by
        rw [eq_of_beq hkey]
        simpa using fun e => hR e.symm
      simp only [Option.map_some, this]
      rfl

/-- one write preserves the invariant -/
theorem PermInv.step [Zero α] {lcs' : List Leg} {k : Nat} {acc : List (List Nat × Blk α)} {T : List (PTriple α)}
    (h : PermInv lcs' k acc T) (t : PTriple α)
    (ht : t.2.2.shape = Dense.removeAt (blockShapeOf lcs' t.1) k ∧ t.2.2.vals.length = Dense.prod t.2.2.shape) :
    PermInv lcs' k (permStep lcs' k acc t) (T ++ [t]) := by
  have hrows : (permStep lcs' k acc t).map (·.1)
      = (if acc.any (fun rb => rb.1 == t.1) then acc else acc ++ [(t.1, Dense.zeros (blockShapeOf lcs' t.1))]).map (·.1) := by
    unfold permStep
    rw [List.map_map]
    apply List.map_congr_left
    intro rb _
    simp only [Function.comp]
    split <;> rfl
  have hmem1 : ∀ rb ∈ (if acc.any (fun rb => rb.1 == t.1) then acc
      else acc ++ [(t.1, Dense.zeros (blockShapeOf lcs' t.1))]), rb ∈ acc ∨ rb = (t.1, Dense.zeros (blockShapeOf lcs' t.1)) := by
    intro rb hrb
    split at hrb
    · exact Or.inl hrb
    · rcases List.mem_append.1 hrb with h1 | h1
      · exact Or.inl h1
      · exact Or.inr (by simpa using h1)
  have hshape1 : ∀ rb ∈ (if acc.any (fun rb => rb.1 == t.1) then acc
      else acc ++ [(t.1, Dense.zeros (blockShapeOf lcs' t.1))]),
      rb.2.shape = blockShapeOf lcs' rb.1 ∧ rb.2.vals.length = Dense.prod rb.2.shape := by
    intro rb hrb
    rcases hmem1 rb hrb with h1 | h1
    · exact h.shape rb h1
    · rw [h1]; exact ⟨rfl, Dense.zeros_vals_length _⟩
  have hcov1 : ∃ rb ∈ (if acc.any (fun rb => rb.1 == t.1) then acc
      else acc ++ [(t.1, Dense.zeros (blockShapeOf lcs' t.1))]), rb.1 = t.1 := by
    split
    next hany =>
      rw [List.any_eq_true] at hany
      obtain ⟨rb, hrb, hk⟩ := hany
      exact ⟨rb, hrb, eq_of_beq hk⟩
    next => exact ⟨(t.1, Dense.zeros (blockShapeOf lcs' t.1)), List.mem_append_right _ (List.mem_singleton.2 rfl), rfl⟩
  refine ⟨?_, ?_, ?_, ?_, ?_⟩
  · rw [hrows]
    split
    · exact h.nodup
    next hany =>
      rw [List.map_append, List.map_singleton]
      rw [List.nodup_append]
      refine ⟨h.nodup, by simp, ?_⟩
      intro x hx y hx' exy
      simp only [List.mem_singleton] at hx'
      subst hx'
      subst exy
      obtain ⟨rb, hrb, e⟩ := List.mem_map.1 hx
      apply hany
      rw [List.any_eq_true]
      exact ⟨rb, hrb, by simpa using e⟩
  · intro rb' hrb'
    unfold permStep at hrb'
    obtain ⟨rb, hrb, e⟩ := List.mem_map.1 hrb'
    have hs := hshape1 rb hrb
    subst e
    split
    · exact ⟨hs.1, Dense.setAlong_vals_length _ _ _ _ hs.2⟩
    · exact hs
  · intro t' ht'
    have hkeys : ∀ rb ∈ (if acc.any (fun rb => rb.1 == t.1) then acc
        else acc ++ [(t.1, Dense.zeros (blockShapeOf lcs' t.1))]), ∃ rb' ∈ permStep lcs' k acc t, rb'.1 = rb.1 := by
      intro rb hrb
      refine ⟨_, List.mem_map_of_mem (f := fun rb => if rb.1 == t.1 then (rb.1, rb.2.setAlong k t.2.1 t.2.2) else rb) hrb, ?_⟩
      split <;> rfl
    rcases List.mem_append.1 ht' with h1 | h1
    · obtain ⟨rb, hrb, e⟩ := h.cover t' h1
      have : rb ∈ (if acc.any (fun rb => rb.1 == t.1) then acc
          else acc ++ [(t.1, Dense.zeros (blockShapeOf lcs' t.1))]) := by
        split
        · exact hrb
        · exact List.mem_append_left _ hrb
      obtain ⟨rb', hrb', e'⟩ := hkeys rb this
      exact ⟨rb', hrb', e'.trans e⟩
    · simp only [List.mem_singleton] at h1
      subst h1
      obtain ⟨rb, hrb, e⟩ := hcov1
      obtain ⟨rb', hrb', e'⟩ := hkeys rb hrb
      exact ⟨rb', hrb', e'.trans e⟩
  · intro rb' hrb'
    unfold permStep at hrb'
    obtain ⟨rb, hrb, e⟩ := List.mem_map.1 hrb'
    have hk : rb'.1 = rb.1 := by
      subst e
      split <;> rfl
    rw [hk]
    rcases hmem1 rb hrb with h1 | h1
    · obtain ⟨t', ht', e'⟩ := h.from_ rb h1
      exact ⟨t', List.mem_append_left _ ht', e'⟩
    · exact ⟨t, List.mem_append_right _ (by simp), by rw [h1]⟩
  · intro R w hw
    rw [permVal_step lcs' k acc t h.shape R w hw, permSpec_snoc, h.val R w hw]
    by_cases hR : t.1 = R
    · rw [if_pos hR]
      by_cases hwk : w.getD k 0 = t.2.1
      · rw [if_pos hwk, if_pos ⟨hR, hwk.symm⟩]
        refine Dense.getD_flat_eq_get_pm 0 _ t.2.2 ht.2 _ ?_
        rw [ht.1, hR]
        exact Dense.inRange_removeAt_pm _ _ k hw
      · rw [if_neg hwk, if_neg (fun c => hwk c.2.symm)]
    · rw [if_neg hR, if_neg (fun c => hR c.1)]

theorem PermInv.nil [Zero α] (lcs' : List Leg) (k : Nat) : PermInv (α := α) lcs' k [] [] :=
  ⟨by simp, by simp, by simp, by simp, fun _ _ _ => rfl⟩

/-- the whole loop -/
theorem PermInv.foldl [Zero α] {lcs' : List Leg} {k : Nat} (T2 : List (PTriple α)) :
    ∀ {acc : List (List Nat × Blk α)} {T1 : List (PTriple α)}, PermInv lcs' k acc T1 →
      (∀ t ∈ T2, t.2.2.shape = Dense.removeAt (blockShapeOf lcs' t.1) k ∧ t.2.2.vals.length = Dense.prod t.2.2.shape) →
      PermInv lcs' k (T2.foldl (permStep lcs' k) acc) (T1 ++ T2) := by
  induction T2 with
  | nil => intro acc T1 h _; simpa using h
  | cons t T2 ih =>
    intro acc T1 h ht
    rw [List.foldl_cons]
    have := ih (h.step t (ht t (by simp))) (fun t' ht' => ht t' (by simp [ht']))
    rwa [List.append_assoc, List.singleton_append] at this

end Arr
end TenpyModel.Core
