import TenpyModel.C01.C_RObj
/-!
C01 part C — programs in single-assignment form over operations that are *sound with respect to reference objects*.

A `NodeSpec` packages one operation: how the model runs it on its operand tensors, its reference semantics on `RObj`s
(numpy array + labels + legs + `chinfo.mod`), its side condition, and the proof that the model's result — seen as a
reference object — is the reference result and is well formed. A program is a list of steps `(node, operand indices)`;
each step appends its result to the environment (as the driver `lean/drivers/C01.lean` does). `run_spec`: by induction
over the program, every value computed by the model is the value of the reference semantics.
-/
namespace TenpyModel.Core
namespace C01SSA

variable {α : Type}

structure NodeSpec (α : Type) [Zero α] where
  run : List (Arr α) → Except Err (Arr α)
  ref : List (RObj α) → RObj α
  side : List (Arr α) → Prop
  sound : ∀ xs r, (∀ a ∈ xs, a.WF) → side xs → run xs = .ok r → r.toR = ref (xs.map Arr.toR) ∧ r.WF

/-- operands of a step: the values at the given indices (`IndexError` for a dangling index) -/
def operands {β : Type} (env : List β) (ins : List Nat) : Except Err (List β) :=
  ins.mapM (fun i => match env[i]? with
    | some a => .ok a
    | none => .error .indexError)

/-- run a program on the block-sparse model: every step appends its result; the first error aborts -/
def runArr [Zero α] : List (Arr α) → List (NodeSpec α × List Nat) → Except Err (List (Arr α))
  | env, [] => .ok env
  | env, (n, ins) :: rest => do
    let xs ← operands env ins
    let r ← n.run xs
    runArr (env ++ [r]) rest

/-- operands in the reference run (a dangling index cannot occur when the model run succeeded) -/
def operandsRef {β : Type} (env : List β) (ins : List Nat) : List β := ins.filterMap (fun i => env[i]?)

/-- the reference run -/
def runRef [Zero α] : List (RObj α) → List (NodeSpec α × List Nat) → List (RObj α)
  | env, [] => env
  | env, (n, ins) :: rest => runRef (env ++ [n.ref (operandsRef env ins)]) rest

/-- the side conditions of all steps, each at the environment the model run has reached -/
def SideAll [Zero α] : List (Arr α) → List (NodeSpec α × List Nat) → Prop
  | _, [] => True
  | env, (n, ins) :: rest =>
    ∀ xs, operands env ins = .ok xs → n.side xs ∧ ∀ r, n.run xs = .ok r → SideAll (env ++ [r]) rest

theorem operands_ok {β γ : Type} (f : β → γ) (env : List β) (ins : List Nat) (xs : List β)
    (h : operands env ins = .ok xs) : (∀ a ∈ xs, a ∈ env) ∧ operandsRef (env.map f) ins = xs.map f := by
  unfold operands at h
  unfold operandsRef
  induction ins generalizing xs with
  | nil =>
    simp only [List.mapM_nil, pure, Except.pure, Except.ok.injEq] at h
    subst h
    exact ⟨fun a ha => by simp at ha, rfl⟩
  | cons i ins ih =>
    rw [List.mapM_cons] at h
    cases hi : env[i]? with
    | none => simp [hi, bind, Except.bind] at h
    | some a =>
      cases hr : ins.mapM (fun i => match env[i]? with
          | some a => (Except.ok a : Except Err β)
          | none => .error .indexError) with
      | error e => simp [hi, hr, bind, Except.bind] at h
      | ok ys =>
        simp only [hi, hr, bind, Except.bind, pure, Except.pure, Except.ok.injEq] at h
        subst h
        obtain ⟨m, e⟩ := ih ys hr
        refine ⟨?_, ?_⟩
        · intro b hb
          rcases List.mem_cons.1 hb with rfl | hb
          · exact List.mem_of_getElem? hi
          · exact m b hb
        · rw [List.filterMap_cons]
          simp only [List.getElem?_map] at e
          simp only [List.getElem?_map, hi, Option.map_some, List.map_cons]
          rw [e]

/-- **all finite programs**: the environment computed by the model, seen as reference objects, is the environment of
the reference run, and every value is well formed -/
theorem run_spec [Zero α] (prog : List (NodeSpec α × List Nat)) (env env' : List (Arr α)) (hw : ∀ a ∈ env, a.WF)
    (hs : SideAll env prog) (h : runArr env prog = .ok env') :
    env'.map Arr.toR = runRef (env.map Arr.toR) prog ∧ (∀ a ∈ env', a.WF) ∧ env.length + prog.length = env'.length := by
  induction prog generalizing env with
  | nil =>
    simp only [runArr, Except.ok.injEq] at h
    subst h
    exact ⟨rfl, hw, rfl⟩
  | cons s rest ih =>
    obtain ⟨n, ins⟩ := s
    simp only [runArr, bind, Except.bind] at h
    cases hx : operands env ins with
    | error e => rw [hx] at h; cases h
    | ok xs =>
      rw [hx] at h
      simp only at h
      cases hr : n.run xs with
      | error e => rw [hr] at h; cases h
      | ok r =>
        rw [hr] at h
        simp only at h
        obtain ⟨hm, href⟩ := operands_ok Arr.toR env ins xs hx
        obtain ⟨hside, hrest⟩ := hs xs hx
        obtain ⟨e1, w1⟩ := n.sound xs r (fun a ha => hw a (hm a ha)) hside hr
        have hw' : ∀ a ∈ env ++ [r], a.WF := by
          intro a ha
          rcases List.mem_append.1 ha with h1 | h1
          · exact hw a h1
          · have : a = r := by simpa using h1
            rw [this]; exact w1
        obtain ⟨i1, i2, i3⟩ := ih (env ++ [r]) hw' (hrest r hr) h
        refine ⟨?_, i2, ?_⟩
        · rw [i1]
          simp only [runRef, List.map_append, List.map_cons, List.map_nil, href, e1]
        · rw [← i3]
          simp only [List.length_append, List.length_cons, List.length_nil]
          omega

end C01SSA
end TenpyModel.Core
