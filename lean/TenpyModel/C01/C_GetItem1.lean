import TenpyModel.C01.A_Entry
/-!
C01 part C — integer `__getitem__` (`Arr.getItemInt`, Core/ArrOps.lean) in closed form.

For a well-formed tensor obeying the charge rule and a full-length index tuple: the call returns
`IndexError` iff some index is out of range (`-n ≤ i < n` fails), otherwise the entry of `to_ndarray()` at the
normalised indices (negative `i ↦ i + n`). More indices than legs: `IndexError`. Fewer indices than legs: tenpy
returns a sub-*tensor* (`take_slice`), which `getItemInt` (scalar result) does not model — the `zip` in the model
truncates and the look-up finds nothing, so it returns `0` (`getItemInt_short`); the theorems are therefore stated
for full-length tuples.
-/
namespace TenpyModel.C01C.Get
open TenpyModel.Core

variable {α : Type}

/-- Python's normalisation of an integer index on an axis of length `n` -/
def normIdx (n : Nat) (i : Int) : Nat := (if i < 0 then i + (n : Int) else i).toNat

/-- the index is accepted: `-n ≤ i < n` -/
def IdxOK (n : Nat) (i : Int) : Prop := -(n : Int) ≤ i ∧ i < (n : Int)

instance (n : Nat) (i : Int) : Decidable (IdxOK n i) := by unfold IdxOK; infer_instance

/-- normalised multi-index -/
def normInds (shape : List Nat) (inds : List Int) : List Nat := List.zipWith normIdx shape inds

/-- all indices of the tuple are accepted -/
def IndsOK (shape : List Nat) (inds : List Int) : Prop := ∀ p ∈ shape.zip inds, IdxOK p.1 p.2

instance (shape : List Nat) (inds : List Int) : Decidable (IndsOK shape inds) := by unfold IndsOK; infer_instance

theorem normIdx_lt (n : Nat) (i : Int) (h : IdxOK n i) : normIdx n i < n := by
  unfold normIdx
  unfold IdxOK at h
  split <;> omega

/-- `get_qindex` in closed form -/
theorem qindexOf_eq (l : Leg) (i : Int) :
    Arr.qindexOf l i = if IdxOK l.indLen i then .ok (l.locate (normIdx l.indLen i)) else .error .indexError := by
  unfold Arr.qindexOf Leg.getQindex IdxOK normIdx
  simp only
  by_cases hneg : i < 0
  · simp only [hneg, if_true]
    by_cases h1 : i + (l.indLen : Int) < 0
    · rw [if_pos h1, if_neg (by omega)]
    · rw [if_neg h1, if_neg (by omega), if_pos (by omega)]
      rfl
  · simp only [hneg, if_false]
    by_cases h2 : i ≥ (l.indLen : Int)
    · rw [if_pos h2, if_neg (by omega)]
    · rw [if_neg h2, if_pos (by omega)]
      rfl

/-- the `mapM` over the index tuple -/
theorem mapM_qindexOf (ls : List Leg) (inds : List Int) :
    (ls.zip inds).mapM (fun li => Arr.qindexOf li.1 li.2)
      = if IndsOK (ls.map Leg.indLen) inds
        then .ok (List.zipWith (fun l i => l.locate i) ls (normInds (ls.map Leg.indLen) inds))
        else .error .indexError := by
  induction ls generalizing inds with
  | nil => simp [IndsOK, normInds, pure, Except.pure]
  | cons l ls ih =>
    cases inds with
    | nil => simp [IndsOK, normInds, pure, Except.pure]
    | cons i inds =>
      rw [List.zip_cons_cons, List.mapM_cons, qindexOf_eq, ih]
      have hsplit : IndsOK ((l :: ls).map Leg.indLen) (i :: inds)
          ↔ IdxOK l.indLen i ∧ IndsOK (ls.map Leg.indLen) inds := by
        unfold IndsOK
        simp only [List.map_cons, List.zip_cons_cons, List.mem_cons, forall_eq_or_imp]
      by_cases h1 : IdxOK l.indLen i
      · by_cases h2 : IndsOK (ls.map Leg.indLen) inds
        · rw [if_pos h1, if_pos h2, if_pos (hsplit.2 ⟨h1, h2⟩)]
          rfl
        · rw [if_pos h1, if_neg h2, if_neg (fun h => h2 (hsplit.1 h).2)]
          rfl
      · rw [if_neg h1, if_neg (fun h => h1 (hsplit.1 h).1)]
        rfl

theorem normInds_inRange (shape : List Nat) (inds : List Int) (hl : inds.length = shape.length)
    (h : IndsOK shape inds) : InRange (normInds shape inds) shape := by
  induction shape generalizing inds with
  | nil =>
    cases inds with
    | nil => exact trivial
    | cons _ _ => simp at hl
  | cons n shape ih =>
    cases inds with
    | nil => simp at hl
    | cons i inds =>
      unfold IndsOK at h
      simp only [List.zip_cons_cons, List.mem_cons, forall_eq_or_imp] at h
      exact ⟨normIdx_lt n i h.1, ih inds (by simpa using hl) h.2⟩

/-- accepted tuples, position by position -/
theorem indsOK_iff (shape : List Nat) (inds : List Int) (hl : inds.length = shape.length) :
    IndsOK shape inds ↔ ∀ m, m < shape.length → IdxOK (shape.getD m 0) (inds.getD m 0) := by
  induction shape generalizing inds with
  | nil => simp [IndsOK]
  | cons n shape ih =>
    cases inds with
    | nil => simp at hl
    | cons i inds =>
      have hsplit : IndsOK (n :: shape) (i :: inds) ↔ IdxOK n i ∧ IndsOK shape inds := by
        unfold IndsOK
        simp only [List.zip_cons_cons, List.mem_cons, forall_eq_or_imp]
      rw [hsplit, ih inds (by simpa using hl)]
      constructor
      · rintro ⟨h1, h2⟩ m hm
        cases m with
        | zero => simpa using h1
        | succ m => simpa using h2 m (by simpa using hm)
      · intro h
        exact ⟨by simpa using h 0 (by simp), fun m hm => by simpa using h (m + 1) (by simpa using hm)⟩

/-- the forward search of `get_block` and the backward search of `to_ndarray` agree on duplicate-free rows -/
theorem find_rev_eq (a : Arr α) (ha : a.WF) (q : List Nat) :
    (a.qdata.zip a.data).reverse.find? (fun rb => rb.1 == q) = (a.qdata.zip a.data).find? (fun rb => rb.1 == q) := by
  apply find?_perm_unique _ (List.reverse_perm _)
  intro u hu w hw pu pw
  exact zip_fst_inj a.qdata a.data ha.2.2.1 u (List.mem_reverse.1 hu) w (List.mem_reverse.1 hw)
    ((eq_of_beq pu).trans (eq_of_beq pw).symm)

/-- **integer `__getitem__` in closed form** (full-length index tuple) -/
theorem getItemInt_eq [Zero α] (a : Arr α) (ha : a.WF) (hc : a.ChargeRule) (inds : List Int)
    (hl : inds.length = a.rank) :
    a.getItemInt inds
      = if IndsOK a.shape inds then .ok (a.entry (normInds a.shape inds)) else .error .indexError := by
  unfold Arr.getItemInt
  simp only [bind, Except.bind, pure, Except.pure, throw, throwThe, MonadExceptOf.throw]
  have hsh : a.lcs.map Leg.indLen = a.shape := rfl
  rw [if_neg (by omega), mapM_qindexOf, hsh]
  by_cases hok : IndsOK a.shape inds
  · rw [if_pos hok, if_pos hok]
    simp only
    have hq : (List.zipWith (fun l i => l.locate i) a.lcs (normInds a.shape inds)).map (·.1)
        = Arr.qidx a.lcs (normInds a.shape inds) := by
      rw [List.map_zipWith]; rfl
    have hw : (List.zipWith (fun l i => l.locate i) a.lcs (normInds a.shape inds)).map (·.2)
        = Arr.widx a.lcs (normInds a.shape inds) := by
      rw [List.map_zipWith]; rfl
    rw [hq, hw, Arr.entry_eq, find_rev_eq a ha]
    by_cases hch : blockChargeOf a.mods a.lcs (Arr.qidx a.lcs (normInds a.shape inds)) = a.qtotal
    · rw [if_neg (fun hn => hn hch)]
      cases (a.qdata.zip a.data).find? (fun rb => rb.1 == Arr.qidx a.lcs (normInds a.shape inds)) with
      | none => rfl
      | some rb => rfl
    · rw [if_pos hch]
      cases hf : (a.qdata.zip a.data).find? (fun rb => rb.1 == Arr.qidx a.lcs (normInds a.shape inds)) with
      | none => rfl
      | some rb =>
        exfalso
        apply hch
        have hm := List.mem_of_find?_eq_some hf
        have hk : rb.1 = Arr.qidx a.lcs (normInds a.shape inds) := by
          have := List.find?_some hf
          exact eq_of_beq this
        rw [← hk]
        exact hc rb.1 (List.of_mem_zip hm).1
  · rw [if_neg hok, if_neg hok]

/-- too many indices -/
theorem getItemInt_too_many [Zero α] (a : Arr α) (inds : List Int) (h : a.rank < inds.length) :
    a.getItemInt inds = .error .indexError := by
  unfold Arr.getItemInt
  simp only [bind, Except.bind, throw, throwThe, MonadExceptOf.throw]
  rw [if_pos h]

end TenpyModel.C01C.Get
