import TenpyModel.C01.C_NodesC2
import TenpyModel.C01.C_CombR8
import TenpyModel.C01.C_Charge17
import TenpyModel.C01.C_Charge21
/-!
C01 part C — the `combine_legs` / `split_legs` nodes, and for all five node kinds the *closure of the charge invariants*:
`NodeSpecQ` = a node together with a reduced side condition `sideQ` under which — for operands that are well formed,
obey the charge rule, have valid legs and share `chinfo.mod` — the full side condition of the node holds and the result
again obeys the charge rule, has valid legs and the same `chinfo.mod`. `run_specQ`: induction over the program.
-/
namespace TenpyModel.C01C
open TenpyModel.Core TenpyModel.Core.C01SSA TenpyModel.C01B

variable {α : Type}

/-- `combine_legs(groups, qconj=…)` (default `new_axes`, `pipes`; groups by index or label); side: no empty group -/
def nodeCombine [Zero α] (cl : List (List Ax)) (qconj : List (Option Int)) : NodeSpec α where
  run := fun xs => match xs with
    | [a] => a.combineLegs cl none none qconj
    | _ => .error .typeError
  ref := fun xs => match xs with
    | [x] => refCombine x cl qconj
    | _ => dfltR
  side := fun _ => ∀ c ∈ cl, c ≠ []
  sound := by
    intro xs r hw hs h
    match xs, hw, h with
    | [a], hw, h => exact combineLegs_specR a r (hw a (by simp)) cl qconj hs h
    | [], _, h => cases h
    | _ :: _ :: _, _, h => cases h

/-- `split_legs(axes)`; side: the pipe legs of the operand are genuine pipes over well-shaped incoming legs
(`CombR.PipeLegOK`, decidable; automatic for results of `combine_legs`: `CombR.combineLegs_pipeLegOK`) -/
def nodeSplit [Zero α] (axes : Option (List Ax)) : NodeSpec α where
  run := fun xs => match xs with
    | [a] => a.splitLegs axes
    | _ => .error .typeError
  ref := fun xs => match xs with
    | [x] => refSplit x axes
    | _ => dfltR
  side := fun xs => ∀ a ∈ xs, ∀ l ∈ a.legs, l.isPipe = true → CombR.PipeLegOK l
  sound := by
    intro xs r hw hs h
    match xs, hw, hs, h with
    | [a], hw, hs, h => exact splitLegs_specR a r (hw a (by simp)) axes (hs a (by simp)) h
    | [], _, _, h => cases h
    | _ :: _ :: _, _, _, h => cases h

/-! ### closure of the charge invariants -/

/-- the invariant of the values of a program: well formed, charge rule, valid legs, `chinfo.mod = m` -/
def Inv (m : List Nat) (a : Arr α) : Prop := a.WF ∧ a.ChargeRule ∧ LegsValid a ∧ a.mods = m

structure NodeSpecQ (α : Type) [Zero α] extends NodeSpec α where
  sideQ : List (Arr α) → Prop
  soundQ : ∀ xs r m, (∀ a ∈ xs, Inv m a) → sideQ xs → run xs = .ok r →
    side xs ∧ r.ChargeRule ∧ LegsValid r ∧ r.mods = m

/-- reduced side conditions of all steps -/
def SideAllQ [Zero α] : List (Arr α) → List (NodeSpecQ α × List Nat) → Prop
  | _, [] => True
  | env, (n, ins) :: rest =>
    ∀ xs, operands env ins = .ok xs → n.sideQ xs ∧ ∀ r, n.run xs = .ok r → SideAllQ (env ++ [r]) rest

/-- **programs with closed charge invariants**: from an environment of tensors satisfying `Inv m`, under the reduced
side conditions, the full side conditions hold at every step, the model's values are the reference values, and every
value again satisfies `Inv m` -/
theorem run_specQ [Zero α] (prog : List (NodeSpecQ α × List Nat)) (m : List Nat) (env env' : List (Arr α))
    (hw : ∀ a ∈ env, Inv m a) (hs : SideAllQ env prog)
    (h : runArr env (prog.map (fun s => (s.1.toNodeSpec, s.2))) = .ok env') :
    SideAll env (prog.map (fun s => (s.1.toNodeSpec, s.2)))
    ∧ env'.map Arr.toR = runRef (env.map Arr.toR) (prog.map (fun s => (s.1.toNodeSpec, s.2)))
    ∧ (∀ a ∈ env', Inv m a) := by
  have key : SideAll env (prog.map (fun s => (s.1.toNodeSpec, s.2))) ∧ (∀ a ∈ env', Inv m a) := by
    induction prog generalizing env with
    | nil =>
      simp only [List.map_nil, runArr, Except.ok.injEq] at h
      subst h
      exact ⟨trivial, hw⟩
    | cons s rest ih =>
      obtain ⟨n, ins⟩ := s
      simp only [List.map_cons, runArr, bind, Except.bind] at h
      cases hx : operands env ins with
      | error e => rw [hx] at h; cases h
      | ok xs =>
        rw [hx] at h
        simp only at h
        cases hr : n.run xs with
        | error e => rw [hr] at h; cases h
        | ok r =>
          rw [hr] at h
          simp only at h
          obtain ⟨hm, _⟩ := operands_ok Arr.toR env ins xs hx
          obtain ⟨hq, hrest⟩ := hs xs hx
          obtain ⟨s1, s2, s3, s4⟩ := n.soundQ xs r m (fun a ha => hw a (hm a ha)) hq hr
          obtain ⟨_, w1⟩ := n.sound xs r (fun a ha => (hw a (hm a ha)).1) s1 hr
          have hw' : ∀ a ∈ env ++ [r], Inv m a := by
            intro a ha
            rcases List.mem_append.1 ha with h1 | h1
            · exact hw a h1
            · have : a = r := by simpa using h1
              rw [this]; exact ⟨w1, s2, s3, s4⟩
          obtain ⟨i1, i2⟩ := ih (env ++ [r]) hw' (hrest r hr) h
          refine ⟨?_, i2⟩
          intro xs' hx'
          rw [hx] at hx'
          cases hx'
          refine ⟨s1, fun r' hr' => ?_⟩
          rw [hr] at hr'
          cases hr'
          exact i1
  obtain ⟨k1, k2⟩ := key
  exact ⟨k1, (run_spec _ env env' (fun a ha => (hw a ha).1) k1 h).1, k2⟩

theorem refCombine_mods [Zero α] (x : RObj α) (cl : List (List Ax)) (qconj : List (Option Int)) :
    (refCombine x cl qconj).mods = x.mods := by
  unfold refCombine
  split
  · split <;> rfl
  · rfl

theorem refSplit_mods [Zero α] (x : RObj α) (axes : Option (List Ax)) : (refSplit x axes).mods = x.mods := by
  unfold refSplit
  split
  · split
    · rfl
    · split <;> rfl
  · rfl

/-! ### the five nodes with their reduced side conditions -/

/-- part-A/B program: `SideABQ` = part A's documented side conditions + `SqueezeQ` at `squeeze` nodes; nothing about
the charge rule of intermediate results -/
def nodeABQ [CommRing α] [DecidableEq α] (st : α → α) (hst : st 0 = 0) (cy : Bool) (p : C01ProgAB α) : NodeSpecQ α where
  toNodeSpec := nodeAB st hst cy p
  sideQ := fun xs => SideABQ st cy xs p
  soundQ := by
    intro xs r m hinv hq h
    have henv : ∀ a ∈ xs, a.WF ∧ a.ChargeRule ∧ LegsValid a := fun a ha => ⟨(hinv a ha).1, (hinv a ha).2.1, (hinv a ha).2.2.1⟩
    have hm : ∀ a ∈ xs, a.mods = m := fun a ha => (hinv a ha).2.2.2
    obtain ⟨_, _, _, c, v, mm⟩ := progAB_spec_mods st hst cy m xs henv hm p r hq h
    have hside := (progAB_chargeRule st hst cy xs henv p r (sideAB_of_sideABQ st hst cy m xs henv hm p hq).1 h).1
    exact ⟨hside, c, v, mm⟩

/-- `combine_legs`: the legs of the operand and the `qconj` arguments have direction ±1 -/
def nodeCombineQ [Zero α] (cl : List (List Ax)) (qconj : List (Option Int)) : NodeSpecQ α where
  toNodeSpec := nodeCombine cl qconj
  sideQ := fun xs => (∀ c ∈ cl, c ≠ []) ∧ (∀ q, some q ∈ qconj → q = 1 ∨ q = -1) ∧ ∀ a ∈ xs, LegsQ a
  soundQ := by
    intro xs r m hinv hq h
    match xs, hinv, hq, h with
    | [a], hinv, hq, h =>
      obtain ⟨w, c, v, mm⟩ := hinv a (by simp)
      obtain ⟨c', v'⟩ := chargeRule_combineLegs_default a r w c v (hq.2.2 a (by simp)) cl qconj hq.2.1 hq.1 h
      have hr := (combineLegs_specR a r w cl qconj hq.1 h).1
      have hmods : r.mods = a.mods := by
        have := congrArg RObj.mods hr
        rw [refCombine_mods] at this
        exact this
      exact ⟨hq.1, c', v', hmods.trans mm⟩
    | [], _, _, h => cases h
    | _ :: _ :: _, _, _, h => cases h

/-- `split_legs`: the pipe legs satisfy `SplitLegOK` (genuine pipes over valid incoming legs, direction ±1) -/
def nodeSplitQ [Zero α] (axes : Option (List Ax)) : NodeSpecQ α where
  toNodeSpec := nodeSplit axes
  sideQ := fun xs => ∀ a ∈ xs, ∀ l ∈ a.legs, l.isPipe = true → SplitLegOK a.mods l
  soundQ := by
    intro xs r m hinv hq h
    match xs, hinv, hq, h with
    | [a], hinv, hq, h =>
      obtain ⟨w, c, v, mm⟩ := hinv a (by simp)
      have hp : ∀ b ∈ [a], ∀ l ∈ b.legs, l.isPipe = true → CombR.PipeLegOK l := by
        intro b hb l hl hpipe
        have : b = a := by simpa using hb
        subst this
        exact CombR.PipeLegOK.of_splitLegOK b.mods l hpipe (hq b (by simp) l hl hpipe)
      obtain ⟨c', v'⟩ := chargeRule_splitLegs a r w c v (hq a (by simp)) axes h
      have hr := (splitLegs_specR a r w axes (hp a (by simp)) h).1
      have hmods : r.mods = a.mods := by
        have := congrArg RObj.mods hr
        rw [refSplit_mods] at this
        exact this
      exact ⟨hp, c', v', hmods.trans mm⟩
    | [], _, _, h => cases h
    | _ :: _ :: _, _, _, h => cases h

/-- `concatenate`: every operand has the axis, the legs on the axis have direction ±1 -/
def nodeConcatQ [Zero α] (axis : Ax) : NodeSpecQ α where
  toNodeSpec := nodeConcat axis
  sideQ := fun xs => match xs with
    | first :: rest => ∀ k, first.getLegIndex axis = .ok k →
        (∀ a ∈ rest, k < a.rank) ∧ ∀ b ∈ first :: rest, (b.lc k).qconj = 1 ∨ (b.lc k).qconj = -1
    | [] => True
  soundQ := by
    intro xs r m hinv hq h
    match xs, hinv, hq, h with
    | first :: rest, hinv, hq, h =>
      have h : Arr.concatenate (first :: rest) axis = .ok r := h
      have hk : ∃ k, first.getLegIndex axis = .ok k := by
        have he := Cat.concatenate_eq first rest axis
        rw [h] at he
        cases hk : first.getLegIndex axis with
        | error e => rw [hk] at he; cases he
        | ok k => exact ⟨k, rfl⟩
      obtain ⟨k, hk⟩ := hk
      obtain ⟨h1, h2⟩ := hq k hk
      have hside : ∀ k', first.getLegIndex axis = .ok k' → ∀ a ∈ rest, k' < a.rank := by
        intro k' hk'
        rw [hk] at hk'
        cases hk'
        exact h1
      obtain ⟨c', v'⟩ := concatenate_chargeRule first rest axis r (fun a ha => (hinv a ha).1)
        (fun a ha => (hinv a ha).2.1) (fun a ha => (hinv a ha).2.2.1) h k hk h1 h2
      obtain ⟨_, _, _, _, _, d6, _⟩ := concatenate_spec first rest axis r (fun a ha => (hinv a ha).1) h k hk h1
      exact ⟨hside, c', v', d6.trans (hinv first (by simp)).2.2.2⟩
    | [], _, _, h => cases h

/-- `sort_legcharge`: the legs of the operand have direction ±1 -/
def nodeSortQ [Zero α] (sort bunch : List Bool) : NodeSpecQ α where
  toNodeSpec := nodeSort sort bunch
  sideQ := fun xs => ∀ a ∈ xs, LegsQ a
  soundQ := by
    intro xs r m hinv hq h
    match xs, hinv, hq, h with
    | [a], hinv, hq, h =>
      obtain ⟨w, c, v, mm⟩ := hinv a (by simp)
      simp only [nodeSort] at h
      cases hs : a.sortLegcharge sort bunch with
      | error e => rw [hs] at h; cases h
      | ok pc =>
        rw [hs] at h
        simp only [Except.ok.injEq] at h
        obtain ⟨perms, cp⟩ := pc
        subst h
        obtain ⟨c', v'⟩ := chargeRule_sortLegcharge a w c v (hq a (by simp)) sort bunch perms cp hs
        obtain ⟨_, _, _, _, ⟨_, m2, _, _⟩, _⟩ := sortLegcharge_spec a w sort bunch perms cp hs
        exact ⟨trivial, c', v', m2.trans mm⟩
    | [], _, _, h => cases h
    | _ :: _ :: _, _, _, h => cases h

end TenpyModel.C01C
