import TenpyModel.C01.C_CombR8
import TenpyModel.C01.C_CombR3
/-!
C01 part C — non-vacuity of `splitLegs_specR`: tensors with pipe legs that are **not** literally results of
`combine_legs` (a combined tensor transposed, so that the pipe is the first leg; stored blocks in unsorted order), the
worker branch and the one-block shortcut; axes `None`, by index and by label. Hypotheses by `decide`, the reference value
compared with the model's run by `decide` (`+kernel` for the bulky ones).
-/
namespace TenpyModel.C01C.CombREx
open TenpyModel.Core TenpyModel.C01B TenpyModel.C01B2 TenpyModel.C01B2.Comb TenpyModel.C01C
open TenpyModel.C01B2.Comb.Ex

/-- `t3.combine_legs([1, 2], qconj=+1)` transposed: legs `[pipe(b, c), a]`, two stored blocks -/
def c3t : Arr Int :=
  match t3.combineLegs [[.idx 1, .idx 2]] none none [some 1] with
  | .ok r => r.itransposeFast [1, 0]
  | .error _ => t3

/-- `t1.combine_legs([0, 1])`: one leg, one stored block -/
def c1 : Arr Int :=
  match t1.combineLegs [[.idx 0, .idx 1]] none none [some 1] with
  | .ok r => r
  | .error _ => t1

example : c3t.labels = [some "(b.?2)", some "a"] ∧ c3t.shape = [12, 4] ∧ c3t.qdata = [[0, 0], [0, 2]]
    ∧ c3t.qdataSorted = false := by decide

/-- hypotheses of `splitLegs_specR` -/
example : c3t.WF ∧ (∀ l ∈ c3t.legs, l.isPipe = true → CombR.PipeLegOK l) := by decide
example : c1.WF ∧ (∀ l ∈ c1.legs, l.isPipe = true → CombR.PipeLegOK l) := by decide
/-- … which fail for a plain leg / a pipe whose claimed incoming legs are not the ones it was built from -/
example : ¬ CombR.PipeLegOK (.plain legA)
    ∧ ¬ CombR.PipeLegOK (match pBC with | .pipe p _ => .pipe p [.plain legC, .plain legB] | l => l) := by decide

/-- worker branch, `axes=None`: the reference value is the model's run -/
example : (c3t.splitLegs none).toOption.map (fun r => obs r.toR) = some (obs (refSplit c3t.toR none)) := by
  decide +kernel
example : (refSplit c3t.toR none).d.shape = [3, 4, 4] ∧ (refSplit c3t.toR none).labels = [some "b", none, some "a"]
    ∧ (refSplit c3t.toR none).d.get 0 [1, 1, 3] = -7 ∧ t3.toDense.get 0 [3, 1, 1] = -7
    ∧ (refSplit c3t.toR none).d = t3.toDense.transpose [1, 2, 0] := by decide +kernel
example : (refSplit c3t.toR none).legs = [.plain legB, .plain legC, .plain legA] := rfl
/-- the index map: sub-indices `(1, 1)` of the pipe ↦ `map_incoming_flat = 1` -/
example : CombR.splitIdx c3t.toR [0] [1, 1, 3] = [1, 3] ∧ CombR.splitIdx c3t.toR [0] [2, 3, 1] = [4, 1] := by decide

/-- axes by label / by (negative) index -/
example : (c3t.splitLegs (some [.lbl "(b.?2)"])).toOption.map (fun r => obs r.toR)
    = some (obs (refSplit c3t.toR (some [.lbl "(b.?2)"]))) := by decide +kernel
example : (c3t.splitLegs (some [.idx (-2)])).toOption.map (fun r => obs r.toR)
    = some (obs (refSplit c3t.toR (some [.idx (-2)]))) := by decide +kernel
/-- nothing to split: the tensor itself -/
example : (t3.splitLegs none).toOption.map (fun r => obs r.toR) = some (obs (refSplit t3.toR none)) := by
  decide +kernel
/-- one-block shortcut -/
example : (c1.splitLegs none).toOption.map (fun r => obs r.toR) = some (obs (refSplit c1.toR none)) := by
  decide +kernel
example : (refSplit c1.toR none).d = t1.toDense ∧ (refSplit c1.toR none).labels = t1.labels := by decide +kernel
/-- the theorem applied -/
example (r : Arr Int) (h : c3t.splitLegs (some [.lbl "(b.?2)"]) = .ok r) :
    r.toR = refSplit c3t.toR (some [.lbl "(b.?2)"]) ∧ r.WF :=
  splitLegs_specR c3t r (by decide) _ (by decide) h

/-- hypotheses of `splitIdx_getD` for `c3t`, and its reading of the index map: axis 0 is the pipe over the split legs at
positions `[0, 1]`, axis 1 reads position 2 -/
example : [0].Pairwise (· < ·) ∧ (∀ k ∈ [0], k < c3t.toR.rank) ∧ (∀ k ∈ [0], (c3t.toR.legs.getD k default).isPipe = true)
    ∧ CombR.segPart (CombR.splitWidth c3t.toR.legs [0]) 0 = [0, 1]
    ∧ CombR.segOff (CombR.splitWidth c3t.toR.legs [0]) 1 = 2 := by decide

/-- `combineLegs_pipeLegOK` / `splitCombine_specR`: hypotheses on `t3` (no pipe legs: vacuous there, the new pipe is
genuine) and the chained reference value against the model's run (with the transposition `[1, 2, 0]`) -/
example : ∀ l ∈ t3.legs, l.isPipe = true → CombR.PipeLegOK l := by decide
example : ((t3.combineLegs [[.idx 2, .lbl "a"]] none none [some 1]).bind (fun r => r.splitLegs none)).toOption.map
      (fun r => obs r.toR)
    = some (obs (refSplit (refCombine t3.toR [[.idx 2, .lbl "a"]] [some 1]) none)) := by decide +kernel
example : (refSplit (refCombine t3.toR [[.idx 2, .lbl "a"]] [some 1]) none).d = t3.toDense.transpose [1, 2, 0]
    ∧ (refSplit (refCombine t3.toR [[.idx 2, .lbl "a"]] [some 1]) none).labels = [some "b", none, some "a"] := by
  decide +kernel
/-- a nested case: combine twice (the second group contains the first pipe), split only the outer pipe: the inner pipe
comes back as a leg -/
example : (((t3.combineLegs [[.idx 1, .idx 2]] none none [some 1]).bind
        (fun r => r.combineLegs [[.idx 0, .idx 1]] none none [some (-1)])).bind (fun r => r.splitLegs none)).toOption.map
      (fun r => obs r.toR)
    = some (obs (refSplit (refCombine (refCombine t3.toR [[.idx 1, .idx 2]] [some 1]) [[.idx 0, .idx 1]] [some (-1)])
        none)) := by decide +kernel
end TenpyModel.C01C.CombREx
