import TenpyModel.Core.ArrLabel
/-! Helper lemmas for the label algebra (C01). -/
namespace TenpyModel.Core.Label

/-- characters allowed in an atomic label -/
def isAtomChar (c : Char) : Prop := c ≠ '(' ∧ c ≠ ')' ∧ c ≠ '.' ∧ c ≠ '*'

/-- an atomic label: non-empty, no parentheses, dots or stars -/
def Atom (l : List Char) : Prop := l ≠ [] ∧ ∀ c ∈ l, isAtomChar c

/-- depth bookkeeping of `_split_leg_label` over one piece: `some d'` = the piece contains no '.' at depth 0 and
moves the depth from `d` to `d'` -/
def walk (d : Int) : List Char → Option Int
  | [] => some d
  | c :: cs =>
    if c = '(' then walk (d + 1) cs
    else if c = ')' then walk (d - 1) cs
    else if c = '.' ∧ d = 0 then none
    else walk d cs

/-- a label that `_split_leg_label` treats as one piece: non-empty, and scanning it from depth 0 never meets a
'.' at depth 0 and returns to depth 0 (balanced parentheses; atoms, conjugated atoms and pipe labels qualify) -/
def Piece (l : List Char) : Prop := l ≠ [] ∧ walk 0 l = some 0

theorem splitTop_append (p : List Char) : ∀ (d d' : Int) (cur rest : List Char), walk d p = some d' →
    splitTop d cur (p ++ rest) = splitTop d' (p.reverse ++ cur) rest := by
  induction p with
  | nil => intro d d' cur rest h; simp [walk] at h; simp [h]
  | cons c cs ih =>
    intro d d' cur rest h
    simp only [walk] at h
    simp only [List.cons_append, splitTop, List.reverse_cons, List.append_assoc, List.singleton_append]
    by_cases h1 : c = '('
    · simp only [h1, if_true] at h ⊢
      exact ih _ _ _ _ h
    · by_cases h2 : c = ')'
      · simp only [h1, h2, if_true, if_false] at h ⊢
        simp only [show (')' = '(') = False from by decide, if_false] at h ⊢
        exact ih _ _ _ _ h
      · simp only [h1, h2, if_false] at h ⊢
        by_cases h3 : c = '.' ∧ d = 0
        · simp [h3] at h
        · simp only [h3, if_false] at h ⊢
          exact ih _ _ _ _ h

theorem splitTop_joinDots (p : List Char) (ps : List (List Char)) (hp : walk 0 p = some 0)
    (hps : ∀ q ∈ ps, walk 0 q = some 0) (cur : List Char) :
    splitTop 0 cur (joinDots (p :: ps)) = (cur.reverse ++ p) :: ps := by
  induction ps generalizing p cur with
  | nil =>
    have := splitTop_append p 0 0 cur [] hp
    simp only [List.append_nil] at this
    simp [joinDots, this, splitTop]
  | cons q r ih =>
    have hq : walk 0 q = some 0 := hps q (by simp)
    have hr : ∀ x ∈ r, walk 0 x = some 0 := fun x hx => hps x (by simp [hx])
    simp only [joinDots]
    rw [splitTop_append p 0 0 cur _ hp]
    simp only [splitTop]
    simp only [show ('.' = '(') = False from by decide, show ('.' = ')') = False from by decide, if_false, and_self,
      if_true, List.reverse_append, List.reverse_reverse]
    rw [ih q hq hr []]
    simp

theorem joinDots_ne_nil (p : List Char) (ps : List (List Char)) (hp : p ≠ []) : joinDots (p :: ps) ≠ [] := by
  cases ps with
  | nil => simpa [joinDots] using hp
  | cons q r => cases p <;> simp_all [joinDots]

/-! ### conjugation of atoms -/

theorem conjInsert_of_plain (l : List Char) (h : ∀ c ∈ l, c ≠ '.' ∧ c ≠ ')') (prev : Option Char) :
    conjInsert prev l = l := by
  induction l generalizing prev with
  | nil => simp [conjInsert]
  | cons c cs ih =>
    have hc := h c (by simp)
    have hcs : ∀ x ∈ cs, x ≠ '.' ∧ x ≠ ')' := fun x hx => h x (by simp [hx])
    simp only [conjInsert]
    rw [ih hcs]
    cases prev <;> simp [hc.1, hc.2]

theorem removeStarStar_plain_append (l s : List Char) (h : ∀ c ∈ l, c ≠ '*') :
    removeStarStar (l ++ s) = l ++ removeStarStar s := by
  induction l with
  | nil => simp
  | cons c cs ih =>
    have hc : c ≠ '*' := h c (by simp)
    have hcs : ∀ x ∈ cs, x ≠ '*' := fun x hx => h x (by simp [hx])
    simp only [List.cons_append]
    rw [removeStarStar.eq_def]
    split
    · rename_i heq; simp at heq; exact absurd heq.1 hc
    · rename_i heq; simp at heq; rw [← heq.2, ← heq.1]; simp [ih hcs]
    · rename_i heq; simp at heq

end TenpyModel.Core.Label
