import TenpyModel.C01.C_Concat7
import TenpyModel.C01.Props
/-!
C01 part C — `concatenate`: non-vacuity. `ExCat.t2` is a second tensor over the charges of `C01Example.t` (U(1)×Z₃)
whose first leg has **two blocks and the opposite `qconj`** (so the charge rows are negated on concatenation), second
leg `legB`, both admissible blocks stored in unsorted order. `concatenate([t, t2, t], 'a')` stacks 3 + 2 + 3 blocks.
`ExCat.s1` is the rank-1 operand of the counterexample for the side hypothesis `hrank`.
-/
namespace TenpyModel.C01C
open TenpyModel.Core TenpyModel.C01B Cat

namespace ExCat
def legA2 : Leg := ⟨[1, 3], [0, 2, 3], [[0, 2], [1, 1]], -1, false, false⟩
/-- blocks (0,0) [2×2] and (1,1) [1×1]: charges `-(0,2) - (1,0) = (-1,-2) ≡ (-1,1)`, `-(1,1) - (0,1) = (-1,-2)` -/
def t2 : Arr Int :=
  { mods := [1, 3], legs := [.plain legA2, .plain C01Example.legB], qtotal := [-1, 1], labels := [some "x", some "y"],
    qdata := [[1, 1], [0, 0]], data := [⟨[1, 1], [9]⟩, ⟨[2, 2], [1, 2, 3, 4]⟩], qdataSorted := false }
/-- the three operands -/
def ops : List (Arr Int) := [t2, C01Example.t]
/-- a rank-1 operand (one leg less than `t`) -/
def s1 : Arr Int :=
  { mods := [1, 3], legs := [.plain C01Example.legA], qtotal := [-1, 1], labels := [some "a"],
    qdata := [[0]], data := [⟨[1], [9]⟩], qdataSorted := true }
end ExCat

example : ExCat.t2.WF ∧ ExCat.t2.ChargeRule ∧ ExCat.s1.WF := by decide

/-- hypotheses of the theorems for `concatenate([t, t2, t], 'a')` -/
theorem ExCat.hyps : (∀ a ∈ C01Example.t :: ExCat.ops, a.WF) ∧ C01Example.t.getLegIndex (.lbl "a") = .ok 0
    ∧ (∀ a ∈ ExCat.ops, 0 < a.rank) := by decide

/-- the call succeeds (so `concatenate_ok_iff` is used in the non-trivial direction) -/
example : ∃ r, Arr.concatenate (C01Example.t :: ExCat.ops) (.lbl "a") = .ok r :=
  (concatenate_ok_iff _ _ _).2 ⟨0, by decide, by decide⟩

/-- the run, `decide`d: 8 blocks on the axis, the charges of `t2`'s leg negated, rows shifted by 3 and 5 -/
example : (Arr.concatenate (C01Example.t :: ExCat.ops) (.lbl "a")).toOption.map (fun r => r.toDense)
    = some ⟨[11, 3], [0, 0, 0, 0, 0, 0, 0, 0, 0, 5, -7, 0] ++ [1, 2, 0, 3, 4, 0, 0, 0, 9] ++ [0, 0, 0, 0, 0, 0, 0, 0, 0, 5, -7, 0]⟩ := by
  decide
example : (Arr.concatenate (C01Example.t :: ExCat.ops) (.lbl "a")).toOption.map (fun r => (r.qdata, (r.lc 0).slices))
    = some ([[2, 0], [4, 1], [3, 0], [7, 0]], [0, 1, 3, 4, 6, 7, 8, 10, 11]) := by decide
example : (Arr.concatenate (C01Example.t :: ExCat.ops) (.lbl "a")).toOption.map (fun r => ((r.lc 0).charges, (r.lc 0).qconj))
    = some ([[0, 1], [1, 2], [0, 1], [0, 1], [-1, 2], [0, 1], [1, 2], [0, 1]], 1) := by decide

/-- `concatenate_spec` on the instance: dense form = `np.concatenate`, and the result is well formed -/
example (r : Arr Int) (h : Arr.concatenate (C01Example.t :: ExCat.ops) (.lbl "a") = .ok r) :
    r.toDense = Dense.concatenate [C01Example.t.toDense, ExCat.t2.toDense, C01Example.t.toDense] 0
    ∧ r.shape = [11, 3] ∧ r.labels = [some "a", some "b*"] ∧ r.qtotal = [-1, 1] ∧ r.WF := by
  obtain ⟨h1, h2, _, h4, h5, _, _, _, _, h9⟩ :=
    concatenate_spec C01Example.t ExCat.ops (.lbl "a") r ExCat.hyps.1 h 0 ExCat.hyps.2.1 ExCat.hyps.2.2
  exact ⟨h1, h2, h4, h5, h9⟩

/-- the dense side of the instance is not trivial -/
example : Dense.concatenate [C01Example.t.toDense, ExCat.t2.toDense, C01Example.t.toDense] 0
    = ⟨[11, 3], ([0, 0, 0, 0, 0, 0, 0, 0, 0, 5, -7, 0] ++ [1, 2, 0, 3, 4, 0, 0, 0, 9] ++ [0, 0, 0, 0, 0, 0, 0, 0, 0, 5, -7, 0])⟩ := by
  decide

/-- `concatenate_checks` on the instance -/
example (r : Arr Int) (h : Arr.concatenate (C01Example.t :: ExCat.ops) (.lbl "a") = .ok r) :
    ∀ a ∈ C01Example.t :: ExCat.ops, a.rank = 2 ∧ a.qtotal = [-1, 1] :=
  fun a ha =>
    let c := (concatenate_checks C01Example.t ExCat.ops (.lbl "a") r ExCat.hyps.1 h 0 ExCat.hyps.2.1 ExCat.hyps.2.2).2 a ha
    ⟨c.1, c.2.2.1⟩

/-- `concatenate_entry` on the instance: the entry `t2[0, 1] = 2` sits at row `0 + 4` (after the 4 rows of `t`), and
`r[10, 1]` is `t[3, 1] = -7` (third operand, offset `4 + 3`) -/
example (r : Arr Int) (h : Arr.concatenate (C01Example.t :: ExCat.ops) (.lbl "a") = .ok r) :
    r.entry [4, 1] = 2 ∧ r.entry [10, 1] = -7 := by
  obtain ⟨e1, _⟩ := concatenate_entry C01Example.t ExCat.ops (.lbl "a") r ExCat.hyps.1 h 0 ExCat.hyps.2.1 ExCat.hyps.2.2
  have a1 := e1 [C01Example.t] ExCat.t2 [C01Example.t] rfl [0, 1] (by decide)
  have a2 := e1 [C01Example.t, ExCat.t2] C01Example.t [] rfl [3, 1] (by decide)
  exact ⟨a1.trans (by decide), a2.trans (by decide)⟩

/-- **the binary case** `concatenate([a, b], axis)`: dense form `= np.concatenate([A, B], k)` (`Dense.concat2`),
entry form with the case distinction on `idx[k]`, and `r.WF` -/
theorem concatenate_spec_binary {α : Type} [Zero α] (a b r : Arr α) (axis : Ax) (ha : a.WF) (hb : b.WF)
    (h : Arr.concatenate [a, b] axis = .ok r) (k : Nat) (hk : a.getLegIndex axis = .ok k) (hrank : k < b.rank) :
    r.toDense = Dense.concat2 a.toDense b.toDense k
    ∧ r.shape = a.shape.set k ((a.lc k).indLen + (b.lc k).indLen)
    ∧ (∀ idx, InRange idx r.shape → r.entry idx =
        if idx.getD k 0 < (a.lc k).indLen then a.entry idx else b.entry (idx.set k (idx.getD k 0 - (a.lc k).indLen)))
    ∧ r.WF := by
  have hwf : ∀ x ∈ [a, b], x.WF := by
    intro x hx
    simp only [List.mem_cons, List.not_mem_nil, or_false] at hx
    rcases hx with rfl | rfl
    · exact ha
    · exact hb
  have hr : ∀ x ∈ [b], k < x.rank := by
    intro x hx
    simp only [List.mem_cons, List.not_mem_nil, or_false] at hx
    rw [hx]; exact hrank
  obtain ⟨h1, h2, _, _, _, _, _, _, _, h9⟩ := concatenate_spec a [b] axis r hwf h k hk hr
  obtain ⟨hka, hall⟩ := concatenate_checks a [b] axis r hwf h k hk hr
  have hbs := (hall b (by simp)).2.2.2.1
  have hbr := (hall b (by simp)).1
  have h1' : r.toDense = Dense.concat2 a.toDense b.toDense k := h1
  have h2' : r.shape = a.shape.set k ((a.lc k).indLen + (b.lc k).indLen) := by
    rw [h2]; simp
  have hkS : k < a.shape.length := by rw [Arr.shape_length]; exact hka
  have na : a.toDense.shape.getD k 0 = (a.lc k).indLen := shape_getD a k hka
  have nb : b.toDense.shape.getD k 0 = (b.lc k).indLen := shape_getD b k hrank
  refine ⟨h1', h2', fun idx hidx => ?_, h9⟩
  rw [← toDense_get r idx hidx, h1', concat2_get _ _ _ _ (by rw [na, nb]; rw [h2'] at hidx; exact hidx), na]
  rw [h2'] at hidx
  have hil : idx.length = a.shape.length := by rw [hidx.length_eq, List.length_set]
  by_cases hlt : idx.getD k 0 < (a.lc k).indLen
  · rw [if_pos hlt, if_pos hlt]
    have hin : InRange idx a.shape := by
      have := InRange_set_set (v := idx.getD k 0) (n' := (a.lc k).indLen) hidx hkS hlt
      rw [set_getD_self_pj] at this
      have e : a.shape.set k (a.lc k).indLen = a.shape := by
        rw [← shape_getD a k hka, set_getD_self_pj]
      rwa [e] at this
    exact toDense_get a idx hin
  · rw [if_neg hlt, if_neg hlt]
    have hx : idx.getD k 0 < (a.lc k).indLen + (b.lc k).indLen := by
      have := hidx.getD_lt' k (by rw [List.length_set]; exact hkS)
      rwa [getD_set_eq_pj _ _ _ _ hkS] at this
    have hin : InRange (idx.set k (idx.getD k 0 - (a.lc k).indLen)) b.shape := by
      rw [hbs]
      exact InRange_set_set hidx hkS (by omega)
    exact toDense_get b _ hin

/-- the binary theorem on `concatenate([t2, t], 0)` -/
example (r : Arr Int) (h : Arr.concatenate [ExCat.t2, C01Example.t] (.idx 0) = .ok r) :
    r.toDense = Dense.concat2 ExCat.t2.toDense C01Example.t.toDense 0 ∧ r.entry [6, 1] = -7 ∧ r.WF := by
  obtain ⟨h1, _, h3, h4⟩ := concatenate_spec_binary ExCat.t2 C01Example.t r (.idx 0) (by decide) (by decide) h 0
    (by decide) (by decide)
  refine ⟨h1, ?_, h4⟩
  have hs : r.shape = [7, 3] := by
    have := congrArg Dense.shape h1
    exact this.trans (by decide)
  rw [h3 [6, 1] (by rw [hs]; decide)]
  decide
example : ∃ r, Arr.concatenate [ExCat.t2, C01Example.t] (.idx 0) = .ok r :=
  (concatenate_ok_iff _ _ _).2 ⟨0, by decide, by decide⟩

/-- when the axis is not the last one, `hrank` is automatic -/
example (r : Arr Int) (h : Arr.concatenate (C01Example.t :: ExCat.ops) (.lbl "a") = .ok r) : ∀ a ∈ ExCat.ops, 0 < a.rank :=
  concatenate_hrank_of_not_last _ _ _ r h 0 (by decide) (by decide)

/-- **the side hypothesis `hrank` is needed** (for the model): stacking along the *last* axis of a rank-2 tensor, an
operand with one leg less passes all checks of the loop; the model then returns a malformed tensor (tenpy raises
`IndexError` at `a.legs[axis]`). -/
theorem concatenate_rank_counterexample :
    C01Example.t.WF ∧ ExCat.s1.WF ∧ C01Example.t.getLegIndex (.idx 1) = .ok 1 ∧ ¬ (1 < ExCat.s1.rank)
    ∧ ∃ r, Arr.concatenate [C01Example.t, ExCat.s1] (.idx 1) = .ok r ∧ ¬ r.WF := by
  refine ⟨by decide, by decide, by decide, by decide, ?_⟩
  cases h : Arr.concatenate [C01Example.t, ExCat.s1] (.idx 1) with
  | error e =>
    have hok : (Arr.concatenate [C01Example.t, ExCat.s1] (.idx 1)).toOption.isSome = true := by decide
    rw [h] at hok
    simp [Except.toOption] at hok
  | ok r =>
    refine ⟨r, rfl, ?_⟩
    have : (Arr.concatenate [C01Example.t, ExCat.s1] (.idx 1)).toOption.map (fun r => decide r.WF) = some false := by
      decide
    rw [h] at this
    simpa [Except.toOption] using this

end TenpyModel.C01C
