import TenpyModel.C01.C_Charge8
import TenpyModel.C01.C_Charge6
import TenpyModel.C01.B2_CombEx
/-!
C01 part C — non-vacuity of `chargeRule_splitLegs`: splitting the pipe of `combine_legs(t3, …)` (worker branches) and of
the one-block tensor `t1` (one-block shortcuts), through the public entry points.
-/
namespace TenpyModel.C01C.Ex3
open TenpyModel.Core TenpyModel.C01B TenpyModel.C01B2 TenpyModel.C01B2.Comb TenpyModel.C01C

/-- the combined tensors have a pipe leg satisfying the hypothesis `SplitLegOK` (and WF, charge rule, valid legs) -/
def splitHyps (v : Except Err (Arr Int)) : Bool :=
  match v with
  | .ok r => decide (r.WF ∧ r.ChargeRule ∧ LegsValid r ∧ (∀ l ∈ r.legs, l.isPipe = true → SplitLegOK r.mods l)
      ∧ r.legs.any ALeg.isPipe = true)
  | .error _ => false

example : splitHyps (Ex.t3.combineLegs [[.idx 1, .idx 2]] none none [some 1]) = true
    ∧ splitHyps (Ex.t3.combineLegs [[.idx 2, .idx 0]] none none [some 1]) = true
    ∧ splitHyps (Ex.t1.combineLegs [[.idx 0, .idx 1]] none none [some 1]) = true := by decide

theorem hyps_of {v : Except Err (Arr Int)} (h : splitHyps v = true) :
    ∃ r, v = .ok r ∧ r.WF ∧ r.ChargeRule ∧ LegsValid r ∧ (∀ l ∈ r.legs, l.isPipe = true → SplitLegOK r.mods l) := by
  unfold splitHyps at h
  split at h
  · rename_i r
    have := of_decide_eq_true h
    exact ⟨r, rfl, this.1, this.2.1, this.2.2.1, this.2.2.2.1⟩
  · cases h

/-- the theorem applies to `split_legs(combine_legs(t3, [1, 2]))` (worker branch of both), for every way of naming the
axes; the call does succeed -/
example : ∃ r, Ex.t3.combineLegs [[.idx 1, .idx 2]] none none [some 1] = .ok r
    ∧ (∀ axes a', r.splitLegs axes = .ok a' → a'.ChargeRule ∧ LegsValid a')
    ∧ (r.splitLegs none).toOption.isSome = true := by
  obtain ⟨r, hr, h1, h2, h3, h4⟩ := hyps_of
    (show splitHyps (Ex.t3.combineLegs [[.idx 1, .idx 2]] none none [some 1]) = true by decide)
  refine ⟨r, hr, fun axes a' hs => chargeRule_splitLegs r a' h1 h2 h3 h4 axes hs, ?_⟩
  have : ((Ex.t3.combineLegs [[.idx 1, .idx 2]] none none [some 1]).bind (fun r => r.splitLegs none)).toOption.isSome
      = true := by decide
  rw [hr] at this
  exact this

/-- … and by evaluation: worker branches (with and without transposition), one-block shortcuts (`t1`) -/
example : ((Ex.t3.combineLegs [[.idx 1, .idx 2]] none none [some 1]).bind (fun r => r.splitLegs (some [.idx 1]))).toOption.map
      (fun a' => decide (a'.ChargeRule ∧ LegsValid a') && !a'.qdata.isEmpty) = some true
    ∧ ((Ex.t3.combineLegs [[.idx 2, .idx 0]] none none [some 1]).bind (fun r => r.splitLegs none)).toOption.map
      (fun a' => decide (a'.ChargeRule ∧ LegsValid a') && !a'.qdata.isEmpty) = some true
    ∧ ((Ex.t1.combineLegs [[.idx 0, .idx 1]] none none [some 1]).bind (fun r => r.splitLegs none)).toOption.map
      (fun a' => decide (a'.ChargeRule ∧ LegsValid a') && !a'.qdata.isEmpty) = some true := by decide

end TenpyModel.C01C.Ex3
