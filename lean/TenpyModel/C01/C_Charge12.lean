import TenpyModel.C01.C_Charge10
/-!
C01 part C — closure under part A's operations, file 3: `iproject` (one projection step `proj1` keeps the charge of
every surviving block; `iproject` with distinct axes is the iteration of that step).
-/
namespace TenpyModel.C01C
open TenpyModel.Core TenpyModel.C01B TenpyModel.C01B2

variable {α : Type}

section zero
variable [Zero α]

/-- **one projection step** keeps the charge rule and the validity of the legs -/
theorem chargeRule_proj1 (a : Arr α) (mask : List Bool) (k : Nat) (ha : a.WF0) (hk : k < a.rank)
    (hc : a.ChargeRule) (hv : LegsValid a) :
    (a.proj1 (mask, k)).ChargeRule ∧ LegsValid (a.proj1 (mask, k)) := by
  obtain ⟨_, w2, _, w4, w5, _⟩ := ha
  have hkl : k < a.lcs.length := by rw [lcs_length]; exact hk
  have hlmem : a.lc k ∈ a.lcs := by rw [← Arr.lc_eq a k hk]; exact getD_mem _ _ _ hkl
  have hs : (a.lc k).Shape := shapeOK_shape (w4 _ hlmem)
  constructor
  · intro q' hq'
    have hq'' : q' ∈ ((a.qdata.zip a.data).filterMap (fun rb =>
        if Arr.projKeepRow ((a.lc k).project mask).1 k rb.1 then
          some (Arr.projRow ((a.lc k).project mask).1 k rb.1,
            rb.2.compress k (((a.lc k).project mask).2.1.getD ((Arr.projRow ((a.lc k).project mask).1 k rb.1).getD k 0) []))
        else none)).map (·.1) := hq'
    obtain ⟨e, he, rfl⟩ := List.mem_map.1 hq''
    obtain ⟨rb, hrb, hsome⟩ := List.mem_filterMap.1 he
    split at hsome
    · rename_i hkeep
      injection hsome with hsome
      subst hsome
      have hqm := (List.of_mem_zip hrb).1
      obtain ⟨hql, hqlt⟩ := w5 rb.1 hqm
      have hqk := hqlt k hk
      simp only [Arr.projKeepRow, decide_eq_true_eq] at hkeep
      obtain ⟨m1, m2⟩ := Leg.project_mapQ_spec (a.lc k) mask hs _ hqk hkeep
      rw [Arr.proj1_mods, Arr.proj1_lcs, Arr.proj1_qtotal, ← hc rb.1 hqm]
      unfold blockChargeOf
      congr 2
      -- entry by entry the charges agree
      apply ext_getD _ _ ([] : Charge)
      · simp [Arr.projRow]
      · intro j hj
        have hj' : j < a.rank := by
          simp only [List.length_zipWith, List.length_set, lcs_length, Arr.projRow, hql, Nat.min_self] at hj
          exact hj
        rw [zipWith_getD _ _ _ default 0 [] j (by rw [List.length_set, lcs_length]; exact hj')
            (by simp [Arr.projRow, hql]; exact hj'),
          zipWith_getD _ _ _ default 0 [] j (by rw [lcs_length]; exact hj') (by rw [hql]; exact hj')]
        by_cases hjk : k = j
        · subst hjk
          rw [getD_set_eq_pj _ _ _ _ hkl, Arr.projRow_getD_eq _ _ _ (by rw [hql]; exact hk), Arr.lc_eq a k hk]
          unfold Leg.getCharge
          rw [Leg.project_charges, take?_getD _ _ _ _ (by rw [← Leg.project_blockNumber]; exact m1), m2]
          rfl
        · rw [getD_set_ne_pj _ _ _ _ _ hjk, Arr.projRow_getD_ne _ _ _ _ hjk]
    · cases hsome
  · intro l hl
    rw [Arr.proj1_lcs] at hl
    rw [Arr.proj1_mods]
    rcases List.mem_or_eq_of_mem_set hl with h1 | h1
    · exact hv l h1
    · rw [h1]
      refine ⟨(hv _ hlmem).1, ?_⟩
      intro c hc'
      exact (hv _ hlmem).2 c ((Leg.project_charges_sublist (a.lc k) mask hs).subset hc')

/-- iterating the step -/
theorem chargeRule_foldl_proj1 (L : List (List Bool × Nat)) : ∀ (a : Arr α), a.WF0 → (L.map (·.2)).Nodup →
    (∀ mk ∈ L, mk.2 < a.rank ∧ mk.1.length = a.shape.getD mk.2 0) → a.ChargeRule → LegsValid a →
    (L.foldl Arr.proj1 a).ChargeRule ∧ LegsValid (L.foldl Arr.proj1 a) := by
  induction L with
  | nil => intro a _ _ _ hc hv; exact ⟨hc, hv⟩
  | cons mk L ih =>
    intro a ha hnd hL hc hv
    rw [List.map_cons, List.nodup_cons] at hnd
    obtain ⟨hk, hm⟩ := hL mk (by simp)
    obtain ⟨_, s2⟩ := Arr.proj1_spec a mk.1 mk.2 ha hk hm
    obtain ⟨c1, v1⟩ := chargeRule_proj1 a mk.1 mk.2 ha hk hc hv
    rw [List.foldl_cons]
    refine ih (a.proj1 mk) s2 hnd.2 ?_ c1 v1
    intro mk' hmk'
    obtain ⟨hk', hm'⟩ := hL mk' (by simp [hmk'])
    have hne : mk.2 ≠ mk'.2 := fun e => hnd.1 (e ▸ List.mem_map_of_mem hmk')
    refine ⟨by rw [Arr.proj1_rank]; exact hk', ?_⟩
    rw [Arr.proj1_shape, getD_set_ne_pj _ _ _ _ _ hne]
    exact hm'

/-- **`iproject(masks, axes)`** (bool or integer masks; `ax.Nodup` as in `C01_toDense_iproject`) -/
theorem chargeRule_iproject (a r : Arr α) (ha : a.WF) (hc : a.ChargeRule) (hv : LegsValid a)
    (masks : List Arr.Mask) (axes : List Ax) (ax : List Nat) (hax : a.getLegIndices axes = .ok ax) (hnd : ax.Nodup)
    (h : a.iproject masks axes = .ok r) : r.ChargeRule ∧ LegsValid r := by
  obtain ⟨ax', hax', hcase⟩ := Arr.iproject_ax a r masks axes h
  rw [hax] at hax'
  cases hax'
  rcases hcase with ⟨_, hr⟩ | ⟨_, bmasks, hbm⟩
  · rw [hr]; exact ⟨hc, hv⟩
  · obtain ⟨hlen, hcase⟩ := Arr.iproject_ok a r masks axes ax hax bmasks hbm h
    have hfin := (Arr.toDense_iproject_wf0 a r masks axes ha.wf0 ax hax hnd bmasks hbm h).2.2.2.2.2
    have hbl : bmasks.length = ax.length := by
      rw [mapM_ok_length_pj _ _ _ hbm, List.length_zip, hlen, Nat.min_self]
    have hsnd : (bmasks.zip ax).map (·.2) = ax := List.map_snd_zip (by omega)
    rcases hcase with ⟨_, hr⟩ | ⟨hm, _⟩
    · rw [hr]; exact ⟨hc, hv⟩
    · have hlt : ∀ k ∈ ax, k < a.rank :=
        mapM_ok_forall_pj a.getLegIndex (fun k => k < a.rank)
          (fun x k hk => Arr.getLegIndex_lt_pj a ha.1 x k hk) axes ax hax
      rw [hfin]
      exact chargeRule_foldl_proj1 (bmasks.zip ax) a ha.wf0 (by rw [hsnd]; exact hnd)
        (fun mk hmk => ⟨hlt _ (List.of_mem_zip hmk).2, hm mk hmk⟩) hc hv

end zero
end TenpyModel.C01C
