import TenpyModel.C01.A_Slice1
/-!
C01 part A — the common core of `take_slice` and `squeeze`: some axes `ax` are fixed to given indices, the stored
rows are filtered by the block indices of those indices, the remaining axes `keepAx` are kept in order.

`Dense.fullIdx n ax v idx` is the multi-index of the full tensor that `Dense.fixAxes` reads for the multi-index `idx`
of the slice (`v k` = fixed index on axis `k ∈ ax`).
-/
namespace TenpyModel.Core

namespace Dense

/-- the axes that survive when the axes `ax` are removed -/
def keepAx (n : Nat) (ax : List Nat) : List Nat := (List.range n).filter (fun k => !ax.contains k)

/-- full multi-index from the multi-index of a slice -/
def fullIdx (n : Nat) (ax : List Nat) (v : Nat → Nat) (idx : List Nat) : List Nat :=
  (List.range n).map (fun k => if ax.contains k then v k else idx.getD ((keepAx n ax).idxOf k) 0)

theorem fixAxes_eq {α : Type} [Zero α] (d : Dense α) (ax vals : List Nat) :
    d.fixAxes ax vals = gather 0 d ((keepAx d.rank ax).map (fun k => d.shape.getD k 0))
      (fullIdx d.rank ax (fun k => vals.getD (ax.idxOf k) 0)) := rfl

theorem mem_keepAx (n : Nat) (ax : List Nat) (k : Nat) : k ∈ keepAx n ax ↔ k < n ∧ k ∉ ax := by
  simp [keepAx]

theorem keepAx_nodup (n : Nat) (ax : List Nat) : (keepAx n ax).Nodup :=
  List.Pairwise.filter _ List.nodup_range

theorem keepAx_getD_mem (n : Nat) (ax : List Nat) (j : Nat) (hj : j < (keepAx n ax).length) :
    (keepAx n ax).getD j 0 < n ∧ (keepAx n ax).getD j 0 ∉ ax :=
  (mem_keepAx n ax _).1 (getD_mem _ j 0 hj)

theorem idxOf_getD_nodup_sl (l : List Nat) (h : l.Nodup) (j : Nat) (hj : j < l.length) : l.idxOf (l.getD j 0) = j := by
  induction l generalizing j with
  | nil => simp at hj
  | cons x xs ih =>
    cases j with
    | zero => simp
    | succ j =>
      have hx : x ∉ xs := (List.nodup_cons.1 h).1
      have hj' : j < xs.length := by simpa using hj
      rw [List.getD_cons_succ]
      have hne : x ≠ xs.getD j 0 := fun e => hx (e ▸ getD_mem xs j 0 hj')
      rw [List.idxOf_cons, show (x == xs.getD j 0) = false from beq_eq_false_iff_ne.2 hne, cond_false,
        ih (List.nodup_cons.1 h).2 j hj']

theorem getD_idxOf_mem_sl (l : List Nat) (k : Nat) (h : k ∈ l) : l.idxOf k < l.length ∧ l.getD (l.idxOf k) 0 = k := by
  have hlt : l.idxOf k < l.length := List.idxOf_lt_length_iff.2 h
  exact ⟨hlt, by rw [getD_lt l _ 0 hlt]; exact List.getElem_idxOf hlt⟩

theorem fullIdx_length (n : Nat) (ax : List Nat) (v : Nat → Nat) (idx : List Nat) :
    (fullIdx n ax v idx).length = n := by simp [fullIdx]

theorem fullIdx_getD (n : Nat) (ax : List Nat) (v : Nat → Nat) (idx : List Nat) (k : Nat) (hk : k < n) :
    (fullIdx n ax v idx).getD k 0 = if ax.contains k then v k else idx.getD ((keepAx n ax).idxOf k) 0 := by
  unfold fullIdx
  rw [getD_map' _ _ k 0 0 (by simpa using hk), getD_range _ _ hk]

theorem fullIdx_getD_ax (n : Nat) (ax : List Nat) (v : Nat → Nat) (idx : List Nat) (k : Nat) (hk : k < n)
    (h : k ∈ ax) : (fullIdx n ax v idx).getD k 0 = v k := by
  rw [fullIdx_getD _ _ _ _ _ hk, if_pos (by simpa using h)]

theorem fullIdx_getD_keep (n : Nat) (ax : List Nat) (v : Nat → Nat) (idx : List Nat) (j : Nat)
    (hj : j < (keepAx n ax).length) : (fullIdx n ax v idx).getD ((keepAx n ax).getD j 0) 0 = idx.getD j 0 := by
  obtain ⟨h1, h2⟩ := keepAx_getD_mem n ax j hj
  rw [fullIdx_getD _ _ _ _ _ h1, if_neg (by simpa using h2), idxOf_getD_nodup_sl _ (keepAx_nodup n ax) j hj]

theorem pick_length_sl {β} (l : List β) (K : List Nat) (d : β) : (pick l K d).length = K.length := by simp [pick]

theorem pick_getD_sl {β} (l : List β) (K : List Nat) (d : β) (j : Nat) (hj : j < K.length) :
    (pick l K d).getD j d = l.getD (K.getD j 0) d := by
  unfold pick
  rw [getD_map' _ K j 0 d hj]

/-- (S) the kept part of a full index is the slice index -/
theorem pick_fullIdx (n : Nat) (ax : List Nat) (v : Nat → Nat) (idx : List Nat)
    (h : idx.length = (keepAx n ax).length) : pick (fullIdx n ax v idx) (keepAx n ax) 0 = idx := by
  apply ext_getD _ _ 0 (by rw [pick_length_sl, h])
  intro j hj
  rw [pick_length_sl] at hj
  rw [pick_getD_sl _ _ _ _ hj, fullIdx_getD_keep _ _ _ _ _ hj]

/-- (R) a list that agrees with `u` on the fixed axes is rebuilt from its kept part -/
theorem fullIdx_pick (n : Nat) (ax : List Nat) (u : Nat → Nat) (W : List Nat) (hW : W.length = n)
    (hu : ∀ k ∈ ax, k < n → W.getD k 0 = u k) : fullIdx n ax u (pick W (keepAx n ax) 0) = W := by
  apply ext_getD _ _ 0 (by rw [fullIdx_length, hW])
  intro k hk
  rw [fullIdx_length] at hk
  rw [fullIdx_getD _ _ _ _ _ hk]
  by_cases hm : k ∈ ax
  · rw [if_pos (by simpa using hm), hu k hm hk]
  · rw [if_neg (by simpa using hm)]
    obtain ⟨h1, h2⟩ := getD_idxOf_mem_sl (keepAx n ax) k ((mem_keepAx _ _ _).2 ⟨hk, hm⟩)
    rw [pick_getD_sl _ _ _ _ h1, h2]

/-- two lists of length `n` that agree on the fixed axes and on the kept axes are equal -/
theorem eq_of_pick_eq_sl (n : Nat) (ax : List Nat) (r s : List Nat) (hr : r.length = n) (hs : s.length = n)
    (hax : ∀ k ∈ ax, r.getD k 0 = s.getD k 0) (hk : pick r (keepAx n ax) 0 = pick s (keepAx n ax) 0) : r = s := by
  apply ext_getD _ _ 0 (by rw [hr, hs])
  intro k hk'
  rw [hr] at hk'
  by_cases hm : k ∈ ax
  · exact hax k hm
  · have := List.map_inj_left.1 hk k ((mem_keepAx _ _ _).2 ⟨hk', hm⟩)
    exact this

theorem zip_map_self_sl {β γ} (l : List β) (f : β → γ) : l.zip (l.map f) = l.map (fun x => (x, f x)) := by
  induction l with
  | nil => rfl
  | cons x xs ih => simp [ih]

theorem filter_map_eq_filterMap_sl {β γ} (l : List β) (p : β → Bool) (f : β → γ) :
    (l.filter p).map f = l.filterMap (fun x => if p x then some (f x) else none) := by
  induction l with
  | nil => rfl
  | cons x xs ih =>
    by_cases hp : p x = true
    · simp [hp, ih]
    · simp [hp, ih]

end Dense

namespace Arr
variable {α : Type}
open Dense

/-- the block index / offset of the fixed index `v k` on axis `k` -/
def fixQ (a : Arr α) (v : Nat → Nat) (k : Nat) : Nat × Nat := (a.lc k).locate (v k)

/-- the row filter of `take_slice` -/
def rowOK (a : Arr α) (ax : List Nat) (v : Nat → Nat) (row : List Nat) : Bool :=
  (ax.zip (ax.map (a.fixQ v))).all (fun xp => row.getD xp.1 0 == xp.2.1)

theorem rowOK_iff (a : Arr α) (ax : List Nat) (v : Nat → Nat) (row : List Nat) :
    a.rowOK ax v row = true ↔ ∀ k ∈ ax, row.getD k 0 = (a.fixQ v k).1 := by
  unfold rowOK
  rw [zip_map_self_sl, List.all_map, List.all_eq_true]
  simp only [Function.comp, beq_iff_eq]

/-- the result of `take_slice` / `squeeze` as a record -/
def slice [Zero α] (a : Arr α) (ax : List Nat) (v : Nat → Nat) (qtotal : Charge) : Arr α :=
  let pos := ax.map (a.fixQ v)
  let keep := (List.range a.rank).filter (fun x => !ax.contains x)
  let rows := (a.qdata.zip a.data).filter (fun rb => (ax.zip pos).all (fun xp => rb.1.getD xp.1 0 == xp.2.1))
  { a with legs := pick a.legs keep default, labels := pick a.labels keep none, qtotal,
           qdata := rows.map (fun rb => pick rb.1 keep 0),
           data := rows.map (fun rb => rb.2.fixAxes ax (pos.map (·.2))) }

theorem slice_zip [Zero α] (a : Arr α) (ax : List Nat) (v : Nat → Nat) (qt : Charge) :
    (a.slice ax v qt).qdata.zip (a.slice ax v qt).data
      = (a.qdata.zip a.data).filterMap (fun rb => if a.rowOK ax v rb.1
          then some ((fun r => pick r (keepAx a.rank ax) 0) rb.1,
                     (fun (_ : List Nat) (b : Blk α) => b.fixAxes ax ((ax.map (a.fixQ v)).map (·.2))) rb.1 rb.2)
          else none) := by
  unfold slice
  simp only
  rw [List.zip_map', filter_map_eq_filterMap_sl]
  rfl

theorem lcs_slice [Zero α] (a : Arr α) (ax : List Nat) (v : Nat → Nat) (qt : Charge) :
    (a.slice ax v qt).lcs = (keepAx a.rank ax).map a.lc := by
  unfold lcs slice pick lc keepAx
  simp only [List.map_map]
  rfl

theorem rank_slice [Zero α] (a : Arr α) (ax : List Nat) (v : Nat → Nat) (qt : Charge) :
    (a.slice ax v qt).rank = (keepAx a.rank ax).length := by
  rw [← lcs_length, lcs_slice, List.length_map]

theorem shape_getD_sl (a : Arr α) (k : Nat) (hk : k < a.rank) : a.shape.getD k 0 = (a.lc k).indLen := by
  unfold shape
  rw [getD_map' Leg.indLen a.lcs k default 0 (by rw [lcs_length]; exact hk), lc_eq a k hk]

theorem shape_slice [Zero α] (a : Arr α) (ax : List Nat) (v : Nat → Nat) (qt : Charge) :
    (a.slice ax v qt).shape = (keepAx a.rank ax).map (fun k => a.shape.getD k 0) := by
  unfold shape
  rw [lcs_slice, List.map_map]
  apply List.map_congr_left
  intro k hk
  have := shape_getD_sl a k ((mem_keepAx _ _ _).1 hk).1
  unfold shape at this
  rw [this]
  rfl

/-- (Z) block indices / offsets of the slice index are the kept part of those of the full index -/
theorem zipWith_slice (a : Arr α) (ax : List Nat) (v : Nat → Nat) (g : Leg → Nat → Nat) (idx : List Nat)
    (hidx : idx.length = (keepAx a.rank ax).length) :
    List.zipWith g ((keepAx a.rank ax).map a.lc) idx
      = pick (List.zipWith g a.lcs (fullIdx a.rank ax v idx)) (keepAx a.rank ax) 0 := by
  apply ext_getD _ _ 0 (by simp [pick_length_sl, hidx])
  intro j hj
  have hj' : j < (keepAx a.rank ax).length := by simpa [hidx] using hj
  obtain ⟨h1, _⟩ := keepAx_getD_mem a.rank ax j hj'
  rw [pick_getD_sl _ _ _ _ hj',
    getD_zipWith' g _ _ j default 0 0 (by simpa using hj') (by rw [hidx]; exact hj'),
    getD_zipWith' g _ _ _ default 0 0 (by rw [lcs_length]; exact h1) (by rw [fullIdx_length]; exact h1),
    lc_eq a _ h1, fullIdx_getD_keep _ _ _ _ _ hj', getD_map' a.lc _ j 0 default hj']

/-- the full index of a slice index in range is in range -/
theorem fullIdx_inRange (a : Arr α) (ax : List Nat) (v : Nat → Nat) (hv : ∀ k ∈ ax, v k < (a.lc k).indLen)
    (idx : List Nat) (hidx : InRange idx ((keepAx a.rank ax).map (fun k => a.shape.getD k 0))) :
    InRange (fullIdx a.rank ax v idx) a.shape := by
  apply InRange.of_getD _ _ (by rw [fullIdx_length, shape_length])
  intro k hk
  rw [shape_length] at hk
  rw [fullIdx_getD _ _ _ _ _ hk]
  by_cases hm : k ∈ ax
  · rw [if_pos (by simpa using hm), shape_getD_sl a k hk]
    exact hv k hm
  · rw [if_neg (by simpa using hm)]
    obtain ⟨h1, h2⟩ := getD_idxOf_mem_sl (keepAx a.rank ax) k ((mem_keepAx _ _ _).2 ⟨hk, hm⟩)
    have := hidx.getD_lt' _ (by simpa using h1)
    rwa [getD_map' _ _ _ 0 0 h1, h2] at this

/-- **entries of a slice**: `slice[idx] = a[full index]` -/
theorem entry_slice [Zero α] (a : Arr α) (ha : a.WF) (ax : List Nat) (hax : ∀ k ∈ ax, k < a.rank) (v : Nat → Nat)
    (hv : ∀ k ∈ ax, v k < (a.lc k).indLen) (qt : Charge) (idx : List Nat)
    (hidx : InRange idx ((keepAx a.rank ax).map (fun k => a.shape.getD k 0))) :
    (a.slice ax v qt).entry idx = a.entry (fullIdx a.rank ax v idx) := by
  have hlen : idx.length = (keepAx a.rank ax).length := by rw [hidx.length_eq, List.length_map]
  have hI := fullIdx_inRange a ax v hv idx hidx
  have hIlen : (fullIdx a.rank ax v idx).length = a.lcs.length := by rw [fullIdx_length, lcs_length]
  obtain ⟨hqr, hwr⟩ := qw_inRange a.lcs ha.legs_ok _ hI
  -- block index / offset of the full index on a fixed axis
  have hqax : ∀ k ∈ ax, (qidx a.lcs (fullIdx a.rank ax v idx)).getD k 0 = (a.fixQ v k).1 := by
    intro k hk
    rw [qidx_getD _ _ _ (by rw [lcs_length]; exact hax k hk) (by rw [fullIdx_length]; exact hax k hk),
      lc_eq a k (hax k hk), fullIdx_getD_ax _ _ _ _ _ (hax k hk) hk]
    rfl
  have hwax : ∀ k ∈ ax, (widx a.lcs (fullIdx a.rank ax v idx)).getD k 0 = (a.fixQ v k).2 := by
    intro k hk
    rw [widx_getD _ _ _ (by rw [lcs_length]; exact hax k hk) (by rw [fullIdx_length]; exact hax k hk),
      lc_eq a k (hax k hk), fullIdx_getD_ax _ _ _ _ _ (hax k hk) hk]
    rfl
  have hq : qidx (a.slice ax v qt).lcs idx = pick (qidx a.lcs (fullIdx a.rank ax v idx)) (keepAx a.rank ax) 0 := by
    rw [lcs_slice]
    exact zipWith_slice a ax v _ idx hlen
  have hw : widx (a.slice ax v qt).lcs idx = pick (widx a.lcs (fullIdx a.rank ax v idx)) (keepAx a.rank ax) 0 := by
    rw [lcs_slice]
    exact zipWith_slice a ax v _ idx hlen
  refine entry_rowmap a (a.slice ax v qt) (a.rowOK ax v) (fun r => pick r (keepAx a.rank ax) 0)
    (fun _ b => b.fixAxes ax ((ax.map (a.fixQ v)).map (·.2))) id rfl ?_ (fullIdx a.rank ax v idx) idx
    ?_ ?_ ?_ ?_
  · exact slice_zip a ax v qt
  · exact (rowOK_iff _ _ _ _).2 hqax
  · exact hq
  · intro r hr hP e
    refine eq_of_pick_eq_sl a.rank ax _ _ (ha.2.2.2.2.1 r hr).1 (by rw [qidx_length _ _ hIlen, lcs_length]) ?_ e
    intro k hk
    rw [(rowOK_iff _ _ _ _).1 hP k hk, hqax k hk]
  · intro b hb
    obtain ⟨hsh, hvl, _, _⟩ := ha.block _ b hb
    have hbr : b.rank = a.rank := by
      unfold Dense.rank
      rw [hsh, blockShapeOf_length_sl _ _ (by rw [qidx_length _ _ hIlen]), lcs_length]
    have hwr' : InRange (widx a.lcs (fullIdx a.rank ax v idx)) b.shape := hsh ▸ hwr
    have hWlen : (widx a.lcs (fullIdx a.rank ax v idx)).length = a.rank := by rw [widx_length _ _ hIlen, lcs_length]
    rw [fixAxes_eq, hbr, hw, get_gather]
    · simp only [id]
      rw [fullIdx_pick _ _ _ _ hWlen]
      intro k hk hk'
      rw [hwax k hk, List.map_map]
      obtain ⟨h1, h2⟩ := getD_idxOf_mem_sl ax k hk
      rw [getD_map' _ ax _ 0 0 h1, h2]
      rfl
    · apply InRange.of_getD _ _ (by rw [pick_length_sl, List.length_map])
      intro j hj
      rw [List.length_map] at hj
      obtain ⟨h1, _⟩ := keepAx_getD_mem a.rank ax j hj
      rw [pick_getD_sl _ _ _ _ hj, getD_map' _ _ j 0 0 hj]
      exact hwr'.getD_lt' _ (by rw [← hwr'.length_eq, hWlen]; exact h1)

/-- **dense form of a slice** -/
theorem toDense_slice [Zero α] (a : Arr α) (ha : a.WF) (ax : List Nat) (hax : ∀ k ∈ ax, k < a.rank) (v : Nat → Nat)
    (hv : ∀ k ∈ ax, v k < (a.lc k).indLen) (qt : Charge) :
    (a.slice ax v qt).toDense
      = gather 0 a.toDense ((keepAx a.rank ax).map (fun k => a.shape.getD k 0)) (fullIdx a.rank ax v) := by
  rw [gather_eq_ofFn]
  unfold toDense
  rw [shape_slice]
  apply ofFn_congr_mem
  intro idx hidx
  rw [entry_slice a ha ax hax v hv qt idx hidx, get_ofFn 0 _ _ _ (fullIdx_inRange a ax v hv idx hidx)]

end Arr
end TenpyModel.Core
