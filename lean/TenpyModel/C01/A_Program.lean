import TenpyModel.C01.A_Binary2
/-!
C01 part A — finite programs over the operations of part A: the program syntax, its evaluation on the
block-sparse model (`evalArr`), and the reference semantics on *labelled dense tensors* (`evalRef`: numpy arrays
plus the list of leg labels, with the documented label rules: axes may be given by label, transposition permutes
the labels, `conj` conjugates them, `add_trivial_leg` inserts one, slicing / squeezing drops them, binary operations
match the second operand to the label order of the first).
-/
namespace TenpyModel.Core
open Arr (permuteList swapList)

/-- a dense tensor with leg labels: the observable content of an `Array` (`to_ndarray()`, `get_leg_labels()`) -/
structure LDense (α : Type) where
  d : Dense α
  labels : List Label

namespace LDense
variable {α : Type}

/-- axis given by index or label → position (0 if the lookup fails; programs whose model run succeeds never
hit that case) -/
def ax (x : LDense α) (a : Ax) : Nat :=
  match axIndex x.labels x.d.rank a with
  | .ok k => k
  | .error _ => 0

def axs (x : LDense α) (as : List Ax) : List Nat := as.map x.ax

end LDense

namespace Arr
variable {α : Type}

def toLD [Zero α] (a : Arr α) : LDense α := ⟨a.toDense, a.labels⟩

theorem toLD_rank [Zero α] (a : Arr α) : a.toLD.d.rank = a.rank := shape_length a

theorem toLD_ax [Zero α] (a : Arr α) (x : Ax) (k : Nat) (h : a.getLegIndex x = .ok k) : a.toLD.ax x = k := by
  unfold LDense.ax
  rw [toLD_rank]
  show (match axIndex a.labels a.rank x with | .ok k => k | .error _ => 0) = k
  rw [← getLegIndex_eq_axIndex, h]

theorem mapM_except_eq_map {β γ ε : Type} (f : β → Except ε γ) (g : β → γ) (l : List β) (r : List γ)
    (hfg : ∀ x y, f x = .ok y → g x = y) (h : l.mapM f = .ok r) : l.map g = r := by
  induction l generalizing r with
  | nil =>
    simp only [List.mapM_nil, pure, Except.pure, Except.ok.injEq] at h
    subst h
    rfl
  | cons x xs ih =>
    rw [List.mapM_cons] at h
    cases hx : f x with
    | error e => simp [hx, bind, Except.bind] at h
    | ok y =>
      cases hxs : xs.mapM f with
      | error e => simp [hx, hxs, bind, Except.bind] at h
      | ok ys =>
        simp only [hx, hxs, bind, Except.bind, pure, Except.pure, Except.ok.injEq] at h
        subst h
        rw [List.map_cons, hfg x y hx, ih ys hxs]

theorem toLD_axs [Zero α] (a : Arr α) (xs : List Ax) (ax : List Nat) (h : a.getLegIndices xs = .ok ax) :
    a.toLD.axs xs = ax :=
  mapM_except_eq_map _ _ xs ax (fun x k hk => toLD_ax a x k hk) h

end Arr

/-! ### programs -/

/-- finite programs (expression trees) over the operations of part A; `input i` refers to the `i`-th operand -/
inductive C01ProgA (α : Type) where
  | input (i : Nat)
  | neg (p : C01ProgA α)
  | scale (s : α) (p : C01ProgA α)
  | conj (p : C01ProgA α)
  | complexConj (p : C01ProgA α)
  | transpose (axes : Option (List Ax)) (p : C01ProgA α)
  | swapaxes (x1 x2 : Ax) (p : C01ProgA α)
  | addTrivialLeg (axis : Int) (label : Label) (qconj : Int) (p : C01ProgA α)
  | takeSlice (indices : List Int) (axes : List Ax) (p : C01ProgA α)
  | squeeze (axes : Option (List Ax)) (p : C01ProgA α)
  | scaleAxis (s : List α) (axis : Ax) (p : C01ProgA α)
  | project (masks : List Arr.Mask) (axes : List Ax) (p : C01ProgA α)
  | permute (perm : List Nat) (axis : Ax) (p : C01ProgA α)
  | binary (f : α → α → α) (p q : C01ProgA α)
  | addPrefactor (cy : Bool) (c : α) (p q : C01ProgA α)

namespace C01ProgA
variable {α : Type}

/-- evaluation on the block-sparse model (`st` = complex conjugation of the scalars) -/
def evalArr [Zero α] [Neg α] [Add α] [Mul α] [DecidableEq α] (st : α → α) (env : List (Arr α)) :
    C01ProgA α → Except Err (Arr α)
  | .input i => match env[i]? with
    | some a => .ok a
    | none => .error .indexError
  | .neg p => do let a ← evalArr st env p; return a.neg
  | .scale s p => do let a ← evalArr st env p; return a.iscalePrefactor s
  | .conj p => do let a ← evalArr st env p; return a.conj st
  | .complexConj p => do let a ← evalArr st env p; return a.complexConj st
  | .transpose axes p => do let a ← evalArr st env p; a.transpose axes
  | .swapaxes x1 x2 p => do let a ← evalArr st env p; a.iswapaxes x1 x2
  | .addTrivialLeg axis label qconj p => do let a ← evalArr st env p; a.addTrivialLeg axis label qconj
  | .takeSlice indices axes p => do let a ← evalArr st env p; a.takeSlice indices axes
  | .squeeze axes p => do
    let a ← evalArr st env p
    match ← a.squeeze axes with
    | .arr r => return r
    | .scalar _ => throw .typeError         -- scalar results are not tensors: outside these programs
  | .scaleAxis s axis p => do let a ← evalArr st env p; a.iscaleAxis s axis
  | .project masks axes p => do let a ← evalArr st env p; a.iproject masks axes
  | .permute perm axis p => do let a ← evalArr st env p; a.permute perm axis
  | .binary f p q => do
    let a ← evalArr st env p
    let b ← evalArr st env q
    let r ← a.ibinaryBlockwise f b
    return r.1
  | .addPrefactor cy c p q => do
    let a ← evalArr st env p
    let b ← evalArr st env q
    let r ← a.iaddPrefactorOther cy c b
    return r.1

/-- the effective axes of a `transpose` call -/
def transposeAx (x : LDense α) : Option (List Ax) → List Nat
  | none => (List.range x.d.rank).reverse
  | some xs => x.axs xs

/-- the axes a `squeeze` call removes -/
def squeezeAx (x : LDense α) : Option (List Ax) → List Nat
  | none => (List.range x.d.rank).filter (fun k => x.d.shape.getD k 0 == 1)
  | some xs => x.axs xs

def keepOf (rank : Nat) (ax : List Nat) : List Nat := (List.range rank).filter (fun x => !ax.contains x)

/-- boolean mask of a `Mask` argument for an axis of length `n` (`[]` if the index check fails) -/
def maskBools (n : Nat) (m : Arr.Mask) : List Bool :=
  match m.toBools n with
  | .ok b => b
  | .error _ => []

/-- reference semantics on labelled dense tensors: numpy on the values, the documented rules on the labels -/
def evalRef [Zero α] [Neg α] [Add α] [Mul α] (st : α → α) (env : List (LDense α)) : C01ProgA α → LDense α
  | .input i => env.getD i ⟨⟨[], []⟩, []⟩
  | .neg p => let x := evalRef st env p; ⟨x.d.neg, x.labels⟩
  | .scale s p => let x := evalRef st env p; ⟨x.d.map (fun v => v * s), x.labels⟩
  | .conj p => let x := evalRef st env p; ⟨x.d.map st, x.labels.map Label.conjOpt⟩
  | .complexConj p => let x := evalRef st env p; ⟨x.d.map st, x.labels⟩
  | .transpose axes p =>
    let x := evalRef st env p
    ⟨x.d.transpose (transposeAx x axes), permuteList x.labels (transposeAx x axes) none⟩
  | .swapaxes x1 x2 p =>
    let x := evalRef st env p
    ⟨x.d.transpose (swapList (List.range x.d.rank) (x.ax x1) (x.ax x2) 0), swapList x.labels (x.ax x1) (x.ax x2) none⟩
  | .addTrivialLeg axis label _ p =>
    let x := evalRef st env p
    let pos := Arr.insertPos x.d.rank (if axis < 0 then axis + x.d.rank else axis)
    ⟨x.d.expandDims pos, Dense.insertAt x.labels pos label⟩
  | .takeSlice indices axes p =>
    let x := evalRef st env p
    let ax := x.axs axes
    if ax = [] then x
    else ⟨x.d.fixAxes ax (List.zipWith (fun k (i : Int) => (if i < 0 then i + (x.d.shape.getD k 0 : Int) else i).toNat)
            ax indices), pick x.labels (keepOf x.d.rank ax) none⟩
  | .squeeze axes p =>
    let x := evalRef st env p
    let ax := squeezeAx x axes
    ⟨x.d.squeeze ax, pick x.labels (keepOf x.d.rank ax) none⟩
  | .scaleAxis s axis p => let x := evalRef st env p; ⟨x.d.scaleAxis s (x.ax axis), x.labels⟩
  | .project masks axes p =>
    let x := evalRef st env p
    let ax := x.axs axes
    if ax = [] then x
    else ⟨(((masks.zip ax).map (fun mk => maskBools (x.d.shape.getD mk.2 0) mk.1)).zip ax).foldl
            (fun d mk => d.compress mk.2 mk.1) x.d, x.labels⟩
  | .permute perm axis p => let x := evalRef st env p; ⟨x.d.takeList (x.ax axis) perm, x.labels⟩
  | .binary f p q =>
    let x := evalRef st env p
    let y := evalRef st env q
    ⟨Dense.zipWith f x.d (y.d.transpose (sameLabelsAx y.labels y.d.rank x.labels)), x.labels⟩
  | .addPrefactor _ c p q =>
    let x := evalRef st env p
    let y := evalRef st env q
    ⟨Dense.zipWith (fun u v => u + v * c) x.d (y.d.transpose (sameLabelsAx y.labels y.d.rank x.labels)), x.labels⟩

end C01ProgA
end TenpyModel.Core
