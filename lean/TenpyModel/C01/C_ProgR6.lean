import TenpyModel.C01.C_ProgR5
import TenpyModel.C01.PropsA
import TenpyModel.C01.PropsB2
/-!
C01 part C — non-vacuity of `C01ProgA.evalArr_specR` / `C01ProgAB.evalArr_specR`: concrete programs on the U(1)×Z₃
example tensors meet the hypotheses, the theorems apply, and the legs computed by the reference semantics are the legs
of the model run (compared as `List Leg` through `ALeg.leg`; `ALeg` has no `DecidableEq`).
-/
namespace TenpyModel.C01C.ProgR
open TenpyModel.Core TenpyModel.C01B TenpyModel.C01B2

/-- a decidable way to state "for every `a` with `e = .ok a`, `P a`" about a concrete model run -/
def okAnd {β : Type} (e : Except Err β) (P : β → Bool) : Bool :=
  match e with
  | .ok a => P a
  | .error _ => false

theorem okAnd_spec {β : Type} {e : Except Err β} {P : β → Bool} (h : okAnd e P = true) (a : β) (ha : e = .ok a) :
    P a = true := by
  subst ha
  exact h

/-! ### part A -/

/-- `C01ProgExample.p` (label axes, `iadd_prefactor_other`, trivial leg, transposition, slice): the theorem applies -/
example (r : Arr Int) (h : C01ProgExample.p.evalArr id [C01Example.t] = .ok r) :
    r.toR = C01ProgExample.p.evalRefR id [C01Example.t.toR] ∧ r.WF :=
  C01ProgA.evalArr_specR id rfl (by decide) Int.mul_zero Int.zero_mul Int.add_zero [C01Example.t]
    (fun a ha => by
      have : a = C01Example.t := by simpa using ha
      subst this
      decide) C01ProgExample.p r C01ProgExample.side h

/-- … the model run succeeds, and its legs are those of the reference semantics: the two legs of `t` exchanged -/
example : (C01ProgExample.p.evalArr id [C01Example.t]).toOption.map (fun r => (r.legs.map ALeg.leg, r.mods))
      = some (((C01ProgExample.p.evalRefR id [C01Example.t.toR]).legs.map ALeg.leg),
          (C01ProgExample.p.evalRefR id [C01Example.t.toR]).mods)
    ∧ (C01ProgExample.p.evalRefR id [C01Example.t.toR]).legs.map ALeg.leg = [C01Example.legB, C01Example.legA] := by
  decide

/-- a program through the leg rules that compute new legs: `iproject` (integer mask), `permute`, then `iswapaxes`
(`ALeg.conj` recurses through the nested pipes and does not reduce in `decide`: `conj` has its own example below) -/
def pR : C01ProgA Int :=
  .swapaxes (.idx 0) (.lbl "b*") (.permute [3, 0, 2, 1] (.lbl "a")
    (.project [.ints [1, -3]] [.lbl "b*"] (.input 0)))

theorem pR_side : pR.Side id [C01Example.t] := by
  refine ⟨⟨trivial, fun a ax _ hax => C01_programA_side_single a _ ax hax⟩, ?_⟩
  intro a k ha hk
  have h := okAnd_spec (e := (C01ProgA.project [.ints [1, -3]] [.lbl "b*"] (.input 0)).evalArr id [C01Example.t])
    (P := fun a => okAnd (a.getLegIndex (.lbl "a")) (fun k =>
      decide ([3, 0, 2, 1].Perm (List.range (a.lc k).indLen) ∧ (a.mods.length = 0 → ∀ c ∈ (a.lc k).charges, c = []))))
    (by decide) a ha
  exact of_decide_eq_true (okAnd_spec h k hk)

example (r : Arr Int) (h : pR.evalArr id [C01Example.t] = .ok r) :
    r.toR = pR.evalRefR id [C01Example.t.toR] ∧ r.WF :=
  C01ProgA.evalArr_specR id rfl (by decide) Int.mul_zero Int.zero_mul Int.add_zero [C01Example.t]
    (fun a ha => by
      have : a = C01Example.t := by simpa using ha
      subst this
      decide) pR r pR_side h

/-- the run succeeds; legs, dense form, labels of the run are those of `evalRefR`; the legs are: `legB` projected on
its first block, and `legA` permuted (flat charges `[0,1],[0,1],[1,2],[1,2]`) and re-bunched -/
example : (pR.evalArr id [C01Example.t]).toOption.map (fun r => (r.legs.map ALeg.leg, r.toDense, r.labels, r.mods))
      = some ((pR.evalRefR id [C01Example.t.toR]).legs.map ALeg.leg, (pR.evalRefR id [C01Example.t.toR]).d,
          (pR.evalRefR id [C01Example.t.toR]).labels, (pR.evalRefR id [C01Example.t.toR]).mods)
    ∧ (pR.evalRefR id [C01Example.t.toR]).legs.map ALeg.leg
      = [⟨[1, 3], [0, 2], [[1, 0]], -1, false, true⟩, ⟨[1, 3], [0, 2, 4], [[0, 1], [1, 2]], 1, true, true⟩]
    ∧ (pR.evalRefR id [C01Example.t.toR]).d = ⟨[2, 4], [5, 0, 0, 0, -7, 0, 0, 0]⟩ := by decide

/-- `conj` as a program node: every leg conjugated -/
example : ((C01ProgA.conj (.input 0) : C01ProgA Int).evalRefR id [C01Example.t.toR]).legs.map ALeg.leg
    = [C01Example.legA.conj, C01Example.legB.conj]
    ∧ ((C01ProgA.conj (.input 0) : C01ProgA Int).evalArr id [C01Example.t]).toOption.map (fun r => r.legs.map ALeg.leg)
      = some [C01Example.legA.conj, C01Example.legB.conj] := by
  constructor
  · show (C01Example.t.legs.map ALeg.conj).map ALeg.leg = _
    rw [List.map_map]
    simp only [C01Example.t, List.map_cons, List.map_nil, Function.comp, ALeg.conj_leg]
    rfl
  · show some ((C01Example.t.legs.map ALeg.conj).map ALeg.leg) = _
    rw [List.map_map]
    simp only [C01Example.t, List.map_cons, List.map_nil, Function.comp, ALeg.conj_leg]
    rfl

/-! ### part B2 -/

/-- `C01ExampleB2.pAB` = `(-m2) ⋅₁ m` (worker branch of `tensordot` below a part-A program): the run succeeds (not
`decide`able: `commonSorted` is defined by well-founded recursion), the theorem determines the result, in particular its
legs: first leg of `m2`, second leg of `m` -/
example : ∃ r, C01ExampleB2.pAB.evalArr id false [C01ExampleB2.m2, C01ExampleB.m] = .ok r
    ∧ r.toR = C01ExampleB2.pAB.evalRefR id [C01ExampleB2.m2.toR, C01ExampleB.m.toR] ∧ r.WF
    ∧ r.legs.map ALeg.leg = [C01Example.legA, C01Example.legA.conj] ∧ r.mods = [1, 3] := by
  obtain ⟨r, hr⟩ := tensordot_int_isOk false C01ExampleB2.m2.neg C01ExampleB.m 1 rfl (by decide) (by decide)
    (by decide)
  have he : C01ExampleB2.pAB.evalArr id false [C01ExampleB2.m2, C01ExampleB.m] = .ok r := by
    have e1 : (C01ProgAB.partA (.neg (.input 0)) (.input 0) (.input 0)).evalArr id false
        [C01ExampleB2.m2, C01ExampleB.m] = .ok C01ExampleB2.m2.neg := rfl
    have e2 : (C01ProgAB.input 1).evalArr id false [C01ExampleB2.m2, C01ExampleB.m] = .ok C01ExampleB.m := rfl
    simp only [C01ExampleB2.pAB, C01ProgAB.evalArr, bind, Except.bind] at e1 e2 ⊢
    simp only [e1, e2, C01ProgAB.dotArr, hr]
  obtain ⟨h1, h2⟩ := C01ProgAB.evalArr_specR id rfl false [C01ExampleB2.m2, C01ExampleB.m] (by decide)
    C01ExampleB2.pAB r C01ExampleB2.pAB_side he
  refine ⟨r, he, h1, h2, ?_, ?_⟩
  · rw [← Arr.toR_legs, h1]; decide
  · rw [← Arr.toR_mods, h1]; decide

/-- `tensordot(m2, m, ([0], ['p*']))` as a program: both operands are transposed by `_tensordot_transpose_axes`
(`pa = pb = [1, 0]`); the theorem determines the legs of the result from the permuted operands -/
def pAx : C01ProgAB Int := .tensordotAxes [.idx 0] [.lbl "p*"] (.input 0) (.input 1)

theorem pAx_side : pAx.Side id false [C01ExampleB2.m2, C01ExampleB.m] := by
  refine ⟨trivial, trivial, ?_⟩
  intro a b ha hb
  have e1 : (C01ProgAB.input 0).evalArr id false [C01ExampleB2.m2, C01ExampleB.m] = .ok C01ExampleB2.m2 := rfl
  have e2 : (C01ProgAB.input 1).evalArr id false [C01ExampleB2.m2, C01ExampleB.m] = .ok C01ExampleB.m := rfl
  rw [e1] at ha
  rw [e2] at hb
  cases ha
  cases hb
  decide

example : ∃ r, pAx.evalArr id false [C01ExampleB2.m2, C01ExampleB.m] = .ok r
    ∧ r.toR = pAx.evalRefR id [C01ExampleB2.m2.toR, C01ExampleB.m.toR] ∧ r.WF
    ∧ r.legs.map ALeg.leg = [C01Example.legA.conj, C01Example.legA]
    ∧ r.toDense = ⟨[4, 4], [49, 0, 0, 700, 0, 7, 15, 0, 0, 10, 22, 0, 63, 0, 0, 900]⟩ := by
  have ht : Arr.tensordotTransposeAxes false C01ExampleB2.m2 C01ExampleB.m (.pair [.idx 0] [.lbl "p*"])
      = .ok (C01ExampleB2.m2.itransposeFast [1, 0], C01ExampleB.m.itransposeFast [1, 0], 1) := rfl
  have he := tensordot_pair_of false _ _ _ _ (by decide) (by decide) _ _ _ ht
  obtain ⟨r, hr⟩ := tensordot_int_isOk false (C01ExampleB2.m2.itransposeFast [1, 0])
    (C01ExampleB.m.itransposeFast [1, 0]) 1 rfl (by decide) (by decide) (by decide)
  rw [← he] at hr
  have hev : pAx.evalArr id false [C01ExampleB2.m2, C01ExampleB.m] = .ok r := by
    have e1 : (C01ProgAB.input 0).evalArr id false [C01ExampleB2.m2, C01ExampleB.m] = .ok C01ExampleB2.m2 := rfl
    have e2 : (C01ProgAB.input 1).evalArr id false [C01ExampleB2.m2, C01ExampleB.m] = .ok C01ExampleB.m := rfl
    simp only [pAx, C01ProgAB.evalArr, bind, Except.bind] at e1 e2 ⊢
    simp only [e1, e2, C01ProgAB.dotArr, hr]
  obtain ⟨h1, h2⟩ := C01ProgAB.evalArr_specR id rfl false [C01ExampleB2.m2, C01ExampleB.m] (by decide) pAx r
    pAx_side hev
  refine ⟨r, hev, h1, h2, ?_, ?_⟩
  · rw [← Arr.toR_legs, h1]; decide
  · rw [← Arr.toR_d, h1]; decide

/-- `trace(-s3, 'a', 'a*')` and `outer(t, -t)` as programs, fully evaluated: legs / `mods` of the run = `evalRefR` -/
example : ((C01ProgAB.trace (.lbl "a") (.lbl "a*") (.partA (.neg (.input 0)) (.input 0) (.input 0))).evalArr id false
      [C01ExampleB2T.s3]).toOption.map (fun r => (r.legs.map ALeg.leg, r.mods))
    = some (((C01ProgAB.trace (.lbl "a") (.lbl "a*") (.partA (.neg (.input 0)) (.input 0) (.input 0))).evalRefR id
        [C01ExampleB2T.s3.toR]).legs.map ALeg.leg, [1, 3])
    ∧ ((C01ProgAB.trace (.lbl "a") (.lbl "a*") (.partA (.neg (.input 0)) (.input 0) (.input 0))).evalRefR id
        [C01ExampleB2T.s3.toR]).legs.map ALeg.leg = [C01Example.legB] := by decide

example : ((C01ProgAB.outer (.input 0) (.partA (.neg (.input 0)) (.input 0) (.input 0))).evalArr id false
      [C01Example.t]).toOption.map (fun r => (r.legs.map ALeg.leg, r.mods))
    = some (((C01ProgAB.outer (.input 0) (.partA (.neg (.input 0)) (.input 0) (.input 0))).evalRefR id
        [C01Example.t.toR]).legs.map ALeg.leg, [1, 3])
    ∧ ((C01ProgAB.outer (.input 0) (.partA (.neg (.input 0)) (.input 0) (.input 0))).evalRefR id
        [C01Example.t.toR]).legs.map ALeg.leg
      = [C01Example.legA, C01Example.legB, C01Example.legA, C01Example.legB] := by decide

example (r : Arr Int)
    (h : (C01ProgAB.outer (.input 0) (.partA (.neg (.input 0)) (.input 0) (.input 0))).evalArr id false
      [C01Example.t] = .ok r) :
    r.toR = (C01ProgAB.outer (.input 0) (.partA (.neg (.input 0)) (.input 0) (.input 0))).evalRefR id
      [C01Example.t.toR] ∧ r.WF :=
  C01ProgAB.evalArr_specR id rfl false [C01Example.t] (by decide) _ r
    ⟨trivial, ⟨trivial, trivial, fun _ _ _ _ => trivial⟩⟩ h

end TenpyModel.C01C.ProgR
