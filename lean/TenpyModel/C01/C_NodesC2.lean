import TenpyModel.C01.C_NodesC1
import TenpyModel.C01.C_ProgR5
/-!
C01 part C — the node that embeds a whole part-A/B program (`C01ProgAB`: neg / scale / conj / transpose / slicing /
projection / permutation / binary operations / `outer` / `tensordot` / `trace` …) into the single-assignment programs:
its operands are the inputs `input 0, input 1, …` of the embedded program.
-/
namespace TenpyModel.C01C
open TenpyModel.Core TenpyModel.Core.C01SSA

variable {α : Type}

/-- run the part-A/B program `p` on the selected operands (`st` = complex conjugation of the scalars; `cy` = kernel
variant); side condition = `C01ProgAB.Side` (part A's conditions; charge rule of the operands of each `tensordot`,
derivable with `C01_chargeRule_*`) -/
def nodeAB [CommRing α] [DecidableEq α] (st : α → α) (hst : st 0 = 0) (cy : Bool) (p : C01ProgAB α) : NodeSpec α where
  run := fun xs => p.evalArr st cy xs
  ref := fun xs => p.evalRefR st xs
  side := fun xs => C01ProgAB.Side st cy xs p
  sound := fun xs r hw hs h => C01ProgAB.evalArr_specR st hst cy xs hw p r hs h

end TenpyModel.C01C
