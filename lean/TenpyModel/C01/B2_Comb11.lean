import TenpyModel.C01.B2_Comb10
/-!
C01 part B2 — part 11: the public `combine_legs` with the transposition step (`combineLegs_places_tr`), and the
pipes made by `_combine_legs_make_pipes` for `pipes=None` (`makePipes_none`).
-/
namespace TenpyModel.C01B2.Comb
open TenpyModel.Core TenpyModel.C01B
open Arr (permuteList)

variable {α : Type}

/-- the tensor `combine_legs` hands to its worker when a transposition is needed -/
def cTransposed [Zero α] (a : Arr α) (transp : List Nat) : Arr α :=
  ({ a with labels := (cLabels a).map some } : Arr α).itransposeFast transp

section zero
variable [Zero α]

omit [Zero α] in
theorem isetLegLabels_ok (a r : Arr α) (ls : List Label) (h : a.isetLegLabels ls = .ok r) :
    r = { a with labels := ls } ∧ ls.length = a.rank := by
  unfold Arr.isetLegLabels at h
  split at h
  · simp at h
  · rename_i hl
    split at h
    · simp at h
    · simp only [Except.ok.injEq] at h
      exact ⟨h.symm, Decidable.not_not.1 hl⟩

/-- `itranspose` by a list of integer axes that is not the identity -/
theorem itranspose_ne (a r : Arr α) (hl : a.labels.length = a.rank) (transp : List Nat)
    (hne : transp ≠ List.range a.rank)
    (h : a.itranspose (some (transp.map (fun i => Ax.idx (Int.ofNat i)))) = .ok r) :
    IsPerm transp a.rank ∧ r = a.itransposeFast transp := by
  generalize hg : transp.map (fun i => Ax.idx (Int.ofNat i)) = axs at h
  simp only [Arr.itranspose, bind, Except.bind] at h
  cases hax : a.getLegIndices axs with
  | error e => simp [hax] at h
  | ok ax =>
    simp only [hax] at h
    obtain ⟨_, hlt⟩ := Arr.getLegIndices_lt a hl _ ax hax
    rw [← hg] at hax
    have := getLegIndices_idx a transp ax hax
    subst this
    split at h
    · simp [throw, throwThe, MonadExceptOf.throw] at h
    · rename_i hchk
      have hchk' : ax.length = a.rank ∧ ax.eraseDups.length = a.rank := by
        constructor
        · exact Classical.byContradiction (fun hh => hchk (Or.inl hh))
        · exact Classical.byContradiction (fun hh => hchk (Or.inr hh))
      have hp : IsPerm ax a.rank := IsPerm.of_checks hchk'.1 hchk'.2 hlt
      simp only [pure, Except.pure, Except.ok.injEq] at h
      exact ⟨hp, h.symm⟩

end zero

/-- pipes over groups of `a` are pipes over the renumbered groups of the transposed tensor -/
theorem pipesOK_transposed (a t : Arr α) (cl : List (List Nat)) (ps : List ALeg) (transp : List Nat)
    (hp : IsPerm transp a.rank) (hcl : ∀ x ∈ cl.flatten, x < a.rank)
    (ht : t.lcs = permuteList a.lcs transp default) (h : PipesOK a cl ps) :
    PipesOK t (cl.map (fun c => c.map (fun x => (inversePerm transp).getD x 0))) ps := by
  intro g hg
  rw [List.length_map] at hg
  obtain ⟨qconj, sort, bunch, subs, e⟩ := h g hg
  refine ⟨qconj, sort, bunch, subs, ?_⟩
  rw [e, getD_map' _ _ g [] [] hg]
  have : pick t.lcs ((cl.getD g []).map (fun x => (inversePerm transp).getD x 0)) default
      = pick a.lcs (cl.getD g []) default := by
    unfold pick
    rw [List.map_map]
    apply List.map_congr_left
    intro x hx
    have hxr : x < a.rank := hcl x (List.mem_flatten.2 ⟨_, getD_mem cl g [] hg, hx⟩)
    simp only [Function.comp]
    rw [ht, inversePerm_getD transp x (by rw [hp.len]; exact hxr),
      permuteList_getD _ _ _ _ (by rw [hp.len]; exact hp.idxOf_lt x hxr), hp.getD_idxOf x hxr]
  rw [this]

section zero
variable [Zero α]

/-- **the public `combine_legs` with a transposition**: the result is `combineStd` of the transposed tensor
`t = cTransposed a transp` (`t.toDense = np.transpose(a.toDense, transp)`), that call is in standard form, and
`r[combIdx idx'] = t[idx'] = a[unperm idx']`. -/
theorem combineLegs_places_tr (a r : Arr α) (ha : a.WF) (cl : List (List Ax)) (newAxes : Option (List Int))
    (pipes : Option (List (Option ALeg))) (qconj : List (Option Int)) (ps0 : List ALeg) (cli0 : List (List Nat))
    (na0 transp : List Nat) (hps : a.combineMakePipes cl pipes qconj = .ok ps0)
    (hcli : cl.mapM a.getLegIndices = .ok cli0)
    (hnt : Arr.combineNewAxes a.rank cli0 newAxes = .ok (na0, transp)) (htr : transp ≠ List.range a.rank)
    (hP : PipesOK a cli0 ps0) (hN : na0.Nodup)
    (h : a.combineLegs cl newAxes pipes qconj = .ok r) :
    let cli := (pick cli0 (Arr.argsortInt (na0.map Int.ofNat)) []).map
      (fun c => c.map (fun x => (inversePerm transp).getD x 0))
    let na := pick na0 (Arr.argsortInt (na0.map Int.ofNat)) 0
    let ps := pick ps0 (Arr.argsortInt (na0.map Int.ofNat)) default
    let t := cTransposed a transp
    IsPerm transp a.rank ∧ t.WF ∧ t.toDense = a.toDense.transpose transp
    ∧ t.legs = permuteList a.legs transp default
    ∧ t.combineStd cli na ps (t.labels.map (fun l => l.getD "")) = .ok r ∧ StdForm t.rank cli na ∧ PipesOK t cli ps
    ∧ na.length = cli.length ∧ ps.length = cli.length ∧ r.WF
    ∧ r.legs = cLegs t cli na ps ∧ r.qtotal = makeValid a.mods a.qtotal
    ∧ ∀ idx, InRange idx t.shape →
        InRange (combIdx t cli na ps idx) r.shape
        ∧ r.entry (combIdx t cli na ps idx) = a.entry (unperm transp a.rank idx) := by
  intro cli na ps t
  obtain ⟨ps0', cli0', na0', transp', _, hps', hcli', _, hnt', hcase⟩ := combineLegs_unfold a r cl newAxes pipes qconj h
  rw [hps] at hps'
  rw [hcli] at hcli'
  cases hps'
  cases hcli'
  rw [hnt] at hnt'
  cases hnt'
  rcases hcase with ⟨he, _⟩ | ⟨_, r1, r2, hr1, hr2, hcall⟩
  · exact absurd he htr
  obtain ⟨hr1e, hl1len⟩ := isetLegLabels_ok a r1 _ hr1
  have ha1 : ({ a with labels := (cLabels a).map some } : Arr α).WF := ⟨hl1len, ha.2⟩
  subst hr1e
  obtain ⟨hp, hr2e⟩ := itranspose_ne ({ a with labels := (cLabels a).map some } : Arr α) r2 hl1len transp htr hr2
  subst hr2e
  have hp' : IsPerm transp a.rank := hp
  have htWF : t.WF := Arr.WF_itransposeFast _ transp ha1 hp
  have htD : t.toDense = a.toDense.transpose transp := Arr.toDense_itransposeFast _ transp ha1 hp
  have htrank : t.rank = a.rank := by
    show (permuteList a.legs transp default).length = a.rank
    rw [permuteList_length, hp'.len]
  have hr := reordered_of a.rank cli0 newAxes na0 _ hnt hN
  have hperm : (Arr.argsortInt (na0.map Int.ofNat)).Perm (List.range cli0.length) := by
    rw [← hr.len]; exact argsort_perm na0
  have hcl0 : ∀ x ∈ cli0.flatten, x < a.rank := by
    intro x hx
    obtain ⟨c, hc, hxc⟩ := List.mem_flatten.1 hx
    obtain ⟨axs, _, hax⟩ := (mapM_except_ok _ _ _ hcli).2 c hc
    exact (Arr.getLegIndices_lt a ha.1 axs c hax).2 x hxc
  have hcl1 : ∀ x ∈ (pick cli0 (Arr.argsortInt (na0.map Int.ofNat)) []).flatten, x < a.rank :=
    fun x hx => hcl0 x ((pick_perm cli0 _ [] hperm).flatten.mem_iff.1 hx)
  have hstd : StdForm t.rank cli na := by
    rw [htrank]
    exact stdForm_transposed a.rank cli0 na0 transp hr hp' hcl0
  have hpo : PipesOK t cli ps :=
    pipesOK_transposed a t _ ps transp hp' hcl1 (Arr.lcs_itransposeFast _ transp)
      (pipesOK_pick a cli0 ps0 _ hperm hP)
  have hl1 : na.length = cli.length := by simp only [na, cli, pick_length, List.length_map]
  have hl2 : ps.length = cli.length := by simp only [ps, cli, pick_length, List.length_map]
  have hmain := combine_places t r htWF cli na ps _ hl1 hl2 hpo hstd hcall
  refine ⟨hp', htWF, htD, rfl, hcall, hstd, hpo, hl1, hl2,
    combine_WF t r htWF cli na ps _ hl1 hl2 hpo hstd hcall, hmain.1, hmain.2.2.2.1, ?_⟩
  intro idx hi
  obtain ⟨h1, h2⟩ := hmain.2.2.2.2.2.2.2.2 idx hi
  refine ⟨h1, ?_⟩
  rw [h2]
  exact Arr.entry_itransposeFast _ transp ha1 hp idx hi

omit [Zero α] in
theorem mkPipe_eq (a : Arr α) (c : List Nat) (q : Int) :
    ALeg.mkPipe (pick a.legs c default) q true true
      = .pipe (Pipe.init (pick a.lcs c default) q true true) (pick a.legs c default) := by
  unfold ALeg.mkPipe
  congr 2
  unfold pick Arr.lcs
  rw [List.map_map]
  apply List.map_congr_left
  intro x _
  exact (getD_map_leg a.legs x).symm

omit [Zero α] in
/-- `_combine_legs_make_pipes` with `pipes=None`: the pipes are built from the legs of the groups -/
theorem makePipes_none (a : Arr α) (cl : List (List Ax)) (qconj : List (Option Int)) (ps0 : List ALeg)
    (cli0 : List (List Nat)) (hps : a.combineMakePipes cl none qconj = .ok ps0)
    (hcli : cl.mapM a.getLegIndices = .ok cli0) : PipesOK a cli0 ps0 := by
  have hcl := (mapM_except_ok _ _ _ hcli).1
  unfold Arr.combineMakePipes at hps
  simp only [bind, Except.bind, pure, Except.pure, Option.getD_none, List.length_replicate, ne_eq,
    not_true_eq_false, if_false] at hps
  split at hps
  all_goals
    split at hps
    · simp [throw, throwThe, MonadExceptOf.throw] at hps
    intro g hg
    rw [hcl] at hg
    have hgi := mapM_except_getD _ _ _ hps 0 default g (by simpa using hg)
    rw [getD_range _ _ hg] at hgi
    have hci := mapM_except_getD _ _ _ hcli [] [] g hg
    rw [getD_replicate' _ _ _ _ hg] at hgi
    simp only at hgi
    split at hgi
    · rename_i q _
      rw [hci] at hgi
      simp only [Except.ok.injEq] at hgi
      exact ⟨q, true, true, _, by rw [← hgi]; exact mkPipe_eq a _ q⟩
    · split at hgi
      · simp [throw, throwThe, MonadExceptOf.throw] at hgi
      · split at hgi
        · simp at hgi
        · rename_i v _
          rw [hci] at hgi
          simp only [Except.ok.injEq] at hgi
          exact ⟨(a.lc v).qconj, true, true, _, by rw [← hgi]; exact mkPipe_eq a _ _⟩

end zero
end TenpyModel.C01B2.Comb
