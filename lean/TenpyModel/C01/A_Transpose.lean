import Mathlib.Data.List.Perm.Subperm
import TenpyModel.C01.A_Entry
/-!
C01 part A — transposition: `itransposeFast` permutes legs, labels, the columns of `_qdata` and the axes of every
block; its dense form is `np.transpose`.
-/
namespace TenpyModel.Core
open Arr (permuteList)

/-! ### permutations of `range n` as axis lists -/

/-- `axes` is a permutation of `0 … n-1` (what `itranspose` checks), in the index form used below -/
structure IsPerm (axes : List Nat) (n : Nat) : Prop where
  len : axes.length = n
  lt : ∀ j, j < n → axes.getD j 0 < n
  idxOf_getD : ∀ j, j < n → axes.idxOf (axes.getD j 0) = j
  idxOf_lt : ∀ k, k < n → axes.idxOf k < n
  getD_idxOf : ∀ k, k < n → axes.getD (axes.idxOf k) 0 = k

theorem IsPerm.of_perm {axes : List Nat} {n : Nat} (h : axes.Perm (List.range n)) : IsPerm axes n := by
  have hlen : axes.length = n := by simpa using h.length_eq
  have hnd : axes.Nodup := h.nodup_iff.2 List.nodup_range
  refine ⟨hlen, ?_, ?_, ?_, ?_⟩
  · intro j hj
    exact perm_range_lt axes n h j (by omega)
  · intro j hj
    have hj' : j < axes.length := by omega
    rw [getD_lt axes j 0 hj']
    exact hnd.idxOf_getElem j hj'
  · intro k hk
    have hmem : k ∈ axes := h.mem_iff.2 (by simpa using hk)
    have := List.idxOf_lt_length_iff.2 hmem
    omega
  · intro k hk
    have hmem : k ∈ axes := h.mem_iff.2 (by simpa using hk)
    have hlt : axes.idxOf k < axes.length := List.idxOf_lt_length_iff.2 hmem
    rw [getD_lt axes _ 0 hlt]
    exact List.getElem_idxOf hlt

theorem eraseDups_length_le : ∀ (n : Nat) (l : List Nat), l.length ≤ n → l.eraseDups.length ≤ l.length := by
  intro n
  induction n with
  | zero => intro l hl; cases l with
    | nil => simp
    | cons _ _ => simp at hl
  | succ n ih =>
    intro l hl
    cases l with
    | nil => simp
    | cons a as =>
      rw [List.eraseDups_cons]
      have h1 := List.length_filter_le (fun b => !b == a) as
      have h2 := ih (as.filter (fun b => !b == a)) (by simp at hl; omega)
      simp only [List.length_cons]
      omega

theorem nodup_of_eraseDups_length : ∀ (n : Nat) (l : List Nat), l.length ≤ n →
    l.eraseDups.length = l.length → l.Nodup := by
  intro n
  induction n with
  | zero => intro l hl _; cases l with
    | nil => exact List.nodup_nil
    | cons _ _ => simp at hl
  | succ n ih =>
    intro l hl he
    cases l with
    | nil => exact List.nodup_nil
    | cons a as =>
      rw [List.eraseDups_cons] at he
      simp only [List.length_cons] at he hl
      have h1 := List.length_filter_le (fun b => !b == a) as
      have h2 := eraseDups_length_le _ (as.filter (fun b => !b == a)) (Nat.le_refl _)
      have hf : (as.filter (fun b => !b == a)).length = as.length := by omega
      have hall := List.length_filter_eq_length_iff.1 hf
      have hfe : as.filter (fun b => !b == a) = as := List.filter_eq_self.2 hall
      rw [hfe] at he
      have hnd := ih as (by omega) (by omega)
      refine List.nodup_cons.2 ⟨?_, hnd⟩
      intro hmem
      have := hall a hmem
      simp at this

/-- the argument check of `itranspose` (`len(set(axes)) == rank`, every axis `< rank`) yields a permutation -/
theorem IsPerm.of_checks {axes : List Nat} {n : Nat} (hlen : axes.length = n) (hd : axes.eraseDups.length = n)
    (hlt : ∀ k ∈ axes, k < n) : IsPerm axes n := by
  have hnd : axes.Nodup := nodup_of_eraseDups_length _ axes (Nat.le_refl _) (by omega)
  have hsub : axes ⊆ List.range n := fun k hk => by simpa using hlt k hk
  exact IsPerm.of_perm ((List.subperm_of_subset hnd hsub).perm_of_length_le (by simp [hlen]))

/-- un-permute an index list: entry `k` of the result is entry `axes.idxOf k` of the argument (`np.transpose`) -/
def unperm (axes : List Nat) (n : Nat) (l : List Nat) : List Nat :=
  (List.range n).map (fun k => l.getD (axes.idxOf k) 0)

theorem permuteList_length {β} (l : List β) (axes : List Nat) (d : β) : (permuteList l axes d).length = axes.length := by
  simp [permuteList]

theorem permuteList_getD {β} (l : List β) (axes : List Nat) (d : β) (j : Nat) (hj : j < axes.length) :
    (permuteList l axes d).getD j d = l.getD (axes.getD j 0) d := by
  unfold permuteList
  rw [getD_map' _ axes j 0 d hj]

theorem unperm_length (axes : List Nat) (n : Nat) (l : List Nat) : (unperm axes n l).length = n := by
  simp [unperm]

theorem unperm_getD (axes : List Nat) (n : Nat) (l : List Nat) (k : Nat) (hk : k < n) :
    (unperm axes n l).getD k 0 = l.getD (axes.idxOf k) 0 := by
  unfold unperm
  rw [getD_map' _ _ k 0 0 (by simpa using hk), getD_range _ _ hk]

namespace IsPerm
variable {axes : List Nat} {n : Nat}

theorem permute_unperm (h : IsPerm axes n) (l : List Nat) (hl : l.length = n) :
    permuteList (unperm axes n l) axes 0 = l := by
  apply ext_getD _ _ 0 (by rw [permuteList_length, h.len, hl])
  intro j hj
  rw [permuteList_length, h.len] at hj
  rw [permuteList_getD _ _ _ _ (by rw [h.len]; exact hj), unperm_getD _ _ _ _ (h.lt j hj), h.idxOf_getD j hj]

theorem unperm_permute (h : IsPerm axes n) (l : List Nat) (hl : l.length = n) :
    unperm axes n (permuteList l axes 0) = l := by
  apply ext_getD _ _ 0 (by rw [unperm_length, hl])
  intro k hk
  rw [unperm_length] at hk
  rw [unperm_getD _ _ _ _ hk, permuteList_getD _ _ _ _ (by rw [h.len]; exact h.idxOf_lt k hk), h.getD_idxOf k hk]

theorem permute_inj (h : IsPerm axes n) (l₁ l₂ : List Nat) (h1 : l₁.length = n) (h2 : l₂.length = n)
    (e : permuteList l₁ axes 0 = permuteList l₂ axes 0) : l₁ = l₂ := by
  rw [← h.unperm_permute l₁ h1, ← h.unperm_permute l₂ h2, e]

theorem inRange_permute (h : IsPerm axes n) (l S : List Nat) (hS : S.length = n) (hl : InRange l S) :
    InRange (permuteList l axes 0) (permuteList S axes 0) := by
  apply InRange.of_getD _ _ (by rw [permuteList_length, permuteList_length])
  intro j hj
  rw [permuteList_length] at hj
  rw [permuteList_getD _ _ _ _ hj, permuteList_getD _ _ _ _ hj]
  exact hl.getD_lt' _ (by rw [hS]; exact h.lt j (by rw [← h.len]; exact hj))

theorem inRange_unperm (h : IsPerm axes n) (l' S : List Nat) (hS : S.length = n)
    (hl : InRange l' (permuteList S axes 0)) : InRange (unperm axes n l') S := by
  apply InRange.of_getD _ _ (by rw [unperm_length, hS])
  intro k hk
  rw [hS] at hk
  rw [unperm_getD _ _ _ _ hk]
  have hi := h.idxOf_lt k hk
  have := hl.getD_lt' (axes.idxOf k) (by rw [permuteList_length, h.len]; exact hi)
  rw [permuteList_getD _ _ _ _ (by rw [h.len]; exact hi), h.getD_idxOf k hk] at this
  exact this

/-- zipping a permuted list with an index list = permuting the zip with the un-permuted index list -/
theorem zipWith_permute {β δ} (h : IsPerm axes n) (f : β → Nat → δ) (xs : List β) (dx : β) (d : δ)
    (hxs : xs.length = n) (l' : List Nat) (hl' : l'.length = n) :
    List.zipWith f (permuteList xs axes dx) l' = permuteList (List.zipWith f xs (unperm axes n l')) axes d := by
  apply ext_getD _ _ d
  · simp [permuteList_length, h.len, hl']
  · intro j hj
    have hj' : j < n := by
      simp only [List.length_zipWith, permuteList_length, h.len, hl'] at hj
      omega
    rw [getD_zipWith' f _ _ j dx 0 d (by rw [permuteList_length, h.len]; exact hj') (by rw [hl']; exact hj'),
      permuteList_getD _ _ _ _ (by rw [h.len]; exact hj'), permuteList_getD _ _ _ _ (by rw [h.len]; exact hj'),
      getD_zipWith' f _ _ _ dx 0 d (by rw [hxs]; exact h.lt j hj') (by rw [unperm_length]; exact h.lt j hj'),
      unperm_getD _ _ _ _ (h.lt j hj'), h.idxOf_getD j hj']

end IsPerm

namespace Dense
variable {α : Type}

/-- `np.transpose` entry-wise -/
theorem transpose_eq_ofFn [Zero α] (d : Dense α) (axes : List Nat) :
    d.transpose axes = ofFn (permuteList d.shape axes 0) (fun idx => d.get 0 (unperm axes d.shape.length idx)) := by
  unfold Dense.transpose
  rw [gather_eq_ofFn]
  simp only [Dense.rank, List.map_map, Function.comp_def]
  rfl

end Dense

namespace Arr
variable {α : Type}

theorem lcs_itransposeFast [Zero α] (a : Arr α) (axes : List Nat) :
    (a.itransposeFast axes).lcs = permuteList a.lcs axes default := by
  unfold lcs itransposeFast permuteList
  simp only [List.map_map]
  apply List.map_congr_left
  intro k _
  exact (getD_map_zero ALeg.leg a.legs k default).symm

theorem getD_map_indLen (lcs : List Leg) (k : Nat) (hk : k < lcs.length) :
    (lcs.map Leg.indLen).getD k 0 = (lcs.getD k default).indLen :=
  getD_map' Leg.indLen lcs k default 0 hk

theorem shape_itransposeFast [Zero α] (a : Arr α) (axes : List Nat) (hp : IsPerm axes a.rank) :
    (a.itransposeFast axes).shape = permuteList a.shape axes 0 := by
  unfold shape
  rw [lcs_itransposeFast]
  unfold permuteList
  rw [List.map_map]
  apply List.map_congr_left
  intro k hk
  have hk' : k < a.rank := by
    obtain ⟨j, hj, rfl⟩ := List.getElem_of_mem hk
    have := hp.lt j (by rw [← hp.len]; exact hj)
    rwa [getD_lt axes j 0 hj] at this
  exact (getD_map_indLen a.lcs k (by rw [lcs_length]; exact hk')).symm

theorem blockShapeOf_eq_zipWith (lcs : List Leg) (q : List Nat) :
    blockShapeOf lcs q = List.zipWith (fun l qi => l.blockSizes.getD qi 0) lcs q := rfl

/-- entries of the transposed tensor -/
theorem entry_itransposeFast [Zero α] (a : Arr α) (axes : List Nat) (ha : a.WF) (hp : IsPerm axes a.rank)
    (idx' : List Nat) (hidx : InRange idx' (a.itransposeFast axes).shape) :
    (a.itransposeFast axes).entry idx' = a.entry (unperm axes a.rank idx') := by
  have hlen' : idx'.length = a.rank := by
    rw [hidx.length_eq, shape_itransposeFast a axes hp, permuteList_length, hp.len]
  have hidx0 : InRange (unperm axes a.rank idx') a.shape := by
    apply hp.inRange_unperm _ _ (shape_length a)
    rw [← shape_itransposeFast a axes hp]
    exact hidx
  obtain ⟨hqr, hwr⟩ := qw_inRange a.lcs ha.legs_ok _ hidx0
  have hql : (qidx a.lcs (unperm axes a.rank idx')).length = a.rank := by
    rw [qidx_length _ _ (by rw [unperm_length, lcs_length]), lcs_length]
  apply entry_rowmap_all a (a.itransposeFast axes) (fun r => permuteList r axes 0)
    (fun _ b => b.transpose axes) id rfl rfl
    (by
      show a.data.map _ = _
      rw [zipWith_const_left _ _ _ ha.2.1])
  · -- block indices
    rw [lcs_itransposeFast]
    exact hp.zipWith_permute _ a.lcs default 0 (lcs_length a) idx' hlen'
  · -- injectivity of the column permutation on stored rows
    intro r hr he
    exact hp.permute_inj r _ (ha.2.2.2.2.1 r hr).1 hql he
  · -- block level
    intro b hb
    obtain ⟨hbs, hbv, _, _⟩ := ha.block _ b hb
    have hbl : b.shape.length = a.rank := by
      rw [hbs, blockShapeOf_eq_zipWith, List.length_zipWith, lcs_length, hql, Nat.min_self]
    have hw' : widx (a.itransposeFast axes).lcs idx'
        = permuteList (widx a.lcs (unperm axes a.rank idx')) axes 0 := by
      rw [lcs_itransposeFast]
      exact hp.zipWith_permute _ a.lcs default 0 (lcs_length a) idx' hlen'
    have hwl : (widx a.lcs (unperm axes a.rank idx')).length = a.rank := by
      rw [widx_length _ _ (by rw [unperm_length, lcs_length]), lcs_length]
    rw [hw', Dense.transpose_eq_ofFn, hbl]
    rw [Dense.get_ofFn 0 _ _ _ (hp.inRange_permute _ _ hbl (hbs ▸ hwr))]
    rw [hp.unperm_permute _ hwl]
    rfl

/-- `itransposeFast` for a permutation `axes`: the dense form is `np.transpose` -/
theorem toDense_itransposeFast [Zero α] (a : Arr α) (axes : List Nat) (ha : a.WF) (hp : IsPerm axes a.rank) :
    (a.itransposeFast axes).toDense = a.toDense.transpose axes := by
  unfold toDense
  rw [Dense.transpose_eq_ofFn, shape_itransposeFast a axes hp]
  show Dense.ofFn _ _ = Dense.ofFn (permuteList a.shape axes 0) _
  apply Dense.ofFn_congr_mem
  intro idx' hidx
  have hs : (Dense.ofFn a.shape a.entry).shape.length = a.rank := shape_length a
  rw [hs]
  have hidx' : InRange idx' (a.itransposeFast axes).shape := by
    rw [shape_itransposeFast a axes hp]; exact hidx
  rw [entry_itransposeFast a axes ha hp idx' hidx']
  have hidx0 : InRange (unperm axes a.rank idx') a.shape := hp.inRange_unperm _ _ (shape_length a) hidx
  exact (Dense.get_ofFn 0 a.shape a.entry _ hidx0).symm

end Arr
end TenpyModel.Core
