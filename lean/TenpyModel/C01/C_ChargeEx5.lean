import TenpyModel.C01.C_Charge17
import TenpyModel.C01.PropsA
import TenpyModel.C01.PropsB2
/-!
C01 part C — non-vacuity of the closure theorems for part A's operations and of the program theorems
(`progA_chargeRule_mods`, `progAB_spec_mods`) on the example tensors of part A.
-/
namespace TenpyModel.C01C.Ex5
open TenpyModel.Core TenpyModel.C01B TenpyModel.C01B2 TenpyModel.C01C

/-- conclusion of a closure theorem, `decide`able: charge rule, valid legs, and at least one stored row -/
def okA (v : Except Err (Arr Int)) : Bool :=
  match v with
  | .ok r => decide (r.ChargeRule ∧ LegsValid r) && !r.qdata.isEmpty
  | .error _ => false

theorem ok_of_okA {v : Except Err (Arr Int)} (h : okA v = true) : ∃ r, v = .ok r := by
  unfold okA at h
  split at h
  · exact ⟨_, rfl⟩
  · cases h

/-- the operand: U(1)×Z₃, duplicate sector, missing block, `qtotal = (-1, 1)` -/
example : C01Example.t.WF ∧ C01Example.t.ChargeRule ∧ LegsValid C01Example.t := by decide

/-! ### unary operations: the conclusion by evaluation … -/
/-- (`ALeg.conj` recurses through nested pipes and does not `decide`: `conj` is covered by the theorem below) -/
example : (C01Example.t.conj id).qdata = [[2, 0]] ∧ (C01Example.t.conj id).qtotal = [1, 2] := by decide
example : okA (C01Example.t.transpose (some [.lbl "b*", .idx 0])) = true
    ∧ okA (C01Example.t.transpose none) = true
    ∧ okA (C01Example.t.iswapaxes (.idx (-1)) (.lbl "a")) = true
    ∧ okA (C01Example.t.addTrivialLeg 1 (some "z") (-1)) = true
    ∧ okA (C01Example.t.takeSlice [-1] [.lbl "a"]) = true
    ∧ okA (C01Example.t.iscaleAxis [2, 3, 5] (.idx (-1))) = true
    ∧ okA (C01Example.t.iproject [.bools [false, true, false, true], .ints [1, -3]] [.idx 0, .lbl "b*"]) = true
    ∧ okA (C01Example.t.permute [3, 0, 2, 1] (.lbl "a")) = true := by decide

/-! ### … and by the theorems -/
example : (C01Example.t.conj id).ChargeRule ∧ LegsValid (C01Example.t.conj id) :=
  chargeRule_conj id _ (by decide) (by decide)
example : ∃ r, C01Example.t.transpose (some [.lbl "b*", .idx 0]) = .ok r ∧ r.ChargeRule ∧ LegsValid r := by
  obtain ⟨r, h⟩ := ok_of_okA (show okA (C01Example.t.transpose (some [.lbl "b*", .idx 0])) = true by decide)
  exact ⟨r, h, chargeRule_transpose _ r (by decide) (by decide) (by decide) _ h⟩
example : ∃ r, C01Example.t.iswapaxes (.idx (-1)) (.lbl "a") = .ok r ∧ r.ChargeRule ∧ LegsValid r := by
  obtain ⟨r, h⟩ := ok_of_okA (show okA (C01Example.t.iswapaxes (.idx (-1)) (.lbl "a")) = true by decide)
  exact ⟨r, h, chargeRule_iswapaxes _ r (by decide) (by decide) (by decide) _ _ h⟩
example : ∃ r, C01Example.t.addTrivialLeg 1 (some "z") (-1) = .ok r ∧ r.ChargeRule ∧ LegsValid r := by
  obtain ⟨r, h⟩ := ok_of_okA (show okA (C01Example.t.addTrivialLeg 1 (some "z") (-1)) = true by decide)
  exact ⟨r, h, chargeRule_addTrivialLeg _ r (by decide) (by decide) (by decide) _ _ _ h⟩
example : ∃ r, C01Example.t.takeSlice [-1] [.lbl "a"] = .ok r ∧ r.ChargeRule ∧ LegsValid r := by
  obtain ⟨r, h⟩ := ok_of_okA (show okA (C01Example.t.takeSlice [-1] [.lbl "a"]) = true by decide)
  exact ⟨r, h, chargeRule_takeSlice _ r (by decide) (by decide) (by decide) _ _ [0] rfl (by decide) h⟩
example : ∃ r, C01Example.t.iscaleAxis [2, 3, 5] (.idx (-1)) = .ok r ∧ r.ChargeRule ∧ LegsValid r := by
  obtain ⟨r, h⟩ := ok_of_okA (show okA (C01Example.t.iscaleAxis [2, 3, 5] (.idx (-1))) = true by decide)
  exact ⟨r, h, chargeRule_iscaleAxis _ r (by decide) (by decide) _ _ h⟩
example : ∃ r, C01Example.t.iproject [.bools [false, true, false, true], .ints [1, -3]] [.idx 0, .lbl "b*"] = .ok r
    ∧ r.ChargeRule ∧ LegsValid r := by
  obtain ⟨r, h⟩ := ok_of_okA (show okA (C01Example.t.iproject [.bools [false, true, false, true], .ints [1, -3]]
    [.idx 0, .lbl "b*"]) = true by decide)
  exact ⟨r, h, chargeRule_iproject _ r (by decide) (by decide) (by decide) _ _ [0, 1] rfl (by decide) h⟩
example : ∃ r, C01Example.t.permute [3, 0, 2, 1] (.lbl "a") = .ok r ∧ r.ChargeRule ∧ LegsValid r := by
  obtain ⟨r, h⟩ := ok_of_okA (show okA (C01Example.t.permute [3, 0, 2, 1] (.lbl "a")) = true by decide)
  exact ⟨r, h, chargeRule_permute _ r (by decide) (by decide) (by decide) _ _ 0 rfl (by decide) (by decide) h⟩

/-! ### squeeze -/

theorem squeezeQ_tz : SqueezeQ C01SliceExample.tz none := by
  intro ax hax
  have : C01SliceExample.tz.squeezeAx none = .ok [1] := by decide
  rw [this] at hax
  cases hax
  decide

example : C01SliceExample.tz.WF ∧ C01SliceExample.tz.ChargeRule ∧ LegsValid C01SliceExample.tz := by decide
example : ∀ r, C01SliceExample.tz.squeeze none = .ok (.arr r) → r.ChargeRule ∧ LegsValid r :=
  fun r h => chargeRule_squeeze _ r (by decide) (by decide) (by decide) none squeezeQ_tz h
example : (match C01SliceExample.tz.squeeze none with
    | .ok (.arr r) => decide (r.ChargeRule ∧ LegsValid r) && !r.qdata.isEmpty | _ => false) = true := by decide

/-- **`SqueezeQ` is needed**: a unit leg whose first block is empty and carries another charge than the second — the
operand is well formed and obeys the charge rule, the squeezed tensor does not (`squeeze` subtracts `get_charge(0)`) -/
def legU2 : Leg := ⟨[1, 3], [0, 0, 1], [[1, 0], [0, 0]], 1, false, false⟩
def tu2 : Arr Int :=
  { mods := [1, 3], legs := [.plain legU2, .plain C01Example.legB], qtotal := [-1, 0], labels := [some "u", some "b"],
    qdata := [[1, 0]], data := [⟨[1, 2], [5, -7]⟩], qdataSorted := true }
example : tu2.WF ∧ tu2.ChargeRule ∧ LegsValid tu2
    ∧ (∀ row ∈ tu2.qdata, ∀ k ∈ [0], (tu2.lc k).blockSizes.getD (row.getD k 0) 0 ≠ 0)
    ∧ (match tu2.squeeze (some [.idx 0]) with
        | .ok (.arr r) => some (decide r.ChargeRule, r.qtotal, r.qdata) | _ => none)
      = some (false, [-2, 0], [[0]]) := by decide

/-! ### binary operations (general branch of the merge: different stored rows) -/

example : C01CoreExample.a.WF ∧ C01CoreExample.b.WF ∧ C01CoreExample.a.mods = C01CoreExample.b.mods
    ∧ C01CoreExample.a.ChargeRule ∧ C01CoreExample.b.ChargeRule
    ∧ LegsValid C01CoreExample.a ∧ LegsValid C01CoreExample.b := by decide
example (r b' : Arr Int) (h : C01CoreExample.a.ibinaryBlockwise (· + ·) C01CoreExample.b = .ok (r, b')) :
    (r.ChargeRule ∧ LegsValid r) ∧ (b'.ChargeRule ∧ LegsValid b') :=
  chargeRule_ibinaryBlockwise _ _ _ r b' (by decide) (by decide) (by decide) (by decide) (by decide) (by decide)
    (by decide) h
example (cy : Bool) (r b' : Arr Int) (h : C01CoreExample.a.iaddPrefactorOther cy 2 C01CoreExample.b = .ok (r, b')) :
    (r.ChargeRule ∧ LegsValid r) ∧ (b'.ChargeRule ∧ LegsValid b') :=
  chargeRule_iaddPrefactorOther cy _ _ r b' 2 (by decide) (by decide) (by decide) (by decide) (by decide) (by decide)
    (by decide) h
/-- the call does return (PropsA evaluates its dense form) -/
example : (C01CoreExample.a.ibinaryBlockwise (· + ·) C01CoreExample.b).toOption.isSome = true := by
  have h1 : C01CoreExample.b.transposeSameLabels C01CoreExample.a.labels = (C01CoreExample.b, false) := by rfl
  simp only [Arr.ibinaryBlockwise, h1, C01CoreExample.check_ok, bind, Except.bind, pure, Except.pure,
    C01CoreExample.mergeBlocks_eval]
  rfl

/-! ### programs -/

/-- `C01ProgExample.p = ((t + 2·(−t)).add_trivial_leg(1,'z').transpose(['b*','z','a']))[:, 0, :]`: no `squeeze`, so `SideQ`
is trivial; part A's `Side` is `C01ProgExample.side` -/
theorem sideQ_p : SideQ id [C01Example.t] C01ProgExample.p := ⟨trivial, trivial⟩

example : ∃ r, C01ProgExample.p.evalArr id [C01Example.t] = .ok r ∧ r.ChargeRule ∧ LegsValid r ∧ r.mods = [1, 3]
    ∧ r.qdata ≠ [] := by
  obtain ⟨r, h⟩ := ok_of_okA (show okA (C01ProgExample.p.evalArr id [C01Example.t]) = true by decide)
  obtain ⟨c, v, m⟩ := progA_chargeRule_mods id rfl [1, 3] [C01Example.t] (by decide) (by decide)
    C01ProgExample.p r C01ProgExample.side sideQ_p h
  refine ⟨r, h, c, v, m, ?_⟩
  have : okA (C01ProgExample.p.evalArr id [C01Example.t]) = true := by decide
  rw [h] at this
  intro e
  simp [okA, e] at this

/-- a program with `squeeze`: `t.add_trivial_leg(1,'z').squeeze()` -/
def pSq : C01ProgA Int := .squeeze none (.addTrivialLeg 1 (some "z") 1 (.input 0))

theorem sideQ_pSq : SideQ id [C01Example.t] pSq := by
  refine ⟨trivial, fun a ha => ?_⟩
  have e : (C01ProgA.addTrivialLeg 1 (some "z") 1 (.input 0)).evalArr id [C01Example.t]
      = C01Example.t.addTrivialLeg 1 (some "z") 1 := rfl
  rw [e] at ha
  intro ax hax row hrow k hk
  have e2 : (C01Example.t.addTrivialLeg 1 (some "z") 1).toOption.map
      (fun a => ((a.squeezeAx none).toOption, a.qdata)) = some (some [1], [[2, 0, 0]]) := by decide
  rw [ha] at e2
  simp only [Except.toOption, Option.map_some, Option.some.injEq, Prod.mk.injEq] at e2
  rw [hax] at e2
  simp only [Option.some.injEq] at e2
  rw [e2.1] at hk
  rw [e2.2] at hrow
  simp only [List.mem_singleton] at hk hrow
  subst hk hrow
  rfl

/-! ### programs with products: only part A's side conditions -/

theorem sideABQ_pAB : SideABQ id false [C01ExampleB2.m2, C01ExampleB.m] C01ExampleB2.pAB :=
  ⟨⟨trivial, trivial, fun _ _ _ _ => ⟨trivial, trivial⟩⟩, trivial⟩

/-- `(-m2) ⋅₁ m` (worker branch): everything from `progAB_spec_mods`, no charge-rule side condition -/
example : ∃ r, C01ExampleB2.pAB.evalArr id false [C01ExampleB2.m2, C01ExampleB.m] = .ok r
    ∧ r.toDense = ⟨[4, 4], [-949, 0, 0, 0, 0, -7, -10, 0, 0, -15, -22, 0, -700, 0, 0, 0]⟩
    ∧ r.WF ∧ r.ChargeRule ∧ LegsValid r ∧ r.mods = [1, 3] := by
  obtain ⟨r, hr⟩ := tensordot_int_isOk false C01ExampleB2.m2.neg C01ExampleB.m 1 rfl (by decide) (by decide)
    (by decide)
  have he : C01ExampleB2.pAB.evalArr id false [C01ExampleB2.m2, C01ExampleB.m] = .ok r := by
    have e1 : (C01ProgAB.partA (.neg (.input 0)) (.input 0) (.input 0)).evalArr id false
        [C01ExampleB2.m2, C01ExampleB.m] = .ok C01ExampleB2.m2.neg := rfl
    have e2 : (C01ProgAB.input 1).evalArr id false [C01ExampleB2.m2, C01ExampleB.m] = .ok C01ExampleB.m := rfl
    simp only [C01ExampleB2.pAB, C01ProgAB.evalArr, bind, Except.bind] at e1 e2 ⊢
    simp only [e1, e2, C01ProgAB.dotArr, hr]
  obtain ⟨h1, _, h3, h4, h5, h6⟩ := progAB_spec_mods id rfl false [1, 3] _ (by decide) (by decide) _ r sideABQ_pAB he
  refine ⟨r, he, ?_, h3, h4, h5, h6⟩
  rw [h1]; decide

end TenpyModel.C01C.Ex5
