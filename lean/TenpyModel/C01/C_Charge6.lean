import TenpyModel.C01.C_Charge5
import TenpyModel.C01.B2_Comb11
/-!
C01 part C — the public `combine_legs` (groups by index or label, `new_axes`, `pipes`, `qconj`; with or without the
transposition step): the result obeys the charge rule and has valid legs.
-/
namespace TenpyModel.C01C
open TenpyModel.Core TenpyModel.C01B TenpyModel.C01B2 TenpyModel.C01B2.Comb
open TenpyModel.Core.Arr (permuteList)

variable {α : Type}

/-- reordering the pipes keeps their directions `±1` (the filler `default` is a plain leg of direction `+1`) -/
theorem pipesQ_pick (ps0 : List ALeg) (order : List Nat) (h : PipesQ ps0) : PipesQ (pick ps0 order default) := by
  intro x hx
  obtain ⟨i, _, rfl⟩ := List.mem_map.1 hx
  by_cases hi : i < ps0.length
  · exact h _ (getD_mem ps0 i default hi)
  · have : ps0.getD i default = default := by
      rw [List.getD_eq_getElem?_getD, List.getElem?_eq_none (by omega)]; rfl
    rw [this]
    exact Or.inl rfl

section zero
variable [Zero α]

/-- **(d) the public `combine_legs`**: the result obeys the charge rule and has valid legs. Hypotheses as for
`C01_combineLegs_places(_transposed)` (`hP`: the pipes are pipes over the groups' legs, `hN`: no repeated new axis — both
automatic for the default call) plus the directions `±1` of the pipes made by `_combine_legs_make_pipes` (`hQ`). -/
theorem chargeRule_combineLegs (a r : Arr α) (ha : a.WF) (hca : a.ChargeRule) (hva : LegsValid a)
    (cl : List (List Ax)) (newAxes : Option (List Int)) (pipes : Option (List (Option ALeg)))
    (qconj : List (Option Int)) (ps0 : List ALeg) (cli0 : List (List Nat)) (na0 transp : List Nat)
    (hps : a.combineMakePipes cl pipes qconj = .ok ps0) (hcli : cl.mapM a.getLegIndices = .ok cli0)
    (hnt : Arr.combineNewAxes a.rank cli0 newAxes = .ok (na0, transp))
    (hP : PipesOK a cli0 ps0) (hN : na0.Nodup) (hQ : PipesQ ps0)
    (h : a.combineLegs cl newAxes pipes qconj = .ok r) : r.ChargeRule ∧ LegsValid r := by
  by_cases htr : transp = List.range a.rank
  · subst htr
    obtain ⟨hcall, hstd, hpo, hl1, hl2, _⟩ :=
      combineLegs_places_id a r ha cl newAxes pipes qconj ps0 cli0 na0 hps hcli hnt hP hN h
    exact chargeRule_combineStd a r ha hca hva _ _ _ _ hl1 hl2 hpo hstd (pipesQ_pick ps0 _ hQ) hcall
  · obtain ⟨hp, htWF, _, _, hcall, hstd, hpo, hl1, hl2, _⟩ :=
      combineLegs_places_tr a r ha cl newAxes pipes qconj ps0 cli0 na0 transp hps hcli hnt htr hP hN h
    have hl : ((cLabels a).map some).length = a.rank := by simp [cLabels]
    have ha1 : ({ a with labels := (cLabels a).map some } : Arr α).WF := ⟨hl, ha.2⟩
    have hct : (cTransposed a transp).ChargeRule :=
      chargeRule_itransposeFast ({ a with labels := (cLabels a).map some } : Arr α) transp (W.of ha1) hp hca
    have hvt : LegsValid (cTransposed a transp) :=
      legsValid_itransposeFast ({ a with labels := (cLabels a).map some } : Arr α) transp hp hva
    exact chargeRule_combineStd (cTransposed a transp) r htWF hct hvt _ _ _ _ hl1 hl2 hpo hstd
      (pipesQ_pick ps0 _ hQ) hcall

end zero
end TenpyModel.C01C
