import TenpyModel.C01.B_Trace
/-!
C01 part B2 — `trace` of a tensor of rank > 2, step 1: the dictionary accumulation `new row -> block`.

The loop of `trace` keeps an association list with pairwise distinct keys; a block whose key is already present is
added (`Dense.add`) to the stored block, otherwise a new entry is appended. `lsum acc row w` reads the entry of the
block stored under `row` at position `w` (0 when absent); it is additive along the loop.
-/
namespace TenpyModel.C01B2
open TenpyModel.Core TenpyModel.C01B

variable {α : Type}

/-- one dictionary update of `trace` -/
def accStep [Add α] (acc : List (List Nat × Dense α)) (e : List Nat × Dense α) : List (List Nat × Dense α) :=
  if acc.any (fun x => x.1 == e.1) then acc.map (fun x => if x.1 == e.1 then (x.1, Dense.add x.2 e.2) else x)
  else acc ++ [e]

theorem any_key_iff (acc : List (List Nat × Dense α)) (k : List Nat) :
    acc.any (fun x => x.1 == k) = true ↔ k ∈ acc.map (·.1) := by
  simp only [List.any_eq_true, beq_iff_eq, List.mem_map]

theorem accStep_keys [Add α] (acc : List (List Nat × Dense α)) (e : List Nat × Dense α) :
    (accStep acc e).map (·.1) = if e.1 ∈ acc.map (·.1) then acc.map (·.1) else acc.map (·.1) ++ [e.1] := by
  unfold accStep
  by_cases h : acc.any (fun x => x.1 == e.1) = true
  · rw [if_pos h, if_pos ((any_key_iff acc e.1).1 h), List.map_map]
    apply List.map_congr_left
    intro x _
    simp only [Function.comp]
    split <;> rfl
  · rw [if_neg h, if_neg (fun hh => h ((any_key_iff acc e.1).2 hh))]
    simp

section sums
variable [CommSemiring α]

/-- the value at `w` of the block stored under `row` (sum over all entries with this key) -/
def lsum (acc : List (List Nat × Dense α)) (row w : List Nat) : α :=
  ((acc.filter (fun e => e.1 == row)).map (fun e => e.2.get 0 w)).sum

theorem lsum_nil (row w : List Nat) : lsum ([] : List (List Nat × Dense α)) row w = 0 := rfl

theorem lsum_cons (e : List Nat × Dense α) (acc : List (List Nat × Dense α)) (row w : List Nat) :
    lsum (e :: acc) row w = (if e.1 = row then e.2.get 0 w else 0) + lsum acc row w := by
  unfold lsum
  by_cases h : e.1 = row
  · simp [h]
  · simp [h]

theorem lsum_append (l1 l2 : List (List Nat × Dense α)) (row w : List Nat) :
    lsum (l1 ++ l2) row w = lsum l1 row w + lsum l2 row w := by
  unfold lsum
  rw [List.filter_append, List.map_append, List.sum_append]

theorem lsum_of_not_mem (acc : List (List Nat × Dense α)) (row w : List Nat) (h : row ∉ acc.map (·.1)) :
    lsum acc row w = 0 := by
  induction acc with
  | nil => rfl
  | cons x acc ih =>
    simp only [List.map_cons, List.mem_cons, not_or] at h
    rw [lsum_cons, if_neg (fun e => h.1 e.symm), ih h.2, add_zero]

theorem lsum_of_mem (acc : List (List Nat × Dense α)) (hn : (acc.map (·.1)).Nodup) (row w : List Nat) (B : Dense α)
    (h : (row, B) ∈ acc) : lsum acc row w = B.get 0 w := by
  induction acc with
  | nil => simp at h
  | cons x acc ih =>
    simp only [List.map_cons, List.nodup_cons] at hn
    rw [lsum_cons]
    rcases List.mem_cons.1 h with rfl | h'
    · rw [if_pos rfl, lsum_of_not_mem acc _ w hn.1, add_zero]
    · have hne : x.1 ≠ row := by
        intro e
        apply hn.1
        rw [e]
        exact List.mem_map.2 ⟨(row, B), h', rfl⟩
      rw [if_neg hne, zero_add, ih hn.2 h']

/-- reading the dictionary as `Arr.entry` does (last entry with the key) -/
theorem lsum_find (acc : List (List Nat × Dense α)) (hn : (acc.map (·.1)).Nodup) (row w : List Nat) :
    (match acc.reverse.find? (fun rb => rb.1 == row) with
      | none => (0 : α)
      | some (_, b) => b.get 0 w) = lsum acc row w := by
  by_cases hm : row ∈ acc.map (·.1)
  · obtain ⟨x, hx, hxr⟩ := List.mem_map.1 hm
    obtain ⟨r, B⟩ := x
    simp only at hxr
    subst hxr
    have hk : ∀ x ∈ acc, ∀ y ∈ acc, x.1 = y.1 → x = y := fun x hx y hy e => List.inj_on_of_nodup_map hn hx hy e
    rw [find_rev_mem acc hk (r, B) hx, lsum_of_mem acc hn r w B hx]
  · rw [find_rev_none acc row (fun e he heq => hm (List.mem_map.2 ⟨e, he, heq⟩)), lsum_of_not_mem acc row w hm]

/-- the update of an existing key -/
def upd (e : List Nat × Dense α) (acc : List (List Nat × Dense α)) : List (List Nat × Dense α) :=
  acc.map (fun x => if x.1 == e.1 then (x.1, Dense.add x.2 e.2) else x)

theorem upd_of_not_mem (e : List Nat × Dense α) (acc : List (List Nat × Dense α)) (h : e.1 ∉ acc.map (·.1)) :
    upd e acc = acc := by
  unfold upd
  conv => rhs; rw [← List.map_id acc]
  apply List.map_congr_left
  intro x hx
  have : x.1 ≠ e.1 := fun e' => h (List.mem_map.2 ⟨x, hx, e'⟩)
  simp [this]

theorem upd_cons (e x : List Nat × Dense α) (acc : List (List Nat × Dense α)) :
    upd e (x :: acc) = (if x.1 = e.1 then (x.1, Dense.add x.2 e.2) else x) :: upd e acc := by
  unfold upd
  by_cases h : x.1 = e.1
  · simp [h]
  · simp [h]

theorem upd_lsum (e : List Nat × Dense α) (acc : List (List Nat × Dense α)) (hn : (acc.map (·.1)).Nodup)
    (hs : ∀ x ∈ acc, x.1 = e.1 → x.2.shape = e.2.shape ∧ x.2.vals.length = e.2.vals.length)
    (hm : e.1 ∈ acc.map (·.1)) (row w : List Nat) :
    lsum (upd e acc) row w = lsum acc row w + (if e.1 = row then e.2.get 0 w else 0) := by
  induction acc with
  | nil => simp at hm
  | cons x acc ih =>
    simp only [List.map_cons, List.nodup_cons] at hn
    rw [upd_cons, lsum_cons, lsum_cons]
    by_cases hx : x.1 = e.1
    · rw [if_pos hx, upd_of_not_mem e acc (hx ▸ hn.1)]
      obtain ⟨h1, h2⟩ := hs x (by simp) hx
      by_cases hr : x.1 = row
      · rw [if_pos hr, if_pos hr, if_pos (hx ▸ hr), get_add x.2 e.2 h1 h2 w]
        ring
      · rw [if_neg hr, if_neg hr, if_neg (hx ▸ hr), add_zero]
    · rw [if_neg hx]
      have hm' : e.1 ∈ acc.map (·.1) := by
        simp only [List.map_cons, List.mem_cons] at hm
        rcases hm with hm | hm
        · exact absurd hm.symm hx
        · exact hm
      rw [ih hn.2 (fun y hy => hs y (by simp [hy])) hm', add_assoc]

/-- invariant of the accumulation: distinct keys, every block has the shape `S key` and is complete -/
structure AccOK (S : List Nat → List Nat) (acc : List (List Nat × Dense α)) : Prop where
  nodup : (acc.map (·.1)).Nodup
  shape : ∀ e ∈ acc, e.2.shape = S e.1 ∧ Good e.2

omit [CommSemiring α] in
theorem AccOK.nil (S : List Nat → List Nat) : AccOK S ([] : List (List Nat × Dense α)) :=
  ⟨List.nodup_nil, fun e he => by simp at he⟩

theorem accStep_ok (S : List Nat → List Nat) (acc : List (List Nat × Dense α)) (e : List Nat × Dense α)
    (h : AccOK S acc) (he : e.2.shape = S e.1 ∧ Good e.2) : AccOK S (accStep acc e) := by
  constructor
  · rw [accStep_keys]
    split
    · exact h.nodup
    · rename_i hm
      exact List.Nodup.append h.nodup (List.nodup_singleton _) (by simpa using hm)
  · intro y hy
    unfold accStep at hy
    split at hy
    · obtain ⟨x, hx, rfl⟩ := List.mem_map.1 hy
      obtain ⟨h1, h2⟩ := h.shape x hx
      by_cases hk : x.1 = e.1
      · simp only [hk, beq_self_eq_true, if_true]
        refine ⟨by rw [add_shape, h1, hk], add_good _ _ h2 he.2 (by rw [h1, he.1, hk])⟩
      · simp only [beq_iff_eq, hk, if_false]
        exact ⟨h1, h2⟩
    · rcases List.mem_append.1 hy with hy | hy
      · exact h.shape y hy
      · simp only [List.mem_singleton] at hy
        subst hy
        exact he

theorem accStep_lsum (S : List Nat → List Nat) (acc : List (List Nat × Dense α)) (e : List Nat × Dense α)
    (h : AccOK S acc) (he : e.2.shape = S e.1 ∧ Good e.2) (row w : List Nat) :
    lsum (accStep acc e) row w = lsum acc row w + (if e.1 = row then e.2.get 0 w else 0) := by
  unfold accStep
  split
  · rename_i hany
    refine upd_lsum e acc h.nodup ?_ ((any_key_iff acc e.1).1 hany) row w
    intro x hx hk
    obtain ⟨h1, h2⟩ := h.shape x hx
    refine ⟨by rw [h1, he.1, hk], ?_⟩
    have := he.2
    unfold Good at h2 this
    rw [h2, this, h1, he.1, hk]
  · rw [lsum_append, lsum_cons, lsum_nil, add_zero]

/-- the whole loop -/
theorem fold_ok (S : List Nat → List Nat) (M acc0 : List (List Nat × Dense α)) (h0 : AccOK S acc0)
    (hM : ∀ e ∈ M, e.2.shape = S e.1 ∧ Good e.2) :
    AccOK S (M.foldl accStep acc0)
    ∧ (∀ row w, lsum (M.foldl accStep acc0) row w = lsum acc0 row w + lsum M row w)
    ∧ (∀ row, row ∈ (M.foldl accStep acc0).map (·.1) ↔ row ∈ acc0.map (·.1) ∨ row ∈ M.map (·.1)) := by
  induction M generalizing acc0 with
  | nil => exact ⟨h0, fun row w => by simp [lsum_nil], fun row => by simp⟩
  | cons e M ih =>
    have he := hM e (by simp)
    obtain ⟨i1, i2, i3⟩ := ih (accStep acc0 e) (accStep_ok S acc0 e h0 he) (fun x hx => hM x (by simp [hx]))
    refine ⟨i1, ?_, ?_⟩
    · intro row w
      rw [List.foldl_cons, i2, accStep_lsum S acc0 e h0 he, lsum_cons, add_assoc]
    · intro row
      rw [List.foldl_cons, i3, accStep_keys]
      simp only [List.map_cons, List.mem_cons]
      split
      · rename_i hm
        constructor
        · rintro (h | h)
          · exact Or.inl h
          · exact Or.inr (Or.inr h)
        · rintro (h | h | h)
          · exact Or.inl h
          · exact Or.inl (h ▸ hm)
          · exact Or.inr h
      · simp only [List.mem_append, List.mem_singleton]
        tauto

end sums
end TenpyModel.C01B2
