import TenpyModel.C01.C_Charge1
import TenpyModel.C01.A_Program2
/-!
C01 part C — closure of the charge rule and of `LegsValid` under part A's operations, file 1:
`conj`, `itranspose` / `transpose`, `iswapaxes`, `add_trivial_leg`, `iscale_axis`.
-/
namespace TenpyModel.C01C
open TenpyModel.Core TenpyModel.C01B TenpyModel.C01B2
open TenpyModel.Core.Arr (permuteList swapList)

variable {α : Type}

/-- the two invariants only depend on `chinfo`, the legs (as `LegCharge`s), the rows and the total charge -/
theorem chargeRule_of_same (a r : Arr α) (h1 : r.mods = a.mods) (h2 : r.lcs = a.lcs) (h3 : r.qdata = a.qdata)
    (h4 : r.qtotal = a.qtotal) (hc : a.ChargeRule) (hv : LegsValid a) : r.ChargeRule ∧ LegsValid r := by
  constructor
  · intro q hq
    rw [h1, h2, h4]
    exact hc q (h3 ▸ hq)
  · intro l hl
    rw [h1]
    exact hv l (h2 ▸ hl)

/-- rows may be dropped -/
theorem chargeRule_of_subset (a r : Arr α) (h1 : r.mods = a.mods) (h2 : r.lcs = a.lcs)
    (h3 : ∀ q ∈ r.qdata, q ∈ a.qdata) (h4 : r.qtotal = a.qtotal) (hc : a.ChargeRule) (hv : LegsValid a) :
    r.ChargeRule ∧ LegsValid r := by
  constructor
  · intro q hq
    rw [h1, h2, h4]
    exact hc q (h3 q hq)
  · intro l hl
    rw [h1]
    exact hv l (h2 ▸ hl)

/-! ### conj -/

theorem conj_getCharge (l : Leg) (q : Nat) : l.conj.getCharge q = cneg (l.getCharge q) := by
  simp [Leg.getCharge, Leg.conj, cneg, cscale]

theorem csum_cneg (n : Nat) (L : List Charge) : csum n (L.map cneg) = cneg (csum n L) := by
  have : (fun c => cneg c) = cscale (-1) := by funext c; exact cneg_eq_cscale c
  rw [show L.map cneg = L.map (cscale (-1)) from by rw [← this], ← cscale_csum, cneg_eq_cscale]

theorem chs_conj (ls : List Leg) (q : List Nat) : chs (ls.map Leg.conj) q = (chs ls q).map cneg := by
  unfold chs
  induction ls generalizing q with
  | nil => simp
  | cons l ls ih =>
    cases q with
    | nil => simp
    | cons x q => simp [ih, conj_getCharge]

/-- **`conj`**: legs conjugated, `qtotal ↦ make_valid(-qtotal)` -/
theorem chargeRule_conj (st : α → α) (a : Arr α) (hc : a.ChargeRule) (hv : LegsValid a) :
    (a.conj st).ChargeRule ∧ LegsValid (a.conj st) := by
  have hl : (a.conj st).lcs = a.lcs.map Leg.conj := Arr.lcs_conj_map a.legs
  constructor
  · intro q hq
    have hq' : q ∈ a.qdata := hq
    rw [hl]
    show blockChargeOf a.mods _ q = makeValid a.mods (cneg a.qtotal)
    rw [← hc q hq']
    unfold blockChargeOf
    rw [show List.zipWith (fun (l : Leg) qi => l.getCharge qi) (a.lcs.map Leg.conj) q = chs (a.lcs.map Leg.conj) q from rfl,
      chs_conj, csum_cneg, makeValid_neg]
    rfl
  · intro l hl'
    rw [hl] at hl'
    obtain ⟨l0, hl0, rfl⟩ := List.mem_map.1 hl'
    exact hv l0 hl0

/-! ### transposition -/

section zero
variable [Zero α]

/-- **`itranspose(axes)`** -/
theorem chargeRule_itranspose (a r : Arr α) (ha : a.WF) (hc : a.ChargeRule) (hv : LegsValid a)
    (axes : Option (List Ax)) (h : a.itranspose axes = .ok r) : r.ChargeRule ∧ LegsValid r := by
  cases axes with
  | none =>
    simp only [Arr.itranspose, Except.ok.injEq] at h
    subst h
    have hp := isPerm_range_reverse a.rank
    exact ⟨chargeRule_itransposeFast a _ (W.of ha) hp hc, legsValid_itransposeFast a _ hp hv⟩
  | some axs =>
    simp only [Arr.itranspose, bind, Except.bind] at h
    cases hax : a.getLegIndices axs with
    | error e => simp [hax] at h
    | ok ax =>
      simp only [hax] at h
      obtain ⟨_, hlt⟩ := Arr.getLegIndices_lt a ha.1 axs ax hax
      split at h
      · simp [throw, throwThe, MonadExceptOf.throw] at h
      · rename_i hchk
        have hchk' : ax.length = a.rank ∧ ax.eraseDups.length = a.rank := by
          constructor
          · exact Classical.byContradiction (fun hh => hchk (Or.inl hh))
          · exact Classical.byContradiction (fun hh => hchk (Or.inr hh))
        have hp : IsPerm ax a.rank := IsPerm.of_checks hchk'.1 hchk'.2 hlt
        split at h
        · simp only [pure, Except.pure, Except.ok.injEq] at h
          subst h
          exact ⟨hc, hv⟩
        · simp only [pure, Except.pure, Except.ok.injEq] at h
          subst h
          exact ⟨chargeRule_itransposeFast a _ (W.of ha) hp hc, legsValid_itransposeFast a _ hp hv⟩

/-- **`transpose(axes)`** -/
theorem chargeRule_transpose (a r : Arr α) (ha : a.WF) (hc : a.ChargeRule) (hv : LegsValid a)
    (axes : Option (List Ax)) (h : a.transpose axes = .ok r) : r.ChargeRule ∧ LegsValid r :=
  chargeRule_itranspose a r ha hc hv axes h

/-- **`iswapaxes(axis1, axis2)`** -/
theorem chargeRule_iswapaxes (a r : Arr α) (ha : a.WF) (hc : a.ChargeRule) (hv : LegsValid a) (x1 x2 : Ax)
    (h : a.iswapaxes x1 x2 = .ok r) : r.ChargeRule ∧ LegsValid r := by
  simp only [Arr.iswapaxes, bind, Except.bind] at h
  cases hi : a.getLegIndex x1 with
  | error e => simp [hi] at h
  | ok i =>
    cases hj : a.getLegIndex x2 with
    | error e => simp [hi, hj] at h
    | ok j =>
      simp only [hi, hj] at h
      have hi' := Arr.getLegIndex_lt a ha.1 x1 i hi
      have hj' := Arr.getLegIndex_lt a ha.1 x2 j hj
      split at h
      · simp only [pure, Except.pure, Except.ok.injEq] at h
        subst h
        exact ⟨hc, hv⟩
      · simp only [pure, Except.pure, Except.ok.injEq] at h
        have hp := Arr.swap_perm a.rank i j hi' hj'
        have hr : r = a.itransposeFast (swapList (List.range a.rank) i j 0) := by
          subst h
          unfold Arr.itransposeFast
          have e1 := Arr.swapList_eq_permuteList a.legs i j default hi' hj'
          have e2 := Arr.swapList_eq_permuteList a.labels i j none (by rw [ha.1]; exact hi') (by rw [ha.1]; exact hj')
          rw [ha.1] at e2
          rw [e1, e2]
          rfl
        rw [hr]
        exact ⟨chargeRule_itransposeFast a _ (W.of ha) hp hc, legsValid_itransposeFast a _ hp hv⟩

end zero

/-! ### add_trivial_leg -/

theorem chs_insertAt (ls : List Leg) (q : List Nat) (pos : Nat) (l : Leg) (x : Nat) (hq : q.length = ls.length) :
    chs (Dense.insertAt ls pos l) (Dense.insertAt q pos x) = Dense.insertAt (chs ls q) pos (l.getCharge x) := by
  unfold chs Dense.insertAt
  rw [List.zipWith_append (by simp [hq]), List.zipWith_cons_cons, List.take_zipWith, List.drop_zipWith]

theorem insertAt_perm {β} (l : List β) (i : Nat) (x : β) : (Dense.insertAt l i x).Perm (x :: l) := by
  unfold Dense.insertAt
  have := List.perm_middle (a := x) (l₁ := l.take i) (l₂ := l.drop i)
  rw [List.take_append_drop] at this
  exact this

/-- **`add_trivial_leg(axis, label, qconj)`** -/
theorem chargeRule_addTrivialLeg (a r : Arr α) (ha : a.WF) (hc : a.ChargeRule) (hv : LegsValid a)
    (axis : Int) (label : Label) (qconj : Int) (h : a.addTrivialLeg axis label qconj = .ok r) :
    r.ChargeRule ∧ LegsValid r := by
  unfold Arr.addTrivialLeg at h
  simp only at h
  split at h
  · cases h
  · simp only [Except.ok.injEq] at h
    subst h
    have hw := W.of ha
    have hlcs : ∀ pos, (Dense.insertAt a.legs pos (ALeg.plain (Leg.fromQflat a.mods [czero a.mods.length] qconj))).map
        ALeg.leg = Dense.insertAt a.lcs pos (Leg.fromQflat a.mods [czero a.mods.length] qconj) := by
      intro pos
      unfold Dense.insertAt Arr.lcs
      rw [List.map_append, List.map_cons, List.map_take, List.map_drop]
      rfl
    have hg : (Leg.fromQflat a.mods [czero a.mods.length] qconj).getCharge 0 = czero a.mods.length := by
      simp [Leg.getCharge, Leg.fromQflat, Leg.fromQind, Leg.mk', cscale, czero]
    constructor
    · intro q hq
      have hq' : q ∈ a.qdata.map (fun r => Dense.insertAt r _ 0) := hq
      obtain ⟨q0, hq0, rfl⟩ := List.mem_map.1 hq'
      show blockChargeOf a.mods (List.map ALeg.leg (Dense.insertAt a.legs _ _)) _ = a.qtotal
      rw [hlcs, ← hc q0 hq0]
      unfold blockChargeOf
      rw [show ∀ (ls : List Leg) (q : List Nat), List.zipWith (fun (l : Leg) qi => l.getCharge qi) ls q = chs ls q
        from fun _ _ => rfl, chs_insertAt _ _ _ _ _ (by rw [hw.rowLen q0 hq0, lcs_length]), hg,
        csum_perm _ _ _ (insertAt_perm _ _ _)]
      have hlen : ∀ c ∈ chs a.lcs q0, c.length = a.mods.length :=
        chs_len _ _ _ (fun l hl => (hv l hl).2) (hw.rowIn' q0 hq0)
      have : czero a.mods.length :: chs a.lcs q0 = [czero a.mods.length] ++ chs a.lcs q0 := rfl
      rw [show List.zipWith (fun (l : Leg) qi => l.getCharge qi) a.lcs q0 = chs a.lcs q0 from rfl, this,
        csum_append _ _ _ (by intro c hc'; simp only [List.mem_singleton] at hc'; rw [hc']; simp [czero]) hlen]
      congr 1
      simp only [csum, List.foldl_cons, List.foldl_nil]
      rw [cadd_czero]
      exact czero_cadd_left _ _ (csum_length _ _ hlen)
    · intro l hl
      have hl' : l ∈ (Dense.insertAt a.legs _ (ALeg.plain (Leg.fromQflat a.mods [czero a.mods.length] qconj))).map
          ALeg.leg := hl
      rw [hlcs] at hl'
      have := (insertAt_perm _ _ _).mem_iff.1 hl'
      rcases List.mem_cons.1 this with rfl | hm
      · refine ⟨rfl, ?_⟩
        intro c hc'
        have : c ∈ [czero a.mods.length] := hc'
        simp only [List.mem_singleton] at this
        rw [this]; simp [czero]
      · exact hv l hm

/-! ### iscale_axis -/

/-- **`iscale_axis(s, axis)`**: only the blocks change -/
theorem chargeRule_iscaleAxis [Mul α] [Zero α] (a r : Arr α) (hc : a.ChargeRule) (hv : LegsValid a)
    (s : List α) (axis : Ax) (h : a.iscaleAxis s axis = .ok r) : r.ChargeRule ∧ LegsValid r := by
  unfold Arr.iscaleAxis at h
  obtain ⟨k, _, h⟩ := bind_ok h
  simp only [bind, Except.bind, pure, Except.pure] at h
  split at h
  · simp [throw, throwThe, MonadExceptOf.throw] at h
  · simp only [Except.ok.injEq] at h
    subst h
    exact chargeRule_of_same a _ rfl rfl rfl rfl hc hv

end TenpyModel.C01C
