import TenpyModel.C01.A_Merge3
/-!
C01 — the merge loop of `ibinary_blockwise`, part 4: `mergeBlocks` on two well-formed, lexsorted tensors over
legs with equal slices computes the entry-wise `f` (`toDense_mergeBlocks`, the statement `C01_toDense_add` of the
header of PropsMerge.lean with the legs related through their slices only), and the result is well formed and
lexsorted again (`WF_mergeBlocks`, `isLexsorted_mergeBlocks`).
-/
namespace TenpyModel.Core.Arr
variable {α : Type}

/-- rows in range of `bn`, pairwise distinct, lexsorted -/
def Keyed (bn : List Nat) (qs : List (List Nat)) : Prop :=
  (∀ r ∈ qs, InRange r bn) ∧ qs.Nodup ∧ isLexsorted qs = true

/-- the general branch of `mergeBlocks`, as a list of (row, block) pairs -/
def mg [Zero α] (f : α → α → α) (bn : List Nat) (aq : List (List Nat)) (ad : List (Blk α))
    (bq : List (List Nat)) (bd : List (Blk α)) : List (List Nat × Blk α) :=
  mergeGo f ((aq.zip ad).map (toK (fKey bn))) ((bq.zip bd).map (toK (fKey bn)))

theorem mergeBlocks_general [Zero α] (f : α → α → α) (bn : List Nat) (aq : List (List Nat)) (ad : List (Blk α))
    (bq : List (List Nat)) (bd : List (Blk α)) (h : aq ≠ bq) :
    mergeBlocks f bn aq ad bq bd
      = ((mg f bn aq ad bq bd).map (fun x => x.1), (mg f bn aq ad bq bd).map (fun x => x.2)) := by
  unfold mergeBlocks
  rw [if_neg h]
  rfl

theorem keyed_ok (bn : List Nat) (qs : List (List Nat)) (ds : List (Blk α)) (h : ∀ r ∈ qs, InRange r bn) :
    ∀ x ∈ (qs.zip ds).map (toK (fKey bn)), InRange x.2.1 bn ∧ x.1 = fKey bn x.2.1 := by
  intro x hx
  obtain ⟨rb, hrb, rfl⟩ := List.mem_map.1 hx
  obtain ⟨r, d⟩ := rb
  exact ⟨h r (List.of_mem_zip hrb).1, rfl⟩

theorem keyed_sorted (bn : List Nat) (qs : List (List Nat)) (ds : List (Blk α)) (h : Keyed bn qs) :
    ((qs.zip ds).map (toK (fKey bn))).Pairwise (fun x y => x.1 < y.1) :=
  pairwise_keyed (fKey bn) qs ds (keys_sorted bn qs h.1 h.2.1 h.2.2)

theorem mg_sorted [Zero α] (f : α → α → α) (bn : List Nat) (aq : List (List Nat)) (ad : List (Blk α))
    (bq : List (List Nat)) (bd : List (Blk α)) (hA : Keyed bn aq) (hB : Keyed bn bq) :
    (mg f bn aq ad bq bd).Pairwise (fun o o' => fKey bn o.1 < fKey bn o'.1) :=
  mergeGo_sorted f (fKey bn) _ _ (fun x hx => (keyed_ok bn aq ad hA.1 x hx).2)
    (fun y hy => (keyed_ok bn bq bd hB.1 y hy).2) (keyed_sorted bn aq ad hA) (keyed_sorted bn bq bd hB)

theorem mg_find [Zero α] (f : α → α → α) (bn : List Nat) (aq : List (List Nat)) (ad : List (Blk α))
    (bq : List (List Nat)) (bd : List (Blk α)) (hA : Keyed bn aq) (hB : Keyed bn bq) (q : List Nat) :
    (mg f bn aq ad bq bd).find? (fun o => o.1 == q)
      = mcomb f q (((aq.zip ad).find? (fun rb => rb.1 == q)).map (toK (fKey bn)))
          (((bq.zip bd).find? (fun rb => rb.1 == q)).map (toK (fKey bn))) := by
  unfold mg
  rw [mergeGo_find f (fKey bn) (fun r => InRange r bn) (fun r s hr hs e => fKey_inj bn r s hr hs e) q _ _
    (keyed_ok bn aq ad hA.1) (keyed_ok bn bq bd hB.1) (keyed_sorted bn aq ad hA) (keyed_sorted bn bq bd hB)]
  rw [List.find?_map, List.find?_map]
  rfl

theorem mg_mem_blk [Zero α] (f : α → α → α) (bn : List Nat) (aq : List (List Nat)) (ad : List (Blk α))
    (bq : List (List Nat)) (bd : List (Blk α)) (hA : ∀ r ∈ aq, InRange r bn) (hB : ∀ r ∈ bq, InRange r bn)
    (o : List Nat × Blk α) (ho : o ∈ mg f bn aq ad bq bd) :
    (∃ x, (o.1, x) ∈ aq.zip ad ∧ o.2 = x.map (fun v => f v 0))
    ∨ (∃ y, (o.1, y) ∈ bq.zip bd ∧ o.2 = y.map (f 0))
    ∨ (∃ x y, (o.1, x) ∈ aq.zip ad ∧ (o.1, y) ∈ bq.zip bd ∧ o.2 = Dense.zipWith f x y) := by
  rcases mergeGo_mem f _ _ o ho with ⟨x, hx, e⟩ | ⟨y, hy, e⟩ | ⟨x, hx, y, hy, hk, e⟩
  · obtain ⟨rb, hrb, rfl⟩ := List.mem_map.1 hx
    obtain ⟨r, d⟩ := rb
    subst e
    exact Or.inl ⟨d, hrb, rfl⟩
  · obtain ⟨rb, hrb, rfl⟩ := List.mem_map.1 hy
    obtain ⟨r, d⟩ := rb
    subst e
    exact Or.inr (Or.inl ⟨d, hrb, rfl⟩)
  · obtain ⟨rb, hrb, rfl⟩ := List.mem_map.1 hx
    obtain ⟨rb', hrb', rfl⟩ := List.mem_map.1 hy
    obtain ⟨r, d⟩ := rb
    obtain ⟨r', d'⟩ := rb'
    subst e
    have hrr : r = r' := fKey_inj bn r r' (hA r (List.of_mem_zip hrb).1) (hB r' (List.of_mem_zip hrb').1) hk
    subst hrr
    exact Or.inr (Or.inr ⟨d, d', hrb, hrb', rfl⟩)

theorem mg_mem_row [Zero α] (f : α → α → α) (bn : List Nat) (aq : List (List Nat)) (ad : List (Blk α))
    (bq : List (List Nat)) (bd : List (Blk α)) (o : List Nat × Blk α) (ho : o ∈ mg f bn aq ad bq bd) :
    o.1 ∈ aq ∨ o.1 ∈ bq := by
  rcases mergeGo_mem_row f _ _ o ho with ⟨x, hx, e⟩ | ⟨y, hy, e⟩
  · obtain ⟨rb, hrb, rfl⟩ := List.mem_map.1 hx
    obtain ⟨r, d⟩ := rb
    rw [e]
    exact Or.inl (List.of_mem_zip hrb).1
  · obtain ⟨rb, hrb, rfl⟩ := List.mem_map.1 hy
    obtain ⟨r, d⟩ := rb
    rw [e]
    exact Or.inr (List.of_mem_zip hrb).1

/-! ### tensors over the same legs -/

/-- the facts about two well-formed lexsorted tensors over the same legs used below -/
theorem sameLegs_facts (a b : Arr α) (ha : a.WF) (hb : b.WF) (hl : a.legs = b.legs)
    (hsa : isLexsorted a.qdata = true) (hsb : isLexsorted b.qdata = true) :
    Keyed a.blockNumbers a.qdata ∧ Keyed a.blockNumbers b.qdata
    ∧ (∀ r ∈ b.qdata, r.length = a.rank ∧ ∀ k, k < a.rank → r.getD k 0 < (a.lc k).blockNumber)
    ∧ (∀ rb ∈ b.qdata.zip b.data, rb.2.shape = blockShapeOf a.lcs rb.1 ∧ rb.2.vals.length = Dense.prod rb.2.shape) := by
  have hrowB : ∀ r ∈ b.qdata, r.length = a.rank ∧ ∀ k, k < a.rank → r.getD k 0 < (a.lc k).blockNumber := by
    have := hb.2.2.2.2.1
    unfold Arr.rank Arr.lc at this ⊢
    rw [hl]
    exact this
  have hblkB : ∀ rb ∈ b.qdata.zip b.data,
      rb.2.shape = blockShapeOf a.lcs rb.1 ∧ rb.2.vals.length = Dense.prod rb.2.shape := by
    have := hb.2.2.2.2.2.1
    unfold Arr.lcs at this ⊢
    rw [hl]
    exact this
  exact ⟨⟨fun r hr => inRange_of_rowOK a r (ha.2.2.2.2.1 r hr), ha.2.2.1, hsa⟩,
    ⟨fun r hr => inRange_of_rowOK a r (hrowB r hr), hb.2.2.1, hsb⟩, hrowB, hblkB⟩

/-- entries of the merged tensor (general branch) -/
theorem entry_mg [Zero α] (f : α → α → α) (hf : f 0 0 = 0) (a b : Arr α) (ha : a.WF) (hb : b.WF)
    (hl : a.legs = b.legs) (hsa : isLexsorted a.qdata = true) (hsb : isLexsorted b.qdata = true)
    (idx : List Nat) :
    ({ a with qdata := (mg f a.blockNumbers a.qdata a.data b.qdata b.data).map (fun x => x.1),
              data := (mg f a.blockNumbers a.qdata a.data b.qdata b.data).map (fun x => x.2) } : Arr α).entry idx
      = f (a.entry idx) (b.entry idx) := by
  obtain ⟨hKA, hKB, _, hblkB⟩ := sameLegs_facts a b ha hb hl hsa hsb
  have hblkA := ha.2.2.2.2.2.1
  have hbl : b.lcs = a.lcs := by unfold Arr.lcs; rw [hl]
  have eA := entry_eq_find a ha.2.1 ha.2.2.1 idx
  have eB := entry_eq_find b hb.2.1 hb.2.2.1 idx
  rw [hbl] at eB
  have hnd := nodup_of_keys (fKey a.blockNumbers) _ (mg_sorted f a.blockNumbers a.qdata a.data b.qdata b.data hKA hKB)
  show getBlk ((((mg f a.blockNumbers a.qdata a.data b.qdata b.data).map (fun x => x.1)).zip
      ((mg f a.blockNumbers a.qdata a.data b.qdata b.data).map (fun x => x.2))).reverse.find?
        (fun rb => rb.1 == qOf a.lcs idx)) (wOf a.lcs idx) = _
  rw [zip_map_fst_snd, find?_reverse_of_nodup _ hnd, eA, eB,
    mg_find f a.blockNumbers a.qdata a.data b.qdata b.data hKA hKB]
  refine getBlk_mcomb f hf (fKey a.blockNumbers) _ _ _ _ (fun x y hx hy => ?_)
  have mx := List.mem_of_find?_eq_some hx
  have my := List.mem_of_find?_eq_some hy
  have px := List.find?_some hx
  have py := List.find?_some hy
  have ex : x.1 = qOf a.lcs idx := eq_of_beq px
  have ey : y.1 = qOf a.lcs idx := eq_of_beq py
  obtain ⟨s1, s2⟩ := hblkA x mx
  obtain ⟨t1, t2⟩ := hblkB y my
  exact ⟨by rw [s1, t1, ex, ey], by rw [s2, t2, s1, t1, ex, ey]⟩

/-- the merged tensor (general branch) is well formed and lexsorted -/
theorem WF_mg [Zero α] (f : α → α → α) (a b : Arr α) (ha : a.WF) (hb : b.WF)
    (hl : a.legs = b.legs) (hsa : isLexsorted a.qdata = true) (hsb : isLexsorted b.qdata = true) (s : Bool) :
    ({ a with qdata := (mg f a.blockNumbers a.qdata a.data b.qdata b.data).map (fun x => x.1),
              data := (mg f a.blockNumbers a.qdata a.data b.qdata b.data).map (fun x => x.2),
              qdataSorted := s } : Arr α).WF := by
  obtain ⟨hKA, hKB, hrowB, hblkB⟩ := sameLegs_facts a b ha hb hl hsa hsb
  have hrowA := ha.2.2.2.2.1
  have hblkA := ha.2.2.2.2.2.1
  have hsorted := mg_sorted f a.blockNumbers a.qdata a.data b.qdata b.data hKA hKB
  have hin : ∀ r ∈ (mg f a.blockNumbers a.qdata a.data b.qdata b.data).map (fun x => x.1),
      InRange r a.blockNumbers := by
    intro r hr
    obtain ⟨o, ho, rfl⟩ := List.mem_map.1 hr
    rcases mg_mem_row f _ _ _ _ _ o ho with h | h
    · exact hKA.1 _ h
    · exact hKB.1 _ h
  refine ⟨ha.1, ?_, nodup_of_keys (fKey a.blockNumbers) _ hsorted, ha.2.2.2.1, ?_, ?_, fun _ => ?_⟩
  · show ((mg f a.blockNumbers a.qdata a.data b.qdata b.data).map (fun x => x.1)).length
      = ((mg f a.blockNumbers a.qdata a.data b.qdata b.data).map (fun x => x.2)).length
    rw [List.length_map, List.length_map]
  · intro r hr
    obtain ⟨o, ho, rfl⟩ := List.mem_map.1 hr
    rcases mg_mem_row f _ _ _ _ _ o ho with h | h
    · exact hrowA _ h
    · exact hrowB _ h
  · intro rb hrb
    have hrb' : rb ∈ mg f a.blockNumbers a.qdata a.data b.qdata b.data :=
      Eq.mp (congrArg (fun X => rb ∈ X) (zip_map_fst_snd _)) hrb
    obtain ⟨r, blk⟩ := rb
    rcases mg_mem_blk f _ _ _ _ _ hKA.1 hKB.1 _ hrb' with ⟨x, hx, e⟩ | ⟨y, hy, e⟩ | ⟨x, y, hx, hy, e⟩
    · simp only at e hx
      rw [e]
      exact Dense.map_blockOK _ x _ (hblkA _ hx)
    · simp only at e hy
      rw [e]
      exact Dense.map_blockOK _ y _ (hblkB _ hy)
    · simp only at e hx hy
      rw [e]
      exact Dense.zipWith_blockOK f x y _ (hblkA _ hx) (hblkB _ hy)
  · refine isLexsorted_of_keys a.blockNumbers _ hin ?_
    rw [List.pairwise_map, List.pairwise_map]
    exact hsorted

/-- the merged tensor (branch of identical rows) is well formed and lexsorted -/
theorem WF_sameRows [Zero α] (f : α → α → α) (a b : Arr α) (ha : a.WF) (hb : b.WF)
    (hl : a.legs = b.legs) (hq : a.qdata = b.qdata) (hsa : isLexsorted a.qdata = true) (s : Bool) :
    ({ a with qdata := a.qdata, data := List.zipWith (Dense.zipWith f) a.data b.data,
              qdataSorted := s } : Arr α).WF := by
  have hblkA := ha.2.2.2.2.2.1
  have hblkB : ∀ rb ∈ b.qdata.zip b.data,
      rb.2.shape = blockShapeOf a.lcs rb.1 ∧ rb.2.vals.length = Dense.prod rb.2.shape := by
    have := hb.2.2.2.2.2.1
    unfold Arr.lcs at this ⊢
    rw [hl]
    exact this
  refine ⟨ha.1, ?_, ha.2.2.1, ha.2.2.2.1, ha.2.2.2.2.1, ?_, fun _ => hsa⟩
  · show a.qdata.length = (List.zipWith (Dense.zipWith f) a.data b.data).length
    rw [List.length_zipWith, ← ha.2.1, ← hb.2.1, hq]
    exact (Nat.min_self _).symm
  · intro rb hrb
    have hrb' : rb ∈ (a.qdata.zip (a.data.zip b.data)).map (fun t => (t.1, Dense.zipWith f t.2.1 t.2.2)) := by
      rw [← zip3_both]
      exact hrb
    obtain ⟨t, ht, rfl⟩ := List.mem_map.1 hrb'
    obtain ⟨h1, h2⟩ := mem_zip3 _ _ _ t ht
    rw [hq] at h2
    exact Dense.zipWith_blockOK f t.2.1 t.2.2 _ (hblkA _ h1) (hblkB _ h2)

theorem toDense_mergeBlocks_sameLegs [Zero α] (f : α → α → α) (hf : f 0 0 = 0) (a b : Arr α) (ha : a.WF)
    (hb : b.WF) (hl : a.legs = b.legs) (hsa : isLexsorted a.qdata = true) (hsb : isLexsorted b.qdata = true) :
    ({ a with qdata := (mergeBlocks f a.blockNumbers a.qdata a.data b.qdata b.data).1,
              data := (mergeBlocks f a.blockNumbers a.qdata a.data b.qdata b.data).2 } : Arr α).toDense
      = Dense.zipWith f a.toDense b.toDense := by
  by_cases hq : a.qdata = b.qdata
  · exact C01_toDense_add_partial f hf a b ha hb hl hq
  · rw [mergeBlocks_general f _ _ _ _ _ hq]
    have hshape : b.shape = a.shape := by simp [Arr.shape, Arr.lcs, hl]
    unfold Arr.toDense
    rw [hshape, Dense.zipWith_ofFn]
    exact Dense.ofFn_congr _ _ _ (fun idx => entry_mg f hf a b ha hb hl hsa hsb idx)

theorem WF_mergeBlocks_sameLegs [Zero α] (f : α → α → α) (a b : Arr α) (ha : a.WF)
    (hb : b.WF) (hl : a.legs = b.legs) (hsa : isLexsorted a.qdata = true) (hsb : isLexsorted b.qdata = true)
    (s : Bool) :
    ({ a with qdata := (mergeBlocks f a.blockNumbers a.qdata a.data b.qdata b.data).1,
              data := (mergeBlocks f a.blockNumbers a.qdata a.data b.qdata b.data).2,
              qdataSorted := s } : Arr α).WF := by
  by_cases hq : a.qdata = b.qdata
  · have hm : mergeBlocks f a.blockNumbers a.qdata a.data b.qdata b.data
        = (a.qdata, List.zipWith (Dense.zipWith f) a.data b.data) := by
      unfold mergeBlocks
      rw [if_pos hq]
    rw [hm]
    exact WF_sameRows f a b ha hb hl hq hsa s
  · rw [mergeBlocks_general f _ _ _ _ _ hq]
    exact WF_mg f a b ha hb hl hsa hsb s

/-! ### legs with equal slices (what `LegCharge.test_equal` guarantees) -/

/-- **The merge loop of `ibinary_blockwise`.** For two well-formed tensors over legs with the same slices whose
block lists are lexsorted, the `while i < Na or j < Nb` loop over the F-stride keys (and the shortcut for
identical rows) computes the entry-wise `f`, for every `f` with `f 0 0 = 0`. -/
theorem toDense_mergeBlocks [Zero α] (f : α → α → α) (hf : f 0 0 = 0) (a b : Arr α) (ha : a.WF) (hb : b.WF)
    (hs : a.lcs.map Leg.slices = b.lcs.map Leg.slices)
    (hsa : isLexsorted a.qdata = true) (hsb : isLexsorted b.qdata = true) :
    ({ a with qdata := (mergeBlocks f a.blockNumbers a.qdata a.data b.qdata b.data).1,
              data := (mergeBlocks f a.blockNumbers a.qdata a.data b.qdata b.data).2 } : Arr α).toDense
      = Dense.zipWith f a.toDense b.toDense := by
  have hb' := WF_withLegs a b ha hb hs
  have h1 := toDense_mergeBlocks_sameLegs f hf a { b with legs := a.legs } ha hb' rfl hsa hsb
  have h2 : ({ b with legs := a.legs } : Arr α).toDense = b.toDense :=
    toDense_congr_slices _ b rfl rfl hs
  rw [h2] at h1
  exact h1

/-- the merged tensor is well formed again, and its block list is lexsorted (so any cached claim is truthful) -/
theorem WF_mergeBlocks [Zero α] (f : α → α → α) (a b : Arr α) (ha : a.WF) (hb : b.WF)
    (hs : a.lcs.map Leg.slices = b.lcs.map Leg.slices)
    (hsa : isLexsorted a.qdata = true) (hsb : isLexsorted b.qdata = true) (s : Bool) :
    ({ a with qdata := (mergeBlocks f a.blockNumbers a.qdata a.data b.qdata b.data).1,
              data := (mergeBlocks f a.blockNumbers a.qdata a.data b.qdata b.data).2,
              qdataSorted := s } : Arr α).WF :=
  WF_mergeBlocks_sameLegs f a { b with legs := a.legs } ha (WF_withLegs a b ha hb hs) rfl hsa hsb s

theorem isLexsorted_mergeBlocks [Zero α] (f : α → α → α) (a b : Arr α) (ha : a.WF) (hb : b.WF)
    (hs : a.lcs.map Leg.slices = b.lcs.map Leg.slices)
    (hsa : isLexsorted a.qdata = true) (hsb : isLexsorted b.qdata = true) :
    isLexsorted (mergeBlocks f a.blockNumbers a.qdata a.data b.qdata b.data).1 = true :=
  (WF_mergeBlocks f a b ha hb hs hsa hsb true).2.2.2.2.2.2 rfl

end TenpyModel.Core.Arr
