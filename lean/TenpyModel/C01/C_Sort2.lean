import TenpyModel.C01.C_Sort1
/-!
C01 part C — `sort_legcharge`, part 2: the one-leg pipe `LegPipe([leg], qconj, sort, bunch)`. The flat permutation
`sort_legcharge` reports for it (`pipePerm`: `arange` if `pipe._perm is None`, else
`leg.perm_flat_from_perm_qind(inverse_permutation(pipe._perm))`) is a permutation of the flat indices and is the
inverse of `pipe.map_incoming_flat` (`onePipe_inv`).
-/
namespace TenpyModel.C01C.SortLc
open TenpyModel.Core TenpyModel.Core.Pipe

/-- the permutation `sort_legcharge` reports for the leg `l` wrapped into the pipe `p` -/
def pipePerm (l : Leg) (p : Pipe) : List Nat :=
  match p.perm with
  | none => List.range l.indLen
  | some pm => l.permFlatFromPermQind (inversePerm pm)

theorem gSubq_one (l : Leg) : gSubq [l] = [l.blockNumber] := rfl

theorem gGrid_one_length (l : Leg) : (gGrid [l]).length = l.blockNumber := by
  rw [gGrid_length, gSubq_one]; simp

theorem gGrid_one_getD (l : Leg) (m : Nat) (hm : m < l.blockNumber) : (gGrid [l]).getD m [] = [m] := by
  have h : InRange [m] (gSubq [l]) := ⟨hm, trivial⟩
  have := gridC_getD [m] (gSubq [l]) h
  have e : dot [m] (makeStrideC (gSubq [l])) = m := by simp [gSubq_one, makeStrideC, dot]
  rw [e] at this
  exact this

theorem blockSizeOf_one (l : Leg) (m : Nat) : blockSizeOf [l] [m] = l.blockSizes.getD m 0 := by
  simp [blockSizeOf]

theorem gPermQ_one_perm (l : Leg) (qconj : Int) (sort : Bool) :
    (gPermQ [l] qconj sort).Perm (List.range l.blockNumber) := by
  have := gPermQ_perm [l] qconj sort
  rwa [gGrid_one_length] at this

theorem gPermQ_one_lt (l : Leg) (qconj : Int) (sort : Bool) : ∀ q ∈ gPermQ [l] qconj sort, q < l.blockNumber := by
  intro q hq
  simpa using (gPermQ_one_perm l qconj sort).mem_iff.1 hq

theorem gSizes1_one (l : Leg) (qconj : Int) (sort : Bool) :
    gSizes1 [l] qconj sort = (gPermQ [l] qconj sort).map (fun q => l.blockSizes.getD q 0) := by
  apply ext_getD _ _ 0 (by rw [gSizes1_length, List.length_map, gPermQ_length])
  intro j hj
  rw [gSizes1_length] at hj
  have hq := gPermQ_lt [l] qconj sort j hj
  rw [gGrid_one_length] at hq
  rw [gSizes1_getD [l] qconj sort j hj, gGrid1_getD [l] qconj sort j hj, gGrid_one_getD l _ hq, blockSizeOf_one,
    getD_map' _ _ j 0 0 (by rw [gPermQ_length]; exact hj)]

/-- in the general branch the reported permutation is `perm_flat_from_perm_qind(perm_qind)` -/
theorem pipePerm_general (l : Leg) (h : l.Shape) (qconj : Int) (sort bunch : Bool)
    (hs : (gSubq [l]).all (· == 1) = false) :
    pipePerm l (init [l] qconj sort bunch) = l.permFlatFromPermQind (gPermQ [l] qconj sort) := by
  have hperm : (init [l] qconj sort bunch).perm = gPerm [l] qconj sort := by
    cases bunch
    · rw [init_nobunch [l] qconj sort hs]
    · rw [init_bunch [l] qconj sort hs]
  unfold pipePerm
  rw [hperm]
  unfold gPerm
  by_cases hd : gDoSort [l] sort = true
  · rw [if_pos hd]
    simp only
    rw [inversePerm_invol _ (by rw [gPermQ_length]; exact gPermQ_perm [l] qconj sort)]
  · rw [if_neg hd]
    simp only
    have : gPermQ [l] qconj sort = List.range l.blockNumber := by
      unfold gPermQ; rw [if_neg hd, gGrid_one_length]
    rw [this, Leg.permFlat_range h]

theorem single_blockNumber (l : Leg) (hs : (gSubq [l]).all (· == 1) = true) : l.blockNumber = 1 :=
  single_ones [l] hs _ (by simp [gSubq_one])

theorem pipePerm_single (l : Leg) (qconj : Int) (sort bunch : Bool) (hs : (gSubq [l]).all (· == 1) = true) :
    pipePerm l (init [l] qconj sort bunch) = List.range l.indLen := by
  unfold pipePerm
  rw [init_single [l] qconj sort bunch hs]

/-- the reported permutation is a permutation of the flat indices of the leg -/
theorem pipePerm_perm (l : Leg) (h : l.Shape) (qconj : Int) (sort bunch : Bool) :
    (pipePerm l (init [l] qconj sort bunch)).Perm (List.range l.indLen) := by
  by_cases hs : (gSubq [l]).all (· == 1) = true
  · rw [pipePerm_single l qconj sort bunch hs]
  · have hs' : (gSubq [l]).all (· == 1) = false := by simpa using hs
    rw [pipePerm_general l h qconj sort bunch hs']
    exact Leg.permFlat_perm h _ (gPermQ_one_perm l qconj sort)

theorem qwOf_one (l : Leg) (i : Nat) : qwOf [l] [i] = [l.locateQ i] := rfl

theorem within_one (l : Leg) (i : Nat) :
    dot ((qwOf [l] [i]).map (·.2)) (makeStrideC (sizesOf [l] ((qwOf [l] [i]).map (·.1)))) = (l.locateQ i).2 := by
  simp [qwOf_one, sizesOf, makeStrideC, dot]

/-- **the reported permutation inverts `map_incoming_flat`** of the one-leg pipe -/
theorem onePipe_inv (l : Leg) (h : l.Shape) (qconj : Int) (sort bunch : Bool) (i : Nat) (hi : i < l.indLen) :
    ∃ f, (init [l] qconj sort bunch).mapIncomingFlat [(i : Int)] = some f ∧ f < l.indLen
      ∧ (pipePerm l (init [l] qconj sort bunch)).getD f 0 = i := by
  have hsh : ∀ m ∈ [l], m.Shape := by intro m hm; rw [List.mem_singleton.1 hm]; exact h
  have hx : InRange [i] ([l].map Leg.indLen) := ⟨hi, trivial⟩
  have hl := init_legs [l] qconj sort bunch
  obtain ⟨q1, q2, q3, q4⟩ := l.locateQ_spec h i hi
  obtain ⟨f, hf, hflt, _⟩ := mapIncomingFlat_spec [l] qconj sort bunch hsh [i] hx
  have hind : (init [l] qconj sort bunch).leg.indLen = l.indLen := by
    rw [indLen_prod [l] qconj sort bunch hsh]; simp
  have hw : (l.locateQ i).2 < l.blockSizes.getD (l.locateQ i).1 0 := by
    have := h.slices_succ _ q1
    omega
  refine ⟨f, hf, by rw [← hind]; exact hflt, ?_⟩
  by_cases hs : (gSubq [l]).all (· == 1) = true
  · have L := located_single [l] qconj sort bunch hs hsh
    obtain ⟨e, _⟩ := flat_decomp L hl hsh [i] hx
    rw [hf, within_one] at e
    have hJ := (L.loc ((qwOf [l] [i]).map (·.1)) ⟨q1, trivial⟩).1
    simp only [List.length_singleton, Nat.lt_one_iff] at hJ
    rw [hJ, psum_zero, Nat.zero_add] at e
    have hb := single_blockNumber l hs
    have hq0 : (l.locateQ i).1 = 0 := by omega
    rw [hq0, h.slices_zero] at q4
    rw [pipePerm_single l qconj sort bunch hs, Option.some.inj e, getD_range _ _ (by omega)]
    omega
  · have hs' : (gSubq [l]).all (· == 1) = false := by simpa using hs
    have hJ : (init [l] qconj sort bunch).mapIncomingQind ((qwOf [l] [i]).map (·.1))
        = gJ [l] qconj sort [(l.locateQ i).1] := by
      cases bunch
      · rw [init_nobunch [l] qconj sort hs']; rfl
      · rw [init_bunch [l] qconj sort hs']; rfl
    obtain ⟨j1, j2⟩ := gJ_spec [l] qconj sort [(l.locateQ i).1] ⟨q1, trivial⟩
    have e2 : dot [(l.locateQ i).1] (makeStrideC (gSubq [l])) = (l.locateQ i).1 := by
      simp [gSubq_one, makeStrideC, dot]
    rw [e2] at j2
    have e : (init [l] qconj sort bunch).mapIncomingFlat ([i].map Int.ofNat)
        = some (psum (gSizes1 [l] qconj sort) (gJ [l] qconj sort [(l.locateQ i).1]) + (l.locateQ i).2) := by
      cases bunch
      · have L := located_nobunch [l] qconj sort hs'
        have := (flat_decomp L hl hsh [i] hx).1
        rw [within_one, hJ] at this
        exact this
      · have L := located_bunch [l] qconj sort hs'
        have := (flat_decomp L hl hsh [i] hx).1
        rw [within_one, hJ] at this
        exact this
    rw [hf] at e
    rw [pipePerm_general l h qconj sort bunch hs', Option.some.inj e, gSizes1_one,
      permFlat_getD h _ (gPermQ_one_lt l qconj sort) _ _ (by rw [gPermQ_length]; exact j1) (by rw [j2]; exact hw), j2]
    exact q4

end TenpyModel.C01C.SortLc
