import TenpyModel.C01.B2_Dot6
import TenpyModel.C01.PropsLabels
/-!
C01 part B2 — a tensor whose block list is the output of `_tensordot_worker` has the entries of `np.tensordot` of the
dense forms and is well-formed (rows in range, duplicate-free and truthfully lexsorted; blocks of the right shape).
-/
namespace TenpyModel.C01B2
open TenpyModel.Core TenpyModel.C01B

variable {α : Type}

/-- `Arr.WF` from its parts in the form used by the part-B lemmas -/
theorem WF_of_parts (r : Arr α) (h1 : r.labels.length = r.rank) (h2 : r.qdata.length = r.data.length)
    (h3 : r.qdata.Nodup) (h4 : ∀ l ∈ r.lcs, l.Shape) (h5 : ∀ q ∈ r.qdata, InRange q (r.lcs.map Leg.blockNumber))
    (h6 : ∀ rb ∈ r.qdata.zip r.data, rb.2.shape = blockShapeOf r.lcs rb.1 ∧ Good rb.2)
    (h7 : r.qdataSorted = true → isLexsorted r.qdata = true) : r.WF := by
  refine ⟨h1, h2, h3, fun l hl => ⟨(h4 l hl).len, (h4 l hl).head, (h4 l hl).mono⟩, fun q hq => ?_, fun rb hrb => ?_, h7⟩
  · have hin := h5 q hq
    have hl : q.length = r.rank := by rw [hin.length_eq, List.length_map, lcs_length]
    refine ⟨hl, fun k hk => ?_⟩
    have := hin.getD_lt k (by rw [hl]; exact hk)
    rw [lc_blockNumber r k hk]
    exact this
  · obtain ⟨s1, s2⟩ := h6 rb hrb
    refine ⟨s1, ?_⟩
    rw [prod_eq]; exact s2

theorem zip_map_fst_snd {β γ} (L : List (β × γ)) : (L.map (·.1)).zip (L.map (·.2)) = L := by
  rw [zip_map_same]
  simp

theorem isLexsorted_of_pairwise (rows : List (List Nat))
    (h : rows.Pairwise (fun x y => lexLE (x.map Int.ofNat) (y.map Int.ofNat) = true)) : isLexsorted rows = true := by
  unfold isLexsorted lexsortNat
  have : (natRows rows).Pairwise (fun a b => lexLE a b = true) := by
    unfold natRows
    rw [List.pairwise_map]
    exact h
  rw [lexsort_of_sorted _ this, natRows_length]
  simp

section worker
variable [CommSemiring α]
set_option linter.unusedSectionVars false

variable {a b : Arr α} {k : Nat} {aT bT : List (List Nat × Nat × Blk α)}

theorem lcs_of_legs (r : Arr α) (n : Nat) (hlegs : r.legs = a.legs.take n ++ b.legs.drop k) :
    r.lcs = a.lcs.take n ++ b.lcs.drop k := by
  simp [Arr.lcs, hlegs, List.map_take, List.map_drop]

/-- the rows of the output as a key-functional list -/
theorem Ctx.out_rows_nodup (c : Ctx a b k aT bT) :
    ((outOf a b k (Arr.groupKeep aT) (Arr.groupKeep bT)).map (·.1)).Nodup := by
  rw [List.nodup_iff_pairwise_ne, List.pairwise_map]
  exact c.out_sorted.imp (fun h => h.2)

/-- entries of a tensor carrying the worker's output -/
theorem Ctx.entry (c : Ctx a b k aT bT)
    (hok : ∀ qa ∈ a.qdata, ∀ qb ∈ b.qdata, qa.drop (a.rank - k) = qb.take k →
      okPair a b k (qa.take (a.rank - k)) (qb.drop k) = true)
    (r : Arr α) (hlegs : r.legs = a.legs.take (a.rank - k) ++ b.legs.drop k)
    (hq : r.qdata = (outOf a b k (Arr.groupKeep aT) (Arr.groupKeep bT)).map (·.1))
    (hd : r.data = (outOf a b k (Arr.groupKeep aT) (Arr.groupKeep bT)).map (·.2))
    (i j : List Nat) (hi : InRange i ((a.lcs.take (a.rank - k)).map Leg.indLen))
    (hj : InRange j ((b.lcs.drop k).map Leg.indLen)) :
    r.entry (i ++ j) = (Dense.tensordot a.toDense b.toDense k).get 0 (i ++ j) := by
  have hlcs := lcs_of_legs r (a.rank - k) hlegs
  have hzip : r.qdata.zip r.data = outOf a b k (Arr.groupKeep aT) (Arr.groupKeep bT) := by
    rw [hq, hd, zip_map_fst_snd]
  have hk : ∀ x ∈ r.qdata.zip r.data, ∀ y ∈ r.qdata.zip r.data, x.1 = y.1 → x = y := by
    rw [hzip]
    intro x hx y hy e
    exact List.inj_on_of_nodup_map c.out_rows_nodup hx hy e
  have hil : i.length = (a.lcs.take (a.rank - k)).length := by rw [hi.length_eq, List.length_map]
  have hqo : qOf r.lcs (i ++ j) = qOf (a.lcs.take (a.rank - k)) i ++ qOf (b.lcs.drop k) j := by
    rw [hlcs, qOf_append _ _ _ _ hil]
  have hwo : wOf r.lcs (i ++ j) = wOf (a.lcs.take (a.rank - k)) i ++ wOf (b.lcs.drop k) j := by
    rw [hlcs, wOf_append _ _ _ _ hil]
  have hqil : (qOf (a.lcs.take (a.rank - k)) i).length = a.rank - k := by
    rw [qOf_length _ _ hil, lcs_take_len a _ (Nat.sub_le _ _)]
  rw [dense_side a b k c.h i j hi hj, ← common_sum a b k c.h aT bT c.pa c.sa c.pb c.sb]
  cases hS : Arr.commonSorted (grp aT (qOf (a.lcs.take (a.rank - k)) i)) (grp bT (qOf (b.lcs.drop k) j)) with
  | nil =>
    rw [entry_of_not_mem' r (i ++ j) (by rw [hzip, hqo]; exact c.out_absent _ _ hqil hS)]
    simp
  | cons p ps =>
    have hpres := c.out_present _ _ p ps hS (c.common_ok hok _ _ (by rw [hS]; simp))
    rw [entry_of_mem' r hk (i ++ j) (foldBlk k p ps) (by rw [hzip, hqo]; exact hpres), hwo]
    exact (foldBlk_spec k _ p ps (fun q hq => c.common_shape _ _ q (by rw [hS]; exact hq)) _).2.2

/-- well-formedness of a tensor carrying the worker's output -/
theorem Ctx.wf (c : Ctx a b k aT bT) (r : Arr α)
    (hlegs : r.legs = a.legs.take (a.rank - k) ++ b.legs.drop k)
    (hq : r.qdata = (outOf a b k (Arr.groupKeep aT) (Arr.groupKeep bT)).map (·.1))
    (hd : r.data = (outOf a b k (Arr.groupKeep aT) (Arr.groupKeep bT)).map (·.2))
    (hlab : r.labels.length = r.rank) : r.WF := by
  have hlcs := lcs_of_legs r (a.rank - k) hlegs
  have hzip : r.qdata.zip r.data = outOf a b k (Arr.groupKeep aT) (Arr.groupKeep bT) := by
    rw [hq, hd, zip_map_fst_snd]
  apply WF_of_parts r hlab (by rw [hq, hd]; simp) (by rw [hq]; exact c.out_rows_nodup)
  · intro l hl
    rw [hlcs] at hl
    rcases List.mem_append.1 hl with h1 | h1
    · exact c.h.wa.shapes l (List.mem_of_mem_take h1)
    · exact c.h.wb.shapes l (List.mem_of_mem_drop h1)
  · intro q hqm
    rw [hq] at hqm
    obtain ⟨e, he, rfl⟩ := List.mem_map.1 hqm
    obtain ⟨qi, qj, p, ps, l1, _, r1, r2, _, rfl⟩ := c.out_mem e he
    rw [hlcs, List.map_append]
    exact (InRange_append r1.length_eq).2 ⟨r1, r2⟩
  · intro rb hrb
    rw [hzip] at hrb
    obtain ⟨qi, qj, p, ps, l1, _, r1, r2, hS, rfl⟩ := c.out_mem rb hrb
    obtain ⟨s1, s2, _⟩ := foldBlk_spec k _ p ps (fun q hq => c.common_shape qi qj q (by rw [hS]; exact hq)) []
    refine ⟨?_, s2⟩
    simp only
    rw [s1, hlcs, blockShapeOf_append _ _ _ _ (by rw [l1, lcs_take_len a _ (Nat.sub_le _ _)])]
  · intro _
    rw [hq]
    apply isLexsorted_of_pairwise
    rw [List.pairwise_map]
    exact c.out_sorted.imp (fun h => h.1)

end worker
end TenpyModel.C01B2
