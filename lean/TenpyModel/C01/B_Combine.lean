import TenpyModel.C01.B_Pipe
/-!
C01 part B / C06 — `combine_legs` fusing **all** legs of a tensor into one pipe (standard form, `combineStd`):
the entry at `map_incoming_flat(idx)` of the result is the entry at `idx` of the operand. All three branches of the
code (no block, one block, `_combine_legs_worker`).
-/
namespace TenpyModel.C01B
open TenpyModel.Core

variable {α : Type}

theorem nonComb_all (n : Nat) : (List.range n).filter (fun x => !([List.range n].flatten).contains x) = [] := by
  apply List.filter_eq_nil_iff.2
  intro x hx
  simp at hx
  simp [hx]

theorem legs_all (legs : List ALeg) (pl : ALeg) :
    List.foldl (fun (ls : List ALeg) (np : Nat × ALeg) => Dense.insertAt ls (Arr.insertPos ls.length ↑np.1) np.2)
      (pick legs [] default) ([0].zip [pl]) = [pl] := by
  simp [pick, Dense.insertAt, Arr.insertPos]

theorem zeros_ok' (mods : List Nat) (legs : List ALeg) (qt : Option Charge) (ls : List Label) (r : Arr α)
    (h : Arr.zeros mods legs qt (some ls) = .ok r) :
    r = { mods, legs, qtotal := makeValid mods (qt.getD (czero mods.length)),
          labels := ls, qdata := [], data := [], qdataSorted := true } := by
  unfold Arr.zeros at h
  split at h
  · simp at h
  · split at h
    · simp at h
    · simp only [Arr.isetLegLabels] at h
      split at h
      · simp at h
      · split at h
        · simp at h
        · simp only [Except.ok.injEq] at h
          exact h.symm

/-- source rows of `_combine_legs_worker` when all legs are fused into one pipe -/
def cRows (a : Arr α) (p : Pipe) : List ((List Nat × List Nat × List Nat) × Blk α) :=
  (a.qdata.zip a.data).map (fun rb => (Arr.combineRow a.lcs 1 [List.range a.rank] [] [0] [] [p] rb.1, rb.2))

/-- the block written for one group of source rows -/
def cFold [Zero α] (lcs : List Leg) (g : List Nat × List (List Nat × List Nat × Blk α)) : Blk α :=
  g.2.foldl (fun nb s => nb.setBlock s.1 (s.2.2.reshape s.2.1)) (Dense.zeros (blockShapeOf lcs g.1))

/-- the groups of target blocks: distinct keys, every member is a source row with that key, every source row is a
member of the group of its key -/
structure GroupSpec (G : List (List Nat × List (List Nat × List Nat × Blk α)))
    (rows : List ((List Nat × List Nat × List Nat) × Blk α)) : Prop where
  nodup : (G.map (·.1)).Nodup
  sound : ∀ g ∈ G, ∀ s ∈ g.2, ((g.1, s.1, s.2.1), s.2.2) ∈ rows
  complete : ∀ e ∈ rows, ∃ g ∈ G, g.1 = e.1.1 ∧ (e.1.2.1, e.1.2.2, e.2) ∈ g.2

theorem groupSpec_worker (rows : List ((List Nat × List Nat × List Nat) × Blk α)) :
    GroupSpec (Arr.groupRuns ((pick rows (lexsortNat (rows.map (fun x => x.1.1))) (([], [], []), ⟨[], []⟩)).map
      (fun r => (r.1.1, r.1.2.1, r.1.2.2, r.2)))) rows := by
  obtain ⟨hperm, hsorted⟩ := pick_lexsort rows (fun x => x.1.1) (([], [], []), ⟨[], []⟩)
  have hadj := adj_of_sorted (β := List Nat × List Nat × Blk α)
    (fun a b : List Nat => lexLE (a.map Int.ofNat) (b.map Int.ofNat) = true)
    (fun a b => natRows_lexLE_antisymm a b)
    ((pick rows (lexsortNat (rows.map (fun x => x.1.1))) (([], [], []), ⟨[], []⟩)).map
      (fun r => (r.1.1, r.1.2.1, r.1.2.2, r.2)))
    (by rw [List.pairwise_map]; exact hsorted)
  obtain ⟨s1, s2, s3⟩ := groupRuns_spec _ hadj
  refine ⟨s2, ?_, ?_⟩
  · intro g hg s hs
    rw [(s1 g hg).1] at hs
    obtain ⟨x, hx, rfl⟩ := List.mem_map.1 hs
    have hx' := List.mem_filter.1 hx
    obtain ⟨e, he, rfl⟩ := List.mem_map.1 hx'.1
    have hk : e.1.1 = g.1 := by simpa using hx'.2
    rw [← hk]
    exact hperm.mem_iff.1 he
  · intro e he
    have he' := hperm.mem_iff.2 he
    have hm : (e.1.1, e.1.2.1, e.1.2.2, e.2) ∈ (pick rows (lexsortNat (rows.map (fun x => x.1.1)))
        (([], [], []), ⟨[], []⟩)).map (fun r => (r.1.1, r.1.2.1, r.1.2.2, r.2)) := List.mem_map.2 ⟨e, he', rfl⟩
    have := s3 _ hm
    obtain ⟨g, hg, hgk⟩ := List.mem_map.1 this
    refine ⟨g, hg, hgk, ?_⟩
    rw [(s1 g hg).1]
    refine List.mem_map.2 ⟨_, List.mem_filter.2 ⟨hm, by simp [hgk]⟩, rfl⟩

section zero
variable [Zero α]

/-- what `combineStd` returns when all legs go into the pipe `p` -/
theorem combineStd_all (a : Arr α) (ha : W a) (p : Pipe) (subs : List ALeg) (labels : List String) (r : Arr α)
    (h : a.combineStd [List.range a.rank] [0] [.pipe p subs] labels = .ok r) :
    r.legs = [.pipe p subs] ∧ r.mods = a.mods ∧ r.qtotal = makeValid a.mods a.qtotal
    ∧ ∃ G, GroupSpec G (cRows a p) ∧ r.qdata.zip r.data = G.map (fun g => (g.1, cFold [p.leg] g)) := by
  unfold Arr.combineStd at h
  simp only [nonComb_all, legs_all] at h
  simp only [bind, Except.bind, pure, Except.pure] at h
  split at h
  · simp at h
  · rename_i v hz
    have hv := zeros_ok' _ _ _ _ _ hz
    have hvr : v.rank = 1 := by rw [hv]; rfl
    have hvl : v.lcs = [p.leg] := by rw [hv]; rfl
    have hnn : List.filter (fun i => ![0].contains i) (List.range [ALeg.pipe p subs].length) = [] := rfl
    simp only [hvr, hnn, List.filterMap_cons, List.filterMap_nil, hvl] at h
    have hleg : v.legs = [.pipe p subs] := by rw [hv]
    have hmods : v.mods = a.mods := by rw [hv]
    have hqt : v.qtotal = makeValid a.mods a.qtotal := by rw [hv]; rfl
    have hvq : v.qdata = [] := by rw [hv]
    have hvd : v.data = [] := by rw [hv]
    clear hz hv
    split at h
    · -- no blocks
      rename_i h0
      simp only [Except.ok.injEq] at h
      subst h
      refine ⟨hleg, hmods, hqt, [], ⟨by simp, by simp, ?_⟩, by simp [hvq]⟩
      have hd : a.data = [] := List.length_eq_zero_iff.1 h0
      intro e he
      simp [cRows, hd] at he
    · split at h
      · -- one block
        rename_i h1
        have hlen : (a.qdata.zip a.data).length = 1 := by
          simp only [List.length_zip, ha.len]
          simpa [Arr.storedBlocks] using h1
        obtain ⟨rb, hrb⟩ := List.length_eq_one_iff.1 hlen
        simp only [hrb, List.map_cons, List.map_nil, Except.ok.injEq] at h
        subst h
        refine ⟨hleg, hmods, hqt,
          [((Arr.combineRow a.lcs 1 [List.range a.rank] [] [0] [] [p] rb.1).1,
            [((Arr.combineRow a.lcs 1 [List.range a.rank] [] [0] [] [p] rb.1).2.1,
              (Arr.combineRow a.lcs 1 [List.range a.rank] [] [0] [] [p] rb.1).2.2, rb.2)])], ⟨by simp, ?_, ?_⟩, ?_⟩
        · intro g hg s hs
          simp only [List.mem_singleton] at hg
          subst hg
          simp only [List.mem_singleton] at hs
          subst hs
          simp [cRows, hrb]
        · intro e he
          simp only [cRows, hrb, List.map_cons, List.map_nil, List.mem_singleton] at he
          subst he
          exact ⟨_, List.mem_singleton.2 rfl, rfl, List.mem_singleton.2 rfl⟩
        · simp [cFold]
      · -- the worker
        simp only [Except.ok.injEq] at h
        subst h
        refine ⟨hleg, hmods, hqt, _, groupSpec_worker (cRows a p), ?_⟩
        exact zip_map_same _ _ _

theorem combineRow_all (lcs : List Leg) (n : Nat) (p : Pipe) (q : List Nat) (hq : q.length = n) :
    Arr.combineRow lcs 1 [List.range n] [] [0] [] [p] q
      = ([(pipeRow p q).getD 2 0], [(pipeRow p q).getD 0 0], [(pipeRow p q).getD 1 0 - (pipeRow p q).getD 0 0]) := by
  have hp : pick q (List.range n) 0 = q := by rw [← hq]; exact map_getD_range q 0
  simp [Arr.combineRow, pipeRow, hp]

theorem sbCond_one (s n x : Nat) : sbCond [s] [n] [x] = true ↔ s ≤ x ∧ x < s + n := by
  simp [sbCond]

theorem flatIdx_one (n x s : Nat) : Dense.flatIdx [n] (List.zipWith (fun i s => i - s) [x] [s]) = x - s := by
  simp [Dense.flatIdx, Dense.strides, Dense.prod]

theorem nodup_key_eq {β} (G : List (List Nat × β)) (h : (G.map (·.1)).Nodup) (g g' : List Nat × β) (hg : g ∈ G)
    (hg' : g' ∈ G) (e : g.1 = g'.1) : g = g' := by
  induction G with
  | nil => simp at hg
  | cons x G ih =>
    simp only [List.map_cons, List.nodup_cons] at h
    rcases List.mem_cons.1 hg with rfl | hg1 <;> rcases List.mem_cons.1 hg' with rfl | hg1'
    · rfl
    · exact absurd (List.mem_map.2 ⟨g', hg1', e.symm⟩) h.1
    · exact absurd (List.mem_map.2 ⟨g, hg1, e⟩) h.1
    · exact ih h.2 hg1 hg1'

/-- **combine places entries where the pipe's index map says**: all legs of `a` fused into one pipe -/
theorem combine_all_entry (a : Arr α) (ha : W a) (qconj : Int) (sort bunch : Bool) (labels : List String) (r : Arr α)
    (h : a.combineStd [List.range a.rank] [0] [ALeg.mkPipe a.legs qconj sort bunch] labels = .ok r)
    (idx : List Nat) (hi : InRange idx a.shape) :
    ∃ f, (Pipe.init a.lcs qconj sort bunch).mapIncomingFlat (idx.map Int.ofNat) = some f
      ∧ f < (Pipe.init a.lcs qconj sort bunch).leg.indLen ∧ r.entry [f] = a.entry idx := by
  have hmk : ALeg.mkPipe a.legs qconj sort bunch = .pipe (Pipe.init a.lcs qconj sort bunch) a.legs := rfl
  rw [hmk] at h
  generalize hp : Pipe.init a.lcs qconj sort bunch = p at h ⊢
  obtain ⟨hlegs, _, _, G, hG, hzip⟩ := combineStd_all a ha p a.legs labels r h
  have hrl : r.lcs = [p.leg] := by simp [Arr.lcs, hlegs, ALeg.leg]
  obtain ⟨hq, hw, hsum⟩ := locate_idx a.lcs ha.shapes idx hi
  obtain ⟨pf, pwithin, pI, pfit, ploc⟩ := pipe_place a.lcs qconj sort bunch ha.shapes idx hi p hp.symm
  have hpsh : p.leg.Shape := by rw [← hp]; exact Pipe.leg_shape _ _ _ _
  -- abbreviations
  generalize hI : (pipeRow p (qOf a.lcs idx)).getD 2 0 = I at pf pI pfit ploc
  generalize hb0 : (pipeRow p (qOf a.lcs idx)).getD 0 0 = b0 at pf pfit ploc
  generalize hwi : withinOf a.lcs idx = within at pf pwithin ploc
  generalize hbs : Pipe.blockSizeOf a.lcs (qOf a.lcs idx) = bs at pwithin pfit
  have hflt : p.leg.slices.getD I 0 + b0 + within < p.leg.indLen := by
    have := (locate_block hpsh I (b0 + within) pI (by omega)).1
    omega
  refine ⟨_, pf, hflt, ?_⟩
  have hqr : qOf r.lcs [p.leg.slices.getD I 0 + b0 + within] = [I] := by
    rw [hrl]; show [(p.leg.locate _).1] = [I]; rw [ploc]
  have hwr : wOf r.lcs [p.leg.slices.getD I 0 + b0 + within] = [b0 + within] := by
    rw [hrl]; show [(p.leg.locate _).2] = [b0 + within]; rw [ploc]
  have hkf : ∀ x ∈ r.qdata.zip r.data, ∀ y ∈ r.qdata.zip r.data, x.1 = y.1 → x = y := by
    rw [hzip]
    intro x hx y hy e
    obtain ⟨g, hg, rfl⟩ := List.mem_map.1 hx
    obtain ⟨g', hg', rfl⟩ := List.mem_map.1 hy
    rw [nodup_key_eq G hG.nodup g g' hg hg' e]
  -- every source row has the combineRow of `combineRow_all`
  have hrow : ∀ rb ∈ a.qdata.zip a.data, Arr.combineRow a.lcs 1 [List.range a.rank] [] [0] [] [p] rb.1
      = ([(pipeRow p rb.1).getD 2 0], [(pipeRow p rb.1).getD 0 0],
         [(pipeRow p rb.1).getD 1 0 - (pipeRow p rb.1).getD 0 0]) :=
    fun rb hrb => combineRow_all a.lcs a.rank p rb.1 (ha.rowLen _ (List.of_mem_zip hrb).1)
  have hwidth : ∀ q', InRange q' (a.lcs.map Leg.blockNumber) →
      (pipeRow p q').getD 1 0 - (pipeRow p q').getD 0 0 = Pipe.blockSizeOf a.lcs q' := by
    intro q' hq'
    have := pipe_width a.lcs qconj sort bunch ha.shapes q' hq'
    rw [hp] at this
    unfold pipeRow
    omega
  have hbsq : ∀ (q' : List Nat) (ba : Blk α), (q', ba) ∈ a.qdata.zip a.data →
      ba.vals.length = Pipe.blockSizeOf a.lcs q' := by
    intro q' ba hm
    rw [ha.blkGood _ hm, ha.blkShape _ hm, Pipe.blockSizeOf_eq_sizesOf, sizesOf_eq]
  -- the value read from a group with key `[I]`
  have hgroup : ∀ g ∈ G, g.1 = [I] → (cFold [p.leg] g).get 0 [b0 + within] = a.entry idx := by
    intro g hg hgk
    unfold cFold
    have hshape0 : blockShapeOf [p.leg] g.1 = [p.leg.blockSizes.getD I 0] := by rw [hgk]; rfl
    apply fold_setBlock (fun s : List Nat × List Nat × Blk α => s.1) (fun s => s.2.2.reshape s.2.1)
      [b0 + within] (a.entry idx) g.2 _ (zeros_good _)
    · show InRange [b0 + within] (blockShapeOf [p.leg] g.1)
      rw [hshape0]; exact ⟨by omega, trivial⟩
    · intro s hs hc z
      have hmem := hG.sound g hg s hs
      obtain ⟨rb, hrb, hrbe⟩ := List.mem_map.1 hmem
      rw [hrow rb hrb, hgk] at hrbe
      simp only [Prod.mk.injEq] at hrbe
      obtain ⟨⟨hI', hs1, hs2⟩, hblk⟩ := hrbe
      have hq' := ha.rowIn' rb.1 (List.of_mem_zip hrb).1
      have hw' := hwidth rb.1 hq'
      simp only [Dense.reshape] at hc ⊢
      rw [← hs1, ← hs2] at hc ⊢
      rw [sbCond_one] at hc
      rw [flatIdx_one]
      have hI'' : (pipeRow p (qOf a.lcs idx)).getD 2 0 = (pipeRow p rb.1).getD 2 0 := by
        rw [hI]; simpa using hI'.symm
      have hqq : qOf a.lcs idx = rb.1 :=
        pipe_disjoint a.lcs qconj sort bunch ha.shapes _ _ hq hq' p hp.symm hI'' (b0 + within)
          (by rw [hb0]; omega) (by rw [hb0, hbs]; omega) hc.1 (by rw [← hw']; exact hc.2)
      rw [← hqq, hb0] at hc ⊢
      have hmem' : (qOf a.lcs idx, s.2.2) ∈ a.qdata.zip a.data := by rw [hqq, ← hblk]; exact hrb
      rw [entry_of_mem a ha.nodup idx s.2.2 hmem', get_inRange 0 _ _ (by rw [ha.blkShape _ hmem']; exact hw),
        ha.blkShape _ hmem']
      have e : b0 + within - b0 = dot (wOf a.lcs idx) (makeStrideC (blockShapeOf a.lcs (qOf a.lcs idx))) := by
        rw [← hwi]; unfold withinOf; omega
      rw [e]
      have hlt : dot (wOf a.lcs idx) (makeStrideC (blockShapeOf a.lcs (qOf a.lcs idx))) < s.2.2.vals.length := by
        rw [hbsq _ _ hmem', hbs, ← e]; omega
      rw [getD_lt _ _ z hlt, getD_lt _ _ 0 hlt]
    · by_cases hma : qOf a.lcs idx ∈ a.qdata
      · left
        obtain ⟨ba, hba⟩ := mem_zip_of_mem_left _ _ ha.len _ hma
        have he : (Arr.combineRow a.lcs 1 [List.range a.rank] [] [0] [] [p] (qOf a.lcs idx), ba) ∈ cRows a p :=
          List.mem_map.2 ⟨_, hba, rfl⟩
        obtain ⟨g', hg', hk', hm'⟩ := hG.complete _ he
        rw [hrow _ hba] at hk' hm'
        simp only [hI, hb0] at hk' hm'
        have : g' = g := nodup_key_eq G hG.nodup g' g hg' hg (by rw [hk', hgk])
        subst this
        refine ⟨_, hm', ?_⟩
        simp only [Dense.reshape]
        have hw1 := hwidth _ hq
        rw [hb0, hbs] at hw1
        rw [sbCond_one, hw1]
        omega
      · right
        rw [entry_of_not_mem a idx hma, zeros_get]
  by_cases hex : ∃ g ∈ G, g.1 = [I]
  · obtain ⟨g, hg, hgk⟩ := hex
    have hmem : (qOf r.lcs [p.leg.slices.getD I 0 + b0 + within], cFold [p.leg] g) ∈ r.qdata.zip r.data := by
      rw [hzip, hqr, ← hgk]
      exact List.mem_map.2 ⟨g, hg, rfl⟩
    rw [entry_of_mem' r hkf _ _ hmem, hwr]
    exact hgroup g hg hgk
  · have hzero : a.entry idx = 0 := by
      apply entry_of_not_mem
      intro hma
      obtain ⟨ba, hba⟩ := mem_zip_of_mem_left _ _ ha.len _ hma
      have he : (Arr.combineRow a.lcs 1 [List.range a.rank] [] [0] [] [p] (qOf a.lcs idx), ba) ∈ cRows a p :=
        List.mem_map.2 ⟨_, hba, rfl⟩
      obtain ⟨g', hg', hk', _⟩ := hG.complete _ he
      rw [hrow _ hba] at hk'
      simp only [hI] at hk'
      exact hex ⟨g', hg', hk'⟩
    rw [hzero]
    apply entry_of_not_mem'
    rw [hzip, hqr]
    intro e he heq
    obtain ⟨g, hg, rfl⟩ := List.mem_map.1 he
    exact hex ⟨g, hg, heq⟩

end zero
end TenpyModel.C01B
