import TenpyModel.C01.B_Inner
/-!
C01 part B — `trace`: the full trace of a rank-2 tensor (the branch of `trace` that returns a scalar).
-/
namespace TenpyModel.C01B
open TenpyModel.Core

variable {α : Type}

theorem getLegIndex_lt (a : Arr α) (hl : a.labels.length = a.rank) (x : Ax) (i : Nat)
    (h : a.getLegIndex x = .ok i) : i < a.rank := by
  unfold Arr.getLegIndex at h
  cases x with
  | lbl s =>
    simp only at h
    split at h
    · simp only [Except.ok.injEq] at h
      omega
    · simp at h
  | idx j =>
    simp only at h
    by_cases hj : j < 0
    · simp only [hj, if_true] at h
      split at h
      · simp at h
      · simp only [Except.ok.injEq] at h
        omega
    · simp only [hj, if_false] at h
      split at h
      · simp at h
      · simp only [Except.ok.injEq] at h
        omega

section tr
variable [CommSemiring α]

theorem sum_ite_eq_of_nodup {ι} [DecidableEq ι] (L : List ι) (hn : L.Nodup) (i : ι) (hi : i ∈ L) (c : α) :
    (L.map (fun j => if i = j then c else 0)).sum = c := by
  induction L with
  | nil => simp at hi
  | cons x L ih =>
    simp only [List.map_cons, List.sum_cons]
    have hx := (List.nodup_cons.1 hn)
    by_cases hix : i = x
    · subst hix
      rw [if_pos rfl, sum_map_zero _ _ (fun j hj => by
        have : i ≠ j := fun e => hx.1 (e ▸ hj)
        simp [this]), add_zero]
    · rw [if_neg hix, zero_add]
      exact ih hx.2 (by simpa [hix] using hi)

/-- `np.trace` of a matrix -/
theorem trace01 (d : Dense α) (n0 n1 : Nat) (hs : d.shape = [n0, n1]) :
    Dense.sum (Dense.trace d 0 1).vals = ((List.range (min n0 n1)).map (fun t => d.get 0 [t, t])).sum := by
  have hr : d.rank = 2 := by simp [Dense.rank, hs]
  have h2 : List.range 2 = [0, 1] := rfl
  simp only [Dense.trace, hr, h2, hs]
  simp [Dense.ofFn, Dense.allIdx, Dense.sum, dsum_eq]
  rw [← dsum_eq, Dense.sum]

theorem trace_unfold (a : Arr α) (l1 l2 : Ax) (v : Val α) (h : a.trace l1 l2 = .ok v) (hr : a.rank = 2) :
    ∃ ax1 ax2, a.getLegIndex l1 = .ok ax1 ∧ a.getLegIndex l2 = .ok ax2 ∧ ax1 ≠ ax2
      ∧ (a.lc ax1).testContractible (a.lc ax2) = true
      ∧ v = .scalar (Dense.sum ((a.qdata.zip a.data).map (fun rb =>
          if rb.1.getD 0 0 = rb.1.getD 1 0 then Dense.sum ((rb.2.trace 0 1).vals) else 0))) := by
  unfold Arr.trace at h
  cases h1 : a.getLegIndex l1 with
  | error e => simp [h1, bind, Except.bind] at h
  | ok ax1 =>
    cases h2 : a.getLegIndex l2 with
    | error e => simp [h1, h2, bind, Except.bind] at h
    | ok ax2 =>
      simp only [h1, h2, bind, Except.bind, pure, Except.pure] at h
      split at h
      · simp [throw, throwThe, MonadExceptOf.throw] at h
      · rename_i hne
        split at h
        · simp [throw, throwThe, MonadExceptOf.throw] at h
        · rename_i hc
          simp only [Except.ok.injEq] at h
          exact ⟨ax1, ax2, rfl, rfl, hne, by simpa using hc, h.symm⟩

/-- the scalar branch of `trace`: `Σ_t a[t, t]` -/
theorem trace_scalar (a : Arr α) (ha : W a) (l1 l2 : Ax) (v : Val α) (h : a.trace l1 l2 = .ok v) (hr : a.rank = 2) :
    v = .scalar (((List.range (a.shape.getD 0 0)).map (fun t => a.entry [t, t])).sum)
    ∧ v = .scalar (Dense.sum (Dense.trace a.toDense 0 1).vals)
    ∧ a.shape.getD 0 0 = a.shape.getD 1 0 := by
  obtain ⟨ax1, ax2, h1, h2, hne, hc, hv⟩ := trace_unfold a l1 l2 v h hr
  have lt1 := getLegIndex_lt a ha.labLen l1 ax1 h1
  have lt2 := getLegIndex_lt a ha.labLen l2 ax2 h2
  -- the two legs
  obtain ⟨L0, L1, hlegs⟩ : ∃ L0 L1, a.legs = [L0, L1] := by
    have : a.legs.length = 2 := hr
    match hl : a.legs, this with
    | [x, y], _ => exact ⟨x, y, rfl⟩
  have hlcs : a.lcs = [L0.leg, L1.leg] := by simp [Arr.lcs, hlegs]
  have hlc0 : a.lc 0 = L0.leg := by simp [Arr.lc, hlegs]
  have hlc1 : a.lc 1 = L1.leg := by simp [Arr.lc, hlegs]
  have hsl : L0.leg.slices = L1.leg.slices := by
    have : (ax1 = 0 ∧ ax2 = 1) ∨ (ax1 = 1 ∧ ax2 = 0) := by omega
    rcases this with ⟨e1, e2⟩ | ⟨e1, e2⟩
    · rw [e1, e2, hlc0, hlc1] at hc; exact slices_of_testContractible _ _ hc
    · rw [e1, e2, hlc0, hlc1] at hc; exact (slices_of_testContractible _ _ hc).symm
  have hsh0 : L0.leg.Shape := ha.shapes _ (by rw [hlcs]; simp)
  have hsh1 : L1.leg.Shape := ha.shapes _ (by rw [hlcs]; simp)
  have hbs : L0.leg.blockSizes = L1.leg.blockSizes := by simp [Leg.blockSizes, hsl]
  have hbn : L0.leg.blockNumber = L1.leg.blockNumber := by
    have e1 := hsh0.len; have e2 := hsh1.len
    rw [hsl] at e1; unfold Leg.blockNumber; omega
  have hil : L0.leg.indLen = L1.leg.indLen := Arr.indLen_congr _ _ hsl
  have hshape : a.shape = [L0.leg.indLen, L1.leg.indLen] := by simp [Arr.shape, hlcs]
  have hn0 : a.shape.getD 0 0 = L0.leg.indLen := by rw [hshape]; rfl
  have hn1 : a.shape.getD 1 0 = L1.leg.indLen := by rw [hshape]; rfl
  -- dense side
  have hdense : Dense.sum (Dense.trace a.toDense 0 1).vals
      = ((List.range L0.leg.indLen).map (fun t => a.entry [t, t])).sum := by
    rw [trace01 a.toDense _ _ (by rw [toDense_shape, hshape]), ← hil, Nat.min_self]
    apply sum_map_congr
    intro t ht
    apply toDense_get
    rw [hshape]
    exact ⟨List.mem_range.1 ht, by rw [← hil]; exact List.mem_range.1 ht, trivial⟩
  -- model side
  let H : Nat → α := fun q0 => ((List.range (L0.leg.blockSizes.getD q0 0)).map (fun w =>
    a.entry [L0.leg.slices.getD q0 0 + w, L0.leg.slices.getD q0 0 + w])).sum
  let G' : List Nat → α := fun r => if r.getD 0 0 = r.getD 1 0 then H (r.getD 0 0) else 0
  have hbnl : a.lcs.map Leg.blockNumber = [L0.leg.blockNumber, L1.leg.blockNumber] := by simp [hlcs]
  have hstart : ∀ q0, blockStartOf a.lcs [q0, q0] = [L0.leg.slices.getD q0 0, L0.leg.slices.getD q0 0] := by
    intro q0; simp [hlcs, blockStartOf, hsl]
  have hbshape : ∀ q0, blockShapeOf a.lcs [q0, q0] = [L0.leg.blockSizes.getD q0 0, L0.leg.blockSizes.getD q0 0] := by
    intro q0; simp [hlcs, blockShapeOf, hbs]
  have s1 : ∀ rb ∈ a.qdata.zip a.data,
      (if rb.1.getD 0 0 = rb.1.getD 1 0 then Dense.sum ((rb.2.trace 0 1).vals) else 0) = G' rb.1 := by
    intro rb hrb
    obtain ⟨r, blk⟩ := rb
    have hin := ha.rowIn' r (List.of_mem_zip hrb).1
    rw [hbnl] at hin
    match r, hin with
    | [r0, r1], hin =>
      simp only [G', List.getD_cons_zero, List.getD_cons_succ]
      by_cases he : r0 = r1
      · subst he
        rw [if_pos rfl, if_pos rfl]
        have hsb := ha.blkShape _ hrb
        simp only at hsb
        rw [hbshape] at hsb
        rw [trace01 blk _ _ hsb, Nat.min_self]
        apply sum_map_congr
        intro t ht
        have hw : InRange [t, t] (blockShapeOf a.lcs [r0, r0]) := by
          rw [hbshape]; exact ⟨List.mem_range.1 ht, List.mem_range.1 ht, trivial⟩
        have := entry_block a ha [r0, r0] blk hrb [t, t] hw
        rw [hstart] at this
        exact this.symm
      · rw [if_neg he, if_neg he]
  have s2 : ((gridC (a.lcs.map Leg.blockNumber)).map G').sum = (a.qdata.map G').sum := by
    apply sum_support _ _ G' (Pipe.gridC_nodup _) ha.nodup
    · intro q hq; exact (mem_gridC _ _).2 (ha.rowIn' q hq)
    · intro r hr hnr
      have hin := (mem_gridC _ _).1 hr
      have hin' := hin
      rw [hbnl] at hin'
      match r, hin', hin, hnr with
      | [r0, r1], _, hin, hnr =>
        simp only [G', List.getD_cons_zero, List.getD_cons_succ]
        by_cases he : r0 = r1
        · subst he
          rw [if_pos rfl]
          apply sum_map_zero
          intro t ht
          have hw : InRange [t, t] (blockShapeOf a.lcs [r0, r0]) := by
            rw [hbshape]; exact ⟨List.mem_range.1 ht, List.mem_range.1 ht, trivial⟩
          have := entry_noblock a ha [r0, r0] hin hnr [t, t] hw
          rw [hstart] at this
          exact this
        · rw [if_neg he]
  have s3 : ((gridC (a.lcs.map Leg.blockNumber)).map G').sum = ((List.range L0.leg.blockNumber).map H).sum := by
    rw [hbnl]
    simp only [gridC, List.map_flatMap, sum_flatMap', List.map_map, List.map_cons, List.map_nil,
      List.sum_cons, List.sum_nil, add_zero, Function.comp_def, G', List.getD_cons_zero, List.getD_cons_succ]
    apply sum_map_congr
    intro q0 hq0
    exact sum_ite_eq_of_nodup _ List.nodup_range q0 (by rw [← hbn]; exact hq0) _
  have hmain : Dense.sum ((a.qdata.zip a.data).map (fun rb =>
      if rb.1.getD 0 0 = rb.1.getD 1 0 then Dense.sum ((rb.2.trace 0 1).vals) else 0))
      = ((List.range L0.leg.indLen).map (fun t => a.entry [t, t])).sum := by
    rw [dsum_eq, List.map_congr_left s1, sum_leg_blocks hsh0, ← s3, s2]
    conv => rhs; rw [← map_fst_zip' a.qdata a.data ha.len, List.map_map]
    rfl
  exact ⟨by rw [hv, hmain, hn0], by rw [hv, hmain, hdense], by rw [hn0, hn1, hil]⟩

end tr
end TenpyModel.C01B
